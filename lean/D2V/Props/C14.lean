import D2V.Model.Import
import Batteries.Data.List.Perm
/-!
  C14 — Imports behave like inlining, and import cycles are always reported.

  Theorems over the model of `pushImportStack` / `__import` (`Model/Import.lean`), which the driver compares with the
  real compiler on every generated file set (cyclic chains and missing paths predicted by `walk` must be the ones
  the compiler reports, text included) and on random path spellings (`normalise`).

  * `push_cycle_iff`          the cycle test fires exactly when the normalised path is already on the import stack
  * `walkImp_cycle_always`    … and then an error is recorded, also when earlier errors exist
  * `cycle_reported`          for every import stack the recursion can reach, an import that leads back to a file
                              on the stack makes the error list non-empty
  * `import_terminates`       the recursion depth is bounded by the number of files that open (+ the entry, + the
                              failing push): with fuel `|fs| + 2` the model never runs out of fuel
  * `cycle_reported_real`     both together: the recorded event is a genuine error (cycle or missing file)

  * `C14_import_is_inline_partial` (flat fragment: objects with attributes and deletions, every file's imports at the top
                              of the file) compiling the imported file in its own map and overlaying it gives the
                              board of the inlined declarations (`overlay_empty`: overlaying onto an empty map copies)

  Beyond that fragment the "imports behave like inlining" clause is checked per run: compile(file set) =
  compile(inline file set) with `inline` a Lean function, both through the real compiler.
-/
namespace D2V.Import

/-! ### the cycle test -/

theorem push_cycle_iff (stack : List String) (raw : String) :
    (∃ m, push stack raw = .cycle m) ↔ normalise stack raw ∈ stack := by
  unfold push
  by_cases h : stack.contains (normalise stack raw) = true
  · simp only [h, if_true]
    constructor
    · intro _; simpa using h
    · intro _; exact ⟨_, rfl⟩
  · simp only [h]
    constructor
    · rintro ⟨m, hm⟩; cases hm
    · intro hm; exact absurd (by simpa using hm) h

theorem push_pushed {stack stack' : List String} {raw p : String} (h : push stack raw = .pushed stack' p) :
    stack' = stack ++ [p] ∧ p ∉ stack ∧ p = normalise stack raw := by
  by_cases hc : normalise stack raw ∈ stack
  · simp [push, hc] at h
  · simp only [push, List.contains_eq_mem, hc, decide_false, Bool.false_eq_true, if_false,
      Push.pushed.injEq] at h
    obtain ⟨h1, h2⟩ := h
    subst h2
    exact ⟨h1.symm, hc, rfl⟩

/-- a cyclic import is recorded even when errors have already been recorded (`failed`) -/
theorem walkImp_cycle_always (n : Nat) (fs : FS) (stack : List String) (failed : Bool) (raw m : String)
    (h : push stack raw = .cycle m) : walkImp (n + 1) fs stack failed raw = [.cycle m] := by
  simp [walkImp_succ, h]

/-- if no event at all is recorded below `stack`, then no import of the file on top of `stack` closes a cycle, and
    every file it imports was walked without event either -/
theorem walkList_nil_inv (n : Nat) (fs : FS) (stack : List String) (failed : Bool) (imps : List String)
    (he : walkList n fs stack failed imps = []) (r : String) (hr : r ∈ imps) :
    normalise stack r ∉ stack ∧
    ∀ stack' p imps', push stack r = .pushed stack' p → fs.get? p = some imps' → failed = false →
      ∃ k, n = k + 1 ∧ walkList k fs stack' false imps' = [] := by
  -- `failed` can only be false along the whole list when nothing was recorded
  have key : ∀ (failed : Bool) (xs : List String), walkList n fs stack failed xs = [] → ∀ r ∈ xs,
      walkImp n fs stack failed r = [] := by
    intro failed xs
    induction xs generalizing failed with
    | nil => intro _ r hr; cases hr
    | cons x xs ih =>
      intro he r hr
      rw [walkList_cons] at he
      simp only [List.append_eq_nil_iff] at he
      rcases List.mem_cons.mp hr with rfl | hm
      · exact he.1
      · have := ih (failed || !(walkImp n fs stack failed x).isEmpty) he.2 r hm
        simpa [he.1] using this
  have hw := key failed imps he r hr
  cases n with
  | zero => simp [walkImp] at hw
  | succ k =>
    rw [walkImp_succ] at hw
    constructor
    · intro hmem
      obtain ⟨m, hm⟩ := (push_cycle_iff stack r).mpr hmem
      simp [hm] at hw
    · intro stack' p imps' hp hg hf
      subst hf
      simp only [hp, hg] at hw
      exact ⟨k, rfl, by simpa using hw⟩

/-- import stacks the recursion reaches from the entry file -/
inductive Reach (fs : FS) (entry : String) : List String → Prop
  | entry : Reach fs entry [entry]
  | step {stack stack' : List String} {top p r : String} {imps : List String} :
      Reach fs entry stack → stack.getLast? = some top → fs.get? top = some imps → r ∈ imps →
      push stack r = .pushed stack' p → (fs.get? p).isSome → Reach fs entry stack'

theorem getLast_append_single (l : List String) (p : String) : (l ++ [p]).getLast? = some p := by
  simp

/-- main lemma: an event-free walk has visited every reachable stack, event-free -/
theorem reach_walked (fs : FS) (entry : String) (fuel : Nat) (imps0 : List String)
    (h0 : fs.get? entry = some imps0) (he : walkList fuel fs [entry] false imps0 = []) :
    ∀ stack, Reach fs entry stack → ∃ k top imps, stack.getLast? = some top ∧ fs.get? top = some imps ∧
      walkList k fs stack false imps = [] := by
  intro stack hr
  induction hr with
  | entry => exact ⟨fuel, entry, imps0, by simp, h0, he⟩
  | @step stack stack' top p r imps _ htop hget hr hpush hsome ih =>
    obtain ⟨k, top', imps', htop', hget', hwalk⟩ := ih
    rw [htop] at htop'
    cases htop'
    rw [hget] at hget'
    cases hget'
    obtain ⟨imps'', hg''⟩ := Option.isSome_iff_exists.mp hsome
    obtain ⟨_, hinv⟩ := walkList_nil_inv k fs stack false imps hwalk r hr
    obtain ⟨k', _, hk'⟩ := hinv stack' p imps'' hpush hg'' rfl
    obtain ⟨hs, _, _⟩ := push_pushed hpush
    exact ⟨k', p, imps'', by rw [hs]; simp, hg'', hk'⟩

/-- a stack beyond the entry is reachable only if the entry file opens -/
theorem reach_entry_opens (fs : FS) (entry : String) : ∀ stack, Reach fs entry stack → stack ≠ [entry] →
    ∃ imps0, fs.get? entry = some imps0 := by
  intro stack hr
  induction hr with
  | entry => intro h; exact absurd rfl h
  | @step s0 s1 t0 p0 r0 i0 _ ht0 hg0 _ _ _ ih =>
    intro _
    by_cases hs0 : s0 = [entry]
    · subst hs0
      simp only [List.getLast?_singleton, Option.some.injEq] at ht0
      subst ht0
      exact ⟨i0, hg0⟩
    · exact ih hs0

/-- **cycle_reported** — whenever the recursion can reach an import stack on which some import of the top file
    leads back to a file already on the stack, the error list is not empty (for any fuel: running out of fuel is
    itself recorded; `import_terminates` shows it does not happen with fuel `|fs| + 2`) -/
theorem cycle_reported (fs : FS) (entry : String) (fuel : Nat) (stack : List String) (top r : String)
    (imps : List String) (hreach : Reach fs entry stack) (htop : stack.getLast? = some top)
    (hget : fs.get? top = some imps) (hr : r ∈ imps) (hcyc : normalise stack r ∈ stack) :
    walk fuel fs entry ≠ [] := by
  intro he
  have hentry : ∃ imps0, fs.get? entry = some imps0 := by
    by_cases hs : stack = [entry]
    · subst hs
      simp only [List.getLast?_singleton, Option.some.injEq] at htop
      subst htop
      exact ⟨imps, hget⟩
    · exact reach_entry_opens fs entry stack hreach hs
  obtain ⟨imps0, h0⟩ := hentry
  unfold walk at he
  rw [h0] at he
  obtain ⟨k, top', imps', htop', hget', hwalk⟩ := reach_walked fs entry fuel imps0 h0 he stack hreach
  rw [htop] at htop'
  cases htop'
  rw [hget] at hget'
  cases hget'
  exact (walkList_nil_inv k fs stack false imps hwalk r hr).1 hcyc

/-! ### termination: depth ≤ number of distinct paths that open -/

theorem get_some_mem {fs : FS} {p : String} {imps : List String} (h : fs.get? p = some imps) :
    p ∈ fs.map (·.1) := by
  unfold FS.get? at h
  split at h
  · rename_i e he
    have := List.find?_some he
    have hm := List.mem_of_find?_eq_some he
    simp only [beq_iff_eq] at this
    exact List.mem_map.mpr ⟨e, hm, this⟩
  · cases h

theorem nodup_subset_length {l m : List String} (hn : l.Nodup) (hs : ∀ x ∈ l, x ∈ m) : l.length ≤ m.length :=
  (List.subperm_of_subset hn hs).length_le

/-- the stack below the entry has no repetition and consists of paths that open: then fuel `|fs| + 1 - depth`
    suffices -/
theorem walkImp_fuel (fs : FS) : ∀ (n : Nat) (e : String) (rest : List String) (failed : Bool) (raw : String),
    rest.Nodup → (∀ p ∈ rest, p ∈ fs.map (·.1)) → fs.length + 1 ≤ n + rest.length →
    Ev.outOfFuel ∉ walkImp n fs (e :: rest) failed raw
  | 0, e, rest, failed, raw, hn, hs, hk => by
    have := nodup_subset_length hn hs
    simp only [List.length_map] at this
    omega
  | n + 1, e, rest, failed, raw, hn, hs, hk => by
    rw [walkImp_succ]
    split
    · simp
    · rename_i stack' p hp
      obtain ⟨hs', hnot, _⟩ := push_pushed hp
      split
      · simp
      · rename_i imps hg
        split
        · simp
        · subst hs'
          have hp_rest : p ∉ rest := fun h => hnot (List.mem_cons_of_mem _ h)
          have hn' : (rest ++ [p]).Nodup := by
            rw [List.nodup_append]
            refine ⟨hn, by simp, ?_⟩
            intro a ha b hb
            simp only [List.mem_singleton] at hb
            subst hb
            intro hab
            exact hp_rest (hab ▸ ha)
          have hs'' : ∀ q ∈ rest ++ [p], q ∈ fs.map (·.1) := by
            intro q hq
            rcases List.mem_append.mp hq with h | h
            · exact hs q h
            · simp only [List.mem_singleton] at h
              subst h
              exact get_some_mem hg
          have hk' : fs.length + 1 ≤ n + (rest ++ [p]).length := by simp; omega
          -- the inner list, by induction, using the statement for the smaller fuel
          have inner : ∀ (failed : Bool) (xs : List String),
              Ev.outOfFuel ∉ walkList n fs (e :: (rest ++ [p])) failed xs := by
            intro failed xs
            induction xs generalizing failed with
            | nil => simp [walkList_nil]
            | cons x xs ih =>
              rw [walkList_cons]
              simp only [List.mem_append, not_or]
              exact ⟨walkImp_fuel fs n e (rest ++ [p]) failed x hn' hs'' hk', ih _⟩
          simpa using inner false imps

theorem walkList_fuel (fs : FS) (n : Nat) (e : String) (rest : List String) (hn : rest.Nodup)
    (hs : ∀ p ∈ rest, p ∈ fs.map (·.1)) (hk : fs.length + 1 ≤ n + rest.length) :
    ∀ (failed : Bool) (imps : List String), Ev.outOfFuel ∉ walkList n fs (e :: rest) failed imps := by
  intro failed imps
  induction imps generalizing failed with
  | nil => simp [walkList_nil]
  | cons x xs ih =>
    rw [walkList_cons]
    simp only [List.mem_append, not_or]
    exact ⟨walkImp_fuel fs n e rest failed x hn hs hk, ih _⟩

/-- **import_terminates** — the import recursion never exceeds depth `|fs| + 2` -/
theorem import_terminates (fs : FS) (entry : String) : Ev.outOfFuel ∉ walk (fuelFor fs) fs entry := by
  unfold walk
  split
  · simp
  · exact walkList_fuel fs (fuelFor fs) entry [] List.nodup_nil (by simp) (by simp [fuelFor]) false _

/-- both together: in a file set where the recursion reaches a cyclic import, the compiler records a genuine
    error (a cycle or a file that does not open) -/
theorem cycle_reported_real (fs : FS) (entry : String) (stack : List String) (top r : String)
    (imps : List String) (hreach : Reach fs entry stack) (htop : stack.getLast? = some top)
    (hget : fs.get? top = some imps) (hr : r ∈ imps) (hcyc : normalise stack r ∈ stack) :
    ∃ ev ∈ walk (fuelFor fs) fs entry, ev ≠ .outOfFuel := by
  have hne := cycle_reported fs entry (fuelFor fs) stack top r imps hreach htop hget hr hcyc
  have hnf := import_terminates fs entry
  cases hw : walk (fuelFor fs) fs entry with
  | nil => exact absurd hw hne
  | cons ev rest =>
    refine ⟨ev, List.mem_cons_self, ?_⟩
    intro h
    rw [hw, h] at hnf
    exact hnf List.mem_cons_self

end D2V.Import

namespace D2V.Import
/-! ### non-vacuity: a two-file cycle through different spellings -/
def fs2 : FS := [("index.d2", ["./x"]), ("x.d2", ["index.d2"])]

example : walk (fuelFor fs2) fs2 "index.d2" =
    [.cycle "detected cyclic import chain: index.d2 -> x.d2 -> index.d2"] := by decide

example : normalise ["index.d2", "sub/x.d2"] "../y" = "y.d2" := by decide
end D2V.Import

/-! ### the inlining clause on the flat fragment -/
namespace D2V.ImportFlat
open D2V.Boards

def names (c : Content) : List String := c.map (·.1)

theorem has_iff (c : Content) (n : String) : c.has n = true ↔ n ∈ names c := by
  simp only [Content.has, List.any_eq_true, names, List.mem_map, beq_iff_eq]

theorem has_false_iff (c : Content) (n : String) : c.has n = false ↔ n ∉ names c := by
  rw [← has_iff]; simp

/-- overlaying onto a map that shares no name with the overlay just appends it -/
theorem overlay_disjoint : ∀ (m base : Content), (names m).Nodup → (∀ n ∈ names m, n ∉ names base) →
    overlay base m = base ++ m
  | [], base, _, _ => by simp [overlay]
  | (n, a) :: rest, base, hnd, hdis => by
    have hn : base.has n = false := (has_false_iff base n).mpr (hdis n (by simp [names]))
    simp only [names, List.map_cons, List.nodup_cons] at hnd
    simp only [overlay, hn, Bool.false_eq_true, if_false]
    rw [overlay_disjoint rest (base ++ [(n, a)]) hnd.2]
    · simp
    · intro k hk
      simp only [names, List.map_append, List.map_cons, List.map_nil, List.mem_append, List.mem_singleton, not_or]
      refine ⟨hdis k (by simp [names]; right; simpa [names] using hk), ?_⟩
      intro hkn
      subst hkn
      exact hnd.1 (by simpa [names] using hk)

theorem overlay_empty (m : Content) (h : (names m).Nodup) : overlay [] m = m := by
  simpa using overlay_disjoint m [] h (by simp [names])

theorem names_map_same (c : Content) (f : String × Attrs → String × Attrs) (hf : ∀ e, (f e).1 = e.1) :
    names (c.map f) = names c := by
  simp [names, List.map_map, Function.comp_def, hf]

theorem applyOp_nodup (c : Content) (o : Op) (h : (names c).Nodup) : (names (applyOp c o)).Nodup := by
  cases o with
  | decl n =>
    simp only [applyOp]
    split
    · exact h
    · rename_i hn
      have hn' : n ∉ names c := (has_false_iff c n).mp (by simpa using hn)
      simp only [names, List.map_append, List.map_cons, List.map_nil]
      rw [List.nodup_append]
      refine ⟨h, by simp, ?_⟩
      intro a ha b hb
      simp only [List.mem_singleton] at hb
      subst hb
      intro hab
      exact hn' (hab ▸ ha)
  | set n k v =>
    simp only [applyOp]
    split
    · rw [names_map_same]
      · exact h
      · intro e
        split
        · rename_i he; simp only [beq_iff_eq] at he; exact he.symm
        · rfl
    · rename_i hn
      have hn' : n ∉ names c := (has_false_iff c n).mp (by simpa using hn)
      simp only [names, List.map_append, List.map_cons, List.map_nil]
      rw [List.nodup_append]
      refine ⟨h, by simp, ?_⟩
      intro a ha b hb
      simp only [List.mem_singleton] at hb
      subst hb
      intro hab
      exact hn' (hab ▸ ha)
  | del n =>
    simp only [applyOp, names]
    exact (List.Nodup.sublist (List.Sublist.map _ List.filter_sublist) h)

theorem applyOps_nodup : ∀ (ops : List Op) (c : Content), (names c).Nodup → (names (applyOps c ops)).Nodup
  | [], c, h => by simpa [applyOps] using h
  | o :: rest, c, h => by
    have := applyOps_nodup rest (applyOp c o) (applyOp_nodup c o h)
    simpa [applyOps] using this

theorem applyOps_append (c : Content) (a b : List Op) : applyOps c (a ++ b) = applyOps (applyOps c a) b := by
  simp [applyOps, List.foldl_append]

def noSpread : List FItem → Bool
  | [] => true
  | .op _ :: r => noSpread r
  | .spread _ :: _ => false

/-- imports only "at the top of the file" -/
def topOnly : List FItem → Bool
  | .spread _ :: r => noSpread r
  | l => noSpread l

def opsOf : List FItem → List Op
  | [] => []
  | .op o :: r => o :: opsOf r
  | .spread _ :: r => opsOf r

theorem evalF_noSpread : ∀ (items : List FItem) (n : Nat) (fs : Files) (dst : Content), noSpread items = true →
    evalF n fs items dst = applyOps dst (opsOf items) ∧ inlineF n fs items = opsOf items
  | [], n, fs, dst, _ => by simp [evalF, inlineF, opsOf, applyOps]
  | .op o :: r, n, fs, dst, h => by
    have ih := evalF_noSpread r n fs (applyOp dst o) (by simpa [noSpread] using h)
    simp [evalF, inlineF, opsOf, applyOps, ih.1, ih.2]
  | .spread _ :: _, _, _, _, h => by simp [noSpread] at h

/-- **C14_import_is_inline (flat fragment, imports at the top of files)**: compiling a file whose import sits at the
    top — the imported file being compiled in its own map and overlaid — gives the same board as compiling the
    inlined declarations -/
theorem C14_import_is_inline_partial : ∀ (n : Nat) (fs : Files) (items : List FItem),
    (∀ f ∈ fs, topOnly f = true) → topOnly items = true →
    evalF n fs items [] = applyOps [] (inlineF n fs items)
  | n, fs, [], _, _ => by simp [evalF, inlineF, applyOps]
  | n, fs, .op o :: r, _, ht => by
    have hr : noSpread (.op o :: r) = true := by simpa [topOnly] using ht
    have := evalF_noSpread (.op o :: r) n fs [] hr
    rw [this.1, this.2]
  | 0, fs, .spread i :: r, _, _ => by simp [evalF, inlineF, applyOps]
  | n + 1, fs, .spread i :: r, hfs, ht => by
    have hr : noSpread r = true := by simpa [topOnly] using ht
    have hfile : topOnly (fs.getD i []) = true := by
      by_cases hi : i < fs.length
      · have : fs.getD i [] = fs[i] := by simp [List.getD, hi]
        rw [this]
        exact hfs _ (List.getElem_mem hi)
      · have : fs.getD i [] = [] := by simp [List.getD, hi]
        rw [this]; rfl
    have ih := C14_import_is_inline_partial n fs (fs.getD i []) hfs hfile
    have hnd : (names (evalF n fs (fs.getD i []) [])).Nodup := by
      rw [ih]; exact applyOps_nodup _ [] (by simp [names])
    simp only [evalF, inlineF]
    rw [overlay_empty _ hnd, (evalF_noSpread r (n + 1) fs _ hr).1, (evalF_noSpread r (n + 1) fs [] hr).2, ih,
      applyOps_append]

end D2V.ImportFlat
