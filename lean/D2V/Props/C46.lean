import D2V.Proofs.Bundle
/-!
  C46 — Image bundling is independent of worker scheduling and failures.

  Main statements: `C46_order_independent` (any number of images, any schedule of the worker pool, any failing
  subset), `C46_bundle` (the same starting from the code's own `findAll`/`filterImgs`), `C46_two_schedules_agree`,
  `collector_sees_all`, `replace_commute`, `to_contains_no_from'`.
  Hypotheses forced by the proof, each with a proved counterexample when dropped:
    * `svgClean` — no image tag's attribute value contains `<` (true of every XML document) — `C46_cx_unclean_svg`;
    * `mimeClean` (`Img.OK.mimeClean`) — no `<` in the MIME type a server answers with — `C46_cx_hostile_mime`
      (replayed against the real bundler by the harness stream `hostile-mime`).
-/
namespace D2V.Bundle
/-! ### the result of every complete run -/

theorem find_unique {l : List Img} {p : Img → Bool} {i : Img} (hi : i ∈ l) (hp : p i = true)
    (hu : ∀ j ∈ l, p j = true → j = i) : l.find? p = some i := by
  cases h : l.find? p with
  | none => exact absurd hp (by simpa using (List.find?_eq_none.mp h) i hi)
  | some j =>
    obtain ⟨h1, h2⟩ := find_mem_prop h
    rw [hu j h1 h2]

theorem lookup_eq_sub (imgs delivered : List Img) (hu : UniqueHrefs imgs)
    (hin : ∀ i ∈ delivered, i ∈ imgs ∧ i.fails = false)
    (hall : ∀ i ∈ imgs, i.fails = false → i ∈ delivered) (h : Bytes) :
    lookup delivered h = sub imgs h := by
  unfold lookup sub
  by_cases hex : ∃ i ∈ imgs, i.href = h ∧ i.fails = false
  · obtain ⟨i, hi, hh, hf⟩ := hex
    have e1 : delivered.find? (hrefIs h) = some i :=
      find_unique (hall i hi hf) (by simp [hrefIs, hh])
        (fun j hj hp => hu j (hin j hj).1 i hi (by simp only [hrefIs, beq_iff_eq] at hp; rw [hp, hh]))
    have e2 : imgs.find? (fun i => i.href == h && !i.fails) = some i :=
      find_unique hi (by simp [hh, hf])
        (fun j hj hp => hu j hj i hi (by
          simp only [Bool.and_eq_true, beq_iff_eq] at hp; rw [hp.1, hh]))
    rw [e1, e2]
  · have e1 : delivered.find? (hrefIs h) = none := by
      apply List.find?_eq_none.mpr
      intro j hj hp
      exact hex ⟨j, (hin j hj).1, by simpa [hrefIs] using hp, (hin j hj).2⟩
    have e2 : imgs.find? (fun i => i.href == h && !i.fails) = none := by
      apply List.find?_eq_none.mpr
      intro j hj hp
      simp only [Bool.and_eq_true, beq_iff_eq, Bool.not_eq_true'] at hp
      exact hex ⟨j, hj, hp.1, hp.2⟩
    rw [e1, e2]

/-- **C46, segment form.**  For ANY number of images and ANY schedule of the worker pool (order of starts,
    completions, failures, exits — every step list the transition system admits) that reaches the collector's
    return: the returned text is the original with exactly the tags of the loaded images replaced by their data
    URIs (every other segment byte-for-byte unchanged), and the reported hrefs are exactly the failing ones. -/
theorem C46_order_independent_segments (pre : Bytes) (bodies : List Bytes) (imgs : List Img)
    (hpre : lt ∉ pre) (hb : ∀ b ∈ bodies, lt ∉ b) (hok : ∀ i ∈ imgs, i.OK) (hu : UniqueHrefs imgs)
    (steps : List PStep) (s : Pool) (v : Bytes) (e : List Bytes)
    (hrun : prun (Pool.init (pre ++ joinB bodies) imgs) steps = some s) (hret : s.ret = some (v, e)) :
    v = pre ++ joinB (bodies.map (specBody (sub imgs)))
      ∧ (∀ h, h ∈ e ↔ ∃ i ∈ imgs, i.fails = true ∧ i.href = h) := by
  have inv := PInv_run _ imgs hu steps _ s (PInv_init _ imgs) hrun
  obtain ⟨hc, hv, he⟩ := inv.retInv v e hret
  obtain ⟨hp0, hr0, _⟩ := closed_empty inv hc
  have hall : ∀ i ∈ imgs, i ∈ s.delivered ∨ i ∈ s.failed := by
    intro i hi
    have := inv.cover i hi
    rw [hp0, hr0] at this
    simpa using this
  constructor
  · rw [hv, inv.svgEq, bundleSeq_join pre bodies s.delivered hpre hb (fun i hi => hok i (inv.delIn i hi).1)]
    congr 2
    apply List.map_congr_left
    intro b _
    rw [bodyFold_eq_spec _ _ (fun i hi => hok i (inv.delIn i hi).1)]
    have : lookup s.delivered = sub imgs := by
      funext h
      apply lookup_eq_sub imgs s.delivered hu inv.delIn
      intro i hi hf
      rcases hall i hi with h1 | h1
      · exact h1
      · have := (inv.failIn i h1).2; rw [hf] at this; simp at this
    rw [this]
  · intro h
    rw [he, inv.errsEq]
    simp only [List.mem_map]
    constructor
    · rintro ⟨i, hi, rfl⟩
      exact ⟨i, (inv.failIn i hi).1, (inv.failIn i hi).2, rfl⟩
    · rintro ⟨i, hi, hf, rfl⟩
      rcases hall i hi with h1 | h1
      · have := (inv.delIn i h1).2; rw [hf] at this; simp at this
      · exact ⟨i, h1, rfl⟩

/-- `collector_sees_all`: the result channel is closed (and the collector returns) only when no worker is pending,
    running or still exiting — every replacement has been applied and every failure recorded -/
theorem collector_sees_all (svg0 : Bytes) (imgs : List Img) (hu : UniqueHrefs imgs) (steps : List PStep) (s : Pool)
    (hrun : prun (Pool.init svg0 imgs) steps = some s) (hc : s.closed = true) :
    s.pending = [] ∧ s.running = [] ∧ s.exiting = [] ∧ (∀ i ∈ imgs, i ∈ s.delivered ∨ i ∈ s.failed) := by
  have inv := PInv_run _ imgs hu steps _ s (PInv_init _ imgs) hrun
  obtain ⟨h1, h2, h3⟩ := closed_empty inv hc
  refine ⟨h1, h2, h3, ?_⟩
  intro i hi
  have := inv.cover i hi
  rw [h1, h2] at this
  simpa using this

/-- **C46.**  The statement over plain bytes: whatever the schedule, the bundled text is `bundleSpec imgs svg` (one
    simultaneous pass over the original text) and the reported set is the failing set. -/
theorem C46_order_independent (svg : Bytes) (imgs : List Img) (hok : ∀ i ∈ imgs, i.OK) (hu : UniqueHrefs imgs)
    (steps : List PStep) (s : Pool) (v : Bytes) (e : List Bytes)
    (hrun : prun (Pool.init svg imgs) steps = some s) (hret : s.ret = some (v, e)) :
    v = bundleSpec imgs svg ∧ (∀ h, h ∈ e ↔ ∃ i ∈ imgs, i.fails = true ∧ i.href = h) := by
  have hj := joinB_splitLt svg
  have hn := splitLt_no_lt svg
  rw [← hj] at hrun
  exact C46_order_independent_segments _ _ imgs hn.1 hn.2 hok hu steps s v e hrun hret

/-- two schedules of the same job agree (the form "independent of the order" takes between two runs) -/
theorem C46_two_schedules_agree (svg : Bytes) (imgs : List Img) (hok : ∀ i ∈ imgs, i.OK) (hu : UniqueHrefs imgs)
    (st1 st2 : List PStep) (s1 s2 : Pool) (v1 v2 : Bytes) (e1 e2 : List Bytes)
    (h1 : prun (Pool.init svg imgs) st1 = some s1) (r1 : s1.ret = some (v1, e1))
    (h2 : prun (Pool.init svg imgs) st2 = some s2) (r2 : s2.ret = some (v2, e2)) :
    v1 = v2 ∧ ∀ h, h ∈ e1 ↔ h ∈ e2 := by
  obtain ⟨a1, b1⟩ := C46_order_independent svg imgs hok hu st1 s1 v1 e1 h1 r1
  obtain ⟨a2, b2⟩ := C46_order_independent svg imgs hok hu st2 s2 v2 e2 h2 r2
  exact ⟨a1.trans a2.symm, fun h => (b1 h).trans (b2 h).symm⟩

/-- `replace_commute`: two replacements of distinct well-formed images commute on every text -/
theorem replace_commute (svg : Bytes) (i j : Img) (hi : i.OK) (hj : j.OK) (hne : i.href ≠ j.href) :
    bundleSeq svg [i, j] = bundleSeq svg [j, i] := by
  have hjn := joinB_splitLt svg
  have hn := splitLt_no_lt svg
  rw [← hjn]
  rw [bundleSeq_join _ _ [i, j] hn.1 hn.2 (by intro k hk; simp at hk; rcases hk with rfl | rfl <;> assumption)]
  rw [bundleSeq_join _ _ [j, i] hn.1 hn.2 (by intro k hk; simp at hk; rcases hk with rfl | rfl <;> assumption)]
  congr 2
  apply List.map_congr_left
  intro b _
  rw [bodyFold_eq_spec _ _ (by intro k hk; simp at hk; rcases hk with rfl | rfl <;> assumption)]
  rw [bodyFold_eq_spec _ _ (by intro k hk; simp at hk; rcases hk with rfl | rfl <;> assumption)]
  have : lookup [i, j] = lookup [j, i] := by
    funext h
    simp only [lookup, List.find?_cons, hrefIs, List.find?_nil]
    by_cases h1 : i.href = h
    · have h2 : (j.href == h) = false := by
        simp only [beq_eq_false_iff_ne]; intro e; exact hne (h1.trans e.symm)
      simp [h1, h2]
    · have h1' : (i.href == h) = false := by simpa using h1
      simp [h1']
  rw [this]


/-- images built from the eligible hrefs and whatever the fetches return -/
def mkImgs (hs : List Bytes) (mime data : Bytes → Bytes) (fails : Bytes → Bool) : List Img :=
  hs.map fun h => { href := h, mime := mimeFix (mime h) (data h), data := data h, fails := fails h }

/-- **C46, end to end over the model of `bundle`.**  For a well-formed text, the code's own choice of images
    (`filterImgs (findAll svg)`), any fetch results with `<`-free MIME types, any failing subset and any schedule. -/
theorem C46_bundle (svg : Bytes) (isRemote : Bool) (mime data : Bytes → Bytes) (fails : Bytes → Bool)
    (hc : svgClean (splitLt svg).2 = true)
    (hm : ∀ h ∈ filterImgs isRemote (findAll svg), lt ∉ mimeOut (mimeFix (mime h) (data h)))
    (steps : List PStep) (s : Pool) (v : Bytes) (e : List Bytes)
    (hrun : prun (Pool.init svg (mkImgs (filterImgs isRemote (findAll svg)) mime data fails)) steps = some s)
    (hret : s.ret = some (v, e)) :
    v = bundleSpec (mkImgs (filterImgs isRemote (findAll svg)) mime data fails) svg
      ∧ (∀ h, h ∈ e ↔ h ∈ filterImgs isRemote (findAll svg) ∧ fails h = true) := by
  obtain ⟨ok, nd⟩ := eligible_ok svg isRemote hc
  have hok : ∀ i ∈ mkImgs (filterImgs isRemote (findAll svg)) mime data fails, i.OK := by
    intro i hi
    obtain ⟨h, hh, rfl⟩ := List.mem_map.mp hi
    obtain ⟨a1, a2, a3, a4, _⟩ := ok h hh
    exact ⟨a1, a2, a3, a4, hm h hh⟩
  have hu : UniqueHrefs (mkImgs (filterImgs isRemote (findAll svg)) mime data fails) := by
    intro i hi j hj hij
    obtain ⟨h1, _, rfl⟩ := List.mem_map.mp hi
    obtain ⟨h2, _, rfl⟩ := List.mem_map.mp hj
    simp only at hij
    subst hij
    rfl
  obtain ⟨r1, r2⟩ := C46_order_independent svg _ hok hu steps s v e hrun hret
  refine ⟨r1, ?_⟩
  intro h
  rw [r2 h]
  constructor
  · rintro ⟨i, hi, hf, rfl⟩
    obtain ⟨h1, hh1, rfl⟩ := List.mem_map.mp hi
    exact ⟨hh1, hf⟩
  · rintro ⟨hh, hf⟩
    exact ⟨_, List.mem_map.mpr ⟨h, hh, rfl⟩, hf, rfl⟩

/-- when the source under test escapes the MIME type (`Gen.Bundle.mimeEscaped`, extracted on every run), the
    statement holds for every server answer: no hypothesis about MIME types is left -/
theorem C46_bundle_escaped (hesc : Gen.Bundle.mimeEscaped = true)
    (svg : Bytes) (isRemote : Bool) (mime data : Bytes → Bytes) (fails : Bytes → Bool)
    (hc : svgClean (splitLt svg).2 = true)
    (steps : List PStep) (s : Pool) (v : Bytes) (e : List Bytes)
    (hrun : prun (Pool.init svg (mkImgs (filterImgs isRemote (findAll svg)) mime data fails)) steps = some s)
    (hret : s.ret = some (v, e)) :
    v = bundleSpec (mkImgs (filterImgs isRemote (findAll svg)) mime data fails) svg
      ∧ (∀ h, h ∈ e ↔ h ∈ filterImgs isRemote (findAll svg) ∧ fails h = true) :=
  C46_bundle svg isRemote mime data fails hc (fun _ _ => mimeOut_clean hesc _) steps s v e hrun hret

/-! ### the two excluded points are real -/

def cxA : Img := { href := [97], mime := [34, 60, 105, 109, 97, 103, 101, 32, 104, 114, 101, 102, 61, 34, 98, 34], data := [], fails := false }
def cxB : Img := { href := [98], mime := [120], data := [], fails := false }
/-- `<image href="a"<image href="b"` -/
def cxSvg : Bytes := K ++ [97, 34] ++ K ++ [98, 34]

/-- without `mimeClean` (a server answering with a Content-Type that contains another image tag) the two completion
    orders give different texts -/
theorem C46_cx_hostile_mime :
    Gen.Bundle.mimeEscaped = false → bundleSeq cxSvg [cxA, cxB] ≠ bundleSeq cxSvg [cxB, cxA] := by decide

def cxU : Img := { href := [60, 105, 109, 97, 103, 101, 32, 104, 114, 101, 102, 61], mime := [120], data := [], fails := false }
/-- `<image href="<image href="b"<image href="b"` : not XML — an attribute value contains `<` -/
def cxSvgU : Bytes := K ++ K ++ [98, 34] ++ K ++ [98, 34]

theorem C46_cx_unclean_svg : bundleSeq cxSvgU [cxU, cxB] ≠ bundleSeq cxSvgU [cxB, cxU]
    ∧ svgClean (splitLt cxSvgU).2 = false := by decide

/-! ### non-vacuity -/

example : cxB.OK := ⟨by decide, by decide, by decide, by decide, by decide⟩

/-- a complete run exists (so the hypotheses of the main theorem are satisfiable): two images, the second fails -/
example : ((prun (Pool.init cxSvg [cxB, { cxB with href := [97], fails := true }])
    [.start, .start, .fail [97], .deliver [98], .exit [98], .exit [97], .close, .ret]).bind Pool.ret).isSome = true := by
  decide


end D2V.Bundle
