import D2V.Proofs.FoldPerm
/-! C08 — Compilation is deterministic.  The order-independence lemmas, `noninterference` and the site table are in
    `D2V/Proofs/FoldPerm.lean` (shared with C25); here: the obligations over the sites of the compile-path packages
    of the tree under test (regenerated `D2V.Gen.MapRanges`). -/
namespace D2V.Fold
open D2V.Gen.MapRanges

/-- every site the translator finds in the compile-path packages has a class: a new or changed
    `range` over a map, or a new write to a package-level variable, breaks this proof -/
theorem all_sites_classified : ∀ s ∈ sitesOf "C08", classify s ≠ none := by decide

/-- and on the compile path every class is one with an unconditional lemma -/
theorem all_compile_sites_order_free : ∀ s ∈ sitesOf "C08", (classify s).map LoopClass.orderFree = some true := by decide

/-- no package-level variable of the compile-path packages is written outside `init` -/
theorem no_compile_globals_written : ∀ s ∈ sitesOf "C08", s.kind ≠ "globalwrite" := by decide

/-- one compilation is single-threaded: no `go` statement, WaitGroup or errgroup in the compile-path packages
    (a goroutine inside a compile would need its own interleaving argument — none is given, so none is allowed) -/
theorem no_compile_goroutines : ∀ s ∈ sitesOf "C08", s.kind ≠ "goroutine" := by decide

/-- no function of the compile-path packages copies a package-level slice / map / pointer into a local and writes
    through it -/
theorem no_compile_alias_writes : ∀ s ∈ sitesOf "C08", s.kind ≠ "aliaswrite" := by decide

end D2V.Fold
