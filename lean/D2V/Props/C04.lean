import D2V.Model.Fmt
import D2V.Model.FmtSem
import D2V.Proofs.FmtFix
import D2V.Proofs.FmtSemSound
import D2V.Proofs.FmtAst
/-!
C04 — Formatting preserves the diagram's meaning.

The formatter performs two semantic rewrites of the AST (everything else is layout): `lowerKeywords` and
`boardsLast` (D2V.Model.Fmt); on programs of the evaluator sub-fragment `boardsLast` is `FmtSem.blDecls`.
`FmtSem.evalRoot` is the abstract specification of "which objects exist on which board" (tied to d2compiler.Compile
by the correspondence stream of `./check C04`).

* `boardsLast_sound_partial`: moving board blocks last (and dropping empty ones) preserves the evaluation whenever no
  non-board declaration follows a non-empty scenarios / steps block in the same board root (`okL`); layers blocks
  may stand anywhere.
* The unrestricted statement is false: `C04_cx_board_order`.  Keyword lower-casing is restricted to key
  position (`C04_values_keep_case`, tie R); the former counterexample `x: Label` is `C04_value_case_iff`.
-/
namespace D2V.FmtSem
open D2V.Fmt

/-- the unrestricted statement (stated goal; false for the unchanged formatter) -/
def C04_boards_full_statement : Prop := ∀ p : List Decl, evalRoot (blDecls p) = evalRoot p

theorem boardsLast_sound_partial (p : List Decl) (h : okL p = true) : evalRoot (blDecls p) = evalRoot p := by
  unfold evalRoot evalBoard blDecls
  rw [evalDecls_bl p _ h]

/-- the same inside any board, whatever it inherits -/
theorem boardsLast_sound_board (base : List OPath) (p : List Decl) (h : okL p = true) :
    evalBoard base (blDecls p) = evalBoard base p := by
  unfold evalBoard blDecls
  rw [evalDecls_bl p _ h]

private def nm (s : String) : Name := s.toList

/-- `layers: {l: {q}}⏎a: {b}⏎scenarios: {s: {y}}⏎steps: {}` — a layers block first, a scenarios block last -/
def exOk : List Decl :=
  [.boards .layers [.board (nm "l") [.obj [nm "q"] []]], .obj [nm "a"] [.obj [nm "b"] []],
   .boards .scenarios [.board (nm "s") [.obj [nm "y"] []]], .boards .steps []]

/-- the hypothesis is satisfiable by a program whose layers block really moves -/
example : okL exOk = true := by decide
example : (evalRoot (blDecls exOk)).scenarioObjs = [(nm "s", [[nm "a"], [nm "a", nm "b"], [nm "y"]])] := by decide

/-- `scenarios: {s: {y}}` then `x`: in source order scenario `s` does not see `x`;
    after the formatter moved the board block last it does. -/
def cxBoardOrder : List Decl :=
  [.boards .scenarios [.board (nm "s") [.obj [nm "y"] []]], .obj [nm "x"] []]

theorem cx_board_order_before : (evalRoot cxBoardOrder).scenarioObjs = [(nm "s", [[nm "y"]])] := by decide

theorem cx_board_order_after : (evalRoot (blDecls cxBoardOrder)).scenarioObjs = [(nm "s", [[nm "x"], [nm "y"]])] := by decide

theorem C04_cx_board_order : evalRoot (blDecls cxBoardOrder) ≠ evalRoot cxBoardOrder := by
  intro h
  have := congrArg BoardV.scenarioObjs h
  rw [cx_board_order_before, cx_board_order_after] at this
  exact absurd this (by decide)

theorem C04_boards_full_statement_false : ¬ C04_boards_full_statement := fun h => C04_cx_board_order (h _)

/-- the excluded region is exactly what the counterexample violates -/
example : okL cxBoardOrder = false := by decide

/-! ### keyword lower-casing -/

/-- `x: Label` -/
def cxValueCase : N :=
  .map false [.mnode false true (.key { amp := 0, key := some [⟨.u, "x".toList, "x".toList⟩], src := none, hops := [], eidx := .none, ekey := none }
    none (.scalar (.str ⟨.u, "Label".toList, "Label".toList⟩)))]

/-- Values keep their spelling: the keyword lower-casing never touches a scalar in value / primary position.
    Tie R: this holds because the regenerated flag says printer.interpolationBoxes lower-cases only under `p.inKey`
    (fix 065a7fd9a); if that restriction is removed the proof breaks and the check searches. -/
theorem C04_values_keep_case (s : Scalar) : lowerKeywords (.scalar s) = .scalar s := by
  cases s with
  | str x =>
    obtain ⟨q, raw, val⟩ := x
    cases q <;> simp [lowerKeywords, normScalar, normStr, lowersHere, D2V.Gen.FmtKw.lowerOnlyInKey]
  | _ => simp [lowerKeywords, normScalar]

/-- … also as the primary value of a key -/
theorem C04_primary_keeps_case (p : Option Scalar) : p.map normScalar = p := by
  cases p with
  | none => rfl
  | some s =>
    cases s with
    | str x =>
      obtain ⟨q, raw, val⟩ := x
      cases q <;> simp [normScalar, normStr, lowersHere, D2V.Gen.FmtKw.lowerOnlyInKey]
    | _ => simp [normScalar]

/-- `x: Label` keeps the label `Label` exactly when the lower-casing is restricted to keys — stated so that it
    type-checks for either shape of the source: on the fixed tree it says the former counterexample is gone. -/
theorem C04_value_case_iff :
    (labelsOf (lowerKeywords cxValueCase) = [("x".toList, "Label".toList)]) ↔ D2V.Gen.FmtKw.lowerOnlyInKey = true := by
  decide

theorem C04_value_case_reparsed_iff :
    (labelsOf (normFile cxValueCase) = [("x".toList, "Label".toList)]) ↔ D2V.Gen.FmtKw.lowerOnlyInKey = true := by
  decide

end D2V.FmtSem

namespace D2V.Fmt

/-- keyword lower-casing is idempotent on every tree (proof in Proofs/FmtAst.lean) -/
theorem C04_lowerKeywords_idem (n : N) : lowerKeywords (lowerKeywords n) = lowerKeywords n := lowerKeywords_idem n

/-- the two rewrites commute when lower-casing creates no new board node -/
theorem C04_rewrites_commute_partial (n : N) (h : noKeyCase n = true) :
    lowerKeywords (boardsLast n) = boardsLast (lowerKeywords n) := lower_boardsLast_comm n h

end D2V.Fmt
