import D2V.Model.Fmt
import D2V.Model.FmtSem
/-! C04 — Formatting preserves the diagram's meaning.  (see props/C04/entry.json for what is proved vs sampled) -/
namespace D2V.FmtSem
open D2V.Fmt

private def nm (s : String) : Name := s.toList

/-- `scenarios: {s: {y}}` then `x`: in source order scenario `s` does not see `x`;
    after the formatter moved the board block last it does. -/
def cxBoardOrder : List Decl :=
  [.boards .scenarios [.board (nm "s") [.obj [nm "y"] []]], .obj [nm "x"] []]

theorem cx_board_order_before : (evalRoot cxBoardOrder).scenarioObjs = [(nm "s", [[nm "y"]])] := by decide

theorem cx_board_order_after : (evalRoot (blDecls cxBoardOrder)).scenarioObjs = [(nm "s", [[nm "x"], [nm "y"]])] := by decide

theorem C04_cx_board_order : evalRoot (blDecls cxBoardOrder) ≠ evalRoot cxBoardOrder := by
  intro h
  have := congrArg BoardV.scenarioObjs h
  rw [cx_board_order_before, cx_board_order_after] at this
  exact absurd this (by decide)

end D2V.FmtSem
