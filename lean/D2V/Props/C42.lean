import D2V.Model.Lsp
/-! C42 — editor support (placeholder; replaced below by the real development) -/
namespace D2V.Lsp
theorem C42_has_iff (r : Rng) (p : Pos) : r.has p = true ↔ (p.before r.s = false ∧ p.before r.e = true) := by
  simp [Rng.has]
end D2V.Lsp
