import D2V.Model.Lsp
/-!
  C42 — editor support: the board reported for a position is the innermost board whose block contains it.

  `boardAtPos` is the model of `d2lsp.getBoardPathAtPosition` (compared with the real function at EVERY position of
  generated texts, valid and broken).  `blocksList` enumerates the board blocks of the same tree and `innermost` picks
  the deepest one containing the position — the property sentence.  Theorem `board_at_pos_innermost`: on a tree whose
  ranges are well nested at `p` (children inside their parent, siblings disjoint — what a parser produces) the two
  agree, for every tree, depth and position.
  Not covered by the theorem (and a recorded finding): board declarations with dotted keys (`layers.x: {…}`), which
  the tree abstraction — like the code — sees as a key named `layers` only.
-/
namespace D2V.Lsp

mutual
/-- ranges are well nested at `p`: a key whose child contains `p` contains `p`; two sibling keys never both contain `p` -/
def WNList (p : Pos) : List Node → Prop
  | [] => True
  | n :: rest => WNNode p n ∧ WNList p rest ∧ (n.r.has p = true → ∀ m ∈ rest, m.r.has p = false)
def WNNode (p : Pos) : Node → Prop
  | .mk _ r kids => WNList p kids ∧ ∀ k ∈ kids, k.r.has p = true → r.has p = true
end

theorem wnB_sound (p : Pos) : ∀ (k : Nat) (ns : List Node), sizeOf ns ≤ k → wnListB p ns = true → WNList p ns := by
  intro k
  induction k with
  | zero =>
    intro ns hk _
    cases ns with
    | nil => simp [WNList]
    | cons n rest => simp only [List.cons.sizeOf_spec] at hk; omega
  | succ k ih =>
    intro ns hk h
    cases ns with
    | nil => simp [WNList]
    | cons n rest =>
      cases n with
      | mk name r kids =>
        have hkids : sizeOf kids ≤ k := by
          have : sizeOf kids < sizeOf (Node.mk name r kids :: rest) := by
            simp only [List.cons.sizeOf_spec, Node.mk.sizeOf_spec]; omega
          omega
        have hrest : sizeOf rest ≤ k := by
          have : sizeOf rest < sizeOf (Node.mk name r kids :: rest) := by simp only [List.cons.sizeOf_spec]; omega
          omega
        simp only [wnListB, wnNodeB, Bool.and_eq_true, Bool.or_eq_true, Bool.not_eq_true', List.all_eq_true] at h
        obtain ⟨⟨⟨hk1, hk2⟩, hr⟩, hd⟩ := h
        simp only [WNList, WNNode]
        refine ⟨⟨ih kids hkids hk1, ?_⟩, ih rest hrest hr, ?_⟩
        · intro c hc hcp
          rcases hk2 c hc with h1 | h1
          · rw [h1] at hcp; cases hcp
          · exact h1
        · intro hp m hm
          rcases hd with h1 | h1
          · simp only [Node.r] at hp h1; rw [h1] at hp; cases hp
          · exact h1 m hm

theorem innermost_none {bs : List Block} {p : Pos} (h : ∀ b ∈ bs, b.r.has p = false) : innermost bs p = none := by
  induction bs with
  | nil => rfl
  | cons b r ih =>
    have hb := h b (List.mem_cons_self ..)
    have hr := ih (fun c hc => h c (List.mem_cons_of_mem _ hc))
    simp [innermost, hr, hb]

theorem innermost_mem {bs : List Block} {p : Pos} {q : List String} (h : innermost bs p = some q) :
    ∃ b ∈ bs, b.path = q ∧ b.r.has p = true := by
  induction bs generalizing q with
  | nil => simp [innermost] at h
  | cons b r ih =>
    simp only [innermost] at h
    cases hr : innermost r p with
    | none =>
      rw [hr] at h
      by_cases hb : b.r.has p = true
      · simp [hb] at h
        exact ⟨b, List.mem_cons_self .., h, hb⟩
      · simp [hb] at h
    | some q' =>
      rw [hr] at h
      by_cases hc : (b.r.has p && decide (q'.length < b.path.length)) = true
      · simp only [hc, if_true, Option.some.injEq] at h
        simp only [Bool.and_eq_true] at hc
        exact ⟨b, List.mem_cons_self .., h, hc.1⟩
      · simp only [hc] at h
        have h' : q' = q := by simpa using h
        rcases ih (q := q') hr with ⟨c, hc', hp, hh⟩
        exact ⟨c, List.mem_cons_of_mem _ hc', h' ▸ hp, hh⟩

theorem innermost_append_left_none {A B : List Block} {p : Pos} (h : ∀ b ∈ A, b.r.has p = false) :
    innermost (A ++ B) p = innermost B p := by
  induction A with
  | nil => rfl
  | cons a r ih =>
    have ha := h a (List.mem_cons_self ..)
    have := ih (fun c hc => h c (List.mem_cons_of_mem _ hc))
    simp only [List.cons_append, innermost, this, ha]
    cases innermost B p <;> simp

theorem innermost_append_right_none {A B : List Block} {p : Pos} (h : ∀ b ∈ B, b.r.has p = false) :
    innermost (A ++ B) p = innermost A p := by
  induction A with
  | nil => rw [List.nil_append, innermost_none h]; rfl
  | cons a r ih => simp only [List.cons_append, innermost, ih]

theorem sizeOf_kids_lt (name : String) (r : Rng) (kids rest : List Node) :
    sizeOf kids < sizeOf (Node.mk name r kids :: rest) := by
  simp only [List.cons.sizeOf_spec, Node.mk.sizeOf_spec]; omega

theorem sizeOf_rest_lt (n : Node) (rest : List Node) : sizeOf rest < sizeOf (n :: rest) := by
  simp only [List.cons.sizeOf_spec]; omega

/-- the three facts proved together by induction on the size of the tree -/
theorem main (p : Pos) : ∀ (k : Nat) (ns : List Node) (cur : List String), sizeOf ns ≤ k → WNList p ns →
    (∀ b ∈ blocksList ns cur, cur.length < b.path.length) ∧
    (∀ b ∈ blocksList ns cur, b.r.has p = true → ∃ n ∈ ns, n.r.has p = true) ∧
    atList ns cur p = innermost (blocksList ns cur) p := by
  intro k
  induction k with
  | zero =>
    intro ns cur hk _
    cases ns with
    | nil => simp [blocksList, atList, innermost]
    | cons n rest => simp only [List.cons.sizeOf_spec] at hk; omega
  | succ k ih =>
    intro ns cur hk hwn
    cases ns with
    | nil => simp [blocksList, atList, innermost]
    | cons n rest =>
      cases n with
      | mk name r kids =>
        have hkids : sizeOf kids ≤ k := by have := sizeOf_kids_lt name r kids rest; omega
        have hrest : sizeOf rest ≤ k := by have := sizeOf_rest_lt (Node.mk name r kids) rest; omega
        simp only [WNList, WNNode] at hwn
        obtain ⟨⟨hwk, hup⟩, hwr, hdis⟩ := hwn
        obtain ⟨iha, ihb, ihc⟩ := ih kids (cur ++ [name]) hkids hwk
        obtain ⟨ra, rb, rc⟩ := ih rest cur hrest hwr
        have hlen : (cur ++ [name]).length = cur.length + 1 := by simp
        -- blocks below this key lie inside its range
        have hin : ∀ b ∈ blocksList kids (cur ++ [name]), b.r.has p = true → r.has p = true := by
          intro b hb hp
          rcases ihb b hb hp with ⟨m, hm, hmp⟩
          exact hup m hm hmp
        by_cases hev : cur.length % 2 = 0
        · -- even depth: only board keywords count
          by_cases hkw : isBoardKw name = true
          · have hbn : blocksNode (Node.mk name r kids) cur = blocksList kids (cur ++ [name]) := by
              simp [blocksNode, hev, hkw]
            refine ⟨?_, ?_, ?_⟩
            · intro b hb
              simp only [blocksList, hbn, List.mem_append] at hb
              rcases hb with hb | hb
              · have := iha b hb; omega
              · exact ra b hb
            · intro b hb hp
              simp only [blocksList, hbn, List.mem_append] at hb
              rcases hb with hb | hb
              · exact ⟨_, List.mem_cons_self .., hin b hb hp⟩
              · rcases rb b hb hp with ⟨m, hm, hmp⟩
                exact ⟨m, List.mem_cons_of_mem _ hm, hmp⟩
            · simp only [atList, atNode, blocksList, hbn]
              by_cases hr : r.has p = true
              · -- inside this container: the answer is decided here
                have hrestnone : ∀ b ∈ blocksList rest cur, b.r.has p = false := by
                  intro b hb
                  cases hbp : b.r.has p with
                  | false => rfl
                  | true =>
                    rcases rb b hb hbp with ⟨m, hm, hmp⟩
                    rw [hdis hr m hm] at hmp; cases hmp
                rw [innermost_append_right_none hrestnone, ← ihc]
                have hodd : (cur.length + 1) % 2 = 1 := by omega
                cases hd : atList kids (cur ++ [name]) p with
                | none => simp [hev, hkw, hr, hd, hodd]
                | some d => simp [hev, hkw, hr, hd]
              · have hnone : ∀ b ∈ blocksList kids (cur ++ [name]), b.r.has p = false := by
                  intro b hb
                  cases hbp : b.r.has p with
                  | false => rfl
                  | true => exact absurd (hin b hb hbp) hr
                rw [innermost_append_left_none hnone, ← rc]
                simp [hev, hkw, hr]
          · have hbn : blocksNode (Node.mk name r kids) cur = [] := by simp [blocksNode, hev, hkw]
            refine ⟨?_, ?_, ?_⟩
            · intro b hb
              simp only [blocksList, hbn, List.nil_append] at hb
              exact ra b hb
            · intro b hb hp
              simp only [blocksList, hbn, List.nil_append] at hb
              rcases rb b hb hp with ⟨m, hm, hmp⟩
              exact ⟨m, List.mem_cons_of_mem _ hm, hmp⟩
            · simp only [atList, atNode, blocksList, hbn, List.nil_append, ← rc]
              simp [hev, hkw]
        · -- odd depth: every map-valued key is a board
          have hodd : cur.length % 2 = 1 := by omega
          have hbn : blocksNode (Node.mk name r kids) cur = ⟨cur ++ [name], r⟩ :: blocksList kids (cur ++ [name]) := by
            simp [blocksNode, hodd]
          refine ⟨?_, ?_, ?_⟩
          · intro b hb
            simp only [blocksList, hbn, List.mem_append, List.mem_cons] at hb
            rcases hb with (rfl | hb) | hb
            · simp
            · have := iha b hb; omega
            · exact ra b hb
          · intro b hb hp
            simp only [blocksList, hbn, List.mem_append, List.mem_cons] at hb
            rcases hb with (rfl | hb) | hb
            · exact ⟨_, List.mem_cons_self .., hp⟩
            · exact ⟨_, List.mem_cons_self .., hin b hb hp⟩
            · rcases rb b hb hp with ⟨m, hm, hmp⟩
              exact ⟨m, List.mem_cons_of_mem _ hm, hmp⟩
          · simp only [atList, atNode, blocksList, hbn]
            by_cases hr : r.has p = true
            · have hrestnone : ∀ b ∈ blocksList rest cur, b.r.has p = false := by
                intro b hb
                cases hbp : b.r.has p with
                | false => rfl
                | true =>
                  rcases rb b hb hbp with ⟨m, hm, hmp⟩
                  rw [hdis hr m hm] at hmp; cases hmp
              rw [innermost_append_right_none hrestnone]
              have heven' : (cur.length + 1) % 2 ≠ 1 := by omega
              simp only [innermost, ← ihc]
              cases hd : atList kids (cur ++ [name]) p with
              | none => simp [hodd, hr, hd, heven']
              | some d =>
                -- the deeper answer is a longer path, so it wins
                have hdm : innermost (blocksList kids (cur ++ [name])) p = some d := by rw [← ihc]; exact hd
                rcases innermost_mem hdm with ⟨b, hb, hpath, _⟩
                have hl := iha b hb
                have hnl : ¬ (d.length < cur.length + 1) := by rw [← hpath]; omega
                simp only [hodd, hr, hd]
                simp
                intro h
                exact absurd h hnl
            · have hnone : ∀ b ∈ (⟨cur ++ [name], r⟩ :: blocksList kids (cur ++ [name]) : List Block), b.r.has p = false := by
                intro b hb
                rcases List.mem_cons.mp hb with rfl | hb
                · simpa using hr
                · cases hbp : b.r.has p with
                  | false => rfl
                  | true => exact absurd (hin b hb hbp) hr
              rw [innermost_append_left_none hnone, ← rc]
              simp [hodd, hr]

/-- **C42, board position**: on a tree that is well nested at `p`, `GetBoardAtPosition`'s algorithm answers the
    innermost board block containing `p` (Go's nil = no board block contains `p` = the root board). -/
theorem board_at_pos_innermost (root : Rng) (kids : List Node) (p : Pos) (hwn : WNList p kids)
    (hroot : ∀ k ∈ kids, k.r.has p = true → root.has p = true) :
    boardAtPos root kids p = innermostBoard (blocksList kids []) p := by
  unfold boardAtPos innermostBoard
  obtain ⟨_, hb, hc⟩ := main p (sizeOf kids) kids [] (Nat.le_refl _) hwn
  by_cases hr : root.has p = true
  · simp [hr, hc]
  · simp only [hr]
    have : ∀ b ∈ blocksList kids [], b.r.has p = false := by
      intro b hbm
      cases hbp : b.r.has p with
      | false => rfl
      | true =>
        rcases hb b hbm hbp with ⟨m, hm, hmp⟩
        exact absurd (hroot m hm hmp) hr
    simp [innermost_none this]

/-! non-vacuity and a witness of the finding -/

def exTree : List Node :=
  [.mk "a" ⟨⟨0, 3⟩, ⟨2, 1⟩⟩ [],
   .mk "layers" ⟨⟨3, 8⟩, ⟨12, 1⟩⟩
     [.mk "x" ⟨⟨4, 5⟩, ⟨11, 3⟩⟩
        [.mk "b" ⟨⟨5, 7⟩, ⟨6, 5⟩⟩ [],
         .mk "scenarios" ⟨⟨7, 15⟩, ⟨10, 5⟩⟩ [.mk "s" ⟨⟨8, 9⟩, ⟨9, 7⟩⟩ []]]]]

example : boardAtPos ⟨⟨0, 0⟩, ⟨13, 0⟩⟩ exTree ⟨8, 12⟩ = some ["layers", "x", "scenarios", "s"] := by decide
example : boardAtPos ⟨⟨0, 0⟩, ⟨13, 0⟩⟩ exTree ⟨7, 20⟩ = some ["layers", "x"] := by decide
example : boardAtPos ⟨⟨0, 0⟩, ⟨13, 0⟩⟩ exTree ⟨3, 9⟩ = none := by decide
example : boardAtPos ⟨⟨0, 0⟩, ⟨13, 0⟩⟩ exTree ⟨5, 8⟩ = some ["layers", "x"] := by decide
example : innermostBoard (blocksList exTree []) ⟨8, 12⟩ = some ["layers", "x", "scenarios", "s"] := by decide

/-- finding C42-dotted-board-declaration-not-recognised on its witness: `layers.dl1: {` … `}` is seen by the code as a
    key `layers` whose map is the container, so a position inside the block gets nil although the compiler's board
    `layers.dl1` has exactly that block -/
theorem C42_cx_dotted_board_declaration :
    boardAtPos ⟨⟨0, 0⟩, ⟨3, 0⟩⟩ [.mk "layers" ⟨⟨0, 12⟩, ⟨2, 1⟩⟩ []] ⟨1, 2⟩ = none ∧
    innermostBoard [⟨["layers", "dl1"], ⟨⟨0, 12⟩, ⟨2, 1⟩⟩⟩] ⟨1, 2⟩ = some ["layers", "dl1"] := by
  decide

end D2V.Lsp
