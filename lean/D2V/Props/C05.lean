import D2V.Proofs.QuoteRound
/-!
  C05 — Strings survive quoting.

  For a string `s` (valid UTF-8, modelled as `List Char`):
    key clause    `KeyRT s`     ParseKey (Format (KeyPath [RawString s true])) is exactly one segment whose
                                string is `s`, and the whole text is consumed;
    value clause  `ValueRT s`   ParseValue (Format (RawString s false)) is a scalar whose string is `s`, the whole
                                text is consumed, and the scalar is neither a null nor a suspension, and a boolean
                                only when `s` is spelled `true` / `false`.

  The model reads its tables and guards from `D2V.Gen.Quote`, which the translator regenerates from the tree
  under test, so the theorems are re-checked against what the code says now.

  * `C05_key_roundtrip_partial`, `C05_value_roundtrip_partial` hold for every string outside an explicit,
    decidable hazard set (strings that match `null` / `true` / `false` / `suspend` / `unsuspend` or a reserved
    keyword only case-insensitively), whatever the tree does with those.
  * `C05_key_roundtrip`, `C05_value_roundtrip` are the full statements.  Their only hypothesis is a closed
    Boolean computed from the regenerated tables (`keyFixApplied`, `valueFixApplied`: RawString quotes the
    case variants, the printer lower-cases keywords in keys only, an unquoted null key keeps its spelling);
    the driver evaluates both on every run and reports `fix-missing-*` while they are false.
  * `C05_cx_*` are the counterexamples on the tree where those Booleans are false (pinned snapshot).
-/
namespace D2V.Quote
open D2V.Gen.Quote

/-- key clause of C05 for the string `s` -/
def KeyRT (s : Str) : Prop := ∃ k, parseKey (fmtKey s) = .ok [⟨k, s⟩] []

/-- value clause of C05 for the string `s`; `isNum` stands for `big.Rat.SetString` succeeding -/
def ValueRT (isNum : Str → Bool) (s : Str) : Prop :=
  ∃ k, parseValue isNum (fmtValue s) = .ok k s [] ∧ KeepsString k s

/-- strings that match `null` or a reserved keyword only case-insensitively -/
def hazardKey (s : Str) : Bool := (equalFold s "null" && s != "null".toList) || kwCase s

/-- strings that match one of the parser's fold words or a reserved keyword only case-insensitively -/
def hazardValue (s : Str) : Bool := foldWords.any (fun w => equalFold s w && s != w.toList) || kwCase s

/-! ### from one segment to ParseKey -/

theorem keyLook_go {text : Str} (h : GoodHead text) : keyLook text = .go := by
  obtain ⟨c, X, rfl, h1, h2, h3⟩ := h
  simp [keyLook, h1, h2, h3]

theorem parseKey_single {text s : Str} {k : Quoting} (hps : parseString true false text = .seg k s [])
    (hat : k = .unq → s.head? ≠ some '@') (hgood : GoodHead text) (hlen : utf8LenStr s ≤ maxKeyLen) :
    parseKey text = .ok [⟨k, s⟩] [] := by
  unfold parseKey parseKeyLoop
  rw [keyLook_go hgood]
  simp only [hps]
  have hno : (k == .unq && s.head? == some '@') = false := by
    cases hk : (k == Quoting.unq) with
    | false => simp
    | true =>
      have := hat (by simpa using hk)
      simp [this]
  simp only [hno, Bool.false_eq_true, if_false, afterSeg, List.nil_append]
  unfold finishKey
  have : ¬ (utf8LenStr s > maxKeyLen) := by omega
  simp [this]

theorem rawString_key_unq {s : Str} (h : rawString s true = .unq) :
    (rawKeyQuotesKeywordCase && kwCase s) = false := by
  have := rawString_key s
  rw [h] at this
  cases this with
  | unq _ _ _ hf => exact hf

theorem rawString_value_unq {s : Str} (h : rawString s false = .unq) : rawValueGuard s = false := by
  have := rawString_value s
  rw [h] at this
  cases this with
  | unq _ hg _ => exact hg

/-! ### key clause -/

theorem key_core {s : Str} (hlen : utf8LenStr s ≤ maxKeyLen)
    (hnull : equalFold s "null" = true → s = "null".toList ∨ uqFoldLiteral = none)
    (hkw : rawString s true = .unq → kwCase s = false) : KeyRT s := by
  obtain ⟨k, hps, hat, hgood⟩ := parseString_fmtKey (e := false) (rest := []) (Or.inl rfl) hnull hkw
  rw [List.append_nil] at hps
  exact ⟨k, parseKey_single hps hat hgood hlen⟩

/-- C05, key clause, for every string outside the hazard set — on any tree whose tables pass the table lemmas. -/
theorem C05_key_roundtrip_partial (s : Str) (hlen : utf8LenStr s ≤ maxKeyLen) (hz : hazardKey s = false) :
    KeyRT s := by
  unfold hazardKey at hz
  simp only [Bool.or_eq_false_iff, Bool.and_eq_false_iff, bne_eq_false_iff_eq] at hz
  refine key_core hlen ?_ (fun _ => hz.2)
  intro hf
  rcases hz.1 with h | h
  · rw [hf] at h; cases h
  · exact Or.inl h

/-- C05, key clause, full statement: every string of at most 518 bytes (the limit `ParseKey` enforces). -/
theorem C05_key_roundtrip (hfix : keyFixApplied = true) (s : Str) (hlen : utf8LenStr s ≤ maxKeyLen) : KeyRT s := by
  unfold keyFixApplied at hfix
  simp only [Bool.and_eq_true, Option.isNone_iff_eq_none] at hfix
  refine key_core hlen (fun _ => Or.inr hfix.2) ?_
  intro hu
  have := rawString_key_unq hu
  simpa [hfix.1] using this

/-! ### value clause -/

theorem guard_words : rawValueGuard "null".toList = true ∧ rawValueGuard "suspend".toList = true ∧
    rawValueGuard "unsuspend".toList = true := by decide

theorem foldWords_mem : "null" ∈ foldWords ∧ "suspend" ∈ foldWords ∧ "unsuspend" ∈ foldWords := by decide

/-- C05, value clause, for every string outside the hazard set. -/
theorem C05_value_roundtrip_partial (isNum : Str → Bool) (s : Str) (hz : hazardValue s = false) :
    ValueRT isNum s := by
  unfold hazardValue at hz
  simp only [Bool.or_eq_false_iff] at hz
  have hfold : ∀ w ∈ foldWords, equalFold s w = true → s = w.toList := by
    intro w hw hf
    have := List.any_eq_false.mp hz.1 w hw
    simpa [hf] using this
  have hkc := hz.2
  refine parseValue_fmtValue isNum (fun _ => hfold) ?_ ?_
  · intro hu
    have hg := rawString_value_unq hu
    refine ⟨?_, ?_, ?_⟩
    · cases h : equalFold s "null" with
      | false => rfl
      | true => rw [hfold _ foldWords_mem.1 h, guard_words.1] at hg; cases hg
    · cases h : equalFold s "suspend" with
      | false => rfl
      | true => rw [hfold _ foldWords_mem.2.1 h, guard_words.2.1] at hg; cases hg
    · cases h : equalFold s "unsuspend" with
      | false => rfl
      | true => rw [hfold _ foldWords_mem.2.2 h, guard_words.2.2] at hg; cases hg
  · intro _ _ hc
    unfold kwCase at hkc
    simp only [hc, Bool.true_and, bne_eq_false_iff_eq] at hkc
    exact hkc

theorem guard_fold {s : Str} {w : String} (hg : rawValueGuard s = false) (hw : rawValueFoldWords.contains w = true) :
    equalFold s w = false := by
  unfold rawValueGuard at hg
  simp only [Bool.or_eq_false_iff] at hg
  have := List.any_eq_false.mp hg.1.1.2 w (by simpa using hw)
  simpa using this

theorem guard_foldNe {s : Str} {w : String} (hg : rawValueGuard s = false)
    (hw : (rawValueFoldWords.contains w || rawValueFoldNeWords.contains w) = true) (hf : equalFold s w = true) :
    s = w.toList := by
  cases h1 : rawValueFoldWords.contains w with
  | true => rw [guard_fold hg h1] at hf; cases hf
  | false =>
    simp only [h1, Bool.false_or] at hw
    unfold rawValueGuard at hg
    simp only [Bool.or_eq_false_iff] at hg
    have := List.any_eq_false.mp hg.1.2 w (by simpa using hw)
    simpa [hf] using this

/-- C05, value clause, full statement: every string. -/
theorem C05_value_roundtrip (hfix : valueFixApplied = true) (isNum : Str → Bool) (s : Str) : ValueRT isNum s := by
  unfold valueFixApplied at hfix
  simp only [Bool.and_eq_true, Bool.not_eq_true', List.all_cons, List.all_nil, Bool.and_true] at hfix
  obtain ⟨⟨hlow, hn, hs, hu⟩, ht, hf⟩ := hfix
  refine parseValue_fmtValue isNum ?_ ?_ ?_
  · intro hq w hw hfw
    have hg := rawString_value_unq hq
    simp only [foldWords, List.mem_cons, List.not_mem_nil, or_false] at hw
    rcases hw with rfl | rfl | rfl | rfl | rfl
    · rw [guard_fold hg hn] at hfw; cases hfw
    · rw [guard_fold hg hs] at hfw; cases hfw
    · rw [guard_fold hg hu] at hfw; cases hfw
    · exact guard_foldNe hg ht hfw
    · exact guard_foldNe hg hf hfw
  · intro hq
    have hg := rawString_value_unq hq
    exact ⟨guard_fold hg hn, guard_fold hg hs, guard_fold hg hu⟩
  · intro _ hl
    rw [hlow] at hl; cases hl

/-! ### the hypotheses are satisfiable, the statements are not vacuous -/

example : KeyRT "a-b c".toList := C05_key_roundtrip_partial _ (by decide) (by decide)
example : KeyRT "x.y \"z\"".toList := C05_key_roundtrip_partial _ (by decide) (by decide)
example : ValueRT isNumeral "1e3".toList := C05_value_roundtrip_partial _ _ (by decide)
example : ValueRT isNumeral "a $b \"c\"".toList := C05_value_roundtrip_partial _ _ (by decide)
example : hazardKey "NULL".toList = true ∧ hazardKey "Label".toList = true ∧ hazardValue "TRUE".toList = true := by decide

/-! ### counterexamples on the tree without the fix (false hypotheses on a fixed tree) -/

/-- `RawString("NULL", true)` prints `'null'`: the key reads back as `null` -/
theorem C05_cx_key_NULL : uqFoldLiteral.isSome = true →
    parseKey (fmtKey "NULL".toList) = .ok [⟨.sq, "null".toList⟩] [] := by decide

/-- `RawString("Label", true)` prints `label` -/
theorem C05_cx_key_Label : rawKeyQuotesKeywordCase = false →
    parseKey (fmtKey "Label".toList) = .ok [⟨.unq, "label".toList⟩] [] := by decide

/-- `RawString("TRUE", false)` prints `TRUE`, which is the boolean true -/
theorem C05_cx_value_TRUE : (rawValueFoldWords.contains "true" || rawValueFoldNeWords.contains "true") = false →
    parseValue isNumeral (fmtValue "TRUE".toList) = .ok (.boolean true) "true".toList [] := by decide

/-- `RawString("Suspend", false)` prints `Suspend`, which is a suspension marker -/
theorem C05_cx_value_Suspend : rawValueFoldWords.contains "suspend" = false →
    parseValue isNumeral (fmtValue "Suspend".toList) = .ok (.suspension true) [] [] := by decide

/-- `RawString("NULL", false)` prints `'null'` -/
theorem C05_cx_value_NULL : rawValueFoldWords.contains "null" = false →
    parseValue isNumeral (fmtValue "NULL".toList) = .ok .sq "null".toList [] := by decide

/-- `RawString("Label", false)` prints `label` -/
theorem C05_cx_value_Label : lowerGuard false false = true →
    parseValue isNumeral (fmtValue "Label".toList) = .ok .unq "label".toList [] := by decide

end D2V.Quote
