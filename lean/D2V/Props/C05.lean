import D2V.Model.Quote
/-! C05 — Strings survive quoting (placeholder while the proofs are being written). -/
namespace D2V.Quote
theorem C05_placeholder : rawString [] true = Gen.Quote.rawEmpty := rfl
end D2V.Quote
