import D2V.Model.JsTemplate
/-! C17 — Layout succeeds with finite geometry: the Go side of the dagre JS bridge.

  `C17_bridge_roundtrip` is the property of `escapeID` that makes the dagre script well formed for *every*
  edge ID: the template literal evaluates to the ID again (no syntax error, no substitution, nothing lost).
  It was false before the fix (`C17_cx_*` on `escapeIDOld`).  dagre.js / elk.js themselves run inside goja and
  are outside any Lean model: for them C17 is decided by `Spec.finiteGeometry` on real runs (Drv/C17.lean). -/
namespace D2V.JsTemplate

theorem replaceAllChar_nil (c : Char) (rep : List Char) : replaceAllChar c rep [] = [] := rfl

theorem replaceAllChar_cons (c : Char) (rep : List Char) (x : Char) (s : List Char) :
    replaceAllChar c rep (x :: s) = (if x = c then rep else [x]) ++ replaceAllChar c rep s := by
  simp [replaceAllChar]

theorem replaceAllChar_append (c : Char) (rep : List Char) (s t : List Char) :
    replaceAllChar c rep (s ++ t) = replaceAllChar c rep s ++ replaceAllChar c rep t := by
  simp [replaceAllChar]

/-- the five sequential `ReplaceAll` passes are one character-wise map: no pass sees a character produced by
    an earlier one (the earlier passes only introduce `\`, and later patterns are `` ` ``, `$`, LF, CR) -/
theorem escapeID_eq_flatMap (id : List Char) : escapeID id = id.flatMap escChar := by
  induction id with
  | nil => rfl
  | cons c rest ih =>
    unfold escapeID at ih ⊢
    simp only [replaceAllChar_cons, replaceAllChar_append, List.flatMap_cons, ← ih]
    congr 1
    unfold escChar
    by_cases h1 : c = '\\'
    · subst h1; decide
    by_cases h2 : c = '`'
    · subst h2; decide
    by_cases h3 : c = '$'
    · subst h3; decide
    by_cases h4 : c = '\n'
    · subst h4; decide
    by_cases h5 : c = '\r'
    · subst h5; decide
    simp [h1, h2, h3, h4, h5, replaceAllChar]

/-- decoding the escape of one character gives the character back and returns to the normal state -/
theorem run_escChar (c : Char) (rest : List Char) :
    run .normal (escChar c ++ rest) = (run .normal rest).map (c :: ·) := by
  unfold escChar
  by_cases h1 : c = '\\'
  · subst h1; simp [run, step, stepNormal, stepEsc, Function.comp_def]
  by_cases h2 : c = '`'
  · subst h2; simp [run, step, stepNormal, stepEsc, Function.comp_def]
  by_cases h3 : c = '$'
  · subst h3; simp [run, step, stepNormal, stepEsc, Function.comp_def]
  by_cases h4 : c = '\n'
  · subst h4; simp [run, step, stepNormal, stepEsc, Function.comp_def]
  by_cases h5 : c = '\r'
  · subst h5; simp [run, step, stepNormal, stepEsc, Function.comp_def]
  simp [h1, h2, h3, h4, h5, run, step, stepNormal]

theorem run_escape (id : List Char) : run .normal (id.flatMap escChar) = some id := by
  induction id with
  | nil => simp [run]
  | cons c rest ih => simp [List.flatMap_cons, run_escChar, ih]

/-- **C17 (bridge).** For every edge ID the JS template literal built from `escapeID id` evaluates to `id`. -/
theorem C17_bridge_roundtrip (id : List Char) : jsTemplateDecode (escapeID id) = some id := by
  unfold jsTemplateDecode
  rw [escapeID_eq_flatMap]
  exact run_escape id

/-- consequently the escaped IDs of distinct edges stay distinct (dagre's multigraph keys do not collide) -/
theorem C17_escape_injective (a b : List Char) (h : escapeID a = escapeID b) : a = b := by
  have ha := C17_bridge_roundtrip a
  have hb := C17_bridge_roundtrip b
  rw [h] at ha
  rw [ha] at hb
  exact Option.some.inj hb

/-! #### the defect before the fix (replayed on the implementation: dagre `SyntaxError` / `ReferenceError`) -/

/-- edge of `` 'a`b' -> c ``: the backtick ends the template literal early -/
theorem C17_cx_backtick : jsTemplateDecode (escapeIDOld "(a`b -> c)[0]".toList) = none := by decide

/-- edge of `'a${x}b' -> c`: `${x}` is evaluated as a substitution (`ReferenceError: x is not defined`) -/
theorem C17_cx_subst : jsTemplateDecode (escapeIDOld "(a${x}b -> c)[0]".toList) = none := by decide

/-- the regexp `[^\\]\n` also consumes the character before the newline: `"ab\nc"` decodes to `a\nc` (4 chars) -/
theorem C17_cx_eats_char :
    jsTemplateDecode (escapeIDOld ['a', 'b', '\n', 'c']) = some ['a', '\\', 'n', 'c'] := by decide

/-- … so two different IDs got the same dagre name -/
theorem C17_cx_old_not_injective :
    escapeIDOld ['a', 'b', '\n', 'c'] = escapeIDOld ['a', 'x', '\n', 'c'] ∧
      ['a', 'b', '\n', 'c'] ≠ ['a', 'x', '\n', 'c'] := by decide

/-- on IDs without backslash-sensitive characters old and new code agree (the fix changes nothing else) -/
theorem escapeIDOld_eq_on_plain (id : List Char)
    (h : ∀ c ∈ id, c ≠ '\\' ∧ c ≠ '`' ∧ c ≠ '$' ∧ c ≠ '\n' ∧ c ≠ '\r') :
    escapeIDOld id = id ∧ escapeID id = id := by
  have hrep : ∀ (p : Char) (rep : List Char) (s : List Char), (∀ c ∈ s, c ≠ p) → replaceAllChar p rep s = s := by
    intro p rep s hs
    induction s with
    | nil => rfl
    | cons x t ih =>
      rw [replaceAllChar_cons]
      have hx : x ≠ p := hs x (by simp)
      simp [hx, ih (fun c hc => hs c (by simp [hc]))]
  have hre : ∀ s : List Char, (∀ c ∈ s, c ≠ '\n') → reNewlineOld s = s := by
    intro s
    induction s with
    | nil => intro _; rfl
    | cons a t ih =>
      intro hs
      cases t with
      | nil => rfl
      | cons b r =>
        have hb : b ≠ '\n' := hs b (by simp)
        simp only [reNewlineOld, hb, and_false, if_false]
        rw [ih (fun c hc => hs c (by simp [hc]))]
  constructor
  · unfold escapeIDOld
    simp only
    rw [hrep '\\' _ id (fun c hc => (h c hc).1), hre id (fun c hc => (h c hc).2.2.2.1),
      hrep '\r' _ id (fun c hc => (h c hc).2.2.2.2)]
  · unfold escapeID
    simp only
    rw [hrep '\\' _ id (fun c hc => (h c hc).1), hrep '`' _ id (fun c hc => (h c hc).2.1),
      hrep '$' _ id (fun c hc => (h c hc).2.2.1), hrep '\n' _ id (fun c hc => (h c hc).2.2.2.1),
      hrep '\r' _ id (fun c hc => (h c hc).2.2.2.2)]

example : (∀ c ∈ "(a -> b)[0]".toList, c ≠ '\\' ∧ c ≠ '`' ∧ c ≠ '$' ∧ c ≠ '\n' ∧ c ≠ '\r') := by decide

/-! #### validateObjectPositions -/

/-- when `validateObjectPositions` returns no error, no positioned object has an infinite coordinate -/
theorem finite_after_validate (objs : List (Option Pos)) (h : validate objs = true) :
    ∀ p, some p ∈ objs → p.x.isInf = false ∧ p.y.isInf = false := by
  intro p hp
  unfold validate at h
  rw [List.all_eq_true] at h
  have := h (some p) hp
  simpa using this

/-- `math.IsInf` does not reject NaN: the validation alone does not give *finite* positions — the harness
    therefore evaluates `Spec.finiteGeometry` on every laid-out diagram instead of relying on it -/
theorem validate_admits_nan : validate [some ⟨.nan, .fin 0⟩] = true ∧ (F.nan).isFinite = false := by decide

example : validate [some ⟨.fin 1, .fin 2⟩, none] = true := by decide
example : validate [some ⟨.pinf, .fin 2⟩] = false := by decide

end D2V.JsTemplate
