import D2V.Model.Edit
import D2V.Proofs.EditPaths
/-!
  C37 — Create and Set change exactly what they name (abstract semantics `Edit.Spec`).
  The driver evaluates `createClauses` / `setClauses` on the real before/after pair (elements matched by ID, because
  no ID may change) and checks the refinement `after = Spec.createObj / createEdge / set… before`.
-/
namespace D2V.Edit

theorem hasObj_append_right (d : Diagram) (extra : List Obj) (p : Path) (o : Obj) (ho : o ∈ extra)
    (hp : samePath o.path p = true) : ({ d with objs := d.objs ++ extra } : Diagram).hasObj p = true := by
  simp only [Diagram.hasObj, List.any_append, Bool.or_eq_true, List.any_eq_true]
  exact Or.inr ⟨o, ho, hp⟩

/-- **Create adds the object (which did not exist) plus the missing containers on its path, nothing else** -/
theorem create_adds_exactly (d d' : Diagram) (p : Path) (h : Spec.createObj d p = some d') :
    d'.edges = d.edges ∧
    (∃ new : List Obj, d'.objs = d.objs ++ new ∧
        ∀ o ∈ new, isPre o.path p = true ∧ d.hasObj o.path = false ∧ o = Spec.defaultObj o.path) ∧
    d.hasObj p = false ∧ d'.hasObj p = true := by
  unfold Spec.createObj at h
  split at h
  · cases h
  · rename_i hc
    simp only [Bool.or_eq_true, not_or, Bool.not_eq_true] at hc
    cases h
    refine ⟨rfl, ⟨(Spec.missingOn d p).map Spec.defaultObj, rfl, ?_⟩, hc.2, ?_⟩
    · intro o ho
      rcases List.mem_map.mp ho with ⟨q, hq, rfl⟩
      simp only [Spec.missingOn, List.mem_filter, List.mem_map] at hq
      rcases hq with ⟨⟨n, _, rfl⟩, hnot⟩
      exact ⟨by simpa [Spec.defaultObj] using isPre_take p n, by simpa [Spec.defaultObj] using hnot, rfl⟩
    · -- p itself is among the missing paths
      have hne : p.length ≠ 0 := by
        intro h0
        have : p = [] := List.eq_nil_of_length_eq_zero h0
        simp [this] at hc
      have hmem : p ∈ Spec.missingOn d p := by
        simp only [Spec.missingOn, List.mem_filter, List.mem_map, List.mem_range]
        exact ⟨⟨p.length, ⟨by omega, by simpa using hne⟩, by simp⟩, by simp [hc.2]⟩
      exact hasObj_append_right d _ p (Spec.defaultObj p) (List.mem_map.mpr ⟨p, hmem, rfl⟩)
        (by simp [Spec.defaultObj, samePath_refl])

/-! attributes as association lists -/

theorem attrOf_set_same (a : Attrs) (k : String) (v : Option String) : attrOf (Spec.setAttrs a k v) k = v := by
  unfold attrOf Spec.setAttrs
  have hnone : (a.filter fun kv => kv.1 != k).find? (fun kv => kv.1 == k) = none := by
    rw [List.find?_eq_none]
    intro kv hkv
    have := (List.mem_filter.mp hkv).2
    simpa using this
  cases v with
  | none => simp [hnone]
  | some x => simp [List.find?_append, hnone]

theorem attrOf_set_other (a : Attrs) (k k' : String) (v : Option String) (hne : k' ≠ k) :
    attrOf (Spec.setAttrs a k v) k' = attrOf a k' := by
  unfold attrOf Spec.setAttrs
  have hfilt : (a.filter fun kv => kv.1 != k).find? (fun kv => kv.1 == k') = a.find? (fun kv => kv.1 == k') := by
    rw [List.find?_filter]
    congr 1
    funext kv
    by_cases h : kv.1 = k'
    · subst h; simp [hne]
    · simp [h]
  cases v with
  | none => simp [hfilt]
  | some x =>
    have : ((k, x).1 == k') = false := by simpa using (fun h : k = k' => hne h.symm)
    simp [List.find?_append, hfilt, this]

/-- **Set makes the attribute equal to the value, changes no other attribute, no other element** -/
theorem set_changes_exactly (d : Diagram) (p : Path) (k : String) (v : Option String) :
    (Spec.setObjAttr d p k v).edges = d.edges ∧
    (Spec.setObjAttr d p k v).objs.length = d.objs.length ∧
    (∀ o ∈ d.objs, samePath o.path p = false → o ∈ (Spec.setObjAttr d p k v).objs) ∧
    (∀ o' ∈ (Spec.setObjAttr d p k v).objs, ∃ o ∈ d.objs, o'.path = o.path ∧ o'.label = o.label ∧
        (samePath o.path p = false → o' = o) ∧
        (samePath o.path p = true → attrOf o'.attrs k = v ∧ ∀ k', k' ≠ k → attrOf o'.attrs k' = attrOf o.attrs k')) := by
  refine ⟨rfl, by simp [Spec.setObjAttr], ?_, ?_⟩
  · intro o ho hs
    simp only [Spec.setObjAttr, List.mem_map]
    exact ⟨o, ho, by simp [hs]⟩
  · intro o' ho'
    simp only [Spec.setObjAttr, List.mem_map] at ho'
    rcases ho' with ⟨o, ho, rfl⟩
    refine ⟨o, ho, ?_, ?_, ?_, ?_⟩
    · by_cases hs : samePath o.path p = true <;> simp [hs]
    · by_cases hs : samePath o.path p = true <;> simp [hs]
    · intro hs; simp [hs]
    · intro hs
      simp only [hs, if_true]
      exact ⟨attrOf_set_same _ _ _, fun k' hk' => attrOf_set_other _ _ _ _ hk'⟩

/-- the same for the label -/
theorem set_label_changes_exactly (d : Diagram) (p : Path) (v : String) :
    (Spec.setObjLabel d p v).edges = d.edges ∧
    (∀ o ∈ d.objs, samePath o.path p = false → o ∈ (Spec.setObjLabel d p v).objs) ∧
    (∀ o' ∈ (Spec.setObjLabel d p v).objs, ∃ o ∈ d.objs, o'.path = o.path ∧ o'.attrs = o.attrs ∧
        (samePath o.path p = false → o' = o) ∧ (samePath o.path p = true → o'.label = v)) := by
  refine ⟨rfl, ?_, ?_⟩
  · intro o ho hs
    simp only [Spec.setObjLabel, List.mem_map]
    exact ⟨o, ho, by simp [hs]⟩
  · intro o' ho'
    simp only [Spec.setObjLabel, List.mem_map] at ho'
    rcases ho' with ⟨o, ho, rfl⟩
    refine ⟨o, ho, ?_, ?_, ?_, ?_⟩
    · by_cases hs : samePath o.path p = true <;> simp [hs]
    · by_cases hs : samePath o.path p = true <;> simp [hs]
    · intro hs; simp [hs]
    · intro hs; simp [hs]

/-! the driver's clauses hold of the abstract semantics on witnesses -/

def exC : Diagram :=
  { objs := [⟨["a"], "L1", [("shape", "rectangle")]⟩, ⟨["b"], "L2", [("shape", "rectangle")]⟩],
    edges := [⟨["a"], ["b"], false, true, 0, "E1", []⟩] }

example : (Spec.createObj exC ["a", "x", "y"]).map (fun d' => allHold (createClauses exC d' (.obj ["a", "x", "y"]))) = some true := by decide
example : (Spec.createEdge exC ["a"] ["b"] false true).map (fun d' => allHold (createClauses exC d' (.edge ["a"] ["b"] false true 1))) = some true := by decide
example : allHold (setClauses exC (Spec.setObjAttr exC ["a"] "style.fill" (some "red")) (.obj ["a"]) "style.fill" (some "red") []) = true := by decide
example : allHold (setClauses exC (Spec.setEdgeLabel exC ["a"] ["b"] false true 0 "hello") (.edge ["a"] ["b"] false true 0) "label" (some "hello") []) = true := by decide

/-- the defect class C37-create-parallel-edge-renumbers-existing on its witness: the existing connection E4 ends up
    with index 1 and the new, unlabeled one takes index 0 -/
theorem C37_cx_create_renumbers_existing :
    firstFailing (createClauses
      ⟨[⟨["z"], "L1", []⟩, ⟨["z", "z"], "L2", []⟩, ⟨["z", "z", "y"], "L3", []⟩], [⟨["z", "z", "y"], ["z", "z"], false, false, 0, "E4", []⟩]⟩
      ⟨[⟨["z"], "L1", []⟩, ⟨["z", "z"], "L2", []⟩, ⟨["z", "z", "y"], "L3", []⟩],
       [⟨["z", "z", "y"], ["z", "z"], false, false, 0, "", []⟩, ⟨["z", "z", "y"], ["z", "z"], false, false, 1, "E4", []⟩]⟩
      (.edge ["z", "z", "y"] ["z", "z"] false false 1)) = some "create-changed-existing-edge" := by
  decide

end D2V.Edit
