import D2V.Model.Boards
/-!
  C15 — Boards inherit from their base and never leak changes back.

  Theorems about the functional specification of board composition (`Model/Boards.lean`: `evalItems` /
  `evalBoards`), which the driver compares board by board with the real compiler on the flat fragment, while the
  property sentence itself is evaluated on the implementation for the full generator (reference programs
  `flatten p π`, and p with one board emptied/changed).

  * `content_is_own_ops`      a board's content is its inherited content overlaid with its *own* declarations —
                              nested board bodies do not occur in it (nothing leaks back into a base)
  * `scenario_sees_prefix`    a scenario = (base content declared before the block) overlaid with its own
                              declarations; what the base declares after the block is not seen
  * `scenario_siblings_independent` each scenario of a block is a function of the base prefix and its own body
  * `layer_starts_empty`      a layer is a function of its own body only
  * `step_cumulative`         step i+1 = step i overlaid with its own declarations; objects of step i that step
                              i+1 does not delete are in step i+1 (`step_keeps`)
  * `steps_prefix`            a step does not depend on later steps
  * `isolation`               replacing the bodies of nested boards changes neither the content of the enclosing
                              board nor (for scenarios/layers) the sibling boards
-/
namespace D2V.Boards

theorem evalItems_nil (cur : Content) : evalItems cur [] = (cur, []) := by
  simp [evalItems]

theorem evalItems_op (cur : Content) (o : Op) (rest : List Item) :
    evalItems cur (.op o :: rest) = evalItems (applyOp cur o) rest := by
  simp [evalItems]

theorem evalItems_boards (cur : Content) (k : Kind) (bs : List (String × List Item)) (rest : List Item) :
    evalItems cur (.boards k bs :: rest) =
      ((evalItems cur rest).1, evalBoards k cur cur bs ++ (evalItems cur rest).2) := by
  simp [evalItems]

theorem evalBoards_nil (k : Kind) (base prev : Content) : evalBoards k base prev [] = [] := by
  simp [evalBoards]

def inheritedOf (k : Kind) (base prev : Content) : Content :=
  match k with
  | .layer => []
  | .scenario => base
  | .step => prev

theorem evalBoards_cons (k : Kind) (base prev : Content) (n : String) (body : List Item)
    (rest : List (String × List Item)) :
    evalBoards k base prev ((n, body) :: rest) =
      (k, n, Board.mk (evalItems (inheritedOf k base prev) body).1 (evalItems (inheritedOf k base prev) body).2) ::
        evalBoards k base (evalItems (inheritedOf k base prev) body).1 rest := by
  cases k <;> simp [evalBoards, inheritedOf]

/-- **nothing leaks back**: the content of a board is the inherited content overlaid with the board's own
    declarations; the bodies of nested boards do not take part -/
theorem content_is_own_ops : ∀ (items : List Item) (cur : Content),
    (evalItems cur items).1 = applyOps cur (ownOps items)
  | [], cur => by simp [evalItems_nil, ownOps, applyOps]
  | .op o :: rest, cur => by
    rw [evalItems_op, content_is_own_ops rest]
    simp [ownOps, applyOps]
  | .boards k bs :: rest, cur => by
    rw [evalItems_boards]
    simp only [ownOps]
    exact content_is_own_ops rest cur

/-- replacing every nested board body (same own declarations) leaves the board's content unchanged -/
theorem isolation_base (items items' : List Item) (cur : Content) (h : ownOps items = ownOps items') :
    (evalItems cur items).1 = (evalItems cur items').1 := by
  rw [content_is_own_ops, content_is_own_ops, h]

/-- boards of a scenario block: each one is the base prefix overlaid with its own body, whatever its siblings are -/
theorem scenario_block : ∀ (bs : List (String × List Item)) (base prev : Content),
    evalBoards .scenario base prev bs =
      bs.map fun nb => (Kind.scenario, nb.1, Board.mk (evalItems base nb.2).1 (evalItems base nb.2).2)
  | [], _, _ => by simp [evalBoards_nil]
  | (n, body) :: rest, base, prev => by
    rw [evalBoards_cons, scenario_block rest]
    simp [inheritedOf]

/-- **scenario_sees_prefix**: the content of a scenario is the content the base had *at the block* overlaid with
    the scenario's own declarations (`rest`, declared after the block, plays no role) -/
theorem scenario_sees_prefix (cur : Content) (bs : List (String × List Item)) (rest : List Item)
    (n : String) (body : List Item) (h : (n, body) ∈ bs) :
    ∃ b, (Kind.scenario, n, b) ∈ (evalItems cur (.boards .scenario bs :: rest)).2 ∧
      b.content = applyOps cur (ownOps body) := by
  rw [evalItems_boards, scenario_block]
  refine ⟨Board.mk (evalItems cur body).1 (evalItems cur body).2, ?_, ?_⟩
  · apply List.mem_append_left
    exact List.mem_map.mpr ⟨(n, body), h, rfl⟩
  · simp [Board.content, content_is_own_ops]

theorem scenario_siblings_independent (base prev prev' : Content) (bs : List (String × List Item)) :
    evalBoards .scenario base prev bs = evalBoards .scenario base prev' bs := by
  rw [scenario_block, scenario_block]

/-- **layer_starts_empty**: the boards of a layer block do not depend on the base at all -/
theorem layer_block : ∀ (bs : List (String × List Item)) (base prev : Content),
    evalBoards .layer base prev bs =
      bs.map fun nb => (Kind.layer, nb.1, Board.mk (evalItems [] nb.2).1 (evalItems [] nb.2).2)
  | [], _, _ => by simp [evalBoards_nil]
  | (n, body) :: rest, base, prev => by
    rw [evalBoards_cons, layer_block rest]
    simp [inheritedOf]

theorem layer_starts_empty (base base' prev prev' : Content) (bs : List (String × List Item)) :
    evalBoards .layer base prev bs = evalBoards .layer base' prev' bs := by
  rw [layer_block, layer_block]

theorem layer_content (base prev : Content) (bs : List (String × List Item)) (n : String) (body : List Item)
    (h : (n, body) ∈ bs) :
    ∃ b, (Kind.layer, n, b) ∈ evalBoards .layer base prev bs ∧ b.content = applyOps [] (ownOps body) := by
  rw [layer_block]
  exact ⟨Board.mk (evalItems [] body).1 (evalItems [] body).2,
    List.mem_map.mpr ⟨(n, body), h, rfl⟩, by simp [Board.content, content_is_own_ops]⟩

/-- **step_cumulative**: the first step overlays what it inherits, every further step overlays its predecessor -/
theorem step_cumulative (base prev : Content) (n1 n2 : String) (b1 b2 : List Item)
    (rest : List (String × List Item)) :
    ∃ s1 s2 tail, evalBoards .step base prev ((n1, b1) :: (n2, b2) :: rest) =
        (Kind.step, n1, s1) :: (Kind.step, n2, s2) :: tail ∧
      s1.content = applyOps prev (ownOps b1) ∧ s2.content = applyOps s1.content (ownOps b2) := by
  rw [evalBoards_cons, evalBoards_cons]
  exact ⟨_, _, _, rfl, by simp [Board.content, inheritedOf, content_is_own_ops],
    by simp [Board.content, inheritedOf, content_is_own_ops]⟩

/-- the running contents of a block of steps: each step overlays its own declarations on its predecessor's content -/
def stepContents (prev : Content) : List (String × List Item) → List Content
  | [] => []
  | (_, body) :: rest => applyOps prev (ownOps body) :: stepContents (applyOps prev (ownOps body)) rest

/-- **steps_cumulative_all**: `step_cumulative` for a block of any length — the contents of the boards of a `steps`
    block are the running overlay, board by board, whatever the enclosing board's content `base` is -/
theorem steps_cumulative_all : ∀ (bs : List (String × List Item)) (base prev : Content),
    (evalBoards .step base prev bs).map (fun b => b.2.2.content) = stepContents prev bs
  | [], base, prev => by simp [evalBoards_nil, stepContents]
  | (n, body) :: rest, base, prev => by
    rw [evalBoards_cons]
    simp only [List.map_cons, stepContents, Board.content, inheritedOf, content_is_own_ops, List.cons.injEq, true_and]
    exact steps_cumulative_all rest base _

theorem applyOps_append (c : Content) (xs ys : List Op) : applyOps c (xs ++ ys) = applyOps (applyOps c xs) ys := by
  simp [applyOps, List.foldl_append]

/-- **step_k_is_all_earlier_steps**: the k-th step of a block (any k, any block) shows the inherited content overlaid
    with the declarations of steps 0..k in source order — and nothing of the steps after it -/
theorem step_k_is_all_earlier_steps : ∀ (pre : List (String × List Item)) (n : String) (body : List Item)
    (post : List (String × List Item)) (prev : Content),
    (stepContents prev (pre ++ (n, body) :: post))[pre.length]? =
      some (applyOps prev ((pre ++ [(n, body)]).flatMap fun x => ownOps x.2))
  | [], n, body, post, prev => by simp [stepContents]
  | (m, b) :: pre, n, body, post, prev => by
    simp only [List.cons_append, stepContents, List.length_cons, List.getElem?_cons_succ, List.flatMap_cons]
    rw [step_k_is_all_earlier_steps pre n body post _, applyOps_append]

theorem has_applyOp (c : Content) (n : String) (o : Op) (hc : c.has n = true) (ho : o ≠ .del n) :
    (applyOp c o).has n = true := by
  unfold Content.has at *
  cases o with
  | decl m =>
    simp only [applyOp]
    split
    · exact hc
    · simp only [List.any_append, hc, Bool.true_or]
  | set m k v =>
    simp only [applyOp]
    split
    · simp only [List.any_map]
      rw [List.any_eq_true] at hc ⊢
      obtain ⟨e, he, hn⟩ := hc
      refine ⟨e, he, ?_⟩
      simp only [Function.comp]
      split
      · rename_i hm
        simp only [beq_iff_eq] at hm hn ⊢
        rw [← hm, hn]
      · exact hn
    · simp only [List.any_append, hc, Bool.true_or]
  | del m =>
    simp only [applyOp]
    have hm : m ≠ n := fun h => ho (by rw [h])
    rw [List.any_eq_true] at hc ⊢
    obtain ⟨e, he, hn⟩ := hc
    refine ⟨e, List.mem_filter.mpr ⟨he, ?_⟩, hn⟩
    simp only [beq_iff_eq] at hn
    simp only [bne_iff_ne, ne_eq, hn]
    exact fun h => hm h.symm

/-- an object of the previous step that the step does not delete is still there -/
theorem step_keeps (c : Content) (n : String) : ∀ (ops : List Op), c.has n = true → (∀ o ∈ ops, o ≠ .del n) →
    (applyOps c ops).has n = true
  | [], hc, _ => by simpa [applyOps] using hc
  | o :: rest, hc, hno => by
    have h1 := has_applyOp c n o hc (hno o List.mem_cons_self)
    have := step_keeps (applyOp c o) n rest h1 (fun o' ho' => hno o' (List.mem_cons_of_mem _ ho'))
    simpa [applyOps] using this

/-- **steps_prefix**: the boards of the first steps do not depend on the steps that follow -/
theorem steps_prefix : ∀ (bs more : List (String × List Item)) (k : Kind) (base prev : Content),
    (evalBoards k base prev (bs ++ more)).take bs.length = evalBoards k base prev bs
  | [], more, k, base, prev => by simp [evalBoards_nil]
  | (n, body) :: rest, more, k, base, prev => by
    rw [List.cons_append, evalBoards_cons, evalBoards_cons]
    simp only [List.length_cons, List.take_succ_cons, List.cons.injEq, true_and]
    exact steps_prefix rest more k base _

/-- **isolation** for a whole block of scenarios (or layers): changing the body of one board leaves every other
    board of the block unchanged -/
theorem isolation_siblings (base prev : Content) (pre post : List (String × List Item)) (n : String)
    (body body' : List Item) :
    (evalBoards .scenario base prev (pre ++ (n, body) :: post)).eraseIdx pre.length =
      (evalBoards .scenario base prev (pre ++ (n, body') :: post)).eraseIdx pre.length ∧
    (evalBoards .layer base prev (pre ++ (n, body) :: post)).eraseIdx pre.length =
      (evalBoards .layer base prev (pre ++ (n, body') :: post)).eraseIdx pre.length := by
  constructor
  · rw [scenario_block, scenario_block]
    simp [List.map_append, List.eraseIdx_append_of_length_le]
  · rw [layer_block, layer_block]
    simp [List.map_append, List.eraseIdx_append_of_length_le]

/-! ### non-vacuity: the example of the d2 documentation (a scenario modifying and a scenario deleting) -/

def demo : List Item :=
  [.op (.set "a" "Label" "A"), .op (.decl "b"),
   .boards .scenario [("s1", [.op (.decl "c"), .op (.set "a" "Shape" "circle")]), ("s2", [.op (.del "b")])],
   .op (.decl "d")]

example : (evalProg demo).content.map (·.1) = ["a", "b", "d"] := by
  simp [evalProg, demo, evalItems_op, evalItems_boards, evalItems_nil, applyOp, Content.has, Board.content]

example : ((evalProg demo).children.map fun x => (x.2.1, x.2.2.content.map (·.1))) =
    [("s1", ["a", "b", "c"]), ("s2", ["a"])] := by
  simp [evalProg, demo, evalItems_op, evalItems_boards, evalItems_nil, evalBoards_cons, evalBoards_nil, inheritedOf,
    applyOp, Content.has, Board.content, Board.children, setAttr]

example : (stepContents [] [("1", [.op (.decl "a")]), ("2", [.op (.decl "b")]), ("3", [.op (.del "a")])]).map (·.map (·.1)) =
    [["a"], ["a", "b"], ["b"]] := by
  simp [stepContents, ownOps, applyOps, applyOp, Content.has]

end D2V.Boards
