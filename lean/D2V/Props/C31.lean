import D2V.Model.Themes
/-!
  C31 — Themes and theme overrides are applied consistently.

  Every statement is over the tables regenerated from the Go sources (`D2V.Gen.Themes`): the catalog, the assignment
  list of `ApplyOverrides`, the switch of `ResolveThemeColor`, the expansion of `themeColorRegex`, the rule format of
  `singleThemeRulesets` and the colour branch of `ThemableElement.Render`. Facts about the finite tables are closed by
  `decide`; everything that quantifies over palettes, override sets, IDs and strings is proved generically.
-/
namespace D2V.Themes
open D2V.Gen.Themes

/-! ### palette records -/

theorem Palette.get_set (p : Palette) (c c' : Code) (v : String) :
    (p.set c v).get c' = if c' = c then v else p.get c' := by
  cases c <;> cases c' <;> rfl

/-! ### ApplyOverrides as a fold: a list of *diagonal* assignments (`t.X = *overrides.X`) overrides exactly the
    listed codes — for any list, any palette, any override set. -/

theorem applyPairs_diag (ps : List (Code × Code)) (hd : ∀ ab ∈ ps, ab.1 = ab.2)
    (p : Palette) (o : Overrides) (c : Code) :
    (c ∈ ps.map Prod.fst → (applyPairs ps p o).get c = (o c).getD (p.get c)) ∧
    (c ∉ ps.map Prod.fst → (applyPairs ps p o).get c = p.get c) := by
  induction ps generalizing p with
  | nil => simp [applyPairs]
  | cons ab ps ih =>
    obtain ⟨a, b⟩ := ab
    have hab : a = b := hd (a, b) (by simp)
    subst hab
    have hd' : ∀ ab ∈ ps, ab.1 = ab.2 := fun ab h => hd ab (by simp [h])
    have hmem : c ∈ List.map Prod.fst ((a, a) :: ps) ↔ c = a ∨ c ∈ List.map Prod.fst ps := by simp
    by_cases hin : c ∈ List.map Prod.fst ps
    · -- a later assignment for the same code decides
      cases hoa : o a with
      | none =>
        have hstep : applyPairs ((a, a) :: ps) p o = applyPairs ps p o := by simp [applyPairs, hoa]
        rw [hstep]
        exact ⟨fun _ => (ih hd' p).1 hin, fun h => absurd (hmem.2 (Or.inr hin)) h⟩
      | some v =>
        have hstep : applyPairs ((a, a) :: ps) p o = applyPairs ps (p.set a v) o := by simp [applyPairs, hoa]
        rw [hstep]
        refine ⟨fun _ => ?_, fun h => absurd (hmem.2 (Or.inr hin)) h⟩
        rw [(ih hd' (p.set a v)).1 hin, Palette.get_set]
        by_cases hc : c = a
        · subst hc; simp [hoa]
        · simp [hc]
    · cases hoa : o a with
      | none =>
        have hstep : applyPairs ((a, a) :: ps) p o = applyPairs ps p o := by simp [applyPairs, hoa]
        rw [hstep, (ih hd' p).2 hin]
        refine ⟨fun h => ?_, fun _ => rfl⟩
        rcases hmem.1 h with hc | hc
        · subst hc; simp [hoa]
        · exact absurd hc hin
      | some v =>
        have hstep : applyPairs ((a, a) :: ps) p o = applyPairs ps (p.set a v) o := by simp [applyPairs, hoa]
        rw [hstep, (ih hd' (p.set a v)).2 hin, Palette.get_set]
        refine ⟨fun h => ?_, fun h => ?_⟩
        · rcases hmem.1 h with hc | hc
          · subst hc; simp [hoa]
          · exact absurd hc hin
        · have hc : ¬ c = a := fun hc => h (hmem.2 (Or.inl hc))
          simp [hc]

/-- every assignment of the real `ApplyOverrides` is `t.Colors.X = *overrides.X` (regenerated table) -/
theorem overridePairs_diag : ∀ ab ∈ overridePairs, ab.1 = ab.2 := by decide

/-- no colour code is skipped by the real `ApplyOverrides` (regenerated table) -/
theorem overridePairs_total (c : Code) : c ∈ overridePairs.map Prod.fst := by
  cases c <;> decide

theorem applyOverrides_get (p : Palette) (o : Overrides) (c : Code) :
    (applyOverrides p o).get c = (o c).getD (p.get c) := by
  unfold applyOverrides
  exact (applyPairs_diag _ overridePairs_diag p o c).1 (overridePairs_total c)

/-! ### ResolveThemeColor -/

/-- the regexp of `lib/color` accepts exactly the 18 codes -/
theorem codes_are_theme_colors (c : Code) : isThemeColor c.name = true := by
  cases c <;> decide

theorem theme_colors_are_codes : ∀ s ∈ themeColorCodes, ∃ c : Code, c.name = s := by
  intro s hs
  have h : (Code.ofName? s).isSome = true := by
    revert s
    decide
  match hc : Code.ofName? s with
  | some c =>
    refine ⟨c, ?_⟩
    have := List.find?_some hc
    simpa using this
  | Option.none => simp [hc] at h

/-- the switch of `ResolveThemeColor` has the right palette field under every label -/
theorem resolveCases_lookup (c : Code) : resolveCases.lookup c.name = some c := by
  cases c <;> decide

theorem resolve_code (p : Palette) (c : Code) : resolve p c.name = p.get c := by
  simp [resolve, codes_are_theme_colors, resolveCases_lookup]

/-- a string that is not a theme colour code is printed as it is -/
theorem resolve_non_theme (p : Palette) (s : String) (h : isThemeColor s = false) : resolve p s = s := by
  simp [resolve, h]

/-- **resolve_override**: for every palette, every override set and every colour code, the code resolves to the
    override when one is given and to the theme's colour otherwise. -/
theorem resolve_override (p : Palette) (o : Overrides) (c : Code) :
    resolve (applyOverrides p o) c.name = (o c).getD (p.get c) := by
  rw [resolve_code, applyOverrides_get]

/-! ### source-level overrides (`vars.d2-config.theme-overrides`) -/

/-- `d2compiler.compileThemeOverrides` stores the value written under key `<code>` (any case, the switch is over the
    upper-cased key) in the `ThemeOverrides` field of that same code — for all 18 codes (regenerated switch table) -/
theorem config_override_cases (c : Code) : configOverrideCases.lookup c.name = some c := by
  cases c <;> decide

theorem config_override_cases_sound : ∀ r ∈ configOverrideCases, r.1 = r.2.name := by decide

/-! ### the stylesheet -/

theorem sheetRules_mem (c : Code) : (c.name, c) ∈ sheetRules := by
  cases c <;> decide

theorem sheetRules_sound : ∀ r ∈ sheetRules, r.1 = r.2.name := by decide

/-- one rule per (property, class): no class is given two colours -/
theorem sheetRules_nodup : (sheetRules.map Prod.fst).Nodup := by decide
theorem sheetProps_nodup : sheetProps.Nodup := by decide

/-- every class prefix a `ThemableElement` can emit (`stroke-`, `fill-`, `background-color-`, `color-`) has its rules
    in the stylesheet, and its inline attribute has the same name as the CSS property -/
theorem elementProps_in_sheet : ∀ e ∈ elementProps, e.1 ∈ sheetProps ∧ e.2.1 = e.1 := by decide

theorem mem_rulesets (p : Palette) (prop : String) (c : Code) (hp : prop ∈ sheetProps) :
    (prop, c.name, p.get c) ∈ rulesets p := by
  unfold rulesets
  rw [List.mem_flatMap]
  refine ⟨prop, hp, ?_⟩
  rw [List.mem_map]
  exact ⟨(c.name, c), sheetRules_mem c, rfl⟩

/-- **stylesheet_complete**: for every property looped over, every colour code has a rule
    `.<prop>-<code>{<prop>:<colour>}` whose colour is the override if given, else the theme's colour. -/
theorem stylesheet_complete (p : Palette) (o : Overrides) (prop : String) (c : Code) (hp : prop ∈ sheetProps) :
    (prop, c.name, (o c).getD (p.get c)) ∈ rulesets (applyOverrides p o) := by
  have := mem_rulesets (applyOverrides p o) prop c hp
  rwa [applyOverrides_get] at this

/-- **stylesheet_functional**: every printed rule is the rule of some colour code with that code's colour (so, with
    `sheetRules_nodup`, a class never gets a second, different colour). -/
theorem stylesheet_functional (p : Palette) (r : String × String × String) (h : r ∈ rulesets p) :
    r.1 ∈ sheetProps ∧ ∃ c : Code, r.2.1 = c.name ∧ r.2.2 = p.get c := by
  unfold rulesets at h
  rw [List.mem_flatMap] at h
  obtain ⟨prop, hp, h⟩ := h
  rw [List.mem_map] at h
  obtain ⟨rc, hrc, rfl⟩ := h
  exact ⟨hp, rc.2, sheetRules_sound rc hrc, rfl⟩

/-! ### the catalog: `Find` and rejection of unknown IDs -/

theorem find_unknown (id : Int) (h : id ∉ findSearch.map (·.id)) : find id = ThemeRec.zero := by
  unfold find
  have : findSearch.find? (fun t => t.id == id) = Option.none := by
    rw [List.find?_eq_none]
    intro t ht hid
    apply h
    rw [List.mem_map]
    exact ⟨t, ht, by simpa using hid⟩
  rw [this]

/-- **unknown_theme_rejected**: an ID that no catalog entry carries is refused (for every integer). -/
theorem unknown_theme_rejected (id : Int) (h : id ∉ findSearch.map (·.id)) : rejected id = true := by
  unfold rejected
  rw [find_unknown id h]
  simp

/-- every catalog theme is found under its own ID (IDs are distinct) and is not refused -/
theorem known_theme_accepted : ∀ t ∈ findSearch, find t.id = t ∧ rejected t.id = false := by decide

theorem catalog_ids_nodup : (findSearch.map (·.id)).Nodup := by decide

/-- `Find` looks through both catalogs -/
theorem findSearch_covers : ∀ t ∈ lightCatalog ++ darkCatalog, t ∈ findSearch := by decide

/-- `IsDark` (an ID range) agrees with membership in the dark catalog -/
theorem isDark_iff_dark_catalog : ∀ t ∈ findSearch, isDark t = darkCatalog.contains t := by decide

/-- rejection is exactly "not a catalog ID" -/
theorem rejected_iff (id : Int) : rejected id = true ↔ id ∉ findSearch.map (·.id) := by
  constructor
  · intro hr hmem
    rw [List.mem_map] at hmem
    obtain ⟨t, ht, rfl⟩ := hmem
    have := (known_theme_accepted t ht).2
    rw [this] at hr
    cases hr
  · exact unknown_theme_rejected id

/-! ### the property -/

/-- **C31**: for every theme ID, optional dark theme ID, override sets `o` (light) and `od` (dark), every CSS property
    the renderer themes and every colour code:
    (1) the light part of the stylesheet has the rule with the theme's colour or the override;
    (2) when a dark theme is requested, the media-query part has the rule for the dark theme with the dark overrides;
    (3) when no dark theme is requested, the inline attribute carries the same colour as the light stylesheet rule;
    when one is requested nothing is inlined (the inline value would defeat the media query). -/
theorem C31_consistent (id : Int) (dark : Option Int) (o od : Overrides) (prop : String) (c : Code)
    (hp : prop ∈ sheetProps) :
    (prop, c.name, (o c).getD ((find id).colors.get c)) ∈ (themeCSS id dark o od).light ∧
    (∀ d, dark = some d → ∃ rules, (themeCSS id dark o od).dark = some rules ∧
        (prop, c.name, (od c).getD ((find d).colors.get c)) ∈ rules) ∧
    (dark = Option.none → inlineColor id dark o c.name = some ((o c).getD ((find id).colors.get c))) ∧
    (dark ≠ Option.none → inlineColor id dark o c.name = Option.none) := by
  refine ⟨stylesheet_complete _ o prop c hp, ?_, ?_, ?_⟩
  · intro d hd
    subst hd
    exact ⟨_, rfl, stylesheet_complete _ od prop c hp⟩
  · intro hd
    subst hd
    simp [inlineColor, themed, resolve_override]
  · intro hd
    cases dark with
    | none => exact absurd rfl hd
    | some d => rfl

/-- **inline_matches_sheet**: with no dark theme, the inline colour of a code is the colour of *every* stylesheet rule
    for that code's class (under each themable property). -/
theorem inline_matches_sheet (id : Int) (o od : Overrides) (c : Code) (r : String × String × String)
    (hr : r ∈ (themeCSS id Option.none o od).light) (hc : r.2.1 = c.name) :
    inlineColor id Option.none o c.name = some r.2.2 := by
  obtain ⟨_, c', hn, hv⟩ := stylesheet_functional _ r hr
  have hcc : c' = c := by
    have h : c'.name = c.name := by rw [← hn, hc]
    revert h
    cases c' <;> cases c <;> decide
  subst hcc
  simp [inlineColor, resolve_code, hv]

/-- Non-vacuity: theme 300 (Terminal) with N1 overridden — the N1 rules carry the override, B2 the catalog colour. -/
example :
    let o : Overrides := fun c => if c = .N1 then some "#123456" else Option.none
    ("fill", "N1", "#123456") ∈ (themeCSS 300 Option.none o Overrides.none).light ∧
    ("stroke", "B2", "#0000E4") ∈ (themeCSS 300 Option.none o Overrides.none).light ∧
    inlineColor 300 Option.none o "N1" = some "#123456" ∧ rejected 300 = false ∧ rejected 999 = true := by
  decide

end D2V.Themes
