import D2V.Model.Edit
/-!
  C41 — edits on a board stay within that board.

  Abstract board semantics (d2ir `compileBoards`): board `i` has its own declarations `own[i]` and possibly a base
  `bases[i] < i` (parent board for a scenario and for the first step, previous step for later steps, none for the root
  and for layers); its compiled content is `overlay (content base) own[i]`.  An edit addressed to board `t` changes
  `own[t]` only.  Theorem: every board that does not depend on `t` (`dependsOn`, the relation the driver uses to decide
  which boards of the REAL before/after pair must be unchanged) has the same content afterwards — for every overlay
  function, every number of boards, every inheritance forest.
-/
namespace D2V.Edit

theorem getD_append_lt {α : Type} (a : List α) (x d : α) (j : Nat) (h : j < a.length) : (a ++ [x]).getD j d = a.getD j d := by
  simp [List.getD, List.getElem?_append_left h]

theorem scoped_aux (overlay : Diagram → Diagram → Diagram) (t : Nat) :
    ∀ (bases : List (Option Nat)) (os os' : List Diagram) (accD : List Bool) (accC accC' : List Diagram),
      accC.length = accD.length → accC'.length = accD.length → os.length = os'.length →
      (∀ k, accD.length + k ≠ t → os[k]? = os'[k]?) →
      (∀ k j, bases[k]? = some (some j) → j < accD.length + k) →
      (∀ i, accD.getD i true = false → accC[i]? = accC'[i]?) →
      ∀ i, (depsAux t bases accD).getD i true = false →
        (contentsAux overlay bases os accC)[i]? = (contentsAux overlay bases os' accC')[i]? := by
  intro bases
  induction bases with
  | nil =>
    intro os os' accD accC accC' _ _ _ _ _ hinv i hi
    cases os <;> cases os' <;> simpa [depsAux, contentsAux] using hinv i (by simpa [depsAux] using hi)
  | cons b r ih =>
    intro os os' accD accC accC' hc hc' hlen hsame hbase hinv i hi
    cases os with
    | nil =>
      cases os' with
      | nil =>
        -- no own declarations left: both sides stop; the dependency list only grows at indices ≥ accD.length
        simp only [contentsAux]
        by_cases hlt : i < accD.length
        · apply hinv i
          -- the prefix of the dependency list is accD
          have hpre : ∀ (bs : List (Option Nat)) (acc : List Bool), i < acc.length → (depsAux t bs acc).getD i true = acc.getD i true := by
            intro bs
            induction bs with
            | nil => intro acc _; rfl
            | cons b2 r2 ih2 =>
              intro acc hl
              simp only [depsAux]
              rw [ih2 _ (by simp; omega), getD_append_lt _ _ _ _ hl]
          rw [← hpre (b :: r) accD hlt]; exact hi
        · have h1 : accC[i]? = none := by rw [List.getElem?_eq_none]; omega
          have h2 : accC'[i]? = none := by rw [List.getElem?_eq_none]; omega
          rw [h1, h2]
      | cons o' os' => simp at hlen
    | cons o os =>
      cases os' with
      | nil => simp at hlen
      | cons o' os' =>
        simp only [depsAux, contentsAux]
        refine ih os os' (accD ++ [depBit t accD b]) (accC ++ [contentOf overlay accC b o])
          (accC' ++ [contentOf overlay accC' b o'])
          (by simp [hc]) (by simp [hc']) (by simpa using hlen) ?_ ?_ ?_ i hi
        · intro k hk
          have := hsame (k + 1) (by simp at hk ⊢; omega)
          simpa using this
        · intro k j hkj
          have := hbase (k + 1) j (by simpa using hkj)
          simp; omega
        · -- the invariant for the extended accumulators
          intro i' hi'
          by_cases hlt : i' < accD.length
          · rw [List.getElem?_append_left (by omega), List.getElem?_append_left (by omega)]
            apply hinv
            rwa [getD_append_lt _ _ _ _ hlt] at hi'
          · by_cases heq : i' = accD.length
            · subst heq
              have hd : (accD ++ [depBit t accD b]).getD accD.length true = depBit t accD b := by
                simp [List.getD]
              rw [hd] at hi'
              unfold depBit at hi'
              simp only [Bool.or_eq_false_iff, beq_eq_false_iff_ne] at hi'
              have ho : o = o' := by
                have := hsame 0 (by simpa using hi'.1)
                simpa using this
              have e1 : (accC ++ [contentOf overlay accC b o])[accD.length]? = some (contentOf overlay accC b o) := by
                rw [← hc]; simp
              have e2 : (accC' ++ [contentOf overlay accC' b o'])[accD.length]? = some (contentOf overlay accC' b o') := by
                rw [← hc']; simp
              rw [e1, e2, ho]
              cases b with
              | none => rfl
              | some j =>
                simp only [contentOf]
                have hj : j < accD.length := by
                  have := hbase 0 j (by simp)
                  simpa using this
                have hjd : accD.getD j true = false := by
                  have h2 := hi'.2
                  simp only [List.getD] at h2 ⊢
                  rw [List.getElem?_eq_getElem hj] at h2 ⊢
                  simpa using h2
                have := hinv j hjd
                simp only [List.getD, this]
            · have h1 : (accC ++ [contentOf overlay accC b o])[i']? = none := by
                rw [List.getElem?_eq_none]; simp; omega
              have h2 : (accC' ++ [contentOf overlay accC' b o'])[i']? = none := by
                rw [List.getElem?_eq_none]; simp; omega
              rw [h1, h2]

/-- **C41**: an edit of board `t` (only `own[t]` changes) leaves the content of every board that does not inherit from
    `t` unchanged. -/
theorem edit_scoped (overlay : Diagram → Diagram → Diagram) (bases : List (Option Nat)) (own own' : List Diagram) (t : Nat)
    (hlen : own.length = own'.length)
    (hsame : ∀ k : Nat, k ≠ t → own[k]? = own'[k]?)
    (hbase : ∀ k j : Nat, bases[k]? = some (some j) → j < k) :
    ∀ i, (dependsOn bases t).getD i true = false →
      (contents overlay bases own)[i]? = (contents overlay bases own')[i]? := by
  intro i hi
  exact scoped_aux overlay t bases own own' [] [] [] rfl rfl hlen (by simpa using hsame) (by simpa using hbase)
    (by intro i h; simp [List.getD] at h) i hi

/-- the target itself depends on itself -/
example : dependsOn [none, some 0, some 1, none, some 3] 1 = [false, true, true, false, false] := by decide

/-- a layer (no base) below the edited board is unaffected, a scenario / later step is affected -/
example : dependsOn [none, some 0, none, some 1] 0 = [true, true, false, true] := by decide

end D2V.Edit
