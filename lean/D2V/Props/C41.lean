import D2V.Model.Edit
/-! C41 — editing API (placeholder lemmas; replaced by the real development) -/
namespace D2V.Edit

theorem C41_firstFailing_none_iff (cs : List Clause) : firstFailing cs = none ↔ allHold cs = true := by
  induction cs with
  | nil => simp [firstFailing, allHold]
  | cons c r ih =>
    unfold firstFailing
    cases h : c.holds <;> simp [allHold, h] at * <;> exact ih

end D2V.Edit
