package main

import (
	"runtime"

	"d2v/harness/hl"
	"d2v/harness/lay"
)

// C19: laid-out geometry (exact rationals) of every board of generated diagrams under dagre and ELK, for the
// Lean Spec "containers enclose children, siblings do not overlap by more than 1 px" (shapes inside sequence
// diagrams excluded, as the property says).
func main() {
	lay.MaybeChild()
	hl.Main("C19", run)
}

func run(c *hl.Ctx) error {
	if cs := c.ReplayCase(); cs != nil {
		in := cs["in"].(map[string]any)
		c.Emit(lay.GeoCase(lay.Run(in["src"].(string), in["engine"].(string), false)))
		return nil
	}
	g := &lay.Gen{R: c.Rand()}
	var jobs []lay.Job
	nProg := lay.DevN(c.Pick(900, 8000))
	weights := []string{"core", "styled", "styled", "grid", "grid", "near", "grid", "nested", "nested", "seq", "deep", "boards"}
	for i := 0; i < nProg; i++ {
		p := weights[i%len(weights)]
		src := g.Program(p)
		for _, e := range lay.Engines(i/len(weights), 3) {
			jobs = append(jobs, lay.Job{Src: src, Engine: e, Tag: p})
		}
	}
	res := lay.RunAll(jobs, runtime.NumCPU(), lay.QuickBudget(c.Quick()), 32)
	for i, rr := range res {
		if rr == nil {
			c.Count("budget:not-run")
			continue
		}
		for _, ft := range lay.Features(rr) {
			c.Count(rr.Engine + ":" + ft)
		}
		c.Emit(lay.GeoCase(rr))
		c.Count("geo:" + jobs[i].Tag + ":" + rr.Engine)
		if rr.Compile != "ok" {
			c.Count("geo:not-compilable")
		}
	}
	return nil
}
