package main

import (
	"context"
	"crypto/sha1"
	"encoding/hex"
	"encoding/json"
	"fmt"
	"math/rand"
	"os"
	"path/filepath"
	"sort"
	"strings"

	"d2v/harness/hl"

	"oss.terrastruct.com/d2/d2compiler"
	"oss.terrastruct.com/d2/d2graph"
	"oss.terrastruct.com/d2/d2layouts/d2dagrelayout"
	"oss.terrastruct.com/d2/d2lib"
	"oss.terrastruct.com/d2/d2plugin"
	"oss.terrastruct.com/d2/d2renderers/d2svg"
	"oss.terrastruct.com/d2/lib/textmeasure"
	"oss.terrastruct.com/util-go/xmain"
)

// C26: d2graph.SerializeGraph / DeserializeGraph on compiled graphs, before and after dagre layout.
//   "serde" lines: the arena view of the graph (ids, parents, children, edge endpoints, a hash of everything
//   encoding/json carries per object/edge incl. geometry), the AbsIDs / ChildrenArray / Src / Dst found in the
//   serialized JSON, and the arena view of the deserialized graph.
//   "svg" lines: the same program rendered with the layout done in-process and with the layout done on the far side
//   of the wire format (serialize → deserialize → layout → serialize → deserialize, as d2plugin exec/serve do).
func main() {
	if strings.HasPrefix(filepath.Base(os.Args[0]), "d2plugin-") {
		// this executable, installed on PATH as d2plugin-vdagre, is an external layout plugin: the bundled dagre engine
		// behind the real plugin protocol (d2plugin.Serve), which — like real plugins do — also talks on stderr
		fmt.Fprintln(os.Stderr, "vdagre: warning: this plugin logs to stderr {\"not\": \"json\"}")
		xmain.Main(d2plugin.Serve(&noisyPlugin{&d2plugin.DagrePlugin}))
		return
	}
	hl.Main("C26", run)
}

type noisyPlugin struct{ d2plugin.Plugin }

func (p *noisyPlugin) Info(ctx context.Context) (*d2plugin.PluginInfo, error) {
	i, err := p.Plugin.Info(ctx)
	if err != nil {
		return nil, err
	}
	c := *i
	c.Name = "vdagre"
	return &c, nil
}

func (p *noisyPlugin) Layout(ctx context.Context, g *d2graph.Graph) error {
	fmt.Fprintln(os.Stderr, "vdagre: laying out", len(g.Objects), "objects")
	return p.Plugin.Layout(ctx, g)
}

// installPlugin puts this executable on PATH as d2plugin-vdagre and returns the plugin as d2 finds it (an execPlugin).
func installPlugin(c *hl.Ctx, ctx context.Context) (d2plugin.Plugin, string) {
	exe, err := os.Executable()
	if err != nil {
		return nil, "executable: " + err.Error()
	}
	dir := filepath.Join(c.Work, "plugbin")
	os.MkdirAll(dir, 0o755)
	link := filepath.Join(dir, "d2plugin-vdagre")
	os.Remove(link)
	if err := os.Symlink(exe, link); err != nil {
		return nil, "symlink: " + err.Error()
	}
	os.Setenv("PATH", dir)
	var ps []d2plugin.Plugin
	var p d2plugin.Plugin
	if oc := hl.Guard(func() {
		ps, err = d2plugin.ListPlugins(ctx)
		if err == nil {
			p, err = d2plugin.FindPlugin(ctx, ps, "vdagre")
		}
	}); oc != "ok" {
		return nil, oc
	}
	if err != nil {
		return nil, "error: " + err.Error()
	}
	return p, ""
}

func hashJSON(v any) string {
	b, err := json.Marshal(v)
	if err != nil {
		return "marshal-error:" + err.Error()
	}
	h := sha1.Sum(b)
	return hex.EncodeToString(h[:8])
}

type arena struct {
	Nodes []map[string]any
	Edges []map[string]any
	bad   string
}

func view(g *d2graph.Graph) arena {
	idx := map[*d2graph.Object]int{g.Root: 0}
	for i, o := range g.Objects {
		idx[o] = i + 1
	}
	ref := func(o *d2graph.Object) any {
		if o == nil {
			return nil
		}
		if i, ok := idx[o]; ok {
			return i
		}
		return -1 // pointer to an object that is not in the graph
	}
	var a arena
	all := append([]*d2graph.Object{g.Root}, g.Objects...)
	for _, o := range all {
		kids := []any{}
		for _, c := range o.ChildrenArray {
			kids = append(kids, ref(c))
		}
		keys := []string{}
		for k, c := range o.Children {
			keys = append(keys, fmt.Sprintf("%s=%v", k, ref(c)))
		}
		sort.Strings(keys)
		a.Nodes = append(a.Nodes, map[string]any{"id": o.ID, "attrs": hashJSON(o), "parent": ref(o.Parent), "kids": kids, "map": keys})
	}
	for _, e := range g.Edges {
		a.Edges = append(a.Edges, map[string]any{"attrs": hashJSON(e), "src": ref(e.Src), "dst": ref(e.Dst)})
	}
	if a.Edges == nil {
		a.Edges = []map[string]any{}
	}
	return a
}

func wireView(b []byte) map[string]any {
	var sg struct {
		Root    map[string]any   `json:"root"`
		Objects []map[string]any `json:"objects"`
		Edges   []map[string]any `json:"edges"`
	}
	if err := json.Unmarshal(b, &sg); err != nil {
		return map[string]any{"err": err.Error()}
	}
	so := func(m map[string]any) map[string]any {
		kids := []any{}
		if ca, ok := m["ChildrenArray"].([]any); ok {
			kids = ca
		}
		return map[string]any{"absID": m["AbsID"], "kids": kids}
	}
	objs := []any{}
	for _, o := range sg.Objects {
		objs = append(objs, so(o))
	}
	edges := []any{}
	for _, e := range sg.Edges {
		edges = append(edges, map[string]any{"src": e["Src"], "dst": e["Dst"]})
	}
	return map[string]any{"root": so(sg.Root), "objs": objs, "edges": edges}
}

func serdeCase(path, src string, stage string, g *d2graph.Graph) map[string]any {
	in := map[string]any{"src": src, "stage": stage, "path": path}
	out := map[string]any{}
	res := map[string]any{"k": "serde", "in": in, "out": out}
	orig := view(g)
	out["orig"] = map[string]any{"nodes": orig.Nodes, "edges": orig.Edges}
	var b []byte
	var err error
	if oc := hl.Guard(func() { b, err = d2graph.SerializeGraph(g) }); oc != "ok" || err != nil {
		out["serErr"] = fmt.Sprint(oc, err)
		return res
	}
	out["wire"] = wireView(b)
	var g2 d2graph.Graph
	if oc := hl.Guard(func() { err = d2graph.DeserializeGraph(b, &g2) }); oc != "ok" {
		out["deser"] = "panic"
		out["deserDetail"] = oc
		return res
	} else if err != nil {
		out["deser"] = "error"
		out["deserDetail"] = err.Error()
		return res
	}
	back := view(&g2)
	out["deser"] = "ok"
	out["back"] = map[string]any{"nodes": back.Nodes, "edges": back.Edges}
	out["rootLevel"] = g.RootLevel == g2.RootLevel
	if err := d2graph.CompareSerializedGraph(g, &g2); err != nil {
		out["compare"] = err.Error()
	} else {
		out["compare"] = ""
	}
	return res
}

// ---------------------------------------------------------------------------------------------- generator
var idPool = []string{"a", "b", "c", "d", "e", "x1", "Server", "db", "\"a.b\"", "\"x y\"", "'q\"r'", "\"é\"", "\"a->b\"", "\"[0]\"", "\"#h\"", "Ab", "\"1.5\"", "_u", "\"ctr.in\"", "日本"}
var shapes = []string{"", "", "", "circle", "cylinder", "person", "hexagon", "cloud", "diamond", "oval", "queue", "package", "step", "page", "document", "parallelogram", "stored_data", "callout", "square"}

type genObj struct {
	path []string
}

func genProgram(c *hl.Ctx, r *rand.Rand) string {
	var sb strings.Builder
	var objs [][]string
	var emit func(prefix []string, ind string, depth int, n int)
	emit = func(prefix []string, ind string, depth int, n int) {
		used := map[string]bool{}
		for i := 0; i < n; i++ {
			id := idPool[r.Intn(len(idPool))]
			if used[strings.ToLower(id)] {
				continue
			}
			used[strings.ToLower(id)] = true
			path := append(append([]string{}, prefix...), id)
			objs = append(objs, path)
			switch {
			case depth < 3 && r.Intn(4) == 0:
				fmt.Fprintf(&sb, "%s%s: {\n", ind, id)
				if r.Intn(3) == 0 {
					fmt.Fprintf(&sb, "%s  label: \"L %d\"\n", ind, r.Intn(100))
				}
				if r.Intn(6) == 0 {
					fmt.Fprintf(&sb, "%s  direction: right\n", ind)
				}
				if r.Intn(8) == 0 {
					fmt.Fprintf(&sb, "%s  grid-rows: 2\n", ind)
					c.Count("feature:grid")
				}
				emit(path, ind+"  ", depth+1, 1+r.Intn(3))
				fmt.Fprintf(&sb, "%s}\n", ind)
			case r.Intn(9) == 0:
				fmt.Fprintf(&sb, "%s%s: {\n%s  shape: sql_table\n%s  id: int {constraint: primary_key}\n%s  name: varchar\n%s}\n", ind, id, ind, ind, ind, ind)
				c.Count("feature:sql_table")
			case r.Intn(9) == 0:
				fmt.Fprintf(&sb, "%s%s: {\n%s  shape: class\n%s  +field: \"[]string\"\n%s  method(a uint64): (x, y int)\n%s}\n", ind, id, ind, ind, ind, ind)
				c.Count("feature:class")
			default:
				sh := shapes[r.Intn(len(shapes))]
				switch r.Intn(5) {
				case 0:
					fmt.Fprintf(&sb, "%s%s: \"label %d\"\n", ind, id, r.Intn(1000))
				case 1:
					fmt.Fprintf(&sb, "%s%s.style.opacity: 0.%d\n", ind, id, 1+r.Intn(9))
				case 2:
					fmt.Fprintf(&sb, "%s%s: {tooltip: tip; link: https://example.com/%d}\n", ind, id, r.Intn(9))
				default:
					fmt.Fprintf(&sb, "%s%s\n", ind, id)
				}
				if sh != "" {
					fmt.Fprintf(&sb, "%s%s.shape: %s\n", ind, id, sh)
				}
			}
		}
	}
	emit(nil, "", 0, 1+r.Intn(6))
	// edges between arbitrary objects (absolute paths from the root scope)
	ne := r.Intn(6)
	for i := 0; i < ne && len(objs) > 0; i++ {
		a, b := objs[r.Intn(len(objs))], objs[r.Intn(len(objs))]
		arrow := []string{"->", "<-", "<->", "--"}[r.Intn(4)]
		fmt.Fprintf(&sb, "%s %s %s", strings.Join(a, "."), arrow, strings.Join(b, "."))
		switch r.Intn(4) {
		case 0:
			fmt.Fprintf(&sb, ": \"e %d\"", i)
		case 1:
			fmt.Fprintf(&sb, ": {style.stroke-dash: 3; source-arrowhead: 1; target-arrowhead: {shape: diamond}}")
		}
		sb.WriteString("\n")
	}
	return sb.String()
}

var inputPaths = []string{"in.d2", "in.d2", "reports/q1,q2 overview.d2", "a b/c d.d2", "dir.with.dots/x.y.d2", "ü/日本.d2", "a,b,c.d2",
	"x-1,2-3.d2", "1,2-3,4.d2", "p:1:2.d2", "-", ",", "deep/" + strings.Repeat("long-name/", 20) + "f.d2"}

func compileOnly(path, src string) (*d2graph.Graph, error) {
	g, _, err := d2compiler.Compile(path, strings.NewReader(src), nil)
	return g, err
}

// wireLayout is what d2plugin's exec.Layout + serve.layout do around a layout engine.
func wireLayout(ctx context.Context, g *d2graph.Graph) error {
	b, err := d2graph.SerializeGraph(g)
	if err != nil {
		return err
	}
	var far d2graph.Graph
	if err := d2graph.DeserializeGraph(b, &far); err != nil {
		return err
	}
	if err := d2dagrelayout.DefaultLayout(ctx, &far); err != nil {
		return err
	}
	b2, err := d2graph.SerializeGraph(&far)
	if err != nil {
		return err
	}
	return d2graph.DeserializeGraph(b2, g)
}

func renderWith(ctx context.Context, path, src string, layout d2graph.LayoutGraph, post func(context.Context, []byte) ([]byte, error)) (string, string) {
	ruler, err := textmeasure.NewRuler()
	if err != nil {
		return "", "ruler: " + err.Error()
	}
	var svg []byte
	oc := hl.Guard(func() {
		opts := &d2lib.CompileOptions{Ruler: ruler, InputPath: path, LayoutResolver: func(string) (d2graph.LayoutGraph, error) { return layout, nil }}
		ro := &d2svg.RenderOpts{}
		d, _, e := d2lib.Compile(ctx, src, opts, ro)
		if e != nil {
			err = e
			return
		}
		svg, err = d2svg.Render(d, ro)
		if err == nil && post != nil {
			svg, err = post(ctx, svg)
		}
	})
	if oc != "ok" {
		return "", oc
	}
	if err != nil {
		return "", "error: " + err.Error()
	}
	h := sha1.Sum(svg)
	return hex.EncodeToString(h[:]), ""
}

var extPlugin d2plugin.Plugin
var extPluginErr string

func svgCase(ctx context.Context, path, src string) map[string]any {
	h1, e1 := renderWith(ctx, path, src, d2dagrelayout.DefaultLayout, nil)
	h2, e2 := renderWith(ctx, path, src, wireLayout, nil)
	out := map[string]any{"direct": h1, "directErr": e1, "wire": h2, "wireErr": e2}
	// the real protocol: d2plugin's execPlugin spawning the external plugin binary (layout and postprocess)
	if extPlugin != nil {
		h3, e3 := renderWith(ctx, path, src, extPlugin.Layout, extPlugin.PostProcess)
		out["exec"], out["execErr"] = h3, e3
	} else {
		out["exec"], out["execErr"] = "", "plugin not usable: "+extPluginErr
	}
	return map[string]any{"k": "svg", "in": map[string]any{"src": src, "path": path}, "out": out}
}

func layoutFor(ctx context.Context, path, src string) (*d2graph.Graph, string) {
	g, err := compileOnly(path, src)
	if err != nil {
		return nil, err.Error()
	}
	ruler, err := textmeasure.NewRuler()
	if err != nil {
		return nil, err.Error()
	}
	var lerr error
	oc := hl.Guard(func() {
		if lerr = g.SetDimensions(nil, ruler, nil, nil); lerr != nil {
			return
		}
		lerr = d2dagrelayout.DefaultLayout(ctx, g)
	})
	if oc != "ok" {
		return nil, oc
	}
	if lerr != nil {
		return nil, lerr.Error()
	}
	return g, ""
}

func one(c *hl.Ctx, ctx context.Context, path, src string, withLayout, withSVG bool) {
	g, err := compileOnly(path, src)
	if err != nil {
		c.Count("compile-error")
		c.Emit(map[string]any{"k": "serde", "triv": true, "in": map[string]any{"src": src, "stage": "compiled", "path": path}, "out": map[string]any{"compileErr": true}})
		return
	}
	c.Count("compiled")
	c.Count(fmt.Sprintf("objects<=%d", (len(g.Objects)/4+1)*4))
	c.Emit(serdeCase(path, src, "compiled", g))
	if withLayout {
		if gl, e := layoutFor(ctx, path, src); gl != nil {
			c.Count("laid-out")
			c.Emit(serdeCase(path, src, "laid-out", gl))
		} else {
			c.Count("layout-failed")
			_ = e
		}
	}
	if withSVG {
		c.Count("svg-both-paths")
		c.Emit(svgCase(ctx, path, src))
	}
}

func run(c *hl.Ctx) error {
	ctx := hl.QuietCtx()
	extPlugin, extPluginErr = installPlugin(c, ctx)
	if extPlugin == nil {
		c.Count("plugin:unusable")
	} else {
		c.Count("plugin:installed")
	}
	if cs := c.ReplayCase(); cs != nil {
		in := cs["in"].(map[string]any)
		src := in["src"].(string)
		path, _ := in["path"].(string)
		if path == "" {
			path = "in.d2"
		}
		if cs["k"] == "svg" {
			c.Emit(svgCase(ctx, path, src))
			return nil
		}
		one(c, ctx, path, src, in["stage"] == "laid-out", false)
		return nil
	}
	r := c.Rand()
	fixed := []string{
		"a -> b\n",
		"a: {b: {c}}\na.b.c -> a\n",
		"\"a.b\": {c}\na: {b: {c}}\n\"a.b\".c -> a.b.c\n",
		"t: {\n  shape: sql_table\n  id: int\n}\nu: {\n  shape: sql_table\n  tid: int\n}\nu.tid -> t.id\n",
		"x: {near: top-center}\ny\n",
		"g: {grid-rows: 2; a; b; c}\n",
	}
	for i, s := range fixed {
		one(c, ctx, inputPaths[(i*2)%len(inputPaths)], s, true, true)
		c.Count("fixed")
	}
	n := c.Pick(400, 8000)
	nl := c.Pick(60, 900)
	ns := c.Pick(20, 250)
	for i := 0; i < n; i++ {
		path := inputPaths[r.Intn(len(inputPaths))]
		if strings.Contains(path, ",") {
			c.Count("path:comma")
		} else {
			c.Count("path:other")
		}
		one(c, ctx, path, genProgram(c, r), i < nl, i < ns)
	}
	return nil
}
