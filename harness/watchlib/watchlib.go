// Package watchlib drives the real watch server (d2cli/watch.go, built with -tags verif) in-process for C44/C45:
// temp files with scripted edits, websocket clients connecting and leaving, direct close() calls and shutdown, and
// records the event trace delivered by the verif trace hooks plus what every client actually received.
package watchlib

import (
	"context"
	"fmt"
	"io"
	"math/rand"
	"net/http"
	"os"
	"path/filepath"
	"regexp"
	"strconv"
	"strings"
	"sync"
	"time"

	"github.com/coder/websocket"
	"github.com/coder/websocket/wsjson"

	"d2v/harness/hl"

	"oss.terrastruct.com/d2/d2cli"
	"oss.terrastruct.com/util-go/cmdlog"
	"oss.terrastruct.com/util-go/xmain"
	"oss.terrastruct.com/util-go/xos"
)

// Ev is one trace event. C is the harness's client id (-1: none, -2: unknown client), V a version (-1: none).
type Ev struct {
	K     string
	C     int
	V     int
	OK    bool
	Extra map[string]any
	T     int64 // microseconds since the session started (diagnostics only)
}

func (e Ev) JSON() map[string]any {
	m := map[string]any{"k": e.K, "c": e.C, "v": e.V, "ok": e.OK, "t": e.T}
	for k, v := range e.Extra {
		m[k] = v
	}
	return m
}

type Client struct {
	ID      int
	conn    *websocket.Conn
	mu      sync.Mutex
	Recv    []int
	DialErr string
	Dropped bool
	done    chan struct{}
}

type Session struct {
	Dir, In, Out string
	W            *d2cli.VerifWatcher
	ctx          context.Context
	cancel       context.CancelFunc
	mu           sync.Mutex
	trace        []Ev
	ptr          map[string]int
	lastEv       time.Time
	ver          int
	cmu          sync.Mutex
	clients      map[int]*Client
	runDone      chan error
	RunErr       string
	rng          *rand.Rand // perturbation only (guarded by mu)
	Perturb      bool
	closeWG      sync.WaitGroup
	t0           time.Time
	compileT0    time.Time
	failed       bool
	Hist         map[string]int // generator histogram contributions of this session
}

// Process-wide waiting budget: a broken tree must not multiply the waits. Failures counts the sessions that missed an
// idle point, a client catch-up or the return of run(); the per-wait patience is derived from how slow this machine
// currently is (the longest compile seen so far), not from a fixed large constant.
var (
	budgetMu       sync.Mutex
	Failures       int
	longestCompile time.Duration
)

func noteCompile(d time.Duration) {
	budgetMu.Lock()
	if d > longestCompile {
		longestCompile = d
	}
	budgetMu.Unlock()
}

func (s *Session) noteFailure() {
	if s.failed {
		return // one session counts once
	}
	s.failed = true
	budgetMu.Lock()
	Failures++
	budgetMu.Unlock()
}

// FailedSessions reports how many sessions ran into a waiting limit so far.
func FailedSessions() int {
	budgetMu.Lock()
	defer budgetMu.Unlock()
	return Failures
}

func clampDur(d, lo, hi time.Duration) time.Duration {
	if d < lo {
		return lo
	}
	if d > hi {
		return hi
	}
	return d
}

// patience is how long the trace may stay silent before a wait is given up: a running compile emits no event, so
// it gets several compile times; otherwise twice a compile time covers goroutine scheduling lag under load.
func patience(compiling bool) time.Duration {
	budgetMu.Lock()
	lc := longestCompile
	budgetMu.Unlock()
	if compiling {
		return clampDur(5*lc, 10*time.Second, 90*time.Second)
	}
	return clampDur(2*lc, 2*time.Second, 30*time.Second)
}

var verRe = regexp.MustCompile(`VER(\d{6})`)

func verOf(svg string) int {
	m := verRe.FindStringSubmatch(svg)
	if m == nil {
		return -1
	}
	n, _ := strconv.Atoi(m[1])
	return n
}

func content(v int) []byte { return []byte(fmt.Sprintf("x: VER%06d\n", v)) }

type nopWC struct{ io.Writer }

func (nopWC) Close() error { return nil }

// inside the server's critical sections: never sleep there
var noSleep = map[string]bool{"close_begin": true, "close_noop": true, "refuse": true, "admitted": true, "register": true,
	"unregister": true, "setres": true, "wake": true, "wake_coalesced": true, "broadcast_done": true}

func New(work string, seed int64, perturb bool) (*Session, error) {
	dir, err := os.MkdirTemp(work, "watch-")
	if err != nil {
		return nil, err
	}
	s := &Session{Dir: dir, In: filepath.Join(dir, "in.d2"), Out: filepath.Join(dir, "out.svg"),
		ptr: map[string]int{}, clients: map[int]*Client{}, runDone: make(chan error, 1),
		rng: rand.New(rand.NewSource(seed)), Perturb: perturb, lastEv: time.Now(), t0: time.Now(), Hist: map[string]int{}}
	if err := os.WriteFile(s.In, content(0), 0o644); err != nil {
		return nil, err
	}
	env := xos.NewEnv([]string{"BROWSER=0"})
	ms := &xmain.State{Name: "d2", Stdin: strings.NewReader(""), Stdout: nopWC{io.Discard}, Stderr: nopWC{io.Discard},
		Log: cmdlog.New(env, io.Discard), Env: env, PWD: dir}
	s.ctx, s.cancel = context.WithCancel(hl.QuietCtx())
	d2cli.VerifTraceSink = s.sink
	w, err := d2cli.VerifNewWatcher(s.ctx, ms, s.In, s.Out)
	if err != nil {
		d2cli.VerifTraceSink = nil
		return nil, err
	}
	s.W = w
	go func() { s.runDone <- w.Run() }()
	return s, nil
}

func (s *Session) sink(ev d2cli.VerifEvent) {
	e := Ev{K: ev.Kind, C: -1, V: -1, OK: true}
	s.mu.Lock()
	if ev.Query != "" {
		for _, kv := range strings.Split(ev.Query, "&") {
			if strings.HasPrefix(kv, "c=") {
				e.C, _ = strconv.Atoi(kv[2:])
			}
		}
	}
	if ev.Client != "" {
		if ev.Kind == "register" {
			s.ptr[ev.Client] = e.C
		} else if id, ok := s.ptr[ev.Client]; ok {
			e.C = id
		} else {
			e.C = -2
		}
	}
	switch ev.Kind {
	case "compile_start":
		s.compileT0 = time.Now()
	case "compile_end":
		if !s.compileT0.IsZero() {
			noteCompile(time.Since(s.compileT0))
		}
		e.V = verOf(ev.SVG)
		e.OK = ev.Err == ""
	case "setres":
		e.V = verOf(ev.SVG)
		e.OK = ev.Err == ""
	case "read":
		if ev.HasRes {
			e.V = verOf(ev.SVG)
			e.OK = e.V >= 0
		}
	case "write":
		e.V = verOf(ev.SVG)
		e.OK = ev.Err == ""
	}
	e.T = time.Since(s.t0).Microseconds()
	s.trace = append(s.trace, e)
	s.lastEv = time.Now()
	var d time.Duration
	if s.Perturb && !noSleep[ev.Kind] && s.rng.Intn(4) == 0 {
		d = time.Duration(s.rng.Intn(2500)) * time.Microsecond
	}
	if s.Perturb && ev.Kind == "accepted" && s.rng.Intn(2) == 0 {
		// between the admission and the start of the handler goroutine: the window close() must cover
		d = time.Duration(s.rng.Intn(4000)) * time.Microsecond
	}
	s.mu.Unlock()
	if d > 0 {
		time.Sleep(d)
	}
}

func (s *Session) log(e Ev) {
	s.mu.Lock()
	e.T = time.Since(s.t0).Microseconds()
	s.trace = append(s.trace, e)
	s.lastEv = time.Now()
	s.mu.Unlock()
}

// Edit overwrites the input file in place (same length, one write) with the next version; atomic with its trace entry.
func (s *Session) Edit() {
	s.mu.Lock()
	defer s.mu.Unlock()
	s.ver++
	f, err := os.OpenFile(s.In, os.O_WRONLY, 0)
	if err != nil {
		panic(err)
	}
	f.WriteAt(content(s.ver), 0)
	f.Close()
	s.trace = append(s.trace, Ev{K: "change", C: -1, V: s.ver, OK: true, T: time.Since(s.t0).Microseconds()})
	s.lastEv = time.Now()
}

// EditDuringCompile produces the schedule "a change arrives while a compile is running, after that compile has read
// the input": one edit to start a compile, then — once the trace shows that compile started — a second edit after a
// short delay (the input is read right at the start of a compile; a compile takes two orders of magnitude longer).
func (s *Session) EditDuringCompile(delay time.Duration) {
	s.Edit()
	first := s.ver
	limit := time.Now().Add(patience(true))
	for time.Now().Before(limit) {
		// a compile that started after the first edit and has not ended yet?
		s.mu.Lock()
		seenChange, running := false, false
		for _, e := range s.trace {
			switch {
			case e.K == "change" && e.V == first:
				seenChange = true
			case e.K == "compile_start" && seenChange:
				running = true
			case e.K == "compile_end" && running:
				running = false
				seenChange = false // that compile is over: wait for nothing more, edit anyway
			}
		}
		over := !seenChange
		s.mu.Unlock()
		if running || over {
			break
		}
		time.Sleep(time.Millisecond)
	}
	time.Sleep(delay)
	s.Edit()
	second := s.ver
	// did it land inside a compile that had already read an older version?
	s.mu.Lock()
	idx := -1
	for i, e := range s.trace {
		if e.K == "change" && e.V == second {
			idx = i
		}
	}
	open := false
	for i := 0; i < idx; i++ {
		switch s.trace[i].K {
		case "compile_start":
			open = true
		case "compile_end":
			open = false
		}
	}
	if open {
		s.Hist["edit-in-compile:landed"]++
	} else {
		s.Hist["edit-in-compile:missed"]++
	}
	s.mu.Unlock()
}

// Probe hammers GET /watch (no websocket upgrade) over ONE kept-alive connection: every request goes through
// handleWatch's admission (`closing` test, wsclientsWG.Add) and then fails in websocket.Accept (Done). Requests keep
// arriving on the established connection after the listener has been closed.
func (s *Session) Probe(idBase, n int, gap time.Duration) {
	tr := &http.Transport{MaxConnsPerHost: 1, MaxIdleConnsPerHost: 1, DisableCompression: true}
	defer tr.CloseIdleConnections()
	cl := &http.Client{Transport: tr, Timeout: 10 * time.Second}
	for i := 0; i < n; i++ {
		resp, err := cl.Get(fmt.Sprintf("http://%s/watch?c=%d", s.W.Addr(), idBase+i))
		if err != nil {
			return
		}
		io.Copy(io.Discard, resp.Body)
		resp.Body.Close()
		if gap > 0 {
			time.Sleep(gap)
		}
	}
}

// Connect dials /watch?c=id and keeps reading results until the connection ends.
func (s *Session) Connect(id int) *Client {
	c := &Client{ID: id, done: make(chan struct{})}
	s.cmu.Lock()
	s.clients[id] = c
	s.cmu.Unlock()
	ctx, cancel := context.WithTimeout(context.Background(), 60*time.Second)
	defer cancel()
	conn, _, err := websocket.Dial(ctx, fmt.Sprintf("ws://%s/watch?c=%d", s.W.Addr(), id), nil)
	if err != nil {
		c.mu.Lock()
		c.DialErr = err.Error()
		c.mu.Unlock()
		close(c.done)
		return c
	}
	conn.SetReadLimit(1 << 24)
	c.mu.Lock()
	c.conn = conn
	c.mu.Unlock()
	go func() {
		defer close(c.done)
		for {
			var res struct {
				SVG string `json:"svg"`
				Err string `json:"err"`
			}
			if err := wsjson.Read(context.Background(), conn, &res); err != nil {
				return
			}
			c.mu.Lock()
			c.Recv = append(c.Recv, verOf(res.SVG))
			c.mu.Unlock()
		}
	}()
	return c
}

// Drop closes the client's connection abruptly (the browser tab goes away).
func (s *Session) Drop(id int) {
	s.cmu.Lock()
	c := s.clients[id]
	s.cmu.Unlock()
	if c == nil {
		return
	}
	c.mu.Lock()
	conn := c.conn
	already := c.Dropped
	c.Dropped = true
	c.mu.Unlock()
	if conn == nil || already {
		return
	}
	s.log(Ev{K: "drop", C: id, V: -1, OK: true})
	conn.CloseNow()
}

// CloseAsync calls the watcher's close() on its own goroutine (the API the property is about).
func (s *Session) CloseAsync() {
	s.closeWG.Add(1)
	go func() {
		defer s.closeWG.Done()
		s.W.Close()
	}()
}

func (s *Session) counts() (lastChange, lastRequest, sent, starts, dones, lastEnd, reqOpen int) {
	lastChange, lastRequest, lastEnd = -1, -1, -1
	for i, e := range s.trace {
		switch e.K {
		case "change":
			lastChange = i
		case "request":
			lastRequest = i
			reqOpen++
		case "request_sent":
			sent++
			reqOpen--
		case "request_coalesced":
			reqOpen--
		case "compile_start":
			starts++
		case "broadcast_done":
			dones++
		case "compile_end":
			lastEnd = e.V
		}
	}
	return
}

// clientsBusyLocked (s.mu held): some handler still has something to do according to the trace — a wake-up it has not
// consumed, a result read but not written, a loop iteration begun, or a dropped peer whose handler has not exited.
// Only used to decide WHEN to sample; a server that never gets there is reported through the timeout.
func (s *Session) clientsBusyLocked() bool {
	type st struct {
		wake, woken int
		phase       string
		dropped     bool
	}
	cs := map[int]*st{}
	get := func(id int) *st {
		if cs[id] == nil {
			cs[id] = &st{}
		}
		return cs[id]
	}
	for _, e := range s.trace {
		if e.C < 0 {
			continue
		}
		c := get(e.C)
		switch e.K {
		case "admitted", "accepted":
			c.phase = "starting"
		case "register":
			c.phase = "loop"
		case "wake":
			c.wake++
		case "woken":
			c.woken++
			c.phase = "loop"
		case "read":
			if e.V >= 0 {
				c.phase = "have"
			} else {
				c.phase = "blocked"
			}
		case "write":
			if e.OK {
				c.phase = "blocked"
			} else {
				c.phase = "leaving"
			}
		case "unregister":
			c.phase = "leaving"
		case "exit", "accept_fail", "refuse":
			c.phase = "gone"
		case "drop":
			c.dropped = true
		}
	}
	for _, c := range cs {
		if c.phase == "gone" {
			continue
		}
		if c.phase != "blocked" || c.wake != c.woken || c.dropped {
			return true
		}
	}
	return false
}

// Quiesce waits until the server has nothing left to do (no event for `idle`, every request consumed, every compile
// broadcast, a request seen after the last edit) or the timeout passes, and records what every client has by then.
func (s *Session) Quiesce(idle, timeout time.Duration) bool {
	deadline := time.Now().Add(timeout)
	ok := false
	why := ""
	for {
		s.mu.Lock()
		lc, lr, sent, starts, dones, _, reqOpen := s.counts()
		ends := 0
		for _, e := range s.trace {
			if e.K == "compile_end" {
				ends++
			}
		}
		silent := time.Since(s.lastEv)
		busy := s.clientsBusyLocked()
		s.mu.Unlock()
		if silent >= idle && lr > lc && sent == starts && starts == dones && reqOpen == 0 && !busy {
			ok = true
			break
		}
		// give up when nothing has happened for longer than this machine's current slowness explains
		if p := patience(starts > ends); silent > p {
			why = fmt.Sprintf("no event for %v (patience %v, compile running: %v)", silent.Round(time.Millisecond), p, starts > ends)
			break
		}
		if time.Now().After(deadline) {
			why = "absolute limit"
			break
		}
		time.Sleep(10 * time.Millisecond)
	}
	if !ok {
		s.noteFailure()
	}
	// the server's write returning does not mean the client goroutine has read the message yet: give every live
	// client the time to catch up with what the server wrote to it (a real loss still shows: the wait times out)
	lastProgress := time.Now()
	lastTotal := -1
	for {
		s.mu.Lock()
		written := map[int]int{}
		for _, e := range s.trace {
			if e.K == "write" && e.OK {
				written[e.C]++
			}
		}
		s.mu.Unlock()
		behind := false
		total := 0
		s.cmu.Lock()
		for id, c := range s.clients {
			c.mu.Lock()
			total += len(c.Recv)
			if c.conn != nil && !c.Dropped && len(c.Recv) < written[id] {
				behind = true
			}
			c.mu.Unlock()
		}
		s.cmu.Unlock()
		if !behind {
			break
		}
		if total != lastTotal {
			lastTotal, lastProgress = total, time.Now()
		}
		if time.Since(lastProgress) > patience(false) {
			s.noteFailure()
			break
		}
		time.Sleep(5 * time.Millisecond)
	}
	last := map[string]any{}
	live := []int{}
	s.cmu.Lock()
	for id, c := range s.clients {
		c.mu.Lock()
		if c.conn != nil && !c.Dropped {
			live = append(live, id)
			if n := len(c.Recv); n > 0 {
				last[strconv.Itoa(id)] = c.Recv[n-1]
			} else {
				last[strconv.Itoa(id)] = -1
			}
		}
		c.mu.Unlock()
	}
	s.cmu.Unlock()
	s.mu.Lock()
	s.trace = append(s.trace, Ev{K: "quiesce", C: -1, V: s.ver, OK: ok, T: time.Since(s.t0).Microseconds(), Extra: map[string]any{"live": live, "last": last, "why": why}})
	s.mu.Unlock()
	return ok
}

// xhttp.Serve gives active connections 30 s; the first session that hangs gets the long limit, later ones do not
func shutdownWait() time.Duration {
	if FailedSessions() > 0 {
		return 40 * time.Second
	}
	return 120 * time.Second
}

// Shutdown cancels the parent context (the signal path of `d2 --watch`) and waits for run() to return.
func (s *Session) Shutdown() {
	s.log(Ev{K: "shutdown", C: -1, V: -1, OK: true})
	s.cancel()
	select {
	case err := <-s.runDone:
		if err != nil {
			s.RunErr = err.Error()
		}
	case <-time.After(shutdownWait()):
		s.RunErr = "run() did not return within its time limit"
		s.noteFailure()
	}
	s.closeWG.Wait()
}

// Finish tears the clients down, detaches the sink and returns the observation.
func (s *Session) Finish() map[string]any {
	// let stragglers (handlers that should already be gone) show up in the trace rather than be cut off
	time.Sleep(20 * time.Millisecond)
	s.cmu.Lock()
	ids := []int{}
	for id, c := range s.clients {
		ids = append(ids, id)
		c.mu.Lock()
		if c.conn != nil {
			c.conn.CloseNow()
		}
		c.mu.Unlock()
	}
	s.cmu.Unlock()
	recv := map[string]any{}
	dial := map[string]any{}
	for _, id := range ids {
		c := s.clients[id]
		select {
		case <-c.done:
		case <-time.After(2 * time.Second):
		}
		c.mu.Lock()
		recv[strconv.Itoa(id)] = append([]int{}, c.Recv...)
		if c.DialErr != "" {
			dial[strconv.Itoa(id)] = c.DialErr
		}
		c.mu.Unlock()
	}
	s.mu.Lock()
	d2cli.VerifTraceSink = nil
	tr := make([]any, len(s.trace))
	for i, e := range s.trace {
		tr[i] = e.JSON()
	}
	s.mu.Unlock()
	os.RemoveAll(s.Dir)
	return map[string]any{"trace": tr, "recv": recv, "dialErr": dial, "runErr": s.RunErr, "hist": s.Hist}
}

// Op is one scripted action.
type Op struct {
	Op string `json:"op"` // edit connect drop sleep quiesce close storm shutdown
	ID int    `json:"id,omitempty"`
	N  int    `json:"n,omitempty"`
	Ms int    `json:"ms,omitempty"`
}

// RunScript executes a script against a fresh watcher and returns the observation.
func RunScript(work string, seed int64, perturb bool, script []Op) (map[string]any, error) {
	s, err := New(work, seed, perturb)
	if err != nil {
		return nil, err
	}
	var wg sync.WaitGroup
	shut := false
	for _, op := range script {
		switch op.Op {
		case "edit":
			s.Edit()
		case "connect":
			s.Connect(op.ID)
		case "connect_async":
			wg.Add(1)
			go func(id int) { defer wg.Done(); s.Connect(id) }(op.ID)
		case "drop":
			s.Drop(op.ID)
		case "sleep":
			time.Sleep(time.Duration(op.Ms) * time.Millisecond)
		case "usleep":
			time.Sleep(time.Duration(op.Ms) * time.Microsecond)
		case "edit_in_compile":
			s.EditDuringCompile(time.Duration(op.Ms) * time.Millisecond)
		case "probe":
			wg.Add(1)
			go func(op Op) {
				defer wg.Done()
				s.Probe(op.ID, op.N, time.Duration(op.Ms)*time.Microsecond)
			}(op)
		case "quiesce":
			s.Quiesce(200*time.Millisecond, 120*time.Second)
		case "close":
			s.CloseAsync()
		case "close_wait":
			s.closeWG.Wait()
		case "shutdown":
			wg.Wait()
			s.Shutdown()
			shut = true
		}
	}
	wg.Wait()
	if !shut {
		s.Shutdown()
	}
	return s.Finish(), nil
}
