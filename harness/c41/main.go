package main

import (
	"d2v/harness/edit"
	"d2v/harness/hl"
)

// C41: histories of real d2oracle edits (shared harness in harness/edit); this main only selects the
// operation mix and which parts of a step record the C41 driver reads.
func main() { hl.Main("C41", edit.Run("C41")) }
