package main

import (
	"encoding/base64"
	"fmt"
	"html"
	"io"
	"io/fs"
	"math/rand"
	"net/url"
	"os"
	"path/filepath"
	"regexp"
	"sort"
	"strings"
	"sync"

	"d2v/harness/hl"

	"oss.terrastruct.com/d2/d2ast"
	"oss.terrastruct.com/d2/d2cli"
	"oss.terrastruct.com/d2/d2compiler"
	"oss.terrastruct.com/d2/d2graph"
	"oss.terrastruct.com/d2/d2parser"
	"oss.terrastruct.com/util-go/cmdlog"
	"oss.terrastruct.com/util-go/xmain"
	"oss.terrastruct.com/util-go/xos"
)

// C35: board links on generated board trees.
//   compile stage: the Link every object ends up with (d2compiler.Compile: compileLink + validateBoardLinks)
//   CLI stage: `d2 in.d2 out/o.svg` in a scratch directory, the href each linked shape got in each written SVG,
//   and which file belongs to which board (found through a marker shape unique to the board).
func main() { hl.Main("C35", run) }

type seg struct {
	S   string `json:"s"`
	Unq bool   `json:"unq"`
}

func segsOf(s string) []seg {
	k, err := d2parser.ParseKey(s)
	if err != nil || k == nil {
		return nil
	}
	var out []seg
	for _, e := range k.IDA() {
		out = append(out, seg{e.ScalarString(), e.IsUnquoted()})
	}
	return out
}

func isRemote(val string) bool {
	u, err := url.Parse(html.UnescapeString(val))
	return err == nil && (u.Scheme != "" || strings.HasPrefix(u.Path, "/"))
}

// ------------------------------------------------------------------------------------------------ generator
type gboard struct {
	Name    string // scalar value
	Kind    string
	Parent  *gboard
	Kids    map[string][]*gboard
	Marker  string
	Objs    []*gobj
	Inherit []string // markers expected in the board's file besides its own
	ImpFile string   // non-empty: the board's body lives in this file and is imported (`name: @file`)
	Empty   bool     // no content of its own (folder-only board): no marker, no objects
}

type gobj struct {
	Path  string // object path inside the board in d2 syntax, e.g. c1.o2 or "layers".o3
	Segs  []seg  // its elements
	Raw   string // link value as written
	Want  *gboard // the board the link is meant to reach (nil: none / not a plain board reference)
	Board *gboard
}

func normID(id string) string { return strings.ReplaceAll(id, "\"", "") }

var kinds = []string{"layers", "scenarios", "steps"}
var simpleNames = []string{"a", "b", "c", "x", "y", "z", "home", "n1", "n2"}
var quotedNames = []string{"p.q", "two words", "v1.0"}

func keyOf(name string) string {
	if strings.ContainsAny(name, ". ") {
		return "\"" + name + "\""
	}
	return name
}

func (b *gboard) ida() []seg {
	if b.Parent == nil {
		return []seg{{"root", true}}
	}
	return append(append([]seg{}, b.Parent.ida()...), seg{b.Kind, true}, seg{b.Name, keyOf(b.Name) == b.Name})
}

func (b *gboard) key() string { // the way it can be written in a link value
	if b.Parent == nil {
		return "root"
	}
	return b.Parent.key() + "." + b.Kind + "." + keyOf(b.Name)
}

func (b *gboard) all(acc *[]*gboard) {
	*acc = append(*acc, b)
	for _, k := range kinds {
		for _, c := range b.Kids[k] {
			c.all(acc)
		}
	}
}

func (b *gboard) depth() int {
	if b.Parent == nil {
		return 0
	}
	return 1 + b.Parent.depth()
}

func genTree(r *rand.Rand, c *hl.Ctx) *gboard {
	n := 0
	var mk func(parent *gboard, kind string, name string, depth int) *gboard
	mk = func(parent *gboard, kind, name string, depth int) *gboard {
		n++
		b := &gboard{Name: name, Kind: kind, Parent: parent, Kids: map[string][]*gboard{}, Marker: fmt.Sprintf("mk%d", n)}
		if depth >= 3 || n > 8 {
			return b
		}
		used := map[string]bool{}
		for _, k := range kinds {
			// only root and layers get sub-boards (scenarios/steps stay leaves so that inheritance stays simple)
			if kind != "" && kind != "layers" {
				continue
			}
			p := 2
			if k != "layers" {
				p = 5
			}
			if depth > 0 {
				p += 2
			}
			if r.Intn(p) != 0 && !(depth == 0 && k == "layers") {
				continue
			}
			cnt := 1 + r.Intn(3)
			for i := 0; i < cnt && n <= 8; i++ {
				nm := simpleNames[r.Intn(len(simpleNames))]
				if r.Intn(6) == 0 {
					nm = quotedNames[r.Intn(len(quotedNames))]
				}
				if used[nm] {
					continue
				}
				used[nm] = true
				b.Kids[k] = append(b.Kids[k], mk(b, k, nm, depth+1))
			}
		}
		return b
	}
	root := mk(nil, "", "", 0)
	var all []*gboard
	root.all(&all)
	// boards without content of their own: an empty root that only declares boards, grouping layers
	for _, b := range all {
		hasKids := len(b.Kids["layers"])+len(b.Kids["scenarios"])+len(b.Kids["steps"]) > 0
		if hasKids && (b.Kind == "" || b.Kind == "layers") && r.Intn(5) == 0 {
			b.Empty = true
			c.Count("folder-only-board")
		}
	}
	// markers inherited by scenarios / steps
	for _, b := range all {
		if b.Kind == "scenarios" || b.Kind == "steps" {
			if !b.Parent.Empty {
				b.Inherit = []string{b.Parent.Marker}
			}
		}
		if b.Kind == "steps" {
			for _, s := range b.Parent.Kids["steps"] {
				if s == b {
					break
				}
				b.Inherit = append(b.Inherit, s.Marker)
			}
		}
	}
	// some layer boards are written in a file of their own and imported
	for _, b := range all {
		if b.Kind != "layers" || r.Intn(4) != 0 {
			continue
		}
		anc := false
		for x := b.Parent; x != nil; x = x.Parent {
			if x.ImpFile != "" {
				anc = true
			}
		}
		if !anc {
			b.ImpFile = "imp_" + b.Marker
			c.Count("imported-board")
		}
	}
	// link objects (root and layers only)
	oid := 0
	for _, b := range all {
		if (b.Kind != "" && b.Kind != "layers") || b.Empty {
			continue
		}
		for i, k := 0, r.Intn(4); i < k; i++ {
			oid++
			o := &gobj{Board: b}
			pick := r.Intn(8)
			if b.impRoot() != nil && (pick == 2 || pick == 3) {
				// inside an imported file d2 rejects a link below a container named like a board keyword, quoted or not
				// ("a board itself cannot be linked": extendLinks → NodeBoardKind ignores the quoting); not generated
				pick = 4
			}
			switch pick {
			case 0, 1:
				o.Segs = []seg{{fmt.Sprintf("c%d", oid), true}, {fmt.Sprintf("o%d", oid), true}}
			case 2: // an ordinary container that is merely NAMED like a board keyword (quoted key)
				o.Segs = []seg{{kinds[r.Intn(3)], false}, {fmt.Sprintf("o%d", oid), true}}
				c.Count("scope:quoted-keyword-container")
			case 3:
				o.Segs = []seg{{fmt.Sprintf("c%d", oid), true}, {kinds[r.Intn(3)], false}, {fmt.Sprintf("o%d", oid), true}}
				c.Count("scope:quoted-keyword-container")
			default:
				o.Segs = []seg{{fmt.Sprintf("o%d", oid), true}}
			}
			var parts []string
			for _, sg := range o.Segs {
				if sg.Unq {
					parts = append(parts, sg.S)
				} else {
					parts = append(parts, "\""+sg.S+"\"")
				}
			}
			o.Path = strings.Join(parts, ".")
			t := all[r.Intn(len(all))]
			o.Raw, o.Want = genLink(r, c, b, t, all)
			if o.Want != nil && o.Want == b {
				o.Want = nil // a link to the board itself is dropped by design
			}
			b.Objs = append(b.Objs, o)
		}
	}
	return root
}

func relDown(from, to *gboard) (string, bool) { // to is a descendant of from
	var parts []string
	for x := to; x != from; x = x.Parent {
		if x == nil {
			return "", false
		}
		parts = append([]string{x.Kind, keyOf(x.Name)}, parts...)
	}
	return strings.Join(parts, "."), len(parts) > 0
}

func genLink(r *rand.Rand, c *hl.Ctx, from, to *gboard, all []*gboard) (string, *gboard) {
	switch r.Intn(12) {
	case 0:
		c.Count("link:remote")
		return []string{"https://example.com/x", "/abs/path", "mailto:a@b.c"}[r.Intn(3)], nil
	case 1:
		c.Count("link:absolute")
		if from.impRoot() != nil {
			return to.key(), nil // inside an imported file `root` is the file's own root: rebased, not the global board
		}
		return to.key(), to
	case 2:
		c.Count("link:self")
		if from.Parent == nil {
			return "root", nil
		}
		return from.key(), nil
	case 3:
		c.Count("link:missing")
		if s, ok := relDown(from, to); ok {
			return s + ".layers.nope", nil
		}
		return "layers.nope", nil
	case 4:
		c.Count("link:odd")
		return []string{"layers.x.x", "Layers.a", "\"layers\".a", "x.y", "layers", "_", "_._._._", "steps.a.b", "root.layers", "root.root.layers.a"}[r.Intn(10)], nil
	case 5:
		c.Count("link:odd-tail")
		if s, ok := relDown(from, to); ok {
			return s + "." + keyOf(to.Name), nil
		}
		return "layers.a.a", nil
	}
	// relative: up with underscores to the common ancestor, then down
	anc := from
	ups := 0
	for {
		if s, ok := relDown(anc, to); ok {
			c.Count(fmt.Sprintf("link:relative(up=%d)", ups))
			return strings.Repeat("_.", ups) + s, to
		}
		if anc == to {
			c.Count(fmt.Sprintf("link:ancestor(up=%d)", ups))
			if ups == 0 {
				return "layers.a", nil
			}
			return strings.TrimSuffix(strings.Repeat("_.", ups), "."), to
		}
		if anc.Parent == nil {
			return to.key(), nil
		}
		anc = anc.Parent
		ups++
	}
}

// impRoot is the nearest imported board at or above b (nil when b is written in in.d2)
func (b *gboard) impRoot() *gboard {
	for x := b; x != nil; x = x.Parent {
		if x.ImpFile != "" {
			return x
		}
	}
	return nil
}

// fileIDA is the path of b inside the file it is written in (root = the file's own root)
func (b *gboard) fileIDA() []seg {
	ir := b.impRoot()
	if ir == nil {
		return b.ida()
	}
	if b == ir {
		return []seg{{"root", true}}
	}
	return append(append([]seg{}, b.Parent.fileIDA()...), seg{b.Kind, true}, seg{b.Name, keyOf(b.Name) == b.Name})
}

func (b *gboard) d2(ind string, sb *strings.Builder, files map[string]string) {
	if !b.Empty {
		fmt.Fprintf(sb, "%s%s\n", ind, b.Marker)
	}
	for _, o := range b.Objs {
		val := o.Raw
		if strings.ContainsAny(val, ":#") {
			val = "\"" + val + "\""
		} else if strings.HasPrefix(val, "\"") {
			val = "'" + val + "'"
		}
		fmt.Fprintf(sb, "%s%s: {link: %s}\n", ind, o.Path, val)
	}
	for _, k := range kinds {
		if len(b.Kids[k]) == 0 {
			continue
		}
		fmt.Fprintf(sb, "%s%s: {\n", ind, k)
		for _, kid := range b.Kids[k] {
			if kid.ImpFile != "" {
				var fb strings.Builder
				kid.d2("", &fb, files)
				files[kid.ImpFile+".d2"] = fb.String()
				fmt.Fprintf(sb, "%s  %s: @%s\n", ind, keyOf(kid.Name), kid.ImpFile)
				continue
			}
			fmt.Fprintf(sb, "%s  %s: {\n", ind, keyOf(kid.Name))
			kid.d2(ind+"    ", sb, files)
			fmt.Fprintf(sb, "%s  }\n", ind)
		}
		fmt.Fprintf(sb, "%s}\n", ind)
	}
}

// ------------------------------------------------------------------------------------------------ observation
func graphTree(g *d2graph.Graph, path []string) map[string]any {
	sub := func(kind string, gs []*d2graph.Graph) []any {
		out := []any{}
		for _, x := range gs {
			out = append(out, graphTree(x, append(append([]string{}, path...), kind, x.Name)))
		}
		return out
	}
	objs := []any{}
	for _, o := range g.Objects {
		if o.Link == nil {
			continue
		}
		v := o.Link.Value
		objs = append(objs, map[string]any{"id": normID(o.AbsID()), "link": v, "segs": segsOf(v), "remote": isRemote(v)})
	}
	return map[string]any{"name": g.Name, "folderOnly": g.IsFolderOnly, "ida": path, "goIDA": g.IDA(), "objs": objs,
		"layers": sub("layers", g.Layers), "scenarios": sub("scenarios", g.Scenarios), "steps": sub("steps", g.Steps)}
}

type nopWC struct{ io.Writer }

func (nopWC) Close() error { return nil }

func runCLI(pwd string, args ...string) string {
	ms := &xmain.State{Name: "d2", Stdin: strings.NewReader(""), Stdout: nopWC{io.Discard}, Stderr: nopWC{io.Discard},
		Env: xos.NewEnv([]string{"PATH=/nonexistent", "HOME=" + pwd}), PWD: pwd}
	ms.Log = cmdlog.New(ms.Env, ms.Stderr)
	ms.Opts = xmain.NewOpts(ms.Env, args)
	var err error
	if oc := hl.Guard(func() { err = ms.Main(hl.QuietCtx(), nil, d2cli.Run) }); oc != "ok" {
		return oc
	}
	if err != nil {
		return "error: " + err.Error()
	}
	return ""
}

var hrefRE = regexp.MustCompile(`<a href="([^"]*)" xlink:href="[^"]*"><g class="([^"]*)"`)
var classRE = regexp.MustCompile(`<g class="([A-Za-z0-9+/=]+)"`)

type caseIn struct {
	Src     string
	Boards  []map[string]any // generator knowledge: ida (segs), marker, inherit, objs {path, raw, rawSegs, remote, scope}
	Replay  bool
}

func boardsInfo(root *gboard) []map[string]any {
	var all []*gboard
	root.all(&all)
	var out []map[string]any
	for _, b := range all {
		objs := []any{}
		for _, o := range b.Objs {
			scope := append(append([]seg{}, b.ida()...), o.Segs...)
			fscope := append(append([]seg{}, b.fileIDA()...), o.Segs...)
			var want any
			if o.Want != nil {
				w := []string{}
				for _, sg := range o.Want.ida() {
					w = append(w, sg.S)
				}
				want = w
			}
			var imp any
			if ir := b.impRoot(); ir != nil {
				imp = ir.ida()
			}
			objs = append(objs, map[string]any{"path": normID(o.Path), "want": want, "raw": o.Raw, "rawSegs": segsOf(o.Raw), "remote": isRemote(o.Raw), "scope": scope,
				"fileScope": fscope, "imp": imp})
		}
		inh := b.Inherit
		if inh == nil {
			inh = []string{}
		}
		mk := b.Marker
		if b.Empty {
			mk = ""
		}
		out = append(out, map[string]any{"ida": b.ida(), "marker": mk, "inherit": inh, "objs": objs, "inherits": b.Kind == "scenarios" || b.Kind == "steps"})
	}
	return out
}

func observe(c *hl.Ctx, idx int, src string, files map[string]string, boards []map[string]any) map[string]any {
	in := map[string]any{"src": src, "files": files, "boards": boards, "out": "/w/out/o.svg"}
	out := map[string]any{}
	res := map[string]any{"k": "links", "in": in, "out": out}
	root := filepath.Join(c.Work, "sb35", fmt.Sprintf("t%d", idx))
	os.RemoveAll(root)
	pwd := root + "/w"
	os.MkdirAll(pwd, 0o755)
	os.WriteFile(pwd+"/in.d2", []byte(src), 0o644)
	for n, body := range files {
		os.WriteFile(pwd+"/"+n, []byte(body), 0o644)
	}
	g, _, err := d2compiler.Compile("in.d2", strings.NewReader(src), &d2compiler.CompileOptions{FS: os.DirFS(pwd)})
	if err != nil {
		out["compileErr"] = err.Error()
		res["triv"] = true
		os.RemoveAll(root)
		return res
	}
	out["tree"] = graphTree(g, []string{"root"})
	out["cliErr"] = runCLI(pwd, "in.d2", "out/o.svg")
	outFiles := []any{}
	filepath.WalkDir(pwd+"/out", func(p string, d fs.DirEntry, err error) error {
		if err != nil || d.IsDir() {
			return nil
		}
		b, _ := os.ReadFile(p)
		txt := string(b)
		markers := map[string]bool{}
		for _, m := range classRE.FindAllStringSubmatch(txt, -1) {
			if id, err := base64.StdEncoding.DecodeString(m[1]); err == nil && strings.HasPrefix(string(id), "mk") {
				markers[string(id)] = true
			}
		}
		var ms []string
		for m := range markers {
			ms = append(ms, m)
		}
		sort.Strings(ms)
		hrefs := []any{}
		for _, m := range hrefRE.FindAllStringSubmatch(txt, -1) {
			id, _ := base64.StdEncoding.DecodeString(m[2])
			hrefs = append(hrefs, map[string]any{"id": normID(string(id)), "href": html.UnescapeString(m[1])})
		}
		if ms == nil {
			ms = []string{}
		}
		outFiles = append(outFiles, map[string]any{"path": "/w" + strings.TrimPrefix(p, pwd), "markers": ms, "hrefs": hrefs})
		return nil
	})
	out["files"] = outFiles
	os.RemoveAll(root)
	return res
}

// emitAll writes the correspondence line of a tree and one property line per linked object occurrence (so that one
// known finding in a tree does not hide the verdicts of the other links)
func emitAll(c *hl.Ctx, res map[string]any) {
	c.Emit(res)
	o := res["out"].(map[string]any)
	t, ok := o["tree"].(map[string]any)
	if !ok {
		return
	}
	seen := map[string]bool{}
	focus := func(board any, id any) {
		key := fmt.Sprint(board, "|", id)
		if seen[key] {
			return
		}
		seen[key] = true
		in := map[string]any{}
		for k, v := range res["in"].(map[string]any) {
			in[k] = v
		}
		in["focus"] = map[string]any{"board": board, "id": id}
		c.Emit(map[string]any{"k": "links", "in": in, "out": o})
		c.Count("property-lines")
	}
	// every object the generator gave a link (also those whose link did not survive) …
	if gbs, ok := res["in"].(map[string]any)["boards"].([]map[string]any); ok {
		for _, gb := range gbs {
			ida := []string{}
			switch v := gb["ida"].(type) {
			case []seg:
				for _, sg := range v {
					ida = append(ida, sg.S)
				}
			case []any: // replayed from JSON
				for _, e := range v {
					ida = append(ida, fmt.Sprint(e.(map[string]any)["s"]))
				}
			}
			for _, x := range gb["objs"].([]any) {
				focus(ida, x.(map[string]any)["path"])
			}
		}
	}
	// … and every object observed with a link (inherited ones included)
	var walk func(b map[string]any)
	walk = func(b map[string]any) {
		for _, x := range b["objs"].([]any) {
			focus(b["ida"], x.(map[string]any)["id"])
		}
		for _, k := range kinds {
			for _, s := range b[k].([]any) {
				walk(s.(map[string]any))
			}
		}
	}
	walk(t)
}

func run(c *hl.Ctx) error {
	if cs := c.ReplayCase(); cs != nil {
		in := cs["in"].(map[string]any)
		var boards []map[string]any
		for _, b := range in["boards"].([]any) {
			boards = append(boards, b.(map[string]any))
		}
		files := map[string]string{}
		if fm, ok := in["files"].(map[string]any); ok {
			for k, v := range fm {
				files[k] = v.(string)
			}
		}
		res := observe(c, 0, in["src"].(string), files, boards)
		if f, ok := in["focus"]; ok {
			res["in"].(map[string]any)["focus"] = f
			c.Emit(res)
		} else {
			emitAll(c, res)
		}
		return nil
	}
	r := c.Rand()
	n := c.Pick(40, 600)
	type job struct {
		src    string
		files  map[string]string
		boards []map[string]any
	}
	var jobs []job
	for i := 0; i < n; i++ {
		t := genTree(r, c)
		var sb strings.Builder
		files := map[string]string{}
		t.d2("", &sb, files)
		jobs = append(jobs, job{sb.String(), files, boardsInfo(t)})
		var all []*gboard
		t.all(&all)
		c.Count(fmt.Sprintf("boards=%d", len(all)))
	}
	results := make([]map[string]any, len(jobs))
	var wg sync.WaitGroup
	sem := make(chan struct{}, 6)
	for i, j := range jobs {
		wg.Add(1)
		sem <- struct{}{}
		go func(i int, j job) {
			defer wg.Done()
			defer func() { <-sem }()
			results[i] = observe(c, i, j.src, j.files, j.boards)
		}(i, j)
	}
	wg.Wait()
	for _, res := range results {
		emitAll(c, res)
		o := res["out"].(map[string]any)
		if _, bad := o["compileErr"]; bad {
			c.Count("compile-error")
		} else if o["cliErr"] != "" {
			c.Count("cli-error")
		} else {
			c.Count("cli-ok")
		}
	}
	_ = d2ast.String(nil)
	return nil
}
