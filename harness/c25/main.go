package main

import (
	"context"
	"crypto/sha1"
	"encoding/hex"
	"encoding/json"
	"fmt"
	"math/rand"
	"os"
	"os/exec"
	"path/filepath"
	"runtime"
	"sort"
	"strings"
	"sync"
	"time"

	"d2v/harness/hl"
	"d2v/harness/totalgen"

	"oss.terrastruct.com/d2/d2graph"
	"oss.terrastruct.com/d2/d2layouts/d2dagrelayout"
	"oss.terrastruct.com/d2/d2layouts/d2elklayout"
	"oss.terrastruct.com/d2/d2lib"
	"oss.terrastruct.com/d2/d2renderers/d2svg"
	"oss.terrastruct.com/d2/lib/textmeasure"
)

// C25: compile + layout + render of the same input with the same options gives byte-identical SVG — repeatedly in
// one process, concurrently with other diagrams, under GOMAXPROCS 1/2/16, sketch on/off, dagre and ELK, and in
// separate processes (the d2 CLI built from the tree under test, path in C25_D2BIN).
//
// One case = (program, engine, sketch); observation = SHA-1 of the SVG bytes of every render in the run.
func main() {
	totalgen.MaybeWorker()
	if os.Getenv("C25_SEQ_WORKER") != "" {
		seqWorker()
		return
	}
	hl.Main("C25", run)
}

// seqWorker: a fresh process that renders the diagrams given on stdin (one JSON list) one after another and prints
// the results (hash + text of the last one).  Used by the history stream: B after A in one process vs B alone.
func seqWorker() {
	var in []struct {
		Src    string `json:"src"`
		Engine string `json:"engine"`
		Sketch bool   `json:"sketch"`
	}
	if err := json.NewDecoder(os.Stdin).Decode(&in); err != nil {
		fmt.Fprintln(os.Stderr, err)
		os.Exit(2)
	}
	var last string
	for _, c := range in {
		last = render(cfg{src: c.Src, engine: c.Engine, sketch: c.Sketch})
	}
	os.Stdout.WriteString(last)
}

func renderSeqFresh(cs []cfg) (string, error) {
	type jc struct {
		Src    string `json:"src"`
		Engine string `json:"engine"`
		Sketch bool   `json:"sketch"`
	}
	var in []jc
	for _, c := range cs {
		in = append(in, jc{c.src, c.engine, c.sketch})
	}
	b, _ := json.Marshal(in)
	ctx, cancel := context.WithTimeout(context.Background(), 10*time.Minute)
	defer cancel()
	cmd := exec.CommandContext(ctx, os.Args[0])
	cmd.Env = append(os.Environ(), "C25_SEQ_WORKER=1")
	cmd.Stdin = strings.NewReader(string(b))
	out, err := cmd.Output()
	if err != nil {
		return "", fmt.Errorf("render worker: %v", err)
	}
	return string(out), nil
}

// diagrams that touch process-wide render state …
var historyA = []string{
	"p: {shape: rectangle; style.3d: true; style.multiple: true}\nq: {shape: hexagon; style.3d: true; style.multiple: true}\np -> q\n",
	"l1: |latex \\definecolor{accent}{rgb}{1,0,0} \\color{accent} x^2 |\nl2: |latex \\definecolor{red}{rgb}{0,0,1} \\color{red} y |\n",
	"l3: |latex \\newcommand{\\foo}{\\alpha+\\beta} \\foo |\nl4: |latex \\DeclareMathOperator{\\op}{op} \\op(x) |\n",
	"m: |md # Title\n- a\n- b\n|\nc: |go\nfunc f() {}\n|\ng: {style.fill: \"linear-gradient(#f00, #00f)\"}\nm -> c -> g: {style.animated: true}\nx: {shape: cylinder; style.multiple: true; style.shadow: true}\n",
	"vars: {d2-config: {theme-id: 3; sketch: true}}\na: {shape: person}\nb: {shape: cloud; style.multiple: true}\na -> b\nt: {shape: sql_table; id: int}\n",
}

// … and diagrams whose bytes would show it
var historyB = []string{
	"o: {shape: oval; style.multiple: true}\nh: {shape: hexagon; style.multiple: true}\nq: {shape: queue; style.multiple: true}\ncy: {shape: cylinder; style.multiple: true}\n",
	"u1: |latex \\color{red} y |\nu2: |latex \\frac{a}{b} |\n",
	"u3: |latex \\color{accent} x^2 |\n",
	"u4: |latex \\op(x) + \\foo |\n",
	"a -> b: hello\nc: {shape: diamond; style.multiple: true}\nd: |md **bold** |\n",
}

func kindOf(t string) string {
	if strings.HasPrefix(t, "<?xml") || strings.HasPrefix(t, "<svg") {
		return "svg"
	}
	return strings.SplitN(t, ":", 2)[0]
}

// history stream: B rendered after A in one fresh process vs B rendered alone in a fresh process
func runHistory(c *hl.Ctx, pairs [][2]cfg) {
	type res struct{ after, fresh string }
	out := make([]res, len(pairs))
	var mu sync.Mutex
	freshCache := map[string]string{}
	parallel(len(pairs), 4, func(i int) {
		a, b := pairs[i][0], pairs[i][1]
		after, err := renderSeqFresh([]cfg{a, b})
		if err != nil {
			after = "worker-error: " + err.Error()
		}
		key := fmt.Sprint(b.src, b.engine, b.sketch)
		mu.Lock()
		fresh, ok := freshCache[key]
		mu.Unlock()
		if !ok {
			fresh, err = renderSeqFresh([]cfg{b})
			if err != nil {
				fresh = "worker-error: " + err.Error()
			}
			mu.Lock()
			freshCache[key] = fresh
			mu.Unlock()
		}
		out[i] = res{after, fresh}
	})
	for i, p := range pairs {
		o := map[string]any{"after": sha(out[i].after), "fresh": sha(out[i].fresh), "kind": kindOf(out[i].fresh)}
		if out[i].after != out[i].fresh {
			foundDiff = true
			o["diff"] = firstDiff(out[i].fresh, out[i].after)
		}
		c.Count("history")
		c.Emit(map[string]any{"k": "history", "in": map[string]any{
			"a": map[string]any{"src": p[0].src, "engine": p[0].engine, "sketch": p[0].sketch},
			"b": map[string]any{"src": p[1].src, "engine": p[1].engine, "sketch": p[1].sketch}}, "out": o})
	}
}

type cfg struct {
	src    string
	engine string
	sketch bool
	feat   []string
}

func render(c cfg) (out string) {
	defer func() {
		if r := recover(); r != nil {
			out = fmt.Sprintf("panic: %v", r)
		}
	}()
	ruler, err := textmeasure.NewRuler()
	if err != nil {
		return "ruler-error: " + err.Error()
	}
	eng := c.engine
	sketch := c.sketch
	pad := int64(20)
	ctx := hl.QuietCtx()
	ctx, cancel := context.WithTimeout(ctx, 2*time.Minute)
	defer cancel()
	ro := &d2svg.RenderOpts{Sketch: &sketch, Pad: &pad}
	diagram, _, err := d2lib.Compile(ctx, c.src, &d2lib.CompileOptions{
		Ruler:  ruler,
		Layout: &eng,
		LayoutResolver: func(engine string) (d2graph.LayoutGraph, error) {
			if engine == "elk" {
				return d2elklayout.DefaultLayout, nil
			}
			return d2dagrelayout.DefaultLayout, nil
		},
	}, ro)
	if err != nil {
		return "error: " + err.Error()
	}
	svg, err := d2svg.Render(diagram, ro)
	if err != nil {
		return "render-error: " + err.Error()
	}
	return string(svg)
}

func sha(s string) string {
	h := sha1.Sum([]byte(s))
	return hex.EncodeToString(h[:8])
}

// set once a case with differing results has been emitted: a search (obligation broken) stops at the first
// concrete failing input
var foundDiff bool

type obs struct {
	mu     sync.Mutex
	hashes []string
	labels []string
	texts  map[string]string
	cli    []string
}

func (o *obs) add(label, out string) {
	h := sha(out)
	o.mu.Lock()
	o.hashes = append(o.hashes, h)
	o.labels = append(o.labels, label)
	if _, ok := o.texts[h]; !ok && len(o.texts) < 2 {
		o.texts[h] = out
	}
	o.mu.Unlock()
}

func firstDiff(a, b string) string {
	j := 0
	for j < len(a) && j < len(b) && a[j] == b[j] {
		j++
	}
	s := j - 80
	if s < 0 {
		s = 0
	}
	cut := func(z string) string {
		e := j + 120
		if e > len(z) {
			e = len(z)
		}
		if s > len(z) {
			return ""
		}
		return z[s:e]
	}
	return fmt.Sprintf("at byte %d (lengths %d / %d): …%s… vs …%s…", j, len(a), len(b), cut(a), cut(b))
}

// bounded parallel map
func parallel(n, workers int, f func(i int)) {
	var wg sync.WaitGroup
	ch := make(chan int)
	for w := 0; w < workers; w++ {
		wg.Add(1)
		go func() {
			defer wg.Done()
			for i := range ch {
				f(i)
			}
		}()
	}
	for i := 0; i < n; i++ {
		ch <- i
	}
	close(ch)
	wg.Wait()
}

func runBatch(c *hl.Ctx, batch []cfg, seqRepeats, concRepeats int) {
	os_ := make([]*obs, len(batch))
	for i := range os_ {
		os_[i] = &obs{texts: map[string]string{}}
	}
	for _, procs := range []int{1, 2, 16} {
		old := runtime.GOMAXPROCS(procs)
		if procs == 1 {
			// strictly sequential renders
			for r := 0; r < seqRepeats; r++ {
				for i, p := range batch {
					os_[i].add("seq/p1", render(p))
				}
			}
		}
		// concurrent: all (program × repeat) renders in flight, 16 goroutines
		reps := concRepeats
		if procs != 16 {
			reps = (concRepeats + 1) / 2
		}
		n := len(batch) * reps
		parallel(n, 16, func(k int) {
			i := k % len(batch)
			os_[i].add(fmt.Sprintf("conc/p%d", procs), render(batch[i]))
		})
		runtime.GOMAXPROCS(old)
	}
	// separate processes: the CLI built from the tree under test
	if bin := os.Getenv("C25_D2BIN"); bin != "" {
		ncli := len(batch)
		if c.Quick() && ncli > 6 {
			ncli = 6
		}
		parallel(ncli, 8, func(i int) {
			p := batch[i]
			var hs []string
			for r := 0; r < 2; r++ {
				out, err := cli(bin, c.Work, p, fmt.Sprintf("%d-%d", i, r))
				if err != nil {
					hs = append(hs, "cli-error: "+err.Error())
				} else {
					hs = append(hs, out)
				}
			}
			o := os_[i]
			o.mu.Lock()
			if o.cli == nil {
				o.cli = hs
			}
			o.mu.Unlock()
		})
	}
	for i, p := range batch {
		o := os_[i]
		out := map[string]any{"runs": o.hashes}
		for _, t := range o.texts {
			k := "svg"
			if !strings.HasPrefix(t, "<?xml") && !strings.HasPrefix(t, "<svg") {
				k = strings.SplitN(t, ":", 2)[0]
			}
			out["kind"] = k
			break
		}
		if len(o.texts) > 1 {
			foundDiff = true
			var ts []string
			for _, t := range o.texts {
				ts = append(ts, t)
			}
			sort.Strings(ts)
			out["diff"] = firstDiff(ts[0], ts[1])
			var bad []string
			for k, h := range o.hashes {
				if h != o.hashes[0] {
					bad = append(bad, o.labels[k])
				}
			}
			if len(bad) > 6 {
				bad = bad[:6]
			}
			out["differing"] = bad
		}
		if o.cli != nil {
			var ch []string
			for _, t := range o.cli {
				ch = append(ch, sha(t))
			}
			out["cli"] = ch
			if len(o.cli) == 2 && o.cli[0] != o.cli[1] {
				out["clidiff"] = firstDiff(o.cli[0], o.cli[1])
			}
		}
		c.Count("result:" + fmt.Sprint(out["kind"]))
		c.Count("engine:" + p.engine)
		c.Count(fmt.Sprintf("sketch:%v", p.sketch))
		m := map[string]any{"k": "render", "in": map[string]any{"src": p.src, "engine": p.engine, "sketch": p.sketch}, "out": out}
		if p.feat != nil {
			m["feat"] = p.feat
		}
		c.Emit(m)
	}
}

func cli(bin, work string, p cfg, tag string) (string, error) {
	dir := filepath.Join(work, "cli")
	os.MkdirAll(dir, 0o755)
	in := filepath.Join(dir, "in-"+tag+".d2")
	out := filepath.Join(dir, "out-"+tag+".svg")
	if err := os.WriteFile(in, []byte(p.src), 0o644); err != nil {
		return "", err
	}
	defer os.Remove(in)
	defer os.Remove(out)
	args := []string{"--layout", p.engine, "--pad", "20", "--bundle=false"}
	if p.sketch {
		args = append(args, "--sketch")
	}
	args = append(args, in, out)
	ctx, cancel := context.WithTimeout(context.Background(), 3*time.Minute)
	defer cancel()
	cmd := exec.CommandContext(ctx, bin, args...)
	cmd.Env = append(os.Environ(), "D2_LAYOUT=", "NO_COLOR=1")
	b, err := cmd.CombinedOutput()
	if err != nil {
		// a compile error is a legitimate (deterministic) outcome; strip the temp file name and timings
		msg := strings.ReplaceAll(string(b), "in-"+tag+".d2", "IN")
		return "cli-fail: " + stripTimes(msg), nil
	}
	svg, err := os.ReadFile(out)
	if err != nil {
		// e.g. a board without objects: the CLI exits 0 without writing the file
		return "cli-no-output: " + stripTimes(strings.ReplaceAll(string(b), "in-"+tag+".d2", "IN")), nil
	}
	return string(svg), nil
}

func stripTimes(s string) string {
	var keep []string
	for _, l := range strings.Split(s, "\n") {
		if strings.Contains(l, "err:") {
			if i := strings.Index(l, "err:"); i >= 0 {
				keep = append(keep, l[i:])
			}
		}
	}
	return strings.Join(keep, "\n")
}

var corpus = []string{
	"p: {shape: rectangle; style.3d: true; style.multiple: true}\no: {shape: oval; style.multiple: true}\nh: {shape: hexagon; style.multiple: true; style.3d: true}\np -> o -> h\n",
	"o: {shape: oval; style.multiple: true}\nq: {shape: queue; style.multiple: true}\ncy: {shape: cylinder; style.multiple: true}\n",
	"l1: |latex \\definecolor{red}{rgb}{0,0,1} \\color{red} y |\n",
	"u1: |latex \\color{red} y |\nu2: |latex \\frac{a}{b} |\n",
	"a -> b -> c\nb -> d\n",
	"x: {shape: sql_table; id: int {constraint: primary_key}; n: text}\ny: {shape: class; +f: int; -g(): void}\nx.id -> y\n",
	"a: {b: {c; d}; e}\na.b.c -> a.e: lbl\nf: |md # Title\n- item ${q}\n|\n",
	"vars: {\n  a: '${b}'\n  b: X\n  c: '${a}'\n}\nt: |md text ${a} and ${c} and ${b} |\n",
	"c: |go\nfunc main() { fmt.Println(\"x\") }\n|\nd: {shape: code}\n",
	"a.style.multiple: true\nb.style.3d: true\nc: {shape: cloud; style.fill: red}\na -> b -> c -> a\nd: {shape: person}\ne: {shape: cylinder; style.shadow: true}\n",
	"classes: {k: {style: {fill: blue; stroke-dash: 3}}}\na.class: k\nb.class: k\na -> b: {style.animated: true}\n",
	"grid: {grid-rows: 2; a; b; c; d}\nn: {near: top-center}\n",
	"s: {shape: sequence_diagram; a -> b: hi; b -> a: yo; a.t: {shape: rectangle}}\n",
	"b.tooltip: tip\nc.link: https://d2lang.com\nd: {style.fill-pattern: dots}\ne: {style.double-border: true; shape: circle}\nb -> c -> d -> e\n",
}

func run(c *hl.Ctx) error {
	if cs := c.ReplayCase(); cs != nil {
		if cs["k"] == "history" {
			in := cs["in"].(map[string]any)
			mk := func(m map[string]any) cfg {
				sk, _ := m["sketch"].(bool)
				return cfg{src: m["src"].(string), engine: m["engine"].(string), sketch: sk}
			}
			runHistory(c, [][2]cfg{{mk(in["a"].(map[string]any)), mk(in["b"].(map[string]any))}})
			return nil
		}
		if cs["k"] == "race" {
			var batch []cfg
			for i, s := range corpus {
				batch = append(batch, cfg{src: s, engine: []string{"dagre", "elk"}[i%2], sketch: i%3 == 0})
			}
			runBatch(c, batch, 2, 6)
			return nil
		}
		in := cs["in"].(map[string]any)
		sk, _ := in["sketch"].(bool)
		runBatch(c, []cfg{{src: in["src"].(string), engine: in["engine"].(string), sketch: sk}}, 3, 6)
		return nil
	}
	r := c.Rand()
	seqR, concR := c.Pick(2, 3), c.Pick(2, 4)
	race := os.Getenv("D2V_RACE") != ""
	if race {
		// goja under the race detector is 10–20x slower: few cases, every one still rendered concurrently
		seqR, concR = 1, 2
	}
	var batch []cfg
	for i, s := range corpus {
		if race && i >= 6 {
			break
		}
		batch = append(batch, cfg{src: s, engine: []string{"dagre", "elk"}[i%2], sketch: i%3 == 0})
		if c.Pick(0, 1) == 1 && !race {
			batch = append(batch, cfg{src: s, engine: []string{"elk", "dagre"}[i%2], sketch: i%3 != 0})
		}
	}
	runBatch(c, batch, seqR, concR)
	c.Count("corpus")
	if !race {
		// history: every A × B in the thorough tier, a rotating diagonal in the quick tier
		var pairs [][2]cfg
		for i, a := range historyA {
			for j, b := range historyB {
				if c.Quick() && (i+int(c.Seed))%len(historyB) != j && !(i == 0 && j == 0) && !(i == 1 && j == 1) {
					continue
				}
				eng := []string{"dagre", "elk"}[(i+j)%2]
				pairs = append(pairs, [2]cfg{{src: a, engine: eng, sketch: i == 4}, {src: b, engine: eng, sketch: false}})
			}
		}
		runHistory(c, pairs)
	}
	if c.Search && foundDiff {
		return nil
	}
	n := c.Pick(4, 150)
	if os.Getenv("D2V_RACE") != "" {
		n = c.Pick(2, 10)
	}
	if c.Search && c.Tier != "thorough" {
		n = 64
	}
	sc := &totalgen.Screener{}
	defer sc.Close()
	batch = nil
	for n > 0 {
		p := genProg(r)
		if oc := sc.Outcome(p.src, nil); oc != "graph" {
			c.Count("screened-out:" + oc)
			continue
		}
		n--
		batch = append(batch, p)
		if len(batch) == 16 || n == 0 {
			runBatch(c, batch, seqR, concR)
			batch = nil
			if c.Search && foundDiff {
				break
			}
		}
	}
	return nil
}

func genProg(r *rand.Rand) cfg {
	o := totalgen.Opts{Size: 2 + r.Intn(7), Depth: 1 + r.Intn(2), Valid: true, Render: true}
	p := totalgen.Gen(r, o)
	return cfg{src: p.Src, engine: []string{"dagre", "elk"}[r.Intn(2)], sketch: r.Intn(2) == 0, feat: p.Feat}
}
