package main

import (
	"fmt"
	"math/rand"
	"runtime"
	"sort"
	"strings"
	"sync"

	"d2v/harness/edit"
	"d2v/harness/hl"

	"oss.terrastruct.com/d2/d2ast"
	"oss.terrastruct.com/d2/d2compiler"
	"oss.terrastruct.com/d2/d2graph"
	"oss.terrastruct.com/d2/d2lsp"
	"oss.terrastruct.com/d2/d2parser"
)

// C42: d2lsp editor support on generated texts (valid and broken), EVERY position.
//
//	kind "boardpos":  the range tree of map-valued keys read off the real parser's AST + GetBoardAtPosition at every
//	                  (line, column); for texts that compile also the real compiler's boards with their block ranges
//	                  (ground truth for "innermost board whose block contains the position")
//	kind "refs":      for every object / connection of every board: GetRefRanges, each returned range sliced out of
//	                  the source and re-parsed with the real ParseKey / ParseMapKey, plus the declarations found by an
//	                  independent walk over the AST
//	kind "completion": GetCompletionItems at every position under recover
func main() { hl.Main("C42", run) }

type rng = [4]int // start line, start column, end line, end column

func mkRng(r d2ast.Range) rng { return rng{r.Start.Line, r.Start.Column, r.End.Line, r.End.Column} }

type node struct {
	Name string `json:"name"`
	R    rng    `json:"r"`
	Kids []node `json:"kids"`
}

// tree lists, in source order, every key whose value is a map (name = first key segment), recursively.
func tree(m *d2ast.Map) []node {
	out := []node{}
	if m == nil {
		return out
	}
	for _, n := range m.Nodes {
		mk := n.MapKey
		if mk == nil || mk.Key == nil || len(mk.Key.Path) == 0 || mk.Value.Map == nil {
			continue
		}
		out = append(out, node{Name: mk.Key.Path[0].Unbox().ScalarString(), R: mkRng(mk.Value.Map.Range), Kids: tree(mk.Value.Map)})
	}
	return out
}

type board struct {
	Path []string `json:"path"` // kind, name, kind, name, …
	R    rng      `json:"r"`
}

// astBoards: every board block of the file, read off the real parser's AST by following key paths
// (`layers: {x: {…}}`, `layers.x: {…}`, `layers.x.steps: {s: {…}}` …): path = kind, name, kind, name, …
func astBoards(m *d2ast.Map, path []string, out *[]board) {
	if m == nil {
		return
	}
	for _, n := range m.Nodes {
		mk := n.MapKey
		if mk == nil || mk.Key == nil || len(mk.Edges) > 0 || mk.Value.Map == nil {
			continue
		}
		cur := append([]string{}, path...)
		ok := true
		for _, sb := range mk.Key.Path {
			v := sb.Unbox().ScalarString()
			if len(cur)%2 == 0 {
				if (v != "layers" && v != "scenarios" && v != "steps") || !sb.Unbox().IsUnquoted() {
					ok = false
					break
				}
			}
			cur = append(cur, v)
		}
		if !ok {
			continue
		}
		if len(cur)%2 == 0 {
			*out = append(*out, board{Path: cur, R: mkRng(mk.Value.Map.Range)})
		}
		astBoards(mk.Value.Map, cur, out)
	}
}

func compilerBoards(g *d2graph.Graph, path []string, out *[][]string) {
	rec := func(kind string, bs []*d2graph.Graph) {
		for _, b := range bs {
			p := append(append([]string{}, path...), kind, b.Name)
			*out = append(*out, p)
			compilerBoards(b, p, out)
		}
	}
	rec("layers", g.Layers)
	rec("scenarios", g.Scenarios)
	rec("steps", g.Steps)
}

func lines(text string) []string { return strings.Split(text, "\n") }

func boardPosCase(text string, valid bool) map[string]any {
	in := map[string]any{"text": text}
	out := map[string]any{}
	ast, _ := d2parser.Parse("", strings.NewReader(text), nil)
	if ast == nil {
		out["noast"] = true
		return map[string]any{"k": "boardpos", "in": in, "out": out, "triv": true}
	}
	out["root"] = mkRng(ast.Range)
	out["tree"] = tree(ast)
	// distinct results + grid
	paths := [][]string{nil}
	idx := map[string]int{"\x00": 0}
	var grid [][]int
	panics := []string{}
	for li, l := range lines(text) {
		row := make([]int, 0, len(l)+2)
		for col := 0; col <= len(l)+1; col++ {
			var p []string
			oc := hl.Guard(func() {
				p, _ = d2lsp.GetBoardAtPosition(text, d2ast.Position{Line: li, Column: col})
			})
			if oc != "ok" {
				panics = append(panics, fmt.Sprintf("%d:%d %s", li, col, oc))
				row = append(row, 0)
				continue
			}
			key := "\x00"
			if p != nil {
				key = strings.Join(p, "\x01") + "\x02"
			}
			i, ok := idx[key]
			if !ok {
				i = len(paths)
				idx[key] = i
				paths = append(paths, p)
			}
			row = append(row, i)
		}
		grid = append(grid, row)
	}
	out["paths"] = paths
	out["grid"] = grid
	out["panics"] = panics
	if valid {
		g, _, err := d2compiler.Compile("", strings.NewReader(text), nil)
		if err == nil {
			bs := []board{}
			astBoards(ast, nil, &bs)
			out["boards"] = bs
			cb := [][]string{}
			compilerBoards(g, nil, &cb)
			out["compilerBoards"] = cb
		}
	}
	return map[string]any{"k": "boardpos", "in": in, "out": out}
}

// ---- references ------------------------------------------------------------------------------------------------

type slice struct {
	R     [2]int `json:"r"` // byte offsets
	Text  string `json:"text"`
	Valid bool   `json:"valid"` // offsets lie inside the source
	// what the slice parses to with the real key parser
	Parses bool     `json:"parses"`
	Path   []string `json:"path,omitempty"` // a plain key: its segments
	Edge   []string `json:"edge,omitempty"` // a connection: [src, arrow, dst]
}

func arrowOf(e *d2ast.Edge) string {
	switch {
	case e.SrcArrow == "<" && e.DstArrow == ">":
		return "<->"
	case e.SrcArrow == "<":
		return "<-"
	case e.DstArrow == ">":
		return "->"
	}
	return "--"
}

func reparse(text string, r d2ast.Range) slice {
	s := slice{R: [2]int{r.Start.Byte, r.End.Byte}}
	if r.Start.Byte < 0 || r.End.Byte > len(text) || r.Start.Byte > r.End.Byte {
		return s
	}
	s.Valid = true
	s.Text = text[r.Start.Byte:r.End.Byte]
	hl.Guard(func() {
		mk, err := d2parser.ParseMapKey(s.Text)
		if err != nil || mk == nil {
			return
		}
		s.Parses = true
		if len(mk.Edges) == 1 && mk.Key == nil {
			e := mk.Edges[0]
			s.Edge = []string{strings.Join(d2graph.Key(e.Src), "."), arrowOf(e), strings.Join(d2graph.Key(e.Dst), ".")}
		} else if len(mk.Edges) == 0 && mk.Key != nil {
			s.Path = d2graph.Key(mk.Key)
		}
	})
	return s
}

// decls: independent walk over one board's own block: absolute (lower-cased) object path → byte ranges of the key
// segments that name it; connection "src|arrow|dst" (absolute, lower-cased) → byte ranges of the connection text.
// Only the plain fragment is walked (no `_`, globs, imports, substitutions); returns ok=false when something else occurs.
func decls(m *d2ast.Map, scope []string, objs map[string][][2]int, edges map[string][][2]int) bool {
	ok := true
	seg := func(sb *d2ast.StringBox) (string, bool) {
		s := sb.Unbox()
		if s == nil {
			return "", false
		}
		v := s.ScalarString()
		if v == "_" || strings.ContainsAny(v, "*") {
			return "", false
		}
		return strings.ToLower(v), true
	}
	walkPath := func(kp *d2ast.KeyPath, pre []string) ([]string, bool) {
		cur := append([]string{}, pre...)
		for _, sb := range kp.Path {
			v, good := seg(sb)
			if !good {
				return nil, false
			}
			if _, res := d2ast.ReservedKeywords[v]; res {
				return cur, true // attributes are not objects
			}
			cur = append(cur, v)
			r := sb.Unbox().GetRange()
			k := strings.Join(cur, "\x00")
			objs[k] = append(objs[k], [2]int{r.Start.Byte, r.End.Byte})
		}
		return cur, true
	}
	for _, n := range m.Nodes {
		if n.Import != nil || n.Substitution != nil {
			ok = false
			continue
		}
		mk := n.MapKey
		if mk == nil {
			continue
		}
		if mk.Ampersand || mk.NotAmpersand {
			ok = false
			continue
		}
		pre := scope
		if mk.Key != nil {
			first, _ := seg(mk.Key.Path[0])
			if len(scope) == 0 && (first == "layers" || first == "scenarios" || first == "steps" || first == "vars" || first == "classes") {
				continue // other boards / non-object sections
			}
			if first == "layers" || first == "scenarios" || first == "steps" {
				continue
			}
			p, good := walkPath(mk.Key, scope)
			if !good {
				ok = false
				continue
			}
			pre = p
		}
		for _, e := range mk.Edges {
			if e.Src == nil || e.Dst == nil {
				ok = false
				continue
			}
			s, g1 := walkPath(e.Src, pre)
			d, g2 := walkPath(e.Dst, pre)
			if !g1 || !g2 {
				ok = false
				continue
			}
			k := strings.Join(s, ".") + "|" + arrowOf(e) + "|" + strings.Join(d, ".")
			edges[k] = append(edges[k], [2]int{e.Range.Start.Byte, e.Range.End.Byte})
		}
		if mk.Value.Map != nil && len(mk.Edges) == 0 {
			// nested map of an object (not of a reserved holder like style)
			last := ""
			if mk.Key != nil {
				last, _ = seg(mk.Key.Path[len(mk.Key.Path)-1])
			}
			if _, res := d2ast.ReservedKeywords[last]; !res {
				if !decls(mk.Value.Map, pre, objs, edges) {
					ok = false
				}
			}
		}
	}
	return ok
}

func refsCases(text string, maxQ int, seed int64) (recs []map[string]any) {
	g, _, err := d2compiler.Compile("index.d2", strings.NewReader(text), nil)
	if err != nil {
		return nil
	}
	qr := rand.New(rand.NewSource(seed))
	fs := map[string]string{"index.d2": text}
	type bd struct {
		g    *d2graph.Graph
		path []string
	}
	var all []bd
	var rec func(g *d2graph.Graph, p []string)
	rec = func(g *d2graph.Graph, p []string) {
		all = append(all, bd{g, p})
		for _, l := range [][]*d2graph.Graph{g.Layers, g.Scenarios, g.Steps} {
			for _, b := range l {
				rec(b, append(append([]string{}, p...), b.Name))
			}
		}
	}
	rec(g, nil)
	for _, b := range all {
		own := b.g.BaseAST
		objs := map[string][][2]int{}
		edges := map[string][][2]int{}
		walked := own != nil && decls(own, nil, objs, edges)
		type q struct {
			key  string
			want []string // object: lower-cased absolute path (raw names); connection: [src, arrow, dst] lower-cased absolute
			fmtd []string // the same in d2 syntax (quoted segments), what the re-parsed slices are compared with
			edge bool
		}
		var qs []q
		for _, o := range b.g.Objects {
			p, pf := []string{}, []string{}
			for x := o; x != nil && x.Parent != nil; x = x.Parent {
				p = append([]string{strings.ToLower(x.IDVal)}, p...)
				pf = append([]string{strings.ToLower(x.ID)}, pf...)
			}
			qs = append(qs, q{key: o.AbsID(), want: p, fmtd: pf})
		}
		seen := map[string]bool{}
		for _, e := range b.g.Edges {
			sp, dp := []string{}, []string{}
			for x := e.Src; x != nil && x.Parent != nil; x = x.Parent {
				sp = append([]string{strings.ToLower(x.IDVal)}, sp...)
			}
			for x := e.Dst; x != nil && x.Parent != nil; x = x.Parent {
				dp = append([]string{strings.ToLower(x.IDVal)}, dp...)
			}
			k := e.Src.AbsID() + " " + e.ArrowString() + " " + e.Dst.AbsID()
			if seen[k] {
				continue
			}
			seen[k] = true
			qs = append(qs, q{key: k, want: []string{strings.Join(sp, "."), e.ArrowString(), strings.Join(dp, ".")},
				fmtd: []string{strings.ToLower(e.Src.AbsID()), e.ArrowString(), strings.ToLower(e.Dst.AbsID())}, edge: true})
		}
		if maxQ > 0 && len(qs) > maxQ {
			qr.Shuffle(len(qs), func(i, j int) { qs[i], qs[j] = qs[j], qs[i] })
			qs = qs[:maxQ]
		}
		for _, qq := range qs {
			in := map[string]any{"text": text, "board": b.path, "key": qq.key}
			if b.path == nil {
				in["board"] = []string{}
			}
			out := map[string]any{"edge": qq.edge, "want": qq.fmtd}
			var ranges, imports []d2ast.Range
			var rerr error
			oc := hl.Guard(func() { ranges, imports, rerr = d2lsp.GetRefRanges("index.d2", fs, b.path, qq.key) })
			out["outcome"] = oc
			if oc == "ok" && rerr != nil {
				out["outcome"] = "err"
				out["err"] = rerr.Error()
			}
			sl := []slice{}
			for _, r := range ranges {
				sl = append(sl, reparse(text, r))
			}
			out["slices"] = sl
			out["imports"] = len(imports)
			if walked {
				var d [][2]int
				if qq.edge {
					d = edges[qq.want[0]+"|"+arrowNorm(qq.want[1])+"|"+qq.want[2]]
				} else {
					d = objs[strings.Join(qq.want, "\x00")]
				}
				if d == nil {
					d = [][2]int{}
				}
				sort.Slice(d, func(i, j int) bool { return d[i][0] < d[j][0] })
				out["decls"] = d
			}
			recs = append(recs, map[string]any{"k": "refs", "in": in, "out": out})
		}
	}
	return recs
}

// ArrowString prints "->", "<-", "<->", "--"; arrowOf prints the same shapes
func arrowNorm(a string) string { return a }

func completionCase(text string) map[string]any {
	panics := []string{}
	n := 0
	nonEmpty := 0
	for li, l := range lines(text) {
		for col := 0; col <= len(l)+1; col++ {
			n++
			oc := hl.Guard(func() {
				items, _ := d2lsp.GetCompletionItems(text, li, col)
				if len(items) > 0 {
					nonEmpty++
				}
			})
			if oc != "ok" {
				panics = append(panics, fmt.Sprintf("%d:%d %s", li, col, oc))
			}
		}
	}
	if len(panics) > 5 {
		panics = panics[:5]
	}
	return map[string]any{"k": "completion", "in": map[string]any{"text": text},
		"out": map[string]any{"positions": n, "nonEmpty": nonEmpty, "panics": panics}}
}

var completionSnippets = []string{"style.", "style: {\n  ", "shape: ", "x.style.opacity: ", "near: ", "label.", "icon.", "direction: ",
	"source-arrowhead.", "target-arrowhead.shape: ", "style.fill-pattern: ", "style.text-transform: ", "(a -> b)[0].style.", "tooltip: ", "width: ", "a -> b: {\n  "}

func breakText(r *rand.Rand, text string) string {
	if len(text) == 0 {
		return "{"
	}
	b := []byte(text)
	switch r.Intn(6) {
	case 0: // drop a byte
		i := r.Intn(len(b))
		return string(append(b[:i:i], b[i+1:]...))
	case 1: // truncate
		return string(b[:r.Intn(len(b))])
	case 2: // extra closing brace
		i := r.Intn(len(b))
		return string(b[:i]) + "}" + string(b[i:])
	case 3: // extra opening brace
		i := r.Intn(len(b))
		return string(b[:i]) + "{" + string(b[i:])
	case 4: // stray quote
		i := r.Intn(len(b))
		return string(b[:i]) + "\"" + string(b[i:])
	default: // swap two lines' worth of bytes
		i, j := r.Intn(len(b)), r.Intn(len(b))
		b[i], b[j] = b[j], b[i]
		return string(b)
	}
}

type job struct {
	f      func() []map[string]any
	bucket string
}

func run(c *hl.Ctx) error {
	if cs := c.ReplayCase(); cs != nil {
		in := cs["in"].(map[string]any)
		text := in["text"].(string)
		switch cs["k"] {
		case "completion":
			c.Emit(completionCase(text))
		case "refs":
			key, _ := in["key"].(string)
			for _, r := range refsCases(text, 0, 0) {
				if r["in"].(map[string]any)["key"] == key && fmt.Sprint(r["in"].(map[string]any)["board"]) == fmt.Sprint(in["board"]) {
					c.Emit(r)
				}
			}
		default:
			c.Emit(boardPosCase(text, true))
		}
		return nil
	}
	r := c.Rand()
	n := c.Pick(90, 700)
	var jobs []job
	add := func(bucket string, f func() []map[string]any) { jobs = append(jobs, job{f, bucket}) }
	one := func(f func() map[string]any) func() []map[string]any {
		return func() []map[string]any { return []map[string]any{f()} }
	}
	for i := 0; i < n; i++ {
		gen := &edit.Gen{R: r, MaxTop: 3, MaxDepth: 2, Boards: true, ForceBoard: i%4 != 0, Tricky: i%5 == 4, MultiRef: i%2 == 0, Count: c.Count}
		text := gen.Diagram()
		if i%7 == 3 {
			// dotted board declarations and board-like names used as plain containers
			text += fmt.Sprintf("layers.dl%d: {\n  p: P\n  q: {\n    r: R\n  }\n}\n", i%3)
			c.Count("text:dotted-board-decl")
		}
		if i%9 == 5 {
			text += "x: {\n  layers: {\n    notaboard: {\n      y\n    }\n  }\n}\n"
			c.Count("text:layers-inside-object")
		}
		text0 := text
		add("boardpos:valid", one(func() map[string]any { return boardPosCase(text0, true) }))
		seed := r.Int63()
		add("refs", func() []map[string]any { return refsCases(text0, 6, seed) })
		if i%3 == 0 {
			t2 := text
			if r.Intn(2) == 0 {
				ls := lines(text)
				at := r.Intn(len(ls))
				ind := ls[at][:len(ls[at])-len(strings.TrimLeft(ls[at], " "))]
				sn := completionSnippets[r.Intn(len(completionSnippets))]
				ls = append(ls[:at:at], append([]string{ind + sn}, ls[at:]...)...)
				t2 = strings.Join(ls, "\n")
				c.Count("completion:snippet")
			}
			add("completion:valid-or-snippet", one(func() map[string]any { return completionCase(t2) }))
		}
		// broken variants
		for k := 0; k < 2; k++ {
			bt := breakText(r, text)
			add("boardpos:broken", one(func() map[string]any { return boardPosCase(bt, false) }))
			if k == 0 && i%3 == 1 {
				add("completion:broken", one(func() map[string]any { return completionCase(bt) }))
			}
		}
	}
	// the lsp functions re-parse the text on every call: run the jobs on all cores, emit in generation order
	res := make([][]map[string]any, len(jobs))
	var wg sync.WaitGroup
	ch := make(chan int)
	for w := 0; w < runtime.NumCPU(); w++ {
		wg.Add(1)
		go func() {
			defer wg.Done()
			for i := range ch {
				res[i] = jobs[i].f()
			}
		}()
	}
	for i := range jobs {
		ch <- i
	}
	close(ch)
	wg.Wait()
	for i, rs := range res {
		for _, rec := range rs {
			c.Emit(rec)
			c.Count(jobs[i].bucket)
		}
	}
	return nil
}
