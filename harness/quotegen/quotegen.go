// Package quotegen — string generators of the quoting checks (C05, C06): strings biased towards every
// special character of d2's unquoted-string sets, keywords in random case (including the non-ASCII runes that
// fold or lower-case into ASCII), numerals, whitespace kinds, dashes and arrows, non-ASCII and astral text.
package quotegen

import (
	"math/rand"
	"strings"
)

// Alphabet of the exhaustive streams (40 symbols): every special of UnquotedKeySpecials and
// UnquotedValueSpecials, the other runes the scanners look at, whitespace kinds, and a few letters/digits that
// build keywords and numerals.
var Alphabet = []rune{
	'#', ';', '\n', '\\', '{', '}', '[', ']', '\'', '"', '|', ':', '.', '-', '<', '>', '*', '&', '(', ')', '@', '$',
	' ', '\t', '\u00a0', '_', '/', '+', '0', '1', 'e', 'x', 'n', 'u', 'l', 'N', 'a', 'é', '😀', ',',
}

// Corpus: witnesses of known defects and corner cases; run first on every seed.
var Corpus = []string{
	"NULL", "Null", "nulL", "null", "TRUE", "True", "true", "FALSE", "false", "Suspend", "SUSPEND", "suspend",
	"Unsuspend", "unsuspend", "Label", "label", "LABEL", "Steps", "Style", "sHape", "NEAR", "3D", "3d", "Grid-Rows",
	"falſe", "ſuspend", "unſuſpend", "linK", "lİnk", "LİNK", "K", "İ",
	"", " ", "a", "a b", " a", "a ", "\ta", "a\u00a0", "\u3000a", "a\n", "\na", "a\nb", "a\"b", "a'b", "a\"'b", "a\"\nb", "a\"$b", "$", "${x}", "a${b}c", "$x",
	"a\\b", "a\\", "\\", "\\n", "a\\\nb", "a\\'", "'", "''", "'a'", "\"", "\"a\"", "|", "|md x|", "a|b",
	"-", "--", "a-", "a--b", "a-b", "-a", "a->b", "a<-b", "a--", "->", "a-\nb", "a-.b", "a-:b", "a -", "- a", "a- b", "é-é", "-é", "é-",
	"a.b", ".a", "a.", "...", "...@x", "@x", "a@b", "x@", "*", "a*b", "**", "&a", "a&b", "(a)", "a(b", "a)b", "(a -> b)[0]",
	"a:b", "a: b", "a;b", "a#b", "#a", "a{b", "{", "}", "[", "]", "a[0]", "a,b",
	"1", "0", "-1", "+1", "1.5", ".5", "+.5", "1e3", "1E3", "1e+3", "1e", "0x10", "0x1p-2", "0b101", "0o17", "017", "08", "1_0", "1__0", "_1", "1_", "1/2", "1/0", "-1/2", "1/-2", "1e1000001", "1e1000000", "0e99999999999", "0x1p10000001", "0x.8", "0x", "1.5.5", "Inf", "NaN", "1e9223372036854775808",
	"é", "世界", "😀", "a😀b", "\ufeff", "\ufffd", "\u2028", "a\u2028b", "\u0085", "x\u0085",
	strings.Repeat("a", 518), strings.Repeat("a", 519), strings.Repeat("é", 259), strings.Repeat("é", 260), strings.Repeat("-a", 259), strings.Repeat("😀", 130),
}

var keywords = []string{
	"label", "shape", "icon", "constraint", "tooltip", "link", "near", "width", "height", "direction", "top", "left",
	"grid-rows", "grid-columns", "grid-gap", "vertical-gap", "horizontal-gap", "class", "vars", "style", "classes",
	"source-arrowhead", "target-arrowhead", "layers", "scenarios", "steps", "opacity", "stroke", "fill", "fill-pattern",
	"stroke-width", "stroke-dash", "border-radius", "font", "font-size", "font-color", "bold", "italic", "underline",
	"text-transform", "shadow", "multiple", "double-border", "3d", "animated", "filled",
	// not reserved, but folded by the parser or meaningful to the compiler
	"null", "true", "false", "suspend", "unsuspend", "_", "d2-config", "d2-legend",
}

var numerals = []string{
	"0", "1", "42", "-1", "+1", "1.5", ".5", "+.5", "-.5", "5.", "1e3", "1E3", "1e+3", "1e-3", "1e", "e3", "0x10", "0X1F", "0x1p-2", "0x1P2", "0x.8p1",
	"0b101", "0B1", "0b2", "0o17", "0O7", "017", "08", "09.5", "1_0", "1__0", "_1", "1_", "0x_1", "0_1", "1_000.5", "1e1_0", "1e_1", "1/2", "-1/2", "1/-2", "1/0", "1/2/3", "0x10/0b11", "1.5/2", "1/2e1",
	"1e1000000", "1e1000001", "1e-1000001", "0e99999999", "0x1p10000000", "0x1p10000001", "0.0e9999999", "1p3", "0b1p3", "0o7p1", "0x1e3", "1e99999999999999999999",
	"Inf", "inf", "NaN", "nan", "1a", "0xg", "١٢٣", "１２",
}

var specials = []rune{'#', ';', '\n', '\\', '{', '}', '[', ']', '\'', '"', '|', ':', '.', '-', '<', '>', '*', '&', '(', ')', '@', '$'}
var spaces = []rune{' ', ' ', ' ', '\t', '\r', '\n', '\v', '\f', '\u0085', '\u00a0', '\u1680', '\u2000', '\u200a', '\u2028', '\u2029', '\u202f', '\u205f', '\u3000'}
var nonASCII = []rune{'é', 'É', 'ß', 'ẞ', 'İ', 'ı', 'K', 'Å', 'ſ', 'Ⱥ', 'ⱥ', 'ǅ', '世', '界', 'Ω', '\u200b', '\ufeff', '\ufffd', '😀', '𝔘', '\U0010ffff', '́'}
var fragments = []string{"--", "->", "<-", "<->", "-*", "*-", "...", "...@", "${", "${x}", "\\n", "\\\"", "''", "\"\"", "|md", "|||", "[0]", "(a -> b)[0]", ": ", "; ", " #", "\\\n", "-\n", "- ", " -", "_", "__"}

type Gen struct {
	r     *rand.Rand
	count func(string)
}

func New(r *rand.Rand, count func(string)) *Gen { return &Gen{r: r, count: count} }

func (g *Gen) pick(rs []rune) rune { return rs[g.r.Intn(len(rs))] }

// caseMix returns w in a random case pattern, sometimes with the non-ASCII runes that fold/lower into ASCII.
func (g *Gen) caseMix(w string) string {
	var b strings.Builder
	mode := g.r.Intn(5)
	for i, c := range w {
		up := false
		switch mode {
		case 0: // all upper
			up = true
		case 1: // title
			up = i == 0
		case 2: // random
			up = g.r.Intn(2) == 0
		case 3: // exact
		case 4: // one position
			up = g.r.Intn(len(w)) == 0
		}
		if mode == 2 && g.r.Intn(6) == 0 {
			switch c {
			case 'k':
				b.WriteRune('K')
				continue
			case 's':
				b.WriteRune('ſ')
				continue
			case 'i':
				b.WriteRune('İ')
				continue
			}
		}
		if up && c >= 'a' && c <= 'z' {
			c -= 32
		}
		b.WriteRune(c)
	}
	return b.String()
}

func (g *Gen) word() string {
	n := 1 + g.r.Intn(6)
	var b strings.Builder
	for i := 0; i < n; i++ {
		b.WriteByte("abcdefghijklmnopqrstuvwxyzABCXYZ0123456789_"[g.r.Intn(43)])
	}
	return b.String()
}

func (g *Gen) piece() string {
	switch g.r.Intn(12) {
	case 0, 1:
		return string(g.pick(specials))
	case 2:
		return string(g.pick(spaces))
	case 3:
		return g.caseMix(keywords[g.r.Intn(len(keywords))])
	case 4:
		return numerals[g.r.Intn(len(numerals))]
	case 5:
		return string(g.pick(nonASCII))
	case 6:
		return fragments[g.r.Intn(len(fragments))]
	case 7:
		return "-"
	default:
		return g.word()
	}
}

// String: a valid UTF-8 string (mostly short), with a class histogram.
func (g *Gen) String() string {
	switch k := g.r.Intn(20); {
	case k < 4: // a lone keyword / fold word in some case
		g.count("str:keyword-case")
		return g.caseMix(keywords[g.r.Intn(len(keywords))])
	case k < 6: // a lone numeral, maybe perturbed
		g.count("str:numeral")
		s := numerals[g.r.Intn(len(numerals))]
		if g.r.Intn(4) == 0 {
			s += g.piece()
		}
		return s
	case k < 8: // keyword with a neighbour
		g.count("str:keyword+piece")
		if g.r.Intn(2) == 0 {
			return g.caseMix(keywords[g.r.Intn(len(keywords))]) + g.piece()
		}
		return g.piece() + g.caseMix(keywords[g.r.Intn(len(keywords))])
	case k < 9: // long, around the 518 byte key limit
		g.count("str:long")
		unit := []string{"a", "é", "😀", "-a", "a b"}[g.r.Intn(5)]
		n := (505 + g.r.Intn(30)) / len(unit)
		s := strings.Repeat(unit, n)
		if g.r.Intn(2) == 0 {
			s += g.piece()
		}
		return s
	case k < 11: // one or two runes
		g.count("str:tiny")
		n := 1 + g.r.Intn(2)
		var b strings.Builder
		for i := 0; i < n; i++ {
			switch g.r.Intn(4) {
			case 0:
				b.WriteRune(g.pick(specials))
			case 1:
				b.WriteRune(g.pick(spaces))
			case 2:
				b.WriteRune(g.pick(nonASCII))
			default:
				b.WriteString(g.word()[:1])
			}
		}
		return b.String()
	default:
		g.count("str:mixed")
		n := 1 + g.r.Intn(6)
		var b strings.Builder
		for i := 0; i < n; i++ {
			b.WriteString(g.piece())
		}
		return b.String()
	}
}

// Bytes: a Go string that is not valid UTF-8.
func (g *Gen) Bytes() string {
	g.count("bytes:invalid-utf8")
	bad := []string{"\xff", "\xc3", "\xe2\x82", "\xf0\x9f\x98", "\x80", "\xc0\xaf", "\xed\xa0\x80"}
	s := g.String()
	if len(s) > 40 {
		s = s[:40]
	}
	i := g.r.Intn(len(s) + 1)
	return s[:i] + bad[g.r.Intn(len(bad))] + s[i:]
}

// Text: arbitrary D2-ish text for ParseKey / ParseValue (quotes, escapes, dots, spaces, newlines).
func (g *Gen) Text() string {
	g.count("ptext:random")
	n := 1 + g.r.Intn(7)
	var b strings.Builder
	for i := 0; i < n; i++ {
		switch g.r.Intn(10) {
		case 0:
			b.WriteByte('"')
		case 1:
			b.WriteByte('\'')
		case 2:
			b.WriteByte('\\')
		case 3:
			b.WriteByte('.')
		case 4:
			b.WriteByte(' ')
		default:
			b.WriteString(g.piece())
		}
	}
	return b.String()
}

// Exhaustive calls f on every string over Alphabet of length 1..maxLen.
func Exhaustive(maxLen int, f func(string)) {
	var rec func(prefix []rune, left int)
	rec = func(prefix []rune, left int) {
		if len(prefix) > 0 {
			f(string(prefix))
		}
		if left == 0 {
			return
		}
		for _, a := range Alphabet {
			rec(append(prefix, a), left-1)
		}
	}
	rec(nil, maxLen)
}

// Name: an object name for generated programs (C06): plain words mostly, nasty ones often.
func (g *Gen) Name() string {
	switch k := g.r.Intn(10); {
	case k < 3:
		return g.word()
	case k < 5:
		return g.caseMix(keywords[g.r.Intn(len(keywords))])
	default:
		for {
			s := g.String()
			if len(s) > 0 && len(s) < 60 {
				return s
			}
		}
	}
}
