package main

// C22: grid cells.
//
//	unit  the real d2grid.Layout on a root-level grid whose cells carry hand-set sizes / labels / icons
//	      (compiled through d2compiler so that attribute order, styles and icons are the real thing);
//	      newGridDiagram's derived dimensions and getBestLayout's partition are observed through the verif hook.
//	e2e   D2 text → d2lib.Compile (real ruler; fake core layout or dagre) → one case per grid container found in the
//	      final graph, incl. nested grids and containers as cells.

import (
	"fmt"
	"math"
	"math/rand"
	"strconv"
	"strings"

	"oss.terrastruct.com/d2/d2compiler"
	"oss.terrastruct.com/d2/d2graph"
	"oss.terrastruct.com/d2/d2layouts/d2grid"
	"oss.terrastruct.com/d2/d2lib"
	"oss.terrastruct.com/d2/d2target"
	"oss.terrastruct.com/d2/lib/geo"

	"d2v/harness/geoutil"
	"d2v/harness/hl"
)

func main() { hl.Main("C22", run) }

type cellSpec struct {
	W, H   float64
	LP, IP *string // overrides of LabelPosition / IconPosition (nil: leave to the layout)
	LW, LH int
	NoLbl  bool // label: ""
}

type unitIn struct {
	Text      string
	RowsA     int
	ColsA     int
	RowsFirst bool
	GridGap   *int
	VGap      *int
	HGap      *int
	Cells     []cellSpec
}

func optInt(p *int) any {
	if p == nil {
		return nil
	}
	return *p
}

func (u *unitIn) json() map[string]any {
	cs := []any{}
	for _, c := range u.Cells {
		cs = append(cs, map[string]any{"w": hl.Rat(c.W), "h": hl.Rat(c.H), "lp": geoutil.StrOrNil(c.LP), "ip": geoutil.StrOrNil(c.IP),
			"lw": c.LW, "lh": c.LH, "nolbl": c.NoLbl})
	}
	return map[string]any{"text": u.Text, "rows": u.RowsA, "cols": u.ColsA, "rows_first": u.RowsFirst,
		"grid_gap": optInt(u.GridGap), "v_gap": optInt(u.VGap), "h_gap": optInt(u.HGap), "cells": cs}
}

func unitFromJSON(in map[string]any) *unitIn {
	oi := func(x any) *int {
		if x == nil {
			return nil
		}
		v := int(x.(float64))
		return &v
	}
	os := func(x any) *string {
		if x == nil {
			return nil
		}
		v := x.(string)
		return &v
	}
	u := &unitIn{Text: in["text"].(string), RowsA: int(in["rows"].(float64)), ColsA: int(in["cols"].(float64)),
		RowsFirst: in["rows_first"].(bool), GridGap: oi(in["grid_gap"]), VGap: oi(in["v_gap"]), HGap: oi(in["h_gap"])}
	for _, x := range in["cells"].([]any) {
		m := x.(map[string]any)
		u.Cells = append(u.Cells, cellSpec{W: geoutil.ParseRat(m["w"].(string)), H: geoutil.ParseRat(m["h"].(string)), LP: os(m["lp"]), IP: os(m["ip"]),
			LW: int(m["lw"].(float64)), LH: int(m["lh"].(float64)), NoLbl: m["nolbl"].(bool)})
	}
	return u
}

var cellShapes = []string{"rectangle", "square", "hexagon", "oval", "cloud", "person", "image", "text", "cylinder", "diamond", "page"}

func genUnit(r *rand.Rand, c *hl.Ctx) *unitIn {
	u := &unitIn{}
	n := 1 + r.Intn(30)
	switch r.Intn(8) {
	case 0:
		n = 1
	case 1:
		n = 2 + r.Intn(3)
	}
	mode := r.Intn(4)
	switch mode {
	case 0, 1: // both
		u.RowsA, u.ColsA = 1+r.Intn(6), 1+r.Intn(6)
		u.RowsFirst = r.Intn(2) == 0
		if u.RowsA*u.ColsA < n {
			c.Count("unit:evenly:capacity-grows")
		} else if u.RowsA*u.ColsA > n {
			c.Count("unit:evenly:spare-capacity")
		} else {
			c.Count("unit:evenly:exact")
		}
	case 2:
		u.RowsA = 1 + r.Intn(7)
		c.Count("unit:dynamic:rows")
	default:
		u.ColsA = 1 + r.Intn(7)
		c.Count("unit:dynamic:cols")
	}
	var sb strings.Builder
	lines := []string{}
	if u.RowsA > 0 {
		lines = append(lines, fmt.Sprintf("grid-rows: %d", u.RowsA))
	}
	if u.ColsA > 0 {
		l := fmt.Sprintf("grid-columns: %d", u.ColsA)
		if u.RowsFirst || u.RowsA == 0 {
			lines = append(lines, l)
		} else {
			lines = append([]string{l}, lines...)
		}
	}
	gv := func() *int {
		v := []int{0, 0, 1, 5, 10, 17, 40, 100}[r.Intn(8)]
		return &v
	}
	if r.Intn(3) == 0 {
		u.GridGap = gv()
		lines = append(lines, fmt.Sprintf("grid-gap: %d", *u.GridGap))
		c.Count("unit:gap:grid-gap")
	}
	if r.Intn(4) == 0 {
		u.VGap = gv()
		lines = append(lines, fmt.Sprintf("vertical-gap: %d", *u.VGap))
		c.Count("unit:gap:vertical")
	}
	if r.Intn(4) == 0 {
		u.HGap = gv()
		lines = append(lines, fmt.Sprintf("horizontal-gap: %d", *u.HGap))
		c.Count("unit:gap:horizontal")
	}
	// the gap keywords may come before or after the rows/columns keywords; the relative order of rows/columns is kept
	if r.Intn(2) == 0 && len(lines) > 1 {
		k := len(lines)
		var dims, others []string
		for _, l := range lines[:k] {
			if strings.HasPrefix(l, "grid-rows") || strings.HasPrefix(l, "grid-columns") {
				dims = append(dims, l)
			} else {
				others = append(others, l)
			}
		}
		lines = append(others, dims...)
	}
	for _, l := range lines {
		sb.WriteString(l + "\n")
	}
	plain := r.Intn(3) == 0 // a third of the grids have no decorations at all: exact Spec on raw boxes everywhere
	if plain {
		c.Count("unit:plain-cells")
	}
	for i := 0; i < n; i++ {
		cs := cellSpec{W: geoutil.Q(r, 1, 300), H: geoutil.Q(r, 1, 200), LW: r.Intn(250), LH: r.Intn(60)}
		if r.Intn(6) == 0 { // equal sizes are where float ties happen
			cs.W, cs.H = 100, 60
		}
		var attrs []string
		if !plain {
			isImage := false
			if r.Intn(3) == 0 {
				sh := cellShapes[r.Intn(len(cellShapes))]
				isImage = sh == "image"
				attrs = append(attrs, "shape: "+sh)
			}
			if isImage || r.Intn(4) == 0 {
				attrs = append(attrs, "icon: https://icons.terrastruct.com/essentials/004-picture.svg")
				if r.Intn(2) == 0 {
					cs.IP = geoutil.RandLabelPos(r)
				}
				c.Count("unit:cell-icon")
			}
			sw := r.Intn(8)
			if sw == 0 {
				ok3d := true
				for _, a := range attrs {
					if strings.HasPrefix(a, "shape: ") && a != "shape: rectangle" && a != "shape: square" && a != "shape: hexagon" {
						ok3d = false
					}
				}
				if !ok3d {
					sw = 1
				}
			}
			switch sw {
			case 0:
				attrs = append(attrs, "style.3d: true")
				c.Count("unit:cell-3d")
			case 1:
				attrs = append(attrs, "style.multiple: true")
				c.Count("unit:cell-multiple")
			}
			if !isImage && r.Intn(5) == 0 {
				attrs = append(attrs, "k1; k2")
				c.Count("unit:cell-container")
			}
			if r.Intn(2) == 0 {
				cs.LP = geoutil.RandLabelPos(r)
				if cs.LP != nil && strings.HasPrefix(*cs.LP, "OUTSIDE") {
					c.Count("unit:cell-outside-label")
				}
			}
			if r.Intn(8) == 0 {
				cs.NoLbl = true
			}
		}
		fmt.Fprintf(&sb, "c%d: {%s}\n", i, strings.Join(attrs, "; "))
		u.Cells = append(u.Cells, cs)
	}
	u.Text = sb.String()
	c.Count(fmt.Sprintf("unit:n:%02d-%02d", n/10*10, n/10*10+9))
	return u
}

func cellObs(o *d2graph.Object) map[string]any {
	dx, dy := o.GetModifierElementAdjustments()
	return map[string]any{"box": geoutil.BoxJSON(o), "has_label": o.HasLabel(), "lp": geoutil.StrOrNil(o.LabelPosition),
		"lw": o.LabelDimensions.Width, "lh": o.LabelDimensions.Height,
		"has_icon": o.HasIcon(), "ip": geoutil.StrOrNil(o.IconPosition), "mod_dx": hl.Rat(dx), "mod_dy": hl.Rat(dy),
		"nkids": len(o.ChildrenArray)}
}

func runUnit(u *unitIn) map[string]any {
	cs := map[string]any{"k": "unit", "in": u.json()}
	g, _, err := d2compiler.Compile("", strings.NewReader(u.Text), nil)
	if err != nil {
		cs["out"] = map[string]any{"err": err.Error()}
		cs["triv"] = true
		return cs
	}
	g.Root.Box = &geo.Box{}
	cells := g.Root.ChildrenArray
	if len(cells) != len(u.Cells) {
		cs["out"] = map[string]any{"err": "cell count"}
		return cs
	}
	for i, o := range cells {
		s := u.Cells[i]
		o.Box = geo.NewBox(geo.NewPoint(0, 0), s.W, s.H)
		o.LabelDimensions = d2target.TextDimensions{Width: s.LW, Height: s.LH}
		if s.NoLbl {
			o.Label.Value = ""
		}
		if s.LP != nil {
			o.LabelPosition = s.LP
		}
		if s.IP != nil {
			o.IconPosition = s.IP
		}
		for k, ch := range o.ChildrenArray {
			ch.Box = geo.NewBox(geo.NewPoint(float64(3+k*11), float64(4+k*9)), 7, 6)
		}
	}
	rows, cols, rd, vg, hg := d2grid.VerifGridDims(g.Root)
	var runs []int
	inOrder := true
	calls := 0
	d2grid.VerifBestLayoutHook = func(layout [][]*d2graph.Object) {
		calls++
		k := 0
		runs = []int{}
		for _, line := range layout {
			runs = append(runs, len(line))
			for _, o := range line {
				if k >= len(cells) || cells[k] != o {
					inOrder = false
				}
				k++
			}
		}
		if k != len(cells) {
			inOrder = false
		}
	}
	outc := hl.Guard(func() {
		if err := d2grid.Layout(hl.QuietCtx(), g); err != nil {
			panic(err)
		}
	})
	d2grid.VerifBestLayoutHook = nil
	out := map[string]any{"outcome": outc, "dims": map[string]any{"rows": rows, "cols": cols, "row_directed": rd, "v_gap": vg, "h_gap": hg},
		"best_layout_calls": calls, "runs_in_order": inOrder}
	if runs != nil {
		out["runs"] = runs
	} else {
		out["runs"] = nil
	}
	obs := []any{}
	kidsOK := true
	for _, o := range cells {
		obs = append(obs, cellObs(o))
		for k, ch := range o.ChildrenArray {
			if math.Abs(ch.TopLeft.X-o.TopLeft.X-float64(3+k*11)) > 1e-6 || math.Abs(ch.TopLeft.Y-o.TopLeft.Y-float64(4+k*9)) > 1e-6 {
				// revert moves the cell together with its descendants, so the offset is kept
				kidsOK = false
			}
		}
	}
	out["cells"] = obs
	out["kids_ok"] = kidsOK
	out["root"] = []string{hl.Rat(g.Root.TopLeft.X), hl.Rat(g.Root.TopLeft.Y), hl.Rat(g.Root.Width), hl.Rat(g.Root.Height)}
	cs["out"] = out
	return cs
}

// ---- e2e ------------------------------------------------------------------------------------------------------

var words = []string{"a", "Storage", "API gateway", "x", "A long label that is wider than its cell", "ok", "DB"}
var labelNears = []string{"outside-top-left", "outside-top-center", "outside-top-right", "outside-left-top", "outside-left-center", "outside-left-bottom",
	"outside-right-top", "outside-right-center", "outside-right-bottom", "outside-bottom-left", "outside-bottom-center", "outside-bottom-right",
	"top-left", "top-center", "center-center", "bottom-right"}

func gridAttrs(r *rand.Rand) []string {
	var a []string
	rows, cols := 0, 0
	switch r.Intn(4) {
	case 0, 1:
		rows, cols = 1+r.Intn(4), 1+r.Intn(4)
	case 2:
		rows = 1 + r.Intn(4)
	default:
		cols = 1 + r.Intn(4)
	}
	if rows > 0 {
		a = append(a, fmt.Sprintf("grid-rows: %d", rows))
	}
	if cols > 0 {
		a = append(a, fmt.Sprintf("grid-columns: %d", cols))
	}
	if len(a) == 2 && r.Intn(2) == 0 {
		a[0], a[1] = a[1], a[0]
	}
	if r.Intn(3) == 0 {
		a = append(a, fmt.Sprintf("grid-gap: %d", []int{0, 8, 24, 64}[r.Intn(4)]))
	}
	if r.Intn(5) == 0 {
		a = append(a, fmt.Sprintf("vertical-gap: %d", []int{0, 8, 24, 64}[r.Intn(4)]))
	}
	if r.Intn(5) == 0 {
		a = append(a, fmt.Sprintf("horizontal-gap: %d", []int{0, 8, 24, 64}[r.Intn(4)]))
	}
	return a
}

func genCell(r *rand.Rand, c *hl.Ctx, id string, depth int) string {
	var a []string
	leafOnly := false
	if r.Intn(3) == 0 {
		sh := cellShapes[r.Intn(len(cellShapes))]
		leafOnly = sh == "image" || sh == "text"
		a = append(a, "shape: "+sh)
		if sh == "image" || r.Intn(6) == 0 {
			a = append(a, "icon: https://icons.terrastruct.com/essentials/004-picture.svg")
		}
	}
	if r.Intn(3) == 0 {
		a = append(a, fmt.Sprintf("label: %q", words[r.Intn(len(words))]))
	}
	if r.Intn(4) == 0 {
		a = append(a, "label.near: "+labelNears[r.Intn(len(labelNears))])
		c.Count("e2e:cell-label-near")
	}
	if r.Intn(6) == 0 {
		a = append(a, fmt.Sprintf("width: %d", 20+r.Intn(300)))
	}
	if r.Intn(6) == 0 {
		a = append(a, fmt.Sprintf("height: %d", 20+r.Intn(200)))
	}
	if r.Intn(10) == 0 {
		a = append(a, "style.multiple: true")
	}
	if depth < 2 && !leafOnly {
		switch r.Intn(8) {
		case 0:
			a = append(a, "p; q; p -> q")
			c.Count("e2e:cell-container")
		case 1:
			a = append(a, genGridBody(r, c, depth+1))
			c.Count("e2e:nested-grid")
		}
	}
	return fmt.Sprintf("%s: {%s}", id, strings.Join(a, "; "))
}

func genGridBody(r *rand.Rand, c *hl.Ctx, depth int) string {
	a := gridAttrs(r)
	n := r.Intn(9)
	if depth == 0 {
		n = r.Intn(16)
	}
	for i := 0; i < n; i++ {
		a = append(a, genCell(r, c, fmt.Sprintf("c%d", i), depth))
	}
	return strings.Join(a, "; ")
}

func genText(r *rand.Rand, c *hl.Ctx) string {
	if r.Intn(3) == 0 {
		c.Count("e2e:root-grid")
		return strings.ReplaceAll(genGridBody(r, c, 0), "; ", "\n") + "\n"
	}
	var sb strings.Builder
	k := 1 + r.Intn(3)
	for i := 0; i < k; i++ {
		fmt.Fprintf(&sb, "g%d: {%s}\n", i, genGridBody(r, c, 0))
	}
	if k > 1 && r.Intn(2) == 0 {
		sb.WriteString("g0 -> g1\n")
	}
	if r.Intn(3) == 0 {
		sb.WriteString("other -> g0\n")
	}
	return sb.String()
}

func atoiOr0(s *d2graph.Scalar) int {
	if s == nil {
		return 0
	}
	v, _ := strconv.Atoi(s.Value)
	return v
}
func optAtoi(s *d2graph.Scalar) any {
	if s == nil {
		return nil
	}
	v, _ := strconv.Atoi(s.Value)
	return v
}

func runE2E(c *hl.Ctx, text, engine string, fakeSeed int64) {
	var layout d2graph.LayoutGraph
	if engine == "dagre" {
		layout = geoutil.Dagre
	} else {
		layout = geoutil.FakeLayout(rand.New(rand.NewSource(fakeSeed)))
	}
	var g *d2graph.Graph
	var err error
	outc := hl.Guard(func() {
		_, g, err = d2lib.Compile(hl.QuietCtx(), text, &d2lib.CompileOptions{Ruler: geoutil.Ruler(),
			LayoutResolver: func(string) (d2graph.LayoutGraph, error) { return layout, nil }}, nil)
	})
	base := func() map[string]any { return map[string]any{"text": text, "engine": engine, "fake_seed": fakeSeed} }
	if outc != "ok" || err != nil {
		e := outc
		if err != nil {
			e = err.Error()
		}
		c.Emit(map[string]any{"k": "e2e", "in": base(), "out": map[string]any{"err": e}, "triv": true})
		return
	}
	grids := []*d2graph.Object{}
	if g.Root.IsGridDiagram() {
		grids = append(grids, g.Root)
	}
	for _, o := range g.Objects {
		if o.IsGridDiagram() {
			grids = append(grids, o)
		}
	}
	if len(grids) == 0 {
		c.Emit(map[string]any{"k": "e2e", "in": base(), "out": map[string]any{"err": "no grid"}, "triv": true})
		return
	}
	for _, gr := range grids {
		in := base()
		in["grid"] = gr.AbsID()
		rowsFirst := false
		if gr.GridRows != nil && gr.GridColumns != nil {
			rowsFirst = gr.GridRows.MapKey.Range.Before(gr.GridColumns.MapKey.Range)
		}
		in["rows"], in["cols"], in["rows_first"] = atoiOr0(gr.GridRows), atoiOr0(gr.GridColumns), rowsFirst
		in["grid_gap"], in["v_gap"], in["h_gap"] = optAtoi(gr.GridGap), optAtoi(gr.VerticalGap), optAtoi(gr.HorizontalGap)
		in["explicit_w"], in["explicit_h"] = gr.WidthAttr != nil, gr.HeightAttr != nil
		in["shape"] = strings.ToLower(gr.Shape.Value)
		obs := []any{}
		for _, o := range gr.ChildrenArray {
			obs = append(obs, cellObs(o))
		}
		root := []string{"0", "0", "0", "0"}
		if gr.Box != nil {
			root = []string{"0", "0", hl.Rat(gr.Width), hl.Rat(gr.Height)}
			if gr.TopLeft != nil {
				root = geoutil.BoxJSON(gr)
			}
		}
		cs := map[string]any{"k": "e2e", "in": in, "out": map[string]any{"outcome": "ok", "cells": obs, "root": root}}
		if len(gr.ChildrenArray) == 0 {
			cs["triv"] = true
		}
		c.Emit(cs)
	}
}

func run(c *hl.Ctx) error {
	if cs := c.ReplayCase(); cs != nil {
		in := cs["in"].(map[string]any)
		if cs["k"] == "e2e" {
			runE2E(c, in["text"].(string), in["engine"].(string), int64(in["fake_seed"].(float64)))
		} else {
			c.Emit(runUnit(unitFromJSON(in)))
		}
		return nil
	}
	r := c.Rand()
	for i := c.Pick(6000, 150000); i > 0; i-- {
		c.Emit(runUnit(genUnit(r, c)))
	}
	for i := c.Pick(300, 6000); i > 0; i-- {
		c.Count("e2e:fake")
		runE2E(c, genText(r, c), "fake", r.Int63n(1<<40))
	}
	for i := c.Pick(60, 600); i > 0; i-- {
		c.Count("e2e:dagre")
		runE2E(c, genText(r, c), "dagre", 0)
	}
	return nil
}
