package main

import (
	"fmt"
	"math/rand"
	"regexp"
	"strings"
	"unicode/utf8"

	"d2v/harness/hl"
	"d2v/harness/quotegen"

	"oss.terrastruct.com/d2/d2ast"
	"oss.terrastruct.com/d2/d2compiler"
	"oss.terrastruct.com/d2/d2format"
	"oss.terrastruct.com/d2/d2graph"
	"oss.terrastruct.com/d2/d2parser"
)

// C06: IDs of compiled boards.  One case per board of a generated program:
//
//	k=pmk   in {t}            out ParseMapKey(t) read as a connection ID (arbitrary edge-like text)
//	k=board in {prog, board}  out {objects:[{id,absid,lower,name,parent,idparse,absparse}],
//	                               edges:[{absid,lower,src,dst,srcArrow,dstArrow,index,parse}]}
//
// name = the string of the object's name in the source (first reference), independent of the ID;
// idparse / absparse / parse = what the real d2parser.ParseKey / ParseMapKey make of the ID text.
func main() { hl.Main("C06", run) }

func cps(s string) []int {
	out := []int{}
	for _, r := range s {
		out = append(out, int(r))
	}
	return out
}

func fromCps(v any) string {
	var b strings.Builder
	for _, x := range v.([]any) {
		b.WriteRune(rune(x.(float64)))
	}
	return b.String()
}

func kind(s d2ast.String) string {
	switch s.(type) {
	case *d2ast.UnquotedString:
		return "unq"
	case *d2ast.DoubleQuotedString:
		return "dq"
	case *d2ast.SingleQuotedString:
		return "sq"
	}
	return "other"
}

func pathObs(kp *d2ast.KeyPath) []any {
	out := []any{}
	if kp == nil {
		return out
	}
	for _, sb := range kp.Path {
		out = append(out, map[string]any{"kind": kind(sb.Unbox()), "val": cps(sb.Unbox().ScalarString())})
	}
	return out
}

func parseKeyObs(text string) map[string]any {
	var k *d2ast.KeyPath
	var err error
	if o := hl.Guard(func() { k, err = d2parser.ParseKey(text) }); o != "ok" {
		return map[string]any{"res": "panic", "msg": o}
	}
	if err != nil {
		if strings.HasPrefix(err.Error(), "empty key") {
			return map[string]any{"res": "empty"}
		}
		return map[string]any{"res": "err", "msg": err.Error()}
	}
	return map[string]any{"res": "ok", "path": pathObs(k)}
}

// parseEdgeObs reads an edge ID back with the real ParseMapKey: container.(src arrow dst)[index]
func parseEdgeObs(text string) map[string]any {
	var mk *d2ast.Key
	var err error
	if o := hl.Guard(func() { mk, err = d2parser.ParseMapKey(text) }); o != "ok" {
		return map[string]any{"res": "panic", "msg": o}
	}
	if err != nil {
		return map[string]any{"res": "err", "msg": err.Error()}
	}
	if len(mk.Edges) != 1 || mk.EdgeIndex == nil || mk.EdgeIndex.Int == nil || mk.EdgeKey != nil ||
		mk.Primary.Unbox() != nil || mk.Value.Unbox() != nil {
		return map[string]any{"res": "shape", "edges": len(mk.Edges)}
	}
	e := mk.Edges[0]
	return map[string]any{"res": "ok", "common": pathObs(mk.Key), "src": pathObs(e.Src), "dst": pathObs(e.Dst),
		"srcArrow": e.SrcArrow == "<", "dstArrow": e.DstArrow == ">", "index": *mk.EdgeIndex.Int,
		"odd": e.SrcArrow == "*" || e.DstArrow == "*"}
}

func boardObs(g *d2graph.Graph) map[string]any {
	idx := map[*d2graph.Object]int{}
	for i, o := range g.Objects {
		idx[o] = i
	}
	objs := []any{}
	for _, o := range g.Objects {
		m := map[string]any{"id": cps(o.ID), "absid": cps(o.AbsID()), "lower": cps(strings.ToLower(o.AbsID())),
			"idval": cps(o.IDVal), "idparse": parseKeyObs(o.ID), "absparse": parseKeyObs(o.AbsID())}
		if o.Parent != nil && o.Parent != g.Root {
			if pi, ok := idx[o.Parent]; ok {
				m["parent"] = pi
			} else {
				m["parent"] = -2 // parent not among the board's objects
			}
		} else {
			m["parent"] = -1
		}
		if len(o.References) > 0 && o.References[0].Key != nil && o.References[0].KeyPathIndex < len(o.References[0].Key.Path) {
			n := o.References[0].Key.Path[o.References[0].KeyPathIndex].Unbox()
			m["name"] = cps(n.ScalarString())
			m["nameKind"] = kind(n)
		}
		objs = append(objs, m)
	}
	edges := []any{}
	for _, e := range g.Edges {
		id := e.AbsID()
		m := map[string]any{"absid": cps(id), "lower": cps(strings.ToLower(id)), "srcArrow": e.SrcArrow, "dstArrow": e.DstArrow,
			"index": e.Index, "parse": parseEdgeObs(id)}
		if i, ok := idx[e.Src]; ok {
			m["src"] = i
		} else {
			m["src"] = -2
		}
		if i, ok := idx[e.Dst]; ok {
			m["dst"] = i
		} else {
			m["dst"] = -2
		}
		edges = append(edges, m)
	}
	return map[string]any{"objects": objs, "edges": edges}
}

func walkBoards(g *d2graph.Graph, path []string, f func(path []string, g *d2graph.Graph)) {
	f(path, g)
	for _, grp := range []struct {
		n  string
		gs []*d2graph.Graph
	}{{"layers", g.Layers}, {"scenarios", g.Scenarios}, {"steps", g.Steps}} {
		for i, b := range grp.gs {
			walkBoards(b, append(append([]string{}, path...), fmt.Sprintf("%s[%d]", grp.n, i)), f)
		}
	}
}

// observeProg compiles prog and emits one case per board (or only the board named want).
func observeProg(c *hl.Ctx, prog string, want *string) (compiled bool) {
	var g *d2graph.Graph
	var err error
	if o := hl.Guard(func() { g, _, err = d2compiler.Compile("", strings.NewReader(prog), nil) }); o != "ok" {
		c.Emit(map[string]any{"k": "compile-panic", "in": map[string]any{"prog": cps(prog)}, "out": map[string]any{"msg": o}})
		return false
	}
	if err != nil {
		return false
	}
	walkBoards(g, nil, func(path []string, b *d2graph.Graph) {
		bp := strings.Join(path, "/")
		if want != nil && *want != bp {
			return
		}
		var out map[string]any
		if o := hl.Guard(func() { out = boardObs(b) }); o != "ok" {
			out = map[string]any{"panic": o}
		}
		m := map[string]any{"k": "board", "in": map[string]any{"prog": cps(prog), "board": bp}, "out": out}
		if len(b.Objects) == 0 {
			m["triv"] = true
		}
		c.Emit(m)
	})
	return true
}

// ------------------------------------------------------------------------------------------ program generator

var simpleName = regexp.MustCompile(`^[A-Za-z0-9_]([A-Za-z0-9_ ]*[A-Za-z0-9_])?$`)

var reservedLower = map[string]bool{}

func init() {
	for k := range d2ast.ReservedKeywords {
		reservedLower[k] = true
	}
	for _, k := range []string{"null", "true", "false", "suspend", "unsuspend", "_"} {
		reservedLower[k] = true
	}
}

// srcName writes a name into D2 source with the harness' own quoting (independent of d2ast.RawString):
// simple non-keyword names are sometimes left bare, everything else is double-quoted with \" \\ \n escapes.
func srcName(r *rand.Rand, s string) string {
	if simpleName.MatchString(s) && !reservedLower[strings.ToLower(s)] && !strings.Contains(s, "  ") && r.Intn(2) == 0 {
		return s
	}
	var b strings.Builder
	b.WriteByte('"')
	for _, c := range s {
		switch c {
		case '"', '\\':
			b.WriteByte('\\')
			b.WriteRune(c)
		case '\n':
			b.WriteString(`\n`)
		default:
			b.WriteRune(c)
		}
	}
	b.WriteByte('"')
	return b.String()
}

func srcPath(r *rand.Rand, p []string) string {
	q := make([]string, len(p))
	for i, s := range p {
		q[i] = srcName(r, s)
	}
	return strings.Join(q, ".")
}

type progGen struct {
	r *rand.Rand
	g *quotegen.Gen
	c *hl.Ctx
}

func (pg *progGen) pool() []string {
	n := 2 + pg.r.Intn(6)
	var pool []string
	for len(pool) < n {
		s := pg.g.Name()
		if !utf8.ValidString(s) || s == "" && pg.r.Intn(4) != 0 {
			continue
		}
		pool = append(pool, s)
		if pg.r.Intn(4) == 0 { // a case twin
			pool = append(pool, twin(pg.r, s))
		}
	}
	return pool
}

func twin(r *rand.Rand, s string) string {
	switch r.Intn(4) {
	case 0:
		return strings.ToUpper(s)
	case 1:
		return strings.ToLower(s)
	case 2:
		return strings.NewReplacer("s", "ſ", "k", "K", "S", "ſ").Replace(s)
	default:
		return strings.Title(s)
	}
}

func (pg *progGen) path(pool []string) []string {
	d := 1 + pg.r.Intn(3)
	p := make([]string, d)
	for i := range p {
		p[i] = pool[pg.r.Intn(len(pool))]
	}
	return p
}

var arrows = []string{"->", "->", "<-", "<->", "--"}

func (pg *progGen) body(pool []string, depth int, sb *strings.Builder, indent string) {
	n := 1 + pg.r.Intn(5)
	for i := 0; i < n; i++ {
		switch k := pg.r.Intn(10); {
		case k < 4: // declaration, maybe with a label
			sb.WriteString(indent + srcPath(pg.r, pg.path(pool)))
			if pg.r.Intn(3) == 0 {
				sb.WriteString(": L" + fmt.Sprint(i))
			}
			sb.WriteString("\n")
		case k < 6 && depth < 2: // container with a body
			sb.WriteString(indent + srcPath(pg.r, pg.path(pool)[:1]) + ": {\n")
			pg.body(pool, depth+1, sb, indent+"  ")
			sb.WriteString(indent + "}\n")
		default: // connection, sometimes repeated to get indices > 0
			a, b := pg.path(pool), pg.path(pool)
			line := indent + srcPath(pg.r, a) + " " + arrows[pg.r.Intn(len(arrows))] + " " + srcPath(pg.r, b)
			sb.WriteString(line + "\n")
			if pg.r.Intn(4) == 0 {
				sb.WriteString(line + "\n")
			}
		}
	}
}

func (pg *progGen) program() string {
	pool := pg.pool()
	var sb strings.Builder
	pg.body(pool, 0, &sb, "")
	if pg.r.Intn(5) == 0 {
		kind := []string{"layers", "scenarios", "steps"}[pg.r.Intn(3)]
		sb.WriteString(kind + ": {\n")
		for i, n := 0, 1+pg.r.Intn(2); i < n; i++ {
			sb.WriteString("  " + srcName(pg.r, pool[pg.r.Intn(len(pool))]) + ": {\n")
			pg.body(pool, 1, &sb, "    ")
			sb.WriteString("  }\n")
		}
		sb.WriteString("}\n")
		pg.c.Count("prog:boards")
	}
	return sb.String()
}

// corpus: the witnesses found while modelling, always first
var corpus = []string{
	"\"NULL\"\n", "\"Label\"\n\"label\": x\n", "\"a.b\".c -> \"a.b\".d\n", "a.b -> a.c\na.b -> a.c\n", "A\na\nA.b -> a.c\n",
	"\"ſ\".a -> s.b\n", "ſ.a\ns.b\nſ.a -> s.b\n", "\"K\".x -> k.y\n", "\"a -> b\" -> \"(c)\"\n", "\"\"\n\"\".\"\" -> \"\"\n",
	"\"a\\nb\" -> \"c\\\"d\"\n", "\" a\" -> \"a \"\n", "x: {\n  \"TRUE\" -> \"null\"\n}\n", "\"(a -> b)[0]\" -> c\n",
	"a.\"b.c\".d\n\"a.b\".c.d\na.b.\"c.d\"\n", "\"a-\" -- \"-\" -- \"--\"\n", "a -> b\na <- b\na -- b\na <-> b\nb -> a\n",
	"layers: {\n  \"Steps\": {\n    a -> b\n  }\n}\n", "\"x[0]\" -> y\n", "\"*\" -> \"a*\"\n", "\"'a'\" -> '\"b\"'\n", "\"@x\" -> \"...@y\"\n", "\"a\\\\\" -> \"\\\\b\"\n",
}

// edgeText builds a connection-ID-like text: mostly well-formed `[common.](src arrow dst)[index]`, with noise.
func (pg *progGen) edgeText(pool []string) string {
	r := pg.r
	seg := func() string {
		if r.Intn(3) == 0 { // the real printer
			return d2formatKey(pool[r.Intn(len(pool))])
		}
		return srcName(r, pool[r.Intn(len(pool))])
	}
	path := func() string {
		n := 1 + r.Intn(3)
		q := make([]string, n)
		for i := range q {
			q[i] = seg()
		}
		return strings.Join(q, ".")
	}
	arrowsX := []string{"->", "->", "<-", "<->", "--", "-->", "<--", "-", "<", ">", "- >", "-*", "*-", "-\\\n>", "=>"}
	sp := func() string { return []string{" ", " ", " ", "", "  ", "\t"}[r.Intn(6)] }
	idx := []string{"[0]", "[1]", "[12]", "[007]", "[ 3 ]", "[1 2]", "[*]", "[]", "[x]", "[1", "", "[3].label", "[0]: x", "[2] {", "[4] #c"}
	var b strings.Builder
	if r.Intn(2) == 0 {
		b.WriteString(path())
		b.WriteString([]string{".", ".", ". ", " ."}[r.Intn(4)])
	}
	b.WriteString("(")
	b.WriteString(path())
	b.WriteString(sp())
	b.WriteString(arrowsX[r.Intn(len(arrowsX))])
	b.WriteString(sp())
	if r.Intn(12) != 0 {
		b.WriteString(path())
	}
	if r.Intn(10) == 0 {
		b.WriteString(" -> " + path())
	}
	if r.Intn(15) != 0 {
		b.WriteString(")")
	}
	b.WriteString(idx[r.Intn(len(idx))])
	t := b.String()
	t = strings.ReplaceAll(t, "\\t", "\t")
	return t
}

func d2formatKey(s string) string {
	return d2format.Format(&d2ast.KeyPath{Path: []*d2ast.StringBox{d2ast.MakeValueBox(d2ast.RawString(s, true)).StringBox()}})
}

func pmkCase(t string) map[string]any {
	return map[string]any{"k": "pmk", "in": map[string]any{"t": cps(t)}, "out": parseEdgeObs(t)}
}

func run(c *hl.Ctx) error {
	if cs := c.ReplayCase(); cs != nil {
		in := cs["in"].(map[string]any)
		if cs["k"] == "pmk" {
			c.Emit(pmkCase(fromCps(in["t"])))
			return nil
		}
		prog := fromCps(in["prog"])
		b, _ := in["board"].(string)
		if cs["k"] == "compile-panic" {
			observeProg(c, prog, nil)
			return nil
		}
		observeProg(c, prog, &b)
		return nil
	}
	r := c.Rand()
	pg := &progGen{r: r, g: quotegen.New(r, func(string) {}), c: c}
	for _, p := range corpus {
		if observeProg(c, p, nil) {
			c.Count("corpus:compiled")
		} else {
			c.Count("corpus:compile-error")
		}
	}
	n := c.Pick(6000, 120000)
	for i := 0; i < n; i++ {
		p := pg.program()
		if observeProg(c, p, nil) {
			c.Count("prog:compiled")
		} else {
			c.Count("prog:compile-error")
		}
	}
	// connection-ID-like texts through the real ParseMapKey (ties the edge-group part of the parser model)
	m := c.Pick(6000, 150000)
	var pool []string
	for i := 0; i < m; i++ {
		if i%20 == 0 {
			pool = pg.pool()
		}
		t := pg.edgeText(pool)
		if utf8.ValidString(t) {
			c.Emit(pmkCase(t))
			c.Count("pmk")
		}
	}
	return nil
}
