package main

import (
	"d2v/harness/hl"
	"d2v/harness/watchlib"
	"encoding/json"
	"math/rand"
)

// C45: shutdown storms — clients connecting while close() is called (directly, twice, or through the signal path).
func main() { hl.Main("C45", run) }

func genScript(r *rand.Rand, big bool) ([]watchlib.Op, string) {
	var sc []watchlib.Op
	kind := []string{"close-during-storm", "double-close", "signal-during-storm", "close-then-connect", "close-with-prober", "double-close"}[r.Intn(6)]
	if r.Intn(3) != 0 {
		// let the first compile finish and a few clients settle
		sc = append(sc, watchlib.Op{Op: "sleep", Ms: 150 + r.Intn(250)})
	}
	next := 0
	pre := r.Intn(3)
	if kind == "close-with-prober" && pre == 0 {
		pre = 1 // a settled client whose exit shows that close() has cancelled the context
	}
	for i := 0; i < pre; i++ {
		sc = append(sc, watchlib.Op{Op: "connect", ID: next})
		next++
	}
	if kind == "close-with-prober" {
		// requests over one kept-alive connection keep reaching handleWatch after the listener is closed
		sc = append(sc, watchlib.Op{Op: "probe", ID: 1000, N: 150 + r.Intn(200), Ms: r.Intn(120)},
			watchlib.Op{Op: "usleep", Ms: 500 + r.Intn(1500)})
	}
	n := 3 + r.Intn(6)
	if big {
		n += r.Intn(12)
	}
	closeAt := r.Intn(n + 1)
	for i := 0; i <= n; i++ {
		if i == closeAt {
			switch kind {
			case "close-during-storm", "close-then-connect", "close-with-prober":
				sc = append(sc, watchlib.Op{Op: "close"})
			case "double-close":
				sc = append(sc, watchlib.Op{Op: "close"}, watchlib.Op{Op: "usleep", Ms: r.Intn(400)}, watchlib.Op{Op: "close"})
			case "signal-during-storm":
				// handled below: the shutdown op is the signal
			}
			if kind == "close-then-connect" {
				sc = append(sc, watchlib.Op{Op: "usleep", Ms: r.Intn(300)})
			}
		}
		if i < n {
			sc = append(sc, watchlib.Op{Op: "connect_async", ID: next})
			next++
			if r.Intn(2) == 0 {
				sc = append(sc, watchlib.Op{Op: "usleep", Ms: r.Intn(1500)})
			}
			if r.Intn(6) == 0 && next > 1 {
				sc = append(sc, watchlib.Op{Op: "drop", ID: r.Intn(next - 1)})
			}
		}
	}
	if kind != "signal-during-storm" {
		sc = append(sc, watchlib.Op{Op: "close_wait"})
	}
	sc = append(sc, watchlib.Op{Op: "shutdown"})
	return sc, kind
}

func emit(c *hl.Ctx, seed int64, perturb bool, sc []watchlib.Op, kind string) error {
	out, err := watchlib.RunScript(c.Work, seed, perturb, sc)
	if err != nil {
		return err
	}
	var scj []any
	b, _ := json.Marshal(sc)
	json.Unmarshal(b, &scj)
	delete(out, "hist")
	c.Emit(map[string]any{"k": "storm", "sub": kind, "in": map[string]any{"script": scj, "pseed": seed, "perturb": perturb}, "out": out})
	return nil
}

func run(c *hl.Ctx) error {
	if cs := c.ReplayCase(); cs != nil {
		in := cs["in"].(map[string]any)
		b, _ := json.Marshal(in["script"])
		var sc []watchlib.Op
		json.Unmarshal(b, &sc)
		sub, _ := cs["sub"].(string)
		return emit(c, int64(in["pseed"].(float64)), in["perturb"].(bool), sc, sub)
	}
	r := c.Rand()
	n := c.Pick(60, 3000)
	if c.Search && c.Tier != "thorough" {
		n = 240 // a proof or the correspondence broke: search longer than the quick tier, not the whole thorough budget
	}
	for i := 0; i < n; i++ {
		perturb := r.Intn(4) != 0
		sc, kind := genScript(r, !c.Quick() && r.Intn(3) == 0)
		if err := emit(c, r.Int63(), perturb, sc, kind); err != nil {
			return err
		}
		c.Count("storm:" + kind)
		if watchlib.FailedSessions() >= 3 {
			c.Count("stopped-early")
			break
		}
	}
	return nil
}
