package main

import (
	"fmt"
	"math/rand"
	"sort"
	"strings"
	"unicode"

	"d2v/harness/hl"
	sx "d2v/harness/semx"

	"oss.terrastruct.com/d2/d2ast"
	"oss.terrastruct.com/d2/d2ir"
	"oss.terrastruct.com/d2/d2parser"
)

// C12: globs apply to exactly the matching targets, even later ones.
//
// Streams: (1) the reserved-keyword table and the lower-case table the Lean model relies on; (2) (name, pattern)
// pairs pushed through the real compiler to observe matchPattern (incl. its panics); (3) programs p of the globs
// profile: the Lean driver renders p and its reference expansion `expand p`, both are compiled by the real compiler.
func main() { hl.Main("C12", run) }

// ---------------------------------------------------------------------------------------------------------------
// matchPattern through the compiler

// alphabet of names and patterns: ASCII, Latin-1, basic Greek/Cyrillic, and the length-changing lower-case mappings
var special = []rune{0x130, 0x23A, 0x23E, 0x212A, 0x212B, 0x1E9E, 0x2126, 0x2C65, 0x2C66, 0xDF, 0x3C9, 0x1F600, 0x4E2D, 0xE9, 0xC9, 0x416, 0x436, 0x394, 0x3B4, 0x401, 0x451}

func alphabet() []rune {
	var a []rune
	for r := rune(0x20); r <= 0x7E; r++ {
		a = append(a, r)
	}
	for r := rune(0xA1); r <= 0xFF; r++ {
		a = append(a, r)
	}
	for r := rune(0x391); r <= 0x3C9; r++ {
		if r != 0x3A2 && !(r >= 0x3AC && r <= 0x3B0) { // accented lower-case letters upper-case outside the table
			a = append(a, r)
		}
	}
	for r := rune(0x400); r <= 0x44F; r++ {
		a = append(a, r)
	}
	return append(a, special...)
}

// characters usable inside an unquoted key (pattern literals)
func patChar(r rune) bool {
	if r > 0x7E {
		return r != 0xA0 && r != 0xAD
	}
	if unicode.IsLetter(r) || unicode.IsDigit(r) {
		return true
	}
	return strings.ContainsRune("_ +,/=?~%", r)
}

func quoteKey(s string) string {
	return `"` + strings.NewReplacer(`\`, `\\`, `"`, `\"`).Replace(s) + `"`
}

// observe runs `names…; pattern: M` through the real parser + IR compiler and reports, per name, whether the glob
// applied.  A panic is reported for the whole batch (the caller retries one by one).
func observe(names []string, pat string) (pattern []string, res []string, panicked string) {
	var b strings.Builder
	for _, n := range names {
		b.WriteString(quoteKey(n))
		b.WriteByte('\n')
	}
	b.WriteString(pat + ": M\n")
	ast, err := d2parser.Parse("m.d2", strings.NewReader(b.String()), nil)
	if err != nil {
		return nil, nil, "parse: " + err.Error()
	}
	last := ast.Nodes[len(ast.Nodes)-1].MapKey
	if last == nil || last.Key == nil || len(last.Key.Path) != 1 || last.Key.Path[0].UnquotedString == nil {
		return nil, nil, "parse: pattern is not a single unquoted key"
	}
	pattern = last.Key.Path[0].UnquotedString.Pattern
	if len(pattern) == 0 {
		return nil, nil, "parse: not a pattern"
	}
	var m *d2ir.Map
	out := hl.Guard(func() {
		m, _, err = d2ir.Compile(ast, nil)
	})
	if out != "ok" {
		return pattern, nil, out
	}
	if err != nil {
		return pattern, nil, "compile: " + err.Error()
	}
	for _, n := range names {
		r := "missing"
		for _, f := range m.Fields {
			if f.Name != nil && f.Name.ScalarString() == n {
				if f.Primary() != nil {
					r = "true"
				} else {
					r = "false"
				}
			}
		}
		res = append(res, r)
	}
	return pattern, res, ""
}

func hexList(p []string) []any {
	out := make([]any, len(p))
	for i, s := range p {
		out[i] = hl.Hx([]byte(s))
	}
	return out
}

func matchCase(name string, pattern []string, res string) map[string]any {
	return map[string]any{"k": "match", "in": map[string]any{"name": hl.Hx([]byte(name)), "pattern": hexList(pattern)},
		"out": map[string]any{"res": res}}
}

type mgen struct {
	c     *hl.Ctx
	r     *rand.Rand
	alpha []rune
	pchar []rune
}

func (g *mgen) word(chars []rune, n int) string {
	var b strings.Builder
	for i := 0; i < n; i++ {
		b.WriteRune(chars[g.r.Intn(len(chars))])
	}
	return b.String()
}

// a pattern and names related to it (so that matches, near-misses and non-matches all occur)
func (g *mgen) batch() (string, []string) {
	small := []rune("abcAB")
	var lits []string
	nl := 1 + g.r.Intn(3)
	for i := 0; i < nl; i++ {
		switch g.r.Intn(4) {
		case 0:
			lits = append(lits, g.word(g.pchar, 1+g.r.Intn(3)))
		case 1:
			lits = append(lits, string(special[g.r.Intn(7)]))
		default:
			lits = append(lits, g.word(small, 1+g.r.Intn(2)))
		}
	}
	form := g.r.Intn(6)
	var pat string
	switch form {
	case 0:
		pat = lits[0] + "*"
		g.c.Count("pattern:prefix")
	case 1:
		pat = "*" + lits[0]
		g.c.Count("pattern:suffix")
	case 2:
		pat = "*" + lits[0] + "*"
		g.c.Count("pattern:infix")
	case 3:
		pat = lits[0] + "*" + lits[len(lits)-1]
		g.c.Count("pattern:prefix-suffix")
	case 4:
		pat = strings.Join(lits, "*")
		if len(lits) == 1 {
			pat += "*"
		}
		g.c.Count("pattern:multi")
	default:
		pat = "*"
		g.c.Count("pattern:star")
	}
	pat = strings.TrimSpace(pat)
	// names: built from the literals with random case flips and fillers
	inAlpha := func(r rune) bool {
		for _, a := range g.alpha {
			if a == r {
				return true
			}
		}
		return false
	}
	flip := func(s string) string {
		var b strings.Builder
		for _, r := range s {
			r2 := r
			switch g.r.Intn(3) {
			case 0:
				r2 = unicode.ToUpper(r)
			case 1:
				r2 = unicode.ToLower(r)
			}
			if !inAlpha(r2) {
				r2 = r // stay inside the alphabet whose lower-case map the model tabulates
			}
			b.WriteRune(r2)
		}
		return b.String()
	}
	seen := map[string]bool{}
	var names []string
	add := func(n string) {
		n = strings.NewReplacer("\n", "", "\\", "", "\"", "").Replace(n)
		k := strings.ToLower(n)
		if n == "" || seen[k] || strings.TrimSpace(n) != n {
			return
		}
		seen[k] = true
		names = append(names, n)
	}
	for i := 0; i < 8; i++ {
		switch g.r.Intn(6) {
		case 0:
			add(flip(strings.Join(lits, g.word(small, g.r.Intn(3)))))
		case 1:
			add(flip(strings.Join(lits, "")) + g.word(small, 1+g.r.Intn(2)))
		case 2:
			add(g.word(small, 1+g.r.Intn(2)) + flip(strings.Join(lits, g.word(small, g.r.Intn(2)))))
		case 3:
			add(g.word(g.alpha, 1+g.r.Intn(4)))
		case 4:
			kws := []string{"shape", "Shape", "label", "style", "STYLE", "layers", "near", "Opacity", "vars", "classes"}
			add(kws[g.r.Intn(len(kws))])
		default:
			add(flip(lits[0]) + g.word(g.alpha, g.r.Intn(3)) + flip(lits[len(lits)-1]))
		}
	}
	return pat, names
}

func (g *mgen) emitBatch(pat string, names []string) {
	pattern, res, bad := observe(names, pat)
	if strings.HasPrefix(bad, "parse:") || strings.HasPrefix(bad, "compile:") {
		g.c.Count("match:skipped-" + strings.SplitN(bad, ":", 2)[0])
		return
	}
	if bad == "" {
		for i, n := range names {
			if res[i] == "missing" {
				continue // merged with a name that is equal under strings.EqualFold (µ/Μ, ς/σ, K/k …)
			}
			g.c.Count("match:" + res[i])
			g.c.Emit(matchCase(n, pattern, res[i]))
		}
		return
	}
	// a panic somewhere in the batch: one by one
	for _, n := range names {
		p1, r1, b1 := observe([]string{n}, pat)
		switch {
		case b1 == "" && r1[0] == "missing":
		case b1 == "":
			g.c.Count("match:" + r1[0])
			g.c.Emit(matchCase(n, p1, r1[0]))
		case strings.HasPrefix(b1, "panic"):
			g.c.Count("match:panic")
			g.c.Emit(matchCase(n, p1, b1))
		}
	}
}

// ---------------------------------------------------------------------------------------------------------------
// programs of the globs profile

type pgen struct {
	c      *hl.Ctx
	r      *rand.Rand
	triple bool // the program uses board-wide (***) globs and layers
}

var shapes = []string{"circle", "square", "oval", "diamond", "hexagon", "cloud"}
var colours = []string{"red", "blue", "green", "orange"}
var namePool = []string{"a", "ab", "abc", "b", "ba", "cab", "x1", "x2", "ax", "xa", "Bcd", "aXb"}
var fieldPats = []string{"*", "*", "a*", "a*", "*b*", "x*", "*x*", "b*", "**", "**", "ab*", "*a*", "*a", "a*c"}
var edgePats = []string{"*", "a*", "x*", "b*", "*", "*a*", "*b"}

func (g *pgen) pick(xs []string) string { return xs[g.r.Intn(len(xs))] }
func lit(s string) *sx.Scal            { return sx.Lit(0, s) }

func (g *pgen) attrStmt(prefix sx.Key) sx.Stmt {
	switch g.r.Intn(5) {
	case 0:
		return sx.F(append(append(sx.Key{}, prefix...), sx.U("shape")...), sx.VS(lit(g.pick(shapes))))
	case 1:
		return sx.F(append(append(sx.Key{}, prefix...), sx.U("style", "opacity")...), sx.VS(lit(g.pick([]string{"0.2", "0.5", "0.8"}))))
	case 2:
		return sx.F(append(append(sx.Key{}, prefix...), sx.U("style", "fill")...), sx.VS(lit(g.pick(colours))))
	case 3:
		return sx.F(append(sx.Key{}, prefix...), sx.VM([]sx.Stmt{
			sx.F(sx.U("shape"), sx.VS(lit(g.pick(shapes)))),
			sx.F(sx.U("style", "stroke"), sx.VS(lit(g.pick(colours))))}))
	default:
		return sx.F(append(append(sx.Key{}, prefix...), sx.U("style", "stroke-width")...), sx.VS(lit(fmt.Sprint(1+g.r.Intn(5)))))
	}
}

// body of one block; `have` = names already declared in this block (for explicit overrides and connections)
func (g *pgen) block(depth int) []sx.Stmt {
	var out []sx.Stmt
	var have []string
	declare := func(n string) {
		for _, h := range have {
			if strings.EqualFold(h, n) {
				return
			}
		}
		have = append(have, n)
	}
	fresh := func() string {
		for i := 0; i < 10; i++ {
			n := g.pick(namePool)
			dup := false
			for _, h := range have {
				if strings.EqualFold(h, n) {
					dup = true
				}
			}
			if !dup {
				return n
			}
		}
		return g.pick(namePool)
	}
	n := 3 + g.r.Intn(7)
	for i := 0; i < n; i++ {
		switch g.r.Intn(14) {
		case 0, 1:
			nm := fresh()
			declare(nm)
			out = append(out, sx.F(sx.U(nm), sx.Val{}))
			g.c.Count("stmt:object")
		case 2:
			nm := fresh()
			declare(nm)
			out = append(out, sx.F(sx.U(nm), sx.VS(lit("L "+nm))))
			g.c.Count("stmt:object-label")
		case 3:
			nm := fresh()
			declare(nm)
			out = append(out, g.attrStmt(sx.U(nm)))
			g.c.Count("stmt:object-attr")
		case 4:
			if depth < 2 {
				nm := fresh()
				declare(nm)
				out = append(out, sx.F(sx.U(nm), sx.VM(g.block(depth+1))))
				g.c.Count("stmt:container")
			}
		case 5, 6, 7:
			pat := g.pick(fieldPats)
			if g.triple && g.r.Intn(3) == 0 {
				pat = "***"
			}
			out = append(out, g.attrStmt(sx.U(pat)))
			g.c.Count("glob:field:" + pat)
		case 8:
			if len(have) > 0 {
				// later explicit override of (possibly) globbed attributes
				out = append(out, g.attrStmt(sx.U(g.pick(have))))
				g.c.Count("stmt:explicit-override")
			}
		case 9:
			a, b := fresh(), fresh()
			if !strings.EqualFold(a, b) {
				declare(a)
				declare(b)
				var v sx.Val
				if g.r.Intn(2) == 0 {
					v = sx.VS(lit("e"))
				}
				out = append(out, sx.E(sx.U(a), "->", sx.U(b), v))
				g.c.Count("stmt:connection")
			}
		case 10:
			// connection glob between patterns
			var v sx.Val
			if g.r.Intn(2) == 0 {
				v = sx.VS(lit("g"))
			}
			out = append(out, sx.E(sx.U(g.pick(edgePats)), "->", sx.U(g.pick(edgePats)), v))
			g.c.Count("glob:connection")
		case 11:
			if len(have) > 0 {
				// pattern to / from an existing object
				h := g.pick(have)
				if g.r.Intn(2) == 0 {
					out = append(out, sx.E(sx.U(g.pick(edgePats)), "->", sx.U(h), sx.Val{}))
				} else {
					out = append(out, sx.E(sx.U(h), "->", sx.U(g.pick(edgePats)), sx.Val{}))
				}
				g.c.Count("glob:connection-to-object")
			}
		case 12:
			out = append(out, sx.Stmt{T: "e", Src: sx.U(g.pick(edgePats)), Ar: "->", Dst: sx.U(g.pick(edgePats)), Ix: "*",
				EK: sx.U("style", "stroke"), V: sx.VS(lit(g.pick(colours)))})
			g.c.Count("glob:connection-index")
		default:
			if depth < 2 && len(have) > 0 {
				// glob below an existing container
				h := g.pick(have)
				out = append(out, g.attrStmt(append(sx.U(h), sx.U(g.pick(fieldPats[:8]))...)))
				g.c.Count("glob:nested-path")
			}
		}
	}
	return out
}

// one block, attribute globs only: the fragment of the operational model GlobSem
func (g *pgen) flatBlock() []sx.Stmt {
	var out []sx.Stmt
	var have []string
	attr := func(prefix string) sx.Stmt {
		switch g.r.Intn(3) {
		case 0:
			return sx.F(sx.U(prefix, "shape"), sx.VS(lit(g.pick(shapes))))
		case 1:
			return sx.F(sx.U(prefix, "style", "fill"), sx.VS(lit(g.pick(colours))))
		default:
			return sx.F(sx.U(prefix), sx.VS(lit("L"+fmt.Sprint(g.r.Intn(9)))))
		}
	}
	n := 4 + g.r.Intn(8)
	for i := 0; i < n; i++ {
		switch g.r.Intn(8) {
		case 0, 1:
			nm := g.pick(namePool)
			have = append(have, nm)
			out = append(out, sx.F(sx.U(nm), sx.Val{}))
		case 2:
			nm := g.pick(namePool)
			have = append(have, nm)
			out = append(out, attr(nm))
		case 3, 4, 5:
			out = append(out, attr(g.pick(fieldPats)))
			g.c.Count("flat:glob")
		case 6:
			if len(have) > 0 {
				out = append(out, attr(g.pick(have)))
			}
		default:
			if len(have) > 0 && g.r.Intn(4) == 0 {
				out = append(out, sx.F(sx.U(g.pick(have)), sx.VNull()))
				g.c.Count("flat:null")
			}
		}
	}
	return out
}

func observeProg(l *sx.Lean, in map[string]any) (map[string]any, error) {
	ans, err := l.Ask(in)
	if err != nil {
		return nil, err
	}
	if f, ok := ans["fail"]; ok {
		return nil, fmt.Errorf("lean xform: %v", f)
	}
	one := func(t string) map[string]any { return sx.Compile(map[string]string{"index.d2": t}, "index.d2") }
	p, _ := ans["p"].(string)
	out := map[string]any{"ptext": p, "gp": one(p)}
	if q, ok := ans["q"].(string); ok {
		out["qtext"] = q
		out["gq"] = one(q)
	} else {
		out["qerr"] = ans["qerr"]
	}
	return map[string]any{"k": "globdiff", "in": in, "out": out}, nil
}

func run(c *hl.Ctx) error {
	l, err := sx.StartLean("drv_c12")
	if err != nil {
		return err
	}
	defer l.Close()
	if cs := c.ReplayCase(); cs != nil {
		in := cs["in"].(map[string]any)
		switch cs["k"] {
		case "match":
			name := string(hl.Unhx(in["name"].(string)))
			var pat strings.Builder
			for _, p := range in["pattern"].([]any) {
				pat.Write(hl.Unhx(p.(string)))
			}
			p1, r1, b1 := observe([]string{name}, pat.String())
			res := b1
			if b1 == "" {
				res = r1[0]
			}
			c.Emit(matchCase(name, p1, res))
		default:
			r, err := observeProg(l, in)
			if err != nil {
				return err
			}
			c.Emit(r)
		}
		return nil
	}
	r := c.Rand()
	// tables
	var kws []string
	for k := range d2ast.ReservedKeywords {
		kws = append(kws, k)
	}
	sort.Strings(kws)
	c.Emit(map[string]any{"k": "keywords", "in": map[string]any{}, "out": map[string]any{"kw": kws}})
	alpha := alphabet()
	var rs, ls []int
	for _, a := range alpha {
		rs = append(rs, int(a))
		ls = append(ls, int(unicode.ToLower(a)))
	}
	c.Emit(map[string]any{"k": "lower", "in": map[string]any{"runes": rs}, "out": map[string]any{"lower": ls}})
	// matchPattern
	mg := &mgen{c: c, r: r, alpha: alpha}
	for _, a := range alpha {
		if patChar(a) {
			mg.pchar = append(mg.pchar, a)
		}
	}
	// corpus: the witnesses of DESIGN §7
	mg.emitBatch("a*b", []string{"abc", "abd", "ab", "aXb", "b"})
	mg.emitBatch("ⱥ*", []string{"Ⱥ", "ⱥx"})
	mg.emitBatch("*", []string{"shape", "x"})
	mg.emitBatch("*", []string{"Shape", "x"})
	nb := c.Pick(4000, 400000)
	for i := 0; i < nb; i++ {
		pat, names := mg.batch()
		mg.emitBatch(pat, names)
	}
	// programs
	pg := &pgen{c: c, r: r}
	np := c.Pick(1500, 100000)
	for i := 0; i < np; i++ {
		pg.triple = r.Intn(5) == 0
		body := pg.block(0)
		if pg.triple {
			// a block of layers somewhere in the root block; every layer is a block of its own
			var layers []sx.Stmt
			for li, nl := 0, 1+r.Intn(2); li < nl; li++ {
				layers = append(layers, sx.F(sx.U(fmt.Sprintf("l%d", li+1)), sx.VM(pg.block(1))))
			}
			pos := r.Intn(len(body) + 1)
			body = append(body[:pos], append([]sx.Stmt{sx.F(sx.U("layers"), sx.VM(layers))}, body[pos:]...)...)
			c.Count("feature:layers+triple-globs")
		} else if r.Intn(4) == 0 {
			body = pg.flatBlock()
			c.Count("fragment:one-block-attribute-globs")
		}
		res, err := observeProg(l, map[string]any{"body": sx.Body(body)})
		if err != nil {
			return err
		}
		c.Emit(res)
	}
	return nil
}
