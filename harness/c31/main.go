package main

// C31: themes and theme overrides are applied consistently.
//
// Renders real SVGs (d2lib.Compile with dagre + d2svg.Render) for every catalog theme as the light theme, with and
// without a dark theme, under random subsets of colour overrides (through RenderOpts and through `vars.d2-config` in the
// source), and reports what the SVG says: every stylesheet rule `.<hash> .<prop>-<code>{<prop>:<value>;}` of the light
// part and of the `@media (prefers-color-scheme:dark)` part, the `.md{--var:value}` blocks, the `.appendix` rule, and —
// from the parsed XML — for every element whose class list carries a theme class `<prop>-<code>`, the inline attribute
// `<prop>` (or its absence). A second stream asks every entry point whether it refuses a theme ID.

import (
	"bytes"
	"encoding/xml"
	"fmt"
	"math/rand"
	"regexp"
	"sort"
	"strings"

	"oss.terrastruct.com/d2/d2graph"
	"oss.terrastruct.com/d2/d2renderers/d2svg"
	"oss.terrastruct.com/d2/d2target"
	"oss.terrastruct.com/d2/d2themes/d2themescatalog"

	"d2v/harness/hl"
	"d2v/harness/outl"
)

func main() { hl.Main("C31", run) }

var codes = []string{"N1", "N2", "N3", "N4", "N5", "N6", "N7", "B1", "B2", "B3", "B4", "B5", "B6", "AA2", "AA4", "AA5", "AB4", "AB5"}

var overrideColors = []string{"#123456", "#abcdef", "#fff", "#000000", "red", "honeydew", "#FF00aa", "rebeccapurple", "#0a0b0c", "tomato", "#789"}

// fixed diagrams that together use every theme colour code (containers at several levels, all special shapes, text,
// code, markdown, tables, classes, sequence diagrams, explicit theme codes as user colours)
var fixed = []string{
	`a -> b: hello
b -> c
c: {d -> e: inner {style.animated: true}}
x: {shape: sql_table; id: int {constraint: primary_key}; name: varchar}
y: {shape: class; +f: int; -g(): bool}
t: |md # Title
text |
code: |go x := 1 |
`,
	`l1: {l2: {l3: {l4: {leaf}}}}
p: {shape: person}
q: {shape: cylinder; style.multiple: true}
r: {shape: hexagon; style.3d: true}
s: {style.fill: red; style.stroke: "#00ff00"; style.font-color: blue}
u: {shape: text; label: plain text}
p -> q: lab {source-arrowhead: 1; target-arrowhead: "*" {shape: diamond; style.filled: true}}
q -> r {style.stroke: orange; style.font-color: "#333"}
r -> l1.l2.l3.l4.leaf: deep
tt: {tooltip: tip; link: https://example.com}
`,
	`seq: {shape: sequence_diagram
  alice -> bob: hi
  bob -> alice: yo
  grp: {bob -> alice: again}
  alice.span -> bob.span: s
  bob: {note: a note}
}
g: {grid-rows: 2; a; b; c; d}
c1: {shape: cloud; c2: {shape: oval; c3: {shape: step}}}
`,
}

type obs struct {
	err      string
	hashOK   bool
	light    [][3]string
	dark     [][3]string
	hasDark  bool
	mdLight  [][2]string
	mdDark   [][2]string
	appLight string
	appDark  string
	inline   [][3]string // prop, code, value or "<absent>"
	nInline  int
}

var ruleRe = regexp.MustCompile(`\.([\w-]+) \.([a-z-]+?)-([A-Z]+[0-9]+)\{([a-z-]+):([^;{}]*);\}`)
var mdRe = regexp.MustCompile(`\.md\{([^}]*)\}`)
var appRe = regexp.MustCompile(`\.appendix text\.text\{fill:([^}]*)\}`)
var classRe = regexp.MustCompile(`^(fill|stroke|background-color|color)-([A-Z]+[0-9]+)$`)

const mediaOpen = "@media screen and (prefers-color-scheme:dark){"

func parseSheet(css string, hash string) (rules [][3]string, md [][2]string, app string, hashOK bool) {
	hashOK = true
	for _, m := range ruleRe.FindAllStringSubmatch(css, -1) {
		if m[1] != hash || m[2] != m[4] {
			hashOK = false
		}
		rules = append(rules, [3]string{m[2], m[3], m[5]})
	}
	if m := mdRe.FindStringSubmatch(css); m != nil {
		for _, kv := range strings.Split(m[1], ";") {
			if kv == "" {
				continue
			}
			i := strings.Index(kv, ":")
			if i < 0 {
				continue
			}
			md = append(md, [2]string{kv[:i], kv[i+1:]})
		}
	}
	if m := appRe.FindStringSubmatch(css); m != nil {
		app = m[1]
	}
	return
}

func observe(svg []byte) obs {
	var o obs
	dec := xml.NewDecoder(bytes.NewReader(svg))
	dec.Strict = false
	hash := ""
	inStyle := false
	var styles []string
	seen := map[[3]string]bool{}
	for {
		tok, err := dec.Token()
		if err != nil {
			break
		}
		switch t := tok.(type) {
		case xml.StartElement:
			if t.Name.Local == "style" {
				inStyle = true
			}
			attrs := map[string]string{}
			for _, a := range t.Attr {
				attrs[a.Name.Local] = a.Value
			}
			cls := attrs["class"]
			if t.Name.Local == "svg" && strings.Contains(cls, "d2-svg") && hash == "" {
				hash = strings.Fields(cls)[0]
			}
			for _, c := range strings.Fields(cls) {
				if m := classRe.FindStringSubmatch(c); m != nil {
					v, ok := attrs[m[1]]
					if !ok {
						v = "<absent>"
					}
					k := [3]string{m[1], m[2], v}
					o.nInline++
					if !seen[k] {
						seen[k] = true
						o.inline = append(o.inline, k)
					}
				}
			}
		case xml.EndElement:
			if t.Name.Local == "style" {
				inStyle = false
			}
		case xml.CharData:
			if inStyle {
				styles = append(styles, string(t))
			}
		}
	}
	sort.Slice(o.inline, func(i, j int) bool {
		a, b := o.inline[i], o.inline[j]
		return a[0]+"|"+a[1]+"|"+a[2] < b[0]+"|"+b[1]+"|"+b[2]
	})
	for _, s := range styles {
		if !strings.Contains(s, ".fill-N1{") {
			continue
		}
		light, dark := s, ""
		if i := strings.Index(s, mediaOpen); i >= 0 {
			light, dark = s[:i], s[i+len(mediaOpen):]
			o.hasDark = true
		}
		var ok1, ok2 bool
		o.light, o.mdLight, o.appLight, ok1 = parseSheet(light, hash)
		ok2 = true
		if o.hasDark {
			o.dark, o.mdDark, o.appDark, ok2 = parseSheet(dark, hash)
		}
		o.hashOK = ok1 && ok2 && hash != ""
		break
	}
	return o
}

func triples(x [][3]string) []any {
	out := make([]any, len(x))
	for i, t := range x {
		out[i] = []string{t[0], t[1], t[2]}
	}
	return out
}
func pairs(x [][2]string) []any {
	out := make([]any, len(x))
	for i, t := range x {
		out[i] = []string{t[0], t[1]}
	}
	return out
}

func mkOverrides(m map[string]string) *d2target.ThemeOverrides {
	if len(m) == 0 {
		return nil
	}
	o := &d2target.ThemeOverrides{}
	p := func(k string) *string {
		if v, ok := m[k]; ok {
			return &v
		}
		return nil
	}
	o.N1, o.N2, o.N3, o.N4, o.N5, o.N6, o.N7 = p("N1"), p("N2"), p("N3"), p("N4"), p("N5"), p("N6"), p("N7")
	o.B1, o.B2, o.B3, o.B4, o.B5, o.B6 = p("B1"), p("B2"), p("B3"), p("B4"), p("B5"), p("B6")
	o.AA2, o.AA4, o.AA5, o.AB4, o.AB5 = p("AA2"), p("AA4"), p("AA5"), p("AB4"), p("AB5")
	return o
}

func randOverrides(r *rand.Rand) map[string]string {
	m := map[string]string{}
	switch r.Intn(6) {
	case 0: // none
	case 1: // all
		for _, c := range codes {
			m[c] = overrideColors[r.Intn(len(overrideColors))]
		}
	case 2: // exactly one
		m[codes[r.Intn(len(codes))]] = overrideColors[r.Intn(len(overrideColors))]
	default:
		p := 10 + r.Intn(70)
		for _, c := range codes {
			if r.Intn(100) < p {
				m[c] = overrideColors[r.Intn(len(overrideColors))]
			}
		}
	}
	return m
}

type job struct {
	src     string
	theme   int64
	dark    *int64
	ov, dov map[string]string
	via     string // opts | config
	sketch  bool
}

func configBlock(j job) string {
	var sb strings.Builder
	sb.WriteString("vars: {\n  d2-config: {\n")
	fmt.Fprintf(&sb, "    theme-id: %d\n", j.theme)
	if j.dark != nil {
		fmt.Fprintf(&sb, "    dark-theme-id: %d\n", *j.dark)
	}
	wr := func(name string, m map[string]string) {
		if len(m) == 0 {
			return
		}
		sb.WriteString("    " + name + ": {\n")
		ks := make([]string, 0, len(m))
		for k := range m {
			ks = append(ks, k)
		}
		sort.Strings(ks)
		for _, k := range ks {
			fmt.Fprintf(&sb, "      %s: \"%s\"\n", k, m[k])
		}
		sb.WriteString("    }\n")
	}
	wr("theme-overrides", j.ov)
	wr("dark-theme-overrides", j.dov)
	sb.WriteString("  }\n}\n")
	return sb.String()
}

func runJob(w *outl.Worker, j job) map[string]any {
	ro := &d2svg.RenderOpts{}
	src := j.src
	if j.via == "config" {
		src = configBlock(j) + src
	} else {
		id := j.theme
		ro.ThemeID = &id
		ro.DarkThemeID = j.dark
		ro.ThemeOverrides = mkOverrides(j.ov)
		ro.DarkThemeOverrides = mkOverrides(j.dov)
	}
	if j.sketch {
		t := true
		ro.Sketch = &t
	}
	in := map[string]any{"theme": j.theme, "ov": j.ov, "dov": j.dov, "via": j.via, "src": j.src, "sketch": j.sketch}
	if j.dark != nil {
		in["dark"] = *j.dark
	}
	d, _, err := w.Compile(src, "dagre", ro)
	if err != nil {
		return map[string]any{"k": "render", "in": in, "out": map[string]any{"err": "compile: " + err.Error()}}
	}
	var svg []byte
	out := hl.Guard(func() { svg, err = d2svg.Render(d, ro) })
	if out != "ok" {
		return map[string]any{"k": "render", "in": in, "out": map[string]any{"err": out}}
	}
	if err != nil {
		return map[string]any{"k": "render", "in": in, "out": map[string]any{"err": "render: " + err.Error()}}
	}
	o := observe(svg)
	return map[string]any{"k": "render", "in": in, "out": map[string]any{
		"err": "", "hashOK": o.hashOK, "light": triples(o.light), "hasDark": o.hasDark, "dark": triples(o.dark),
		"mdLight": pairs(o.mdLight), "mdDark": pairs(o.mdDark), "appLight": o.appLight, "appDark": o.appDark,
		"inline": triples(o.inline), "nInline": o.nInline,
	}}
}

// ------------------------------------------------------------------------------------------------ rejection stream

func rejectCase(w *outl.Worker, id int64, via string) map[string]any {
	rejected := false
	detail := ""
	base := "a -> b\n"
	switch via {
	case "find": // the primitive every entry point uses
		rejected = d2themescatalog.Find(id).ID == 0 && d2themescatalog.Find(id).Name == ""
	case "graph": // d2graph.(*Graph).ApplyTheme, used by d2lib.compile for RenderOpts.ThemeID
		g := d2graph.NewGraph()
		err := g.ApplyTheme(id)
		rejected = err != nil
	case "lib": // d2lib.Compile with RenderOpts.ThemeID
		_, _, err := w.Compile(base, "dagre", &d2svg.RenderOpts{ThemeID: &id})
		rejected = err != nil
		if err != nil {
			detail = err.Error()
		}
	case "config": // vars.d2-config.theme-id
		_, _, err := w.Compile(fmt.Sprintf("vars: {d2-config: {theme-id: %d}}\n", id)+base, "dagre", nil)
		rejected = err != nil
		if err != nil {
			detail = err.Error()
		}
	case "dark-config": // vars.d2-config.dark-theme-id
		_, _, err := w.Compile(fmt.Sprintf("vars: {d2-config: {dark-theme-id: %d}}\n", id)+base, "dagre", nil)
		rejected = err != nil
		if err != nil {
			detail = err.Error()
		}
	case "render-dark": // d2svg.Render with RenderOpts.DarkThemeID (the library path has no earlier test)
		ro := &d2svg.RenderOpts{DarkThemeID: &id}
		d, _, err := w.Compile(base, "dagre", ro)
		if err == nil {
			out := hl.Guard(func() { _, err = d2svg.Render(d, ro) })
			if out != "ok" {
				err = fmt.Errorf("%s", out)
			}
		}
		rejected = err != nil
		if err != nil {
			detail = err.Error()
		}
	}
	if len(detail) > 120 {
		detail = detail[:120]
	}
	return map[string]any{"k": "reject", "in": map[string]any{"id": id, "via": via}, "out": map[string]any{"rejected": rejected, "detail": detail}}
}

func run(c *hl.Ctx) error {
	if cs := c.ReplayCase(); cs != nil {
		w := outl.NewWorker()
		in := cs["in"].(map[string]any)
		if cs["k"] == "reject" {
			c.Emit(rejectCase(w, int64(in["id"].(float64)), in["via"].(string)))
			return nil
		}
		j := job{src: in["src"].(string), theme: int64(in["theme"].(float64)), via: in["via"].(string), ov: map[string]string{}, dov: map[string]string{}}
		if d, ok := in["dark"]; ok {
			x := int64(d.(float64))
			j.dark = &x
		}
		if m, ok := in["ov"].(map[string]any); ok {
			for k, v := range m {
				j.ov[k] = v.(string)
			}
		}
		if m, ok := in["dov"].(map[string]any); ok {
			for k, v := range m {
				j.dov[k] = v.(string)
			}
		}
		if s, ok := in["sketch"].(bool); ok {
			j.sketch = s
		}
		c.Emit(runJob(w, j))
		return nil
	}
	r := c.Rand()
	var ids []int64
	for _, t := range d2themescatalog.LightCatalog {
		ids = append(ids, t.ID)
	}
	for _, t := range d2themescatalog.DarkCatalog {
		ids = append(ids, t.ID)
	}
	// diagrams: the fixed ones plus generated styled programs
	srcs := append([]string{}, fixed...)
	g := &outl.Gen{R: r, Special: true, StylesProb: 12}
	{
		// generated programs are kept only when they compile under the default theme without overrides, so that a
		// failure of a later job is attributable to the theme / override combination
		var cand []string
		nsrc := c.Pick(5, 60)
		if c.Search && c.Tier != "thorough" {
			nsrc = 10
		}
		for i := 0; i < nsrc; i++ {
			cand = append(cand, g.Program(3+r.Intn(8), 2+r.Intn(6)).Source(g))
		}
		okc := make([]bool, len(cand))
		outl.Par(len(cand), func(i int, w *outl.Worker) {
			d, _, err := w.Compile(cand[i], "dagre", nil)
			if err != nil {
				return
			}
			// must also render in sketch mode under the default theme (rough.js failures on some shapes are not this property's business)
			t := true
			out := hl.Guard(func() { _, err = d2svg.Render(d, &d2svg.RenderOpts{Sketch: &t}) })
			okc[i] = out == "ok" && err == nil
		})
		for i, s := range cand {
			if okc[i] {
				srcs = append(srcs, s)
				c.Count("generated-src:ok")
			} else {
				c.Count("generated-src:dropped")
			}
		}
	}
	var jobs []job
	perTheme := c.Pick(11, 160)
	if c.Search && c.Tier != "thorough" {
		perTheme = 40 // an obligation broke in the quick tier: a moderate search budget is enough to hit any colour code
	}
	for _, id := range ids {
		for k := 0; k < perTheme; k++ {
			j := job{src: srcs[r.Intn(len(srcs))], theme: id, ov: randOverrides(r), dov: map[string]string{}, via: "opts"}
			if k < len(fixed) {
				j.src = fixed[k] // every theme renders every fixed diagram at least once
			}
			switch r.Intn(5) {
			case 0, 1:
				d := ids[r.Intn(len(ids))] // any catalog theme may be requested as the dark theme
				j.dark = &d
				j.dov = randOverrides(r)
			case 2:
				d := d2themescatalog.DarkCatalog[r.Intn(len(d2themescatalog.DarkCatalog))].ID
				j.dark = &d
				j.dov = randOverrides(r)
			}
			if r.Intn(4) == 0 {
				j.via = "config"
			}
			if r.Intn(25) == 0 {
				j.sketch = true
			}
			jobs = append(jobs, j)
			c.Count("via:" + j.via)
			if j.dark != nil {
				c.Count("dark:yes")
			} else {
				c.Count("dark:no")
			}
			c.Count(fmt.Sprintf("overrides:%d", (len(j.ov)+5)/6*6))
		}
	}
	res := make([]map[string]any, len(jobs))
	outl.Par(len(jobs), func(i int, w *outl.Worker) { res[i] = runJob(w, jobs[i]) })
	for _, x := range res {
		c.Emit(x)
	}
	// rejection stream
	w := outl.NewWorker()
	cand := append([]int64{}, ids...)
	for _, x := range []int64{-1, 9, 10, 99, 106, 199, 202, 299, 304, 400, 1 << 40, -300} {
		cand = append(cand, x)
	}
	for i := 0; i < c.Pick(40, 600); i++ {
		cand = append(cand, int64(r.Intn(420))-10)
	}
	for _, id := range cand {
		for _, via := range []string{"find", "graph", "lib", "config", "dark-config", "render-dark"} {
			if (via == "lib" || via == "render-dark") && r.Intn(3) != 0 && id > 8 {
				continue // the layout-running paths are sampled
			}
			c.Emit(rejectCase(w, id, via))
			c.Count("reject:" + via)
		}
	}
	return nil
}
