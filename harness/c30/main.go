package main

import (
	"bytes"
	"fmt"
	"html"
	"math/rand"
	"os"
	"runtime"
	"strings"
	"sync"
	"unicode/utf8"

	"d2v/harness/hl"
	"d2v/harness/svgr"

	"oss.terrastruct.com/d2/lib/color"
	"oss.terrastruct.com/d2/lib/svg"
)

// C30: real SVG bytes of generated diagrams \u00d7 render options (Spec-on-impl: Xml.wf + canary scan in the Lean driver),
// plus tie K for the escape functions and the gradient emitter (model vs lib/svg.EscapeText, html.EscapeString,
// lib/color.ParseGradient/GradientToSVG).
func main() { hl.Main("C30", run) }

type canary struct {
	Tok   string `json:"tok"`
	Field string `json:"field"`
	S     string `json:"s"` // the user string itself (the driver looks for it verbatim = unescaped)
}

// canarySrc builds user strings that carry a unique token wrapped in markup-breaking payloads.
type canarySrc struct {
	r    *rand.Rand
	n    int
	cans []canary
}

var soup = []string{"<", ">", "&", "\"", "'", "&amp;", "&lt;", "&#60;", "]]>", "<!--", "-->", "<?", "?>", "<![CDATA[", "\t", " ", "\\", "/", "=",
	"\u0001", "\u0008", "\u000b", "\u001f", "\u007f", "\u0085", "\u2028", "\ufffe", "\uffff", "\ufffd", "é", "日本", "😀", "\U0010ffff", "a", "Z", "0", "-", ".", ";", "#", "%", "{", "}", "$", "`"}

func (c *canarySrc) Str(field string) (ret string) {
	if field == "mark" {
		return ""
	}
	// the appendix treats single-line entries of more than 120 characters specially: some long tooltips / links
	if (field == "tooltip" || field == "link") && c.r.Intn(4) == 0 {
		defer func() {
			if !strings.Contains(ret, "\n") {
				ret = strings.Repeat("lorem ipsum ", 11) + ret
			}
		}()
	}
	c.n++
	tok := fmt.Sprintf("zq%dk", c.n)
	if field != "md" && field != "code" && field != "tooltip-md" { // markup by design: well-formedness only
		c.cans = append(c.cans, canary{tok, field, ""})
		defer func(i int) { c.cans[i].S = ret }(len(c.cans) - 1)
	}
	var b strings.Builder
	if field == "md" {
		// markdown is validated at compile time (must be well-formed as XML): mostly-valid markdown with inline HTML
		parts := []string{"# " + tok, "*em* **strong** `code<" + tok + ">`", "1 < 2 & 3 > 2 \"q\" 'a'", "<b>" + tok + "</b>", "- item\n- item2", "[l](http://x/?a=1&b=2)",
			"```\n<" + tok + ">\n```", "&amp; &lt; &#39;", "---", "> quote", "<span class=\"" + tok + "\">x</span>", "![i](http://x/i.png)", "line  \nbreak", "| a | b |", "\u00e9\U0001F600"}
		for i, n := 0, 1+c.r.Intn(4); i < n; i++ {
			b.WriteString(parts[c.r.Intn(len(parts))])
			b.WriteString("\n\n")
		}
		return b.String()
	}
	if field == "theme-override" && c.r.Intn(3) != 0 {
		// theme overrides are validated as colours at compile time: mostly valid values
		return []string{"#abcdef", "red", "#FFF", "honeydew"}[c.r.Intn(4)]
	}
	if (field == "tooltip" || field == "tooltip-md") && c.r.Intn(5) != 0 {
		// tooltips are validated as markdown (must render to well-formed XML): mostly payloads without tags
		safe := []string{"&", "\"", "'", "&amp;", "&#60;", "\t", " ", "=", "\u00e9", "\u65e5", "\U0001F600", "a", "-", ";", "#", "%", "{", "$", "`", "*", "_", "[x](y)", "\n"}
		for i, n := 0, c.r.Intn(4); i < n; i++ {
			b.WriteString(safe[c.r.Intn(len(safe))])
		}
		b.WriteString([]string{tok, "\" " + tok + "=\"1", "' " + tok + "='1", "&" + tok + ";", "**" + tok + "**", "`" + tok + "`", "]]>" + tok,
			"1 < 2 > 0 & " + tok, "<" + tok + ">x</" + tok + ">", "<b>" + tok + "</b> & <i a=\"" + tok + "\">y</i>"}[c.r.Intn(10)])
		for i, n := 0, c.r.Intn(3); i < n; i++ {
			b.WriteString(safe[c.r.Intn(len(safe))])
		}
		return b.String()
	}
	pre := c.r.Intn(3)
	for i := 0; i < pre; i++ {
		b.WriteString(soup[c.r.Intn(len(soup))])
	}
	switch c.r.Intn(12) {
	case 0:
		b.WriteString("<" + tok + ">")
	case 1:
		b.WriteString("\"><" + tok + " a=\"1\">")
	case 2:
		b.WriteString("\" " + tok + "=\"1")
	case 3:
		b.WriteString("' " + tok + "='1")
	case 4:
		b.WriteString("&" + tok + ";")
	case 5:
		b.WriteString("]]><" + tok + "/>")
	case 6:
		b.WriteString("</text></g><" + tok + ">")
	case 7:
		b.WriteString("'/><" + tok + " x='")
	case 8:
		b.WriteString("<!--" + tok + "-->")
	case 9:
		b.WriteString(tok + "\n" + "<" + tok + "/>")
	default:
		b.WriteString(tok)
	}
	post := c.r.Intn(3)
	for i := 0; i < post; i++ {
		b.WriteString(soup[c.r.Intn(len(soup))])
	}
	return b.String()
}

type job struct {
	script string
	opts   svgr.Opts
	cans   []canary
	rich   bool
	res    svgr.Result
}

func (j *job) lines() []map[string]any {
	in := map[string]any{"script": j.script, "opts": j.opts.JSON(), "canaries": j.cans, "rich": j.rich}
	if j.res.Stage != "ok" {
		return []map[string]any{{"k": "norender", "triv": true, "in": in, "out": map[string]any{"stage": j.res.Stage, "err": j.res.Err}}}
	}
	var out []map[string]any
	for i, doc := range j.res.SVGs {
		in2 := map[string]any{}
		for k, v := range in {
			in2[k] = v
		}
		in2["doc"] = i
		o := map[string]any{"stage": "ok", "len": len(doc)}
		if utf8.Valid(doc) {
			o["svg"] = string(doc)
		} else {
			o["svghex"] = hl.Hx(doc)
		}
		out = append(out, map[string]any{"k": "svg", "in": in2, "out": o})
	}
	return out
}

func runJobs(c *hl.Ctx, jobs []*job) {
	var wg sync.WaitGroup
	ch := make(chan *job)
	for w := 0; w < runtime.NumCPU(); w++ {
		wg.Add(1)
		go func() {
			defer wg.Done()
			for j := range ch {
				j.res = svgr.Render(j.script, j.opts)
			}
		}()
	}
	for _, j := range jobs {
		ch <- j
	}
	close(ch)
	wg.Wait()
	for _, j := range jobs {
		c.Count("stage:" + j.res.Stage)
		if j.res.Stage == "compile" {
			if os.Getenv("SVG_DEBUG") != "" {
				fmt.Fprintf(os.Stderr, "COMPILE-ERR %s\n", j.res.Err)
				if os.Getenv("SVG_DEBUG") == "2" {
					fmt.Fprintf(os.Stderr, "SCRIPT<<\n%s>>\n", j.script)
				}
			}
			continue // not a diagram that compiles: outside the property's quantifier
		}
		for _, l := range j.lines() {
			c.Emit(l)
		}
		j.res = svgr.Result{}
	}
}

func codepoints(s string) []int {
	out := []int{}
	for _, r := range s {
		out = append(out, int(r))
	}
	return out
}

func escCase(s string) map[string]any {
	return map[string]any{"k": "esc", "in": map[string]any{"s": codepoints(s)},
		"out": map[string]any{"xml": codepoints(svg.EscapeText(s)), "html": codepoints(html.EscapeString(s))}}
}

func gradCase(css string) map[string]any {
	out := map[string]any{}
	g, err := color.ParseGradient(css)
	if err != nil {
		out["err"] = true
	} else {
		out["type"] = g.Type
		out["dir"] = codepoints(g.Direction)
		stops := [][]any{}
		for _, s := range g.ColorStops {
			stops = append(stops, []any{codepoints(s.Color), codepoints(s.Position)})
		}
		out["stops"] = stops
		out["svg"] = codepoints(color.GradientToSVG(g))
		out["id"] = g.ID
	}
	out["valid"] = color.ValidColor(css)
	out["isgrad"] = color.IsGradient(css)
	return map[string]any{"k": "grad", "in": map[string]any{"css": codepoints(css)}, "out": out}
}

func randString(r *rand.Rand, n int) string {
	var b bytes.Buffer
	for i := 0; i < n; i++ {
		switch r.Intn(4) {
		case 0:
			b.WriteString(soup[r.Intn(len(soup))])
		case 1:
			b.WriteRune(rune(r.Intn(0x80)))
		case 2:
			x := rune(r.Intn(0x11000))
			if x >= 0xd800 && x < 0xe000 {
				x = 0xfffd
			}
			b.WriteRune(x)
		default:
			b.WriteByte(byte('a' + r.Intn(26)))
		}
	}
	return b.String()
}

func randGradient(r *rand.Rand) string {
	pieces := []string{"linear-gradient(", "radial-gradient(", ")", "(", ",", " ", "red", "blue", "#fff", "rgb(1,2,3)", "0%", "50%", "to right", "to top left",
		"45deg", "circle", "ellipse", "\t", "\n", "\"", "<", ">", "'", "&", "x", "1e3deg", "NaNdeg", "to", "deg", "\u00a0", "\u0085", "  "}
	switch r.Intn(3) {
	case 0: // well-formed
		kind := []string{"linear", "radial"}[r.Intn(2)]
		var parts []string
		if r.Intn(2) == 0 {
			parts = append(parts, []string{"to right", "to left top", "90deg", "circle", "ellipse", "to  bottom", " to up", "12.5deg"}[r.Intn(8)])
		}
		for i, n := 0, r.Intn(5); i < n; i++ {
			p := []string{"red", "#abc", "rgb(1, 2, 3)", "hsl(1,2%,3%)", "transparent", "blue"}[r.Intn(6)]
			switch r.Intn(3) {
			case 0:
				p += " " + fmt.Sprintf("%d%%", r.Intn(120))
			case 1:
				p += " " + strings.Join(strings.Fields(randString(r, 1+r.Intn(3))), "")
			}
			if r.Intn(6) == 0 {
				p += " extra"
			}
			parts = append(parts, p)
		}
		s := kind + "-gradient(" + strings.Join(parts, []string{",", ", ", " , "}[r.Intn(3)]) + ")"
		if r.Intn(8) == 0 {
			s = " " + s + "\t"
		}
		return s
	case 1:
		var b strings.Builder
		b.WriteString(pieces[r.Intn(2)])
		for i, n := 0, r.Intn(9); i < n; i++ {
			b.WriteString(pieces[r.Intn(len(pieces))])
		}
		if r.Intn(4) != 0 {
			b.WriteString(")")
		}
		return b.String()
	default:
		var b strings.Builder
		for i, n := 0, r.Intn(9); i < n; i++ {
			b.WriteString(pieces[r.Intn(len(pieces))])
		}
		return b.String()
	}
}

var longLine = strings.Repeat("lorem ipsum ", 11)

var corpus = []struct {
	name, script string
}{
	{"appendix-long-tooltip", "x: {tooltip: \"" + longLine + "1 < 2 & 3 > 2\"}\ny: {link: \"" + longLine + "<b>&\"}\n"},
	{"class-attr", "x: {class: 'c\" onload=\"alert(1)'}\n"},
	{"gradient-stop", "y: {style.fill: 'linear-gradient(red 0\"><script>alert(1)</script><stop, blue)'}\n"},
	{"clip-path-id", "\"a.b\": {\n  shape: sql_table\n  style.border-radius: 5\n  id: int\n}\n"},
	{"constraint", "t: {\n  shape: sql_table\n  id: int {constraint: 'a<b'}\n}\n"},
	{"plain", "a -> b: hi\n"},
}

func run(c *hl.Ctx) error {
	if cs := c.ReplayCase(); cs != nil {
		in := cs["in"].(map[string]any)
		switch cs["k"] {
		case "esc":
			c.Emit(escCase(cpString(in["s"])))
		case "grad":
			c.Emit(gradCase(cpString(in["css"])))
		default:
			j := &job{script: in["script"].(string), opts: svgr.OptsFromJSON(in["opts"].(map[string]any))}
			if cl, ok := in["canaries"].([]any); ok {
				for _, x := range cl {
					m := x.(map[string]any)
					sv, _ := m["s"].(string)
					j.cans = append(j.cans, canary{m["tok"].(string), m["field"].(string), sv})
				}
			}
			j.rich, _ = in["rich"].(bool)
			j.res = svgr.Render(j.script, j.opts)
			want := -1
			if d, ok := in["doc"].(float64); ok {
				want = int(d)
			}
			for i, l := range j.lines() {
				if want < 0 || i == want || l["k"] != "svg" {
					c.Emit(l)
				}
			}
		}
		return nil
	}
	r := c.Rand()
	// tie K: escape functions and gradient emitter
	for _, s := range []string{"", "<", ">", "&", "\"", "'", "\t", "\n", "\r", "\x00", "\x01", "\ufffd", "\ufffe", "\uffff", "\ud7ff", "\ue000", "\U00010000", "\U0010ffff", "a<b>c&d\"e'f"} {
		c.Emit(escCase(s))
		c.Count("esc:corpus")
	}
	for i, n := 0, pickSmall(c); i < n; i++ {
		c.Emit(escCase(randString(r, r.Intn(12))))
		c.Count("esc:random")
	}
	for _, s := range []string{"linear-gradient(red, blue)", "linear-gradient(red 0\"><script>alert(1)</script><stop, blue)", "radial-gradient(circle, red 10%, blue)",
		"linear-gradient(to top left, #fff, #000 50%, red)", "linear-gradient(45deg, red)", "linear-gradient()", "linear-gradient(red)", "radial-gradient(red a b, blue)",
		"linear-gradient(to right)", "radial-gradient(ellipse)", "linear-gradient(rgb(1,2,3) 5%, hsl(1, 2%, 3%))", "linear-gradient(a,b,c,d,e,f,g)"} {
		c.Emit(gradCase(s))
		c.Count("grad:corpus")
	}
	for i, n := 0, pickSmall(c); i < n; i++ {
		c.Emit(gradCase(randGradient(r)))
		c.Count("grad:random")
	}
	// Spec-on-impl: the corpus of witnessed defects first, then generated diagrams \u00d7 option combinations
	var jobs []*job
	for _, cs := range corpus {
		jobs = append(jobs, &job{script: cs.script, opts: svgr.Opts{Dark: -1, Pad: -1}})
		jobs = append(jobs, &job{script: cs.script, opts: svgr.Opts{Dark: -1, Pad: -1, Appendix: true}})
		c.Count("svg:corpus")
	}
	runJobs(c, jobs)
	total := c.Pick(400, 6000)
	if c.Search && c.Tier != "thorough" {
		total = 1500 // an obligation broke: a moderate search budget, not the thorough tier
	}
	feats := svgr.Features{}
	for done := 0; done < total; {
		jobs = jobs[:0]
		for k := 0; k < 256 && done < total; k, done = k+1, done+1 {
			src := &canarySrc{r: r}
			g := &svgr.G{R: r, S: src, F: feats, Rich: r.Intn(4) == 0}
			boards := 0
			if r.Intn(5) == 0 {
				boards = 1 + r.Intn(3)
			}
			script := g.Script(boards)
			o := svgr.RandOpts(r, boards)
			jobs = append(jobs, &job{script: script, opts: o, cans: src.cans, rich: g.Rich})
			if o.Sketch {
				c.Count("opt:sketch")
			}
			if o.Dark >= 0 {
				c.Count("opt:dark")
			}
			if o.Appendix {
				c.Count("opt:appendix")
			}
			if o.Animate > 0 {
				c.Count("opt:animate")
			}
			if o.Multi {
				c.Count("opt:multi")
			}
			if o.Scale > 0 {
				c.Count("opt:scale")
			}
			if o.Center {
				c.Count("opt:center")
			}
			if o.Pad >= 0 {
				c.Count("opt:pad")
			}
			if g.Rich {
				c.Count("opt:rich-labels")
			}
		}
		runJobs(c, jobs)
	}
	for k, v := range feats {
		for i := 0; i < v; i++ {
			c.Count("feat:" + k)
		}
	}
	return nil
}

func cpString(v any) string {
	var b strings.Builder
	if a, ok := v.([]any); ok {
		for _, x := range a {
			b.WriteRune(rune(int(x.(float64))))
		}
	}
	return b.String()
}

func pickSmall(c *hl.Ctx) int {
	if c.Tier == "thorough" {
		return 100000
	}
	return 2000
}
