// scratch tool of agent `out`: generator statistics (compile errors of generated programs) and timing
package main

import (
	"fmt"
	"math/rand"
	"os"
	"sort"
	"strconv"
	"time"

	"d2v/harness/outl"
)

func main() {
	n, _ := strconv.Atoi(os.Args[1])
	seed, _ := strconv.Atoi(os.Args[2])
	r := rand.New(rand.NewSource(int64(seed)))
	g := &outl.Gen{R: r, Special: true, StylesProb: 12, NonASCII: true, MultiLine: true}
	srcs := make([]string, n)
	for i := range srcs {
		srcs[i] = g.Program(3+r.Intn(8), 2+r.Intn(6)).Source(g)
	}
	errs := make([]string, n)
	t0 := time.Now()
	outl.Par(n, func(i int, w *outl.Worker) {
		_, _, err := w.Compile(srcs[i], "dagre", nil)
		if err != nil {
			errs[i] = err.Error()
		}
	})
	fmt.Println("elapsed", time.Since(t0))
	cnt := map[string]int{}
	ex := map[string]string{}
	for i, e := range errs {
		if len(e) > 110 {
			e = e[:110]
		}
		// strip position
		for len(e) > 0 && (e[0] >= '0' && e[0] <= '9' || e[0] == ':' || e[0] == ' ') {
			e = e[1:]
		}
		cnt[e]++
		ex[e] = srcs[i]
	}
	var ks []string
	for k := range cnt {
		ks = append(ks, k)
	}
	sort.Slice(ks, func(i, j int) bool { return cnt[ks[i]] > cnt[ks[j]] })
	for _, k := range ks {
		fmt.Println(cnt[k], k)
	}
	if len(os.Args) > 3 {
		for _, k := range ks {
			if k != "" {
				fmt.Println("=====", k)
				fmt.Println(ex[k])
			}
		}
	}
}
