package main

import (
	"fmt"
	"math/rand"
	"path"
	"regexp"
	"strings"

	"d2v/harness/hl"
	sx "d2v/harness/semx"
)

// C14: imports behave like inlining; import cycles are always reported.
//
// A case is a file set (1–4 files, first = entry) in the small AST.  The Lean driver renders the files and the
// single-file twin `inline prog` (a Lean function); the real compiler compiles the file set through an
// in-memory fs.FS and the twin on its own; the driver compares canonical graphs, and the model of
// pushImportStack predicts the cyclic chains and missing paths that the real compiler must report.
func main() { hl.Main("C14", run) }

type gen struct {
	c    *hl.Ctx
	r    *rand.Rand
	n     int
	nglob int
	flat  bool // flat fragment: objects with label/shape/fill, deletions, imports only at the top of files
}

var shapes = []string{"circle", "square", "oval", "diamond", "hexagon", "cloud"}
var colours = []string{"red", "blue", "green", "orange"}

func (g *gen) pick(xs []string) string { return xs[g.r.Intn(len(xs))] }

func lit(s string) *sx.Scal { return sx.Lit(0, s) }

// relative spelling of target as seen from the directory of `from`, with random decoration
func (g *gen) spell(from, target string) string {
	fd := path.Dir(from)
	var fs []string
	if fd != "." {
		fs = strings.Split(fd, "/")
	}
	ts := strings.Split(target, "/")
	common := 0
	for common < len(fs) && common < len(ts)-1 && fs[common] == ts[common] {
		common++
	}
	rel := strings.Repeat("../", len(fs)-common) + strings.Join(ts[common:], "/")
	// with / without the extension
	if g.r.Intn(2) == 0 {
		rel = strings.TrimSuffix(rel, ".d2")
		g.c.Count("path:no-ext")
	} else {
		g.c.Count("path:with-ext")
	}
	switch g.r.Intn(6) {
	case 0:
		if !strings.HasPrefix(rel, "../") {
			rel = "./" + rel
			g.c.Count("path:dot-slash")
		}
	case 1:
		// detour through the own directory: <dir>/../<dir>/…  (only when from is in a directory)
		if len(fs) > 0 && !strings.HasPrefix(rel, "../") {
			rel = "../" + fs[len(fs)-1] + "/" + rel
			g.c.Count("path:detour")
		}
	}
	if strings.HasPrefix(rel, "../") {
		g.c.Count("path:dot-dot")
	}
	return rel
}

func (g *gen) fresh(p string) string {
	g.n++
	return fmt.Sprintf("%s%d", p, g.n)
}

// plain content: objects, attributes, containers, connections; `shared` names recur across files
func (g *gen) content(depth int, names *[]string) []sx.Stmt {
	var out []sx.Stmt
	shared := []string{"a", "b", "c"}
	n := 1 + g.r.Intn(4)
	if g.flat {
		for i := 0; i < n+2; i++ {
			name := g.pick(shared)
			if g.r.Intn(3) == 0 {
				name = g.fresh("n")
			}
			switch g.r.Intn(5) {
			case 0:
				out = append(out, sx.F(sx.U(name), sx.Val{}))
			case 1:
				out = append(out, sx.F(sx.U(name), sx.VS(lit("L"+fmt.Sprint(g.r.Intn(9))))))
			case 2:
				out = append(out, sx.F(sx.U(name, "shape"), sx.VS(lit(g.pick(shapes)))))
			case 3:
				out = append(out, sx.F(sx.U(name, "style", "fill"), sx.VS(lit(g.pick(colours)))))
			default:
				if g.r.Intn(2) == 0 {
					out = append(out, sx.F(sx.U(name), sx.VNull()))
					g.c.Count("flat:null")
				} else {
					out = append(out, sx.F(sx.U(name), sx.Val{}))
				}
			}
		}
		return out
	}
	for i := 0; i < n; i++ {
		var name string
		if g.r.Intn(3) == 0 {
			name = g.pick(shared)
		} else {
			name = g.fresh("n")
		}
		*names = append(*names, name)
		switch g.r.Intn(7) {
		case 0:
			out = append(out, sx.F(sx.U(name), sx.Val{}))
		case 1:
			out = append(out, sx.F(sx.U(name), sx.VS(lit("L "+name))))
		case 2:
			out = append(out, sx.F(sx.U(name, "shape"), sx.VS(lit(g.pick(shapes)))))
		case 3:
			out = append(out, sx.F(sx.U(name, "style", "fill"), sx.VS(lit(g.pick(colours)))))
		case 4:
			body := []sx.Stmt{sx.F(sx.U("shape"), sx.VS(lit(g.pick(shapes))))}
			if depth < 2 {
				var inner []string
				body = append(body, g.content(depth+1, &inner)...)
			}
			out = append(out, sx.FP(sx.U(name), lit("P "+name), body))
		case 5:
			if len(*names) > 1 && g.r.Intn(3) == 0 {
				// parallel connections between the same endpoints, then indexed references to them
				other := (*names)[g.r.Intn(len(*names))]
				ar := g.pick([]string{"->", "--", "<-"})
				k := 2 + g.r.Intn(2)
				for e := 0; e < k; e++ {
					out = append(out, sx.E(sx.U(name), ar, sx.U(other), sx.VS(lit(fmt.Sprintf("p%d %s", e, name)))))
				}
				out = append(out, sx.Stmt{T: "e", Src: sx.U(name), Ar: ar, Dst: sx.U(other), Ix: fmt.Sprint(g.r.Intn(k)),
					EK: sx.U("style", "stroke"), V: sx.VS(lit(g.pick(colours)))})
				if g.r.Intn(2) == 0 {
					out = append(out, sx.Stmt{T: "e", Src: sx.U(name), Ar: ar, Dst: sx.U(other), Ix: "*",
						EK: sx.U("style", "opacity"), V: sx.VS(lit("0.7"))})
				}
				g.c.Count("content:parallel-connections")
			} else if len(*names) > 1 {
				other := (*names)[g.r.Intn(len(*names))]
				var v sx.Val
				if g.r.Intn(2) == 0 {
					v = sx.VS(lit("e " + name))
				}
				out = append(out, sx.E(sx.U(name), g.pick([]string{"->", "--", "<-", "<->"}), sx.U(other), v))
			} else {
				out = append(out, sx.F(sx.U(name), sx.Val{}))
			}
		default:
			if g.r.Intn(2) == 0 {
				out = append(out, sx.F(sx.U(name, "icon"), sx.VS(lit(g.pick([]string{"./i.png", "../up/i.png", "img/i.png",
					"https://e.com/i.png", "/abs/i.png", "i.svg"})))))
				g.c.Count("content:icon")
			} else {
				out = append(out, sx.F(sx.U(name, "style", "opacity"), sx.VS(lit(g.pick([]string{"0.2", "0.5", "1"})))))
			}
		}
	}
	return out
}

type plan struct {
	names   []string // file names, [0] = entry
	imports [][]int  // imports[i] = indices of files imported by file i
	glob    []bool   // file i declares a * glob: it is only imported into otherwise empty maps
	exp     []bool   // file i declares `exp<i>: E {…; inner: I}` exactly once, importable by key (only files without globs)
	triple  []bool   // file i declares a *** glob
}

var fileNames = [][]string{
	{"index.d2", "x.d2", "y.d2", "z.d2"},
	{"index.d2", "x.d2", "sub/y.d2", "sub/deep/z.d2"},
	{"main/index.d2", "main/x.d2", "lib/y.d2", "z.d2"},
	{"index.d2", "sub/x.d2", "sub/y.d2", "other/z.d2"},
}

func (g *gen) plan(cyclic bool) plan {
	layout := fileNames[g.r.Intn(len(fileNames))]
	k := 1 + g.r.Intn(4)
	p := plan{names: layout[:k], imports: make([][]int, k), glob: make([]bool, k), exp: make([]bool, k), triple: make([]bool, k)}
	for i := 1; i < k; i++ {
		if !g.flat {
			p.glob[i] = g.r.Intn(5) == 0
			p.triple[i] = g.r.Intn(6) == 0
			p.exp[i] = g.r.Intn(2) == 0
		}
	}
	// key imports select a declaration textually: keep them to file sets without globs (a glob of any file of the
	// chain may restyle the selected object)
	for i := 1; i < k; i++ {
		if p.glob[i] || p.triple[i] {
			for j := range p.exp {
				p.exp[j] = false
			}
		}
	}
	// forward (acyclic) imports
	for i := 0; i < k; i++ {
		for j := i + 1; j < k; j++ {
			if g.r.Intn(2) == 0 || j == i+1 {
				p.imports[i] = append(p.imports[i], j)
			}
		}
	}
	if cyclic {
		// one back edge: from file `from` to a file `to` <= from that reaches `from` along the i -> i+1 spine
		from := g.r.Intn(k)
		to := g.r.Intn(from + 1)
		p.imports[from] = append(p.imports[from], to)
		g.c.Count(fmt.Sprintf("cycle:length-%d", from-to+1))
	}
	return p
}

func (g *gen) fileBody(p plan, i int, missing bool) []sx.Stmt {
	var names []string
	body := g.content(0, &names)
	me := p.names[i]
	if p.exp[i] {
		body = append(body, sx.FP(sx.U(fmt.Sprintf("exp%d", i)), lit("E"+fmt.Sprint(i)), []sx.Stmt{
			sx.F(sx.U("shape"), sx.VS(lit(g.pick(shapes)))),
			sx.FP(sx.U("inner"), lit("I"+fmt.Sprint(i)), []sx.Stmt{sx.F(sx.U("style", "fill"), sx.VS(lit(g.pick(colours))))}),
		}))
	}
	// globs of different files set different attributes: which of two globs wins on one attribute is C12's subject
	starAttr := [][2]string{{"stroke-width", "3"}, {"border-radius", "4"}, {"font-size", "20"}, {"stroke-width", "5"}}[i%4]
	tripleAttr := [][2]string{{"stroke-dash", "2"}, {"shadow", "true"}, {"bold", "true"}, {"italic", "true"}}[i%4]
	if p.glob[i] {
		pos := g.r.Intn(len(body) + 1)
		gl := sx.F(sx.U(g.pick([]string{"*", "n*", "**"}), "style", starAttr[0]), sx.VS(lit(starAttr[1])))
		body = append(body[:pos], append([]sx.Stmt{gl}, body[pos:]...)...)
		g.c.Count("content:glob-in-imported-file")
	}
	if p.triple[i] {
		body = append([]sx.Stmt{sx.F(sx.U("***", "style", tripleAttr[0]), sx.VS(lit(tripleAttr[1])))}, body...)
		g.c.Count("content:triple-glob-in-imported-file")
	}
	topUsed := false
	for _, j := range p.imports[i] {
		sp := g.spell(me, p.names[j])
		form := g.r.Intn(4)
		if g.flat {
			if topUsed {
				continue // one import per file, at the top
			}
			form = 0
		}
		if form == 0 && (topUsed || p.glob[j]) {
			form = 1 + g.r.Intn(3) // only one import can be "at the top of the file"; a file with * globs goes into an empty map
		}
		if p.exp[j] && g.r.Intn(3) == 0 {
			// import by key: the field `exp` (or `exp.inner`) of the imported file
			key := fmt.Sprintf(".exp%d", j)
			if g.r.Intn(2) == 0 {
				key += ".inner"
			}
			sp2 := strings.TrimSuffix(sp, ".d2")
			body = append(body, sx.F(sx.U(g.fresh("k")), sx.VImp(sp2+key)))
			g.c.Count("form:import-key")
			continue
		}
		switch form {
		case 0:
			topUsed = true
			// spread at the top of the file
			body = append([]sx.Stmt{{T: "si", Path: sp}}, body...)
			g.c.Count("form:spread-top")
		case 1:
			body = append(body, sx.F(sx.U(g.fresh("k")), sx.VImp(sp)))
			g.c.Count("form:value")
		case 2:
			body = append(body, sx.F(sx.U(g.fresh("k")), sx.VM([]sx.Stmt{{T: "si", Path: sp}})))
			g.c.Count("form:spread-in-empty-map")
		default:
			body = append(body, sx.F(sx.U(g.fresh("c")), sx.VM([]sx.Stmt{sx.F(sx.U(g.fresh("k")), sx.VImp(sp))})))
			g.c.Count("form:nested-value")
		}
	}
	if missing {
		body = append(body, sx.F(sx.U(g.fresh("k")), sx.VImp(g.pick([]string{"nope", "./gone.d2", "../up/none", "sub/none.d2"}))))
		g.c.Count("missing-file")
	}
	return body
}

func (g *gen) prog() sx.Prog {
	g.n = 0
	g.nglob = 0
	g.flat = g.r.Intn(4) == 0
	if g.flat {
		g.c.Count("fragment:flat")
	}
	cyclic := g.r.Intn(4) == 0
	if cyclic {
		g.c.Count("set:cyclic")
	} else {
		g.c.Count("set:acyclic")
	}
	p := g.plan(cyclic)
	g.c.Count(fmt.Sprintf("files:%d", len(p.names)))
	missingAt := -1
	if !cyclic && g.r.Intn(12) == 0 {
		missingAt = g.r.Intn(len(p.names))
	}
	var out sx.Prog
	for i, n := range p.names {
		out = append(out, sx.File{Name: n, Body: g.fileBody(p, i, i == missingAt)})
	}
	return out
}

func observe(l *sx.Lean, progJ any) (map[string]any, error) {
	ans, err := l.Ask(map[string]any{"prog": progJ})
	if err != nil {
		return nil, err
	}
	if f, ok := ans["fail"]; ok {
		return nil, fmt.Errorf("lean xform: %v", f)
	}
	files := sx.FilesOf(ans["files"])
	entry := progJ.([]any)[0].(map[string]any)["name"].(string)
	out := map[string]any{"files": ans["files"], "gp": sx.Compile(files, entry)}
	if q, ok := ans["q"].(string); ok {
		out["qtext"] = q
		out["gq"] = sx.Compile(map[string]string{entry: q}, entry)
	}
	return map[string]any{"k": "impdiff", "in": map[string]any{"prog": progJ}, "out": out}, nil
}

var failedRe = regexp.MustCompile(`failed to import "([^"]*)"`)

// the path pushImportStack computes for `raw` imported from the file `top`, read off the error text
func observePath(top, raw string) map[string]any {
	res := sx.Compile(map[string]string{top: "k: @" + raw + "\n"}, top)
	got := ""
	if errs, ok := res["err"].([]any); ok {
		for _, e := range errs {
			if m := failedRe.FindStringSubmatch(e.(string)); m != nil {
				got = m[1]
			}
		}
	}
	return map[string]any{"k": "path", "in": map[string]any{"top": top, "raw": raw}, "out": map[string]any{"path": got}}
}

func (g *gen) rawPath() string {
	segs := []string{"a", "b", "sub", "x", "deep", "q1"} // dots are key separators: "." / ".." only lead (Pre)
	pre := g.pick([]string{"", "", "./", "../", "../../", ".//", "./../"})
	n := 1 + g.r.Intn(4)
	var parts []string
	for i := 0; i < n; i++ {
		s := g.pick(segs)
		if i == 0 && (s == "." || s == "..") {
			s = "m" // leading dots belong to Pre
		}
		parts = append(parts, s)
	}
	p := strings.Join(parts, "/")
	last := parts[len(parts)-1]
	if last == "." || last == ".." {
		p += "/f"
	}
	switch g.r.Intn(3) {
	case 0:
		p += ".d2"
	}
	return pre + p
}

func run(c *hl.Ctx) error {
	l, err := sx.StartLean("drv_c14")
	if err != nil {
		return err
	}
	defer l.Close()
	if cs := c.ReplayCase(); cs != nil {
		in := cs["in"].(map[string]any)
		if cs["k"] == "path" {
			c.Emit(observePath(in["top"].(string), in["raw"].(string)))
			return nil
		}
		r, err := observe(l, in["prog"])
		if err != nil {
			return err
		}
		c.Emit(r)
		return nil
	}
	g := &gen{c: c, r: c.Rand()}
	n := c.Pick(2500, 120000)
	for i := 0; i < n; i++ {
		r, err := observe(l, g.prog().J())
		if err != nil {
			return err
		}
		c.Emit(r)
	}
	tops := []string{"index.d2", "sub/index.d2", "a/b/index.d2", "./index.d2", "sub/../index.d2"}
	m := c.Pick(2000, 100000)
	for i := 0; i < m; i++ {
		c.Count("path-probe")
		c.Emit(observePath(g.pick(tops), g.rawPath()))
	}
	return nil
}
