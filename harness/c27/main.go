package main

// C27: lib/shape.
//
//	fit    for every shape type and a dense grid + random samples of (content w, h, paddingX, paddingY):
//	       GetDimensionsToFit, then GetInnerBox of a shape of that size (for clouds also with the content aspect ratio
//	       hint that d2graph.ToShape sets).  One line per (type, batch of tuples).
//	trace  for every shape type, random boxes and approach lines aimed at the shape's middle: the point returned by
//	       TraceToShapeBorder and the shape's Perimeter() flattened to a polyline.

import (
	"math"
	"math/rand"
	"strconv"
	"strings"

	"oss.terrastruct.com/d2/lib/geo"
	"oss.terrastruct.com/d2/lib/shape"

	"d2v/harness/geoutil"
	"d2v/harness/hl"
)

func main() { hl.Main("C27", run) }

var types = []string{shape.SQUARE_TYPE, shape.REAL_SQUARE_TYPE, shape.PARALLELOGRAM_TYPE, shape.DOCUMENT_TYPE, shape.CYLINDER_TYPE,
	shape.QUEUE_TYPE, shape.PAGE_TYPE, shape.PACKAGE_TYPE, shape.STEP_TYPE, shape.CALLOUT_TYPE, shape.STORED_DATA_TYPE,
	shape.PERSON_TYPE, shape.C4_PERSON_TYPE, shape.DIAMOND_TYPE, shape.OVAL_TYPE, shape.CIRCLE_TYPE, shape.HEXAGON_TYPE,
	shape.CLOUD_TYPE, shape.TABLE_TYPE, shape.CLASS_TYPE, shape.TEXT_TYPE, shape.CODE_TYPE, shape.IMAGE_TYPE}

func fitOne(typ string, w, h, px, py float64, hint bool) []string {
	s := shape.NewShape(typ, geo.NewBox(geo.NewPoint(0, 0), w, h))
	W, H := s.GetDimensionsToFit(w, h, px, py)
	s2 := shape.NewShape(typ, geo.NewBox(geo.NewPoint(0, 0), W, H))
	if hint && typ == shape.CLOUD_TYPE {
		// d2graph.SizeToContent + ToShape: the aspect ratio of the inner box for the (unpadded) content
		ib := shape.NewShape(typ, geo.NewBox(geo.NewPoint(0, 0), w, h)).GetInnerBoxForContent(w, h)
		if ib != nil && ib.Height != 0 {
			s2.SetInnerBoxAspectRatio(ib.Width / ib.Height)
		}
	}
	ib := s2.GetInnerBox()
	return []string{hl.Rat(W), hl.Rat(H), hl.Rat(ib.TopLeft.X), hl.Rat(ib.TopLeft.Y), hl.Rat(ib.Width), hl.Rat(ib.Height)}
}

func fitBatch(typ string, hint bool, tuples [][4]float64) map[string]any {
	in := []any{}
	out := []any{}
	for _, t := range tuples {
		if t[0]+t[2] == 0 || t[1]+t[3] == 0 {
			// a padded content area of zero width or height has no aspect ratio (cloud: 0/0); the smallest real
			// content is a 1 px wide label
			t[0], t[1] = t[0]+1, t[1]+1
		}
		in = append(in, []string{hl.Rat(t[0]), hl.Rat(t[1]), hl.Rat(t[2]), hl.Rat(t[3])})
		var res []string
		oc := hl.Guard(func() { res = fitOne(typ, t[0], t[1], t[2], t[3], hint) })
		if oc != "ok" {
			res = []string{oc}
		}
		out = append(out, res)
	}
	return map[string]any{"k": "fit", "in": map[string]any{"type": typ, "hint": hint, "cases": in}, "out": map[string]any{"res": out}}
}

// ---- trace ------------------------------------------------------------------------------------------------------

func q10(f float64) float64 { return math.Round(f*1024) / 1024 }

func flatten(per []geo.Intersectable) [][4]float64 {
	var segs [][4]float64
	add := func(a, b *geo.Point) { segs = append(segs, [4]float64{q10(a.X), q10(a.Y), q10(b.X), q10(b.Y)}) }
	curve := func(bc *geo.BezierCurve) {
		const n = 24
		prev := bc.At(0)
		for i := 1; i <= n; i++ {
			p := bc.At(float64(i) / n)
			add(prev, p)
			prev = p
		}
	}
	ell := func(e *geo.Ellipse) {
		const n = 96
		at := func(i int) *geo.Point {
			a := 2 * math.Pi * float64(i) / n
			return geo.NewPoint(e.Center.X+e.Rx*math.Cos(a), e.Center.Y+e.Ry*math.Sin(a))
		}
		for i := 0; i < n; i++ {
			add(at(i), at(i+1))
		}
	}
	for _, p := range per {
		switch x := p.(type) {
		case geo.Segment:
			add(x.Start, x.End)
		case *geo.Segment:
			add(x.Start, x.End)
		case geo.BezierCurve:
			curve(&x)
		case *geo.BezierCurve:
			curve(x)
		case geo.Ellipse:
			ell(&x)
		case *geo.Ellipse:
			ell(x)
		default:
			panic("unknown perimeter element")
		}
	}
	return segs
}

type approach struct{ Prev, Aim [2]float64 }

func traceCase(typ string, box [4]float64, aps []approach) map[string]any {
	b := geo.NewBox(geo.NewPoint(box[0], box[1]), box[2], box[3])
	s := shape.NewShape(typ, b)
	in := map[string]any{"type": typ, "box": []string{hl.Rat(box[0]), hl.Rat(box[1]), hl.Rat(box[2]), hl.Rat(box[3])}}
	ain := []any{}
	res := []any{}
	for _, a := range aps {
		ain = append(ain, []string{hl.Rat(a.Prev[0]), hl.Rat(a.Prev[1]), hl.Rat(a.Aim[0]), hl.Rat(a.Aim[1])})
		prev := geo.NewPoint(a.Prev[0], a.Prev[1])
		aim := geo.NewPoint(a.Aim[0], a.Aim[1])
		// what Edge.TraceToShape does first: clip the segment at the box
		pts := b.Intersections(geo.Segment{Start: prev, End: aim})
		if len(pts) == 0 {
			res = append(res, []string{"none"})
			continue
		}
		rb := pts[0]
		var out *geo.Point
		oc := hl.Guard(func() { out = shape.TraceToShapeBorder(s, rb, prev) })
		if oc != "ok" {
			res = append(res, []string{oc})
			continue
		}
		res = append(res, []string{hl.Rat(out.X), hl.Rat(out.Y), hl.Rat(rb.X), hl.Rat(rb.Y)})
	}
	in["approaches"] = ain
	// the outline the traced end is judged against is the one that is DRAWN (d2svg: the ellipse of the box for oval and
	// circle, the shape's SVG path otherwise, the box for rectangular shapes) — not the shape's own Perimeter(), which is
	// what TraceToShapeBorder intersects with and could itself be wrong
	segs := []any{}
	for _, sg := range drawnOutline(typ, s, box) {
		segs = append(segs, []string{hl.Rat(sg[0]), hl.Rat(sg[1]), hl.Rat(sg[2]), hl.Rat(sg[3])})
	}
	return map[string]any{"k": "trace", "in": in, "out": map[string]any{"res": res, "perimeter": segs, "rectangular": false}}
}

// drawnOutline flattens what d2svg draws for the shape into segments.
func drawnOutline(typ string, s shape.Shape, box [4]float64) [][4]float64 {
	var segs [][4]float64
	add := func(x1, y1, x2, y2 float64) { segs = append(segs, [4]float64{q10(x1), q10(y1), q10(x2), q10(y2)}) }
	if typ == shape.OVAL_TYPE || typ == shape.CIRCLE_TYPE {
		// renderOval: <ellipse cx=tl.X+w/2 cy=tl.Y+h/2 rx=w/2 ry=h/2> (d2target maps circle to oval)
		const n = 128
		cx, cy, rx, ry := box[0]+box[2]/2, box[1]+box[3]/2, box[2]/2, box[3]/2
		for i := 0; i < n; i++ {
			a, b := 2*math.Pi*float64(i)/n, 2*math.Pi*float64(i+1)/n
			add(cx+rx*math.Cos(a), cy+ry*math.Sin(a), cx+rx*math.Cos(b), cy+ry*math.Sin(b))
		}
		return segs
	}
	paths := s.GetSVGPathData()
	if typ == shape.CYLINDER_TYPE || typ == shape.PAGE_TYPE {
		paths = paths[:1] // the second path is an inner decoration (front arc, folded corner)
	}
	for _, pd := range paths {
		f := strings.Fields(pd)
		var sx, sy, cx, cy float64
		num := func(i int) float64 {
			v, err := strconv.ParseFloat(f[i], 64)
			if err != nil {
				panic("path data: " + pd)
			}
			return v
		}
		for i := 0; i < len(f); {
			switch f[i] {
			case "M":
				sx, sy = num(i+1), num(i+2)
				cx, cy = sx, sy
				i += 3
			case "L":
				add(cx, cy, num(i+1), num(i+2))
				cx, cy = num(i+1), num(i+2)
				i += 3
			case "H":
				add(cx, cy, num(i+1), cy)
				cx = num(i + 1)
				i += 2
			case "V":
				add(cx, cy, cx, num(i+1))
				cy = num(i + 1)
				i += 2
			case "C":
				x1, y1, x2, y2, x3, y3 := num(i+1), num(i+2), num(i+3), num(i+4), num(i+5), num(i+6)
				const n = 24
				px, py := cx, cy
				for k := 1; k <= n; k++ {
					t := float64(k) / n
					u := 1 - t
					x := u*u*u*cx + 3*u*u*t*x1 + 3*u*t*t*x2 + t*t*t*x3
					y := u*u*u*cy + 3*u*u*t*y1 + 3*u*t*t*y2 + t*t*t*y3
					add(px, py, x, y)
					px, py = x, y
				}
				cx, cy = x3, y3
				i += 7
			case "Z":
				add(cx, cy, sx, sy)
				cx, cy = sx, sy
				i++
			default:
				panic("path data command " + f[i] + " in " + pd)
			}
		}
	}
	if len(segs) == 0 {
		// no path: the shape is drawn as its box
		x, y, w, h := box[0], box[1], box[2], box[3]
		add(x, y, x+w, y)
		add(x+w, y, x+w, y+h)
		add(x+w, y+h, x, y+h)
		add(x, y+h, x, y)
	}
	return segs
}

func genApproaches(r *rand.Rand, box [4]float64, n int) []approach {
	var aps []approach
	cx, cy := box[0]+box[2]/2, box[1]+box[3]/2
	for i := 0; i < n; i++ {
		ang := r.Float64() * 2 * math.Pi
		switch r.Intn(4) {
		case 0: // axis-parallel approaches (prevPoint.X == rectBorderPoint.X branch)
			ang = float64(r.Intn(4)) * math.Pi / 2
		}
		d := math.Hypot(box[2], box[3])/2 + 5 + r.Float64()*300
		prev := [2]float64{math.Round(cx + d*math.Cos(ang)), math.Round(cy + d*math.Sin(ang))}
		// aim at the middle of the shape (± 5 % of its size): the line certainly crosses the outline
		aim := [2]float64{cx + (r.Float64()-0.5)*0.1*box[2], cy + (r.Float64()-0.5)*0.1*box[3]}
		if r.Intn(4) == 0 {
			aim = [2]float64{cx, cy}
			if r.Intn(2) == 0 { // exactly horizontal / vertical through the centre
				if r.Intn(2) == 0 {
					prev[1] = cy
				} else {
					prev[0] = cx
				}
			}
		}
		if prev[0] >= box[0]-1 && prev[0] <= box[0]+box[2]+1 && prev[1] >= box[1]-1 && prev[1] <= box[1]+box[3]+1 {
			i-- // the previous route point must lie outside the shape's box
			continue
		}
		aps = append(aps, approach{Prev: prev, Aim: aim})
	}
	return aps
}

func parse4(x any) [4]float64 {
	a := x.([]any)
	var o [4]float64
	for i := 0; i < 4; i++ {
		o[i] = geoutil.ParseRat(a[i].(string))
	}
	return o
}

func run(c *hl.Ctx) error {
	if cs := c.ReplayCase(); cs != nil {
		in := cs["in"].(map[string]any)
		typ := in["type"].(string)
		if cs["k"] == "fit" {
			var ts [][4]float64
			for _, x := range in["cases"].([]any) {
				ts = append(ts, parse4(x))
			}
			c.Emit(fitBatch(typ, in["hint"].(bool), ts))
		} else {
			var aps []approach
			for _, x := range in["approaches"].([]any) {
				p := parse4(x)
				aps = append(aps, approach{Prev: [2]float64{p[0], p[1]}, Aim: [2]float64{p[2], p[3]}})
			}
			c.Emit(traceCase(typ, parse4(in["box"]), aps))
		}
		return nil
	}
	r := c.Rand()
	const batch = 64
	emit := func(typ string, hint bool, ts [][4]float64) {
		for i := 0; i < len(ts); i += batch {
			j := min(i+batch, len(ts))
			c.Emit(fitBatch(typ, hint, ts[i:j]))
		}
	}
	for _, typ := range types {
		var ts [][4]float64
		// dense grid: integer content sizes 0..2000 step 7 against a few heights and paddings
		pads := [][2]float64{{0, 0}, {40, 40}, {20, 20}, {10, 75}, {5, 0}}
		step := c.Pick(21, 7)
		for w := 0; w <= 2000; w += step {
			for _, h := range []float64{0, 1, 21, 66, float64(w), 300, 1999} {
				p := pads[(w/step)%len(pads)]
				ts = append(ts, [4]float64{float64(w), h, p[0], p[1]})
				c.Count("fit:grid")
			}
		}
		// integer boundaries of the piecewise shapes (callout 45, page 3*20.348, cylinder/queue 48, package 55/0.25)
		for _, v := range []float64{44, 45, 46, 60, 61, 62, 47, 48, 49, 219, 220, 221, 274, 275, 276, 89, 90, 91} {
			for _, p := range pads {
				ts = append(ts, [4]float64{v, v, p[0], p[1]}, [4]float64{100, v, p[0], p[1]}, [4]float64{v, 100, p[0], p[1]})
				c.Count("fit:boundary")
			}
		}
		for i := c.Pick(1500, 60000); i > 0; i-- {
			switch r.Intn(3) {
			case 0: // integers (what label measurement produces)
				ts = append(ts, [4]float64{float64(r.Intn(1200)), float64(r.Intn(600)), float64(r.Intn(80)), float64(r.Intn(80))})
				c.Count("fit:random-int")
			case 1: // quarter pixels
				ts = append(ts, [4]float64{geoutil.Q(r, 0, 1200), geoutil.Q(r, 0, 600), geoutil.Q(r, 0, 80), geoutil.Q(r, 0, 80)})
				c.Count("fit:random-quarter")
			default: // arbitrary floats, extreme aspect ratios included
				ts = append(ts, [4]float64{r.Float64() * math.Pow(10, float64(r.Intn(4))), r.Float64() * math.Pow(10, float64(r.Intn(4))), r.Float64() * 60, r.Float64() * 60})
				c.Count("fit:random-float")
			}
		}
		emit(typ, false, ts)
		if typ == shape.CLOUD_TYPE {
			emit(typ, true, ts)
		}
	}
	for _, typ := range types {
		for i := c.Pick(60, 1200); i > 0; i-- {
			box := [4]float64{geoutil.Q(r, -300, 600), geoutil.Q(r, -300, 600), float64(75 + r.Intn(500)), float64(75 + r.Intn(400))}
			if r.Intn(4) == 0 {
				box[3] = box[2]
			}
			c.Count("trace:" + typ)
			c.Emit(traceCase(typ, box, genApproaches(r, box, 12)))
		}
	}
	return nil
}
