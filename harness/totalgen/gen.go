// Package totalgen — seeded generator of D2 programs (plus an in-memory set of importable files) shared by the
// C07 / C08 / C25 harnesses.  It emits the full surface language: nested maps, arrays (with comments, block
// comments, nested arrays, maps, imports, substitutions), edges, edge chains, edge indexes and edge keys, globs
// (single, double, triple, with & / !& filters), variables and spreads, imports (value, spread, keyed, cyclic),
// boards (layers / scenarios / steps), classes, d2-config with every key, and every reserved keyword with
// right- and wrong-typed values.  The generator is built to *target* the crash-capable leaves of the compiler:
// names whose lower-casing changes their byte length under globs, comments inside arrays, composite values
// under scalar-only keywords, keyword paths under underscores, value-less imported keys.
//
// All randomness comes from the *rand.Rand passed in.
package totalgen

import (
	"fmt"
	"math/rand"
	"sort"
	"strings"
	"unicode/utf8"

	"oss.terrastruct.com/d2/d2ast"
)

type Opts struct {
	// Valid biases towards programs that compile (no wrong-typed reserved values, no dangling references,
	// no imports of missing files); used by C08/C25.  Invalid programs still occur.
	Valid bool
	// Render restricts to what the layout engines accept quickly (no imports, small, no near/grid exotica).
	Render  bool
	Imports bool
	Size    int // approximate number of top-level statements
	Depth   int
}

type Prog struct {
	Src   string
	Files map[string]string // importable files (path -> text); never contains index.d2
	Feat  []string          // feature buckets hit (sorted, unique)
}

type g struct {
	r     *rand.Rand
	o     Opts
	feat  map[string]bool
	files []string // names of importable files (without .d2)
	depth int
	vars  []string // declared var paths
	cls   []string
}

func (x *g) f(s string) { x.feat[s] = true }

func (x *g) pick(xs []string) string { return xs[x.r.Intn(len(xs))] }

func (x *g) chance(p float64) bool { return x.r.Float64() < p }

// ---------------------------------------------------------------------------------------------- names

var plainNames = []string{"a", "b", "c", "d", "A", "B", "x1", "y", "zed", "ab", "abc", "bca", "Ab"}

// names whose strings.ToLower / ToUpper changes the UTF-8 length, and other non-ASCII names
var caseNames = []string{"Ⱥ", "ⱥ", "Ⱦ", "İ", "K", "ẞ", "Å", "ȺȺ", "aȺ", "Ⱥb", "İx", "é", "É", "日本", "😀", "ǅ", "ß", "ſ"}

var oddNames = []string{`"a.b"`, `'q'`, `""`, `"a b"`, `a b`, `-`, `a-b`, `1`, `"null"`, `'true'`, `"*"`, `"_"`, `a\.b`, `"x\ny"`, `'it''s'`, `"${a}"`, `"@x"`}

var reservedAll []string
var styleKw []string
var simpleKw []string
var boardKw = []string{"layers", "scenarios", "steps"}

func init() {
	for k := range d2ast.ReservedKeywords {
		reservedAll = append(reservedAll, k)
	}
	sort.Strings(reservedAll)
	for k := range d2ast.StyleKeywords {
		styleKw = append(styleKw, k)
	}
	sort.Strings(styleKw)
	for k := range d2ast.SimpleReservedKeywords {
		simpleKw = append(simpleKw, k)
	}
	sort.Strings(simpleKw)
}

func (x *g) name() string {
	switch n := x.r.Intn(20); {
	case n < 12:
		return x.pick(plainNames)
	case n < 16:
		x.f("name:nonascii")
		return x.pick(caseNames)
	case n < 18:
		if x.o.Render {
			return x.pick(plainNames)
		}
		x.f("name:odd")
		return x.pick(oddNames)
	case n < 19:
		if x.o.Valid {
			return x.pick(plainNames)
		}
		x.f("name:reserved")
		kw := x.pick(reservedAll)
		switch x.r.Intn(3) {
		case 0:
			return strings.ToUpper(kw)
		case 1:
			return `"` + kw + `"`
		}
		return kw
	default:
		return x.pick(plainNames) + x.pick(plainNames)
	}
}

func (x *g) path() string {
	n := 1
	if x.chance(0.3) {
		n = 2 + x.r.Intn(2)
	}
	parts := make([]string, n)
	for i := range parts {
		parts[i] = x.name()
	}
	if !x.o.Valid && x.chance(0.06) {
		x.f("path:underscore")
		k := 1 + x.r.Intn(2)
		for i := 0; i < k; i++ {
			parts = append([]string{"_"}, parts...)
		}
	} else if x.depth > 0 && x.chance(0.05) {
		x.f("path:underscore")
		parts = append([]string{"_"}, parts...)
	}
	if !x.o.Valid && x.chance(0.04) {
		x.f("path:keyword-inside")
		parts[x.r.Intn(len(parts))] = x.pick(reservedAll)
	}
	return strings.Join(parts, ".")
}

var globPats = []string{"*", "*", "a*", "*a", "*b*", "a*b", "A*", "ⱥ*", "Ⱥ*", "*ⱥ", "*Ⱥ*", "İ*", "*K", "k*", "ẞ*", "å*", "*é", "**", "***", "*.*", "a.*", "*.a", "**.a", "x*y*"}

func (x *g) globPath() string {
	p := x.pick(globPats)
	x.f("glob")
	if strings.ContainsAny(p, "ⱥȺİKẞå") {
		x.f("glob:casefold-nonascii")
	}
	if p == "**" || strings.HasPrefix(p, "**.") {
		x.f("glob:double")
	}
	if p == "***" {
		x.f("glob:triple")
	}
	if x.chance(0.25) {
		p = x.name() + "." + p
	}
	if x.chance(0.25) {
		kw := []string{"style.fill", "style.opacity", "shape", "label", "class", "style", "link", "width", "icon", "near", "style.stroke-width"}
		p = p + "." + x.pick(kw)
		x.f("glob:keyword-tail")
	}
	return p
}

// ---------------------------------------------------------------------------------------------- values

var scalars = []string{"x", "hello", "1", "0", "-3", "0.5", "true", "false", "red", "#ff0000", "circle", "rectangle", "class", "sql_table",
	"sequence_diagram", "text", "image", "person", "top-left", "center", "right", "\"quoted\"", "'single'", "\"\"", "NaN", "99999999999999999999", "1e3",
	"https://example.com/x.png", "layers.x", "_.layers.x", "a.b", "Ⱥ", "ⱥ*", "*", "dagre", "elk", "up"}

func (x *g) scalar() string {
	if x.o.Render {
		return x.pick([]string{"x", "hello", "1", "red", "label one", "\"quoted\"", "Ⱥ", "é日本", "0.5"})
	}
	if x.chance(0.07) {
		x.f("val:null")
		return "null"
	}
	if x.chance(0.08) && len(x.vars) > 0 {
		x.f("val:substitution")
		v := "${" + x.pick(x.vars) + "}"
		switch x.r.Intn(8) {
		case 0:
			x.f("val:substitution-dq")
			return "\"" + v + "\""
		case 1:
			x.f("val:substitution-dq")
			return "\"p " + v + " q\""
		case 2:
			return "'" + v + "'"
		case 3:
			return "p " + v + " q"
		case 4:
			return "|md t " + v + " |"
		}
		return v
	}
	if !x.o.Valid && x.chance(0.03) {
		x.f("val:substitution-dangling")
		return "${" + x.name() + "}"
	}
	if x.chance(0.04) {
		x.f("val:suspend")
		return x.pick([]string{"suspend", "unsuspend"})
	}
	if x.chance(0.05) {
		x.f("val:blockstring")
		return x.pick([]string{"|md # hi ${a} |", "|| a | b ||", "|go x := 1|", "|`md a`|", "|latex \\frac{1}{2}|", "|md\n  line1\n  line2\n|"})
	}
	return x.pick(scalars)
}

func (x *g) comment() string {
	if x.chance(0.5) {
		x.f("comment:line")
		return "# c" + x.pick(plainNames)
	}
	x.f("comment:block")
	return `""" blk ` + x.pick(plainNames) + ` """`
}

func (x *g) importRef(spread bool) string {
	var file string
	if len(x.files) > 0 && (x.o.Valid || x.chance(0.85)) {
		file = x.pick(x.files)
	} else {
		x.f("import:missing")
		file = x.pick([]string{"nofile", "index", "../up", "dir/f", "\"q.d2\""})
	}
	if x.chance(0.25) {
		x.f("import:keyed")
		file += "." + x.pick(plainNames)
		if x.chance(0.3) {
			file += "." + x.pick(plainNames)
		}
	}
	if spread {
		x.f("import:spread")
		return "...@" + file
	}
	x.f("import:value")
	return "@" + file
}

func (x *g) array() string {
	x.f("array")
	n := x.r.Intn(5)
	sep := "; "
	if x.chance(0.3) {
		sep = "\n"
	}
	var el []string
	for i := 0; i < n; i++ {
		switch k := x.r.Intn(24); {
		case k < 12:
			el = append(el, x.scalar())
		case k < 14 && !x.o.Valid:
			x.f("array:comment")
			el = append(el, x.comment())
			if !strings.HasSuffix(el[len(el)-1], `"""`) {
				sep = "\n"
			}
		case k < 16 && x.depth < x.o.Depth:
			x.f("array:nested")
			x.depth++
			el = append(el, x.array())
			x.depth--
		case k < 18 && x.depth < x.o.Depth && !x.o.Valid:
			x.f("array:map")
			el = append(el, x.mapBody(2))
		case k < 20 && x.o.Imports:
			x.f("array:import")
			el = append(el, x.importRef(x.chance(0.4)))
		case k < 21 && len(x.vars) > 0:
			x.f("array:substitution")
			s := "${" + x.pick(x.vars) + "}"
			if x.chance(0.4) {
				s = "..." + s
			}
			el = append(el, s)
		default:
			el = append(el, x.pick(plainNames))
		}
	}
	if sep == "\n" {
		return "[\n" + strings.Join(el, "\n") + "\n]"
	}
	return "[" + strings.Join(el, sep) + "]"
}

// value shape for a key: scalar / map / array / import / nothing
func (x *g) anyValue() string {
	switch k := x.r.Intn(20); {
	case k < 10:
		return ": " + x.scalar()
	case k < 13 && x.depth < x.o.Depth:
		return ": " + x.mapBody(3)
	case k < 15:
		return ": " + x.array()
	case k < 16 && x.o.Imports:
		return ": " + x.importRef(false)
	case k < 17 && x.depth < x.o.Depth:
		// primary + map
		return ": " + x.scalar() + " " + x.mapBody(2)
	case k < 18:
		return ""
	default:
		return ": " + x.scalar()
	}
}

// ---------------------------------------------------------------------------------------------- statements

func (x *g) mapBody(n int) string {
	x.depth++
	defer func() { x.depth-- }()
	var b strings.Builder
	b.WriteString("{\n")
	k := x.r.Intn(n + 1)
	for i := 0; i < k; i++ {
		b.WriteString(x.stmt())
		b.WriteString("\n")
	}
	b.WriteString("}")
	return b.String()
}

var shapesOK = []string{"rectangle", "square", "circle", "oval", "diamond", "hexagon", "cloud", "person", "cylinder", "queue", "page", "parallelogram", "document", "step", "callout", "stored_data", "package", "text", "code", "class", "sql_table", "sequence_diagram", "hierarchy", "c4-person"}

var latexDefs = []string{
	`\definecolor{accent}{rgb}{1,0,0} \color{accent} x^2`,
	`\definecolor{red}{rgb}{0,0,1} \color{red} y`,
	`\newcommand{\foo}{\alpha+\beta} \foo`,
	`\DeclareMathOperator{\op}{op} \op(x)`,
	`\def\bar#1{[#1]} \bar{z}`,
}
var latexUses = []string{`\color{accent} x^2`, `\color{red} y`, `\foo + 1`, `\op(x)`, `\bar{z}`, `\frac{a}{b}`, `e^{i\pi}`}

// statements that exercise process-wide render state: stacked copies (multiple) on every outline, 3d, latex
func (x *g) renderState() string {
	switch x.r.Intn(6) {
	case 0:
		x.f("render:3d-multiple")
		return x.pick(plainNames) + ": {shape: " + x.pick([]string{"rectangle", "square", "hexagon"}) + "; style.3d: true; style.multiple: true}"
	case 1, 2:
		x.f("render:multiple-shape")
		return x.pick(plainNames) + ": {shape: " + x.pick([]string{"oval", "hexagon", "queue", "cylinder", "circle", "diamond", "cloud", "person", "page", "step", "package", "stored_data", "parallelogram", "document", "callout"}) + "; style.multiple: true}"
	case 3:
		x.f("render:latex-def")
		return x.pick(plainNames) + ": |latex " + x.pick(latexDefs) + " |"
	case 4:
		x.f("render:latex-use")
		return x.pick(plainNames) + ": |latex " + x.pick(latexUses) + " |"
	default:
		x.f("render:3d")
		return x.pick(plainNames) + ".style.3d: true"
	}
}

// MultiErr: a program whose only errors come from at least two different validation passes of the graph compiler
// (labels, near, edges, positions) — the order of the reported errors is part of the result.
func MultiErr(r *rand.Rand) string {
	passes := [][]string{
		{"t1: \"\" {shape: text}", "tb: \"x\\ny\" {shape: sql_table}", "t2: {shape: text; label: \"  \"}"},
		{"n1.near: nosuch", "n2: {near: n2.c; c}", "n3: {c: {near: n3}}", "n4: {c: {near: top-left}}"},
		{"g1: {grid-rows: 2; a; b}\ng1 -> g1.a", "sq: {shape: sequence_diagram; a; b}\nsq -> sq.a", "g3: {grid-columns: 1; c: {d}}\ng3.c.d -> g3.c"},
		{"h1: {shape: hierarchy; a: {top: 10}}", "g2: {grid-columns: 2; a: {left: 5}; b}", "s2: {shape: sequence_diagram; a: {top: 3}}"},
	}
	order := r.Perm(len(passes))
	k := 2 + r.Intn(3)
	var parts []string
	for _, pi := range order[:k] {
		parts = append(parts, passes[pi][r.Intn(len(passes[pi]))])
		if r.Intn(3) == 0 {
			parts = append(parts, passes[pi][r.Intn(len(passes[pi]))])
		}
	}
	// a few harmless objects around them
	for i, n := 0, r.Intn(4); i < n; i++ {
		parts = append(parts, fmt.Sprintf("ok%d -> ok%d", i, i+1))
	}
	r.Shuffle(len(parts), func(i, j int) { parts[i], parts[j] = parts[j], parts[i] })
	// the same snippet twice would redeclare: dedupe
	seen := map[string]bool{}
	var out []string
	for _, p := range parts {
		if !seen[p] {
			seen[p] = true
			out = append(out, p)
		}
	}
	return strings.Join(out, "\n") + "\n"
}

func (x *g) validReserved() string {
	switch x.r.Intn(14) {
	case 0:
		return "shape: " + x.pick(shapesOK)
	case 1:
		return "style.fill: " + x.pick([]string{"red", "\"#00ff00\"", "blue", "transparent"})
	case 2:
		return "style.opacity: " + x.pick([]string{"0", "0.4", "1"})
	case 3:
		return "style.stroke-width: " + x.pick([]string{"0", "3", "15"})
	case 4:
		return "label: " + x.pick([]string{"hi", "\"two words\"", "Ⱥ", "|md # t|"})
	case 5:
		return "style: {stroke: green; stroke-dash: 3; bold: true}"
	case 6:
		return "width: " + x.pick([]string{"100", "200"}) + "\nheight: " + x.pick([]string{"80", "150"})
	case 7:
		return "tooltip: tip " + x.pick(plainNames)
	case 8:
		return "style.font-size: " + x.pick([]string{"8", "20", "55"})
	case 9:
		return "style.border-radius: 5"
	case 10:
		return "style.shadow: true"
	case 11:
		return "style.multiple: true"
	case 12:
		return "direction: " + x.pick([]string{"up", "down", "left", "right"})
	default:
		return "style.font-color: red"
	}
}

// a reserved keyword with a random (often wrong-typed) value
func (x *g) wildReserved() string {
	kw := x.pick(reservedAll)
	x.f("reserved:wild")
	if _, ok := d2ast.StyleKeywords[kw]; ok && x.chance(0.8) {
		kw = "style." + kw
	}
	if x.chance(0.1) {
		kw = strings.ToUpper(kw[:1]) + kw[1:]
	}
	if x.chance(0.1) {
		kw = kw + "." + x.pick(append(append([]string{}, plainNames...), reservedAll...))
	}
	v := x.anyValue()
	switch {
	case strings.HasPrefix(v, ": {"):
		x.f("reserved:map-value")
	case strings.HasPrefix(v, ": ["):
		x.f("reserved:array-value")
	case v == ": null":
		x.f("reserved:null-value")
	case strings.HasPrefix(v, ": |"):
		x.f("reserved:block-value")
	case v == "":
		x.f("reserved:no-value")
	}
	return kw + v
}

func (x *g) edge() string {
	x.f("edge")
	arrows := []string{"->", "->", "->", "<-", "--", "<->"}
	n := 2
	if x.chance(0.2) {
		n = 3 + x.r.Intn(2)
		x.f("edge:chain")
	}
	var b strings.Builder
	for i := 0; i < n; i++ {
		if i > 0 {
			b.WriteString(" " + x.pick(arrows) + " ")
		}
		if !x.o.Render && x.chance(0.12) {
			x.f("edge:glob-end")
			b.WriteString(x.pick([]string{"*", "a*", "**", "*.*", "ⱥ*"}))
		} else {
			b.WriteString(x.path())
		}
	}
	return b.String()
}

func (x *g) edgeStmt() string {
	e := x.edge()
	switch k := x.r.Intn(12); {
	case k < 5:
		return e
	case k < 7:
		return e + ": " + x.scalar()
	case k < 9 && x.depth < x.o.Depth:
		return e + ": " + x.pick([]string{"", "lbl "}) + "{\n" + x.pick([]string{"style.stroke: red", "style.animated: true", "source-arrowhead: 1", "target-arrowhead: {shape: diamond}", "source-arrowhead.label: x", "label: q", "class: " + x.clsName()}) + "\n}"
	case k < 10 && !x.o.Valid:
		x.f("edge:array-value")
		return e + ": " + x.array()
	case k < 11:
		x.f("edge:null")
		return e + ": null"
	default:
		return e
	}
}

func (x *g) edgeIndexStmt() string {
	x.f("edge:index")
	a, b := x.pick(plainNames), x.pick(plainNames)
	if x.chance(0.3) {
		a = x.pick([]string{"*", "a*", "**"})
		x.f("edge:index-glob-end")
	}
	if x.chance(0.2) {
		b = x.pick([]string{"*", "b*"})
	}
	idx := x.pick([]string{"0", "0", "1", "*", "*", "7"})
	s := fmt.Sprintf("(%s -> %s)[%s]", a, b, idx)
	if x.chance(0.3) {
		x.f("edge:index-container-key")
		s = x.pick([]string{"*", "**", "a", "c", "*.*", "a*"}) + "." + s
	}
	if x.chance(0.25) {
		// a numeric index and then a [*] index on glob keys of the same scope stack (glob contexts are compared
		// with Key.Equals → EdgeIndex.Equals)
		x.f("edge:index-numeric-then-glob")
		pre := x.pick([]string{"", "*.", "c.", "a."})
		first := fmt.Sprintf("%s(%s -> %s)[%s].style.stroke: red", pre, x.pick([]string{"a", "*", "a*"}), x.pick([]string{"b", "*"}), x.pick([]string{"0", "1"}))
		second := fmt.Sprintf("%s(* -> *)[*].style.opacity: 0.4", x.pick([]string{"", "*.", "c.", "a."}))
		if x.chance(0.5) {
			return "c: {a -> b}\n" + first + "\n" + second
		}
		return first + "\n" + second
	}
	switch k := x.r.Intn(10); {
	case k < 3:
		return s + ".style.stroke: blue"
	case k < 4:
		return s + "." + x.pick(reservedAll) + x.anyValue()
	case k < 6:
		return s + ": null"
	case k < 8:
		return s + ": {\n" + x.filterLine() + "\nstyle.stroke-dash: 2\n}"
	case k < 9:
		return s + ": " + x.scalar()
	default:
		return s + ".label: idx"
	}
}

func (x *g) filterLine() string {
	x.f("glob:filter")
	keys := []string{"shape", "label", "style.fill", "style.opacity", "level", "leaf", "connected", "src", "dst", "src.shape", "dst.label", "class", "link", "icon", "style.stroke-width", "style.animated", "a", "src.level", "dst.leaf"}
	k := x.pick(keys)
	vals := []string{"circle", "rectangle", "*", "a*", "1", "0", "true", "false", "a", "b", "red", "Ⱥ", "ⱥ*", "[a; b]", "{q: r}", "null", "\"\"", "x.y", "-1"}
	v := x.pick(vals)
	if x.o.Valid {
		v = x.pick(vals[:13])
	}
	if strings.HasPrefix(v, "{") || strings.HasPrefix(v, "[") {
		x.f("glob:filter-composite")
	}
	pre := "&"
	if x.chance(0.25) {
		pre = "!&"
	}
	return pre + k + ": " + v
}

func (x *g) globStmt() string {
	p := x.globPath()
	switch k := x.r.Intn(10); {
	case k < 3:
		return p + ": " + x.scalar()
	case k < 7 && x.depth < x.o.Depth:
		var b strings.Builder
		b.WriteString(p + ": {\n")
		if x.chance(0.5) {
			b.WriteString(x.filterLine() + "\n")
		}
		if x.chance(0.2) {
			b.WriteString(x.filterLine() + "\n")
		}
		b.WriteString(x.pick([]string{"style.fill: red", "shape: circle", "class: " + x.clsName(), "label: g", "style.opacity: 0.5", "x", "x -> y", "link: layers.x", "*.style.bold: true"}) + "\n}")
		return b.String()
	case k < 8:
		return p + ": " + x.pick([]string{"suspend", "unsuspend"})
	case k < 9:
		return p + x.anyValue()
	default:
		return p + " -> " + x.pick([]string{"*", "a", "b*", "**", "_.a"})
	}
}

func (x *g) clsName() string {
	if len(x.cls) > 0 && x.chance(0.8) {
		return x.pick(x.cls)
	}
	return x.pick(plainNames)
}

func (x *g) classesStmt() string {
	x.f("classes")
	var b strings.Builder
	b.WriteString("classes: {\n")
	n := 1 + x.r.Intn(3)
	for i := 0; i < n; i++ {
		c := x.pick(plainNames)
		x.cls = append(x.cls, c)
		b.WriteString(c + ": {\n")
		m := 1 + x.r.Intn(3)
		for j := 0; j < m; j++ {
			if x.o.Valid || x.chance(0.8) {
				b.WriteString(x.validReserved())
			} else {
				b.WriteString(x.stmt())
			}
			b.WriteString("\n")
		}
		b.WriteString("}\n")
	}
	if !x.o.Valid && x.chance(0.15) {
		b.WriteString(x.edge() + "\n")
	}
	b.WriteString("}")
	return b.String()
}

func (x *g) classUse() string {
	x.f("class:use")
	switch k := x.r.Intn(8); {
	case k < 4:
		return "class: " + x.clsName()
	case k < 5:
		return "class: [" + x.clsName() + "; " + x.clsName() + "]"
	case k < 6:
		// a repeated name among at least two distinct ones (order must follow the array, duplicates included or not)
		x.f("class:array-repeated")
		a, b := x.clsName(), x.clsName()
		for i := 0; i < 4 && b == a; i++ {
			b = x.pick(plainNames)
		}
		return x.pick([]string{"class: [" + a + "; " + b + "; " + a + "]", "class: [" + b + "; " + a + "; " + a + "; " + b + "]", "class: [" + a + "; " + b + "; c; " + b + "; " + a + "]"})
	case k < 7 && !x.o.Valid:
		return "class: " + x.array()
	default:
		if x.o.Valid {
			return "class: " + x.clsName()
		}
		return "class" + x.anyValue()
	}
}

func (x *g) varsStmt() string {
	x.f("vars")
	var b strings.Builder
	b.WriteString("vars: {\n")
	n := 1 + x.r.Intn(3)
	for i := 0; i < n; i++ {
		v := x.pick([]string{"a", "b", "v1", "col", "cfg"})
		switch k := x.r.Intn(10); {
		case k < 5:
			b.WriteString(v + ": " + x.pick([]string{"red", "1", "hello", "\"q s\"", "Ⱥ", "circle"}) + "\n")
			x.vars = append(x.vars, v)
		case k < 7:
			b.WriteString(v + ": {\nin: " + x.pick([]string{"blue", "2", "x"}) + "\nm: {z: 1}\n}\n")
			x.vars = append(x.vars, v+".in", v)
		case k < 8:
			switch x.r.Intn(3) {
			case 0:
				b.WriteString(v + ": [p; q]\n")
			case 1:
				x.f("vars:no-value")
				b.WriteString(v + "\n")
			default:
				x.f("vars:null")
				b.WriteString(v + ": null\n")
			}
			x.vars = append(x.vars, v)
		case k < 9 && !x.o.Valid:
			b.WriteString(v + x.anyValue() + "\n")
			x.vars = append(x.vars, v)
		default:
			if len(x.vars) > 0 {
				b.WriteString(v + ": ${" + x.pick(x.vars) + "}\n")
			} else {
				b.WriteString(v + ": w\n")
			}
			x.vars = append(x.vars, v)
		}
	}
	if x.chance(0.35) {
		b.WriteString(x.configBlock() + "\n")
	}
	if !x.o.Render && x.chance(0.1) {
		x.f("vars:legend")
		b.WriteString("d2-legend: {\nl1: {shape: circle}\nl1 -> l2\n}\n")
	}
	b.WriteString("}")
	return b.String()
}

var configKeys = []string{"sketch", "center", "theme-id", "dark-theme-id", "pad", "layout-engine", "theme-overrides", "dark-theme-overrides", "data", "bogus"}
var themeCodes = []string{"N1", "N2", "N7", "B1", "B6", "AA2", "AB5", "n1", "XX", "N1.y", "XX.y"}

func (x *g) configBlock() string {
	x.f("config")
	var b strings.Builder
	b.WriteString("d2-config: {\n")
	n := 1 + x.r.Intn(3)
	for i := 0; i < n; i++ {
		k := x.pick(configKeys)
		if x.o.Valid || x.chance(0.5) {
			switch k {
			case "sketch", "center":
				b.WriteString(k + ": " + x.pick([]string{"true", "false"}))
			case "theme-id", "dark-theme-id":
				b.WriteString(k + ": " + x.pick([]string{"0", "1", "3", "200", "300"}))
			case "pad":
				b.WriteString(k + ": " + x.pick([]string{"0", "10", "100"}))
			case "layout-engine":
				b.WriteString(k + ": " + x.pick([]string{"dagre", "elk"}))
			case "theme-overrides", "dark-theme-overrides":
				b.WriteString(k + ": {\n" + x.pick(themeCodes[:7]) + ": " + x.pick([]string{"red", "\"#abcdef\"", "blue"}) + "\n}")
			case "data":
				b.WriteString("data: {k: v; arr: [1; 2]}")
			default:
				b.WriteString("pad: 5")
			}
		} else {
			x.f("config:wild")
			switch k {
			case "theme-overrides", "dark-theme-overrides":
				if x.chance(0.6) {
					x.f("config:theme-overrides-wild")
					b.WriteString(k + ": {\n" + x.pick(themeCodes) + x.anyValue() + "\n}")
				} else {
					b.WriteString(k + x.anyValue())
				}
			default:
				b.WriteString(k + x.anyValue())
			}
		}
		b.WriteString("\n")
	}
	b.WriteString("}")
	return b.String()
}

func (x *g) boardsStmt() string {
	kw := x.pick(boardKw)
	x.f("boards:" + kw)
	var b strings.Builder
	b.WriteString(kw + ": {\n")
	n := 1 + x.r.Intn(2)
	for i := 0; i < n; i++ {
		nm := x.pick([]string{"l1", "l2", "s1", "x", "a", "Ⱥ", "index"})
		if !x.o.Valid && x.chance(0.15) {
			x.f("boards:non-map")
			b.WriteString(nm + x.anyValue() + "\n")
			continue
		}
		b.WriteString(nm + ": {\n")
		if x.chance(0.3) {
			// connections at the top level of the board + an edge glob with a src/dst filter on them
			x.f("boards:edge-glob-filter")
			b.WriteString(x.pick([]string{"a -> b", "a -> b\nb -> c", "x.y -> a"}) + "\n")
			b.WriteString("(* -> *)[*]: {\n" + x.pick([]string{"&src: a", "&dst: b", "!&src: a", "&src: x.y", "&dst: *", "&src.shape: circle"}) + "\nstyle.stroke: red\n}\n")
		}
		m := 1 + x.r.Intn(3)
		x.depth++
		for j := 0; j < m; j++ {
			b.WriteString(x.stmt() + "\n")
		}
		x.depth--
		b.WriteString("}\n")
	}
	b.WriteString("}")
	return b.String()
}

func (x *g) linkStmt() string {
	x.f("link")
	return x.pick(plainNames) + ".link: " + x.pick([]string{"layers.l1", "layers.x", "scenarios.s1", "steps.l1", "_.layers.l2", "_", "_._", "layers.l1.layers.x", "https://d2lang.com", "layers.nosuch", "\"layers.l1\"", "root.layers.l1"})
}

// a class / sql_table object whose shape is set first, then children, nested scopes and edges with `_` references
// declared under it (compileClass / compileSQLTable drop the children map before the edges are compiled)
func (x *g) tableScope() string {
	x.f("table-scope")
	n := x.pick([]string{"d", "t", "A"})
	shape := x.pick([]string{"class", "sql_table"})
	var b strings.Builder
	if x.chance(0.2) {
		b.WriteString("shape: " + shape + "\n")
	} else {
		b.WriteString(n + ": {shape: " + shape + "; f0; f1: int}\n")
	}
	inner := x.pick([]string{"_.A.B <-> b", "_.z.y -> b", "a -> _.q", "_._.x -> y", "f0 -> f1", "c.d", "_.f0 -> f1", "x: {_.f1 -> _._.A}"})
	switch x.r.Intn(3) {
	case 0:
		b.WriteString(n + ": {c: {" + inner + "}}")
	case 1:
		b.WriteString(n + ".c: {\n" + inner + "\n}")
	default:
		b.WriteString(n + ": {\n" + inner + "\n" + x.stmt() + "\n}")
	}
	return b.String()
}

func (x *g) decl() string {
	p := x.path()
	if x.o.Valid {
		switch k := x.r.Intn(10); {
		case k < 3:
			return p
		case k < 6:
			return p + ": " + x.scalar()
		case k < 9 && x.depth < x.o.Depth:
			return p + ": " + x.pick([]string{"", "L "}) + x.mapBody(3)
		default:
			return p + "." + x.validReserved()
		}
	}
	return p + x.anyValue()
}

func (x *g) stmt() string {
	for {
		switch k := x.r.Intn(100); {
		case k < 28:
			return x.decl()
		case k < 44:
			return x.edgeStmt()
		case k < 50:
			if x.o.Render {
				continue
			}
			return x.edgeIndexStmt()
		case k < 62:
			if x.o.Render && x.chance(0.5) {
				continue
			}
			return x.globStmt()
		case k < 68:
			return x.validReserved()
		case k < 70:
			if !x.o.Render && x.chance(0.7) {
				continue
			}
			return x.renderState()
		case k < 76:
			if x.o.Valid {
				continue
			}
			return x.wildReserved()
		case k < 79:
			return x.comment()
		case k < 82:
			return x.classUse()
		case k < 85:
			if x.depth > 1 && x.chance(0.7) {
				continue
			}
			return x.classesStmt()
		case k < 89:
			if x.depth > 1 && x.chance(0.7) {
				continue
			}
			return x.varsStmt()
		case k < 92:
			if x.depth > 2 || (x.o.Render && x.depth > 0) {
				continue
			}
			return x.boardsStmt()
		case k < 94:
			if !x.o.Imports {
				continue
			}
			return x.importRef(true)
		case k < 96:
			if len(x.vars) == 0 {
				continue
			}
			x.f("spread:substitution")
			return "...${" + x.pick(x.vars) + "}"
		case k < 97:
			if x.o.Render {
				continue
			}
			return x.linkStmt()
		case k < 98:
			if x.o.Render || x.depth > 1 {
				continue
			}
			return x.tableScope()
		default:
			if x.o.Valid {
				continue
			}
			x.f("stmt:junk")
			return x.pick([]string{"a: b: c", "x: {", "}", "[", "a -> ", "-> b", "(a -> b)[", "a.", ".a", "a: |md", "x: @", "...", "${", "&a: b", "!&shape: circle", "a; b; c", "\"unterminated", "'", "x: [a; b", "a <-> b <- c --"})
		}
	}
}

func (x *g) program(n int) string {
	var b strings.Builder
	for i := 0; i < n; i++ {
		b.WriteString(x.stmt())
		b.WriteString("\n")
	}
	return b.String()
}

// Gen builds one program plus its importable files.
func Gen(r *rand.Rand, o Opts) Prog {
	if o.Size == 0 {
		o.Size = 8
	}
	if o.Depth == 0 {
		o.Depth = 3
	}
	x := &g{r: r, o: o, feat: map[string]bool{}}
	p := Prog{Files: map[string]string{}}
	if o.Imports {
		nf := r.Intn(4)
		names := []string{"x", "y", "dir/z", "w"}
		for i := 0; i < nf; i++ {
			x.files = append(x.files, names[i])
		}
		if nf > 0 && !o.Valid && x.chance(0.3) {
			// the root file itself can be imported → cycles through index
			x.files = append(x.files, "index")
			x.f("import:index-cycle")
		}
		for i := 0; i < nf; i++ {
			saveVars, saveCls := x.vars, x.cls
			body := x.program(1 + r.Intn(4))
			if x.chance(0.25) {
				// a value-less key and a keyed target, so that `@x.a` finds fields of every shape
				body += x.pick(plainNames) + "\n"
			}
			if x.chance(0.15) {
				body += x.pick(plainNames) + ".link" + x.anyValue() + "\n"
				x.f("import:link-inside")
			}
			p.Files[names[i]+".d2"] = body
			x.vars, x.cls = saveVars, saveCls
		}
	}
	p.Src = x.program(1 + r.Intn(o.Size))
	if !o.Valid && x.chance(0.12) {
		p.Src = Mutate(r, p.Src)
		x.f("mutated")
	}
	for k := range x.feat {
		p.Feat = append(p.Feat, k)
	}
	sort.Strings(p.Feat)
	return p
}

// Mutate applies 1–3 rune-level edits (drop / duplicate / swap / insert a delimiter); the result stays valid UTF-8.
func Mutate(r *rand.Rand, s string) string {
	rs := []rune(s)
	if len(rs) == 0 {
		return s
	}
	delims := []rune("{}[]():;.|*&!@$-<>\"'#\\\n _")
	for k, n := 0, 1+r.Intn(3); k < n && len(rs) > 0; k++ {
		i := r.Intn(len(rs))
		switch r.Intn(4) {
		case 0:
			rs = append(rs[:i], rs[i+1:]...)
		case 1:
			rs = append(rs[:i+1], rs[i:]...)
		case 2:
			j := r.Intn(len(rs))
			rs[i], rs[j] = rs[j], rs[i]
		default:
			d := delims[r.Intn(len(delims))]
			rs = append(rs[:i], append([]rune{d}, rs[i:]...)...)
		}
	}
	out := string(rs)
	if !utf8.ValidString(out) {
		return s
	}
	return out
}
