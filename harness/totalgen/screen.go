package totalgen

import (
	"bufio"
	"encoding/json"
	"fmt"
	"io"
	"os"
	"os/exec"
	"runtime/debug"
	"strings"
	"testing/fstest"
	"time"

	"oss.terrastruct.com/d2/d2compiler"
)

// Screening: a compile that overflows the stack or never returns would take the whole harness process with it
// (neither is a recoverable panic).  C08/C25 compare results of programs that *do* compile or fail cleanly, so
// each generated program is first compiled once in a sacrificial worker process (this binary re-executed with
// TOTALGEN_WORKER=1); programs that kill or hang the worker are C07's subject and are skipped here.

type screenReq struct {
	Src   string            `json:"src"`
	Files map[string]string `json:"files"`
}

// MaybeWorker must be called first in main(); it never returns in a worker process.
func MaybeWorker() {
	if os.Getenv("TOTALGEN_WORKER") == "" {
		return
	}
	debug.SetMaxStack(96 << 20)
	in := bufio.NewReaderSize(os.Stdin, 1<<20)
	out := bufio.NewWriter(os.Stdout)
	for {
		line, err := in.ReadBytes('\n')
		if len(line) > 0 {
			var q screenReq
			if json.Unmarshal(line, &q) == nil {
				done := make(chan string, 1)
				go func() {
					defer func() {
						if r := recover(); r != nil {
							done <- "panic"
						}
					}()
					fs := fstest.MapFS{}
					for k, v := range q.Files {
						fs[k] = &fstest.MapFile{Data: []byte(v)}
					}
					_, _, err := d2compiler.Compile("index.d2", strings.NewReader(q.Src), &d2compiler.CompileOptions{FS: fs})
					if err != nil {
						done <- "errors"
					} else {
						done <- "graph"
					}
				}()
				var res string
				select {
				case res = <-done:
				case <-time.After(10 * time.Second):
					res = "hang"
				}
				fmt.Fprintln(out, res)
				out.Flush()
				if res == "hang" {
					os.Exit(7)
				}
			}
		}
		if err != nil {
			os.Exit(0)
		}
	}
}

type Screener struct {
	cmd   *exec.Cmd
	in    io.WriteCloser
	lines chan string
}

func (s *Screener) start() {
	cmd := exec.Command(os.Args[0])
	cmd.Env = append(os.Environ(), "TOTALGEN_WORKER=1")
	s.cmd = cmd
	s.in, _ = cmd.StdinPipe()
	so, _ := cmd.StdoutPipe()
	s.lines = make(chan string, 1)
	if err := cmd.Start(); err != nil {
		panic(err)
	}
	lines := s.lines
	go func() {
		rd := bufio.NewReader(so)
		for {
			l, err := rd.ReadString('\n')
			if err != nil {
				close(lines)
				return
			}
			lines <- strings.TrimSpace(l)
		}
	}()
}

// Outcome compiles once in the worker: "graph", "errors", "panic", "hang" or "fatal".
func (s *Screener) Outcome(src string, files map[string]string) string {
	if s.cmd == nil {
		s.start()
	}
	b, _ := json.Marshal(screenReq{src, files})
	s.in.Write(append(b, '\n'))
	select {
	case l, ok := <-s.lines:
		if !ok {
			s.cmd.Wait()
			s.cmd = nil
			return "fatal"
		}
		if l == "hang" {
			s.Close()
		}
		return l
	case <-time.After(25 * time.Second):
		s.Close()
		return "hang"
	}
}

func (s *Screener) Close() {
	if s.cmd != nil {
		s.in.Close()
		s.cmd.Process.Kill()
		s.cmd.Wait()
		s.cmd = nil
	}
}
