// laydump — debugging aid of the layout group: lays out a D2 program (stdin, or generated) with both engines
// and prints the canonical result.  Not part of any check.
//
//	laydump [-engine dagre|elk|both] [-gen profile -seed N -n K] [-v]
package main

import (
	"encoding/json"
	"flag"
	"fmt"
	"io"
	"math/rand"
	"os"
	"runtime"
	"time"

	"d2v/harness/lay"
)

func main() {
	lay.MaybeChild()
	engine := flag.String("engine", "both", "")
	gen := flag.String("gen", "", "profile to generate instead of reading stdin")
	seed := flag.Int64("seed", 1, "")
	n := flag.Int("n", 1, "")
	v := flag.Bool("v", false, "print full JSON")
	src := flag.Bool("src", false, "print sources")
	flag.Parse()
	engines := []string{"dagre", "elk"}
	if *engine != "both" {
		engines = []string{*engine}
	}
	var jobs []lay.Job
	if *gen == "" {
		b, _ := io.ReadAll(os.Stdin)
		for _, e := range engines {
			jobs = append(jobs, lay.Job{Src: string(b), Engine: e, Render: true})
		}
	} else {
		g := &lay.Gen{R: rand.New(rand.NewSource(*seed))}
		for i := 0; i < *n; i++ {
			p := *gen
			if p == "all" {
				p = lay.Profiles[i%len(lay.Profiles)]
			}
			s := g.Program(p)
			for _, e := range engines {
				jobs = append(jobs, lay.Job{Src: s, Engine: e, Render: true, Tag: p})
			}
		}
	}
	t := time.Now()
	res := lay.RunAll(jobs, runtime.NumCPU(), 0, 0)
	fmt.Fprintf(os.Stderr, "%d jobs in %v\n", len(jobs), time.Since(t))
	stat := map[string]int{}
	for i, r := range res {
		key := jobs[i].Tag + "/" + r.Engine + "/compile:" + short(r.Compile)
		if r.Compile == "ok" {
			for _, b := range r.Boards {
				if b.Layout != "ok" || b.Export != "ok" {
					key += "/layout:" + short(b.Layout) + "/export:" + short(b.Export)
					break
				}
			}
			key += "/render:" + short(r.Render)
		}
		stat[key]++
		if *src && (r.Compile != "ok" || r.Render != "ok") {
			fmt.Printf("---- %s %s\n%s\n", r.Engine, key, r.Src)
		}
		if *v {
			b, _ := json.MarshalIndent(r, "", " ")
			fmt.Println(string(b))
		}
	}
	for k, c := range stat {
		fmt.Printf("%5d %s\n", c, k)
	}
}

func short(s string) string {
	if len(s) > 90 {
		return s[:90]
	}
	return s
}
