package main

import (
	"d2v/harness/edit"
	"d2v/harness/hl"
)

// C37: histories of real d2oracle edits (shared harness in harness/edit); this main only selects the
// operation mix and which parts of a step record the C37 driver reads.
func main() { hl.Main("C37", edit.Run("C37")) }
