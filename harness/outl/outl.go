// Package outl — shared helpers of the output-layer harnesses (C28, C29, C31, C32): compile + layout + export of a
// D2 program with the real pipeline (d2lib.Compile with dagre or ELK), a worker pool, and a seeded generator of styled
// D2 programs (every style keyword, label / icon / tooltip positions, shadows, 3D, multiple, containers, connections
// with labels and arrowhead labels, classes/tables, text, grids and small sequence diagrams).
package outl

import (
	"context"
	"fmt"
	"math/rand"
	"runtime"
	"strings"
	"sync"

	"oss.terrastruct.com/d2/d2graph"
	"oss.terrastruct.com/d2/d2layouts/d2dagrelayout"
	"oss.terrastruct.com/d2/d2layouts/d2elklayout"
	"oss.terrastruct.com/d2/d2lib"
	"oss.terrastruct.com/d2/d2plugin"
	"oss.terrastruct.com/d2/d2renderers/d2svg"
	"oss.terrastruct.com/d2/d2target"
	"oss.terrastruct.com/d2/lib/textmeasure"

	"d2v/harness/hl"
)

// Worker owns the state that must not be shared between goroutines (the text ruler caches).
type Worker struct {
	Ruler *textmeasure.Ruler
	Ctx   context.Context
}

func NewWorker() *Worker {
	r, err := textmeasure.NewRuler()
	if err != nil {
		panic(err)
	}
	return &Worker{Ruler: r, Ctx: hl.QuietCtx()}
}

// Par runs f(i, worker) for i in [0,n) on all cores; results must be written to per-index slots by f.
func Par(n int, f func(i int, w *Worker)) {
	nw := runtime.NumCPU()
	if nw > n {
		nw = n
	}
	if nw < 1 {
		nw = 1
	}
	var wg sync.WaitGroup
	ch := make(chan int, n)
	for i := 0; i < n; i++ {
		ch <- i
	}
	close(ch)
	for k := 0; k < nw; k++ {
		wg.Add(1)
		go func() {
			defer wg.Done()
			w := NewWorker()
			for i := range ch {
				f(i, w)
			}
		}()
	}
	wg.Wait()
}

// Compile runs the real pipeline: d2compiler → theme → dimensions → layout (dagre or ELK) → d2exporter.Export.
// ro may carry ThemeID / DarkThemeID / overrides / pad; it is completed by d2lib exactly as the CLI's is.
func (w *Worker) Compile(src string, engine string, ro *d2svg.RenderOpts) (d *d2target.Diagram, g *d2graph.Graph, err error) {
	if ro == nil {
		ro = &d2svg.RenderOpts{}
	}
	layout := engine
	co := &d2lib.CompileOptions{
		Ruler:  w.Ruler,
		Layout: &layout,
		LayoutResolver: func(engine string) (d2graph.LayoutGraph, error) {
			if engine == "elk" {
				return d2elklayout.DefaultLayout, nil
			}
			return d2dagrelayout.DefaultLayout, nil
		},
	}
	out := hl.Guard(func() { d, g, err = d2lib.Compile(w.Ctx, src, co, ro) })
	if out != "ok" {
		return nil, nil, fmt.Errorf("%s", out)
	}
	if err != nil {
		return d, g, err
	}
	// the CLI refuses graphs that use features the layout engine does not support (container-to-descendant edges,
	// container dimensions, … under dagre): d2cli.compile calls FeatureSupportCheck on the compiled graph. Do the same,
	// for every board, so that only configurations a user can reach are observed.
	var info *d2plugin.PluginInfo
	if engine == "elk" {
		info, err = d2plugin.ELKPlugin.Info(w.Ctx)
	} else {
		info, err = d2plugin.DagrePlugin.Info(w.Ctx)
	}
	if err != nil {
		return nil, nil, err
	}
	var check func(b *d2graph.Graph) error
	check = func(b *d2graph.Graph) error {
		if err := d2plugin.FeatureSupportCheck(info, b); err != nil {
			return err
		}
		for _, l := range [][]*d2graph.Graph{b.Layers, b.Scenarios, b.Steps} {
			for _, sub := range l {
				if err := check(sub); err != nil {
					return err
				}
			}
		}
		return nil
	}
	if err := check(g); err != nil {
		return nil, nil, fmt.Errorf("unsupported by %s: %v", engine, err)
	}
	return d, g, nil
}

// ---------------------------------------------------------------------------------------------------------------
// generator

type Gen struct {
	R *rand.Rand
	n int
	// knobs
	NonASCII   bool // labels may contain non-ASCII text
	MultiLine  bool // labels may contain \n
	Special    bool // classes, tables, text/code shapes, grids, sequence diagrams
	StylesProb int  // percent chance that a given style keyword is set on an element
	// DescendantEdges allows connections between a container and its own descendants / container self loops (ELK only)
	DescendantEdges bool
}

func isAncestor(a, b *Node) bool {
	for p := b.Parent; p != nil; p = p.Parent {
		if p == a {
			return true
		}
	}
	return false
}

var Shapes = []string{"rectangle", "square", "page", "parallelogram", "document", "cylinder", "queue", "package",
	"step", "callout", "stored_data", "person", "diamond", "oval", "circle", "hexagon", "cloud", "c4-person"}

var LabelPositions = []string{"top-left", "top-center", "top-right", "center-left", "center-center", "center-right",
	"bottom-left", "bottom-center", "bottom-right", "outside-top-left", "outside-top-center", "outside-top-right",
	"outside-left-top", "outside-left-center", "outside-left-bottom", "outside-right-top", "outside-right-center",
	"outside-right-bottom", "outside-bottom-left", "outside-bottom-center", "outside-bottom-right",
	"border-top-left", "border-top-center", "border-top-right", "border-left-top", "border-left-center", "border-left-bottom",
	"border-right-top", "border-right-center", "border-right-bottom", "border-bottom-left", "border-bottom-center", "border-bottom-right"}

var TooltipPositions = []string{"top-left", "top-center", "top-right", "center-left", "center-right", "bottom-left", "bottom-center", "bottom-right"}

var Colors = []string{"red", "#ff0000", "#0f0", "#1A2B3C", "honeydew", "DarkSlateGray", "transparent", "#abc",
	"blue", "#FFF", "linear-gradient(red, blue)", "radial-gradient(#fff 10%, #00f)"}

var words = []string{"alpha", "beta", "gamma", "delta", "a longer label here", "x", "42", "the quick brown fox", "Q", "ok go", "db-1", "a_b", "UPPER lower"}
var nonASCIIWords = []string{"Ω", "naïve café", "日本語", "😀 smile", "ünï", "→ arrow", "ß"}

func (g *Gen) word() string {
	if g.NonASCII && g.R.Intn(4) == 0 {
		return nonASCIIWords[g.R.Intn(len(nonASCIIWords))]
	}
	w := words[g.R.Intn(len(words))]
	if g.MultiLine && g.R.Intn(6) == 0 {
		w += "\\n" + words[g.R.Intn(len(words))]
	}
	return w
}

func (g *Gen) fresh() string { g.n++; return fmt.Sprintf("n%d", g.n) }

func (g *Gen) pick(xs []string) string { return xs[g.R.Intn(len(xs))] }

func (g *Gen) boolv() string {
	return g.pick([]string{"true", "false", "true", "false", "true", "TRUE", "1", "0", "t", "F"})
}

func (g *Gen) chance(p int) bool { return g.R.Intn(100) < p }

// StyleLine is one `style.<k>: <v>` setting, kept so that harnesses can state expectations.
type StyleLine struct{ K, V string }

var shapeStyleKeys = []string{"opacity", "stroke", "fill", "fill-pattern", "stroke-width", "stroke-dash", "border-radius",
	"shadow", "3d", "multiple", "font", "font-size", "font-color", "bold", "italic", "underline", "double-border", "text-transform"}
var edgeStyleKeys = []string{"opacity", "stroke", "fill", "stroke-width", "stroke-dash", "border-radius", "font", "font-size",
	"font-color", "bold", "italic", "underline", "animated", "text-transform"}

func (g *Gen) styleValue(k string) string {
	switch k {
	case "opacity":
		return g.pick([]string{"0", "1", "0.5", "0.25", "1.0", ".75", "1e-1"})
	case "stroke", "fill", "font-color":
		return g.pick(Colors)
	case "fill-pattern":
		return g.pick([]string{"none", "dots", "lines", "grain", "paper"})
	case "stroke-width":
		return g.pick([]string{"0", "1", "2", "3", "4", "5", "8", "15", "+7", "07"})
	case "stroke-dash":
		return g.pick([]string{"0", "1", "3", "5", "10"})
	case "border-radius":
		return g.pick([]string{"0", "3", "8", "20", "999"})
	case "shadow", "3d", "multiple", "bold", "italic", "underline", "double-border", "animated", "filled":
		return g.boolv()
	case "font":
		return g.pick([]string{"mono", "MONO", "Mono"})
	case "font-size":
		return g.pick([]string{"8", "12", "16", "24", "55", "100"})
	case "text-transform":
		return g.pick([]string{"none", "uppercase", "lowercase", "capitalize"})
	}
	return "1"
}

func quoteIfNeeded(v string) string {
	if strings.ContainsAny(v, "#(), ") {
		return "\"" + v + "\""
	}
	return v
}

// shapeStyles draws style settings that the compiler accepts on the given shape (3d: rectangle/square/hexagon,
// double-border: rectangle/square/circle/oval).
func (g *Gen) shapeStyles(shape string) []StyleLine {
	var out []StyleLine
	for _, l := range g.styles(shapeStyleKeys) {
		switch l.K {
		case "3d":
			if shape != "" && shape != "rectangle" && shape != "square" && shape != "hexagon" {
				continue
			}
		case "double-border":
			if shape != "" && shape != "rectangle" && shape != "square" && shape != "circle" && shape != "oval" {
				continue
			}
		}
		out = append(out, l)
	}
	return out
}

func (g *Gen) plainWord() string { return words[g.R.Intn(len(words))] }

func (g *Gen) styles(keys []string) []StyleLine {
	var out []StyleLine
	for _, k := range keys {
		if g.chance(g.StylesProb) {
			out = append(out, StyleLine{k, g.styleValue(k)})
		}
	}
	return out
}

type Node struct {
	Name   string
	Parent *Node
	Kids   []*Node
	Shape  string
	Label  *string
	Styles []StyleLine
	Extra  []string // further attribute lines (label.near, icon, tooltip, link, width …)
}

func (n *Node) Path() string {
	if n.Parent == nil || n.Parent.Name == "" {
		return n.Name
	}
	return n.Parent.Path() + "." + n.Name
}

func (n *Node) Level() int {
	l := 0
	for p := n.Parent; p != nil; p = p.Parent {
		l++
	}
	return l
}

type Edge struct {
	Src, Dst string
	Arrow    string
	Label    *string
	Styles   []StyleLine
	Extra    []string
}

type Program struct {
	Root   *Node
	Nodes  []*Node // every node except the root, in declaration order
	Edges  []*Edge
	Header []string // root-level attribute lines (direction, root style …)
	Tail   []string // raw trailing blocks (tables, sequence diagrams, grids)
}

func (g *Gen) emitNode(sb *strings.Builder, n *Node, ind string) {
	open := n.Name
	if n.Label != nil {
		open += ": " + quoteLabel(*n.Label)
	}
	sb.WriteString(ind + open + " {\n")
	in := ind + "  "
	if n.Shape != "" {
		sb.WriteString(in + "shape: " + n.Shape + "\n")
	}
	for _, s := range n.Styles {
		sb.WriteString(in + "style." + s.K + ": " + quoteIfNeeded(s.V) + "\n")
	}
	for _, e := range n.Extra {
		sb.WriteString(in + e + "\n")
	}
	for _, k := range n.Kids {
		g.emitNode(sb, k, in)
	}
	sb.WriteString(ind + "}\n")
}

func quoteLabel(s string) string {
	return "\"" + strings.ReplaceAll(s, "\"", "\\\"") + "\""
}

func (p *Program) Source(g *Gen) string {
	var sb strings.Builder
	for _, h := range p.Header {
		sb.WriteString(h + "\n")
	}
	for _, k := range p.Root.Kids {
		g.emitNode(&sb, k, "")
	}
	for _, e := range p.Edges {
		line := e.Src + " " + e.Arrow + " " + e.Dst
		if e.Label != nil {
			line += ": " + quoteLabel(*e.Label)
		}
		if len(e.Styles)+len(e.Extra) > 0 {
			line += " {\n"
			for _, s := range e.Styles {
				line += "  style." + s.K + ": " + quoteIfNeeded(s.V) + "\n"
			}
			for _, x := range e.Extra {
				line += "  " + x + "\n"
			}
			line += "}"
		}
		sb.WriteString(line + "\n")
	}
	for _, t := range p.Tail {
		sb.WriteString(t + "\n")
	}
	return sb.String()
}

// Program generates one diagram: nNodes shapes in a random forest of depth ≤ 3, random edges, styles.
func (g *Gen) Program(nNodes, nEdges int) *Program {
	g.n = 0
	p := &Program{Root: &Node{}}
	for i := 0; i < nNodes; i++ {
		parent := p.Root
		if len(p.Nodes) > 0 && g.chance(35) {
			c := p.Nodes[g.R.Intn(len(p.Nodes))]
			if c.Level() < 3 && c.Shape != "text" {
				parent = c
			}
		}
		n := &Node{Name: g.fresh(), Parent: parent}
		parent.Kids = append(parent.Kids, n)
		p.Nodes = append(p.Nodes, n)
	}
	for _, n := range p.Nodes {
		isContainer := len(n.Kids) > 0
		if !isContainer && g.chance(60) {
			n.Shape = g.pick(Shapes)
		} else if isContainer && g.chance(25) {
			n.Shape = g.pick([]string{"rectangle", "square", "oval", "hexagon", "cloud", "package", "page", "cylinder", "queue", "diamond"})
		}
		if g.chance(70) {
			l := g.word()
			n.Label = &l
		} else if g.chance(10) {
			l := ""
			n.Label = &l
		}
		n.Styles = g.shapeStyles(n.Shape)
		if g.chance(30) {
			n.Extra = append(n.Extra, "label.near: "+g.pick(LabelPositions))
		}
		if g.chance(20) {
			n.Extra = append(n.Extra, "icon: https://icons.terrastruct.com/essentials/004-picture.svg")
			if g.chance(70) {
				n.Extra = append(n.Extra, "icon.near: "+g.pick(LabelPositions))
			}
		}
		if g.chance(12) {
			n.Extra = append(n.Extra, "tooltip: "+quoteLabel(g.word()))
			if g.chance(50) {
				n.Extra = append(n.Extra, "tooltip.near: "+g.pick(TooltipPositions))
			}
		}
		if g.chance(8) {
			n.Extra = append(n.Extra, "link: https://example.com/"+n.Name)
		}
		if n.Shape == "circle" || n.Shape == "square" {
			if !isContainer && g.chance(12) {
				d := 20 + g.R.Intn(300)
				n.Extra = append(n.Extra, fmt.Sprintf("width: %d", d), fmt.Sprintf("height: %d", d))
			}
		} else {
			if !isContainer && g.chance(12) {
				n.Extra = append(n.Extra, fmt.Sprintf("width: %d", 20+g.R.Intn(300)))
			}
			if !isContainer && g.chance(12) {
				n.Extra = append(n.Extra, fmt.Sprintf("height: %d", 20+g.R.Intn(300)))
			}
		}
	}
	if g.chance(40) {
		p.Header = append(p.Header, "direction: "+g.pick([]string{"up", "down", "left", "right"}))
	}
	if g.chance(25) {
		for _, s := range g.styles([]string{"fill", "stroke", "stroke-width", "fill-pattern", "double-border"}) {
			p.Header = append(p.Header, "style."+s.K+": "+quoteIfNeeded(s.V))
		}
	}
	if len(p.Nodes) > 0 {
		for i := 0; i < nEdges; i++ {
			a := p.Nodes[g.R.Intn(len(p.Nodes))]
			b := p.Nodes[g.R.Intn(len(p.Nodes))]
			if !g.DescendantEdges && (len(a.Kids) > 0 || len(b.Kids) > 0) && (a == b || isAncestor(a, b) || isAncestor(b, a)) {
				continue // dagre refuses container self loops and container-to-descendant connections
			}
			e := &Edge{Src: a.Path(), Dst: b.Path(), Arrow: g.pick([]string{"->", "->", "->", "--", "<-", "<->"})}
			if g.chance(55) {
				l := g.word()
				e.Label = &l
			}
			e.Styles = g.styles(edgeStyleKeys)
			if g.chance(20) && e.Arrow != "--" {
				e.Extra = append(e.Extra, "target-arrowhead: "+quoteLabel(g.word())+" {shape: "+g.pick([]string{"triangle", "arrow", "diamond", "circle", "cf-one", "cf-many-required", "cross", "box"})+"}")
			}
			if g.chance(15) && (e.Arrow == "<-" || e.Arrow == "<->") {
				e.Extra = append(e.Extra, "source-arrowhead: "+quoteLabel(g.word()))
			} else if g.chance(8) {
				e.Extra = append(e.Extra, "source-arrowhead.label: "+quoteLabel(g.word()))
			}
			if g.chance(8) {
				e.Extra = append(e.Extra, "icon: https://icons.terrastruct.com/essentials/004-picture.svg")
			}
			p.Edges = append(p.Edges, e)
		}
	}
	if g.Special {
		if g.chance(25) {
			p.Tail = append(p.Tail, g.tableBlock())
		}
		if g.chance(25) {
			p.Tail = append(p.Tail, g.classBlock())
		}
		if g.chance(25) {
			p.Tail = append(p.Tail, g.textBlock())
		}
		if g.chance(15) {
			p.Tail = append(p.Tail, g.gridBlock())
		}
		if g.chance(15) {
			p.Tail = append(p.Tail, g.seqBlock())
		}
	}
	return p
}

func (g *Gen) styleBlock(keys []string, ind string) string {
	s := ""
	for _, l := range g.styles(keys) {
		s += ind + "style." + l.K + ": " + quoteIfNeeded(l.V) + "\n"
	}
	return s
}

func (g *Gen) tableBlock() string {
	n := g.fresh()
	s := n + ": " + quoteLabel(g.plainWord()) + " {\n  shape: sql_table\n"
	s += g.styleBlock([]string{"fill", "stroke", "font-color", "font-size", "opacity", "shadow", "border-radius", "stroke-width", "bold", "italic"}, "  ")
	for i := 0; i < 1+g.R.Intn(4); i++ {
		s += fmt.Sprintf("  c%d: %s", i, g.pick([]string{"int", "varchar(20)", "uuid", "timestamp"}))
		if g.chance(40) {
			s += " {constraint: " + g.pick([]string{"primary_key", "foreign_key", "unique"}) + "}"
		}
		s += "\n"
	}
	return s + "}"
}

func (g *Gen) classBlock() string {
	n := g.fresh()
	s := n + ": " + quoteLabel(g.plainWord()) + " {\n  shape: class\n"
	s += g.styleBlock([]string{"fill", "stroke", "font-color", "font-size", "opacity", "shadow", "stroke-width", "bold", "italic", "underline"}, "  ")
	for i := 0; i < 1+g.R.Intn(3); i++ {
		s += fmt.Sprintf("  +f%d: %s\n", i, g.pick([]string{"int", "string", "\"[]byte\""}))
	}
	if g.chance(60) {
		s += "  -m(a int): bool\n"
	}
	return s + "}"
}

func (g *Gen) textBlock() string {
	n := g.fresh()
	switch g.R.Intn(3) {
	case 0:
		return n + ": |md\n  # " + g.pick(words) + "\n  some *markdown* text\n| {\n" + g.styleBlock([]string{"fill", "font-color", "font-size", "opacity", "bold", "italic"}, "  ") + "}"
	case 1:
		return n + ": |go\n  func main() { println(1) }\n| {\n" + g.styleBlock([]string{"fill", "stroke", "font-color", "font-size", "opacity"}, "  ") + "}"
	default:
		return n + ": " + quoteLabel(g.word()) + " {\n  shape: text\n" + g.styleBlock([]string{"fill", "font-color", "font-size", "opacity", "bold", "italic", "underline", "text-transform"}, "  ") + "}"
	}
}

func (g *Gen) gridBlock() string {
	n := g.fresh()
	s := n + ": {\n" + fmt.Sprintf("  grid-rows: %d\n", 1+g.R.Intn(3))
	if g.chance(50) {
		s += fmt.Sprintf("  grid-gap: %d\n", g.R.Intn(30))
	}
	s += g.styleBlock([]string{"fill", "stroke", "stroke-width", "shadow", "multiple", "font-color"}, "  ")
	for i := 0; i < 2+g.R.Intn(5); i++ {
		s += fmt.Sprintf("  g%d: %s {\n%s  }\n", i, quoteLabel(g.word()), g.styleBlock([]string{"fill", "stroke", "stroke-width", "shadow", "3d", "font-color", "bold"}, "    "))
	}
	return s + "}"
}

func (g *Gen) seqBlock() string {
	n := g.fresh()
	s := n + ": {\n  shape: sequence_diagram\n"
	s += g.styleBlock([]string{"fill", "stroke", "stroke-width", "font-color"}, "  ")
	actors := []string{"alice", "bob", "carol"}
	for _, a := range actors[:2+g.R.Intn(2)] {
		s += "  " + a + ": {\n" + g.styleBlock([]string{"fill", "stroke", "stroke-width", "font-color", "shadow", "multiple"}, "    ") + "  }\n"
	}
	for i := 0; i < 1+g.R.Intn(4); i++ {
		a, b := g.pick(actors[:2]), g.pick(actors[:2])
		s += "  " + a + " -> " + b + ": " + quoteLabel(g.word()) + " {\n" + g.styleBlock([]string{"stroke", "stroke-width", "stroke-dash", "font-color", "bold", "italic"}, "    ") + "  }\n"
	}
	if g.chance(40) {
		s += "  grp: {\n    alice -> bob: in group\n" + g.styleBlock([]string{"fill", "stroke", "stroke-width", "font-color"}, "    ") + "  }\n"
	}
	return s + "}"
}
