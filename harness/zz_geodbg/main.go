package main

import (
	"fmt"
	"math/rand"
	"os"
	"strconv"

	"oss.terrastruct.com/d2/d2graph"
	"oss.terrastruct.com/d2/d2lib"

	"d2v/harness/geoutil"
	"d2v/harness/hl"
)

func main() {
	b, _ := os.ReadFile(os.Args[1])
	var layout d2graph.LayoutGraph = geoutil.Dagre
	if len(os.Args) > 2 {
		seed, _ := strconv.ParseInt(os.Args[2], 10, 64)
		layout = geoutil.FakeLayout(rand.New(rand.NewSource(seed)))
	}
	_, g, err := d2lib.Compile(hl.QuietCtx(), string(b), &d2lib.CompileOptions{Ruler: geoutil.Ruler(),
		LayoutResolver: func(string) (d2graph.LayoutGraph, error) { return layout, nil }}, nil)
	fmt.Println(err)
	for _, o := range g.Objects {
		ib := o.ToShape().GetInnerBox()
		fmt.Println(o.AbsID(), o.Shape.Value, o.TopLeft, o.Width, o.Height, "inner", ib.TopLeft, ib.Width, ib.Height)
	}
}
