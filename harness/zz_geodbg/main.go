package main

import (
	"fmt"
	"math/rand"
	"os"

	"oss.terrastruct.com/d2/d2graph"
	"oss.terrastruct.com/d2/d2lib"

	"d2v/harness/geoutil"
	"d2v/harness/hl"
)

func main() {
	b, _ := os.ReadFile(os.Args[1])
	layout := geoutil.FakeLayout(rand.New(rand.NewSource(745742141074)))
	if len(os.Args) > 2 {
		layout = geoutil.Dagre
	}
	_, g, err := d2lib.Compile(hl.QuietCtx(), string(b), &d2lib.CompileOptions{Ruler: geoutil.Ruler(),
		LayoutResolver: func(string) (d2graph.LayoutGraph, error) { return layout, nil }}, nil)
	fmt.Println(err)
	for _, o := range g.Objects {
		fmt.Println(o.AbsID(), o.TopLeft, o.Width, o.Height)
	}
}
