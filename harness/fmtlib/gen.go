package fmtlib

import (
	"fmt"
	"math/rand"
	"sort"
	"strings"
)

// Gen — grammar based generator of (mostly valid, mostly compilable) D2 programs.  Every program carries
// the set of features it exercises; the harness prints their histogram and forces the board-position and
// keyword-case features.

type Gen struct {
	R     *rand.Rand
	feat  map[string]bool
	files map[string]string

	// per-program style
	indentUnit string
	eol        string
	kwCase     float64 // probability that a reserved keyword in key position is written in odd case
	comments   float64 // probability of a comment between statements
	oneLineP   float64 // probability that a small map is written on one line
	depthMax   int
	depth      int // nesting depth inside shapes (0 = board root)

	names   []string // object names declared at the current board root (for edges / references)
	edges   [][3]string
	classes []string
	vars    []string
	arrVars []string
	mapVars []string
}

type Program struct {
	Src   string
	Files map[string]string
	Feat  []string
}

func (g *Gen) f(s string) { g.feat[s] = true }

func (g *Gen) chance(p float64) bool { return g.R.Float64() < p }

func (g *Gen) pick(xs ...string) string { return xs[g.R.Intn(len(xs))] }

var identPool = []string{"a", "b", "c", "x", "y", "z", "db", "api", "user", "q1", "node_1", "A", "Bob", "k8s", "web-app", "n0", "é", "日本", "x y", "1st"}
var labelPool = []string{"hello", "Hello World", "a b c", "x1", "42", "3.5", "true", "some label", "ünï", "v2-beta", "100%", "a/b", "it's", "T", "on", "label", "Label", "SHAPE", "Near", "Style", "Link", "Top", "null ish", "Width", "class", "Steps", "layers", "Icon", "Fill", "Bold", "Direction"}
var shapes = []string{"rectangle", "square", "page", "parallelogram", "document", "cylinder", "queue", "package", "step", "callout", "stored_data", "person", "diamond", "oval", "circle", "hexagon", "cloud", "text", "code"}
var colors = []string{"red", "blue", "\"#ff0000\"", "green", "\"#0d32b2\"", "honeydew", "transparent"}
var nearConsts = []string{"top-left", "top-center", "top-right", "center-left", "center-right", "bottom-left", "bottom-center", "bottom-right"}
var boardKws = []string{"layers", "scenarios", "steps"}

func oddCase(r *rand.Rand, s string) string {
	switch r.Intn(4) {
	case 0:
		return strings.ToUpper(s)
	case 1:
		return strings.ToUpper(s[:1]) + s[1:]
	case 2:
		b := []byte(s)
		for i := range b {
			if r.Intn(2) == 0 && b[i] >= 'a' && b[i] <= 'z' {
				b[i] -= 32
			}
		}
		if string(b) == s {
			return strings.ToUpper(s[:1]) + s[1:]
		}
		return string(b)
	default:
		// Kelvin sign / dotted capital I lower-case to ASCII letters: strings.ToLower("LİNK") == "link"
		if i := strings.IndexAny(s, "ki"); i >= 0 && r.Intn(3) == 0 {
			rep := "K"
			if s[i] == 'i' {
				rep = "İ"
			}
			return s[:i] + rep + s[i+1:]
		}
		return strings.ToUpper(s[:1]) + s[1:]
	}
}

// kw writes a reserved keyword in key position, sometimes in odd letter case
func (g *Gen) kw(s string) string {
	if g.chance(g.kwCase) {
		g.f("kwcase:key")
		return oddCase(g.R, s)
	}
	return s
}

func (g *Gen) kwPath(parts ...string) string {
	out := make([]string, len(parts))
	for i, p := range parts {
		out[i] = g.kw(p)
	}
	sep := "."
	if g.chance(0.05) {
		sep = " . "
		g.f("ws:dot-spaces")
	}
	return strings.Join(out, sep)
}

func (g *Gen) quoteIfNeeded(s string) string {
	need := false
	for _, c := range s {
		if !(c == '_' || c == '-' || c == ' ' || c >= '0' && c <= '9' || c >= 'a' && c <= 'z' || c >= 'A' && c <= 'Z' || c > 127) {
			need = true
		}
	}
	if strings.HasPrefix(s, "-") || strings.HasSuffix(s, "-") || strings.Contains(s, "--") || strings.HasPrefix(s, " ") || strings.HasSuffix(s, " ") {
		need = true
	}
	switch {
	case need || g.chance(0.06):
		if g.chance(0.5) && !strings.Contains(s, "'") {
			g.f("str:single-quoted")
			return "'" + s + "'"
		}
		g.f("str:double-quoted")
		return "\"" + strings.ReplaceAll(strings.ReplaceAll(s, "\\", "\\\\"), "\"", "\\\"") + "\""
	}
	return s
}

func (g *Gen) name() string {
	if len(g.names) > 0 && g.chance(0.6) {
		return g.names[g.R.Intn(len(g.names))]
	}
	n := identPool[g.R.Intn(len(identPool))]
	if g.chance(0.3) {
		n = fmt.Sprintf("%s%d", n, g.R.Intn(9))
	}
	return n
}

func (g *Gen) declName() string {
	n := g.name()
	g.names = append(g.names, n)
	return n
}

func (g *Gen) label() string {
	l := labelPool[g.R.Intn(len(labelPool))]
	low := strings.ToLower(l)
	if _, ok := reservedLower[low]; ok {
		if l != low {
			g.f("kwcase:value")
		} else {
			g.f("kw-as-value")
		}
	}
	if g.chance(0.1) && len(g.vars) > 0 {
		g.f("vars:subst-in-label")
		return l + " ${" + g.vars[g.R.Intn(len(g.vars))] + "}"
	}
	if (len(g.vars) > 0 && g.chance(0.3)) || g.chance(0.02) {
		// a substitution directly next to keyword-like text, unquoted and quoted (without a declared variable the
		// program does not compile, but it still parses and formats)
		g.f("vars:subst-adjacent")
		vn := "undeclared"
		if len(g.vars) > 0 {
			vn = g.vars[g.R.Intn(len(g.vars))]
		}
		sub := "${" + vn + "}"
		w := g.pick("null", "NULL", "Null", "true", "FALSE", "suspend", "label", "Label", "SHAPE", "steps", "x", "a#b", "1")
		switch g.R.Intn(7) {
		case 0:
			return sub + w
		case 1:
			return w + sub
		case 2:
			return sub + w + sub
		case 3:
			return "\"" + sub + w + "\""
		case 4:
			return "\"" + w + sub + " " + w + "\""
		case 5:
			return sub + sub
		default:
			return w + sub + w
		}
	}
	if l == "true" || l == "42" || l == "3.5" {
		g.f("scalar:non-string")
	}
	if strings.ContainsAny(l, "'/%") && g.chance(0.5) {
		return l // legal unquoted
	}
	return g.quoteIfNeededValue(l)
}

func (g *Gen) quoteIfNeededValue(s string) string {
	if g.chance(0.08) {
		g.f("str:double-quoted")
		return "\"" + s + "\""
	}
	if g.chance(0.05) && !strings.Contains(s, "'") {
		g.f("str:single-quoted")
		return "'" + s + "'"
	}
	return s
}

// reservedLower mirrors d2ast.ReservedKeywords only for generator feature accounting (the check itself uses the
// regenerated Lean list).
var reservedLower = map[string]struct{}{}

func init() {
	for _, k := range []string{"label", "shape", "icon", "constraint", "tooltip", "link", "near", "width", "height", "direction", "top", "left",
		"grid-rows", "grid-columns", "grid-gap", "vertical-gap", "horizontal-gap", "class", "vars", "style", "source-arrowhead",
		"target-arrowhead", "classes", "opacity", "stroke", "fill", "fill-pattern", "stroke-width", "stroke-dash", "border-radius",
		"font", "font-size", "font-color", "bold", "italic", "underline", "text-transform", "shadow", "multiple", "double-border",
		"3d", "animated", "filled", "layers", "scenarios", "steps"} {
		reservedLower[k] = struct{}{}
	}
}

// ---------------------------------------------------------------------------------------------------
// statements

type stmt struct {
	lines []string // already indented relative to the statement's own level (continuation lines carry their indent)
	board bool
}

func (g *Gen) sep() string {
	if g.chance(0.08) {
		g.f("ws:colon-spaces")
		return g.pick(" : ", ":", ":  ", " :")
	}
	return ": "
}

func (g *Gen) arrow() string {
	a := g.pick("->", "->", "->", "<-", "<->", "--")
	switch a {
	case "<-":
		g.f("edge:src-arrow")
	case "<->":
		g.f("edge:both-arrows")
	case "--":
		g.f("edge:no-arrow")
	}
	if g.chance(0.06) {
		g.f("edge:long-arrow")
		a = strings.Replace(a, "-", "---", 1)
	}
	if g.chance(0.05) {
		g.f("ws:tight-arrow")
		return a
	}
	return " " + a + " "
}

func (g *Gen) styleKV() string {
	switch g.R.Intn(9) {
	case 0:
		return g.kw("opacity") + g.sep() + g.pick("0.4", "1", "0", "0.75")
	case 1:
		return g.kw("fill") + g.sep() + g.pick(colors...)
	case 2:
		return g.kw("stroke") + g.sep() + g.pick(colors...)
	case 3:
		return g.kw("stroke-width") + g.sep() + g.pick("1", "2", "8")
	case 4:
		return g.kw("stroke-dash") + g.sep() + g.pick("0", "3", "5")
	case 5:
		return g.kw("bold") + g.sep() + g.pick("true", "false")
	case 6:
		return g.kw("font-size") + g.sep() + g.pick("12", "20", "55")
	case 7:
		return g.kw("font-color") + g.sep() + g.pick(colors...)
	default:
		return g.kw("italic") + g.sep() + g.pick("true", "false")
	}
}

// attr returns a reserved `key: value` line valid on a plain shape
func (g *Gen) attr() string {
	switch g.R.Intn(10) {
	case 0:
		v := g.pick(shapes...)
		if g.chance(0.15) {
			g.f("case:enum-value")
			v = oddCase(g.R, v)
		}
		return g.kw("shape") + g.sep() + v
	case 1:
		return g.kw("label") + g.sep() + g.label()
	case 2:
		if g.chance(0.5) {
			return g.kwPath("style", "opacity") + g.sep() + g.pick("0.5", "1")
		}
		return g.kwPath("style", "stroke-width") + g.sep() + g.pick("2", "1")
	case 3:
		return g.kw("style") + g.sep() + "{" + g.styleKV() + "}"
	case 4:
		return g.kw("tooltip") + g.sep() + g.label()
	case 5:
		return g.kw("width") + g.sep() + g.pick("100", "240")
	case 6:
		if g.depth > 1 {
			return g.kw("height") + g.sep() + g.pick("80", "120")
		}
		return g.kw("near") + g.sep() + g.pick(nearConsts...)
	case 7:
		return g.kw("link") + g.sep() + g.pick("https://example.com", "\"https://d2lang.com/tour?q=1#x\"")
	case 8:
		if len(g.classes) > 0 {
			g.f("classes:use")
			if g.chance(0.3) && len(g.classes) > 1 {
				g.f("array:one-line")
				return g.kw("class") + g.sep() + "[" + g.classes[0] + g.pick("; ", ";", " ; ") + g.classes[1] + "]"
			}
			return g.kw("class") + g.sep() + g.classes[g.R.Intn(len(g.classes))]
		}
		return g.kwPath("style", "fill") + g.sep() + g.pick(colors...)
	default:
		return g.kwPath("style", g.pick("fill", "stroke", "font-color")) + g.sep() + g.pick(colors...)
	}
}

func indentLines(ls []string, ind string) []string {
	out := make([]string, len(ls))
	for i, l := range ls {
		if l == "" {
			out[i] = ""
		} else {
			out[i] = ind + l
		}
	}
	return out
}

// block wraps body statements into `{ … }` either on one line or on several
func (g *Gen) block(head string, body []stmt) []string {
	oneLineOK := len(body) <= 3
	for _, s := range body {
		if len(s.lines) != 1 || strings.HasPrefix(strings.TrimSpace(s.lines[0]), "#") || strings.Contains(s.lines[0], "\"\"\"") {
			oneLineOK = false
		}
	}
	if len(body) == 0 {
		g.f("map:empty")
		if g.chance(0.5) {
			return []string{head + "{}"}
		}
		return []string{head + "{", "}"}
	}
	if oneLineOK && g.chance(g.oneLineP) {
		g.f("map:one-line")
		parts := make([]string, len(body))
		for i, s := range body {
			parts[i] = s.lines[0]
			if s.board {
				g.f("board:in-one-line-map")
			}
		}
		open, cl := "{", "}"
		if g.chance(0.4) {
			open, cl = "{ ", " }"
		}
		return []string{head + open + strings.Join(parts, g.pick("; ", ";", " ; ")) + cl}
	}
	opn := head + "{"
	if g.chance(g.comments * 0.5) {
		g.f("comment:after-open-brace")
		opn += " # after brace"
	}
	out := []string{opn}
	out = append(out, g.layout(body, g.indentUnit)...)
	if g.chance(g.comments * 0.4) {
		g.f("comment:before-close-brace")
		out = append(out, g.indentUnit+g.pick("# last", `""" last block """`))
	}
	cl := "}"
	if g.chance(g.comments * 0.3) {
		g.f("comment:after-close-brace")
		cl += " # closed"
	}
	out = append(out, cl)
	return out
}

// layout joins statements into lines, with random blank lines / `;` joins / comments
func (g *Gen) layout(body []stmt, ind string) []string {
	var out []string
	for i, s := range body {
		if i > 0 {
			switch {
			case g.chance(0.18):
				out = append(out, "")
				g.f("ws:blank-line")
			case g.chance(0.04):
				out = append(out, "", "", "")
				g.f("ws:many-blank-lines")
			}
		}
		if g.chance(g.comments) {
			g.f("comment:line")
			out = append(out, ind+g.pick("# note", "#", "#no space", "# a: b -> c", "#   padded   "))
			if g.chance(0.3) {
				out = append(out, "")
			}
		}
		if g.chance(g.comments * 0.3) {
			g.f("comment:block")
			if g.chance(0.5) {
				out = append(out, ind+"\"\"\" one line block \"\"\"")
			} else {
				out = append(out, ind+"\"\"\"", ind+"multi", "", ind+g.indentUnit+"line", ind+"\"\"\"")
			}
		}
		ls := indentLines(s.lines, ind)
		if i > 0 && len(s.lines) == 1 && len(out) > 0 && out[len(out)-1] != "" && !strings.Contains(out[len(out)-1], "#") &&
			!strings.HasSuffix(out[len(out)-1], "\"\"\"") && !strings.HasSuffix(out[len(out)-1], "|") && g.chance(0.05) {
			g.f("ws:semicolon-join")
			out[len(out)-1] += g.pick("; ", ";") + s.lines[0]
			continue
		}
		if g.chance(g.comments*0.4) && len(ls) > 0 && !strings.HasSuffix(ls[len(ls)-1], "|") {
			g.f("comment:trailing")
			ls[len(ls)-1] += " # trailing"
		}
		out = append(out, ls...)
	}
	return out
}

func (g *Gen) shapeStmt(depth int) stmt {
	n := g.quoteIfNeeded(g.declName())
	if g.chance(0.15) && depth < g.depthMax {
		g.f("key:dotted")
		n = n + "." + g.quoteIfNeeded(g.pick(identPool[:12]...))
	}
	switch g.R.Intn(9) {
	case 0:
		return stmt{lines: []string{n}}
	case 1, 2:
		return stmt{lines: []string{n + g.sep() + g.label()}}
	case 3:
		return stmt{lines: []string{n + "." + g.attr()}}
	case 4, 5:
		if depth >= g.depthMax {
			return stmt{lines: []string{n + g.sep() + g.label()}}
		}
		body := g.shapeBody(depth + 1)
		head := n + g.sep()
		if g.chance(0.25) {
			g.f("key:primary+map")
			head = n + g.sep() + g.label() + " "
		} else if g.chance(0.08) {
			g.f("key:map-without-colon")
			head = n + " "
		}
		return stmt{lines: g.block(head, body)}
	case 6:
		g.f("scalar:null")
		return stmt{lines: []string{n + g.sep() + g.pick("null", "null", "NULL", "Null")}}
	case 7:
		g.f("string:block")
		if g.chance(0.4) {
			return g.blockWsStmt(n)
		}
		switch g.R.Intn(4) {
		case 0:
			return stmt{lines: []string{n + g.sep() + "|md # title |"}}
		case 1:
			return stmt{lines: []string{n + g.sep() + "|md", g.indentUnit + "# title", "", g.indentUnit + "- item **b**", "|"}}
		case 2:
			g.f("string:block-pipes")
			return stmt{lines: []string{n + g.sep() + "|||ts", g.indentUnit + "type A = B | C", g.indentUnit + g.indentUnit + "let x = a || b", "|||"}}
		default:
			g.f("string:block-pipes")
			return stmt{lines: []string{n + g.sep() + "|||md a || b | c |||"}}
		}
	default:
		switch g.R.Intn(8) {
		case 0:
			g.f("scalar:number-forms")
			return stmt{lines: []string{n + g.sep() + g.pick("1.50", "007", "1e3", "-4", "+.5", "0x1F", "1_000")}}
		case 1:
			g.f("scalar:boolean-case")
			return stmt{lines: []string{n + g.sep() + g.pick("TRUE", "False", "true")}}
		case 2:
			g.f("attr:icon")
			return stmt{lines: []string{n + "." + g.kw("icon") + g.sep() + g.pick("https://icons.terrastruct.com/essentials%2F213-alarm.svg", `"https://example.com/a b.png"`)}}
		case 3:
			g.f("string:escapes")
			return stmt{lines: []string{n + g.sep() + g.pick(`a\:b`, `"q\"uote"`, `dollar \$x`, `semi\; colon`, `'single ''quoted'''`, `a\#b`, `tab\tsep`, `"nl\nin dq"`)}}
		case 4:
			g.f("key:escapes")
			return stmt{lines: []string{g.pick(`a\.b`, `x\:y`, `"dotted.key"`, `'single.key'`, `a\-\-b`, `sp\ ace`) + g.sep() + g.label()}}
		}
		return stmt{lines: []string{n + g.sep() + g.label()}}
	}
}

// blockWsStmt: a multi-line block string (code or markdown) whose lines carry whitespace in every role the printer
// treats specially: really empty lines, lines of only spaces / tabs at, below and beyond the common indent,
// trailing spaces / tabs after text, a first or last line that is blank.
func (g *Gen) blockWsStmt(n string) stmt {
	g.f("string:block-ws")
	tag := g.pick("md", "go", "ts", "", "latex", "sh")
	quote := g.pick("|", "|", "||", "|`")
	u := g.indentUnit
	wsOnly := func() string {
		switch g.R.Intn(5) {
		case 0:
			g.f("blockws:line-beyond-indent")
			return u + u + g.pick(" ", "  ", "    ", "\t")
		case 1:
			g.f("blockws:line-at-indent")
			return u
		case 2:
			g.f("blockws:line-below-indent")
			return " "
		case 3:
			g.f("blockws:tab-only-line")
			return "\t"
		default:
			return ""
		}
	}
	text := func() string {
		t := g.pick("x := 1", "# Title", "- item", "func f() {", "}", "a | b", "let y = `q`", "\\alpha + \\beta", "echo $HOME")
		pre := u + g.pick("", "", u, u+u, " ")
		if g.chance(0.3) {
			g.f("blockws:trailing-ws-after-text")
			t += g.pick(" ", "   ", "\t", " \t ")
		}
		return pre + t
	}
	lines := []string{n + g.sep() + quote + tag}
	if g.chance(0.2) {
		g.f("blockws:blank-first-line")
		lines = append(lines, wsOnly())
	}
	k := 2 + g.R.Intn(4)
	for i := 0; i < k; i++ {
		lines = append(lines, text())
		if g.chance(0.5) {
			lines = append(lines, wsOnly())
		}
	}
	lines = append(lines, text())
	if g.chance(0.2) {
		g.f("blockws:blank-last-line")
		lines = append(lines, wsOnly())
	}
	closeQ := quote
	if quote == "|`" {
		closeQ = "`|"
	}
	lines = append(lines, closeQ)
	return stmt{lines: lines}
}

func (g *Gen) shapeBody(depth int) []stmt {
	k := g.R.Intn(4)
	if g.chance(0.05) {
		k = 0
	}
	saved, savedE := g.names, g.edges
	g.names, g.edges = nil, nil
	g.depth++
	defer func() { g.depth-- }()
	var body []stmt
	for i := 0; i < k; i++ {
		switch g.R.Intn(6) {
		case 0, 1:
			body = append(body, stmt{lines: []string{g.attr()}})
		case 2:
			if len(g.names) >= 1 {
				body = append(body, g.edgeStmt())
			} else {
				body = append(body, g.shapeStmt(depth))
			}
		default:
			body = append(body, g.shapeStmt(depth))
		}
	}
	g.names, g.edges = saved, savedE
	return body
}

func (g *Gen) edgeStmt() stmt {
	if g.chance(0.85) {
		saved := g.kwCase
		g.kwCase = 0
		defer func() { g.kwCase = saved }()
	}
	a, b := g.quoteIfNeeded(g.declName()), g.quoteIfNeeded(g.declName())
	ar := g.arrow()
	g.edges = append(g.edges, [3]string{a, b, ar})
	s := a + ar + b
	g.f("edge")
	if g.chance(0.2) {
		g.f("edge:chain")
		s += g.arrow() + g.quoteIfNeeded(g.declName())
	}
	switch g.R.Intn(6) {
	case 0:
		s += g.sep() + g.label()
	case 1:
		g.f("edge:map")
		return stmt{lines: g.block(s+g.sep(), []stmt{{lines: []string{g.kwPath("style", "stroke") + g.sep() + g.pick(colors...)}}, {lines: []string{g.kw(g.pick("source-arrowhead", "target-arrowhead")) + g.sep() + g.pick("1", "*", "x") + " {" + g.kw("shape") + ": " + g.pick("diamond", "arrow", "cf-many") + "}"}}}[:1+g.R.Intn(2)])}
	case 2:
		g.f("edge:label+map")
		return stmt{lines: g.block(s+g.sep()+g.label()+" ", []stmt{{lines: []string{g.kwPath("style", g.pick("animated", "bold")) + g.sep() + "true"}}})}
	}
	return stmt{lines: []string{s}}
}

func (g *Gen) edgeRefStmt() stmt {
	if g.chance(0.85) {
		saved := g.kwCase
		g.kwCase = 0
		defer func() { g.kwCase = saved }()
	}
	if len(g.edges) == 0 {
		return g.edgeStmt()
	}
	e := g.edges[g.R.Intn(len(g.edges))]
	idx := g.pick("[0]", "[0]", "[*]", "")
	if idx == "[*]" {
		g.f("edge:index-glob")
	} else if idx == "[0]" {
		g.f("edge:index")
	}
	ar := e[2]
	if g.chance(0.1) {
		ar = g.arrow() // may name an edge that does not exist (compile error, still a C03 input)
	}
	ref := "(" + e[0] + ar + e[1] + ")" + idx
	g.f("edge:group")
	switch g.R.Intn(3) {
	case 0:
		return stmt{lines: []string{ref + "." + g.kwPath("style", "opacity") + g.sep() + "0.4"}}
	case 1:
		return stmt{lines: []string{ref + g.sep() + g.label()}}
	default:
		return stmt{lines: g.block(ref+g.sep(), []stmt{{lines: []string{g.kwPath("style", "stroke-dash") + g.sep() + "3"}}})}
	}
}

func (g *Gen) globStmt() stmt {
	g.f("glob")
	switch g.R.Intn(6) {
	case 0:
		return stmt{lines: []string{"*." + g.kwPath("style", "fill") + g.sep() + g.pick(colors...)}}
	case 1:
		return stmt{lines: []string{"**." + g.kwPath("style", "stroke") + g.sep() + g.pick(colors...)}}
	case 2:
		g.f("glob:filter")
		return stmt{lines: g.block("*"+g.sep(), []stmt{{lines: []string{g.pick("&", "!&") + g.kw("shape") + g.sep() + g.pick("circle", "rectangle")}}, {lines: []string{g.kwPath("style", "opacity") + g.sep() + "0.6"}}})}
	case 3:
		g.f("glob:edge")
		return stmt{lines: []string{"(* -> *)[*]." + g.kwPath("style", "stroke") + g.sep() + g.pick(colors...)}}
	case 4:
		g.f("glob:triple")
		return stmt{lines: []string{"***." + g.kwPath("style", "font-size") + g.sep() + "18"}}
	default:
		return stmt{lines: []string{g.pick("a*", "*1", "*b*") + "." + g.kw("shape") + g.sep() + g.pick(shapes...)}}
	}
}

func (g *Gen) varsStmt() stmt {
	g.f("vars")
	var body []stmt
	k := 1 + g.R.Intn(3)
	for i := 0; i < k; i++ {
		v := fmt.Sprintf("v%d", len(g.vars))
		g.vars = append(g.vars, v)
		body = append(body, stmt{lines: []string{v + g.sep() + g.pick("red", "hello", "12", "\"quoted val\"", "Label")}})
	}
	if g.chance(0.3) {
		g.f("vars:array")
		v := fmt.Sprintf("arr%d", len(g.arrVars))
		g.arrVars = append(g.arrVars, v)
		if g.chance(0.5) {
			g.f("array:one-line")
			body = append(body, stmt{lines: []string{v + g.sep() + "[1; 2;3]"}})
		} else {
			g.f("array:multi-line")
			lines := []string{v + g.sep() + "[", g.indentUnit + "one", g.indentUnit + "two; three", "", g.indentUnit + "4", "]"}
			if g.comments > 0 && g.chance(0.5) {
				g.f("comment:in-array")
				lines = []string{v + g.sep() + "[ # open", g.indentUnit + "one # first", g.indentUnit + "# alone", g.indentUnit + "two; three", "",
					g.indentUnit + `""" blk """`, g.indentUnit + "4", "]"}
			} else if g.chance(0.3) {
				g.f("array:nested")
				lines = []string{v + g.sep() + "[", g.indentUnit + "[1; 2]", g.indentUnit + "[", g.indentUnit + g.indentUnit + "x", g.indentUnit + "]", g.indentUnit + "{a: b}", "]"}
			}
			body = append(body, stmt{lines: lines})
		}
	}
	if g.chance(0.25) {
		g.f("vars:map")
		v := fmt.Sprintf("m%d", len(g.mapVars))
		g.mapVars = append(g.mapVars, v)
		body = append(body, stmt{lines: g.block(v+g.sep(), []stmt{{lines: []string{g.kwPath("style", "fill") + ": blue"}}, {lines: []string{g.kw("shape") + ": circle"}}})})
	}
	if g.chance(0.2) {
		g.f("vars:d2-config")
		body = append(body, stmt{lines: g.block("d2-config"+g.sep(), []stmt{{lines: []string{"theme-id: " + g.pick("1", "4", "200")}}, {lines: []string{"sketch: " + g.pick("true", "false")}}, {lines: []string{"layout-engine: " + g.pick("dagre", "elk")}}}[:1+g.R.Intn(3)])})
	}
	return stmt{lines: g.block(g.kw("vars")+g.sep(), body)}
}

func (g *Gen) varUseStmt() stmt {
	if len(g.vars) == 0 {
		return g.shapeStmt(0)
	}
	g.f("vars:use")
	v := g.vars[g.R.Intn(len(g.vars))]
	n := g.quoteIfNeeded(g.declName())
	switch g.R.Intn(5) {
	case 0:
		return stmt{lines: []string{n + g.sep() + "${" + v + "}"}}
	case 1:
		return stmt{lines: []string{n + g.sep() + "\"pre ${" + v + "} post\""}}
	case 2:
		if len(g.mapVars) > 0 {
			g.f("vars:spread")
			return stmt{lines: g.block(n+g.sep(), []stmt{{lines: []string{"...${" + g.mapVars[0] + "}"}}, {lines: []string{g.kw("label") + ": spreaded"}}})}
		}
		fallthrough
	case 3:
		if len(g.arrVars) > 0 {
			g.f("vars:spread-array")
			return stmt{lines: []string{"vars: {" + fmt.Sprintf("w%d", g.R.Intn(5)) + ": [...${" + g.arrVars[0] + "}; 9]}"}}
		}
		fallthrough
	default:
		return stmt{lines: []string{n + "." + g.kwPath("style", "fill") + g.sep() + "${" + g.vars[0] + "}"}}
	}
}

func (g *Gen) classesStmt() stmt {
	g.f("classes")
	if g.chance(0.85) {
		saved := g.kwCase
		g.kwCase = 0
		defer func() { g.kwCase = saved }()
	}
	var body []stmt
	k := 1 + g.R.Intn(2)
	for i := 0; i < k; i++ {
		c := fmt.Sprintf("c%d", len(g.classes))
		g.classes = append(g.classes, c)
		body = append(body, stmt{lines: g.block(c+g.sep(), []stmt{{lines: []string{g.kwPath("style", "fill") + g.sep() + g.pick(colors...)}}, {lines: []string{g.kw("shape") + g.sep() + g.pick(shapes...)}}}[:1+g.R.Intn(2)])})
	}
	return stmt{lines: g.block(g.kw("classes")+g.sep(), body)}
}

func (g *Gen) importStmt() stmt {
	g.f("import")
	if g.files == nil {
		g.files = map[string]string{}
	}
	switch g.R.Intn(4) {
	case 0:
		g.files["imp_shape.d2"] = "shape: circle\nstyle.fill: red\nlabel: Imported\n"
		n := g.quoteIfNeeded(g.declName())
		return stmt{lines: []string{n + g.sep() + g.pick("@imp_shape", "@imp_shape.d2", "@\"imp_shape\"", "@./imp_shape")}}
	case 1:
		g.f("import:spread")
		g.files["imp_more.d2"] = "p -> q: from import\nr.shape: hexagon\n"
		return stmt{lines: []string{g.pick("...@imp_more", "...@imp_more.d2", "...@\"imp_more\"")}}
	case 2:
		g.f("import:nested-path")
		g.files["sub/inner.d2"] = "k: {w: deep}\n"
		n := g.quoteIfNeeded(g.declName())
		return stmt{lines: []string{n + g.sep() + g.pick("@sub/inner", "@\"sub/../sub/inner\"", "@\"sub/inner\"", "@sub/inner.k")}}
	default:
		g.f("import:spread-in-map")
		g.files["imp_attrs.d2"] = "style.stroke: blue\nshape: oval\n"
		n := g.quoteIfNeeded(g.declName())
		return stmt{lines: g.block(n+g.sep(), []stmt{{lines: []string{"...@imp_attrs"}}, {lines: []string{g.kw("label") + ": withimp"}}})}
	}
}

func (g *Gen) specialShapeStmt() stmt {
	n := g.quoteIfNeeded(g.declName())
	switch g.R.Intn(4) {
	case 0:
		g.f("shape:sql_table")
		body := []stmt{{lines: []string{g.kw("shape") + ": sql_table"}}, {lines: []string{"id: int {" + g.kw("constraint") + ": primary_key}"}}}
		if g.chance(0.5) {
			g.f("array:one-line")
			body = append(body, stmt{lines: []string{"fk: int {" + g.kw("constraint") + ": [foreign_key; unique]}"}})
		} else {
			g.f("array:multi-line")
			body = append(body, stmt{lines: []string{"fk: int {", g.indentUnit + g.kw("constraint") + ": [", g.indentUnit + g.indentUnit + "foreign_key", g.indentUnit + g.indentUnit + "unique", g.indentUnit + "]", "}"}})
		}
		return stmt{lines: append(append([]string{n + ": {"}, g.layout(body, g.indentUnit)...), "}")}
	case 1:
		g.f("shape:class")
		body := []stmt{{lines: []string{g.kw("shape") + ": class"}}, {lines: []string{"+field: \"[]string\""}}, {lines: []string{"method(a uint64): (x, y int)"}}}
		return stmt{lines: append(append([]string{n + ": {"}, g.layout(body, g.indentUnit)...), "}")}
	case 2:
		g.f("shape:sequence")
		body := []stmt{{lines: []string{g.kw("shape") + ": sequence_diagram"}}, {lines: []string{"alice -> bob: hi"}}, {lines: []string{"bob -> alice: yo"}}}
		return stmt{lines: append(append([]string{n + ": {"}, g.layout(body, g.indentUnit)...), "}")}
	default:
		g.f("shape:grid")
		body := []stmt{{lines: []string{g.kw("grid-rows") + ": 2"}}, {lines: []string{"g1"}}, {lines: []string{"g2"}}, {lines: []string{"g3"}}}
		return stmt{lines: append(append([]string{n + ": {"}, g.layout(body, g.indentUnit)...), "}")}
	}
}

// flatBoardStmt: a key path that starts with a board keyword and reaches depth >= 2 in flat form
func (g *Gen) flatBoardStmt() stmt {
	g.f("board:flat-key")
	kind := g.pick(boardKws...)
	bn := g.pick("fb", "hot", "detail", "L", "s") + fmt.Sprint(g.R.Intn(3))
	obj := g.quoteIfNeeded(g.pick(identPool[:12]...))
	head := g.kw(kind) + "." + bn
	switch g.R.Intn(7) {
	case 0:
		g.f("flatboard:attr-scalar")
		return stmt{lines: []string{head + "." + obj + "." + g.kw("shape") + g.sep() + g.pick(shapes...)}}
	case 1:
		g.f("flatboard:label-scalar")
		return stmt{lines: []string{head + "." + obj + g.sep() + g.pick("burning", "hello", "x1")}}
	case 2:
		g.f("flatboard:bare-object")
		return stmt{lines: []string{head + "." + obj + "." + g.pick(identPool[:8]...)}}
	case 3:
		g.f("flatboard:style")
		return stmt{lines: []string{head + "." + obj + "." + g.kwPath("style", "fill") + g.sep() + g.pick(colors...)}}
	case 4:
		g.f("flatboard:map")
		return stmt{lines: g.block(head+g.sep(), []stmt{{lines: []string{obj}}, {lines: []string{obj + "2" + g.sep() + "in flat board"}}})}
	case 5:
		g.f("flatboard:deep-map")
		return stmt{lines: g.block(head+"."+obj+g.sep(), []stmt{{lines: []string{g.kw("shape") + ": " + g.pick(shapes...)}}, {lines: []string{"inner"}}})}
	default:
		g.f("flatboard:empty-map")
		return stmt{lines: []string{head + "." + obj + g.sep() + "{}"}}
	}
}

// boardStmt: a layers / scenarios / steps block holding 1..3 boards
func (g *Gen) boardStmt(depth int, prof map[string]float64) stmt {
	kind := boardKws[g.R.Intn(3)]
	g.f("board:" + kind)
	kwText := kind
	if g.chance(g.kwCase * 0.6) {
		g.f("kwcase:board-key")
		kwText = oddCase(g.R, kind)
	} else if g.chance(0.03) {
		g.f("board:quoted-key")
		kwText = "\"" + kind + "\""
	}
	if g.chance(0.06) {
		g.f("board:empty")
		return stmt{lines: []string{kwText + g.pick("", ": {}", ": x")}, board: true}
	}
	k := 1 + g.R.Intn(3)
	var boards []stmt
	for i := 0; i < k; i++ {
		bn := g.pick("b", "first", "L", "s", "1", "step one", "x")
		bn = g.quoteIfNeeded(fmt.Sprintf("%s%d", bn, i))
		saved, savedE := g.names, g.edges
		sv, sa, sm, sc := g.vars, g.arrVars, g.mapVars, g.classes
		if kind == "layers" {
			g.names, g.edges = nil, nil
		}
		sd := g.depth
		g.depth = 0
		body := g.boardBody(depth+1, prof, false)
		g.depth = sd
		g.names, g.edges = saved, savedE
		g.vars, g.arrVars, g.mapVars, g.classes = sv, sa, sm, sc
		boards = append(boards, stmt{lines: g.block(bn+g.sep(), body)})
	}
	return stmt{lines: g.block(kwText+g.sep(), boards), board: true}
}

// boardBody generates the statements of a board root (file level or a board inside layers/scenarios/steps)
func (g *Gen) boardBody(depth int, prof map[string]float64, top bool) []stmt {
	k := 1 + g.R.Intn(5)
	if depth > 0 {
		k = g.R.Intn(4)
	}
	var body []stmt
	w := func(name string) float64 { return prof[name] }
	for i := 0; i < k; i++ {
		x := g.R.Float64() * (3 + w("edges") + w("globs") + w("vars") + w("imports") + w("classes") + w("special") + w("arrays"))
		switch {
		case x < 2:
			body = append(body, g.shapeStmt(depth))
		case x < 3:
			body = append(body, g.edgeStmt())
		case x < 3+w("edges"):
			if g.chance(0.5) {
				body = append(body, g.edgeRefStmt())
			} else {
				body = append(body, g.edgeStmt())
			}
		case x < 3+w("edges")+w("globs"):
			body = append(body, g.globStmt())
		case x < 3+w("edges")+w("globs")+w("vars"):
			if len(g.vars) == 0 || g.chance(0.3) {
				body = append(body, g.varsStmt())
			} else {
				body = append(body, g.varUseStmt())
			}
		case x < 3+w("edges")+w("globs")+w("vars")+w("imports"):
			body = append(body, g.importStmt())
		case x < 3+w("edges")+w("globs")+w("vars")+w("imports")+w("classes"):
			if len(g.classes) == 0 {
				body = append(body, g.classesStmt())
			} else {
				n := g.quoteIfNeeded(g.declName())
				g.f("classes:use")
				body = append(body, stmt{lines: []string{n + "." + g.kw("class") + g.sep() + g.classes[g.R.Intn(len(g.classes))]}})
			}
		default:
			body = append(body, g.specialShapeStmt())
		}
	}
	// flat (dotted) keys into boards: `layers.x.y.shape: circle`, `scenarios.hot.x: burning`, `steps.s.a: {…}`
	if depth < 2 && g.chance(prof["boards"]*0.35) {
		nf := 1 + g.R.Intn(2)
		for j := 0; j < nf; j++ {
			at := g.R.Intn(len(body) + 1)
			nb := make([]stmt, 0, len(body)+1)
			nb = append(nb, body[:at]...)
			nb = append(nb, g.flatBoardStmt())
			nb = append(nb, body[at:]...)
			body = nb
		}
	}
	// boards
	if depth < 2 && g.chance(prof["boards"]) {
		nb := 1
		if g.chance(0.3) {
			nb = 2
		}
		for j := 0; j < nb; j++ {
			b := g.boardStmt(depth, prof)
			pos := g.R.Intn(3)
			if len(body) == 0 {
				pos = 2
			}
			switch pos {
			case 0:
				g.f("boardpos:first")
				body = append([]stmt{b}, body...)
			case 1:
				at := g.R.Intn(len(body) + 1)
				switch at {
				case 0:
					g.f("boardpos:first")
				case len(body):
					g.f("boardpos:last")
				default:
					g.f("boardpos:middle")
				}
				body = append(body[:at], append([]stmt{b}, body[at:]...)...)
			default:
				g.f("boardpos:last")
				body = append(body, b)
			}
		}
	}
	return body
}

var Profiles = []string{"core", "edges", "boards", "kwcase", "comments", "blockstr", "arrays", "crlf-tabs", "imports", "vars", "globs", "mixed"}

// Program generates one program of the given profile.
func (g *Gen) Program(profile string) Program {
	g.feat = map[string]bool{}
	g.files = nil
	g.names, g.edges, g.classes, g.vars, g.arrVars, g.mapVars = nil, nil, nil, nil, nil, nil
	g.depth = 0
	g.indentUnit = "  "
	g.eol = "\n"
	g.kwCase = 0.04
	g.comments = 0
	g.oneLineP = 0.3
	g.depthMax = 2
	prof := map[string]float64{"edges": 0.5, "boards": 0.1}
	switch profile {
	case "core":
	case "edges":
		prof["edges"] = 3
	case "boards":
		prof["boards"] = 0.9
	case "kwcase":
		g.kwCase = 0.5
		prof["boards"] = 0.3
		prof["classes"] = 0.5
	case "comments":
		g.comments = 0.35
		prof["boards"] = 0.3
	case "blockstr":
		prof["special"] = 0.3
	case "arrays":
		prof["vars"] = 1.5
		prof["special"] = 1
		prof["classes"] = 1
	case "crlf-tabs":
		if g.chance(0.6) {
			g.eol = "\r\n"
			g.f("ws:crlf")
		}
		if g.chance(0.6) {
			g.indentUnit = "\t"
			g.f("ws:tabs")
		} else {
			g.indentUnit = g.pick("    ", " ", "   ")
			g.f("ws:odd-indent")
		}
		prof["boards"] = 0.3
		g.comments = 0.1
	case "imports":
		prof["imports"] = 1.5
		prof["boards"] = 0.2
	case "vars":
		prof["vars"] = 2.5
		prof["boards"] = 0.3
	case "globs":
		prof["globs"] = 2
		prof["boards"] = 0.4
		prof["edges"] = 1
	default: // mixed
		prof = map[string]float64{"edges": 1, "boards": 0.5, "globs": 0.4, "vars": 0.6, "imports": 0.3, "classes": 0.4, "special": 0.4}
		g.kwCase = 0.15
		g.comments = 0.1
	}
	if g.comments == 0 && g.chance(0.25) {
		g.comments = 0.2
	}
	g.f("profile:" + profile)
	body := g.boardBody(0, prof, true)
	lines := g.layout(body, "")
	if g.chance(0.05) {
		g.f("ws:leading-blank-lines")
		lines = append([]string{"", ""}, lines...)
	}
	if g.chance(0.08) {
		g.f("ws:trailing-spaces")
		for i := range lines {
			if g.chance(0.3) && !strings.HasSuffix(lines[i], "|") {
				lines[i] += "  "
			}
		}
	}
	src := strings.Join(lines, g.eol)
	if g.chance(0.12) {
		g.f("ws:no-final-newline")
	} else {
		src += g.eol
	}
	return Program{Src: src, Files: g.files, Feat: g.Features()}
}

func (g *Gen) Features() []string {
	out := make([]string, 0, len(g.feat))
	for k := range g.feat {
		out = append(out, k)
	}
	sort.Strings(out)
	return out
}

// ---------------------------------------------------------------------------------------------------
// evalcore: programs of the evaluator sub-fragment (D2V.Model.FmtSem): plain object declarations (key paths,
// nested bodies, non-keyword labels) and layers / scenarios / steps blocks at every position, nested.

var evalNames = []string{"a", "b", "c", "x", "y", "z", "db", "api", "user", "q1", "node_1", "Bob", "web app", "k8s"}
var evalLabels = []string{"hello", "Hello World", "x1", "some text", "v2-beta", "T"}

func (g *Gen) evalObj(depth int) stmt {
	n := g.pick(evalNames...)
	if g.chance(0.25) {
		g.f("key:dotted")
		n += "." + g.pick(evalNames...)
	}
	switch g.R.Intn(5) {
	case 0:
		return stmt{lines: []string{n}}
	case 1:
		return stmt{lines: []string{n + ": " + g.pick(evalLabels...)}}
	case 2, 3:
		if depth >= 2 {
			return stmt{lines: []string{n}}
		}
		k := 1 + g.R.Intn(3)
		var body []stmt
		for i := 0; i < k; i++ {
			body = append(body, g.evalObj(depth+1))
		}
		head := n + ": "
		if g.chance(0.2) {
			head = n + ": " + g.pick(evalLabels...) + " "
		}
		return stmt{lines: g.block(head, body)}
	default:
		return stmt{lines: []string{n + "." + g.pick(evalNames...) + "." + g.pick(evalNames...)}}
	}
}

func (g *Gen) evalBoardBlock(depth int, kind string) stmt {
	g.f("board:" + kind)
	k := 1 + g.R.Intn(3)
	var boards []stmt
	for i := 0; i < k; i++ {
		bn := fmt.Sprintf("%s%d", g.pick("b", "s", "L", "step"), i)
		body := g.evalBody(depth + 1)
		if len(body) == 0 {
			body = []stmt{g.evalObj(2)}
		}
		boards = append(boards, stmt{lines: g.block(bn+": ", body)})
	}
	return stmt{lines: g.block(kind+": ", boards), board: true}
}

func (g *Gen) evalBody(depth int) []stmt {
	k := 1 + g.R.Intn(4)
	if depth > 0 {
		k = g.R.Intn(3)
	}
	var body []stmt
	for i := 0; i < k; i++ {
		body = append(body, g.evalObj(0))
	}
	if depth < 2 && g.chance(0.75) {
		kinds := []string{"layers", "scenarios", "steps"}
		g.R.Shuffle(len(kinds), func(i, j int) { kinds[i], kinds[j] = kinds[j], kinds[i] })
		nb := 1 + g.R.Intn(2)
		for j := 0; j < nb; j++ {
			b := g.evalBoardBlock(depth, kinds[j])
			at := g.R.Intn(len(body) + 1)
			switch {
			case at == len(body):
				g.f("boardpos:last")
			case at == 0:
				g.f("boardpos:first")
			default:
				g.f("boardpos:middle")
			}
			body = append(body[:at], append([]stmt{b}, body[at:]...)...)
		}
	}
	return body
}

// EvalCore generates one program of the evaluator sub-fragment.
func (g *Gen) EvalCore() Program {
	g.feat = map[string]bool{}
	g.files = nil
	g.indentUnit, g.eol, g.kwCase, g.comments, g.oneLineP, g.depthMax, g.depth = "  ", "\n", 0, 0, 0.25, 2, 0
	g.f("profile:evalcore")
	src := strings.Join(g.layout(g.evalBody(0), ""), "\n") + "\n"
	return Program{Src: src, Feat: g.Features()}
}
