package fmtlib

import (
	"encoding/json"
	"fmt"
	"sort"
	"strings"

	"oss.terrastruct.com/d2/d2format"
	"oss.terrastruct.com/d2/d2graph"
	"oss.terrastruct.com/d2/d2target"
)

// Canonical graph projection for C04: everything the property names (boards recursively; objects with ID, label,
// shape, attributes, styles; connections with endpoints, direction, index, label, attributes; configuration) and
// nothing positional (AST ranges, references).  Attributes are flattened generically from their JSON form, so a
// field added to d2graph.Attributes later is compared too.  The equality itself is evaluated by the Lean driver.
//
//   Board  {"name":…, "folder":bool, "objs":[Obj], "edges":[Edge], "legend":[…], "data":[kv…],
//           "layers":[Board], "scenarios":[Board], "steps":[Board]}
//   Obj    {"id": AbsID, "a": ["path=value", …]}         (sorted)
//   Edge   {"src":…, "dst":…, "sa":bool, "da":bool, "idx":n, "a":[…]}

func flatten(prefix string, v any, out *[]string) {
	switch v := v.(type) {
	case map[string]any:
		keys := make([]string, 0, len(v))
		for k := range v {
			keys = append(keys, k)
		}
		sort.Strings(keys)
		for _, k := range keys {
			p := k
			if prefix != "" {
				p = prefix + "." + k
			}
			flatten(p, v[k], out)
		}
	case []any:
		for i, x := range v {
			flatten(fmt.Sprintf("%s[%d]", prefix, i), x, out)
		}
		if len(v) == 0 {
			// an empty list and an absent list are the same diagram
		}
	case nil:
	case string:
		*out = append(*out, prefix+"="+v)
	default:
		b, _ := json.Marshal(v)
		*out = append(*out, prefix+"="+string(b))
	}
}

func attrList(a *d2graph.Attributes) []string {
	out := []string{}
	if a == nil {
		return out
	}
	b, err := json.Marshal(a)
	if err != nil {
		return []string{"marshal-error=" + err.Error()}
	}
	var m map[string]any
	json.Unmarshal(b, &m)
	delete(m, "near_key")
	delete(m, "labelDimensions")
	if a.NearKey != nil {
		m["near_key"] = strings.Join(d2format.KeyPath(a.NearKey), ".")
	}
	if a.Icon != nil {
		m["icon"] = a.Icon.String()
	}
	flatten("", m, &out)
	// drop zero-valued noise that only says "unset"
	kept := out[:0]
	for _, s := range out {
		if strings.HasSuffix(s, "=") || strings.HasSuffix(s, "=null") {
			if !strings.HasPrefix(s, "label.value=") {
				continue
			}
		}
		kept = append(kept, s)
	}
	return kept
}

func jsonList(prefix string, v any) []string {
	out := []string{}
	if v == nil {
		return out
	}
	b, err := json.Marshal(v)
	if err != nil {
		return []string{prefix + ".marshal-error=" + err.Error()}
	}
	var m any
	json.Unmarshal(b, &m)
	flatten(prefix, m, &out)
	return out
}

func projObj(o *d2graph.Object) map[string]any {
	a := attrList(&o.Attributes)
	if o.Class != nil {
		a = append(a, jsonList("class", o.Class)...)
	}
	if o.SQLTable != nil {
		a = append(a, jsonList("sql_table", o.SQLTable)...)
	}
	if o.LabelPosition != nil {
		a = append(a, "obj.labelPosition="+*o.LabelPosition)
	}
	if o.IconPosition != nil {
		a = append(a, "obj.iconPosition="+*o.IconPosition)
	}
	sort.Strings(a)
	return map[string]any{"id": o.AbsID(), "a": a}
}

func projEdge(e *d2graph.Edge) map[string]any {
	a := attrList(&e.Attributes)
	if e.SrcArrowhead != nil {
		for _, s := range attrList(e.SrcArrowhead) {
			a = append(a, "srcArrowhead."+s)
		}
	}
	if e.DstArrowhead != nil {
		for _, s := range attrList(e.DstArrowhead) {
			a = append(a, "dstArrowhead."+s)
		}
	}
	sort.Strings(a)
	src, dst := "", ""
	if e.Src != nil {
		src = e.Src.AbsID()
	}
	if e.Dst != nil {
		dst = e.Dst.AbsID()
	}
	return map[string]any{"src": src, "dst": dst, "sa": e.SrcArrow, "da": e.DstArrow, "idx": e.Index, "a": a}
}

func ProjGraph(g *d2graph.Graph) map[string]any {
	objs := []any{}
	for _, o := range g.Objects {
		objs = append(objs, projObj(o))
	}
	edges := []any{}
	for _, e := range g.Edges {
		edges = append(edges, projEdge(e))
	}
	legend := []any{}
	if g.Legend != nil {
		legend = append(legend, map[string]any{"id": "legend.label=" + g.Legend.Label, "a": []string{}})
		for _, o := range g.Legend.Objects {
			legend = append(legend, projObj(o))
		}
		for _, e := range g.Legend.Edges {
			pe := projEdge(e)
			legend = append(legend, map[string]any{"id": fmt.Sprintf("edge:%v->%v#%v/%v%v", pe["src"], pe["dst"], pe["idx"], pe["sa"], pe["da"]), "a": pe["a"]})
		}
	}
	rootAttrs := attrList(&g.Root.Attributes)
	sort.Strings(rootAttrs)
	sub := func(gs []*d2graph.Graph) []any {
		out := []any{}
		for _, x := range gs {
			out = append(out, ProjGraph(x))
		}
		return out
	}
	data := jsonList("data", g.Data)
	sort.Strings(data)
	return map[string]any{
		"name": g.Name, "folder": g.IsFolderOnly, "root": rootAttrs, "objs": objs, "edges": edges, "legend": legend, "data": data,
		"layers": sub(g.Layers), "scenarios": sub(g.Scenarios), "steps": sub(g.Steps),
	}
}

func ProjConfig(c *d2target.Config) []string {
	out := jsonList("config", c)
	sort.Strings(out)
	return out
}
