package fmtlib

import (
	"go/ast"
	"go/parser"
	"go/token"
	"math/rand"
	"os"
	"path/filepath"
	"regexp"
	"sort"
	"strconv"
	"strings"
)

type Seed struct {
	Name string
	Src  string
}

var txtarMarker = regexp.MustCompile(`(?m)^-- (.+) --\r?$`)

// LoadSeeds collects every D2 input of the repository under test: *.d2 files, the sections of the e2e txtar
// archives, and the string literals of the Go test tables that look like D2 (contain a newline, `->` or `:`).
func LoadSeeds(repo string) []Seed {
	var out []Seed
	seen := map[string]bool{}
	add := func(name, src string) {
		if src == "" || len(src) > 20000 || seen[src] {
			return
		}
		seen[src] = true
		out = append(out, Seed{name, src})
	}
	filepath.Walk(repo, func(p string, info os.FileInfo, err error) error {
		if err != nil {
			return nil
		}
		if info.IsDir() {
			b := filepath.Base(p)
			if b == ".git" || b == "node_modules" {
				return filepath.SkipDir
			}
			return nil
		}
		rel, _ := filepath.Rel(repo, p)
		switch {
		case strings.HasSuffix(p, ".d2"):
			if b, err := os.ReadFile(p); err == nil {
				add("file:"+rel, string(b))
			}
		case strings.HasSuffix(p, "txtar.txt"):
			if b, err := os.ReadFile(p); err == nil {
				s := string(b)
				idx := txtarMarker.FindAllStringSubmatchIndex(s, -1)
				for i, m := range idx {
					end := len(s)
					if i+1 < len(idx) {
						end = idx[i+1][0]
					}
					body := s[m[1]:end]
					body = strings.TrimPrefix(body, "\n")
					add("txtar:"+rel+":"+s[m[2]:m[3]], body)
				}
			}
		case strings.HasSuffix(p, "_test.go"):
			fset := token.NewFileSet()
			f, err := parser.ParseFile(fset, p, nil, 0)
			if err != nil {
				return nil
			}
			n := 0
			ast.Inspect(f, func(x ast.Node) bool {
				bl, ok := x.(*ast.BasicLit)
				if !ok || bl.Kind != token.STRING {
					return true
				}
				s, err := strconv.Unquote(bl.Value)
				if err != nil || len(s) < 3 {
					return true
				}
				if strings.Contains(s, "\n") || strings.Contains(s, "->") || strings.Contains(s, ": ") {
					n++
					add("gotest:"+rel+"#"+strconv.Itoa(n), s)
				}
				return true
			})
		}
		return nil
	})
	sort.Slice(out, func(i, j int) bool { return out[i].Name < out[j].Name })
	return out
}

var kwRe = regexp.MustCompile(`\b(label|shape|style|fill|stroke|near|link|class|classes|vars|layers|scenarios|steps|width|height|icon|tooltip|opacity|direction|constraint)\b`)

// Mutate applies one layout / case / order preserving-ish mutation to a seed (the result is kept by the harness
// only when it still parses).  Returns the mutated text and the feature it targets.
func Mutate(r *rand.Rand, s string) (string, string) {
	lines := strings.Split(s, "\n")
	switch r.Intn(9) {
	case 0: // odd-case one reserved keyword occurrence
		locs := kwRe.FindAllStringIndex(s, -1)
		if len(locs) == 0 {
			return s, "mut:none"
		}
		l := locs[r.Intn(len(locs))]
		return s[:l[0]] + oddCase(r, s[l[0]:l[1]]) + s[l[1]:], "mut:kwcase"
	case 1: // move a top-level board block to the front
		for i, l := range lines {
			if strings.HasPrefix(l, "layers") || strings.HasPrefix(l, "scenarios") || strings.HasPrefix(l, "steps") {
				j := i
				if strings.HasSuffix(strings.TrimSpace(l), "{") {
					for j < len(lines)-1 && !strings.HasPrefix(lines[j], "}") {
						j++
					}
				}
				blk := append([]string{}, lines[i:j+1]...)
				rest := append(append([]string{}, lines[:i]...), lines[j+1:]...)
				return strings.Join(append(blk, rest...), "\n"), "mut:board-first"
			}
		}
		return s, "mut:none"
	case 2: // drop the final newline
		return strings.TrimRight(s, "\n"), "mut:no-final-newline"
	case 3: // CRLF
		return strings.ReplaceAll(s, "\n", "\r\n"), "mut:crlf"
	case 4: // tabs for leading double spaces
		for i, l := range lines {
			t := strings.TrimLeft(l, " ")
			lines[i] = strings.Repeat("\t", (len(l)-len(t))/2) + t
		}
		return strings.Join(lines, "\n"), "mut:tabs"
	case 5: // duplicate a blank line / insert blank lines
		if len(lines) < 2 {
			return s, "mut:none"
		}
		i := r.Intn(len(lines))
		lines = append(lines[:i], append([]string{"", ""}, lines[i:]...)...)
		return strings.Join(lines, "\n"), "mut:blank-lines"
	case 6: // swap two adjacent top-level single lines
		var idx []int
		for i, l := range lines {
			if l != "" && !strings.HasPrefix(l, " ") && !strings.HasPrefix(l, "\t") && !strings.ContainsAny(l, "{}|[]") && !strings.HasPrefix(l, "#") {
				idx = append(idx, i)
			}
		}
		if len(idx) < 2 {
			return s, "mut:none"
		}
		k := r.Intn(len(idx) - 1)
		lines[idx[k]], lines[idx[k+1]] = lines[idx[k+1]], lines[idx[k]]
		return strings.Join(lines, "\n"), "mut:swap-lines"
	case 7: // join two lines with `;`
		for tries := 0; tries < 5; tries++ {
			i := r.Intn(len(lines))
			if i+1 < len(lines) && lines[i] != "" && lines[i+1] != "" && !strings.ContainsAny(lines[i]+lines[i+1], "{}|[]#\"'") {
				lines[i] = lines[i] + "; " + strings.TrimSpace(lines[i+1])
				lines = append(lines[:i+1], lines[i+2:]...)
				return strings.Join(lines, "\n"), "mut:semicolon-join"
			}
		}
		return s, "mut:none"
	default: // add a comment line somewhere
		i := r.Intn(len(lines) + 1)
		lines = append(lines[:i], append([]string{"# added"}, lines[i:]...)...)
		return strings.Join(lines, "\n"), "mut:comment"
	}
}
