package fmtlib

import (
	"strings"

	"oss.terrastruct.com/d2/d2ast"
	"oss.terrastruct.com/d2/d2format"
	"oss.terrastruct.com/d2/d2parser"
)

// ASTFeatures computes, from the full Go AST (not only the fragment), the layout situations the formatter treats
// specially.  They are part of the case input ("af") and are used by the Lean drivers only to name the signature
// of a violation (so that a known finding is matched narrowly), never to decide whether there is one.
func ASTFeatures(m *d2ast.Map, text string) []string {
	set := map[string]bool{}
	var walkMap func(m *d2ast.Map, file bool)
	var walkVal func(n d2ast.Node)
	isKeptBoard := func(nb d2ast.MapNodeBox) bool {
		return nb.MapKey.Value.Map != nil && len(nb.MapKey.Value.Map.Nodes) > 0
	}
	walkVal = func(n d2ast.Node) {
		switch v := n.(type) {
		case *d2ast.Map:
			walkMap(v, false)
		case *d2ast.Array:
			set["array"] = true
			// d2parser.parseArray takes Range.End from the look-ahead position: the end may lie past the `]`, and
			// an array written on one line is then not OneLine()
			if st, e := v.Range.Start.Byte, v.Range.End.Byte; st >= 0 && e <= len(text) && st < e {
				seg := text[st:e]
				if i := strings.LastIndexByte(seg, ']'); i >= 0 {
					if i+1 < len(seg) {
						set["array:end-past-bracket"] = true
					}
					if !strings.Contains(seg[:i+1], "\n") && !v.Range.OneLine() {
						set["array:one-line-text-multi-range"] = true
					}
				}
			}
			for _, nb := range v.Nodes {
				if nb.Comment != nil || nb.BlockComment != nil {
					set["comment-in-array"] = true
				}
				if x := nb.Unbox(); x != nil {
					walkVal(x)
				}
			}
		case *d2ast.BlockString:
			set["block-string"] = true
		}
	}
	walkMap = func(m *d2ast.Map, file bool) {
		if file && m.Range.OneLine() && len(m.Nodes) >= 2 {
			set["filemap:one-line"] = true
		}
		seenBoard := false
		kept, printed := 0, 0
		for _, nb := range m.Nodes {
			if nb.Comment != nil || nb.BlockComment != nil {
				set["comment"] = true
				if seenBoard {
					set["boards:comment-after-board"] = true
				}
				printed++
				continue
			}
			if nb.IsBoardNode() {
				set["boards"] = true
				seenBoard = true
				if m.Range.OneLine() {
					set["boards:in-one-line-map"] = true
				}
				if !isKeptBoard(nb) {
					set["boards:dropped"] = true
				} else {
					kept++
					printed++
				}
				if _, ok := nb.MapKey.Key.Path[0].Unbox().(*d2ast.UnquotedString); !ok {
					set["boards:quoted-key"] = true
				}
			} else {
				printed++
				if seenBoard {
					set["boards:not-last"] = true
				}
				if nb.MapKey != nil && nb.MapKey.Key != nil && len(nb.MapKey.Key.Path) == 1 {
					if u, ok := nb.MapKey.Key.Path[0].Unbox().(*d2ast.UnquotedString); ok {
						switch strings.ToLower(u.ScalarString()) {
						case "layers", "scenarios", "steps":
							set["boards:key-case"] = true
						}
					}
				}
			}
			if nb.MapKey != nil {
				if p := nb.MapKey.Primary.Unbox(); p != nil {
					walkVal(p)
				}
				if v := nb.MapKey.Value.Unbox(); v != nil {
					walkVal(v)
				}
			}
		}
		if len(m.Nodes) > 0 && printed == 0 && !file {
			set["map:all-nodes-dropped"] = true
		}
	}
	walkMap(m, true)
	if strings.Contains(text, "\\\r\n") {
		// a backslash before CR LF is not a line continuation for the parser (it escapes the CR); Format prints
		// `\` + LF, which IS one
		set["text:backslash-crlf"] = true
	}
	if strings.Contains(text, "\r\n") && set["block-string"] {
		// the CR of a CRLF line ending stays inside block-string lines: an "empty" line is `\r`, which the printer
		// indents again on every pass
		set["text:crlf-block-string"] = true
	}
	out := make([]string, 0, len(set))
	for k := range set {
		out = append(out, k)
	}
	sortStrings(out)
	return out
}

func sortStrings(a []string) {
	for i := 1; i < len(a); i++ {
		for j := i; j > 0 && a[j] < a[j-1]; j-- {
			a[j], a[j-1] = a[j-1], a[j]
		}
	}
}

func errClass(err error) string {
	if err == nil {
		return ""
	}
	s := err.Error()
	if i := strings.IndexByte(s, '\n'); i >= 0 {
		s = s[:i]
	}
	if len(s) > 160 {
		s = s[:160]
	}
	return s
}

// FmtObservation runs Parse / Format / Parse / Format of the real code on src.
type FmtObservation struct {
	ParseErr  string
	F1        string
	Parse2Err string
	F2        string
	AST       map[string]any // fragment JSON of Parse(src) or nil
	Why       string         // reason src lies outside the fragment
	AST2      map[string]any // fragment JSON of Parse(F1) or nil
	AF        []string       // AST features of Parse(src)
	AF1       []string       // AST features of Parse(F1)
}

func ObserveFmt(src string) (o FmtObservation) {
	m, err := d2parser.Parse("", strings.NewReader(src), nil)
	if err != nil {
		o.ParseErr = errClass(err)
		return o
	}
	o.AST, o.Why = Frag(m)
	o.AF = ASTFeatures(m, src)
	o.F1 = d2format.Format(m)
	m2, err := d2parser.Parse("", strings.NewReader(o.F1), nil)
	if err != nil {
		o.Parse2Err = errClass(err)
		return o
	}
	o.AST2, _ = Frag(m2)
	o.AF1 = ASTFeatures(m2, o.F1)
	o.F2 = d2format.Format(m2)
	return o
}
