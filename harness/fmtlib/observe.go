package fmtlib

import (
	"strings"

	"oss.terrastruct.com/d2/d2ast"
	"oss.terrastruct.com/d2/d2format"
	"oss.terrastruct.com/d2/d2parser"
)

// ASTFeatures computes, from the full Go AST (not only the fragment), the layout situations the formatter treats
// specially.  They are part of the case input ("af") and are used by the Lean drivers only to name the signature
// of a violation (so that a known finding is matched narrowly), never to decide whether there is one.
func ASTFeatures(m *d2ast.Map, text string) []string {
	set := map[string]bool{}
	var walkMap func(m *d2ast.Map, file bool)
	var walkVal func(n d2ast.Node)
	isKeptBoard := func(nb d2ast.MapNodeBox) bool {
		return nb.MapKey.Value.Map != nil && len(nb.MapKey.Value.Map.Nodes) > 0
	}
	walkVal = func(n d2ast.Node) {
		switch v := n.(type) {
		case *d2ast.Map:
			walkMap(v, false)
		case *d2ast.Array:
			set["array"] = true
			// d2parser.parseArray takes Range.End from the look-ahead position: the end may lie past the `]`, and
			// an array written on one line is then not OneLine()
			if st, e := v.Range.Start.Byte, v.Range.End.Byte; st >= 0 && e <= len(text) && st < e {
				seg := text[st:e]
				if i := strings.LastIndexByte(seg, ']'); i >= 0 {
					if i+1 < len(seg) {
						set["array:end-past-bracket"] = true
					}
					if !strings.Contains(seg[:i+1], "\n") && !v.Range.OneLine() {
						set["array:one-line-text-multi-range"] = true
					}
				}
			}
			for _, nb := range v.Nodes {
				if nb.Comment != nil || nb.BlockComment != nil {
					set["comment-in-array"] = true
				}
				if x := nb.Unbox(); x != nil {
					walkVal(x)
				}
			}
		case *d2ast.BlockString:
			set["block-string"] = true
		}
	}
	walkMap = func(m *d2ast.Map, file bool) {
		if file && m.Range.OneLine() && len(m.Nodes) >= 2 {
			set["filemap:one-line"] = true
		}
		seenBoard := false
		kept, printed := 0, 0
		for _, nb := range m.Nodes {
			if nb.Comment != nil || nb.BlockComment != nil {
				set["comment"] = true
				if seenBoard {
					set["boards:comment-after-board"] = true
				}
				printed++
				continue
			}
			if nb.IsBoardNode() {
				set["boards"] = true
				seenBoard = true
				if m.Range.OneLine() {
					set["boards:in-one-line-map"] = true
				}
				if !isKeptBoard(nb) {
					set["boards:dropped"] = true
				} else {
					kept++
					printed++
				}
				if _, ok := nb.MapKey.Key.Path[0].Unbox().(*d2ast.UnquotedString); !ok {
					set["boards:quoted-key"] = true
				}
			} else {
				printed++
				if seenBoard {
					set["boards:not-last"] = true
				}
				if nb.MapKey != nil && nb.MapKey.Key != nil && len(nb.MapKey.Key.Path) == 1 {
					if u, ok := nb.MapKey.Key.Path[0].Unbox().(*d2ast.UnquotedString); ok {
						switch strings.ToLower(u.ScalarString()) {
						case "layers", "scenarios", "steps":
							set["boards:key-case"] = true
						}
					}
				}
			}
			if nb.MapKey != nil {
				if p := nb.MapKey.Primary.Unbox(); p != nil {
					walkVal(p)
				}
				if v := nb.MapKey.Value.Unbox(); v != nil {
					walkVal(v)
				}
			}
		}
		if len(m.Nodes) > 0 && printed == 0 && !file {
			set["map:all-nodes-dropped"] = true
		}
	}
	walkMap(m, true)
	if strings.Contains(text, "\\\r\n") {
		// a backslash before CR LF is not a line continuation for the parser (it escapes the CR); Format prints
		// `\` + LF, which IS one
		set["text:backslash-crlf"] = true
	}
	if strings.Contains(text, "\r\n") && set["block-string"] {
		// the CR of a CRLF line ending stays inside block-string lines: an "empty" line is `\r`, which the printer
		// indents again on every pass
		set["text:crlf-block-string"] = true
	}
	out := make([]string, 0, len(set))
	for k := range set {
		out = append(out, k)
	}
	sortStrings(out)
	return out
}

func sortStrings(a []string) {
	for i := 1; i < len(a); i++ {
		for j := i; j > 0 && a[j] < a[j-1]; j-- {
			a[j], a[j-1] = a[j-1], a[j]
		}
	}
}

func errClass(err error) string {
	if err == nil {
		return ""
	}
	s := err.Error()
	if i := strings.IndexByte(s, '\n'); i >= 0 {
		s = s[:i]
	}
	if len(s) > 160 {
		s = s[:160]
	}
	return s
}

// FmtObservation runs Parse / Format / Parse / Format of the real code on src.
type FmtObservation struct {
	ParseErr  string
	F1        string
	Parse2Err string
	F2        string
	AST       map[string]any // fragment JSON of Parse(src) or nil
	Why       string         // reason src lies outside the fragment
	AST2      map[string]any // fragment JSON of Parse(F1) or nil
	AF        []string       // AST features of Parse(src)
	AF1       []string       // AST features of Parse(F1)
	DiffAt    string         // where F1 and F2 first differ (see DiffAt); "" when equal
}

func ObserveFmt(src string) (o FmtObservation) {
	m, err := d2parser.Parse("", strings.NewReader(src), nil)
	if err != nil {
		o.ParseErr = errClass(err)
		return o
	}
	o.AST, o.Why = Frag(m)
	o.AF = ASTFeatures(m, src)
	o.F1 = d2format.Format(m)
	m2, err := d2parser.Parse("", strings.NewReader(o.F1), nil)
	if err != nil {
		o.Parse2Err = errClass(err)
		return o
	}
	o.AST2, _ = Frag(m2)
	o.AF1 = ASTFeatures(m2, o.F1)
	// DiffAt needs the ranges of m2 as parsed, before Format touches the tree
	m2b, _ := d2parser.Parse("", strings.NewReader(o.F1), nil)
	o.F2 = d2format.Format(m2)
	if o.F2 != o.F1 && m2b != nil {
		o.DiffAt = DiffAt(o.F1, o.F2, m2b)
	}
	return o
}

// DiffAt classifies WHERE two formatting passes first differ, in terms of the AST of the first pass' text
// (m1 = Parse(f1)): the innermost node that strictly contains the first differing byte and holds the whole
// differing region of f1 (what remains after cutting the common prefix and suffix).  A difference at the very
// start of a node belongs to its parent (the separator / layout before it changed).
//   "block-string" | "comment" | "value-string" (scalar or substitution in value position) | "key-string" |
//   "import" | "layout" (between the nodes of a map / array / key: blank lines, separators, moved or dropped nodes)
// Used by the C03 driver to name the cause: the listed findings are all layout-level (or CRLF inside block strings /
// keys), so a new non-idempotence inside a string, block string or comment gets its own, unlisted signature.
func DiffAt(f1, f2 string, m1 *d2ast.Map) string {
	pos := 0
	for pos < len(f1) && pos < len(f2) && f1[pos] == f2[pos] {
		pos++
	}
	// end of the differing region in f1 (after removing the common suffix)
	end := len(f1)
	for e2 := len(f2); end > pos && e2 > pos && f1[end-1] == f2[e2-1]; {
		end--
		e2--
	}
	// … but no further than the line of the first difference (several independent differences must not merge)
	if i := strings.IndexByte(f1[pos:], '\n'); i >= 0 && pos+i < end {
		end = pos + i
	}
	kind := "layout"
	var walk func(n d2ast.Node, inKey bool)
	walk = func(n d2ast.Node, inKey bool) {
		if n == nil {
			return
		}
		r := n.GetRange()
		_, isMap := n.(*d2ast.Map)
		// the node must hold the whole differing region, and the region must not start at the node's first byte
		if !(isMap && n == d2ast.Node(m1)) && !(r.Start.Byte < pos && pos < r.End.Byte && end <= r.End.Byte) {
			return
		}
		switch x := n.(type) {
		case *d2ast.BlockString:
			kind = "block-string"
			return
		case *d2ast.Comment, *d2ast.BlockComment:
			kind = "comment"
			return
		case *d2ast.Import:
			kind = "import"
		case *d2ast.Substitution:
			if inKey {
				kind = "key-string"
			} else {
				kind = "value-string"
			}
			return
		case *d2ast.UnquotedString, *d2ast.DoubleQuotedString, *d2ast.SingleQuotedString, *d2ast.Number, *d2ast.Boolean, *d2ast.Null, *d2ast.Suspension:
			if inKey {
				kind = "key-string"
			} else {
				kind = "value-string"
			}
			return
		case *d2ast.KeyPath:
			kind = "layout"
			for _, c := range x.Children() {
				walk(c, true)
			}
			return
		default:
			kind = "layout"
		}
		for _, c := range n.Children() {
			walk(c, inKey)
		}
	}
	walk(m1, false)
	return kind
}
