// Package fmtlib — shared by the C03 / C04 harnesses (agent `format`): the D2 program generator, the
// conversion of a parsed d2ast into the structural-fragment JSON the Lean model (D2V.Model.Fmt) reads,
// and the canonical graph projection used by C04.
package fmtlib

import (
	"regexp"
	"strings"
	"unicode/utf8"

	"oss.terrastruct.com/d2/d2ast"
)

// ---------------------------------------------------------------------------------------------------
// Structural fragment: maps, keys (segments of the three quoted kinds), edges / edge groups / indexes,
// primaries, arrays, scalar kinds, spread substitutions, imports, board keywords.
// Outside: comments, block comments, block strings, strings holding substitution boxes, strings containing a
// newline, imports with a directory prefix.  Frag returns (nil, why) for those.
//
// Layout carried along (what d2format reads from Ranges): per map/array `one` = Range.OneLine(); per
// map/array node `blank` = Start.Line − previous sibling's End.Line > 1; per map node `l0` = Start.Line == 0.
//
// Encoding (short keys, the Lean reader is D2V.Drv.FmtJson):
//   Str    {"q":"u"|"d"|"s","r":raw,"v":value}
//   N      {"t":"nul"} {"t":"sus","b":bool} {"t":"boo","b":bool} {"t":"num","r":raw} {"t":"str","s":Str}
//          {"t":"sub","sp":bool,"p":[Str]} {"t":"imp","sp":bool,"p":[Str]}
//          {"t":"arr","one":bool,"n":[Item]}  Item = {"bl":bool,"v":N}
//          {"t":"map","one":bool,"n":[MNode]} MNode = {"bl":bool,"l0":bool,"v":Key|sub|imp}
//   Key    {"t":"key","amp":0|1|2,"k":[Str]|null,"src":[Str]|null,"hops":[{"sa":..,"da":..,"d":[Str]}],
//           "ei":null|"*"|int,"ek":[Str]|null,"pr":N|null,"val":N|null}
// ---------------------------------------------------------------------------------------------------

type fragger struct {
	why string
}

func (f *fragger) fail(why string) {
	if f.why == "" {
		f.why = why
	}
}

var simpleImport = regexp.MustCompile(`^[A-Za-z0-9_]+$`)

func (f *fragger) boxes(q string, bs []d2ast.InterpolationBox) map[string]any {
	if len(bs) == 0 && q == "d" {
		return map[string]any{"q": q, "r": "", "v": ""}
	}
	if len(bs) != 1 {
		if len(bs) == 0 {
			f.fail("empty-string-boxes")
		} else {
			f.fail("interpolation")
		}
		return nil
	}
	b := bs[0]
	if b.Substitution != nil || b.String == nil {
		f.fail("interpolation")
		return nil
	}
	if b.StringRaw == nil {
		f.fail("no-raw")
		return nil
	}
	if strings.ContainsAny(*b.StringRaw, "\n\r") || strings.ContainsAny(*b.String, "\n\r") {
		f.fail("multiline-string")
		return nil
	}
	if !utf8.ValidString(*b.StringRaw) || !utf8.ValidString(*b.String) {
		f.fail("invalid-utf8")
		return nil
	}
	if strings.HasSuffix(*b.StringRaw, "\\") {
		f.fail("trailing-backslash") // re-reading the printed raw text would continue onto the next line
		return nil
	}
	return map[string]any{"q": q, "r": *b.StringRaw, "v": *b.String}
}

func (f *fragger) str(s d2ast.String) map[string]any {
	switch s := s.(type) {
	case *d2ast.UnquotedString:
		return f.boxes("u", s.Value)
	case *d2ast.DoubleQuotedString:
		return f.boxes("d", s.Value)
	case *d2ast.SingleQuotedString:
		if strings.ContainsAny(s.Value, "\n\r") {
			f.fail("multiline-string")
			return nil
		}
		if !utf8.ValidString(s.Value) {
			f.fail("invalid-utf8")
			return nil
		}
		return map[string]any{"q": "s", "r": s.Value, "v": s.Value}
	case *d2ast.BlockString:
		f.fail("block-string")
		return nil
	}
	f.fail("nil-string")
	return nil
}

func (f *fragger) path(p []*d2ast.StringBox) []any {
	out := make([]any, 0, len(p))
	for _, sb := range p {
		if sb == nil || sb.Unbox() == nil {
			f.fail("nil-string")
			return nil
		}
		out = append(out, f.str(sb.Unbox()))
	}
	return out
}

func (f *fragger) keyPath(k *d2ast.KeyPath) any {
	if k == nil {
		return nil
	}
	return f.path(k.Path)
}

func (f *fragger) scalar(s d2ast.Scalar) map[string]any {
	switch s := s.(type) {
	case *d2ast.Null:
		return map[string]any{"t": "nul"}
	case *d2ast.Suspension:
		return map[string]any{"t": "sus", "b": s.Value}
	case *d2ast.Boolean:
		return map[string]any{"t": "boo", "b": s.Value}
	case *d2ast.Number:
		if !utf8.ValidString(s.Raw) {
			f.fail("invalid-utf8")
			return nil
		}
		return map[string]any{"t": "num", "r": s.Raw}
	case *d2ast.UnquotedString, *d2ast.DoubleQuotedString, *d2ast.SingleQuotedString, *d2ast.BlockString:
		return map[string]any{"t": "str", "s": f.str(s.(d2ast.String))}
	}
	f.fail("nil-scalar")
	return nil
}

func (f *fragger) subst(s *d2ast.Substitution) map[string]any {
	return map[string]any{"t": "sub", "sp": s.Spread, "p": f.path(s.Path)}
}

func (f *fragger) imp(i *d2ast.Import) map[string]any {
	if i.Pre != "" {
		f.fail("import-pre")
		return nil
	}
	if len(i.Path) == 0 {
		f.fail("import-empty")
		return nil
	}
	// the printer rebuilds the first segment as RawString(path.Clean(ScalarString)): keep to names where that is
	// the identity up to keyword lower-casing (quoting is C05's subject)
	if !simpleImport.MatchString(i.Path[0].Unbox().ScalarString()) {
		f.fail("import-path")
		return nil
	}
	switch i.Path[0].Unbox().(type) {
	case *d2ast.UnquotedString, *d2ast.DoubleQuotedString:
		// RawString re-quotes the head from its value alone
	default:
		f.fail("import-path")
		return nil
	}
	if strings.EqualFold(i.Path[0].Unbox().ScalarString(), "null") {
		f.fail("import-path") // escapeUnquotedValue quotes it: C05's subject
		return nil
	}
	return map[string]any{"t": "imp", "sp": i.Spread, "p": f.path(i.Path)}
}

func (f *fragger) value(v d2ast.Node) map[string]any {
	switch v := v.(type) {
	case *d2ast.Array:
		return f.array(v)
	case *d2ast.Map:
		return f._map(v)
	case *d2ast.Import:
		return f.imp(v)
	case *d2ast.Substitution:
		return f.subst(v)
	case d2ast.Scalar:
		return f.scalar(v)
	case *d2ast.Comment, *d2ast.BlockComment:
		f.fail("comment")
		return nil
	}
	f.fail("nil-value")
	return nil
}

func (f *fragger) array(a *d2ast.Array) map[string]any {
	items := make([]any, 0, len(a.Nodes))
	var prev d2ast.Node
	for _, nb := range a.Nodes {
		n := nb.Unbox()
		if n == nil {
			f.fail("nil-array-node")
			return nil
		}
		bl := prev != nil && n.GetRange().Start.Line-prev.GetRange().End.Line > 1
		items = append(items, map[string]any{"bl": bl, "v": f.value(n)})
		prev = n
	}
	return map[string]any{"t": "arr", "one": a.Range.OneLine(), "n": items}
}

func (f *fragger) _map(m *d2ast.Map) map[string]any {
	nodes := make([]any, 0, len(m.Nodes))
	var prev d2ast.Node
	for _, nb := range m.Nodes {
		n := nb.Unbox()
		var v map[string]any
		switch {
		case nb.MapKey != nil:
			v = f.key(nb.MapKey)
		case nb.Substitution != nil:
			v = f.subst(nb.Substitution)
		case nb.Import != nil:
			v = f.imp(nb.Import)
		default:
			f.fail("comment")
			return nil
		}
		bl := prev != nil && n.GetRange().Start.Line-prev.GetRange().End.Line > 1
		nodes = append(nodes, map[string]any{"bl": bl, "l0": n.GetRange().Start.Line == 0, "v": v})
		prev = n
	}
	return map[string]any{"t": "map", "one": m.Range.OneLine(), "n": nodes}
}

func (f *fragger) key(mk *d2ast.Key) map[string]any {
	out := map[string]any{"t": "key"}
	amp := 0
	if mk.Ampersand {
		amp = 1
	} else if mk.NotAmpersand {
		amp = 2
	}
	out["amp"] = amp
	out["k"] = f.keyPath(mk.Key)
	out["src"] = nil
	hops := []any{}
	if len(mk.Edges) > 0 {
		if mk.Edges[0].Src == nil {
			f.fail("edge-nil-src")
			return nil
		}
		out["src"] = f.keyPath(mk.Edges[0].Src)
		for i, e := range mk.Edges {
			if e.Dst == nil || e.Src == nil {
				f.fail("edge-nil-end")
				return nil
			}
			if i > 0 && e.Src != mk.Edges[i-1].Dst {
				f.fail("edge-chain")
				return nil
			}
			hops = append(hops, map[string]any{"sa": e.SrcArrow, "da": e.DstArrow, "d": f.keyPath(e.Dst)})
		}
	} else if mk.EdgeIndex != nil || mk.EdgeKey != nil {
		f.fail("edge-index-without-edges")
		return nil
	}
	out["hops"] = hops
	out["ei"] = nil
	if mk.EdgeIndex != nil {
		if mk.EdgeIndex.Glob {
			out["ei"] = "*"
		} else if mk.EdgeIndex.Int != nil {
			out["ei"] = *mk.EdgeIndex.Int
		} else {
			f.fail("edge-index-nil")
			return nil
		}
	}
	out["ek"] = f.keyPath(mk.EdgeKey)
	out["pr"] = nil
	if p := mk.Primary.Unbox(); p != nil {
		out["pr"] = f.scalar(p)
	}
	out["val"] = nil
	if v := mk.Value.Unbox(); v != nil {
		out["val"] = f.value(v)
	}
	return out
}

// Frag converts a parsed file map into the fragment JSON, or reports why it lies outside the fragment.
func Frag(m *d2ast.Map) (ast map[string]any, why string) {
	defer func() {
		if r := recover(); r != nil {
			ast, why = nil, "frag-panic"
		}
	}()
	f := &fragger{}
	out := f._map(m)
	if f.why != "" {
		return nil, f.why
	}
	return out, ""
}
