// Package semx — shared by the C12–C15 harnesses (agent semext): a small D2 AST that is sent to the Lean
// driver as JSON, the canonical form of a compiled graph, compilation of an in-memory file set with the
// real compiler, and the co-process that asks the Lean driver for the *Lean-defined* source transformations
// (render / expand / substText / inline / flatten), so that the texts the real compiler sees are exactly
// the ones the Lean functions produce.
package semx

import (
	"bufio"
	"encoding/json"
	"fmt"
	"io"
	"io/fs"
	"os"
	"os/exec"
	"path/filepath"
	"reflect"
	"sort"
	"strings"
	"testing/fstest"

	"oss.terrastruct.com/d2/d2compiler"
	"oss.terrastruct.com/d2/d2format"
	"oss.terrastruct.com/d2/d2graph"
)

// ---------------------------------------------------------------------------------------------------
// small AST (mirrors lean/D2V/Model/SemAst.lean; JSON shapes are decoded by lean/D2V/Drv/SemX.lean)

// KSeg is one segment of a key path: Q = 0 unquoted, 1 double-quoted, 2 single-quoted.
type KSeg struct {
	Q int
	S string
}

func (k KSeg) J() any { return fmt.Sprintf("%d%s", k.Q, k.S) }

type Key []KSeg

func (k Key) J() any {
	out := make([]any, len(k))
	for i, s := range k {
		out[i] = s.J()
	}
	return out
}

// U makes an unquoted key path from segment texts.
func U(segs ...string) Key {
	k := make(Key, len(segs))
	for i, s := range segs {
		k[i] = KSeg{0, s}
	}
	return k
}

// Part of a scalar: literal text or a substitution ${a.b}.
type Part struct {
	Sub bool
	S   string
}

// Scal is a scalar as written: quote kind + parts.
type Scal struct {
	Q     int
	Parts []Part
}

func (s Scal) J() any {
	out := []any{fmt.Sprintf("%d", s.Q)}
	for _, p := range s.Parts {
		if p.Sub {
			out = append(out, "S"+p.S)
		} else {
			out = append(out, "L"+p.S)
		}
	}
	return out
}

func Lit(q int, s string) *Scal { return &Scal{q, []Part{{false, s}}} }

// Val kinds: "" none, "s" scalar, "n" null, "m" map, "i" import, "a" array
type Val struct {
	Kind string
	S    *Scal
	M    []Stmt
	I    string
	A    []Scal
}

func (v Val) J() any {
	switch v.Kind {
	case "s":
		return map[string]any{"s": v.S.J()}
	case "n":
		return map[string]any{"n": 1}
	case "m":
		return map[string]any{"m": Body(v.M)}
	case "i":
		return map[string]any{"i": v.I}
	case "a":
		a := make([]any, len(v.A))
		for i, s := range v.A {
			a[i] = s.J()
		}
		return map[string]any{"a": a}
	}
	return nil
}

func VS(s *Scal) Val    { return Val{Kind: "s", S: s} }
func VM(m []Stmt) Val   { return Val{Kind: "m", M: m} }
func VNull() Val        { return Val{Kind: "n"} }
func VImp(p string) Val { return Val{Kind: "i", I: p} }

// Stmt kinds: "f" field, "e" edge, "si" spread import, "ss" spread substitution
type Stmt struct {
	T    string
	Amp  int // 0 plain, 1 &filter, 2 !&filter
	K    Key
	P    *Scal // primary when V is a map
	V    Val
	C    Key // common prefix of an edge key
	Src  Key
	Ar   string
	Dst  Key
	Ix   string // "" creation, "*" all indices, or a decimal index
	EK   Key
	Path string
}

func (s Stmt) J() any {
	m := map[string]any{"t": s.T}
	switch s.T {
	case "f":
		m["amp"] = s.Amp
		m["k"] = s.K.J()
	case "e":
		m["c"] = s.C.J()
		m["src"] = s.Src.J()
		m["ar"] = s.Ar
		m["dst"] = s.Dst.J()
		m["ix"] = s.Ix
		m["ek"] = s.EK.J()
	case "si", "ss":
		m["path"] = s.Path
		return m
	}
	if s.P != nil {
		m["p"] = s.P.J()
	}
	if v := s.V.J(); v != nil {
		m["v"] = v
	}
	return m
}

func Body(b []Stmt) any {
	out := make([]any, len(b))
	for i, s := range b {
		out[i] = s.J()
	}
	return out
}

func F(k Key, v Val) Stmt               { return Stmt{T: "f", K: k, V: v} }
func FP(k Key, p *Scal, m []Stmt) Stmt  { return Stmt{T: "f", K: k, P: p, V: VM(m)} }
func E(src Key, ar string, dst Key, v Val) Stmt {
	return Stmt{T: "e", Src: src, Ar: ar, Dst: dst, V: v}
}

// File of a program; the first file of a Prog is the entry.
type File struct {
	Name string
	Body []Stmt
}

type Prog []File

func (p Prog) J() any {
	out := make([]any, len(p))
	for i, f := range p {
		out[i] = map[string]any{"name": f.Name, "body": Body(f.Body)}
	}
	return out
}

// ---------------------------------------------------------------------------------------------------
// compile with the real compiler; canonical graph

func scalarOf(v reflect.Value) (string, bool) {
	// *d2graph.Scalar or d2graph.Scalar
	if v.Kind() == reflect.Ptr {
		if v.IsNil() {
			return "", false
		}
		v = v.Elem()
	}
	if v.Type() == reflect.TypeOf(d2graph.Scalar{}) {
		return v.FieldByName("Value").String(), true
	}
	return "", false
}

func styleAttrs(prefix string, st d2graph.Style, out map[string]string) {
	v := reflect.ValueOf(st)
	t := v.Type()
	for i := 0; i < t.NumField(); i++ {
		if s, ok := scalarOf(v.Field(i)); ok {
			out[prefix+t.Field(i).Name] = s
		}
	}
}

func attrsOf(prefix string, a *d2graph.Attributes, out map[string]string) {
	v := reflect.ValueOf(*a)
	t := v.Type()
	for i := 0; i < t.NumField(); i++ {
		f := t.Field(i)
		switch f.Name {
		case "Style":
			styleAttrs(prefix+"style.", a.Style, out)
		case "IconStyle":
			styleAttrs(prefix+"iconStyle.", a.IconStyle, out)
		case "Icon":
			if a.Icon != nil {
				out[prefix+"icon"] = a.Icon.String()
			}
		case "NearKey":
			if a.NearKey != nil {
				out[prefix+"near"] = d2format.Format(a.NearKey)
			}
		case "Language":
			if a.Language != "" {
				out[prefix+"language"] = a.Language
			}
		case "Constraint":
			if len(a.Constraint) > 0 {
				out[prefix+"constraint"] = strings.Join(a.Constraint, "\x1f")
			}
		case "Classes":
			if len(a.Classes) > 0 {
				out[prefix+"classes"] = strings.Join(a.Classes, "\x1f")
			}
		case "LabelDimensions":
		default:
			if s, ok := scalarOf(v.Field(i)); ok {
				// Label / Shape / Direction are non-pointer scalars: "" means unset
				if v.Field(i).Kind() != reflect.Ptr && s == "" && f.Name != "Label" {
					continue
				}
				out[prefix+f.Name] = s
			}
		}
	}
}

func sortedAttrs(m map[string]string) []any {
	ks := make([]string, 0, len(m))
	for k := range m {
		ks = append(ks, k)
	}
	sort.Strings(ks)
	out := make([]any, 0, len(ks))
	for _, k := range ks {
		out = append(out, []any{k, m[k]})
	}
	return out
}

// Canon is the canonical form of one board and its nested boards: objects and edges sorted by absolute id,
// each with its sorted attribute list; boards in declaration order.
func Canon(g *d2graph.Graph, kind string) map[string]any {
	type ent struct {
		id string
		at []any
	}
	var objs, edges []ent
	for _, o := range g.Objects {
		m := map[string]string{}
		attrsOf("", &o.Attributes, m)
		if o.SQLTable != nil {
			var cols []string
			for _, c := range o.SQLTable.Columns {
				cols = append(cols, c.Name.Label+"\x1e"+c.Type.Label+"\x1e"+strings.Join(c.Constraint, ","))
			}
			m["sql"] = strings.Join(cols, "\x1f")
		}
		if o.Class != nil {
			var fs []string
			for _, f := range o.Class.Fields {
				fs = append(fs, f.Name+"\x1e"+f.Type+"\x1e"+f.Visibility)
			}
			for _, f := range o.Class.Methods {
				fs = append(fs, f.Name+"\x1e"+f.Return+"\x1e"+f.Visibility)
			}
			m["class"] = strings.Join(fs, "\x1f")
		}
		objs = append(objs, ent{o.AbsID(), sortedAttrs(m)})
	}
	for _, e := range g.Edges {
		m := map[string]string{}
		attrsOf("", &e.Attributes, m)
		m["srcArrow"] = fmt.Sprint(e.SrcArrow)
		m["dstArrow"] = fmt.Sprint(e.DstArrow)
		if e.SrcArrowhead != nil {
			attrsOf("srcHead.", e.SrcArrowhead, m)
		}
		if e.DstArrowhead != nil {
			attrsOf("dstHead.", e.DstArrowhead, m)
		}
		edges = append(edges, ent{e.AbsID(), sortedAttrs(m)})
	}
	sort.SliceStable(objs, func(i, j int) bool { return objs[i].id < objs[j].id })
	sort.SliceStable(edges, func(i, j int) bool { return edges[i].id < edges[j].id })
	jo := make([]any, len(objs))
	for i, o := range objs {
		jo[i] = map[string]any{"id": o.id, "a": o.at}
	}
	je := make([]any, len(edges))
	for i, e := range edges {
		je[i] = map[string]any{"id": e.id, "a": e.at}
	}
	var boards []any
	for _, b := range g.Layers {
		boards = append(boards, Canon(b, "layer"))
	}
	for _, b := range g.Scenarios {
		boards = append(boards, Canon(b, "scenario"))
	}
	for _, b := range g.Steps {
		boards = append(boards, Canon(b, "step"))
	}
	if boards == nil {
		boards = []any{}
	}
	return map[string]any{"name": g.Name, "kind": kind, "objs": jo, "edges": je, "boards": boards}
}

// errClass maps an error line "file:l:c: message" to the message (positions are not part of any property here).
func errMsgs(err error) []any {
	var out []any
	for _, l := range strings.Split(err.Error(), "\n") {
		l = strings.TrimSpace(l)
		if l == "" {
			continue
		}
		// strip "path:line:col: "
		parts := strings.SplitN(l, ": ", 2)
		if len(parts) == 2 && strings.Count(parts[0], ":") >= 2 {
			l = parts[1]
		}
		out = append(out, l)
	}
	if out == nil {
		out = []any{}
	}
	return out
}

// Compile runs the real compiler on an in-memory file set. Outcome: {"g": canonical graph} |
// {"err": [messages]} | {"panic": text}.
func Compile(files map[string]string, entry string) (out map[string]any) {
	m := fstest.MapFS{}
	for n, t := range files {
		m[n] = &fstest.MapFile{Data: []byte(t)}
	}
	// an import recursion that does not terminate would overflow the Go stack (not recoverable): stop it with an
	// ordinary panic after far more opens than any generated file set needs
	mfs := &countingFS{FS: m, left: 400}
	defer func() {
		if r := recover(); r != nil {
			out = map[string]any{"panic": fmt.Sprint(r)}
		}
	}()
	g, _, err := d2compiler.Compile(entry, strings.NewReader(files[entry]), &d2compiler.CompileOptions{FS: mfs})
	if err != nil {
		return map[string]any{"err": errMsgs(err)}
	}
	return map[string]any{"g": Canon(g, "root")}
}

type countingFS struct {
	fs.FS
	left int
}

func (c *countingFS) Open(name string) (fs.File, error) {
	c.left--
	if c.left < 0 {
		panic("import recursion does not terminate (more than 400 file opens)")
	}
	return c.FS.Open(name)
}

// ---------------------------------------------------------------------------------------------------
// co-process: the Lean driver in --xform mode

type Lean struct {
	cmd *exec.Cmd
	in  io.WriteCloser
	out *bufio.Reader
}

// StartLean starts lean/.lake/build/bin/<exe> --xform (the driver was built by ./check before the harness runs).
func StartLean(exe string) (*Lean, error) {
	root := os.Getenv("D2V_ROOT")
	if root == "" {
		root = ".."
	}
	p := filepath.Join(root, "lean", ".lake", "build", "bin", exe)
	cmd := exec.Command(p, "--xform")
	cmd.Stderr = os.Stderr
	in, err := cmd.StdinPipe()
	if err != nil {
		return nil, err
	}
	o, err := cmd.StdoutPipe()
	if err != nil {
		return nil, err
	}
	if err := cmd.Start(); err != nil {
		return nil, fmt.Errorf("cannot start %s: %w", p, err)
	}
	return &Lean{cmd, in, bufio.NewReaderSize(o, 1<<20)}, nil
}

// Ask sends one request object and returns the decoded answer object.
func (l *Lean) Ask(req map[string]any) (map[string]any, error) {
	b, err := json.Marshal(req)
	if err != nil {
		return nil, err
	}
	if _, err := l.in.Write(append(b, '\n')); err != nil {
		return nil, err
	}
	line, err := l.out.ReadBytes('\n')
	if err != nil {
		return nil, fmt.Errorf("lean co-process: %w", err)
	}
	var ans map[string]any
	if err := json.Unmarshal(line, &ans); err != nil {
		return nil, fmt.Errorf("lean co-process answer %q: %w", line, err)
	}
	return ans, nil
}

func (l *Lean) Close() {
	l.in.Close()
	l.cmd.Wait()
}

// FilesOf converts an answer field {"name": "text", …} to a Go map.
func FilesOf(v any) map[string]string {
	out := map[string]string{}
	m, _ := v.(map[string]any)
	for k, t := range m {
		out[k], _ = t.(string)
	}
	return out
}
