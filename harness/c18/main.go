package main

import (
	"math/rand"
	"runtime"
	"strings"

	"d2v/harness/hl"
	"d2v/harness/lay"

	"oss.terrastruct.com/d2/d2compiler"
	"oss.terrastruct.com/d2/d2graph"
	"oss.terrastruct.com/d2/d2layouts"
)

// C18: (a) "struct": structure snapshot (objects with parent + children order, edges with endpoints, per board)
// before vs after the real LayoutNested under dagre and ELK, plus the contract of the core layout checked on every
// call; (b) "nest": the real ExtractSubgraph / InjectNested / SaveOrder on compiled graphs vs the Lean arena model.
func main() {
	lay.MaybeChild()
	hl.Main("C18", run)
}

type M = map[string]any

// snapshot with pointer identity: names maps every object / edge to the AbsID it had after compilation
func snap(g *d2graph.Graph, on map[*d2graph.Object]string, en map[*d2graph.Edge]string) M {
	name := func(o *d2graph.Object) string {
		if o == nil {
			return "<nil>"
		}
		if o == g.Root {
			return ""
		}
		if n, ok := on[o]; ok {
			return n
		}
		return "<unknown:" + o.AbsID() + ">"
	}
	objs := []any{}
	for _, o := range g.Objects {
		kids := []any{}
		for _, ch := range o.ChildrenArray {
			kids = append(kids, name(ch))
		}
		objs = append(objs, M{"key": name(o), "parent": name(o.Parent), "kids": kids})
	}
	rk := []any{}
	for _, ch := range g.Root.ChildrenArray {
		rk = append(rk, name(ch))
	}
	return M{"objs": objs, "edges": edgeList(g.Edges, g, on, en), "rootKids": rk}
}

func edgeList(es []*d2graph.Edge, g *d2graph.Graph, on map[*d2graph.Object]string, en map[*d2graph.Edge]string) []any {
	out := []any{}
	for _, e := range es {
		out = append(out, M{"key": en[e], "src": on[e.Src], "dst": on[e.Dst]})
	}
	return out
}

// nestCase runs the real extraction round trip on a freshly compiled graph
func nestCase(src string, pick int, includeSelf bool) M {
	in := M{"src": src, "pick": pick, "includeSelf": includeSelf}
	g, _, err := d2compiler.Compile("", strings.NewReader(src), nil)
	if err != nil {
		return M{"k": "nest", "in": in, "out": M{"compile": "error"}, "triv": true}
	}
	on := map[*d2graph.Object]string{}
	en := map[*d2graph.Edge]string{}
	for _, o := range g.Objects {
		on[o] = o.AbsID()
	}
	for _, e := range g.Edges {
		en[e] = e.AbsID()
	}
	// candidates: containers (includeSelf=false), root-level objects (includeSelf=true)
	var cands []*d2graph.Object
	for _, o := range g.Objects {
		if includeSelf && o.Parent == g.Root {
			cands = append(cands, o)
		}
		if !includeSelf && len(o.ChildrenArray) > 0 {
			cands = append(cands, o)
		}
	}
	if len(cands) == 0 {
		return M{"k": "nest", "in": in, "out": M{"compile": "ok", "none": true}, "triv": true}
	}
	c := cands[pick%len(cands)]
	out := M{"compile": "ok", "c": on[c], "g0": snap(g, on, en)}
	res := hl.Guard(func() {
		restore := d2layouts.SaveOrder(g)
		nested, external, _ := d2layouts.ExtractSubgraph(c, includeSelf)
		out["g1"] = snap(g, on, en)
		out["nested"] = snap(nested, on, en)
		out["external"] = edgeList(external, g, on, en)
		if includeSelf {
			d2layouts.InjectNested(g.Root, nested, false)
		} else {
			d2layouts.InjectNested(c, nested, true)
		}
		g.Edges = append(g.Edges, external...)
		restore()
		out["final"] = snap(g, on, en)
	})
	out["outcome"] = res
	return M{"k": "nest", "in": in, "out": out}
}

func structCase(res *lay.Result) M {
	boards := []any{}
	for _, b := range res.Boards {
		m := M{"path": b.Path, "layout": b.Layout, "coreCalls": b.CoreCalls}
		if b.Before != nil {
			m["before"] = b.Before
		}
		if b.After != nil {
			m["after"] = b.After
		}
		br := []any{}
		for _, x := range b.CoreBreaks {
			br = append(br, x)
		}
		m["coreBreaks"] = br
		boards = append(boards, m)
	}
	c := M{"k": "struct", "in": M{"src": res.Src, "engine": res.Engine}, "out": M{"compile": res.Compile, "boards": boards}}
	if res.Compile != "ok" {
		c["triv"] = true
	}
	return c
}

func run(c *hl.Ctx) error {
	if cs := c.ReplayCase(); cs != nil {
		in := cs["in"].(map[string]any)
		if cs["k"] == "nest" {
			c.Emit(nestCase(in["src"].(string), int(in["pick"].(float64)), in["includeSelf"].(bool)))
		} else {
			c.Emit(structCase(lay.Run(in["src"].(string), in["engine"].(string), false)))
		}
		return nil
	}
	r := c.Rand()
	g := &lay.Gen{R: r}
	// (b) extraction round trips: cheap (no layout)
	nestProfiles := []string{"core", "core", "nested", "grid", "near", "names", "styled"}
	for i, n := 0, c.Pick(2500, 60000); i < n; i++ {
		p := nestProfiles[i%len(nestProfiles)]
		cs := nestCase(g.Program(p), r.Intn(1000), r.Intn(3) == 0)
		c.Emit(cs)
		if cs["triv"] == true {
			c.Count("nest:trivial")
		} else {
			c.Count("nest:" + p)
		}
	}
	// (a) full layouts
	var jobs []lay.Job
	nProg := lay.DevN(c.Pick(700, 8000))
	weights := []string{"nested", "nested", "nested", "grid", "grid", "seq", "seq", "near", "near", "core", "styled", "boards"}
	for i := 0; i < nProg; i++ {
		p := weights[i%len(weights)]
		src := g.Program(p)
		for _, e := range lay.Engines(i/len(weights), 2) {
			jobs = append(jobs, lay.Job{Src: src, Engine: e, Tag: p})
		}
	}
	res := lay.RunAll(jobs, runtime.NumCPU(), lay.QuickBudget(c.Quick()), 32)
	for i, rr := range res {
		if rr == nil {
			c.Count("budget:not-run")
			continue
		}
		for _, ft := range lay.Features(rr) {
			c.Count(rr.Engine + ":" + ft)
		}
		c.Emit(structCase(rr))
		c.Count("struct:" + jobs[i].Tag + ":" + rr.Engine)
		calls := 0
		for _, b := range rr.Boards {
			calls += b.CoreCalls
		}
		switch {
		case calls == 0:
			c.Count("struct:core-calls:0")
		case calls == 1:
			c.Count("struct:core-calls:1")
		default:
			c.Count("struct:core-calls:2+")
		}
	}
	_ = rand.Int
	return nil
}
