// Package geoutil — helpers shared by the geometry harnesses (C21, C22, C24, C27): a seeded "fake" core layout
// (any geometry is a legal input of d2near / d2grid, so the main diagram need not come from dagre), canonical
// JSON encoders for boxes, and the dagre/ruler plumbing.
package geoutil

import (
	"context"
	"math/big"
	"math/rand"
	"sync"

	"oss.terrastruct.com/d2/d2graph"
	"oss.terrastruct.com/d2/d2layouts/d2dagrelayout"
	"oss.terrastruct.com/d2/lib/geo"
	"oss.terrastruct.com/d2/lib/label"
	"oss.terrastruct.com/d2/lib/textmeasure"

	"d2v/harness/hl"
)

var (
	rulerOnce sync.Once
	ruler     *textmeasure.Ruler
)

func Ruler() *textmeasure.Ruler {
	rulerOnce.Do(func() {
		r, err := textmeasure.NewRuler()
		if err != nil {
			panic(err)
		}
		ruler = r
	})
	return ruler
}

func Dagre(ctx context.Context, g *d2graph.Graph) error { return d2dagrelayout.DefaultLayout(ctx, g) }

// Q returns a random multiple of 1/4 in [lo, hi] — float64 arithmetic on such values (sums, halves) is exact.
func Q(r *rand.Rand, lo, hi int) float64 {
	return float64(lo*4+r.Intn((hi-lo)*4+1)) / 4
}

var ShapePositions = []label.Position{
	label.OutsideTopLeft, label.OutsideTopCenter, label.OutsideTopRight,
	label.OutsideLeftTop, label.OutsideLeftMiddle, label.OutsideLeftBottom,
	label.OutsideRightTop, label.OutsideRightMiddle, label.OutsideRightBottom,
	label.OutsideBottomLeft, label.OutsideBottomCenter, label.OutsideBottomRight,
	label.InsideTopLeft, label.InsideTopCenter, label.InsideTopRight,
	label.InsideMiddleLeft, label.InsideMiddleCenter, label.InsideMiddleRight,
	label.InsideBottomLeft, label.InsideBottomCenter, label.InsideBottomRight,
	label.BorderTopLeft, label.BorderTopCenter, label.BorderTopRight,
	label.BorderLeftTop, label.BorderLeftMiddle, label.BorderLeftBottom,
	label.BorderRightTop, label.BorderRightMiddle, label.BorderRightBottom,
	label.BorderBottomLeft, label.BorderBottomCenter, label.BorderBottomRight,
}

// RandLabelPos: nil (1/6), an outside position (1/2 of the rest), else any shape position.
func RandLabelPos(r *rand.Rand) *string {
	switch r.Intn(6) {
	case 0:
		return nil
	case 1, 2, 3:
		s := ShapePositions[r.Intn(12)].String()
		return &s
	default:
		s := ShapePositions[r.Intn(len(ShapePositions))].String()
		return &s
	}
}

// FakeLayout returns a core layout that places leaves at random quarter-pixel positions (sizes kept), makes every
// container the hull of its children plus a random padding, gives every shape a random label position and
// every edge a route through the two centres and 0–2 random points.
func FakeLayout(r *rand.Rand) d2graph.LayoutGraph {
	return func(ctx context.Context, g *d2graph.Graph) error {
		var placeObj func(o *d2graph.Object)
		placeObj = func(o *d2graph.Object) {
			if o.Box == nil {
				o.Box = &geo.Box{}
			}
			if len(o.ChildrenArray) == 0 {
				o.TopLeft = geo.NewPoint(Q(r, -400, 900), Q(r, -400, 900))
			} else {
				x1, y1, x2, y2 := 1e18, 1e18, -1e18, -1e18
				for _, c := range o.ChildrenArray {
					placeObj(c)
					x1 = min(x1, c.TopLeft.X)
					y1 = min(y1, c.TopLeft.Y)
					x2 = max(x2, c.TopLeft.X+c.Width)
					y2 = max(y2, c.TopLeft.Y+c.Height)
				}
				p := Q(r, 0, 60)
				o.TopLeft = geo.NewPoint(x1-p, y1-p)
				o.Width = x2 - x1 + 2*p
				o.Height = y2 - y1 + 2*p
			}
			// core layouts set a label position on every labelled shape (TraceToShape relies on it)
			for o.LabelPosition == nil && o.HasLabel() {
				o.LabelPosition = RandLabelPos(r)
			}
		}
		for _, o := range g.Root.ChildrenArray {
			placeObj(o)
		}
		for _, e := range g.Edges {
			pts := []*geo.Point{e.Src.Center()}
			for k := r.Intn(3); k > 0; k-- {
				pts = append(pts, geo.NewPoint(Q(r, -600, 1200), Q(r, -600, 1200)))
			}
			pts = append(pts, e.Dst.Center())
			e.Route = pts
		}
		return nil
	}
}

func BoxJSON(o *d2graph.Object) []string {
	return []string{hl.Rat(o.TopLeft.X), hl.Rat(o.TopLeft.Y), hl.Rat(o.Width), hl.Rat(o.Height)}
}

func StrOrNil(p *string) any {
	if p == nil {
		return nil
	}
	return *p
}

// ParseRat parses what hl.Rat wrote back into the float64 it came from.
func ParseRat(s string) float64 {
	r, ok := new(big.Rat).SetString(s)
	if !ok {
		panic("not a rational: " + s)
	}
	f, _ := r.Float64()
	return f
}
