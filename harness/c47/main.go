package main

import (
	"bytes"
	"compress/zlib"
	"encoding/base64"
	"encoding/binary"
	"encoding/xml"
	"fmt"
	"io"
	"math/rand"
	"regexp"
	"runtime"
	"sort"
	"strings"
	"sync"

	"d2v/harness/hl"
	"d2v/harness/svgr"

	"oss.terrastruct.com/d2/d2renderers/d2fonts"
	"oss.terrastruct.com/d2/d2target"
)

// C47: (a) tie K — the diagram fields GetCorpus reads + what Go's GetCorpus/GetNestedCorpus returned (model vs impl in the
// Lean driver); (b) Spec-on-impl — every WOFF subset embedded in the real SVG is decoded (sfnt/WOFF cmap reader below)
// and compared with the runes the SVG draws in the font class bound to it, restricted to runes the full embedded TTF has.
func main() { hl.Main("C47", run) }

// ---------------------------------------------------------------- sfnt / WOFF cmap reader

type table struct{ off, comp, orig uint32 }

func woffTables(b []byte) (map[string][]byte, error) {
	if len(b) < 44 || string(b[:4]) != "wOFF" {
		return nil, fmt.Errorf("not a WOFF file")
	}
	n := int(binary.BigEndian.Uint16(b[12:]))
	out := map[string][]byte{}
	for i := 0; i < n; i++ {
		e := 44 + 20*i
		if e+20 > len(b) {
			return nil, fmt.Errorf("truncated WOFF directory")
		}
		tag := string(b[e : e+4])
		off, comp, orig := binary.BigEndian.Uint32(b[e+4:]), binary.BigEndian.Uint32(b[e+8:]), binary.BigEndian.Uint32(b[e+12:])
		if int(off)+int(comp) > len(b) {
			return nil, fmt.Errorf("table %s out of range", tag)
		}
		data := b[off : off+comp]
		if comp < orig {
			zr, err := zlib.NewReader(bytes.NewReader(data))
			if err != nil {
				return nil, fmt.Errorf("table %s: %v", tag, err)
			}
			d, err := io.ReadAll(zr)
			if err != nil {
				return nil, fmt.Errorf("table %s: %v", tag, err)
			}
			data = d
		}
		out[tag] = data
	}
	return out, nil
}

func sfntTables(b []byte) (map[string][]byte, error) {
	if len(b) < 12 {
		return nil, fmt.Errorf("short sfnt")
	}
	n := int(binary.BigEndian.Uint16(b[4:]))
	out := map[string][]byte{}
	for i := 0; i < n; i++ {
		e := 12 + 16*i
		if e+16 > len(b) {
			return nil, fmt.Errorf("truncated sfnt directory")
		}
		tag := string(b[e : e+4])
		off, l := binary.BigEndian.Uint32(b[e+8:]), binary.BigEndian.Uint32(b[e+12:])
		if int(off)+int(l) > len(b) {
			return nil, fmt.Errorf("table %s out of range", tag)
		}
		out[tag] = b[off : off+l]
	}
	return out, nil
}

// cmapRunes returns every code point mapped to a non-zero glyph by a Unicode subtable (formats 4, 6, 12).
func cmapRunes(cm []byte) (map[rune]bool, error) {
	if len(cm) < 4 {
		return nil, fmt.Errorf("short cmap")
	}
	n := int(binary.BigEndian.Uint16(cm[2:]))
	out := map[rune]bool{}
	seen := false
	for i := 0; i < n; i++ {
		e := 4 + 8*i
		if e+8 > len(cm) {
			return nil, fmt.Errorf("truncated cmap header")
		}
		pid, eid := binary.BigEndian.Uint16(cm[e:]), binary.BigEndian.Uint16(cm[e+2:])
		off := int(binary.BigEndian.Uint32(cm[e+4:]))
		unicode := pid == 0 || (pid == 3 && (eid == 1 || eid == 10))
		if !unicode || off+4 > len(cm) {
			continue
		}
		st := cm[off:]
		switch binary.BigEndian.Uint16(st) {
		case 4:
			if len(st) < 16 {
				continue
			}
			segX2 := int(binary.BigEndian.Uint16(st[6:]))
			endO, startO := 14, 14+segX2+2
			deltaO, rangeO := startO+segX2, startO+2*segX2
			if rangeO+segX2 > len(st) {
				continue
			}
			for s := 0; s < segX2; s += 2 {
				end, start := int(binary.BigEndian.Uint16(st[endO+s:])), int(binary.BigEndian.Uint16(st[startO+s:]))
				delta, ro := int(binary.BigEndian.Uint16(st[deltaO+s:])), int(binary.BigEndian.Uint16(st[rangeO+s:]))
				for c := start; c <= end && c < 0xffff; c++ {
					var g int
					if ro == 0 {
						g = (c + delta) & 0xffff
					} else {
						p := rangeO + s + ro + 2*(c-start)
						if p+2 > len(st) {
							continue
						}
						g = int(binary.BigEndian.Uint16(st[p:]))
						if g != 0 {
							g = (g + delta) & 0xffff
						}
					}
					if g != 0 {
						out[rune(c)] = true
					}
				}
			}
			seen = true
		case 6:
			if len(st) < 10 {
				continue
			}
			first, cnt := int(binary.BigEndian.Uint16(st[6:])), int(binary.BigEndian.Uint16(st[8:]))
			for k := 0; k < cnt && 10+2*k+2 <= len(st); k++ {
				if binary.BigEndian.Uint16(st[10+2*k:]) != 0 {
					out[rune(first+k)] = true
				}
			}
			seen = true
		case 12:
			if len(st) < 16 {
				continue
			}
			ng := int(binary.BigEndian.Uint32(st[12:]))
			for k := 0; k < ng && 16+12*k+12 <= len(st); k++ {
				a, b := binary.BigEndian.Uint32(st[16+12*k:]), binary.BigEndian.Uint32(st[16+12*k+4:])
				g := binary.BigEndian.Uint32(st[16+12*k+8:])
				for c := a; c <= b && c-a < 0x20000; c++ {
					if g+(c-a) != 0 {
						out[rune(c)] = true
					}
				}
			}
			seen = true
		}
	}
	if !seen {
		return nil, fmt.Errorf("no Unicode cmap subtable")
	}
	return out, nil
}

var fullCache sync.Map // d2fonts.Font -> map[rune]bool

func fullFont(f d2fonts.Font) map[rune]bool {
	if v, ok := fullCache.Load(f); ok {
		return v.(map[rune]bool)
	}
	ttf := d2fonts.FontFaces.Get(f)
	var m map[rune]bool
	if t, err := sfntTables(ttf); err == nil {
		m, _ = cmapRunes(t["cmap"])
	}
	if m == nil {
		m = map[rune]bool{}
	}
	fullCache.Store(f, m)
	return m
}

// ---------------------------------------------------------------- reading the SVG

var fontFaceRe = regexp.MustCompile(`@font-face\s*\{\s*font-family:\s*"?([A-Za-z0-9_-]+)"?;\s*src:\s*url\("data:application/font-woff;base64,([A-Za-z0-9+/=]+)"\)`)

// style key ("regular", "bold", "italic", "semibold", "mono", "mono-bold", "mono-italic") of a font family name
func styleOfFamily(fam string) (string, bool) {
	i := strings.LastIndex(fam, "font-")
	if i < 0 {
		return "", false
	}
	return fam[i+5:], i > 0 // hashed (diagram-specific, subset) families have a prefix
}

var classStyle = map[string]string{"text": "regular", "text-bold": "bold", "text-italic": "italic",
	"text-mono": "mono", "text-mono-bold": "mono-bold", "text-mono-italic": "mono-italic"}

type drawn map[string]map[rune]bool // style -> runes

func (d drawn) add(style, s string) {
	if d[style] == nil {
		d[style] = map[rune]bool{}
	}
	for _, r := range s {
		d[style][r] = true
	}
}

// collect walks the SVG: <text class="text…"> character data goes to the style of its class; markdown (<div class="md">)
// goes to regular, and additionally to bold+semibold under strong/b/h1-6/th, italic under em/dfn, mono under code/pre/kbd/samp.
func collect(svg []byte) (drawn, []string, error) {
	dec := xml.NewDecoder(bytes.NewReader(svg))
	dec.Strict = true
	dec.Entity = xml.HTMLEntity
	d := drawn{}
	var css []string
	type frame struct {
		name   string
		styles []string
	}
	var stack []frame
	cur := func() []string {
		if len(stack) == 0 {
			return nil
		}
		return stack[len(stack)-1].styles
	}
	for {
		tok, err := dec.Token()
		if err == io.EOF {
			break
		}
		if err != nil {
			return nil, nil, err
		}
		switch t := tok.(type) {
		case xml.StartElement:
			styles := cur()
			name := t.Name.Local
			class := ""
			for _, a := range t.Attr {
				if a.Name.Local == "class" {
					class = a.Value
				}
			}
			switch {
			case name == "text":
				styles = nil
				for _, c := range strings.Fields(class) {
					if s, ok := classStyle[c]; ok {
						styles = []string{s}
						break
					}
				}
			case name == "div" && (class == "md" || strings.HasPrefix(class, "md ")):
				styles = []string{"regular"}
			case len(styles) > 0:
				switch name {
				case "strong", "b", "h1", "h2", "h3", "h4", "h5", "h6", "th":
					styles = append(append([]string{}, styles...), "bold", "semibold")
				case "em", "dfn":
					styles = append(append([]string{}, styles...), "italic")
				case "code", "pre", "kbd", "samp", "tt":
					styles = append(append([]string{}, styles...), "mono")
				}
			case name == "style" || name == "title" || name == "desc" || name == "script":
				styles = nil
				if name == "style" {
					styles = []string{"\x00css"}
				}
			}
			stack = append(stack, frame{name, styles})
		case xml.EndElement:
			stack = stack[:len(stack)-1]
		case xml.CharData:
			for _, s := range cur() {
				if s == "\x00css" {
					css = append(css, string(t))
				} else {
					d.add(s, string(t))
				}
			}
		}
	}
	return d, css, nil
}

// ---------------------------------------------------------------- cases

func sortedRunes(m map[rune]bool) []rune {
	out := make([]rune, 0, len(m))
	for r := range m {
		out = append(out, r)
	}
	sort.Slice(out, func(i, j int) bool { return out[i] < out[j] })
	return out
}

func fontFor(d *d2target.Diagram, style string) d2fonts.Font {
	fam := d2fonts.SourceSansPro
	if d.FontFamily != nil {
		fam = *d.FontFamily
	}
	mono := d2fonts.SourceCodePro
	if d.MonoFontFamily != nil {
		mono = *d.MonoFontFamily
	}
	switch style {
	case "bold":
		return fam.Font(0, d2fonts.FONT_STYLE_BOLD)
	case "italic":
		return fam.Font(0, d2fonts.FONT_STYLE_ITALIC)
	case "semibold":
		return fam.Font(0, d2fonts.FONT_STYLE_SEMIBOLD)
	case "mono":
		return mono.Font(0, d2fonts.FONT_STYLE_REGULAR)
	case "mono-bold":
		return mono.Font(0, d2fonts.FONT_STYLE_BOLD)
	case "mono-italic":
		return mono.Font(0, d2fonts.FONT_STYLE_ITALIC)
	}
	return fam.Font(0, d2fonts.FONT_STYLE_REGULAR)
}

func fontsCase(in map[string]any, root *d2target.Diagram, svg []byte) map[string]any {
	out := map[string]any{}
	d, css, err := collect(svg)
	if err != nil {
		out["xmlerr"] = err.Error()
		return map[string]any{"k": "fonts", "in": in, "out": out, "triv": true}
	}
	subsets := map[string]map[rune]bool{}
	var decodeErr []string
	for _, c := range css {
		for _, m := range fontFaceRe.FindAllStringSubmatch(c, -1) {
			style, hashed := styleOfFamily(m[1])
			if !hashed {
				continue // the appendix' full fonts ("font-regular", "font-bold"): not subsets
			}
			raw, err := base64.StdEncoding.DecodeString(m[2])
			if err != nil {
				decodeErr = append(decodeErr, style+": "+err.Error())
				continue
			}
			tabs, err := woffTables(raw)
			if err != nil {
				decodeErr = append(decodeErr, style+": "+err.Error())
				continue
			}
			cm, err := cmapRunes(tabs["cmap"])
			if err != nil {
				decodeErr = append(decodeErr, style+": "+err.Error())
				continue
			}
			subsets[style] = cm
		}
	}
	var classes []map[string]any
	styles := make([]string, 0, len(d))
	for s := range d {
		styles = append(styles, s)
	}
	sort.Strings(styles)
	for _, s := range styles {
		rs := sortedRunes(d[s])
		sub, embedded := subsets[s]
		full := fullFont(fontFor(root, s))
		cps, sb, fb := []int{}, []bool{}, []bool{}
		for _, r := range rs {
			cps = append(cps, int(r))
			sb = append(sb, sub[r])
			fb = append(fb, full[r])
		}
		classes = append(classes, map[string]any{"style": s, "embedded": embedded, "runes": cps, "sub": sb, "full": fb, "subsetSize": len(sub)})
	}
	out["classes"] = classes
	out["decodeErr"] = decodeErr
	return map[string]any{"k": "fonts", "in": in, "out": out}
}

func cps(s string) []int {
	out := []int{}
	for _, r := range s {
		out = append(out, int(r))
	}
	return out
}

// board renders the fields GetCorpus reads, children in the order GetNestedCorpus visits them
func board(d *d2target.Diagram) map[string]any {
	shapes := []any{}
	for _, s := range d.Shapes {
		fields, methods, cols := []any{}, []any{}, []any{}
		for _, f := range s.Fields {
			fields = append(fields, map[string]any{"name": cps(f.Name), "type": cps(f.Type), "vis": f.Visibility})
		}
		for _, m := range s.Methods {
			methods = append(methods, map[string]any{"name": cps(m.Name), "type": cps(m.Return), "vis": m.Visibility})
		}
		for _, c := range s.Columns {
			cons := []any{}
			for _, x := range c.Constraint {
				cons = append(cons, cps(x))
			}
			cols = append(cols, map[string]any{"name": cps(c.Name.Label), "type": cps(c.Type.Label), "cons": cons})
		}
		shapes = append(shapes, map[string]any{"label": cps(s.Label), "tooltip": cps(s.Tooltip), "link": cps(s.Link), "pretty": cps(s.PrettyLink),
			"type": s.Type, "fields": fields, "methods": methods, "cols": cols})
	}
	conns := []any{}
	for _, c := range d.Connections {
		m := map[string]any{"label": cps(c.Label)}
		if c.SrcLabel != nil {
			m["src"] = cps(c.SrcLabel.Label)
		}
		if c.DstLabel != nil {
			m["dst"] = cps(c.DstLabel.Label)
		}
		conns = append(conns, m)
	}
	out := map[string]any{"shapes": shapes, "conns": conns, "corpus": cps(d.GetCorpus())}
	if d.Legend != nil {
		ls, lc := []any{}, []any{}
		for _, s := range d.Legend.Shapes {
			ls = append(ls, cps(s.Label))
		}
		for _, c := range d.Legend.Connections {
			lc = append(lc, cps(c.Label))
		}
		out["legend"] = map[string]any{"label": cps(d.Legend.Label), "shapes": ls, "conns": lc}
	}
	kids := []any{}
	for _, l := range d.Layers {
		kids = append(kids, board(l))
	}
	for _, l := range d.Scenarios {
		kids = append(kids, board(l))
	}
	for _, l := range d.Steps {
		kids = append(kids, board(l))
	}
	out["kids"] = kids
	return out
}

// ---------------------------------------------------------------- generator

var alphabets = [][]rune{
	[]rune("abcdefghijklmnopqrstuvwxyzABCDEFGHIJKLMNOPQRSTUVWXYZ0123456789"),
	[]rune(" .,;:!?-_()[]{}<>&\"'/\\|@#$%^*+=~`"),
	[]rune("àáâãäåæçèéêëìíîïðñòóôõöøùúûüýþÿĀāĂăĄąĆćĈĉŁłŃńŒœŠšŸŽžƒ"),
	[]rune("ΑΒΓΔΕΖΗΘαβγδεζηθικλμνξοπρστυφχψω"),
	[]rune("АБВГДЕЖЗИЙКЛМНОПабвгдежзийклмнопрстуфхцчшщъыьэюя"),
	[]rune("ßİıǅǆẞﬁﬂ"),
	[]rune("€£¥©®™°±×÷¶§†‡•…‰′″‹›«»–—‘’“”"),
	[]rune("日本語中文한국어"),
	[]rune("←↑→↓↔⇒∀∂∃∅∇∈∑−√∞∧∨∩∪≈≠≤≥"),
	[]rune("😀🎉\U0001F680\U00010348"),
	[]rune("\u00a0\u00ad\u200b\u2009\t"),
}

type textSrc struct {
	r     *rand.Rand
	marks int
}

// characters SourceSansPro / SourceCodePro have and no alphabet above uses: one per board, so that every board
// (in particular the deepest ones of a board tree) draws a character no other board has
var markPool = []rune("ĎďĐđĒēĔĕĖėĘęĚěĜĝĞğĠġĢģĤĥĦħĨĩĪīĬĭĮįĴĵĶķĹĺĻļĽľŅņŇňŌōŎŏŐőŔŕŖŗŘřŚśŜŝŞşŢţŤťŦŧŨũŪūŬŭŮůŰűŲųŴŵŶŷŹźŻż")

func (t *textSrc) word() string {
	var b strings.Builder
	a := alphabets[0]
	switch k := t.r.Intn(10); {
	case k < 4:
	case k < 6:
		a = alphabets[1]
	default:
		a = alphabets[1+t.r.Intn(len(alphabets)-1)]
	}
	for i, n := 0, 1+t.r.Intn(5); i < n; i++ {
		b.WriteRune(a[t.r.Intn(len(a))])
	}
	return b.String()
}

func (t *textSrc) Str(field string) string {
	switch field {
	case "mark":
		t.marks++
		if t.marks > len(markPool) {
			return ""
		}
		return string(markPool[t.marks-1])
	case "gradpos":
		return fmt.Sprintf("%d%%", t.r.Intn(100))
	case "theme-override":
		return "#abcdef"
	case "icon":
		return "x"
	case "class":
		return "c" + fmt.Sprint(t.r.Intn(9))
	}
	var parts []string
	for i, n := 0, 1+t.r.Intn(3); i < n; i++ {
		parts = append(parts, t.word())
	}
	s := strings.Join(parts, " ")
	if field == "md" || field == "tooltip-md" || field == "tooltip" {
		// markdown must stay well-formed: no raw markup characters
		s = strings.Map(func(r rune) rune {
			if strings.ContainsRune("<>&`*_[]\\|#~$", r) || r == '\t' || r == 0x2028 {
				return 'x'
			}
			return r
		}, s)
		if field == "md" {
			s = []string{"# ", "", "**", "- ", "*"}[t.r.Intn(5)] + s
			if strings.HasPrefix(s, "**") {
				s += "**"
			} else if strings.HasPrefix(s, "*") {
				s += "*"
			}
			if t.r.Intn(3) == 0 {
				s += "\n\n`" + strings.Map(func(r rune) rune {
					if r == '`' || r == '|' {
						return 'c'
					}
					return r
				}, t.word()) + "`"
			}
		}
	}
	if (field == "label" || field == "edge-label") && t.r.Intn(6) == 0 {
		s += "\n" + t.word()
		if t.r.Intn(3) == 0 {
			s += "\n\n" + t.word()
		}
	}
	if field == "column" || field == "id" || field == "board" || field == "field" {
		s = strings.ReplaceAll(s, "\n", " ")
	}
	return s
}

type job struct {
	script string
	opts   svgr.Opts
	res    svgr.Result
}

func emitJob(c *hl.Ctx, j *job) {
	c.Count("stage:" + j.res.Stage)
	if j.res.Stage != "ok" {
		return
	}
	in := map[string]any{"script": j.script, "opts": j.opts.JSON()}
	c.Emit(map[string]any{"k": "corpus", "in": in, "out": map[string]any{"board": board(j.res.Diagram), "nested": cps(j.res.Diagram.GetNestedCorpus())}})
	for i, doc := range j.res.SVGs {
		in2 := map[string]any{"script": j.script, "opts": j.opts.JSON(), "doc": i}
		c.Emit(fontsCase(in2, j.res.Diagram, doc))
	}
}

func runJobs(c *hl.Ctx, jobs []*job) {
	var wg sync.WaitGroup
	ch := make(chan *job)
	for w := 0; w < runtime.NumCPU(); w++ {
		wg.Add(1)
		go func() {
			defer wg.Done()
			for j := range ch {
				j.res = svgr.Render(j.script, j.opts)
			}
		}()
	}
	for _, j := range jobs {
		ch <- j
	}
	close(ch)
	wg.Wait()
	for _, j := range jobs {
		emitJob(c, j)
		j.res = svgr.Result{}
	}
}

// a deep board tree: every board draws a character no other board has (scenario -> steps / layers -> scenarios …)
const deepTree = "a: A\nscenarios: {\n  s1: {\n    b: Ď\n    steps: {\n      t1: {\n        c: ģ\n      }\n    }\n    layers: {\n      l1: {\n        d: Ŕ\n        scenarios: {\n          z: {\n            e: Ŵ\n          }\n        }\n      }\n    }\n  }\n}\nlayers: {\n  l2: {\n    f: ŧ\n    scenarios: {\n      q: {\n        g: Ő\n        steps: {\n          u: {\n            h: ű\n          }\n        }\n      }\n    }\n  }\n}\nsteps: {\n  p1: {\n    i: Ğ\n    layers: {\n      w: {\n        j: ĩ\n      }\n    }\n  }\n}\n"

var corpus = []string{
	"a -> b: hi\n",
	"x: \"a\\n\\nb\"\n",
	"c: |go\n  a b\tc\n|\n",
	"t: {\n  shape: sql_table\n  id: int {constraint: [primary_key; zed]}\n}\nk: {\n  shape: class\n  -f: string\n  \\#m(): void\n}\n",
	"a: {tooltip: Tip; link: https://example.com/path}\nb: {tooltip: Übung}\n",
	"a -> b: {source-arrowhead: 1; target-arrowhead: \"*\"}\n",
	"m: |md\n# Title\n**bold** *em* `code`\n|\n",
}

func run(c *hl.Ctx) error {
	if cs := c.ReplayCase(); cs != nil {
		in := cs["in"].(map[string]any)
		j := &job{script: in["script"].(string), opts: svgr.OptsFromJSON(in["opts"].(map[string]any))}
		j.res = svgr.Render(j.script, j.opts)
		emitJob(c, j)
		return nil
	}
	r := c.Rand()
	var jobs []*job
	for _, s := range corpus {
		jobs = append(jobs, &job{script: s, opts: svgr.Opts{Dark: -1, Pad: -1}})
		jobs = append(jobs, &job{script: s, opts: svgr.Opts{Dark: -1, Pad: -1, Appendix: true}})
		c.Count("corpus")
	}
	jobs = append(jobs, &job{script: deepTree, opts: svgr.Opts{Dark: -1, Pad: -1, Animate: 500}})
	jobs = append(jobs, &job{script: deepTree, opts: svgr.Opts{Dark: -1, Pad: -1, Multi: true}})
	c.Count("corpus:deep-tree")
	runJobs(c, jobs)
	total := c.Pick(200, 4000)
	if c.Search && c.Tier != "thorough" {
		total = 800
	}
	feats := svgr.Features{}
	for done := 0; done < total; {
		jobs = jobs[:0]
		for k := 0; k < 256 && done < total; k, done = k+1, done+1 {
			g := &svgr.G{R: r, S: &textSrc{r: r}, F: feats, Rich: r.Intn(3) == 0}
			boards := 0
			if r.Intn(3) == 0 {
				boards = 1 + r.Intn(3)
			}
			script := g.Script(boards)
			o := svgr.RandOpts(r, boards)
			if boards > 0 {
				c.Count("boards")
				if o.Animate > 0 {
					c.Count("boards:animated")
				}
			}
			jobs = append(jobs, &job{script: script, opts: o})
		}
		runJobs(c, jobs)
	}
	for k, v := range feats {
		for i := 0; i < v; i++ {
			c.Count("feat:" + k)
		}
	}
	return nil
}
