package main

import (
	"bufio"
	"bytes"
	"encoding/json"
	"errors"
	"fmt"
	"io"
	"math/rand"
	"os"
	"os/exec"
	"runtime"
	"runtime/debug"
	"sort"
	"strings"
	"testing/fstest"
	"time"

	"d2v/harness/hl"
	"d2v/harness/totalgen"

	"oss.terrastruct.com/d2/d2ast"
	"oss.terrastruct.com/d2/d2compiler"
	"oss.terrastruct.com/d2/d2ir"
	"oss.terrastruct.com/d2/d2parser"
)

// C07: compilation is total — a graph or positioned errors, never a crash or a hang.
//
//	compile  full-language programs (+ importable files) through d2compiler.Compile: outcome, error positions, wall time
//	mp       the matchPattern leaf (hook VerifMatchPattern) against the Lean model, outcome incl. panic
//	arr      the compileArray leaf reached through the public path on arrays built from every node kind
//	theme    compileThemeOverrides reached through vars.d2-config.theme-overrides with fields of every shape
//	edgekw   createEdge's keyword checks under underscores / common prefixes (index into the original key path)
func main() {
	if os.Getenv("C07_WORKER") != "" {
		workerLoop()
		return
	}
	hl.Main("C07", run)
}

// panicSite returns the innermost d2 function on the panicking goroutine's stack (function name, never a line).
func panicSite() string {
	pc := make([]uintptr, 64)
	n := runtime.Callers(3, pc)
	fr := runtime.CallersFrames(pc[:n])
	for {
		f, more := fr.Next()
		if strings.Contains(f.Function, "oss.terrastruct.com/d2/") {
			fn := f.Function[strings.LastIndex(f.Function, "/")+1:]
			fn = strings.NewReplacer("(*", "", ")", "").Replace(fn)
			return fn
		}
		if !more {
			return "?"
		}
	}
}

type result struct {
	outcome string // graph | errors | othererr | panic | both | neither | hang
	site    string
	msg     string
	errs    []map[string]any
	objs    int
	edges   int
}

func mkfs(files map[string]string) fstest.MapFS {
	fs := fstest.MapFS{}
	for k, v := range files {
		fs[k] = &fstest.MapFile{Data: []byte(v)}
	}
	return fs
}

func compileOnce(src string, files map[string]string) (res result) {
	defer func() {
		if r := recover(); r != nil {
			res = result{outcome: "panic", site: panicSite(), msg: fmt.Sprint(r)}
		}
	}()
	g, _, err := d2compiler.Compile("index.d2", strings.NewReader(src), &d2compiler.CompileOptions{FS: mkfs(files)})
	switch {
	case g != nil && err != nil:
		res.outcome = "both"
	case g == nil && err == nil:
		res.outcome = "neither"
	case g != nil:
		res.outcome = "graph"
		res.objs, res.edges = len(g.Objects), len(g.Edges)
	default:
		var pe *d2parser.ParseError
		if !errors.As(err, &pe) {
			res.outcome = "othererr"
			res.msg = err.Error()
			return
		}
		res.outcome = "errors"
		all := map[string]string{"index.d2": src}
		for k, v := range files {
			all[k] = v
		}
		for _, e := range pe.Errors {
			res.errs = append(res.errs, errObs(e, all))
		}
	}
	return
}

func errObs(e d2ast.Error, all map[string]string) map[string]any {
	r := e.Range
	file, known := all[r.Path]
	o := map[string]any{
		"path": r.Path, "known": known, "flen": len(file), "nl": strings.Count(file, "\n"),
		"sl": r.Start.Line, "sc": r.Start.Column, "sb": r.Start.Byte,
		"el": r.End.Line, "ec": r.End.Column, "eb": r.End.Byte,
		"msg": e.Message,
	}
	if known && r.Start.Byte >= 0 && r.Start.Byte <= len(file) {
		o["slc"] = strings.Count(file[:r.Start.Byte], "\n")
	} else {
		o["slc"] = -1
	}
	return o
}

// timedLocal (worker side) runs one compile under a watchdog; returns the result and the best-of-k wall time in microseconds.
func timedLocal(src string, files map[string]string, hangAfter time.Duration) (result, int64) {
	type rt struct {
		r  result
		us int64
	}
	one := func() (result, int64, bool) {
		ch := make(chan rt, 1)
		go func() {
			t := time.Now()
			r := compileOnce(src, files)
			ch <- rt{r, time.Since(t).Microseconds()}
		}()
		select {
		case v := <-ch:
			return v.r, v.us, true
		case <-time.After(hangAfter):
			return result{outcome: "hang"}, hangAfter.Microseconds(), false
		}
	}
	r, us, ok := one()
	if !ok {
		return r, us
	}
	// scheduling / GC noise: anything slow is re-measured and the minimum kept
	for k := 0; k < 3 && us > 3000; k++ {
		_, us2, ok := one()
		if ok && us2 < us {
			us = us2
		}
	}
	return r, us
}

// ---------------------------------------------------------------------------------------------- worker process
//
// A stack overflow (unbounded recursion) or a runtime throw is not a panic: it kills the process.  Every compile
// therefore runs in a worker subprocess (this binary with C07_WORKER=1) that the parent feeds over a pipe; a dead
// worker is the observation "fatal", a silent one is "hang" (and is killed).

type wreq struct {
	Src   string            `json:"src"`
	Files map[string]string `json:"files"`
}

type wresp struct {
	Outcome string           `json:"outcome"`
	Site    string           `json:"site"`
	Msg     string           `json:"msg"`
	Errs    []map[string]any `json:"errs"`
	Objs    int              `json:"objs"`
	Edges   int              `json:"edges"`
	Us      int64            `json:"us"`
}

func workerLoop() {
	debug.SetMaxStack(96 << 20)
	in := bufio.NewReaderSize(os.Stdin, 1<<20)
	out := bufio.NewWriter(os.Stdout)
	for {
		line, err := in.ReadBytes('\n')
		if len(line) > 0 {
			var q wreq
			if json.Unmarshal(line, &q) == nil {
				r, us := timedLocal(q.Src, q.Files, 15*time.Second)
				b, _ := json.Marshal(wresp{r.outcome, r.site, r.msg, r.errs, r.objs, r.edges, us})
				out.Write(b)
				out.WriteByte('\n')
				out.Flush()
				if r.outcome == "hang" {
					os.Exit(7) // the runaway goroutine cannot be stopped; start afresh
				}
			}
		}
		if err != nil {
			return
		}
	}
}

type worker struct {
	cmd    *exec.Cmd
	in     io.WriteCloser
	lines  chan []byte
	stderr *bytes.Buffer
}

var theWorker *worker

func startWorker() *worker {
	cmd := exec.Command(os.Args[0])
	cmd.Env = append(os.Environ(), "C07_WORKER=1")
	w := &worker{cmd: cmd, lines: make(chan []byte, 1), stderr: &bytes.Buffer{}}
	cmd.Stderr = w.stderr
	var err error
	w.in, err = cmd.StdinPipe()
	if err != nil {
		panic(err)
	}
	so, err := cmd.StdoutPipe()
	if err != nil {
		panic(err)
	}
	if err := cmd.Start(); err != nil {
		panic(err)
	}
	go func() {
		rd := bufio.NewReaderSize(so, 1<<20)
		for {
			l, err := rd.ReadBytes('\n')
			if len(l) > 0 && err == nil {
				w.lines <- l
			}
			if err != nil {
				close(w.lines)
				return
			}
		}
	}()
	return w
}

func (w *worker) stop() {
	w.in.Close()
	w.cmd.Process.Kill()
	w.cmd.Wait()
}

// timed runs one compile in the worker process.
func timed(src string, files map[string]string, hangAfter time.Duration) (result, int64) {
	if theWorker == nil {
		theWorker = startWorker()
	}
	w := theWorker
	b, _ := json.Marshal(wreq{src, files})
	w.in.Write(append(b, '\n'))
	select {
	case l, ok := <-w.lines:
		if !ok {
			w.cmd.Wait()
			theWorker = nil
			msg := "worker died"
			for _, ln := range strings.Split(w.stderr.String(), "\n") {
				if strings.HasPrefix(ln, "fatal error:") || strings.HasPrefix(ln, "runtime:") || strings.HasPrefix(ln, "panic:") {
					msg = ln
					if strings.HasPrefix(ln, "fatal error:") {
						break
					}
				}
			}
			site := ""
			for _, ln := range strings.Split(w.stderr.String(), "\n") {
				if strings.HasPrefix(ln, "oss.terrastruct.com/d2/") {
					fn := ln[strings.LastIndex(ln, "/")+1:]
					if i := strings.LastIndex(fn, "("); i > 0 {
						fn = fn[:i]
					}
					site = strings.NewReplacer("(*", "", ")", "").Replace(fn)
					break
				}
			}
			return result{outcome: "fatal", msg: msg, site: site}, 0
		}
		var r wresp
		if err := json.Unmarshal(l, &r); err != nil {
			return result{outcome: "fatal", msg: "bad worker reply"}, 0
		}
		if r.Outcome == "hang" {
			w.stop()
			theWorker = nil
		}
		// JSON numbers come back as float64; errObs consumers expect ints
		for _, e := range r.Errs {
			for k, v := range e {
				if f, ok := v.(float64); ok {
					e[k] = int(f)
				}
			}
		}
		return result{r.Outcome, r.Site, r.Msg, r.Errs, r.Objs, r.Edges}, r.Us
	case <-time.After(hangAfter + 10*time.Second):
		w.stop()
		theWorker = nil
		return result{outcome: "hang"}, hangAfter.Microseconds()
	}
}

// compileRemote: outcome only (leaf streams)
func compileRemote(src string, files map[string]string) result {
	r, _ := timed(src, files, 15*time.Second)
	return r
}

func totalLen(src string, files map[string]string) int {
	n := len(src)
	for _, v := range files {
		n += len(v)
	}
	return n
}

func obsCompile(src string, files map[string]string, feat []string) map[string]any {
	r, us := timed(src, files, 20*time.Second)
	fl := map[string]any{}
	for k, v := range files {
		fl[k] = v
	}
	out := map[string]any{"outcome": r.outcome, "us": us, "objs": r.objs, "edges": r.edges}
	if r.site != "" {
		out["site"] = r.site
	}
	if r.msg != "" {
		out["msg"] = r.msg
	}
	if r.errs != nil {
		out["errs"] = r.errs
	}
	m := map[string]any{"k": "compile", "in": map[string]any{"src": src, "files": fl, "n": totalLen(src, files)}, "out": out}
	if feat != nil {
		m["feat"] = feat
	}
	return m
}

func strmap(v any) map[string]string {
	out := map[string]string{}
	if m, ok := v.(map[string]any); ok {
		for k, x := range m {
			out[k], _ = x.(string)
		}
	}
	return out
}

// ---------------------------------------------------------------------------------------------- leaves

// mp: matchPattern(s, pattern).  strings.ToLower is an external parameter of the model, so the lowered strings
// travel with the case.
func obsMP(s string, pat []string) map[string]any {
	var got string
	oc := hl.Guard(func() {
		if d2ir.VerifMatchPattern(s, pat) {
			got = "true"
		} else {
			got = "false"
		}
	})
	if oc != "ok" {
		got = "panic"
	}
	hp := make([]string, len(pat))
	lp := make([]string, len(pat))
	for i, p := range pat {
		hp[i] = hl.Hx([]byte(p))
		lp[i] = hl.Hx([]byte(strings.ToLower(p)))
	}
	// the code lower-cases the name first and tests the lowered name against the reserved keywords
	_, reserved := d2ast.ReservedKeywords[strings.ToLower(s)]
	return map[string]any{"k": "mp",
		"in":  map[string]any{"s": hl.Hx([]byte(s)), "pat": hp, "ls": hl.Hx([]byte(strings.ToLower(s))), "lpat": lp, "reserved": reserved},
		"out": map[string]any{"r": got, "detail": oc}}
}

var mpAtoms = []string{"a", "b", "A", "B", "ab", "Ab", "x", "Ⱥ", "ⱥ", "Ⱦ", "ⱦ", "İ", "i", "i̇", "K", "k", "ẞ", "ß", "Å", "å", "é", "É", "日", "😀", "-", " ", ".", "ǅ", "ǆ", "ſ", "s"}

func genMPString(r *rand.Rand, max int) string {
	n := r.Intn(max + 1)
	var b strings.Builder
	for i := 0; i < n; i++ {
		b.WriteString(mpAtoms[r.Intn(len(mpAtoms))])
	}
	return b.String()
}

// a split pattern as d2ast produces it: literals and "*" alternate, no two stars adjacent, no empty literal
func genMPPattern(r *rand.Rand, from string) []string {
	var pat []string
	n := 1 + r.Intn(4)
	star := r.Intn(2) == 0
	rs := []rune(from)
	for i := 0; i < n; i++ {
		if star {
			pat = append(pat, "*")
		} else {
			var lit string
			if len(rs) > 0 && r.Intn(3) > 0 {
				// a piece of the subject, possibly case-flipped, so that matches are frequent
				a := r.Intn(len(rs))
				b := a + 1 + r.Intn(len(rs)-a)
				lit = string(rs[a:b])
				switch r.Intn(3) {
				case 0:
					lit = strings.ToLower(lit)
				case 1:
					lit = strings.ToUpper(lit)
				}
			} else {
				lit = genMPString(r, 2)
			}
			if lit == "" {
				lit = "a"
			}
			pat = append(pat, lit)
		}
		star = !star
	}
	return pat
}

// arr: element kinds of an array literal; the text is assembled here so every kind is reachable from the parser.
var arrKinds = []string{"scalar", "number", "dq", "sq", "null", "block", "array", "map", "sub", "subspread", "comment", "blockcomment",
	"impScalar", "impArray", "impMap", "impEmpty", "impFile", "impMissing", "impScalarSpread", "impArraySpread", "impMapSpread", "impEmptySpread", "impFileSpread"}

var arrFiles = map[string]string{"lib.d2": "sc: v\nar: [p; q; r]\nmp: {k: v}\nem\n"}

func arrText(kinds []any) string {
	var el []string
	for _, k := range kinds {
		switch k.(string) {
		case "scalar":
			el = append(el, "a")
		case "number":
			el = append(el, "12")
		case "dq":
			el = append(el, `"d q"`)
		case "sq":
			el = append(el, `'s'`)
		case "null":
			el = append(el, "null")
		case "block":
			el = append(el, "|md b|")
		case "array":
			el = append(el, "[i; j]")
		case "map":
			el = append(el, "{m: n}")
		case "sub":
			el = append(el, "${v}")
		case "subspread":
			el = append(el, "...${va}")
		case "comment":
			el = append(el, "# line comment")
		case "blockcomment":
			el = append(el, `""" block comment """`)
		case "impScalar":
			el = append(el, "@lib.sc")
		case "impArray":
			el = append(el, "@lib.ar")
		case "impMap":
			el = append(el, "@lib.mp")
		case "impEmpty":
			el = append(el, "@lib.em")
		case "impFile":
			el = append(el, "@lib")
		case "impMissing":
			el = append(el, "@nolib")
		case "impScalarSpread":
			el = append(el, "...@lib.sc")
		case "impArraySpread":
			el = append(el, "...@lib.ar")
		case "impMapSpread":
			el = append(el, "...@lib.mp")
		case "impEmptySpread":
			el = append(el, "...@lib.em")
		case "impFileSpread":
			el = append(el, "...@lib")
		}
	}
	return "vars: {v: w; va: [s; t]}\nx: [\n" + strings.Join(el, "\n") + "\n]\n"
}

func irValKind(v d2ir.Value) string {
	switch t := v.(type) {
	case nil:
		return "nil"
	case *d2ir.Scalar:
		if t == nil {
			return "nil"
		}
		return "s"
	case *d2ir.Array:
		if t == nil {
			return "nil"
		}
		return "a"
	case *d2ir.Map:
		if t == nil {
			return "nil"
		}
		return "m"
	}
	return "?"
}

func obsArr(kinds []any) map[string]any {
	src := arrText(kinds)
	out := map[string]any{}
	// the leaf itself: d2ir.Compile's array (values before substitution resolution are not observable, so the
	// observation is taken on a variant without the vars block when no substitution element is present)
	r := compileRemote(src, arrFiles)
	out["outcome"] = r.outcome
	if r.site != "" {
		out["site"] = r.site
	}
	nerr := 0
	for range r.errs {
		nerr++
	}
	out["nerr"] = nerr
	var vals []string
	oc := hl.Guard(func() {
		ast, err := d2parser.Parse("index.d2", strings.NewReader(src), nil)
		if err != nil {
			out["parse"] = err.Error()
			return
		}
		ir, _, err := d2ir.Compile(ast, &d2ir.CompileOptions{FS: mkfs(arrFiles)})
		if err != nil || ir == nil {
			return
		}
		f := ir.GetField(d2ast.FlatUnquotedString("x"))
		if f == nil {
			return
		}
		if a, ok := f.Composite.(*d2ir.Array); ok {
			vals = []string{}
			for _, v := range a.Values {
				vals = append(vals, irValKind(v))
			}
		}
	})
	out["ir"] = oc
	if vals != nil {
		out["vals"] = vals
	}
	return map[string]any{"k": "arr", "in": map[string]any{"kinds": kinds}, "out": out}
}

// theme: fields of vars.d2-config.theme-overrides; each field = code + value shape
var themeNames = []string{"N1", "N4", "N7", "B1", "B6", "AA2", "AA5", "AB4", "AB5", "n1", "ab5", "XX", "C1", "N8"}
var themeShapes = []string{"color", "hex", "bad", "none", "null", "map", "array", "nested", "primmap", "block"}

func themeText(fields []any) string {
	var b strings.Builder
	b.WriteString("vars: {\nd2-config: {\ntheme-overrides: {\n")
	for _, f := range fields {
		m := f.(map[string]any)
		n := m["name"].(string)
		switch m["shape"].(string) {
		case "color":
			b.WriteString(n + ": red\n")
		case "hex":
			b.WriteString(n + ": \"#0a0B0c\"\n")
		case "bad":
			b.WriteString(n + ": notacolor\n")
		case "none":
			b.WriteString(n + "\n")
		case "null":
			b.WriteString(n + ": null\n")
		case "map":
			b.WriteString(n + ": {a: b}\n")
		case "array":
			b.WriteString(n + ": [red; blue]\n")
		case "nested":
			b.WriteString(n + ".y: red\n")
		case "primmap":
			b.WriteString(n + ": blue {a: b}\n")
		case "block":
			b.WriteString(n + ": |md red|\n")
		}
	}
	b.WriteString("}\n}\n}\nq\n")
	return b.String()
}

func obsTheme(fields []any) map[string]any {
	src := themeText(fields)
	r := compileRemote(src, nil)
	out := map[string]any{"outcome": r.outcome}
	if r.site != "" {
		out["site"] = r.site
	}
	var msgs []string
	for _, e := range r.errs {
		msgs = append(msgs, e["msg"].(string))
	}
	out["nerr"] = len(msgs)
	return map[string]any{"k": "theme", "in": map[string]any{"fields": fields}, "out": out}
}

// edgekw: an edge inside a container whose endpoints mix underscores, common prefixes and keywords
var ekParts = []string{"a", "b", "_", "style", "label", "layers", "steps", "shape", "x", "A", "classes", "near"}

func edgekwText(srcp, dstp []any, depth int) string {
	j := func(p []any) string {
		s := make([]string, len(p))
		for i := range p {
			s[i] = p[i].(string)
		}
		return strings.Join(s, ".")
	}
	e := j(srcp) + " -> " + j(dstp)
	for i := 0; i < depth; i++ {
		e = fmt.Sprintf("c%d: {\n%s\n}", depth-i, e)
	}
	return e + "\n"
}

func obsEdgeKW(srcp, dstp []any, depth int) map[string]any {
	r := compileRemote(edgekwText(srcp, dstp, depth), nil)
	out := map[string]any{"outcome": r.outcome}
	if r.site != "" {
		out["site"] = r.site
	}
	return map[string]any{"k": "edgekw", "in": map[string]any{"src": srcp, "dst": dstp, "depth": depth}, "out": out}
}

// imp: a set of files that only import each other (`k0: @f1` lines); the model predicts whether a cyclic import is
// refused.  graph = [[file, [imported files...]], ...], the first entry is index.
func impText(targets []any) string {
	var b strings.Builder
	for i, t := range targets {
		fmt.Fprintf(&b, "k%d: @%s\n", i, t.(string))
	}
	if len(targets) == 0 {
		b.WriteString("leaf\n")
	}
	return b.String()
}

func obsImp(graph []any) map[string]any {
	files := map[string]string{}
	src := ""
	for _, e := range graph {
		p := e.([]any)
		name, targets := p[0].(string), p[1].([]any)
		if name == "index" {
			src = impText(targets)
		}
		files[name+".d2"] = impText(targets)
	}
	r := compileRemote(src, files)
	out := map[string]any{"outcome": r.outcome}
	if r.site != "" {
		out["site"] = r.site
	}
	if r.msg != "" {
		out["msg"] = r.msg
	}
	cyc, other := 0, 0
	for _, e := range r.errs {
		if strings.Contains(e["msg"].(string), "detected cyclic import chain") {
			cyc++
		} else {
			other++
		}
	}
	out["cyclic"] = cyc
	out["othererrs"] = other
	return map[string]any{"k": "imp", "in": map[string]any{"graph": graph}, "out": out}
}

func genImpGraph(r *rand.Rand) []any {
	names := []string{"index", "f0", "f1", "f2", "f3"}[:2+r.Intn(4)]
	var g []any
	for _, n := range names {
		k := r.Intn(3)
		if n == "index" {
			k = 1 + r.Intn(2)
		}
		ts := []any{}
		for j := 0; j < k; j++ {
			ts = append(ts, names[r.Intn(len(names))])
		}
		g = append(g, []any{n, ts})
	}
	return g
}

// subst: one variable of a given shape substituted in one string form in one context
var substShapes = []string{"scalar", "null", "novalue", "map", "array", "missing"}
var substForms = []string{"unqWhole", "unqPart", "dqWhole", "dqPart", "sq", "md"}
var substCtxs = []string{"label", "edgeLabel", "arrayElem", "tooltip"}

func substText(shape, form, ctx string) string {
	v := map[string]string{"scalar": "s", "null": "n", "novalue": "e", "map": "m", "array": "r", "missing": "zz"}[shape]
	var val string
	switch form {
	case "unqWhole":
		val = "${" + v + "}"
	case "unqPart":
		val = "p ${" + v + "} q"
	case "dqWhole":
		val = "\"${" + v + "}\""
	case "dqPart":
		val = "\"p ${" + v + "} q\""
	case "sq":
		val = "'${" + v + "}'"
	default:
		val = "|md t ${" + v + "} |"
	}
	vars := "vars: {\n  s: v\n  n: null\n  e\n  m: {style.opacity: 0.5}\n  r: [p; q]\n}\n"
	switch ctx {
	case "label":
		return vars + "a: " + val + "\n"
	case "edgeLabel":
		return vars + "a -> b: " + val + "\n"
	case "arrayElem":
		return vars + "a.class: [" + val + "]\n"
	default:
		return vars + "a.tooltip: " + val + "\n"
	}
}

func obsSubst(shape, form, ctx string) map[string]any {
	r := compileRemote(substText(shape, form, ctx), nil)
	out := map[string]any{"outcome": r.outcome, "nerr": len(r.errs)}
	if r.site != "" {
		out["site"] = r.site
	}
	if len(r.errs) > 0 {
		out["first"] = r.errs[0]["msg"]
	}
	return map[string]any{"k": "subst", "in": map[string]any{"shape": shape, "form": form, "ctx": ctx}, "out": out}
}

func anys(xs []string) []any {
	out := make([]any, len(xs))
	for i, x := range xs {
		out[i] = x
	}
	return out
}

// ---------------------------------------------------------------------------------------------- run

func replay(c *hl.Ctx, cs map[string]any) {
	in := cs["in"].(map[string]any)
	switch cs["k"] {
	case "compile":
		c.Emit(obsCompile(in["src"].(string), strmap(in["files"]), nil))
	case "mp":
		var pat []string
		for _, p := range in["pat"].([]any) {
			pat = append(pat, string(hl.Unhx(p.(string))))
		}
		c.Emit(obsMP(string(hl.Unhx(in["s"].(string))), pat))
	case "arr":
		c.Emit(obsArr(in["kinds"].([]any)))
	case "theme":
		c.Emit(obsTheme(in["fields"].([]any)))
	case "imp":
		c.Emit(obsImp(in["graph"].([]any)))
	case "subst":
		c.Emit(obsSubst(in["shape"].(string), in["form"].(string), in["ctx"].(string)))
	case "edgekw":
		c.Emit(obsEdgeKW(in["src"].([]any), in["dst"].([]any), int(in["depth"].(float64))))
	}
}

var corpus = []struct {
	src   string
	files map[string]string
}{
	{"Ⱥ\nⱥ*: {shape: circle}\n", nil},
	{"x: [a; \"\"\" c \"\"\"; b]\n", nil},
	{"vars: {d2-config: {theme-overrides: {N1: {a: b}}}}\n", nil},
	{"vars: {d2-config: {theme-overrides: {XX.y: 1}}}\n", nil},
	{"a: @x\n", map[string]string{"x.d2": "b: {link: {c: d}}\n"}},
	{"x: [@y.z]\n", map[string]string{"y.d2": "z\n"}},
	{"x: { style -> _.y }\n", nil},
	{"x: { layers -> _.y }\n", nil},
	{"a -> b\n(* -> *)[*]: {&src: {q: r}}\n", nil},
	{"a\n*: {&level: {q: r}}\n", nil},
	{"vars: {a: {b: c}}\nx: {...${a}}\n***.shape: circle\n", nil},
	{"a: @x\n", map[string]string{"x.d2": "b: @y\n", "y.d2": "c: @x\n"}},
	{"a: @index\n", nil},
	{"d: {shape: class; f0}\nd: {c: {_.A.B <-> b}}\n", nil},
	{"vars: {x}\na: \"${x}\"\n", nil},
	{"style: [{a: null}]\n", nil},
	{"vars: {x}\na -> b: \"p ${x}\"\n", nil},
	{"c: {a -> b}\n*.(a -> b)[0].style.stroke: red\nc.(* -> *)[*].style.opacity: 0.4\n", nil},
	{"layers: {\nx: {\na -> b\n(* -> *)[*]: {\n&src: a\nstyle.stroke: red\n}\n}\n}\n", nil},
	{"scenarios: {\ns: {\na -> b\n(* -> *)[*]: {\n&dst: b\n}\n}\n}\n", nil},
	{"\"x\\ny\".shape: sql_table\n", nil},
	{"\"\".shape: text\n", nil},
	{"Classes: {\nd: {shape: sql_table; f0; f1: int}\nd.c: {\n_._.x -> y\n}\n}\n", nil},
	{"shape: sql_table\nA: {\n_.z.y -> b\n}\n", nil},
	{"classes: {a: {class: a}}\nx.class: a\n", nil},
	{"vars: {\nv1: {\na: ${v1}\n}\n}\n", nil},
	{"c: {\n_ -> _._.x\n}\n", nil},
	{"Constraint.x: 1\n", nil},
	{"vars: {v: [p; q]; c: ${v.in}}\n", nil},
	{"steps: {\nb: {\n_.B: [x]\n}\n}\n", nil},
	{"A.b\nA*: @x\n", map[string]string{"x.d2": "layers: {\ns1: {\nq\n}\n}\n"}},
	{"...${cfg}\nscenarios: {\ns1: {\n}\n}\n", nil},
	{"vars: {\nx: |md a|\n...${cfg}\n}\n", nil},
	{"a: b: c\n**.a: {\n&connected: {q: r}\n}\n", nil},
	{"", nil},
	{"a -> b -> c\n(a -> b)[0].style.stroke: red\n", nil},
}

func run(c *hl.Ctx) error {
	if cs := c.ReplayCase(); cs != nil {
		replay(c, cs)
		return nil
	}
	r := c.Rand()
	if os.Getenv("C07_FUZZ") != "" {
		return fuzz(c, r)
	}
	if f := os.Getenv("C07_SHRINK"); f != "" {
		// development aid: minimise the `compile` case stored in a replay file, keeping its outcome key
		c.Replay = f
		cs := c.ReplayCase()
		in := cs["in"].(map[string]any)
		src, files := in["src"].(string), strmap(in["files"])
		res, _ := timed(src, files, 15*time.Second)
		ms, mf := shrink(src, files, keyOf(res))
		fmt.Fprintf(os.Stderr, "=== %s %s\n--- src\n%s--- files %q\n", keyOf(res), res.msg, ms, mf)
		return nil
	}
	for _, p := range corpus {
		c.Emit(obsCompile(p.src, p.files, nil))
		c.Count("compile:corpus")
	}
	// --- leaf: matchPattern
	c.Emit(obsMP("Ⱥ", []string{"ⱥ", "*"}))
	c.Emit(obsMP("aȺb", []string{"*", "ⱥ", "*"}))
	c.Emit(obsMP("label", []string{"*"}))
	c.Emit(obsMP("Label", []string{"*"}))
	c.Emit(obsMP("LABEL", []string{"l", "*"}))
	c.Emit(obsMP("abc", nil))
	nmp := c.Pick(6000, 300000)
	for i := 0; i < nmp; i++ {
		s := genMPString(r, 5)
		pat := genMPPattern(r, s)
		if r.Intn(40) == 0 {
			s = []string{"label", "shape", "style", "near", "Label", "SHAPE", "Near", "K", "İ"}[r.Intn(9)]
		}
		m := obsMP(s, pat)
		c.Count("mp:" + m["out"].(map[string]any)["r"].(string))
		c.Emit(m)
	}
	// --- leaf: compileArray, every kind alone, every ordered pair, then random lists
	for _, k := range arrKinds {
		c.Emit(obsArr(anys([]string{k})))
		c.Count("arr:single")
	}
	for _, k1 := range arrKinds {
		for _, k2 := range arrKinds {
			if c.Quick() && r.Intn(4) != 0 {
				continue
			}
			if k1 == "subspread" {
				// `...${va}` followed by another element: resolveSubstitutions splices with
				// append(arr.Values[:i], resolved...) and overwrites the following elements in place (a d2 defect
				// of variable substitution, C13's subject, not a totality matter) — the leaf model is compared
				// only where that splice is the last element.
				continue
			}
			c.Emit(obsArr(anys([]string{k1, k2})))
			c.Count("arr:pair")
		}
	}
	for i, n := 0, c.Pick(150, 5000); i < n; i++ {
		ks := make([]string, r.Intn(6))
		for j := range ks {
			ks[j] = arrKinds[r.Intn(len(arrKinds))]
			for ks[j] == "subspread" && j != len(ks)-1 {
				ks[j] = arrKinds[r.Intn(len(arrKinds))]
			}
		}
		c.Emit(obsArr(anys(ks)))
		c.Count("arr:random")
	}
	// --- leaf: compileThemeOverrides
	for _, n := range themeNames {
		for _, s := range themeShapes {
			c.Emit(obsTheme([]any{map[string]any{"name": n, "shape": s}}))
			c.Count("theme:single")
		}
	}
	for i, n := 0, c.Pick(200, 5000); i < n; i++ {
		// distinct names (case-insensitively: `n1` and `N1` are one field, the later declaration wins)
		var fs []any
		used := map[string]bool{}
		for j, k := 0, r.Intn(4); j < k; j++ {
			n := themeNames[r.Intn(len(themeNames))]
			if used[strings.ToUpper(n)] {
				continue
			}
			used[strings.ToUpper(n)] = true
			fs = append(fs, map[string]any{"name": n, "shape": themeShapes[r.Intn(len(themeShapes))]})
		}
		if fs == nil {
			fs = []any{}
		}
		c.Emit(obsTheme(fs))
		c.Count("theme:random")
	}
	// --- leaf: createEdge keyword index
	for i, n := 0, c.Pick(600, 20000); i < n; i++ {
		mk := func() []any {
			p := make([]string, 1+r.Intn(3))
			for j := range p {
				p[j] = ekParts[r.Intn(len(ekParts))]
			}
			if r.Intn(3) == 0 {
				p[0] = "_"
			}
			return anys(p)
		}
		c.Emit(obsEdgeKW(mk(), mk(), r.Intn(3)))
		c.Count("edgekw")
	}
	// --- leaf: variable substitution by variable shape × string form × context (exhaustive: 6 × 6 × 4)
	for _, sh := range substShapes {
		for _, f := range substForms {
			for _, cx := range substCtxs {
				c.Emit(obsSubst(sh, f, cx))
				c.Count("subst")
			}
		}
	}
	// --- leaf: import stack / cycle test
	for i, n := 0, c.Pick(400, 20000); i < n; i++ {
		m := obsImp(genImpGraph(r))
		if m["out"].(map[string]any)["cyclic"].(int) > 0 {
			c.Count("imp:cyclic")
		} else {
			c.Count("imp:acyclic")
		}
		c.Emit(m)
	}
	// --- whole compiler
	n := c.Pick(7000, 300000)
	for i := 0; i < n; i++ {
		o := totalgen.Opts{Imports: r.Intn(3) > 0, Size: 2 + r.Intn(10), Depth: 1 + r.Intn(3), Valid: r.Intn(5) == 0}
		p := totalgen.Gen(r, o)
		m := obsCompile(p.Src, p.Files, p.Feat)
		out := m["out"].(map[string]any)
		c.Count("outcome:" + out["outcome"].(string))
		for _, f := range p.Feat {
			c.Count("feat:" + f)
		}
		c.Emit(m)
	}
	// a few large inputs for the time bound (linear families: many objects, long chains, deep nesting, many globs)
	for _, sz := range []int{200, 1000, c.Pick(3000, 20000)} {
		for fam := 0; fam < 5; fam++ {
			c.Emit(obsCompile(bigProgram(fam, sz), nil, nil))
			c.Count("compile:big")
		}
	}
	return nil
}

func bigProgram(fam, n int) string {
	var b strings.Builder
	switch fam {
	case 0:
		for i := 0; i < n; i++ {
			fmt.Fprintf(&b, "n%d: label %d\n", i, i)
		}
	case 1:
		for i := 0; i < n; i++ {
			fmt.Fprintf(&b, "n%d -> n%d\n", i, i+1)
		}
	case 2:
		d := n
		if d > 300 {
			d = 300
		}
		for i := 0; i < d; i++ {
			fmt.Fprintf(&b, "c%d: {\n", i)
		}
		b.WriteString("leaf\n")
		for i := 0; i < d; i++ {
			b.WriteString("}\n")
		}
	case 3:
		for i := 0; i < n; i++ {
			fmt.Fprintf(&b, "n%d.style.fill: red\nn%d.shape: circle\n", i, i)
		}
	default:
		b.WriteString("x: [")
		for i := 0; i < n; i++ {
			fmt.Fprintf(&b, "v%d; ", i)
		}
		b.WriteString("]\n")
	}
	return b.String()
}

func keyOf(res result) string {
	key := res.outcome + ":" + res.site
	if res.outcome == "errors" {
		key = "errors"
		for _, e := range res.errs {
			if !e["known"].(bool) || e["slc"].(int) != e["sl"].(int) {
				key = "errors:badpos"
			}
		}
	}
	return key
}

// shrink: line-wise delta debugging keeping the same outcome key (development aid and replay minimiser)
func shrink(src string, files map[string]string, key string) (string, map[string]string) {
	same := func(s string, f map[string]string) bool {
		r, _ := timed(s, f, 5*time.Second)
		return keyOf(r) == key
	}
	cut := func(text string, test func(string) bool) string {
		lines := strings.SplitAfter(text, "\n")
		for chunk := len(lines) / 2; chunk >= 1; {
			progress := false
			for i := 0; i+chunk <= len(lines); {
				cand := append(append([]string{}, lines[:i]...), lines[i+chunk:]...)
				if test(strings.Join(cand, "")) {
					lines = cand
					progress = true
				} else {
					i += chunk
				}
			}
			if !progress || chunk > len(lines) {
				chunk /= 2
			}
		}
		return strings.Join(lines, "")
	}
	for pass := 0; pass < 2; pass++ {
		for k := range files {
			f2 := map[string]string{}
			for a, b := range files {
				if a != k {
					f2[a] = b
				}
			}
			if same(src, f2) {
				files = f2
			}
		}
		src = cut(src, func(s string) bool { return same(s, files) })
		for k := range files {
			k := k
			files[k] = cut(files[k], func(s string) bool {
				f2 := map[string]string{}
				for a, b := range files {
					f2[a] = b
				}
				f2[k] = s
				return same(src, f2)
			})
		}
	}
	return src, files
}

// fuzz: development aid (C07_FUZZ=n): run the whole-compiler generator and print each distinct panic site once.
func fuzz(c *hl.Ctx, r *rand.Rand) error {
	var n int
	fmt.Sscan(os.Getenv("C07_FUZZ"), &n)
	seen := map[string]int{}
	var maxRatio float64
	var slow string
	for i := 0; i < n; i++ {
		o := totalgen.Opts{Imports: r.Intn(3) > 0, Size: 2 + r.Intn(10), Depth: 1 + r.Intn(3), Valid: r.Intn(5) == 0}
		p := totalgen.Gen(r, o)
		res, us := timed(p.Src, p.Files, 20*time.Second)
		key := keyOf(res)
		if key == "errors:badpos" {
			for _, e := range res.errs {
				if !e["known"].(bool) {
					res.msg = fmt.Sprint(e)
					seen["badpos-msg: "+fmt.Sprint(e["path"], "|", e["msg"])]++
				}
			}
		}
		seen[key]++
		if seen[key] == 1 && key != "graph:" && key != "errors" {
			ms, mf := shrink(p.Src, p.Files, key)
			fmt.Fprintf(os.Stderr, "=== %s %s\n--- src\n%s--- files %q\n", key, res.msg, ms, mf)
		}
		ratio := float64(us) / float64(200+totalLen(p.Src, p.Files))
		if ratio > maxRatio {
			maxRatio, slow = ratio, fmt.Sprintf("%dus len=%d\n%s %v", us, totalLen(p.Src, p.Files), p.Src, p.Files)
		}
	}
	ks := make([]string, 0, len(seen))
	for k := range seen {
		ks = append(ks, k)
	}
	sort.Strings(ks)
	for _, k := range ks {
		fmt.Fprintf(os.Stderr, "%8d %s\n", seen[k], k)
	}
	fmt.Fprintf(os.Stderr, "max us/(200+byte) = %.1f on %s\n", maxRatio, slow)
	return nil
}
