package main

import (
	"d2v/harness/edit"
	"d2v/harness/hl"
)

// C40: histories of real d2oracle edits (shared harness in harness/edit); this main only selects the
// operation mix and which parts of a step record the C40 driver reads.
func main() { hl.Main("C40", edit.Run("C40")) }
