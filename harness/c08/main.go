package main

import (
	"crypto/sha1"
	"encoding/hex"
	"encoding/json"
	"errors"
	"fmt"
	"math/rand"
	"os"
	"runtime"
	"sort"
	"strings"
	"sync"
	"testing/fstest"

	"d2v/harness/hl"
	"d2v/harness/totalgen"

	"oss.terrastruct.com/d2/d2compiler"
	"oss.terrastruct.com/d2/d2graph"
	"oss.terrastruct.com/d2/d2parser"
)

// C08: compiling the same input (+ the same importable files) gives the same graph (objects and their order,
// connections, attributes, boards) or the same errors — sequentially, concurrently, under any GOMAXPROCS.
//
// One case = one program; the observation is the list of SHA-1s of the canonical result of every compile of that
// program in the run (R sequential + R concurrent per GOMAXPROCS setting, the concurrent ones interleaved with the
// compiles of the other programs of the batch).
func main() {
	totalgen.MaybeWorker()
	hl.Main("C08", run)
}

// canonical: the whole board tree, every object / edge with attributes and references, or the error list
func canonGraph(g *d2graph.Graph, b *strings.Builder, depth int) {
	if depth > 50 {
		b.WriteString("<deep>")
		return
	}
	ser, err := d2graph.SerializeGraph(g)
	if err != nil {
		fmt.Fprintf(b, "serialize-error:%v", err)
	}
	fmt.Fprintf(b, "board %q folderOnly=%v\n", g.Name, g.IsFolderOnly)
	b.Write(ser)
	b.WriteString("\nobjects:")
	for _, o := range g.Objects {
		b.WriteString(" " + o.AbsID())
	}
	b.WriteString("\nedges:")
	for _, e := range g.Edges {
		b.WriteString(" " + e.AbsID())
	}
	if g.Legend != nil {
		fmt.Fprintf(b, "\nlegend %q %d %d", g.Legend.Label, len(g.Legend.Objects), len(g.Legend.Edges))
	}
	b.WriteString("\n")
	for _, kind := range []struct {
		n  string
		gs []*d2graph.Graph
	}{{"layers", g.Layers}, {"scenarios", g.Scenarios}, {"steps", g.Steps}} {
		for _, c := range kind.gs {
			b.WriteString(kind.n + " {\n")
			canonGraph(c, b, depth+1)
			b.WriteString("}\n")
		}
	}
}

func compileCanon(src string, files map[string]string) (canon string) {
	defer func() {
		if r := recover(); r != nil {
			canon = fmt.Sprintf("panic: %v", r)
		}
	}()
	fs := fstest.MapFS{}
	for k, v := range files {
		fs[k] = &fstest.MapFile{Data: []byte(v)}
	}
	g, cfg, err := d2compiler.Compile("index.d2", strings.NewReader(src), &d2compiler.CompileOptions{FS: fs})
	var b strings.Builder
	if err != nil {
		var pe *d2parser.ParseError
		if errors.As(err, &pe) {
			b.WriteString("errors\n")
			for _, e := range pe.Errors {
				fmt.Fprintf(&b, "%s %d:%d:%d-%d:%d:%d %s\n", e.Range.Path, e.Range.Start.Line, e.Range.Start.Column, e.Range.Start.Byte,
					e.Range.End.Line, e.Range.End.Column, e.Range.End.Byte, e.Message)
			}
		} else {
			b.WriteString("error " + err.Error())
		}
		return b.String()
	}
	b.WriteString("graph\n")
	canonGraph(g, &b, 0)
	if cfg != nil {
		cj, _ := json.Marshal(cfg)
		b.WriteString("config ")
		b.Write(cj)
	}
	return b.String()
}

func sha(s string) string {
	h := sha1.Sum([]byte(s))
	return hex.EncodeToString(h[:8])
}

type prog struct {
	src   string
	files map[string]string
	feat  []string
}

// set once a case with differing results has been emitted: a search (obligation broken) stops at the first
// concrete failing input
var foundDiff bool

type obs struct {
	mu     sync.Mutex
	hashes []string
	labels []string
	texts  map[string]string // hash -> canonical text (first two distinct kept)
}

func (o *obs) add(label, canon string) {
	h := sha(canon)
	o.mu.Lock()
	o.hashes = append(o.hashes, h)
	o.labels = append(o.labels, label)
	if _, ok := o.texts[h]; !ok && len(o.texts) < 2 {
		o.texts[h] = canon
	}
	o.mu.Unlock()
}

func firstDiff(a, b string) string {
	la, lb := strings.Split(a, "\n"), strings.Split(b, "\n")
	for i := 0; i < len(la) && i < len(lb); i++ {
		if la[i] != lb[i] {
			x, y := la[i], lb[i]
			// cut to the differing window
			j := 0
			for j < len(x) && j < len(y) && x[j] == y[j] {
				j++
			}
			s := j - 60
			if s < 0 {
				s = 0
			}
			cut := func(z string) string {
				e := j + 100
				if e > len(z) {
					e = len(z)
				}
				return z[s:e]
			}
			return fmt.Sprintf("line %d: …%s… vs …%s…", i, cut(x), cut(y))
		}
	}
	return fmt.Sprintf("lengths %d vs %d lines", len(la), len(lb))
}

func runBatch(c *hl.Ctx, batch []prog, repeats int) {
	os := make([]*obs, len(batch))
	for i := range os {
		os[i] = &obs{texts: map[string]string{}}
	}
	for _, procs := range []int{1, 2, 16} {
		old := runtime.GOMAXPROCS(procs)
		// sequential
		for r := 0; r < repeats; r++ {
			for i, p := range batch {
				os[i].add(fmt.Sprintf("seq/p%d", procs), compileCanon(p.src, p.files))
			}
		}
		// concurrent: every program × repeats at once
		var wg sync.WaitGroup
		for r := 0; r < repeats; r++ {
			for i, p := range batch {
				wg.Add(1)
				go func(i int, p prog) {
					defer wg.Done()
					os[i].add(fmt.Sprintf("conc/p%d", procs), compileCanon(p.src, p.files))
				}(i, p)
			}
		}
		wg.Wait()
		runtime.GOMAXPROCS(old)
	}
	for i, p := range batch {
		o := os[i]
		fl := map[string]any{}
		for k, v := range p.files {
			fl[k] = v
		}
		out := map[string]any{"runs": o.hashes}
		// which kind of result
		for _, t := range o.texts {
			out["kind"] = strings.SplitN(t, "\n", 2)[0]
			break
		}
		if len(o.texts) > 1 {
			foundDiff = true
			var ts []string
			for _, t := range o.texts {
				ts = append(ts, t)
			}
			sort.Strings(ts)
			out["diff"] = firstDiff(ts[0], ts[1])
			// which labels disagree with the first run
			var bad []string
			for k, h := range o.hashes {
				if h != o.hashes[0] {
					bad = append(bad, o.labels[k])
				}
			}
			if len(bad) > 6 {
				bad = bad[:6]
			}
			out["differing"] = bad
		}
		m := map[string]any{"k": "det", "in": map[string]any{"src": p.src, "files": fl}, "out": out}
		if p.feat != nil {
			m["feat"] = p.feat
		}
		if k, _ := out["kind"].(string); k != "" {
			c.Count("result:" + strings.Fields(k)[0])
		}
		c.Emit(m)
	}
}

var corpus = []prog{
	{src: "x: @y.nokey\n", files: map[string]string{"y.d2": "a: b\n"}},
	{src: "vars: {\n  a: '${b}'\n  b: X\n  c: '${a}'\n}\nt: |md text ${a} and ${c} and ${b} |\n"},
	{src: "vars: {a: 1; b: 2; c: 3; d: 4; e: 5; f: 6; g: 7; h: 8}\nt: |md ${a}${b}${c}${d}${e}${f}${g}${h} |\n"},
	{src: "a; b; c; d\n*.style.fill: red\n** -> **\n"},
	{src: "classes: {c1: {style.fill: red}; c2: {style.stroke: blue}}\na.class: [c1; c2]\nb.class: c2\n"},
	{src: "a -> b -> c\nlayers: {l1: {x -> y}; l2: {z}}\nscenarios: {s1: {a.style.opacity: 0.3}}\nsteps: {1: {q}; 2: {r}}\n"},
	{src: "...@x\n...@y\n", files: map[string]string{"x.d2": "a: {b; c}\nvars: {v: 1}\n", "y.d2": "a.d\n*.style.bold: true\n"}},
	{src: "a: {b: {c: {d}}}\na.b.c.d -> a.b\n(a.b.c.d -> a.b)[0].style.stroke: red\n*: {&shape: rectangle; style.fill: blue}\n"},
	{src: "x: {shape: sql_table; id: int {constraint: primary_key}; n: text}\ny: {shape: class; +f: int; -g(): void}\nx.id -> y\n"},
	{src: "a: bad {\n  shape: nosuch\n  style.opacity: 7\n  width: x\n}\nb -> \n"},
	// class arrays with a repeated name: the order of Attributes.Classes is part of the result
	{src: "classes: {a: {style.fill: red}; b: {style.stroke: blue}; c: {style.bold: true}}\nx.class: [a; b; a]\ny.class: [c; b; a; b; c]\nx -> y: {class: [b; a; b]}\n"},
	// errors from several validation passes (labels, near, edges, positions): their order is part of the result
	{src: "t1: \"\" {shape: text}\nn1.near: nosuch\ng1: {grid-rows: 2; a; b}\ng1 -> g1.a\nh1: {shape: hierarchy; a: {top: 10}}\n"},
	{src: "g2: {grid-columns: 2; a: {left: 5}; b}\nsq: {shape: sequence_diagram; a; b}\nsq -> sq.a\nn2: {near: n2.c; c}\ntb: \"x\\ny\" {shape: sql_table}\n"},
}

func run(c *hl.Ctx) error {
	if cs := c.ReplayCase(); cs != nil {
		if cs["k"] == "race" {
			// a race report names functions, not an input: re-run the corpus with many concurrent repeats
			runBatch(c, corpus, 8)
			return nil
		}
		in := cs["in"].(map[string]any)
		files := map[string]string{}
		if m, ok := in["files"].(map[string]any); ok {
			for k, v := range m {
				files[k], _ = v.(string)
			}
		}
		runBatch(c, []prog{{src: in["src"].(string), files: files}}, c.Pick(8, 32))
		return nil
	}
	r := c.Rand()
	repeats := c.Pick(2, 6)
	runBatch(c, corpus, repeats)
	c.Count("corpus")
	n := c.Pick(1200, 20000)
	if os.Getenv("D2V_RACE") != "" {
		n = c.Pick(300, 3000) // the race detector slows every compile ~10x
	}
	if c.Search && c.Tier != "thorough" {
		n = 6000 // an obligation broke in the quick tier: a moderate search for a concrete failing input
	}
	sc := &totalgen.Screener{}
	defer sc.Close()
	var batch []prog
	for i := 0; i < n; i++ {
		p := genProg(r)
		switch oc := sc.Outcome(p.src, p.files); oc {
		case "graph", "errors":
			batch = append(batch, p)
		default:
			c.Count("screened-out:" + oc)
			continue
		}
		for _, f := range p.feat {
			c.Count("feat:" + f)
		}
		if len(batch) == 16 {
			runBatch(c, batch, repeats)
			batch = nil
			if c.Search && foundDiff {
				break
			}
		}
	}
	if len(batch) > 0 {
		runBatch(c, batch, repeats)
	}
	return nil
}

func genProg(r *rand.Rand) prog {
	if r.Intn(7) == 0 {
		// only validation-pass errors, from ≥ 2 passes, plus a few valid statements
		p := totalgen.Gen(r, totalgen.Opts{Size: 1 + r.Intn(3), Depth: 1, Valid: true, Render: true})
		return prog{totalgen.MultiErr(r) + p.Src, nil, append(p.Feat, "multi-pass-errors")}
	}
	o := totalgen.Opts{Imports: r.Intn(3) == 0, Size: 3 + r.Intn(10), Depth: 1 + r.Intn(3), Valid: r.Intn(4) != 0}
	p := totalgen.Gen(r, o)
	return prog{p.Src, p.Files, p.Feat}
}
