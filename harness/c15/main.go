package main

import (
	"fmt"
	"math/rand"

	"d2v/harness/hl"
	sx "d2v/harness/semx"
)

// C15: boards inherit from their base and never leak changes back.
//
// A case is one program with nested layers / scenarios / steps.  The Lean driver (co-process) produces the texts:
// the program p, p without boards, for every board path π the reference program `flatten p π`, and p2 = p with one
// board's body emptied or changed.  All are compiled by the real compiler; the driver evaluates the property.
func main() { hl.Main("C15", run) }

type gen struct {
	c     *hl.Ctx
	r     *rand.Rand
	n     int
	nglob int
	flat  bool // flat fragment only (objects with label/shape/fill, null) — the one the functional spec models
	globs bool // programs have globs or deletions, not both (a glob is not re-applied to an object re-created
	//            after `null` — C12's finding — which would blur the board comparison)
}

var shapes = []string{"circle", "square", "oval", "diamond", "hexagon", "cloud"}
var colours = []string{"red", "blue", "green", "orange"}
var pool = []string{"a", "b", "c", "d", "e"}

func (g *gen) pick(xs []string) string { return xs[g.r.Intn(len(xs))] }
func lit(s string) *sx.Scal           { return sx.Lit(0, s) }

func (g *gen) name() string {
	if g.r.Intn(4) == 0 {
		g.n++
		return fmt.Sprintf("n%d", g.n)
	}
	return g.pick(pool)
}

// declarations of one board body (no board blocks)
func (g *gen) decls(k int, depth int, classes bool) []sx.Stmt {
	var out []sx.Stmt
	for i := 0; i < k; i++ {
		n := g.name()
		max := 13
		if g.flat {
			max = 5
		}
		switch g.r.Intn(max) {
		case 0:
			out = append(out, sx.F(sx.U(n), sx.Val{}))
			g.c.Count("decl:object")
		case 1:
			out = append(out, sx.F(sx.U(n), sx.VS(lit("L"+fmt.Sprint(g.r.Intn(9))))))
			g.c.Count("decl:label")
		case 2:
			out = append(out, sx.F(sx.U(n, "shape"), sx.VS(lit(g.pick(shapes)))))
			g.c.Count("decl:shape")
		case 3:
			out = append(out, sx.F(sx.U(n, "style", "fill"), sx.VS(lit(g.pick(colours)))))
			g.c.Count("decl:fill")
		case 4:
			if g.r.Intn(3) == 0 && !g.globs {
				out = append(out, sx.F(sx.U(n), sx.VNull()))
				g.c.Count("decl:null-object")
			} else {
				out = append(out, sx.F(sx.U(n), sx.Val{}))
			}
		case 5, 6:
			m := g.name()
			if g.r.Intn(2) == 0 {
				// the same few connections recur in the base and in sibling boards
				n, m = "a", g.pick([]string{"b", "c"})
			}
			if m == n {
				m = "z"
			}
			var v sx.Val
			if g.r.Intn(2) == 0 {
				v = sx.VS(lit("e" + fmt.Sprint(g.r.Intn(9))))
			}
			out = append(out, sx.E(sx.U(n), "->", sx.U(m), v))
			g.c.Count("decl:edge")
		case 7:
			m := g.name()
			if m == n {
				m = "z"
			}
			out = append(out, sx.E(sx.U(n), "->", sx.U(m), sx.Val{}),
				sx.Stmt{T: "e", Src: sx.U(n), Ar: "->", Dst: sx.U(m), Ix: "0", EK: sx.U("style", "stroke"), V: sx.VS(lit(g.pick(colours)))})
			g.c.Count("decl:edge-attr")
		case 8:
			if depth < 2 {
				out = append(out, sx.F(sx.U(n), sx.VM(g.decls(1+g.r.Intn(2), depth+1, false))))
				g.c.Count("decl:container")
			}
		case 9:
			if classes {
				out = append(out, sx.F(sx.U(n, "class"), sx.VS(lit(g.pick([]string{"k1", "k2"})))))
				g.c.Count("decl:class-use")
			}
		case 10:
			if depth == 0 && g.globs {
				pat := g.pick([]string{"*", "**", "a*", "*"})
				if classes && pat == "**" {
					pat = "*" // `**` also descends into `classes` and restyles the class definitions themselves
				}
				// every glob of a program is textually unique (identical glob declarations are merged by the compiler —
				// C12's finding — which would blur the board comparison)
				g.nglob++
				out = append(out, sx.F(sx.U(pat, "style", "opacity"), sx.VS(lit(fmt.Sprintf("0.%d", 10+g.nglob)))))
				g.c.Count("decl:glob")
			}
		case 11:
			if depth == 0 && g.globs {
				// a connection-index glob: often declared before any connection it matches exists
				g.nglob++
				pats := []string{"*", "*", "a*", "*"}
				out = append(out, sx.Stmt{T: "e", Src: sx.U(g.pick(pats)), Ar: "->", Dst: sx.U(g.pick(pats)), Ix: "*",
					EK: sx.U("style", "stroke-width"), V: sx.VS(lit(fmt.Sprint(1 + g.nglob%12)))})
				g.c.Count("decl:connection-index-glob")
			}
		default:
			out = append(out, sx.F(sx.U(n, "style", "stroke"), sx.VS(lit(g.pick(colours)))))
		}
	}
	return out
}

// body of a board at board-nesting level lvl
func (g *gen) board(lvl int, classes bool, inStep bool) []sx.Stmt {
	body := g.decls(1+g.r.Intn(4), 0, classes)
	if inStep && !g.flat {
		// globs inside steps are excluded for now (whether a step's glob carries to the next step is not modelled)
		var keep []sx.Stmt
		for _, s := range body {
			if len(s.K) > 0 && (s.K[0].S == "*" || s.K[0].S == "**" || s.K[0].S == "a*") {
				continue
			}
			if s.T == "e" && s.Ix == "*" {
				continue
			}
			keep = append(keep, s)
		}
		body = keep
	}
	if lvl >= 2 {
		return body
	}
	kinds := []string{"scenarios", "layers", "steps"}
	g.r.Shuffle(len(kinds), func(i, j int) { kinds[i], kinds[j] = kinds[j], kinds[i] })
	nblocks := g.r.Intn(3)
	if lvl == 0 && nblocks == 0 {
		nblocks = 1
	}
	for b := 0; b < nblocks; b++ {
		kw := kinds[b]
		var boards []sx.Stmt
		nb := 1 + g.r.Intn(3)
		for i := 0; i < nb; i++ {
			var nm string
			if kw == "steps" {
				nm = fmt.Sprint(i + 1)
			} else {
				nm = fmt.Sprintf("%s%d", kw[:1], i+1)
			}
			boards = append(boards, sx.F(sx.U(nm), sx.VM(g.board(lvl+1, classes, kw == "steps"))))
			g.c.Count("board:" + kw)
		}
		blk := sx.F(sx.U(kw), sx.VM(boards))
		// the block sits anywhere in the body: what is declared after it is not inherited by scenarios/steps
		pos := g.r.Intn(len(body) + 1)
		body = append(body[:pos], append([]sx.Stmt{blk}, body[pos:]...)...)
		if pos < len(body)-1 {
			g.c.Count("block:followed-by-declarations")
		}
	}
	return body
}

func (g *gen) prog() []sx.Stmt {
	g.n = 0
	g.nglob = 0
	g.flat = g.r.Intn(3) == 0
	g.globs = !g.flat && g.r.Intn(2) == 0
	classes := !g.flat && g.r.Intn(2) == 0
	var pre []sx.Stmt
	if classes {
		pre = append(pre, sx.F(sx.U("classes"), sx.VM([]sx.Stmt{
			sx.F(sx.U("k1", "style", "fill"), sx.VS(lit(g.pick(colours)))),
			sx.F(sx.U("k2", "shape"), sx.VS(lit(g.pick(shapes)))),
		})))
		g.c.Count("feature:classes")
	}
	if g.globs && g.r.Intn(2) == 0 {
		pre = append(pre, sx.F(sx.U("***", "style", "stroke-width"), sx.VS(lit("3"))))
		g.c.Count("feature:triple-glob")
	}
	if g.globs && g.r.Intn(2) == 0 {
		// a connection-index glob at the top of the base: no connection matches it yet
		g.nglob++
		pre = append(pre, sx.Stmt{T: "e", Src: sx.U("*"), Ar: "->", Dst: sx.U("*"), Ix: "*",
			EK: sx.U("style", "stroke-width"), V: sx.VS(lit(fmt.Sprint(1 + g.nglob%12)))})
		g.c.Count("feature:connection-index-glob-first")
	}
	if g.flat {
		g.c.Count("fragment:flat")
	} else {
		g.c.Count("fragment:full")
	}
	return append(pre, g.board(0, classes, false)...)
}

func observe(l *sx.Lean, in map[string]any) (map[string]any, error) {
	ans, err := l.Ask(in)
	if err != nil {
		return nil, err
	}
	if f, ok := ans["fail"]; ok {
		return nil, fmt.Errorf("lean xform: %v", f)
	}
	one := func(t string) map[string]any { return sx.Compile(map[string]string{"index.d2": t}, "index.d2") }
	p, _ := ans["p"].(string)
	strip, _ := ans["strip"].(string)
	p2, _ := ans["p2"].(string)
	out := map[string]any{"ptext": p, "striptext": strip, "p2text": p2, "flattext": ans["flat"],
		"gp": one(p), "gstrip": one(strip), "gp2": one(p2)}
	var gflat []any
	flats, _ := ans["flat"].([]any)
	for _, f := range flats {
		if t, ok := f.(string); ok {
			gflat = append(gflat, one(t))
		} else {
			gflat = append(gflat, nil)
		}
	}
	if gflat == nil {
		gflat = []any{}
	}
	out["gflat"] = gflat
	return map[string]any{"k": "boards", "in": in, "out": out}, nil
}

func run(c *hl.Ctx) error {
	l, err := sx.StartLean("drv_c15")
	if err != nil {
		return err
	}
	defer l.Close()
	if cs := c.ReplayCase(); cs != nil {
		r, err := observe(l, cs["in"].(map[string]any))
		if err != nil {
			return err
		}
		c.Emit(r)
		return nil
	}
	g := &gen{c: c, r: c.Rand()}
	n := c.Pick(900, 60000)
	for i := 0; i < n; i++ {
		body := g.prog()
		in := map[string]any{"body": sx.Body(body), "pick": g.r.Intn(1000), "mode": g.r.Intn(2)}
		r, err := observe(l, in)
		if err != nil {
			return err
		}
		c.Emit(r)
	}
	return nil
}
