package main

// C29: bounding box and SVG viewport enclose everything drawn.
//
// Lays out generated programs with the real pipeline (d2lib.Compile + dagre, a sample through ELK), asks the real
// d2target.Diagram.BoundingBox, renders the board with d2svg.Render under a random padding and reads the viewBox of
// the rendered <svg>. Emitted per board: the exported shapes and connections with what the drawing code needs to
// place labels and icons (the shape's inner box as lib/shape computes it, connection label positions as
// Connection.GetLabelTopLeft / GetArrowheadLabelPosition compute them), the reported box and the viewBox.

import (
	"bytes"
	"encoding/json"
	"fmt"
	"regexp"
	"strconv"

	"oss.terrastruct.com/d2/d2renderers/d2svg"
	"oss.terrastruct.com/d2/d2target"
	"oss.terrastruct.com/d2/lib/geo"
	"oss.terrastruct.com/d2/lib/shape"

	"d2v/harness/hl"
	"d2v/harness/outl"
)

func main() { hl.Main("C29", run) }

func boxJ(b *geo.Box) []string {
	return []string{hl.Rat(b.TopLeft.X), hl.Rat(b.TopLeft.Y), hl.Rat(b.Width), hl.Rat(b.Height)}
}

func shapeJ(s d2target.Shape) map[string]any {
	m := map[string]any{
		"id": s.ID, "type": s.Type, "x": s.Pos.X, "y": s.Pos.Y, "w": s.Width, "h": s.Height, "sw": s.StrokeWidth,
		"shadow": s.Shadow, "threeDee": s.ThreeDee, "multiple": s.Multiple,
		"badge":   s.Tooltip != "" || s.Link != "",
		"tipPos":  s.TooltipPosition != "",
		"visible": s.Opacity != 0,
		"image":   s.Type == d2target.ShapeImage,
	}
	// d2svg.drawShape: s := shape.NewShape(DSL_SHAPE_TO_SHAPE_TYPE[type], box at the shape's position)
	st := d2target.DSL_SHAPE_TO_SHAPE_TYPE[s.Type]
	sh := shape.NewShape(st, geo.NewBox(geo.NewPoint(float64(s.Pos.X), float64(s.Pos.Y)), float64(s.Width), float64(s.Height)))
	if st == shape.CLOUD_TYPE && s.ContentAspectRatio != nil {
		sh.SetInnerBoxAspectRatio(*s.ContentAspectRatio)
	}
	m["inner"] = boxJ(sh.GetInnerBox())
	// Diagram.BoundingBox (outside icon): shape.NewShape(targetShape.Type, box at the origin).GetInnerBox()
	bb := shape.NewShape(s.Type, geo.NewBox(geo.NewPoint(0, 0), float64(s.Width), float64(s.Height)))
	m["innerBB"] = boxJ(bb.GetInnerBox())
	if s.Icon != nil {
		m["icon"] = map[string]any{"pos": s.IconPosition}
	}
	if s.Label != "" {
		m["label"] = map[string]any{"pos": s.LabelPosition, "w": s.LabelWidth, "h": s.LabelHeight}
	}
	return m
}

func connJ(c d2target.Connection) (m map[string]any, bad string) {
	m = map[string]any{"id": c.ID, "sw": c.StrokeWidth}
	route := [][]string{}
	for _, p := range c.Route {
		route = append(route, []string{hl.Rat(p.X), hl.Rat(p.Y)})
	}
	m["route"] = route
	if c.Label != "" {
		var tl *geo.Point
		out := hl.Guard(func() { tl = c.GetLabelTopLeft() })
		if out != "ok" || tl == nil {
			return m, "GetLabelTopLeft: " + out
		}
		m["label"] = map[string]any{"tl": []string{hl.Rat(tl.X), hl.Rat(tl.Y)}, "w": c.LabelWidth, "h": c.LabelHeight}
	}
	if c.SrcLabel != nil && c.SrcLabel.Label != "" && len(c.Route) >= 2 {
		tl := c.GetArrowheadLabelPosition(false)
		m["srcLabel"] = map[string]any{"tl": []string{hl.Rat(tl.X), hl.Rat(tl.Y)}, "w": c.SrcLabel.LabelWidth, "h": c.SrcLabel.LabelHeight}
	}
	if c.DstLabel != nil && c.DstLabel.Label != "" && len(c.Route) >= 2 {
		tl := c.GetArrowheadLabelPosition(true)
		m["dstLabel"] = map[string]any{"tl": []string{hl.Rat(tl.X), hl.Rat(tl.Y)}, "w": c.DstLabel.LabelWidth, "h": c.DstLabel.LabelHeight}
	}
	return m, ""
}

var viewBoxRe = regexp.MustCompile(`<svg class="[^"]*" width="(-?\d+)" height="(-?\d+)" viewBox="(-?\d+) (-?\d+) (-?\d+) (-?\d+)">`)
var outerRe = regexp.MustCompile(`^(?:<\?xml[^>]*\?>)?<svg [^>]*viewBox="0 0 (-?\d+) (-?\d+)"`)

type job struct {
	src    string
	engine string
	pad    int64
}

func runJob(w *outl.Worker, j job) map[string]any {
	in := map[string]any{"src": j.src, "engine": j.engine, "pad": j.pad}
	ro := &d2svg.RenderOpts{Pad: &j.pad}
	d, _, err := w.Compile(j.src, j.engine, ro)
	if err != nil {
		return map[string]any{"k": "error", "in": in, "out": map[string]any{"err": err.Error()}}
	}
	shapes := []any{}
	for _, s := range d.Shapes {
		shapes = append(shapes, shapeJ(s))
	}
	conns := []any{}
	for _, c := range d.Connections {
		m, bad := connJ(c)
		if bad != "" {
			return map[string]any{"k": "error", "in": in, "out": map[string]any{"err": bad}}
		}
		conns = append(conns, m)
	}
	var tl, br d2target.Point
	out := hl.Guard(func() { tl, br = d.BoundingBox() })
	if out != "ok" {
		return map[string]any{"k": "error", "in": in, "out": map[string]any{"err": "BoundingBox: " + out}}
	}
	var svg []byte
	out = hl.Guard(func() { svg, err = d2svg.Render(d, ro) })
	if out != "ok" || err != nil {
		return map[string]any{"k": "error", "in": in, "out": map[string]any{"err": fmt.Sprintf("Render: %s %v", out, err)}}
	}
	o := map[string]any{"shapes": shapes, "conns": conns, "bbox": []int{tl.X, tl.Y, br.X, br.Y},
		"rootSW": d.Root.StrokeWidth, "rootDouble": d.Root.DoubleBorder, "legend": d.Legend != nil}
	if m := viewBoxRe.FindSubmatch(svg); m != nil {
		var v []int
		for _, x := range m[1:] {
			n, _ := strconv.Atoi(string(x))
			v = append(v, n)
		}
		o["svgWH"] = v[:2]
		o["viewBox"] = v[2:]
	} else {
		o["viewBox"] = []int{}
		o["svgWH"] = []int{}
	}
	if m := outerRe.FindSubmatch(svg); m != nil {
		a, _ := strconv.Atoi(string(m[1]))
		b, _ := strconv.Atoi(string(m[2]))
		o["outer"] = []int{a, b}
	} else {
		o["outer"] = []int{}
	}
	// a NaN / infinite coordinate (route point or label anchor) cannot be read as a rational: report it as such
	if b, err := json.Marshal(o); err == nil && (bytes.Contains(b, []byte(`"nan"`)) || bytes.Contains(b, []byte(`inf"`))) {
		which := ""
		for _, c := range d.Connections {
			if m, _ := connJ(c); m != nil {
				if mb, _ := json.Marshal(m); bytes.Contains(mb, []byte(`"nan"`)) || bytes.Contains(mb, []byte(`inf"`)) {
					which = fmt.Sprintf("connection %s route=%v", c.ID, m["route"])
					break
				}
			}
		}
		return map[string]any{"k": "nonfinite", "in": in, "out": map[string]any{"where": which, "bbox": o["bbox"], "viewBox": o["viewBox"]}}
	}
	return map[string]any{"k": "board", "in": in, "out": o, "triv": len(d.Shapes) == 0}
}

var fixed = []string{
	`a: {style.multiple: true; label.near: outside-top-center}
b: {style.multiple: true; label.near: outside-right-center}
c: {style.3d: true; label.near: outside-top-left}
d: {style.shadow: true}
a -> b: hello {source-arrowhead: s; target-arrowhead: t}
`,
	`x: {icon: https://icons.terrastruct.com/essentials/004-picture.svg; icon.near: outside-top-right}
y: {icon: https://icons.terrastruct.com/essentials/004-picture.svg; icon.near: outside-left-center; shape: circle}
z: {shape: hexagon; style.3d: true; label.near: outside-right-top}
p: {shape: c4-person; style.stroke-width: 8}
x -> y -> z -> p: a label that is quite long
`,
	`h: {shape: hexagon; style.3d: true; label: a hexagon label; label.near: outside-right-center}
r: {style.3d: true; label: "tall\nlabel\nof\nmany\nlines\non\na\nsmall\nbox"; label.near: outside-right-center; width: 40; height: 30}
h -> r
`,
	`direction: right
t: {tooltip: tip text}
l: {link: https://example.com}
c: {label.near: border-top-center; k: {label.near: border-right-center; style.stroke-width: 10}}
t -> c.k: edge {style.stroke-width: 12}
`,
}

func run(c *hl.Ctx) error {
	if cs := c.ReplayCase(); cs != nil {
		in := cs["in"].(map[string]any)
		w := outl.NewWorker()
		c.Emit(runJob(w, job{src: in["src"].(string), engine: in["engine"].(string), pad: int64(in["pad"].(float64))}))
		return nil
	}
	r := c.Rand()
	n := c.Pick(160, 8000)
	if c.Search && c.Tier != "thorough" {
		n = 1200
	}
	g := &outl.Gen{R: r, Special: true, MultiLine: true, NonASCII: true}
	var jobs []job
	pads := []int64{0, 0, 1, 5, 20, 100, 100, 333}
	for _, s := range fixed {
		jobs = append(jobs, job{src: s, engine: "dagre", pad: 0}, job{src: s, engine: "elk", pad: 7})
	}
	for i := 0; i < n; i++ {
		g.StylesProb = []int{5, 15, 30}[r.Intn(3)]
		engine := "dagre"
		if r.Intn(12) == 0 {
			engine = "elk"
		}
		g.DescendantEdges = engine == "elk"
		j := job{src: g.Program(1+r.Intn(9), r.Intn(8)).Source(g), engine: engine, pad: pads[r.Intn(len(pads))]}
		jobs = append(jobs, j)
	}
	res := make([]map[string]any, len(jobs))
	outl.Par(len(jobs), func(i int, w *outl.Worker) { res[i] = runJob(w, jobs[i]) })
	for i, m := range res {
		if m["k"] == "error" {
			c.Count("error:" + jobs[i].engine)
			continue // compile / layout failures of generated programs belong to C07 / C17
		}
		c.Emit(m)
		c.Count("board:" + jobs[i].engine)
		c.Count(fmt.Sprintf("pad:%d", jobs[i].pad))
	}
	return nil
}
