package semlib

import (
	"fmt"
	"math/rand"
	"strings"

	"oss.terrastruct.com/d2/d2ast"
	"oss.terrastruct.com/d2/d2graph"
)

// Differential programs: the property's own sentences evaluated on what the real compiler returns for a base
// program and for the base program followed by one or two more declarations written at the root scope.

func plainID(s string) bool {
	if s == "" {
		return false
	}
	for _, c := range s {
		if !(c >= 'a' && c <= 'z' || c >= 'A' && c <= 'Z' || c >= '0' && c <= '9') {
			return false
		}
	}
	if _, ok := d2ast.ReservedKeywords[strings.ToLower(s)]; ok {
		return false
	}
	return true
}

func plainAbs(o *d2graph.Object) (string, bool) {
	ida := o.AbsIDArray()
	if len(ida) == 0 {
		return "", false
	}
	for _, p := range ida {
		if !plainID(p) {
			return "", false
		}
	}
	return strings.Join(ida, "."), true
}

func ensureNL(s string) string {
	if s != "" && !strings.HasSuffix(s, "\n") {
		return s + "\n"
	}
	return s
}

// C10Diff: base program + null / null-then-redeclare / relabel / case-twin relabel of one existing object.
func C10Diff(r *rand.Rand, src string) map[string]any {
	g, err, p := Compile(src)
	if p != "" || err != nil || len(g.Objects) == 0 {
		return nil
	}
	var cands []string
	for _, o := range g.Objects {
		if a, ok := plainAbs(o); ok {
			cands = append(cands, a)
		}
	}
	if len(cands) == 0 {
		return nil
	}
	eref := ""
	if !strings.Contains(src, "null") { // without deletions the graph index of a connection is its index in the IR
		var refs []string
		for _, e := range g.Edges {
			s, ok1 := plainAbs(e.Src)
			d, ok2 := plainAbs(e.Dst)
			if ok1 && ok2 {
				refs = append(refs, fmt.Sprintf("(%s %s %s)[%d]", s, arrowOf(e), d, e.Index))
			}
		}
		if len(refs) > 0 {
			eref = refs[r.Intn(len(refs))]
		}
	}
	return C10DiffKey(src, cands[r.Intn(len(cands))], eref)
}

// C10DiffKey: the differential case of src for the object with absolute id k (and, when eref is not empty, the connection eref).
func C10DiffKey(src, k, eref string) map[string]any {
	base := ensureNL(src)
	variants := map[string]string{
		"null":    base + k + ": null\n",
		"renull":  base + k + ": null\n" + k + ": ZZfresh\n",
		"relabel": base + k + ".label: ZZlbl\n",
		"primary": base + k + ": ZZprim\n",
		"twin":    base + swapCaseAll(k) + ".label: ZZtwin\n",
		"oattr":     base + k + ".style.opacity: 0.35\n",
		"oattrnull": base + k + ".style.opacity: 0.35\n" + k + ".style.opacity: null\n",
	}
	// null on a key that names a chain of connections removes every link
	chain := "ZZa -> ZZb -> ZZc: ZZl\n"
	variants["chain"] = base + chain
	variants["chainnull"] = base + chain + "ZZa -> ZZb -> ZZc: null\n"
	variants["chainnullidx"] = base + chain + "(ZZa -> ZZb -> ZZc)[0]: null\n"
	if eref != "" {
		variants["eattr"] = base + eref + ".style.opacity: 0.35\n"
		variants["eattrnull"] = base + eref + ".style.opacity: 0.35\n" + eref + ".style.opacity: null\n"
		variants["emapnull"] = base + eref + ".style.opacity: 0.35\n" + eref + ": {style.opacity: null}\n"
	}
	out := map[string]any{"base": Observe(src)}
	for name, text := range variants {
		out[name] = Observe(text)
	}
	return map[string]any{"k": "diff", "in": map[string]any{"src": src, "key": k, "twin": swapCaseAll(k), "eref": eref}, "out": out}
}

func swapCaseAll(s string) string {
	b := []byte(s)
	for i, c := range b {
		if c >= 'a' && c <= 'z' {
			b[i] = c - 32
		} else if c >= 'A' && c <= 'Z' {
			b[i] = c + 32
		}
	}
	return string(b)
}

func arrowOf(e *d2graph.Edge) string {
	switch {
	case e.SrcArrow && e.DstArrow:
		return "<->"
	case e.SrcArrow:
		return "<-"
	case e.DstArrow:
		return "->"
	}
	return "--"
}

// C11Diff: base program + an indexed reference (label set / null) to an existing and to a missing index of one
// existing connection.
func C11Diff(r *rand.Rand, src string) map[string]any {
	g, err, p := Compile(src)
	if p != "" || err != nil || len(g.Edges) == 0 {
		return nil
	}
	type cand struct {
		e        *d2graph.Edge
		src, dst string
	}
	var cands []cand
	for _, e := range g.Edges {
		s, ok1 := plainAbs(e.Src)
		d, ok2 := plainAbs(e.Dst)
		if ok1 && ok2 {
			cands = append(cands, cand{e, s, d})
		}
	}
	if len(cands) == 0 {
		return nil
	}
	c := cands[r.Intn(len(cands))]
	return C11DiffEdge(src, c.src, c.dst, c.e.SrcArrow, c.e.DstArrow, c.e.Index)
}

// C11DiffEdge: the differential case of src for the connection (esrc arrow edst)[i] of its compiled graph.
func C11DiffEdge(src, esrc, edst string, sa, da bool, i int) map[string]any {
	g, err, p := Compile(src)
	if p != "" || err != nil {
		return map[string]any{"k": "idx", "in": map[string]any{"src": src}, "out": map[string]any{"base": Observe(src)}}
	}
	count := 0
	for _, e := range g.Edges {
		s, _ := plainAbs(e.Src)
		d, _ := plainAbs(e.Dst)
		if s == esrc && d == edst && e.SrcArrow == sa && e.DstArrow == da {
			count++
		}
	}
	ar := arrowOf(&d2graph.Edge{SrcArrow: sa, DstArrow: da})
	ref := func(j int) string { return fmt.Sprintf("(%s %s %s)[%d]", esrc, ar, edst, j) }
	base := ensureNL(src)
	variants := map[string]string{
		"hit":      base + ref(i) + ".label: ZZhit\n",
		"miss":     base + ref(count) + ".label: ZZmiss\n",
		"nullhit":  base + ref(i) + ": null\n",
		"nullmiss": base + ref(count) + ": null\n",
	}
	out := map[string]any{"base": Observe(src)}
	for name, text := range variants {
		out[name] = Observe(text)
	}
	nonull := !strings.Contains(src, "null")
	return map[string]any{"k": "idx", "in": map[string]any{"src": src, "esrc": esrc, "edst": edst, "sa": sa, "da": da,
		"i": i, "count": count, "nonull": nonull}, "out": out}
}

// GraphCase: Spec-on-impl case of one program (any profile): the dump of every board.
func GraphCase(profile, src string) (map[string]any, string) {
	g, err, p := Compile(src)
	if p != "" {
		// a panicking program is not a compiled graph; it is counted (and is a witness against C07, not C09/C11)
		return nil, "panic"
	}
	if err != nil {
		cl, _ := ErrClasses(err)
		if len(cl) > 0 {
			return nil, "error:" + cl[0].(string)
		}
		return nil, "error"
	}
	return map[string]any{"k": "graph", "in": map[string]any{"src": src, "profile": profile}, "out": map[string]any{"g": DumpGraph(g)}}, ""
}
