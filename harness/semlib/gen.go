package semlib

import (
	"fmt"
	"math/rand"
	"strings"
)

// Core-fragment program generator: ≤ maxDecls declarations over ≤ 6 base names with case twins, nested maps of
// depth ≤ 4, repeated edges, chains, mixed arrow directions, scoped edges a.(b -> c), `_` parent references,
// indexed edge references and nulls, quoted keys equal to reserved keywords, plus a small stream of
// declarations that the compiler rejects (error classes are compared as well).

type Opts struct {
	MaxDecls   int
	MaxDepth   int
	Underscore bool // allow `_` parent references
	QuotedKw   bool // allow quoted keys equal to reserved keywords
	ErrSeeds   bool // allow declarations that are compile errors
	Nulls      bool // allow null assignments
	EdgeHeavy  bool // C11 profile: mostly edges / indexed references
	// `_` references written inside an edge's map: the compiler then creates a phantom object named after the edge
	// (reported by the C09 Spec); outside the modelled fragment
	EdgeMapUnderscore bool
	// names the formatter spells differently from the source (see specialNames)
	SpecialNames bool
}

type edgeRec struct {
	depth           int // scope id of the map body the connection was written in
	prefix          string
	src, arrow, dst string
}

type G struct {
	R      *rand.Rand
	O      Opts
	names  []string
	n      int // declarations emitted so far
	b      strings.Builder
	edges  []edgeRec
	Feat   map[string]int
	labelN int
	scopeN int
	scope  int // id of the map body being generated
}

var basePool = []string{"a", "b", "c", "d", "x", "y", "ab", "n1", "q", "k"}
var quotedKw = []string{`"label"`, `"shape"`, `"style"`, `"opacity"`, `'label'`, `"Label"`, `"near"`, `"width"`}
var shapes = []string{"rectangle", "square", "circle", "oval", "diamond", "hexagon", "cloud", "Circle", "page", "cylinder"}
var colors = []string{"red", "blue", "green", "orange", `"#ff0000"`, "black"}
var arrows = []string{"->", "->", "->", "->", "<-", "--", "<->"}

// names that the formatter quotes although they may be written unquoted (trailing hyphen), or that need quotes for another
// reason than a plain special character (dots, double hyphen, surrounding blanks, keyword case variants); an inner hyphen or
// blank needs no quotes.  Once picked, such a name is one of the program's few names, so it is referenced many times
// (declared, used as container, scope and connection endpoint).
var specialNames = []string{"tier-", "Tier-", "a-b", "x y", `"a.b"`, `" sp"`, `"x "`, `"n--m"`, `"Shape"`, `"Style"`, "q-"}

func New(r *rand.Rand, o Opts) *G {
	g := &G{R: r, O: o, Feat: map[string]int{}}
	k := 2 + r.Intn(5)
	perm := r.Perm(len(basePool))
	for i := 0; i < k; i++ {
		n := basePool[perm[i]]
		g.names = append(g.names, n)
		if r.Intn(3) == 0 { // case twin
			g.names = append(g.names, strings.ToUpper(n[:1])+n[1:])
		}
	}
	if o.SpecialNames && r.Intn(3) == 0 {
		g.names = append(g.names, specialNames[r.Intn(len(specialNames))])
		g.Feat["special-name"]++
	}
	return g
}

func (g *G) feat(s string) { g.Feat[s]++ }

func (g *G) name() string {
	if g.O.QuotedKw && g.R.Intn(40) == 0 {
		g.feat("quoted-keyword-name")
		return quotedKw[g.R.Intn(len(quotedKw))]
	}
	n := g.names[g.R.Intn(len(g.names))]
	if g.R.Intn(30) == 0 && !strings.HasPrefix(n, `"`) {
		g.feat("quoted-plain-name")
		return `"` + n + `"`
	}
	return n
}

func (g *G) path(depth int, maxLen int) string {
	var parts []string
	if g.O.Underscore && ((depth > 0 && g.R.Intn(12) == 0) || (depth == 0 && g.O.ErrSeeds && g.R.Intn(300) == 0)) {
		g.feat("underscore")
		parts = append(parts, "_")
		if depth > 1 && g.R.Intn(3) == 0 {
			parts = append(parts, "_")
		}
	}
	l := 1
	switch x := g.R.Intn(10); {
	case x < 6:
		l = 1
	case x < 9:
		l = 2
	default:
		l = 3
	}
	if l > maxLen {
		l = maxLen
	}
	for i := 0; i < l; i++ {
		parts = append(parts, g.name())
	}
	return strings.Join(parts, ".")
}

func (g *G) value() string {
	switch g.R.Intn(12) {
	case 0:
		return `"` + []string{"a b", "", "x: y", "Hi There", "null"}[g.R.Intn(5)] + `"`
	case 1:
		return []string{"1", "0.5", "true", "42"}[g.R.Intn(4)]
	case 2:
		return `'` + []string{"s q", "it"}[g.R.Intn(2)] + `'`
	default:
		g.labelN++
		return fmt.Sprintf("L%d", g.labelN)
	}
}

func (g *G) styleKV() (string, string) {
	switch g.R.Intn(5) {
	case 0:
		return "opacity", []string{"0.1", "0.4", "1", "0", "0.75"}[g.R.Intn(5)]
	case 1:
		return "stroke", colors[g.R.Intn(len(colors))]
	case 2:
		return "fill", colors[g.R.Intn(len(colors))]
	case 3:
		return "stroke-width", []string{"1", "2", "8", "15", "0"}[g.R.Intn(5)]
	default:
		return "bold", []string{"true", "false"}[g.R.Intn(2)]
	}
}

// a hyphen at the end of an unquoted key swallows the next character in the parser: keep a blank after it
var hyphenFix = strings.NewReplacer("-.", "- .", "-:", "- :", "-)", "- )")

func (g *G) line(depth int, s string) {
	s = hyphenFix.Replace(s)
	g.b.WriteString(strings.Repeat("  ", depth))
	g.b.WriteString(s)
	g.b.WriteByte('\n')
}

func (g *G) nullOr(v string) string {
	if g.O.Nulls && g.R.Intn(6) == 0 {
		g.feat("attr-null")
		return "null"
	}
	return v
}

// attribute declaration (label / shape / style...) relative to an optional object path
func (g *G) attr(depth int, onEdge bool, prefix string) {
	g.n++
	p := prefix
	switch x := g.R.Intn(10); {
	case x < 3:
		g.feat("attr-label")
		g.line(depth, p+"label: "+g.nullOr(g.value()))
	case x < 5 && !onEdge:
		g.feat("attr-shape")
		g.line(depth, p+"shape: "+g.nullOr(shapes[g.R.Intn(len(shapes))]))
	case x < 8:
		k, v := g.styleKV()
		g.feat("attr-style-dotted")
		g.line(depth, p+"style."+k+": "+g.nullOr(v))
	case x < 9:
		g.feat("attr-style-map")
		if g.O.Nulls && g.R.Intn(8) == 0 {
			g.line(depth, p+"style: null")
			return
		}
		g.line(depth, p+"style: {")
		m := 1 + g.R.Intn(3)
		for i := 0; i < m; i++ {
			k, v := g.styleKV()
			g.n++
			g.line(depth+1, k+": "+g.nullOr(v))
		}
		g.line(depth, "}")
	default:
		k, v := g.styleKV()
		g.feat("attr-style-dotted")
		g.line(depth, p+"style."+k+": "+g.nullOr(v))
	}
}

func (g *G) edgeBody(depth int) {
	m := 1 + g.R.Intn(3)
	for i := 0; i < m && g.n < g.O.MaxDecls; i++ {
		switch x := g.R.Intn(60); {
		case x == 0 && g.O.ErrSeeds && g.R.Intn(4) == 0:
			g.feat("err:object-in-edge-map")
			g.n++
			g.line(depth, g.name()+": "+g.value())
		case x == 1 && g.O.ErrSeeds && g.R.Intn(4) == 0:
			g.feat("err:edge-in-edge-map")
			g.n++
			g.line(depth, g.name()+" -> "+g.name())
		case x == 2 && g.O.Underscore && g.O.EdgeMapUnderscore:
			g.feat("underscore-in-edge-map")
			g.n++
			g.line(depth, "_."+g.name()+": "+g.value())
		default:
			g.attr(depth, true, "")
		}
	}
}

func (g *G) edgeDecl(depth int) {
	g.n++
	prefix := ""
	if g.R.Intn(8) == 0 {
		g.feat("edge-scoped-prefix")
		prefix = g.path(depth, 2)
	}
	links := 1
	if x := g.R.Intn(10); x >= 8 {
		links = 2 + g.R.Intn(2)
		g.feat("edge-chain")
	}
	var sb strings.Builder
	prev := g.path(depth, 2)
	sb.WriteString(prev)
	for i := 0; i < links; i++ {
		ar := arrows[g.R.Intn(len(arrows))]
		var dst string
		if len(g.edges) > 0 && g.R.Intn(3) == 0 { // repeat an earlier connection's destination to get parallel edges
			dst = g.edges[g.R.Intn(len(g.edges))].dst
		} else {
			dst = g.path(depth, 2)
		}
		if g.R.Intn(4) == 0 && len(g.edges) > 0 {
			e := g.edges[g.R.Intn(len(g.edges))]
			if i == 0 && e.depth == g.scope && e.prefix == prefix {
				// exact repetition of an earlier connection
				sb.Reset()
				prev = e.src
				sb.WriteString(prev)
				ar, dst = e.arrow, e.dst
				g.feat("edge-repeat")
			}
		}
		sb.WriteString(" " + ar + " " + dst)
		g.edges = append(g.edges, edgeRec{g.scope, prefix, prev, ar, dst})
		g.feat("arrow:" + ar)
		prev = dst
	}
	txt := sb.String()
	if prefix != "" {
		txt = prefix + ".(" + txt + ")"
	}
	switch x := g.R.Intn(20); {
	case x < 10:
		g.line(depth, txt)
	case x < 14:
		g.line(depth, txt+": "+g.value())
	case x < 17:
		g.feat("edge-with-map")
		lbl := ""
		if g.R.Intn(3) == 0 {
			lbl = g.value() + " "
		}
		g.line(depth, txt+": "+lbl+"{")
		g.edgeBody(depth + 1)
		g.line(depth, "}")
	case x < 18 && g.O.Nulls:
		g.feat("edge-null-noindex")
		g.edges = g.edges[:len(g.edges)-links]
		g.line(depth, txt+": null")
	case x < 19 && prefix == "":
		g.feat("edge-key-noindex")
		k, v := g.styleKV()
		g.line(depth, "("+txt+").style."+k+": "+v)
	default:
		g.line(depth, txt)
	}
}

func (g *G) indexedRef(depth int) {
	g.n++
	var prefix, src, ar, dst string
	var cands []edgeRec
	for _, e := range g.edges {
		if e.depth == g.scope {
			cands = append(cands, e)
		}
	}
	cnt := 0
	if len(cands) == 0 && g.R.Intn(40) != 0 {
		g.n--
		g.edgeDecl(depth)
		return
	}
	if len(cands) > 0 && g.R.Intn(40) != 0 {
		e := cands[g.R.Intn(len(cands))]
		prefix, src, ar, dst = e.prefix, e.src, e.arrow, e.dst
		for _, e2 := range cands {
			if e2.prefix == prefix && strings.EqualFold(e2.src, src) && e2.arrow == ar && strings.EqualFold(e2.dst, dst) {
				cnt++
			}
		}
		if g.R.Intn(6) == 0 { // same connection, written with the other case
			src = swapCase(src)
			g.feat("indexed-ref-case-variant")
		}
	} else {
		src, ar, dst = g.path(depth, 2), arrows[g.R.Intn(len(arrows))], g.path(depth, 2)
		g.feat("indexed-ref-random")
	}
	idx := []int{0, 0, 0, 1, 1, 2, 3}[g.R.Intn(7)]
	if cnt > 0 && g.R.Intn(30) != 0 {
		idx = g.R.Intn(cnt)
	}
	txt := fmt.Sprintf("(%s %s %s)[%d]", src, ar, dst, idx)
	if prefix != "" {
		txt = prefix + "." + txt
	}
	switch x := g.R.Intn(20); {
	case x < 5 && g.O.Nulls:
		g.feat("indexed-null")
		g.line(depth, txt+": null")
	case x < 9:
		g.feat("indexed-label-key")
		g.line(depth, txt+".label: "+g.value())
	case x < 12:
		g.feat("indexed-style-key")
		k, v := g.styleKV()
		g.line(depth, txt+".style."+k+": "+g.nullOr(v))
	case x < 15:
		g.feat("indexed-primary")
		g.line(depth, txt+": "+g.value())
	case x < 18:
		g.feat("indexed-map")
		g.line(depth, txt+": {")
		g.edgeBody(depth + 1)
		g.line(depth, "}")
	default:
		g.feat("indexed-label-key")
		g.line(depth, txt+".label: "+g.value())
	}
}

func swapCase(s string) string {
	b := []byte(s)
	for i, c := range b {
		if c >= 'a' && c <= 'z' {
			b[i] = c - 32
			break
		} else if c >= 'A' && c <= 'Z' {
			b[i] = c + 32
			break
		}
	}
	return string(b)
}

func (g *G) errSeed(depth int) {
	g.n++
	n := g.name()
	seeds := []string{
		n + ".shape.x: 1", n + ".opacity: 0.4", n + ".style: x", n + ".style.foo: 1", n + " -> " + g.name() + ": {c: d}",
		n + ".label -> " + g.name(), n + ".shape: nosuch", n + ".shape", n + ".style.opacity: 7", n + ".style -> " + g.name(),
		"_." + n, "_", n + "._." + g.name() + ": 1",
	}
	i := g.R.Intn(len(seeds))
	g.feat(fmt.Sprintf("err-seed:%d", i))
	g.line(depth, seeds[i])
}

func (g *G) decls(depth int, want int) {
	for i := 0; i < want && g.n < g.O.MaxDecls; i++ {
		x := g.R.Intn(100)
		if g.O.EdgeHeavy {
			// shift mass to edges and indexed references
			switch {
			case x < 10:
				x = 0 // field
			case x < 15:
				x = 30 // attr
			case x < 22:
				x = 50 // null
			case x < 65:
				x = 60 // edge
			case x < 98:
				x = 90 // indexed
			default:
				x = 99
			}
		}
		switch {
		case x < 28: // field
			g.n++
			p := g.path(depth, 3)
			switch y := g.R.Intn(10); {
			case y < 3:
				g.feat("field-bare")
				g.line(depth, p)
			case y < 6:
				g.feat("field-label")
				g.line(depth, p+": "+g.value())
			default:
				if depth+1 >= g.O.MaxDepth {
					g.line(depth, p+": "+g.value())
					break
				}
				g.feat(fmt.Sprintf("field-map:depth%d", depth+1))
				lbl := ""
				if g.R.Intn(3) == 0 {
					lbl = g.value() + " "
				}
				g.line(depth, p+": "+lbl+"{")
				saved := g.scope
				g.scopeN++
				g.scope = g.scopeN
				g.decls(depth+1, g.R.Intn(5))
				g.scope = saved
				g.line(depth, "}")
			}
		case x < 48: // attribute of an object
			prefix := ""
			if depth == 0 || g.R.Intn(2) == 0 {
				prefix = g.path(depth, 2) + "."
			}
			g.attr(depth, false, prefix)
		case x < 57 && g.O.Nulls: // null field
			g.n++
			g.feat("field-null")
			g.line(depth, g.path(depth, 3)+": null")
		case x < 85: // edge
			g.edgeDecl(depth)
		case x < 98: // indexed reference
			g.indexedRef(depth)
		case g.O.ErrSeeds && g.R.Intn(8) == 0:
			g.errSeed(depth)
		default:
			g.edgeDecl(depth)
		}
	}
}

// Program generates one program text.
func (g *G) Program() string {
	g.b.Reset()
	g.n = 0
	g.edges = nil
	g.scope, g.scopeN = 0, 0
	want := 1 + g.R.Intn(g.O.MaxDecls)
	if g.R.Intn(2) == 0 {
		want = 1 + g.R.Intn(12)
	}
	for g.n < want {
		before := g.n
		g.decls(0, want-g.n)
		if g.n == before {
			break
		}
	}
	return g.b.String()
}

func (g *G) Decls() int { return g.n }
