package semlib

import (
	"strings"

	"oss.terrastruct.com/d2/d2compiler"
	"oss.terrastruct.com/d2/d2graph"
	"oss.terrastruct.com/d2/d2parser"
)

// Compile runs the real parser + compiler on src. parseErr=true when the text does not parse (such programs are not cases).
func Compile(src string) (g *d2graph.Graph, err error, panicked string) {
	defer func() {
		if r := recover(); r != nil {
			panicked = "panic"
		}
	}()
	g, _, err = d2compiler.Compile("", strings.NewReader(src), nil)
	return g, err, ""
}

// Observe: the canonical observation of compiling src: {"err": [...classes], "msg": first message} | {"g": dump} | {"panic": true}
func Observe(src string) map[string]any {
	g, err, p := Compile(src)
	if p != "" {
		return map[string]any{"panic": true}
	}
	if err != nil {
		cl, first := ErrClasses(err)
		return map[string]any{"err": cl, "msg": first}
	}
	return map[string]any{"g": DumpGraph(g)}
}

// ParseAST parses src with the real d2parser and renders the core-fragment AST; ok=false: parse error or outside the fragment.
func ParseAST(src string) (ast []any, ok bool, why string) {
	m, err := d2parser.Parse("", strings.NewReader(src), nil)
	if err != nil {
		return nil, false, "parse-error"
	}
	a, ok := ASTJSON(m)
	if !ok {
		return nil, false, "outside-fragment"
	}
	return a, true, ""
}

// CoreCase builds the model-vs-implementation case of one core-fragment program (nil when the text is not a case).
func CoreCase(src string) (map[string]any, string) {
	ast, ok, why := ParseAST(src)
	if !ok {
		return nil, why
	}
	return map[string]any{"k": "core", "in": map[string]any{"src": src, "ast": ast}, "out": Observe(src)}, ""
}
