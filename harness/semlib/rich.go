package semlib

import (
	"fmt"
	"math/rand"
	"strings"
)

// Rich programs for the Spec-on-impl streams (no model comparison): class / sql_table shapes (whose fields are not
// objects), sequence diagrams with groups and spans, grids, layers / scenarios / steps, underscores, near keys, text and
// code shapes, plus core-fragment pieces.  Mostly valid; programs the compiler rejects are counted and skipped.

type richGen struct {
	r *rand.Rand
	b strings.Builder
	n int
}

func (g *richGen) line(d int, s string) {
	s = hyphenFix.Replace(s)
	g.b.WriteString(strings.Repeat("  ", d))
	g.b.WriteString(s)
	g.b.WriteByte('\n')
}

var richNames = []string{"a", "b", "c", "d", "e", "A", "B", "user", "db", "api", "q1", "tier-", `"a.b"`, `" sp"`, "x-y", `"Label"`}

func (g *richGen) nm() string { return richNames[g.r.Intn(len(richNames))] }

func (g *richGen) class(d int, name string) {
	g.line(d, name+": {")
	g.line(d+1, "shape: class")
	for i := 0; i < 1+g.r.Intn(4); i++ {
		switch g.r.Intn(4) {
		case 0:
			g.line(d+1, fmt.Sprintf("+f%d: int", i))
		case 1:
			g.line(d+1, fmt.Sprintf("-m%d(x int): void", i))
		case 2:
			g.line(d+1, fmt.Sprintf("\"#p%d\": string", i))
		default:
			g.line(d+1, fmt.Sprintf("f%d", i))
		}
	}
	g.line(d, "}")
}

func (g *richGen) table(d int, name string) {
	g.line(d, name+": {")
	g.line(d+1, "shape: sql_table")
	g.line(d+1, "id: int {constraint: primary_key}")
	for i := 0; i < g.r.Intn(3); i++ {
		g.line(d+1, fmt.Sprintf("col%d: %s", i, []string{"int", "varchar", "\"\""}[g.r.Intn(3)]))
	}
	if g.r.Intn(3) == 0 {
		g.line(d+1, "other: int {constraint: foreign_key}")
	}
	g.line(d, "}")
}

func (g *richGen) sequence(d int, name string) {
	g.line(d, name+": {")
	g.line(d+1, "shape: sequence_diagram")
	actors := []string{"alice", "bob", "carol"}[:2+g.r.Intn(2)]
	for _, a := range actors {
		if g.r.Intn(2) == 0 {
			g.line(d+1, a)
		}
	}
	for i := 0; i < 1+g.r.Intn(4); i++ {
		x, y := actors[g.r.Intn(len(actors))], actors[g.r.Intn(len(actors))]
		switch g.r.Intn(5) {
		case 0:
			g.line(d+1, fmt.Sprintf("%s.t%d -> %s.t%d: span", x, i, y, i))
		case 1:
			g.line(d+1, fmt.Sprintf("grp%d: {", i))
			g.line(d+2, fmt.Sprintf("%s -> %s: in group", x, y))
			if g.r.Intn(2) == 0 {
				g.line(d+2, fmt.Sprintf("%s -> %s", y, x))
			}
			g.line(d+1, "}")
		case 2:
			g.line(d+1, fmt.Sprintf("%s.note%d: a note", x, i))
		default:
			g.line(d+1, fmt.Sprintf("%s -> %s: m%d", x, y, i))
		}
	}
	g.line(d, "}")
}

func (g *richGen) grid(d int, name string) {
	g.line(d, name+": {")
	if g.r.Intn(2) == 0 {
		g.line(d+1, fmt.Sprintf("grid-rows: %d", 1+g.r.Intn(3)))
	} else {
		g.line(d+1, fmt.Sprintf("grid-columns: %d", 1+g.r.Intn(3)))
	}
	for i := 0; i < 1+g.r.Intn(5); i++ {
		if g.r.Intn(5) == 0 {
			g.line(d+1, fmt.Sprintf("cell%d: {", i))
			g.line(d+2, "in1 -> in2")
			g.line(d+1, "}")
		} else {
			g.line(d+1, fmt.Sprintf("cell%d", i))
		}
	}
	if g.r.Intn(3) == 0 {
		g.line(d+1, "cell0 -> cell1")
	}
	g.line(d, "}")
}

func (g *richGen) container(d int, depth int) {
	name := g.nm()
	g.line(d, name+": {")
	g.pieces(d+1, depth+1, 1+g.r.Intn(4))
	g.line(d, "}")
}

func (g *richGen) edge(d, depth int) {
	p := func() string {
		s := g.nm()
		if g.r.Intn(3) == 0 {
			s += "." + g.nm()
		}
		if depth > 0 && g.r.Intn(6) == 0 {
			s = "_." + s
		}
		return s
	}
	ar := arrows[g.r.Intn(len(arrows))]
	txt := p() + " " + ar + " " + p()
	if g.r.Intn(4) == 0 {
		txt += " " + arrows[g.r.Intn(len(arrows))] + " " + p()
	}
	switch g.r.Intn(6) {
	case 0:
		txt += ": lbl"
	case 1:
		txt += ": {style.stroke-dash: 3}"
	case 2:
		txt += ": {source-arrowhead: 1; target-arrowhead: {shape: diamond}}"
	}
	g.line(d, txt)
}

func (g *richGen) pieces(d, depth, n int) {
	for i := 0; i < n; i++ {
		g.n++
		x := g.r.Intn(100)
		switch {
		case x < 8:
			g.class(d, g.nm())
		case x < 16:
			g.table(d, g.nm())
		case x < 22 && depth < 2:
			g.sequence(d, g.nm())
		case x < 30 && depth < 3:
			g.grid(d, g.nm())
		case x < 42 && depth < 3:
			g.container(d, depth)
		case x < 70:
			g.edge(d, depth)
		case x < 74:
			sh := []string{"text", "code", "person", "image", "cloud", "hierarchy"}[g.r.Intn(6)]
			nm := g.nm()
			g.line(d, nm+".shape: "+sh)
			if sh == "image" {
				g.line(d, nm+".icon: https://icons.example.com/x.svg")
			}
		case x < 78:
			g.line(d, g.nm()+": |md # title |")
		case x < 82 && depth == 0:
			g.line(d, g.nm()+".near: "+[]string{"top-center", "bottom-left", "center-right"}[g.r.Intn(3)])
		case x < 85:
			g.line(d, g.nm()+".label.near: "+[]string{"top-center", "outside-top-left", "bottom-right"}[g.r.Intn(3)])
		case x < 88:
			g.line(d, g.nm()+": null")
		case x < 91 && depth > 0:
			g.line(d, "_."+g.nm()+": up")
		case x < 94:
			x, y := g.nm(), g.nm()
			g.line(d, x+" -> "+y)
			g.line(d, fmt.Sprintf("(%s -> %s)[0].style.opacity: 0.5", x, y))
		case x < 96:
			g.line(d, g.nm()+": {style.multiple: true; style.3d: true}")
		default:
			g.line(d, g.nm()+"."+g.nm()+": "+g.nm())
		}
	}
}

func (g *richGen) boards(d, depth int) {
	kinds := []string{"layers", "scenarios", "steps"}
	for _, k := range kinds {
		if g.r.Intn(3) != 0 {
			continue
		}
		g.line(d, k+": {")
		for i := 0; i < 1+g.r.Intn(2); i++ {
			g.line(d+1, fmt.Sprintf("%s%d: {", k[:2], i))
			g.pieces(d+2, 0, 1+g.r.Intn(4))
			if depth < 1 && g.r.Intn(3) == 0 {
				g.boards(d+2, depth+1)
			}
			g.line(d+1, "}")
		}
		g.line(d, "}")
	}
}

// RichProgram: one program of the rich profiles.
func RichProgram(r *rand.Rand) string {
	g := &richGen{r: r}
	g.pieces(0, 0, 1+r.Intn(8))
	if r.Intn(3) == 0 {
		g.boards(0, 0)
	}
	return g.b.String()
}
