// Package semlib — shared by the C09/C10/C11 harnesses: program generators for the core fragment of D2 and for the
// richer Spec-on-impl profiles, the JSON form of the AST the real d2parser produced (so the Lean side never
// models the parser), and the canonical dump of the compiled d2graph.Graph.
package semlib

import (
	"oss.terrastruct.com/d2/d2ast"
)

// name: {"s": scalar string, "q": quoted?, "p": byte offset}
func nameJSON(s d2ast.String) (map[string]any, bool) {
	if us, ok := s.(*d2ast.UnquotedString); ok {
		if len(us.Pattern) > 0 {
			return nil, false // glob
		}
		if len(us.Value) != 1 || us.Value[0].String == nil {
			return nil, false // substitution inside a key
		}
	}
	if dq, ok := s.(*d2ast.DoubleQuotedString); ok {
		for _, b := range dq.Value {
			if b.Substitution != nil {
				return nil, false
			}
		}
	}
	if _, ok := s.(*d2ast.BlockString); ok {
		return nil, false
	}
	return map[string]any{"s": s.ScalarString(), "q": !s.IsUnquoted(), "p": s.GetRange().Start.Byte}, true
}

func pathJSON(kp *d2ast.KeyPath) ([]any, bool) {
	if kp == nil {
		return []any{}, true
	}
	out := make([]any, 0, len(kp.Path))
	for _, el := range kp.Path {
		n, ok := nameJSON(el.Unbox())
		if !ok {
			return nil, false
		}
		out = append(out, n)
	}
	return out, true
}

// scalar: {"null": true} or {"s": scalar string}
func scalarJSON(s d2ast.Scalar) (map[string]any, bool) {
	switch x := s.(type) {
	case *d2ast.Null:
		return map[string]any{"null": true}, true
	case *d2ast.Boolean, *d2ast.Number, *d2ast.SingleQuotedString:
		return map[string]any{"s": s.ScalarString()}, true
	case *d2ast.UnquotedString:
		if len(x.Value) != 1 || x.Value[0].String == nil {
			return nil, false
		}
		return map[string]any{"s": s.ScalarString()}, true
	case *d2ast.DoubleQuotedString:
		for _, b := range x.Value {
			if b.Substitution != nil {
				return nil, false
			}
		}
		return map[string]any{"s": s.ScalarString()}, true
	}
	return nil, false // block strings, suspensions
}

// ASTJSON renders the parsed map as a list of declarations of the core fragment; ok=false when the program uses a
// construct outside the fragment (globs, substitutions, imports, arrays, block strings, filters, suspensions, comments are dropped).
func ASTJSON(m *d2ast.Map) (decls []any, ok bool) {
	decls = []any{}
	for _, n := range m.Nodes {
		switch {
		case n.Comment != nil || n.BlockComment != nil:
			continue
		case n.MapKey == nil:
			return nil, false
		}
		k := n.MapKey
		if k.Ampersand || k.NotAmpersand {
			return nil, false
		}
		d := map[string]any{}
		key, ok := pathJSON(k.Key)
		if !ok {
			return nil, false
		}
		d["key"] = key
		edges := []any{}
		for _, e := range k.Edges {
			src, ok1 := pathJSON(e.Src)
			dst, ok2 := pathJSON(e.Dst)
			if !ok1 || !ok2 {
				return nil, false
			}
			if e.SrcArrow == "*" || e.DstArrow == "*" {
				return nil, false
			}
			edges = append(edges, map[string]any{"src": src, "dst": dst, "sa": e.SrcArrow == "<", "da": e.DstArrow == ">",
				"p": e.Range.Start.Byte})
		}
		d["edges"] = edges
		if k.EdgeIndex != nil {
			if k.EdgeIndex.Glob || k.EdgeIndex.Int == nil {
				return nil, false
			}
			d["idx"] = *k.EdgeIndex.Int
		}
		ek, ok := pathJSON(k.EdgeKey)
		if !ok {
			return nil, false
		}
		d["ekey"] = ek
		if p := k.Primary.Unbox(); p != nil {
			pj, ok := scalarJSON(p)
			if !ok {
				return nil, false
			}
			d["prim"] = pj
		}
		switch {
		case k.Value.Map != nil:
			body, ok := ASTJSON(k.Value.Map)
			if !ok {
				return nil, false
			}
			d["body"] = body
		case k.Value.Array != nil || k.Value.Import != nil || k.Value.Suspension != nil || k.Primary.Suspension != nil:
			return nil, false
		default:
			if v := k.Value.ScalarBox().Unbox(); v != nil {
				vj, ok := scalarJSON(v)
				if !ok {
					return nil, false
				}
				d["val"] = vj
			}
		}
		decls = append(decls, d)
	}
	return decls, true
}
