package semlib

import (
	"errors"
	"sort"
	"strings"

	"oss.terrastruct.com/d2/d2ast"
	"oss.terrastruct.com/d2/d2graph"
	"oss.terrastruct.com/d2/d2parser"
)

func styleList(s d2graph.Style) []any {
	out := [][2]string{}
	add := func(k string, v *d2graph.Scalar) {
		if v != nil {
			out = append(out, [2]string{k, v.Value})
		}
	}
	add("opacity", s.Opacity)
	add("stroke", s.Stroke)
	add("fill", s.Fill)
	add("fill-pattern", s.FillPattern)
	add("stroke-width", s.StrokeWidth)
	add("stroke-dash", s.StrokeDash)
	add("border-radius", s.BorderRadius)
	add("shadow", s.Shadow)
	add("3d", s.ThreeDee)
	add("multiple", s.Multiple)
	add("font", s.Font)
	add("font-size", s.FontSize)
	add("font-color", s.FontColor)
	add("animated", s.Animated)
	add("bold", s.Bold)
	add("italic", s.Italic)
	add("underline", s.Underline)
	add("filled", s.Filled)
	add("double-border", s.DoubleBorder)
	add("text-transform", s.TextTransform)
	sort.Slice(out, func(i, j int) bool { return out[i][0] < out[j][0] })
	r := make([]any, len(out))
	for i, kv := range out {
		r[i] = []any{kv[0], kv[1]}
	}
	return r
}

// DumpGraph: canonical structural dump of one board (recursively its layers/scenarios/steps).
// Every *Object reachable (listed in g.Objects, as a child, as a parent or as an edge endpoint) gets a node id:
// the root is node 0, listed objects follow in g.Objects order (a pointer listed twice keeps its first id and appears twice in
// "objects"), anything else reachable but not listed comes last.
func DumpGraph(g *d2graph.Graph) map[string]any {
	ids := map[*d2graph.Object]int{}
	var nodes []*d2graph.Object
	id := func(o *d2graph.Object) int {
		if o == nil {
			return -1
		}
		if i, ok := ids[o]; ok {
			return i
		}
		ids[o] = len(nodes)
		nodes = append(nodes, o)
		return ids[o]
	}
	id(g.Root)
	listed := make([]any, 0, len(g.Objects))
	for _, o := range g.Objects {
		listed = append(listed, id(o))
	}
	// close under children / parents / edge endpoints
	for _, e := range g.Edges {
		id(e.Src)
		id(e.Dst)
	}
	for i := 0; i < len(nodes); i++ {
		o := nodes[i]
		id(o.Parent)
		for _, c := range o.ChildrenArray {
			id(c)
		}
		keys := make([]string, 0, len(o.Children))
		for k := range o.Children {
			keys = append(keys, k)
		}
		sort.Strings(keys)
		for _, k := range keys {
			id(o.Children[k])
		}
	}
	nj := make([]any, len(nodes))
	for i, o := range nodes {
		ch := make([]any, 0, len(o.ChildrenArray))
		for _, c := range o.ChildrenArray {
			ch = append(ch, id(c))
		}
		keys := make([]string, 0, len(o.Children))
		for k := range o.Children {
			keys = append(keys, k)
		}
		sort.Strings(keys)
		cm := make([]any, 0, len(keys))
		for _, k := range keys {
			cm = append(cm, []any{k, id(o.Children[k])})
		}
		pos := -1
		if len(o.References) > 0 {
			r := o.References[0]
			if r.Key != nil && r.KeyPathIndex >= 0 && r.KeyPathIndex < len(r.Key.Path) && !r.IsVar {
				pos = r.Key.Path[r.KeyPathIndex].Unbox().GetRange().Start.Byte
			} else if r.IsVar {
				pos = -2
			}
		}
		samegraph := o.Graph == g
		nj[i] = map[string]any{"id": o.ID, "idval": o.IDVal, "abs": o.AbsID(), "parent": id(o.Parent), "children": ch, "cmap": cm,
			"label": o.Label.Value, "shape": o.Shape.Value, "style": styleList(o.Style), "pos": pos, "nrefs": len(o.References),
			"graph": samegraph, "special": o.Class != nil || o.SQLTable != nil}
	}
	ej := make([]any, 0, len(g.Edges))
	for _, e := range g.Edges {
		pos := -1
		if len(e.References) > 0 && e.References[0].Edge != nil {
			pos = e.References[0].Edge.Range.Start.Byte
		}
		ej = append(ej, map[string]any{"src": id(e.Src), "dst": id(e.Dst), "sa": e.SrcArrow, "da": e.DstArrow, "index": e.Index,
			"label": e.Label.Value, "style": styleList(e.Style), "pos": pos, "abs": e.AbsID(), "nrefs": len(e.References)})
	}
	out := map[string]any{"name": g.Name, "nodes": nj, "objects": listed, "edges": ej}
	var boards []any
	for _, kind := range []struct {
		k  string
		gs []*d2graph.Graph
	}{{"layers", g.Layers}, {"scenarios", g.Scenarios}, {"steps", g.Steps}} {
		for _, b := range kind.gs {
			d := DumpGraph(b)
			d["kind"] = kind.k
			boards = append(boards, d)
		}
	}
	if boards == nil {
		boards = []any{}
	}
	out["boards"] = boards
	return out
}

// error classes (small enum); the message text itself is never compared
var errClasses = []struct{ sub, class string }{
	{"indexed edge does not exist", "idx-missing"},
	{"cannot create edge inside edge", "edge-in-edge"},
	{"must be the last part of the key", "last-part"},
	{"invalid underscore: no parent", "underscore"},
	{"field key must contain more than underscores", "underscore"},
	{"can only be used in the beginning of paths", "underscore"},
	{"invalid underscore", "underscore"},
	{"reserved keywords are prohibited in edges", "reserved-in-edge"},
	{"cannot connect to reserved keyword", "reserved-in-edge"},
	{"expected to be set to a map of key-values", "style-map"},
	{"invalid style keyword", "style-keyword"},
	{" must be style.", "style-outside"},
	{"must have a value", "reserved-no-value"},
	{"does not accept composite", "reserved-composite"},
	{"unknown shape", "shape-unknown"},
	{"edge map keys must be reserved keywords", "edge-map-key"},
	{"must be declared at a board root scope", "board-scope"},
	{"unexpected field", "label-field"},
	{"expected \"", "style-value"},
}

func ErrClass(msg string) string {
	for _, c := range errClasses {
		if strings.Contains(msg, c.sub) {
			return c.class
		}
	}
	return "other"
}

// ErrClasses: the error classes of a compile error in report order (one per reported error), with the message of the first.
func ErrClasses(err error) (classes []any, first string) {
	classes = []any{}
	var pe *d2parser.ParseError
	if errors.As(err, &pe) {
		for _, e := range pe.Errors {
			classes = append(classes, ErrClass(e.Message))
		}
		if len(pe.Errors) > 0 {
			first = pe.Errors[0].Message
		}
		return
	}
	var ae d2ast.Error
	if errors.As(err, &ae) {
		return []any{ErrClass(ae.Message)}, ae.Message
	}
	return []any{ErrClass(err.Error())}, err.Error()
}
