package main

import (
	"math/rand"
	"runtime"

	"d2v/harness/hl"
	"d2v/harness/lay"

	"oss.terrastruct.com/d2/d2graph"
	"oss.terrastruct.com/d2/lib/geo"
)

// C20: (a) "geo": laid-out geometry of generated diagrams under dagre and ELK for the Lean Spec endsOnExtent;
// (b) "isect": the real geo.Box.Intersections vs the Lean model of Cramer + math.Round; (c) "clip": the real
// Edge.TraceToShape on two-point routes between rectangles (what DefaultRouter does for cross-diagram edges) vs the
// model's clipStart / clipEnd.
func main() {
	lay.MaybeChild()
	hl.Main("C20", run)
}

type M = map[string]any

func pt(p *geo.Point) []any { return []any{hl.Rat(p.X), hl.Rat(p.Y)} }

func isectCase(bx, by, bw, bh, x0, y0, x1, y1 float64) M {
	b := geo.NewBox(geo.NewPoint(bx, by), bw, bh)
	seg := geo.Segment{Start: geo.NewPoint(x0, y0), End: geo.NewPoint(x1, y1)}
	out := []any{}
	for _, p := range b.Intersections(seg) {
		out = append(out, pt(p))
	}
	return M{"k": "isect", "in": M{"box": M{"x": hl.Rat(bx), "y": hl.Rat(by), "w": hl.Rat(bw), "h": hl.Rat(bh)},
		"s0": []any{hl.Rat(x0), hl.Rat(y0)}, "s1": []any{hl.Rat(x1), hl.Rat(y1)}}, "out": M{"pts": out}}
}

func rectObj(x, y, w, h float64) *d2graph.Object {
	o := &d2graph.Object{Box: geo.NewBox(geo.NewPoint(x, y), w, h)}
	o.Shape = d2graph.Scalar{Value: "rectangle"}
	return o
}

func clipCase(a, b [4]float64) M {
	src, dst := rectObj(a[0], a[1], a[2], a[3]), rectObj(b[0], b[1], b[2], b[3])
	e := &d2graph.Edge{Src: src, Dst: dst}
	route := []*geo.Point{src.Center(), dst.Center()}
	in := M{"src": M{"x": hl.Rat(a[0]), "y": hl.Rat(a[1]), "w": hl.Rat(a[2]), "h": hl.Rat(a[3])},
		"dst": M{"x": hl.Rat(b[0]), "y": hl.Rat(b[1]), "w": hl.Rat(b[2]), "h": hl.Rat(b[3])},
		"p0":  pt(route[0]), "p1": pt(route[1])}
	out := M{}
	res := hl.Guard(func() {
		s, t := e.TraceToShape(route, 0, 1)
		out["start"] = pt(route[s])
		out["end"] = pt(route[t])
	})
	out["outcome"] = res
	return M{"k": "clip", "in": in, "out": out}
}

func fl(v any) float64 {
	f, _ := new(big).parse(v.(string))
	return f
}

type big struct{}

func (*big) parse(s string) (float64, bool) {
	var n, d float64
	neg := false
	i := 0
	if len(s) > 0 && s[0] == '-' {
		neg = true
		i = 1
	}
	for ; i < len(s) && s[i] != '/'; i++ {
		n = n*10 + float64(s[i]-'0')
	}
	d = 1
	if i < len(s) {
		d = 0
		for i++; i < len(s); i++ {
			d = d*10 + float64(s[i]-'0')
		}
	}
	if neg {
		n = -n
	}
	return n / d, true
}

func boxOf(m map[string]any) [4]float64 {
	return [4]float64{fl(m["x"]), fl(m["y"]), fl(m["w"]), fl(m["h"])}
}

func run(c *hl.Ctx) error {
	if cs := c.ReplayCase(); cs != nil {
		in := cs["in"].(map[string]any)
		switch cs["k"] {
		case "isect":
			b := boxOf(in["box"].(map[string]any))
			s0, s1 := in["s0"].([]any), in["s1"].([]any)
			c.Emit(isectCase(b[0], b[1], b[2], b[3], fl(s0[0]), fl(s0[1]), fl(s1[0]), fl(s1[1])))
		case "clip":
			c.Emit(clipCase(boxOf(in["src"].(map[string]any)), boxOf(in["dst"].(map[string]any))))
		default:
			c.Emit(lay.GeoCase(lay.Run(in["src"].(string), in["engine"].(string), false)))
		}
		return nil
	}
	r := c.Rand()
	coord := func(r *rand.Rand) float64 {
		v := float64(r.Intn(401) - 200)
		if r.Intn(4) == 0 {
			v += 0.5
		}
		return v
	}
	for i, n := 0, c.Pick(20000, 1000000); i < n; i++ {
		bx, by := coord(r), coord(r)
		bw, bh := float64(r.Intn(200)), float64(r.Intn(200))
		var x0, y0, x1, y1 float64
		switch r.Intn(4) {
		case 0: // from the centre outwards (what the routers do)
			x0, y0 = bx+bw/2, by+bh/2
			x1, y1 = coord(r), coord(r)
			c.Count("isect:from-centre")
		case 1: // axis parallel
			x0, y0 = coord(r), coord(r)
			if r.Intn(2) == 0 {
				x1, y1 = x0, coord(r)
			} else {
				x1, y1 = coord(r), y0
			}
			c.Count("isect:axis-parallel")
		case 2: // through a corner
			x0, y0 = bx-float64(r.Intn(50)), by-float64(r.Intn(50))
			x1, y1 = bx+bw, by+bh
			c.Count("isect:corner")
		default:
			x0, y0, x1, y1 = coord(r), coord(r), coord(r), coord(r)
			c.Count("isect:random")
		}
		c.Emit(isectCase(bx, by, bw, bh, x0, y0, x1, y1))
	}
	for i, n := 0, c.Pick(10000, 500000); i < n; i++ {
		a := [4]float64{float64(r.Intn(600) - 300), float64(r.Intn(600) - 300), float64(1 + r.Intn(300)), float64(1 + r.Intn(300))}
		b := [4]float64{float64(r.Intn(600) - 300), float64(r.Intn(600) - 300), float64(1 + r.Intn(300)), float64(1 + r.Intn(300))}
		c.Emit(clipCase(a, b))
		c.Count("clip:rect-rect")
	}
	g := &lay.Gen{R: r}
	var jobs []lay.Job
	nProg := lay.DevN(c.Pick(800, 8000))
	weights := []string{"core", "deep", "styled", "deep", "styled", "grid", "near", "nested", "deep", "names", "boards", "styled"}
	for i := 0; i < nProg; i++ {
		p := weights[i%len(weights)]
		src := g.Program(p)
		for _, e := range lay.Engines(i/len(weights), 2) {
			jobs = append(jobs, lay.Job{Src: src, Engine: e, Tag: p})
		}
	}
	res := lay.RunAll(jobs, runtime.NumCPU(), lay.QuickBudget(c.Quick()), 32)
	for i, rr := range res {
		if rr == nil {
			c.Count("budget:not-run")
			continue
		}
		for _, ft := range lay.Features(rr) {
			c.Count(rr.Engine + ":" + ft)
		}
		c.Emit(lay.GeoCase(rr))
		c.Count("geo:" + jobs[i].Tag + ":" + rr.Engine)
	}
	return nil
}
