package main

import (
	"context"
	"d2v/harness/hl"
	"fmt"
	"math/rand"
	"mime"
	"net/http"
	"net/http/httptest"
	"net/url"
	"os"
	"path"
	"path/filepath"
	"sort"
	"strings"
	"sync"
	"time"

	"oss.terrastruct.com/d2/lib/imgbundler"
	"oss.terrastruct.com/d2/lib/simplelog"
)

// C46: the real BundleLocal / BundleRemote run with the worker completion order dictated through the verif
// scheduling gate (lib/imgbundler/verif_sched.go), on local files and an in-process HTTP server.
func main() { hl.Main("C46", run) }

const hostTok = "@HOST@" // placeholder of the test server's host:port inside stored cases (the port changes per run)

// one referenced image as the harness set it up
type img struct {
	Href string // as written in the SVG (placeholder form)
	Mime string // Content-Type served ("" = none); ignored for local files
	Data []byte
	Fail bool   // local: file absent; remote: status 500
	NoCT bool   // remote: suppress the Content-Type header altogether
	Elig bool   // the harness expects a worker for it
}

type env struct {
	dir  string
	srv  *httptest.Server
	host string
	mu   sync.Mutex
	tab  map[string]*img // URL path -> image, for the server
}

func newEnv(c *hl.Ctx) *env {
	e := &env{tab: map[string]*img{}}
	d, err := os.MkdirTemp(c.Work, "c46-")
	if err != nil {
		panic(err)
	}
	e.dir = d
	e.srv = httptest.NewServer(http.HandlerFunc(func(w http.ResponseWriter, r *http.Request) {
		e.mu.Lock()
		im := e.tab[r.URL.Path]
		e.mu.Unlock()
		if im == nil {
			http.NotFound(w, r)
			return
		}
		if im.Fail {
			http.Error(w, "boom", 500)
			return
		}
		if im.NoCT {
			w.Header()["Content-Type"] = nil
		} else {
			w.Header()["Content-Type"] = []string{e.real(im.Mime)}
		}
		w.Write(im.Data)
	}))
	e.host = strings.TrimPrefix(e.srv.URL, "http://")
	return e
}

func (e *env) real(s string) string { return strings.ReplaceAll(s, hostTok, e.host) }

// rawMime is the MIME type `worker` starts from before its own fix-ups: the served Content-Type, or what
// mime.TypeByExtension / http.DetectContentType say (library behaviour, not the property's subject).
func rawMime(im *img, realHref string, remote bool) string {
	if remote && !im.NoCT && im.Mime != "" {
		return im.Mime
	}
	p := realHref
	if remote {
		u, err := url.Parse(htmlUnescape(p))
		if err != nil {
			p = ""
		} else {
			p = u.Path
		}
	}
	mt := mime.TypeByExtension(path.Ext(p))
	if mt == "" {
		mt = http.DetectContentType(im.Data)
	}
	return mt
}

func htmlUnescape(s string) string { return strings.ReplaceAll(s, "&amp;", "&") }

// observe runs one case. svg and hrefs are in placeholder form; order lists the hrefs of the images expected to
// get a worker, in the order in which the workers are let through.
func (e *env) observe(svgT string, remote bool, imgs []*img, order []string, sub string) map[string]any {
	// set the world up
	caseDir, _ := os.MkdirTemp(e.dir, "k")
	defer os.RemoveAll(caseDir)
	e.mu.Lock()
	e.tab = map[string]*img{}
	for _, im := range imgs {
		h := e.real(im.Href)
		if u, err := url.Parse(htmlUnescape(h)); err == nil && strings.HasPrefix(u.Scheme, "http") {
			e.tab[u.Path] = im
			continue
		}
		if im.Fail || strings.HasPrefix(h, "data:") {
			continue
		}
		p := strings.ReplaceAll(htmlUnescape(h), "@DIR@", caseDir)
		if !filepath.IsAbs(p) {
			p = filepath.Join(caseDir, p)
		}
		os.MkdirAll(filepath.Dir(p), 0o755)
		if err := os.WriteFile(p, im.Data, 0o644); err != nil {
			panic(err)
		}
	}
	e.mu.Unlock()
	svg := strings.ReplaceAll(e.real(svgT), "@DIR@", caseDir)

	// the gate: order[k] is let through when order[k-1]'s goroutine has finished
	var mu sync.Mutex
	release := map[string]chan struct{}{}
	for _, h := range order {
		release[strings.ReplaceAll(e.real(h), "@DIR@", caseDir)] = make(chan struct{})
	}
	realOrder := make([]string, len(order))
	for i, h := range order {
		realOrder[i] = strings.ReplaceAll(e.real(h), "@DIR@", caseDir)
	}
	if len(realOrder) > 0 {
		close(release[realOrder[0]])
	}
	idx := map[string]int{}
	for i, h := range realOrder {
		idx[h] = i
	}
	var started []string
	unexpected := false
	imgbundler.VerifSchedGate = func(href string) func() {
		mu.Lock()
		started = append(started, href)
		ch, ok := release[href]
		if !ok {
			unexpected = true
		}
		mu.Unlock()
		if !ok {
			return nil
		}
		<-ch
		return func() {
			mu.Lock()
			k := idx[href]
			if k+1 < len(realOrder) {
				close(release[realOrder[k+1]])
			}
			mu.Unlock()
		}
	}
	defer func() { imgbundler.VerifSchedGate = nil }()

	type res struct {
		out     []byte
		err     error
		outcome string
	}
	done := make(chan res, 1)
	ctx, cancel := context.WithCancel(context.Background())
	defer cancel()
	go func() {
		var r res
		r.outcome = hl.Guard(func() {
			l := simplelog.Make(nil, nil, nil)
			if remote {
				r.out, r.err = imgbundler.BundleRemote(ctx, l, []byte(svg), false)
			} else {
				r.out, r.err = imgbundler.BundleLocal(ctx, l, filepath.Join(caseDir, "in.d2"), []byte(svg), false)
			}
		})
		done <- r
	}()
	var r res
	select {
	case r = <-done:
	case <-time.After(20 * time.Second):
		cancel()
		// unblock every gate so the goroutines can drain
		mu.Lock()
		for _, ch := range release {
			select {
			case <-ch:
			default:
				close(ch)
			}
		}
		mu.Unlock()
		r = <-done
		r.outcome = "deadlock"
	}

	// canonical form: every occurrence of this run's host / directory goes back to the placeholder
	canon := func(s string) string {
		return strings.ReplaceAll(strings.ReplaceAll(s, caseDir, "@DIR@"), e.host, hostTok)
	}
	inImgs := []map[string]any{}
	for _, im := range imgs {
		rh := strings.ReplaceAll(e.real(im.Href), "@DIR@", caseDir)
		inImgs = append(inImgs, map[string]any{
			"href": hl.Hx([]byte(im.Href)), "mime": hl.Hx([]byte(rawMime(im, rh, remote))), "data": hl.Hx(im.Data),
			"fail": im.Fail, "ct": hl.Hx([]byte(im.Mime)), "noct": im.NoCT,
		})
	}
	ord := []string{}
	for _, h := range order {
		ord = append(ord, hl.Hx([]byte(h)))
	}
	mu.Lock()
	st := []string{}
	for _, h := range started {
		st = append(st, hl.Hx([]byte(canon(h))))
	}
	mu.Unlock()
	sort.Strings(st)
	out := map[string]any{"svg": hl.Hx([]byte(canon(string(r.out)))), "outcome": r.outcome, "started": st, "unexpected": unexpected}
	if r.err != nil {
		msg := canon(r.err.Error())
		pfx := "failed to bundle local images: ["
		if remote {
			pfx = "failed to bundle remote images: ["
		}
		if strings.HasPrefix(msg, pfx) && strings.HasSuffix(msg, "]") {
			out["errs"] = hl.Hx([]byte(msg[len(pfx) : len(msg)-1]))
		} else {
			out["errRaw"] = msg
		}
	}
	return map[string]any{"k": "bundle", "sub": sub,
		"in":  map[string]any{"svg": hl.Hx([]byte(svgT)), "remote": remote, "imgs": inImgs, "order": ord},
		"out": out}
}

// ---------------------------------------------------------------------------------------------------------------

func perms(n int) [][]int {
	if n == 0 {
		return [][]int{{}}
	}
	var out [][]int
	for _, p := range perms(n - 1) {
		for pos := 0; pos <= len(p); pos++ {
			q := append(append(append([]int{}, p[:pos]...), n-1), p[pos:]...)
			out = append(out, q)
		}
	}
	return out
}

var pngBytes = []byte("\x89PNG\r\n\x1a\n\x00\x00\x00\rIHDR")
var exts = []string{".png", ".svg", ".jpg", ".gif", "", ".bin", ".xml"}
var cts = []string{"image/png", "image/svg+xml", "text/xml", "application/octet-stream", "text/xml; charset=utf-8",
	"image/jpeg", "text/html; charset=utf-8", "x/text/xmltext/xml"}

func genData(r *rand.Rand) []byte {
	switch r.Intn(5) {
	case 0:
		return append(append([]byte{}, pngBytes...), byte(r.Intn(256)), byte(r.Intn(256)))
	case 1:
		return []byte(fmt.Sprintf(`<svg xmlns="http://www.w3.org/2000/svg"><text>%d</text></svg>`, r.Intn(1000)))
	case 2:
		b := make([]byte, r.Intn(40))
		r.Read(b)
		return b
	case 3:
		return []byte{}
	default:
		return []byte(fmt.Sprintf("<?xml version=\"1.0\"?><svg><image href=\"inner%d.png\"/></svg>", r.Intn(9)))
	}
}

// mkHref returns the k-th image reference of a case: eligible in the given mode.
func mkHref(r *rand.Rand, k int, remote bool, fancy bool) string {
	ext := exts[r.Intn(len(exts))]
	if remote {
		sch := "http"
		if fancy && r.Intn(6) == 0 {
			sch = "HTTP"
		}
		q := ""
		if fancy && r.Intn(4) == 0 {
			q = fmt.Sprintf("?a=%d&amp;b=2", r.Intn(9))
		}
		return fmt.Sprintf("%s://%s/img/%d%s%s", sch, hostTok, k, ext, q)
	}
	if fancy {
		switch r.Intn(8) {
		case 0:
			return fmt.Sprintf("nested/dir/i%d%s", k, ext)
		case 1:
			return fmt.Sprintf("@DIR@/abs%d%s", k, ext)
		case 2:
			return fmt.Sprintf("x&amp;y%d%s", k, ext)
		case 3:
			return fmt.Sprintf("c:f%d%s", k, ext)
		case 4:
			return fmt.Sprintf("http%d%s", k, ext)
		case 5:
			return fmt.Sprintf("./i%d%s", k, ext)
		}
	}
	return fmt.Sprintf("i%d%s", k, ext)
}

var fillers = []string{"<g>", "</g>", "<rect x=\"1\" y=\"2\"/>", "text &lt; more", "\n", "<image href=\"\"/>",
	"<image  href=\"two-spaces.png\"/>", "<image xlink:href=\"x.png\"/>", "<text>a \"quoted\" word</text>",
	"<image href=\"data:image/png;base64,AAAA\" width=\"1\"/>", "<!-- image href=\"c.png\" -->", "<path d=\"M0 0\"/>", "é😀"}

// buildSVG lays the references out: every image at least once, some twice, plus ineligible references.
func buildSVG(r *rand.Rand, imgs []*img, others []string, rich bool) string {
	var parts []string
	for _, im := range imgs {
		parts = append(parts, fmt.Sprintf("<image href=\"%s\" width=\"%d\"/>", im.Href, r.Intn(90)))
		if r.Intn(3) == 0 {
			parts = append(parts, fmt.Sprintf("<image href=\"%s\"/>", im.Href))
		}
	}
	for _, o := range others {
		parts = append(parts, fmt.Sprintf("<image href=\"%s\"/>", o))
	}
	if rich {
		for i, k := 0, r.Intn(8); i < k; i++ {
			parts = append(parts, fillers[r.Intn(len(fillers))])
		}
	}
	r.Shuffle(len(parts), func(i, j int) { parts[i], parts[j] = parts[j], parts[i] })
	return "<svg xmlns=\"http://www.w3.org/2000/svg\">" + strings.Join(parts, "") + "</svg>"
}

// eligible hrefs in the order of their first occurrence in the text (the order in which workers are started)
func firstOccOrder(svg string, imgs []*img) []*img {
	type pi struct {
		p  int
		im *img
	}
	var ps []pi
	for _, im := range imgs {
		if !im.Elig {
			continue
		}
		p := strings.Index(svg, "<image href=\""+im.Href+"\"")
		if p >= 0 {
			ps = append(ps, pi{p, im})
		}
	}
	sort.Slice(ps, func(i, j int) bool { return ps[i].p < ps[j].p })
	out := make([]*img, len(ps))
	for i, x := range ps {
		out[i] = x.im
	}
	return out
}

// feasibleOrder draws a completion order that the 16-slot semaphore allows: the next worker to finish is one of
// the (finished + 16) first started ones.
func feasibleOrder(r *rand.Rand, startOrder []*img) []string {
	n := len(startOrder)
	doneSet := make([]bool, n)
	var out []string
	for len(out) < n {
		limit := len(out) + 16
		if limit > n {
			limit = n
		}
		var cand []int
		for i := 0; i < limit; i++ {
			if !doneSet[i] {
				cand = append(cand, i)
			}
		}
		k := cand[r.Intn(len(cand))]
		doneSet[k] = true
		out = append(out, startOrder[k].Href)
	}
	return out
}

func run(c *hl.Ctx) error {
	e := newEnv(c)
	defer e.srv.Close()
	defer os.RemoveAll(e.dir)
	if cs := c.ReplayCase(); cs != nil {
		in := cs["in"].(map[string]any)
		var imgs []*img
		for _, x := range in["imgs"].([]any) {
			m := x.(map[string]any)
			imgs = append(imgs, &img{Href: string(hl.Unhx(m["href"].(string))), Mime: string(hl.Unhx(m["ct"].(string))),
				Data: hl.Unhx(m["data"].(string)), Fail: m["fail"].(bool), NoCT: m["noct"].(bool)})
		}
		var order []string
		for _, x := range in["order"].([]any) {
			order = append(order, string(hl.Unhx(x.(string))))
		}
		sub, _ := cs["sub"].(string)
		c.Emit(e.observe(string(hl.Unhx(in["svg"].(string))), in["remote"].(bool), imgs, order, sub))
		return nil
	}
	r := c.Rand()

	// 1. exhaustive: n images, every completion order, every failing subset, both modes
	maxN := c.Pick(4, 5)
	for _, remote := range []bool{false, true} {
		for n := 1; n <= maxN; n++ {
			for fm := 0; fm < 1<<n; fm++ {
				var imgs []*img
				for k := 0; k < n; k++ {
					imgs = append(imgs, &img{Href: mkHref(r, k, remote, false), Mime: cts[r.Intn(4)], Data: genData(r),
						Fail: fm>>k&1 == 1, Elig: true})
				}
				// one reference of the other kind and one already bundled
				other := mkHref(r, 99, !remote, false)
				svg := buildSVG(r, imgs, []string{other}, false)
				start := firstOccOrder(svg, imgs)
				for _, p := range perms(n) {
					order := make([]string, n)
					for i, k := range p {
						order[i] = start[k].Href
					}
					c.Emit(e.observe(svg, remote, imgs, order, "exhaustive"))
					c.Count(fmt.Sprintf("exhaustive:n=%d", n))
				}
			}
		}
	}

	// 2. random: up to 40 images (more than the 16 slots), feasible random orders, richer text and hrefs
	m := c.Pick(260, 6000)
	for i := 0; i < m; i++ {
		remote := r.Intn(2) == 0
		n := 1 + r.Intn(8)
		if r.Intn(4) == 0 {
			n = 15 + r.Intn(26)
		}
		var imgs []*img
		seen := map[string]bool{}
		for k := 0; k < n; k++ {
			im := &img{Href: mkHref(r, k, remote, true), Mime: cts[r.Intn(len(cts))], Data: genData(r),
				Fail: r.Intn(4) == 0, Elig: true, NoCT: remote && r.Intn(5) == 0}
			if seen[im.Href] {
				continue
			}
			seen[im.Href] = true
			imgs = append(imgs, im)
		}
		var others []string
		for k := 0; k < r.Intn(3); k++ {
			others = append(others, mkHref(r, 100+k, !remote, true))
		}
		if remote && r.Intn(5) == 0 {
			// a scheme that merely starts with "http": eligible as remote, cannot be fetched
			imgs = append(imgs, &img{Href: "httpx://" + hostTok + "/img/zz.png", Fail: true, Elig: true})
		}
		svg := buildSVG(r, imgs, others, true)
		start := firstOccOrder(svg, imgs)
		order := feasibleOrder(r, start)
		c.Emit(e.observe(svg, remote, imgs, order, "random"))
		if n > 16 {
			c.Count("random:n>16")
		} else {
			c.Count("random:n<=16")
		}
	}

	// 3. the points the proof excludes
	//  (a) mimeClean: a server answering with a Content-Type that contains another image tag
	h := c.Pick(12, 200)
	for i := 0; i < h; i++ {
		a := &img{Href: "http://" + hostTok + "/img/a.png", Data: genData(r), Elig: true}
		b := &img{Href: "http://" + hostTok + "/img/b.png", Mime: "image/png", Data: genData(r), Elig: true}
		switch i % 3 {
		case 0:
			a.Mime = "x\"/><image href=\"" + b.Href + "\"/><y z=\""
		case 1:
			a.Mime = "image/png\"><script>1</script><i a=\""
		default:
			a.Mime = "a<b"
		}
		svg := "<svg><image href=\"" + a.Href + "\"/><image href=\"" + b.Href + "\"/></svg>"
		for _, ord := range [][]string{{a.Href, b.Href}, {b.Href, a.Href}} {
			c.Emit(e.observe(svg, true, []*img{a, b}, ord, "hostile-mime"))
			c.Count("excluded:hostile-mime")
		}
	}
	//  (b) svgClean: an href that contains `<image href=` (not XML) makes two patterns overlap
	for i := 0; i < c.Pick(6, 60); i++ {
		a := &img{Href: "<image href=", Data: genData(r), Elig: true}
		b := &img{Href: fmt.Sprintf("a%d.png", i), Data: genData(r), Elig: true}
		svg := "<svg><image href=\"" + a.Href + "\"" + b.Href + "\"/><image href=\"" + b.Href + "\"/></svg>"
		for _, ord := range [][]string{{a.Href, b.Href}, {b.Href, a.Href}} {
			c.Emit(e.observe(svg, false, []*img{a, b}, ord, "unclean-svg"))
			c.Count("excluded:unclean-svg")
		}
	}
	return nil
}
