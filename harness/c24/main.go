package main

// C24: constant-near placement.
//
//	unit  d2near.Layout (real, exported) on hand-built graphs: random main geometry (shapes, outside labels, route
//	      points), 0–8 near shapes at every constant position incl. containers with descendants → positions.
//	e2e   D2 text → d2lib.Compile (SetDimensions with the real ruler, LayoutNested) with either a seeded fake core
//	      layout or dagre → final graph: main shapes / labels / routes and the near shapes' final boxes.
//
// Both emit the same shape; the driver runs the Lean model of Layout on `in` and evaluates the property on `out`.

import (
	"fmt"
	"math/rand"
	"strings"

	"oss.terrastruct.com/d2/d2compiler"
	"oss.terrastruct.com/d2/d2graph"
	"oss.terrastruct.com/d2/d2layouts"
	"oss.terrastruct.com/d2/d2layouts/d2near"
	"oss.terrastruct.com/d2/d2lib"
	"oss.terrastruct.com/d2/d2target"
	"oss.terrastruct.com/d2/lib/geo"

	"d2v/harness/geoutil"
	"d2v/harness/hl"
)

func main() { hl.Main("C24", run) }

var keys = []string{"top-left", "top-center", "top-right", "center-left", "center-right", "bottom-left", "bottom-center", "bottom-right"}

type mainObj struct {
	B      [4]float64
	HL     bool
	LP     *string
	LW, LH int
}
type nearObj struct {
	Key    string
	W, H   float64
	LP     *string
	LW, LH int
	NSub   int
}
type unitIn struct {
	Main  []mainObj
	Pts   [][2]float64
	Nears []nearObj
}

func (u *unitIn) json() map[string]any {
	ms := []any{}
	for _, m := range u.Main {
		ms = append(ms, map[string]any{"b": []string{hl.Rat(m.B[0]), hl.Rat(m.B[1]), hl.Rat(m.B[2]), hl.Rat(m.B[3])},
			"hl": m.HL, "lp": geoutil.StrOrNil(m.LP), "lw": m.LW, "lh": m.LH})
	}
	ps := []any{}
	for _, p := range u.Pts {
		ps = append(ps, []string{hl.Rat(p[0]), hl.Rat(p[1])})
	}
	ns := []any{}
	for i, n := range u.Nears {
		ns = append(ns, map[string]any{"id": i, "key": n.Key, "w": hl.Rat(n.W), "h": hl.Rat(n.H),
			"lp": geoutil.StrOrNil(n.LP), "lw": n.LW, "lh": n.LH, "nsub": n.NSub})
	}
	return map[string]any{"main": ms, "pts": ps, "nears": ns}
}

func unitFromJSON(in map[string]any) *unitIn {
	u := &unitIn{}
	str := func(x any) *string {
		if x == nil {
			return nil
		}
		s := x.(string)
		return &s
	}
	for _, x := range in["main"].([]any) {
		m := x.(map[string]any)
		b := m["b"].([]any)
		var o mainObj
		for i := 0; i < 4; i++ {
			o.B[i] = geoutil.ParseRat(b[i].(string))
		}
		o.HL = m["hl"].(bool)
		o.LP = str(m["lp"])
		o.LW, o.LH = int(m["lw"].(float64)), int(m["lh"].(float64))
		u.Main = append(u.Main, o)
	}
	for _, x := range in["pts"].([]any) {
		p := x.([]any)
		u.Pts = append(u.Pts, [2]float64{geoutil.ParseRat(p[0].(string)), geoutil.ParseRat(p[1].(string))})
	}
	for _, x := range in["nears"].([]any) {
		m := x.(map[string]any)
		u.Nears = append(u.Nears, nearObj{Key: m["key"].(string), W: geoutil.ParseRat(m["w"].(string)), H: geoutil.ParseRat(m["h"].(string)),
			LP: str(m["lp"]), LW: int(m["lw"].(float64)), LH: int(m["lh"].(float64)), NSub: int(m["nsub"].(float64))})
	}
	return u
}

func genUnit(r *rand.Rand, c *hl.Ctx) *unitIn {
	u := &unitIn{}
	nm := 0
	switch r.Intn(10) {
	case 0:
		nm = 0
		c.Count("unit:main-empty")
	case 1:
		nm = 1
		c.Count("unit:main-1")
	default:
		nm = 2 + r.Intn(6)
		c.Count("unit:main-2..7")
	}
	for i := 0; i < nm; i++ {
		m := mainObj{B: [4]float64{geoutil.Q(r, -500, 1000), geoutil.Q(r, -500, 1000), geoutil.Q(r, 0, 400), geoutil.Q(r, 0, 300)},
			HL: r.Intn(5) != 0, LP: geoutil.RandLabelPos(r), LW: r.Intn(300), LH: r.Intn(80)}
		if m.LP != nil && strings.HasPrefix(*m.LP, "OUTSIDE") && m.HL {
			c.Count("unit:main-outside-label")
		}
		u.Main = append(u.Main, m)
	}
	if nm > 0 {
		for k := r.Intn(7); k > 0; k-- {
			u.Pts = append(u.Pts, [2]float64{geoutil.Q(r, -800, 1500), geoutil.Q(r, -800, 1500)})
		}
	}
	nn := r.Intn(9)
	if nn == 0 {
		c.Count("unit:nears-0")
	}
	for i := 0; i < nn; i++ {
		n := nearObj{Key: keys[r.Intn(8)], W: geoutil.Q(r, 0, 500), H: geoutil.Q(r, 0, 300), LP: geoutil.RandLabelPos(r), LW: r.Intn(300), LH: r.Intn(80)}
		if r.Intn(3) == 0 {
			n.NSub = 1 + r.Intn(3)
			c.Count("unit:near-container")
		}
		if n.LP != nil && !strings.Contains(*n.LP, "INSIDE") {
			c.Count("unit:near-label-adjust-candidate")
		}
		c.Count("unit:key:" + n.Key)
		u.Nears = append(u.Nears, n)
	}
	return u
}

// runUnit builds the graph (through the real compiler, geometry overwritten), extracts the near shapes exactly as
// LayoutNested does, calls the real d2near.Layout and reads back the near shapes' positions.
func runUnit(u *unitIn) map[string]any {
	var sb strings.Builder
	for i := range u.Main {
		fmt.Fprintf(&sb, "m%d\n", i)
	}
	if len(u.Pts) > 0 {
		sb.WriteString("m0 -> m0\n")
	}
	for i, n := range u.Nears {
		fmt.Fprintf(&sb, "n%d: {near: %s", i, n.Key)
		for s := 0; s < n.NSub; s++ {
			fmt.Fprintf(&sb, "; s%d", s)
		}
		sb.WriteString("}\n")
	}
	g, _, err := d2compiler.Compile("", strings.NewReader(sb.String()), nil)
	if err != nil {
		return map[string]any{"k": "unit", "in": u.json(), "out": map[string]any{"err": err.Error()}}
	}
	g.Root.Box = &geo.Box{}
	get := func(id string) *d2graph.Object {
		o, ok := g.Root.HasChild([]string{id})
		if !ok {
			panic("no object " + id)
		}
		return o
	}
	for i, m := range u.Main {
		o := get(fmt.Sprintf("m%d", i))
		o.Box = geo.NewBox(geo.NewPoint(m.B[0], m.B[1]), m.B[2], m.B[3])
		if !m.HL {
			o.Label.Value = ""
		}
		o.LabelPosition = m.LP
		o.LabelDimensions = d2target.TextDimensions{Width: m.LW, Height: m.LH}
	}
	if len(u.Pts) > 0 {
		var route []*geo.Point
		for _, p := range u.Pts {
			route = append(route, geo.NewPoint(p[0], p[1]))
		}
		g.Edges[0].Route = route
	}
	var nearObjs []*d2graph.Object
	for i, n := range u.Nears {
		o := get(fmt.Sprintf("n%d", i))
		o.Box = geo.NewBox(geo.NewPoint(0, 0), n.W, n.H)
		o.LabelPosition = n.LP
		o.LabelDimensions = d2target.TextDimensions{Width: n.LW, Height: n.LH}
		for s, ch := range o.ChildrenArray {
			// descendants sit inside the container, far from the main diagram's coordinates: if boundingBox did not
			// skip them the result would change
			ch.Box = geo.NewBox(geo.NewPoint(float64(10+s*7), float64(10+s*5)), 5, 5)
		}
		nearObjs = append(nearObjs, o)
	}
	var constantNears []*d2graph.Graph
	for _, o := range nearObjs {
		if !(o.Graph.RootLevel == 0 && o.IsConstantNear()) {
			panic("not a constant near: " + o.AbsID())
		}
		ng, _, _ := d2layouts.ExtractSubgraph(o, true)
		constantNears = append(constantNears, ng)
	}
	outc := hl.Guard(func() {
		if err := d2near.Layout(hl.QuietCtx(), g, constantNears); err != nil {
			panic(err)
		}
	})
	pos := []any{}
	subok := true
	for i, o := range nearObjs {
		pos = append(pos, []string{hl.Rat(o.TopLeft.X), hl.Rat(o.TopLeft.Y)})
		for s, ch := range o.ChildrenArray {
			// children keep their offset inside the container
			if ch.TopLeft.X-o.TopLeft.X != float64(10+s*7) || ch.TopLeft.Y-o.TopLeft.Y != float64(10+s*5) {
				subok = false
			}
		}
		_ = i
	}
	return map[string]any{"k": "unit", "in": u.json(), "out": map[string]any{"outcome": outc, "pos": pos, "children_moved_along": subok}}
}

// ---- e2e ------------------------------------------------------------------------------------------------------

var shapes = []string{"rectangle", "square", "circle", "oval", "diamond", "hexagon", "cloud", "cylinder", "queue", "package",
	"step", "page", "parallelogram", "document", "stored_data", "callout", "person", "text"}
var words = []string{"Title", "Legend", "a", "Explanation of terms", "x", "North America", "note", "A very long caption that is wider than most diagrams are", "ok", "Q3"}
var labelNears = []string{"outside-top-left", "outside-top-center", "outside-top-right", "outside-left-top", "outside-left-center", "outside-left-bottom",
	"outside-right-top", "outside-right-center", "outside-right-bottom", "outside-bottom-left", "outside-bottom-center", "outside-bottom-right",
	"top-left", "top-center", "center-center", "bottom-right", "border-top-center", "border-left-center", "border-right-center", "border-bottom-center"}

func genText(r *rand.Rand, c *hl.Ctx) string {
	var sb strings.Builder
	if r.Intn(8) == 0 {
		fmt.Fprintf(&sb, "direction: %s\n", []string{"right", "left", "up", "down"}[r.Intn(4)])
	}
	rootGrid := r.Intn(12) == 0
	if rootGrid {
		fmt.Fprintf(&sb, "grid-rows: %d\n", 1+r.Intn(3))
		c.Count("e2e:root-grid")
	}
	nm := r.Intn(7)
	if r.Intn(12) == 0 {
		nm = 0
		c.Count("e2e:main-empty")
	}
	attrs := func() string {
		var a []string
		if r.Intn(2) == 0 {
			a = append(a, "shape: "+shapes[r.Intn(len(shapes))])
		}
		if r.Intn(3) == 0 {
			a = append(a, fmt.Sprintf("label: %q", words[r.Intn(len(words))]))
		}
		if r.Intn(4) == 0 {
			a = append(a, "label.near: "+labelNears[r.Intn(len(labelNears))])
		}
		if r.Intn(6) == 0 {
			a = append(a, fmt.Sprintf("width: %d", 20+r.Intn(400)))
		}
		if r.Intn(6) == 0 {
			a = append(a, fmt.Sprintf("height: %d", 20+r.Intn(300)))
		}
		return strings.Join(a, "; ")
	}
	for i := 0; i < nm; i++ {
		if !rootGrid && r.Intn(4) == 0 {
			fmt.Fprintf(&sb, "m%d: {c0; c1: {%s}; c0 -> c1}\n", i, attrs())
			c.Count("e2e:main-container")
		} else {
			fmt.Fprintf(&sb, "m%d: {%s}\n", i, attrs())
		}
	}
	if !rootGrid {
		for k := r.Intn(nm + 1); k > 0 && nm > 0; k-- {
			fmt.Fprintf(&sb, "m%d -> m%d\n", r.Intn(nm), r.Intn(nm))
		}
	}
	nn := 1 + r.Intn(8)
	for i := 0; i < nn; i++ {
		k := keys[r.Intn(8)]
		c.Count("e2e:key:" + k)
		switch r.Intn(6) {
		case 0:
			fmt.Fprintf(&sb, "n%d: {near: %s; %s; p; q; p -> q}\n", i, k, attrs())
			c.Count("e2e:near-container")
		case 1:
			fmt.Fprintf(&sb, "n%d: {near: %s; grid-columns: 2; p; q; r}\n", i, k)
			c.Count("e2e:near-grid")
		default:
			fmt.Fprintf(&sb, "n%d: {near: %s; %s}\n", i, k, attrs())
		}
	}
	if !rootGrid && nm > 0 && r.Intn(5) == 0 {
		// an edge between the main diagram and a near shape (cross-graph edge, routed afterwards)
		fmt.Fprintf(&sb, "m0 -> n0\n")
		c.Count("e2e:edge-to-near")
	}
	return sb.String()
}

func runE2E(text, engine string, fakeSeed int64) map[string]any {
	in := map[string]any{"text": text, "engine": engine, "fake_seed": fakeSeed}
	var layout d2graph.LayoutGraph
	if engine == "dagre" {
		layout = geoutil.Dagre
	} else {
		layout = geoutil.FakeLayout(rand.New(rand.NewSource(fakeSeed)))
	}
	var g *d2graph.Graph
	var err error
	outc := hl.Guard(func() {
		_, g, err = d2lib.Compile(hl.QuietCtx(), text, &d2lib.CompileOptions{Ruler: geoutil.Ruler(),
			LayoutResolver: func(string) (d2graph.LayoutGraph, error) { return layout, nil }}, nil)
	})
	if outc != "ok" || err != nil {
		e := outc
		if err != nil {
			e = err.Error()
		}
		in["main"], in["pts"], in["nears"] = []any{}, []any{}, []any{}
		return map[string]any{"k": "e2e", "in": in, "out": map[string]any{"err": e}, "triv": true}
	}
	u := &unitIn{}
	pos := []any{}
	for _, o := range g.Objects {
		if o.NearKey != nil {
			if o.Parent == g.Root && o.IsConstantNear() {
				u.Nears = append(u.Nears, nearObj{Key: d2graph.Key(o.NearKey)[0], W: o.Width, H: o.Height, LP: o.LabelPosition,
					LW: o.LabelDimensions.Width, LH: o.LabelDimensions.Height, NSub: len(o.ChildrenArray)})
				pos = append(pos, []string{hl.Rat(o.TopLeft.X), hl.Rat(o.TopLeft.Y)})
			}
			continue
		}
		if o.OuterNearContainer() != nil {
			continue
		}
		u.Main = append(u.Main, mainObj{B: [4]float64{o.TopLeft.X, o.TopLeft.Y, o.Width, o.Height}, HL: o.Label.Value != "",
			LP: o.LabelPosition, LW: o.LabelDimensions.Width, LH: o.LabelDimensions.Height})
	}
	for _, e := range g.Edges {
		if e.Src.OuterNearContainer() != nil || e.Dst.OuterNearContainer() != nil {
			continue
		}
		for _, p := range e.Route {
			u.Pts = append(u.Pts, [2]float64{p.X, p.Y})
		}
	}
	j := u.json()
	for k, v := range j {
		in[k] = v
	}
	return map[string]any{"k": "e2e", "in": in, "out": map[string]any{"outcome": "ok", "pos": pos}}
}

func run(c *hl.Ctx) error {
	if cs := c.ReplayCase(); cs != nil {
		in := cs["in"].(map[string]any)
		if cs["k"] == "e2e" {
			c.Emit(runE2E(in["text"].(string), in["engine"].(string), int64(in["fake_seed"].(float64))))
		} else {
			c.Emit(runUnit(unitFromJSON(in)))
		}
		return nil
	}
	r := c.Rand()
	for i := c.Pick(3000, 60000); i > 0; i-- {
		c.Emit(runUnit(genUnit(r, c)))
	}
	for i := c.Pick(400, 6000); i > 0; i-- {
		c.Count("e2e:fake")
		c.Emit(runE2E(genText(r, c), "fake", r.Int63n(1<<40)))
	}
	for i := c.Pick(80, 1000); i > 0; i-- {
		c.Count("e2e:dagre")
		c.Emit(runE2E(genText(r, c), "dagre", 0))
	}
	return nil
}
