package edit

import (
	"fmt"
	"math/rand"
	"strings"

	"oss.terrastruct.com/d2/d2ast"
	"oss.terrastruct.com/d2/d2format"
)

// ---------------------------------------------------------------------------------------------
// diagram generator: every object and edge carries a unique label (L<n> / E<n>) so that elements
// can be matched across an edit independently of their IDs.

type gobj struct {
	name     string
	label    string
	children []*gobj
	attrs    []kv
	mapStyle bool // rendered as `name: label { ... }`, else dotted from the enclosing map
}

type gedge struct {
	scope    *gobj // nil = board root; otherwise a mapStyle object whose map holds the edge
	src, dst []string
	arrow    string
	label    string
	attrs    []kv
}

type Gen struct {
	R      *rand.Rand
	nLabel int
	// knobs
	MaxTop     int
	MaxDepth   int
	Boards     bool // generate nested boards
	Tricky     bool // names with spaces / upper case / quotes
	Count      func(string)
	MultiRef   bool
	ForceBoard bool
	Nested     bool // every declaration is a nested map (no dotted declaration keys)
	Extras     bool // add the structured source forms of extras()
	nM         int
	// what the enclosing board inherits (scenarios / steps): used to write local references to inherited elements
	inhObjs   []pathObj
	inhEdges  []*gedge
	lastObjs  []pathObj
	lastEdges []*gedge
}

func (g *Gen) count(s string) {
	if g.Count != nil {
		g.Count(s)
	}
}

var namePool = []string{"a", "b", "c", "d", "e", "x", "y", "z", "q"}
var trickyNames = []string{"x 2", "B", "a b", "n1", "c 3", "Y", "w-w", "x 3", "v1.2", "a:b", "q.r"}

func (g *Gen) name() string {
	if g.Tricky && g.R.Intn(6) == 0 {
		return trickyNames[g.R.Intn(len(trickyNames))]
	}
	return namePool[g.R.Intn(len(namePool))]
}

func (g *Gen) objLabel() string  { g.nLabel++; return fmt.Sprintf("L%d", g.nLabel) }
func (g *Gen) edgeLabel() string { g.nLabel++; return fmt.Sprintf("E%d", g.nLabel) }

var objAttrChoices = []kv{
	{"shape", "circle"}, {"shape", "hexagon"}, {"shape", "cloud"}, {"shape", "diamond"}, {"shape", "oval"},
	{"style.fill", "red"}, {"style.fill", "\"#aabbcc\""}, {"style.stroke", "blue"}, {"style.opacity", "0.4"},
	{"style.stroke-width", "3"}, {"style.bold", "true"}, {"style.font-size", "20"}, {"style.shadow", "true"},
	{"style.stroke-dash", "5"}, {"style.border-radius", "4"}, {"tooltip", "tip"}, {"link", "https://example.com"},
	{"width", "120"}, {"height", "90"}, {"style.font-color", "green"}, {"style.multiple", "true"},
}

var edgeAttrChoices = []kv{
	{"style.stroke", "red"}, {"style.opacity", "0.5"}, {"style.stroke-width", "4"}, {"style.animated", "true"},
	{"style.stroke-dash", "3"}, {"style.font-size", "18"}, {"source-arrowhead.shape", "diamond"},
	{"target-arrowhead.shape", "circle"}, {"style.bold", "false"}, {"style.font-color", "blue"},
}

func (g *Gen) attrs(choices []kv, max int) []kv {
	n := 0
	if g.R.Intn(3) == 0 {
		n = 1 + g.R.Intn(max)
	}
	seen := map[string]bool{}
	var out []kv
	for i := 0; i < n; i++ {
		c := choices[g.R.Intn(len(choices))]
		if seen[c[0]] {
			continue
		}
		seen[c[0]] = true
		out = append(out, c)
	}
	return out
}

func (g *Gen) objs(depth, max int) []*gobj {
	n := 1 + g.R.Intn(max)
	if depth > 0 {
		n = g.R.Intn(max + 1)
	}
	seen := map[string]bool{}
	var out []*gobj
	for i := 0; i < n; i++ {
		nm := g.name()
		if seen[strings.ToLower(nm)] {
			continue
		}
		seen[strings.ToLower(nm)] = true
		o := &gobj{name: nm, label: g.objLabel(), attrs: g.attrs(objAttrChoices, 2), mapStyle: g.Nested || g.R.Intn(2) == 0}
		if depth < g.MaxDepth && g.R.Intn(5) < 2 {
			o.children = g.objs(depth+1, 3)
		}
		out = append(out, o)
	}
	return out
}

// qname writes a name as one key segment in d2 syntax (quoted when it has to be: dots, colons, quotes …)
func qname(n string) string {
	return d2format.Format(&d2ast.KeyPath{Path: []*d2ast.StringBox{d2ast.MakeValueBox(d2ast.RawString(n, true)).StringBox()}})
}

type pathObj struct {
	path []string
	o    *gobj
}

func allPaths(objs []*gobj, pre []string, out *[]pathObj) {
	for _, o := range objs {
		p := append(append([]string{}, pre...), o.name)
		*out = append(*out, pathObj{p, o})
		allPaths(o.children, p, out)
	}
}

func hasPrefix(p, pre []string) bool {
	if len(pre) > len(p) {
		return false
	}
	for i := range pre {
		if !strings.EqualFold(p[i], pre[i]) {
			return false
		}
	}
	return true
}

func joinPath(p []string) string {
	q := make([]string, len(p))
	for i, s := range p {
		q[i] = qname(s)
	}
	return strings.Join(q, ".")
}

var arrows = []string{"->", "->", "->", "<-", "<->", "--"}

// body renders one board body (objects + edges + extra references) at the given indentation.
func (g *Gen) body(ind string) string {
	tops := g.objs(0, g.MaxTop)
	var all []pathObj
	allPaths(tops, nil, &all)
	// edges
	var edges []*gedge
	ne := g.R.Intn(len(all) + 2)
	if ne > 6 {
		ne = 6
	}
	for i := 0; i < ne && len(all) > 0; i++ {
		s := all[g.R.Intn(len(all))]
		d := all[g.R.Intn(len(all))]
		if i > 0 && g.R.Intn(3) == 0 { // parallel edge
			pe := edges[g.R.Intn(len(edges))]
			if pe.scope == nil {
				edges = append(edges, &gedge{src: pe.src, dst: pe.dst, arrow: pe.arrow, label: g.edgeLabel(), attrs: g.attrs(edgeAttrChoices, 2)})
				g.count("gen:parallel-edge")
				continue
			}
		}
		e := &gedge{src: s.path, dst: d.path, arrow: arrows[g.R.Intn(len(arrows))], label: g.edgeLabel(), attrs: g.attrs(edgeAttrChoices, 2)}
		// scope the edge inside a common map-style ancestor sometimes
		if g.R.Intn(3) == 0 {
			for _, c := range all {
				if c.o.mapStyle && len(c.path) < len(s.path) && len(c.path) < len(d.path) && hasPrefix(s.path, c.path) && hasPrefix(d.path, c.path) && g.mapReachable(tops, c.path) {
					e.scope = c.o
					e.src = s.path[len(c.path):]
					e.dst = d.path[len(c.path):]
					g.count("gen:scoped-edge")
				}
			}
		}
		edges = append(edges, e)
	}
	var sb strings.Builder
	g.renderObjs(&sb, ind, nil, tops, edges)
	for _, e := range edges {
		if e.scope == nil {
			g.renderEdge(&sb, ind, e)
		}
	}
	// indexed references to members of parallel groups: `(a -> b)[1].style.stroke: red`
	// (what Delete has to renumber when an earlier member goes away)
	grp := map[string]int{}
	for _, e := range edges {
		if e.scope != nil {
			continue
		}
		k := joinPath(e.src) + " " + e.arrow + " " + joinPath(e.dst)
		i := grp[k]
		grp[k]++
		if (i > 0 && g.R.Intn(2) == 0) || (g.Extras && g.R.Intn(4) == 0) {
			a := edgeAttrChoices[g.R.Intn(len(edgeAttrChoices))]
			if g.Extras && g.R.Intn(3) == 0 {
				// the arrowhead's label through its primary value, as its own indexed key
				a = []kv{{"source-arrowhead", "1"}, {"target-arrowhead", "many"}}[g.R.Intn(2)]
			}
			dup := false
			for _, x := range e.attrs {
				if x[0] == a[0] {
					dup = true
				}
			}
			if !dup {
				fmt.Fprintf(&sb, "%s(%s)[%d].%s: %s\n", ind, k, i, a[0], a[1])
				g.count("gen:indexed-edge-ref")
			}
		}
	}
	// extra references to existing objects (multiple references per object)
	if g.MultiRef && len(all) > 0 {
		for i := g.R.Intn(3); i > 0; i-- {
			c := all[g.R.Intn(len(all))]
			a := objAttrChoices[g.R.Intn(len(objAttrChoices))]
			dup := false
			for _, x := range c.o.attrs {
				if x[0] == a[0] {
					dup = true
				}
			}
			if dup {
				continue
			}
			c.o.attrs = append(c.o.attrs, a)
			if g.R.Intn(2) == 0 {
				fmt.Fprintf(&sb, "%s%s.%s: %s\n", ind, joinPath(c.path), a[0], a[1])
			} else {
				fmt.Fprintf(&sb, "%s%s: {%s: %s}\n", ind, joinPath(c.path), a[0], a[1])
			}
			g.count("gen:multi-ref")
		}
	}
	if g.Extras {
		g.extras(&sb, ind, all)
	}
	g.lastObjs, g.lastEdges = all, edges
	return sb.String()
}

func (g *Gen) mname() string { g.nM++; return fmt.Sprintf("m%d", g.nM) }

// extras adds, each with probability 1/2, source forms that the plain generator reaches rarely or never:
// labelled connection chains, objects that exist only through flat attribute keys (the same attribute twice),
// connections inside a container whose implicit endpoint clashes with an outer name, dotted declarations with a map
// that holds a connection, three-level nesting with a child/sibling name clash, names that need quotes, and — on
// boards that inherit — local references to inherited objects and connections.
// Objects named m<n> that are written without a label keep their default label (see OpGen.Relabel).
func (g *Gen) extras(sb *strings.Builder, ind string, all []pathObj) {
	yes := func() bool { return g.R.Intn(2) == 0 }
	if yes() { // chain with a label and/or a map; unique labels through indexed references
		n := 3 + g.R.Intn(2)
		var ns []string
		for i := 0; i < n; i++ {
			m := g.mname()
			ns = append(ns, m)
			fmt.Fprintf(sb, "%s%s: %s\n", ind, m, g.objLabel())
		}
		arrow := arrows[g.R.Intn(len(arrows))]
		tail := ""
		switch g.R.Intn(3) {
		case 0:
			tail = ": hi"
		case 1:
			tail = ": {\n" + ind + "  style.stroke: red\n" + ind + "}"
		default:
			tail = ": hi {\n" + ind + "  style.stroke-width: 4\n" + ind + "}"
		}
		fmt.Fprintf(sb, "%s%s%s\n", ind, strings.Join(ns, " "+arrow+" "), tail)
		for i := 0; i+1 < n; i++ {
			fmt.Fprintf(sb, "%s(%s %s %s)[0]: %s\n", ind, ns[i], arrow, ns[i+1], g.edgeLabel())
		}
		g.count("gen:x-chain")
	}
	if yes() { // a connection whose arrowhead label is set through the arrowhead's primary value, as its own indexed key
		a, b := g.mname(), g.mname()
		fmt.Fprintf(sb, "%s%s: %s\n%s%s: %s\n%s%s -> %s: %s\n", ind, a, g.objLabel(), ind, b, g.objLabel(), ind, a, b, g.edgeLabel())
		fmt.Fprintf(sb, "%s(%s -> %s)[0].%s: %s\n", ind, a, b, []string{"source-arrowhead", "target-arrowhead"}[g.R.Intn(2)], []string{"1", "many"}[g.R.Intn(2)])
		g.count("gen:x-arrowhead-primary-label")
	}
	if yes() { // an object that exists only through flat keys, the same attribute twice
		m := g.mname()
		pre := ""
		if len(all) > 0 && yes() {
			pre = joinPath(all[g.R.Intn(len(all))].path) + "."
		}
		a := [][3]string{{"style.fill", "red", "blue"}, {"width", "100", "140"}, {"style.opacity", "0.3", "0.8"}, {"tooltip", "t1", "t2"}}[g.R.Intn(4)]
		fmt.Fprintf(sb, "%s%s%s.%s: %s\n", ind, pre, m, a[0], a[1])
		if yes() {
			fmt.Fprintf(sb, "%s%s%s.style.bold: true\n", ind, pre, m)
		}
		fmt.Fprintf(sb, "%s%s%s.%s: %s\n", ind, pre, m, a[0], a[2])
		g.count("gen:x-flat-only-object")
	}
	if yes() { // connection inside a container; its implicit endpoint has the name of an outer object
		outer, cont, kid := g.mname(), g.mname(), g.mname()
		fmt.Fprintf(sb, "%s%s: %s\n", ind, outer, g.objLabel())
		fmt.Fprintf(sb, "%s%s: %s {\n%s  %s: %s\n%s  %s -> %s: %s\n", ind, cont, g.objLabel(), ind, kid, g.objLabel(), ind, kid, outer, g.edgeLabel())
		if yes() {
			fmt.Fprintf(sb, "%s  %s -> %s: %s\n", ind, outer, g.mname(), g.edgeLabel())
		}
		fmt.Fprintf(sb, "%s}\n", ind)
		g.count("gen:x-inner-edge-implicit-clash")
	}
	if yes() { // dotted declaration with a map that holds a connection (and attributes)
		p, c := g.mname(), g.mname()
		fmt.Fprintf(sb, "%s%s: %s\n", ind, p, g.objLabel())
		fmt.Fprintf(sb, "%s%s.%s: %s {\n%s  shape: circle\n%s  %s -> %s: %s\n%s}\n", ind, p, c, g.objLabel(), ind, ind, g.mname(), g.mname(), g.edgeLabel(), ind)
		g.count("gen:x-dotted-decl-with-map-edge")
	}
	if yes() { // three levels, a grandchild named like its parent's sibling
		p, q, a := g.mname(), g.name(), g.name()
		b := g.name()
		if strings.EqualFold(a, b) {
			b = b + "x"
		}
		fmt.Fprintf(sb, "%s%s: %s {\n%s  %s: %s {\n%s    %s: %s {\n%s      %s: %s\n%s    }\n%s    %s: %s\n%s  }\n%s}\n",
			ind, p, g.objLabel(), ind, qname(q), g.objLabel(), ind, qname(a), g.objLabel(), ind, qname(b), g.objLabel(), ind, ind, qname(b), g.objLabel(), ind, ind)
		if yes() {
			fmt.Fprintf(sb, "%s%s.%s.%s.%s -> %s: %s\n", ind, p, qname(q), qname(a), qname(b), p, g.edgeLabel())
		}
		g.count("gen:x-deep-clash")
	}
	if yes() { // a child whose name needs quotes and is taken in the parent scope
		nm := []string{"v1.2", "a:b", "x.y", "has#hash"}[g.R.Intn(4)]
		cont := g.mname()
		fmt.Fprintf(sb, "%s%s: %s\n", ind, qname(nm), g.objLabel())
		fmt.Fprintf(sb, "%s%s: %s {\n%s  %s: %s\n%s}\n", ind, cont, g.objLabel(), ind, qname(nm), g.objLabel(), ind)
		if yes() {
			fmt.Fprintf(sb, "%s%s.%s -> %s: %s\n", ind, cont, qname(nm), cont, g.edgeLabel())
		}
		g.count("gen:x-quoted-name-clash")
	}
	// local references to what the board inherits
	if len(g.inhObjs) > 0 {
		for k := 1 + g.R.Intn(2); k > 0; k-- {
			o := g.inhObjs[g.R.Intn(len(g.inhObjs))]
			a := objAttrChoices[5+g.R.Intn(len(objAttrChoices)-5)]
			fmt.Fprintf(sb, "%s%s.%s: %s\n", ind, joinPath(o.path), a[0], a[1])
			g.count("gen:x-local-ref-to-inherited-object")
		}
	}
	if len(g.inhEdges) > 0 && yes() {
		// index of the chosen root-scoped connection inside its parallel group
		grp := map[string]int{}
		type ref struct {
			k string
			i int
		}
		var refs []ref
		for _, e := range g.inhEdges {
			if e.scope != nil {
				continue
			}
			k := joinPath(e.src) + " " + e.arrow + " " + joinPath(e.dst)
			refs = append(refs, ref{k, grp[k]})
			grp[k]++
		}
		if len(refs) > 0 {
			r := refs[g.R.Intn(len(refs))]
			a := edgeAttrChoices[g.R.Intn(5)]
			fmt.Fprintf(sb, "%s(%s)[%d].%s: %s\n", ind, r.k, r.i, a[0], a[1])
			g.count("gen:x-local-ref-to-inherited-edge")
		}
	}
}

// mapReachable: the object at path is rendered as a real nested map (all ancestors mapStyle), so an edge can live in it.
func (g *Gen) mapReachable(tops []*gobj, path []string) bool {
	cur := tops
	for _, seg := range path {
		var f *gobj
		for _, o := range cur {
			if o.name == seg {
				f = o
			}
		}
		if f == nil || !f.mapStyle {
			return false
		}
		cur = f.children
	}
	return true
}

func (g *Gen) renderAttrs(sb *strings.Builder, ind, pre string, attrs []kv) {
	for _, a := range attrs {
		fmt.Fprintf(sb, "%s%s%s: %s\n", ind, pre, a[0], a[1])
	}
}

func (g *Gen) renderEdge(sb *strings.Builder, ind string, e *gedge) {
	if len(e.attrs) == 0 {
		fmt.Fprintf(sb, "%s%s %s %s: %s\n", ind, joinPath(e.src), e.arrow, joinPath(e.dst), e.label)
		return
	}
	fmt.Fprintf(sb, "%s%s %s %s: %s {\n", ind, joinPath(e.src), e.arrow, joinPath(e.dst), e.label)
	g.renderAttrs(sb, ind+"  ", "", e.attrs)
	fmt.Fprintf(sb, "%s}\n", ind)
}

// renderObjs renders objects; `pre` is the dotted prefix accumulated from flat-style ancestors.
func (g *Gen) renderObjs(sb *strings.Builder, ind string, pre []string, objs []*gobj, edges []*gedge) {
	for _, o := range objs {
		p := append(append([]string{}, pre...), o.name)
		if o.mapStyle {
			hasBody := len(o.attrs) > 0 || len(o.children) > 0
			for _, e := range edges {
				if e.scope == o {
					hasBody = true
				}
			}
			if !hasBody {
				fmt.Fprintf(sb, "%s%s: %s\n", ind, joinPath(p), o.label)
				continue
			}
			fmt.Fprintf(sb, "%s%s: %s {\n", ind, joinPath(p), o.label)
			g.renderAttrs(sb, ind+"  ", "", o.attrs)
			g.renderObjs(sb, ind+"  ", nil, o.children, edges)
			for _, e := range edges {
				if e.scope == o {
					g.renderEdge(sb, ind+"  ", e)
				}
			}
			fmt.Fprintf(sb, "%s}\n", ind)
		} else {
			fmt.Fprintf(sb, "%s%s: %s\n", ind, joinPath(p), o.label)
			g.renderAttrs(sb, ind, joinPath(p)+".", o.attrs)
			// children of a flat-style object are dotted from here; they may themselves open maps
			g.renderObjs(sb, ind, p, o.children, edges)
		}
	}
}

var boardNames = []string{"l1", "l2", "s1", "s2", "t1", "t2", "t3"}

// boards renders a `layers/scenarios/steps` section (depth ≤ 2 levels of nesting)
func (g *Gen) boards(ind string, depth int) string {
	var sb strings.Builder
	parentObjs, parentEdges := g.lastObjs, g.lastEdges
	kinds := []string{"layers", "scenarios", "steps"}
	g.R.Shuffle(len(kinds), func(i, j int) { kinds[i], kinds[j] = kinds[j], kinds[i] })
	nk := 1 + g.R.Intn(2)
	if depth > 0 {
		nk = 1
	}
	for _, k := range kinds[:nk] {
		fmt.Fprintf(&sb, "%s%s: {\n", ind, k)
		nb := 1 + g.R.Intn(2)
		if k == "steps" {
			nb = 1 + g.R.Intn(3)
		}
		for i := 0; i < nb; i++ {
			nm := fmt.Sprintf("%s%d", k[:1], i+1)
			if depth > 0 {
				nm = fmt.Sprintf("%s%d%d", k[:1], depth, i+1)
			}
			fmt.Fprintf(&sb, "%s  %s: {\n", ind, nm)
			saveO, saveE := g.inhObjs, g.inhEdges
			if k == "layers" {
				g.inhObjs, g.inhEdges = nil, nil
			} else {
				g.inhObjs, g.inhEdges = parentObjs, parentEdges
			}
			sb.WriteString(g.body(ind + "    "))
			g.inhObjs, g.inhEdges = saveO, saveE
			if depth < 1 && g.R.Intn(3) == 0 {
				sb.WriteString(g.boards(ind+"    ", depth+1))
				g.count("gen:nested-board-depth2")
			}
			fmt.Fprintf(&sb, "%s  }\n", ind)
		}
		fmt.Fprintf(&sb, "%s}\n", ind)
		g.count("gen:boards:" + k)
	}
	return sb.String()
}

// Diagram returns a d2 text.
func (g *Gen) Diagram() string {
	s := g.body("")
	if g.Boards && (g.ForceBoard || g.R.Intn(2) == 0) {
		s += g.boards("", 0)
	}
	return s
}
