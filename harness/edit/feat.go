package edit

import (
	"sort"
	"strings"

	"oss.terrastruct.com/d2/d2ast"
	"oss.terrastruct.com/d2/d2graph"
	"oss.terrastruct.com/d2/d2oracle"
	"oss.terrastruct.com/d2/d2parser"
)

// Features classifies the INPUT of a step (source form of the addressed board and of the addressed element).
// The oracle's behaviour depends on how the text is written (nested maps vs dotted keys, several references to one
// object, `_` parent references, connections declared inside containers …); known defects are recorded per class
// (known_findings match on these flags), so that the other classes stay strictly checked.
func Features(g *d2graph.Graph, op Op) []string {
	set := map[string]bool{}
	add := func(s string) { set[s] = true }
	bg := d2oracle.GetBoardGraph(g, op.Board)
	if bg == nil {
		return []string{"no-such-board"}
	}
	if len(op.Board) > 0 {
		add("board-nested")
	}
	nonReserved := func(kp *d2ast.KeyPath) int {
		n := 0
		for _, s := range kp.Path {
			if _, ok := d2ast.ReservedKeywords[strings.ToLower(s.Unbox().ScalarString())]; ok {
				break
			}
			n++
		}
		return n
	}
	hasUnderscore := func(kp *d2ast.KeyPath) bool {
		for _, s := range kp.Path {
			if s.Unbox().ScalarString() == "_" {
				return true
			}
		}
		return false
	}
	objFeat := func(o *d2graph.Object, pre string) {
		decl := 0
		plain := 0
		for _, r := range o.References {
			if r.Key == nil || r.MapKey == nil {
				continue
			}
			if hasUnderscore(r.Key) {
				add(pre + "underscore")
			}
			if r.InEdge() {
				add(pre + "in-edge")
				if len(r.Key.Path) > 1 {
					add(pre + "edge-dotted")
				}
				continue
			}
			if nonReserved(r.Key) >= 2 {
				add(pre + "flat")
			}
			if r.KeyPathIndex == nonReserved(r.Key)-1 {
				decl++
				if len(r.Key.Path) == nonReserved(r.Key) {
					plain++
				}
				if nonReserved(r.Key) >= 2 && len(r.Key.Path) == nonReserved(r.Key) {
					if r.MapKey.Primary.Unbox() != nil || (r.MapKey.Value.Unbox() != nil && r.MapKey.Value.Map == nil) {
						add(pre + "flat-primary")
					}
					if r.MapKey.Value.Map != nil {
						add(pre + "flat-map")
					}
				}
				if r.MapKey.Value.Map != nil {
					for _, n := range r.MapKey.Value.Map.Nodes {
						if n.MapKey != nil && len(n.MapKey.Edges) > 0 {
							add(pre + "map-has-edge")
						}
					}
				}
				if r.KeyPathIndex > 0 && len(r.Key.Path) > r.KeyPathIndex+1 {
					add(pre + "flat-attr")
				}
			}
		}
		if decl >= 2 {
			add(pre + "multiref")
		}
		if decl == 0 {
			add(pre + "implicit")
		}
		if decl > 0 && plain == 0 {
			add(pre + "attr-only") // exists only through keys that set one of its attributes (`x.style.fill: red`)
		}
		if o.ID != o.IDVal {
			add(pre + "quoted")
		}
	}
	edgeFeat := func(e *d2graph.Edge, pre string) {
		if len(e.References) > 1 {
			add(pre + "edge-multiref")
		}
		for _, r := range e.References {
			if r.ScopeObj != nil && r.ScopeObj != bg.Root {
				add(pre + "edge-in-map")
			}
			if r.MapKey != nil && len(r.MapKey.Edges) > 1 {
				add(pre + "chain")
			}
			if r.MapKey != nil && r.MapKey.Key != nil {
				add(pre + "edge-keyed")
			}
		}
		if e.SrcArrowhead != nil || e.DstArrowhead != nil {
			add(pre + "arrowhead")
		}
		if e.Src == e.Dst {
			add(pre + "self-loop")
		}
	}
	for _, o := range bg.Objects {
		objFeat(o, "t-")
	}
	for _, e := range bg.Edges {
		edgeFeat(e, "t-")
	}
	// the addressed element
	mk, err := d2parser.ParseMapKey(op.Key)
	if err != nil || mk == nil {
		add("key-unparsable")
		return sortedKeys(set)
	}
	inherited := func(o *d2graph.Object) bool {
		if len(op.Board) == 0 || bg.BaseAST == nil {
			return false
		}
		return len(d2oracle.GetWriteableRefs(o, bg.BaseAST)) != len(o.References)
	}
	localRef := func(o *d2graph.Object) bool {
		if len(op.Board) == 0 || bg.BaseAST == nil {
			return false
		}
		return len(d2oracle.GetWriteableRefs(o, bg.BaseAST)) > 0
	}
	if len(mk.Edges) == 0 && mk.Key != nil {
		ida := d2graph.Key(mk.Key)
		// strip a trailing reserved suffix (attribute operations address element.attr)
		for i, s := range ida {
			if _, ok := d2ast.ReservedKeywords[strings.ToLower(s)]; ok {
				ida = ida[:i]
				break
			}
		}
		if x, ok := bg.Root.HasChild(ida); ok && x != bg.Root {
			objFeat(x, "x-")
			if len(x.ChildrenArray) > 0 {
				add("x-children")
			}
			if inherited(x) {
				add("x-inherited")
				if localRef(x) {
					add("x-inherited-and-local")
				}
			}
			var rec func(o *d2graph.Object)
			rec = func(o *d2graph.Object) {
				for _, c := range o.ChildrenArray {
					objFeat(c, "sub-")
					if inherited(c) {
						add("sub-inherited")
					}
					rec(c)
				}
			}
			rec(x)
			for p := x.Parent; p != nil && p != bg.Root; p = p.Parent {
				objFeat(p, "anc-")
			}
			for _, e := range bg.Edges {
				if e.Src == x || e.Dst == x {
					add("x-edge-attached")
					edgeFeat(e, "xe-")
				}
				under := func(o *d2graph.Object) bool {
					for p := o; p != nil; p = p.Parent {
						if p == x {
							return true
						}
					}
					return false
				}
				if under(e.Src) || under(e.Dst) {
					edgeFeat(e, "sube-")
				}
			}
		} else {
			add("x-missing")
		}
		if x, ok := bg.Root.HasChild(ida); ok && x != bg.Root && op.Kind == "rename" && x.Parent != nil {
			atRoot, inParent := false, false
			if o, ok := bg.Root.HasChild([]string{op.NewName}); ok && o != x && o != bg.Root {
				atRoot = true
			}
			if o, ok := x.Parent.HasChild([]string{op.NewName}); ok && o != x && o != x.Parent {
				inParent = true
			}
			if inParent {
				add("newname-taken")
			}
			if strings.EqualFold(op.NewName, x.ID) && op.NewName != x.ID {
				add("rename-case-only")
			}
			if atRoot != inParent {
				add("newname-root-sibling-mismatch")
			}
		}
		if x, ok := bg.Root.HasChild(ida); ok && x != bg.Root && x.Parent != nil {
			for _, ch := range x.ChildrenArray {
				if o, ok := x.Parent.HasChild([]string{ch.ID}); ok && o != x && o != x.Parent {
					add("child-name-taken-in-parent")
					for _, ch2 := range x.ChildrenArray {
						if ch2 != ch && strings.EqualFold(baseName(ch2.IDVal), baseName(ch.IDVal)) {
							add("clashing-child-has-numbered-sibling")
						}
					}
				}
			}
		}
		if op.Kind == "move" {
			if mk2, err := d2parser.ParseMapKey(op.NewKey); err == nil && mk2.Key != nil {
				d := d2graph.Key(mk2.Key)
				if len(d) == len(ida) && strings.EqualFold(strings.Join(d[:len(d)-1], "."), strings.Join(ida[:len(ida)-1], ".")) {
					add("same-scope")
				} else {
					add("cross-scope")
				}
			}
			if strings.HasPrefix(strings.ToLower(op.NewKey), strings.ToLower(op.Key)+".") {
				add("dest-inside-x")
			}
			if mk2, err := d2parser.ParseMapKey(op.NewKey); err == nil && mk2.Key != nil {
				d := d2graph.Key(mk2.Key)
				if len(d) > 1 {
					if p, ok := bg.Root.HasChild(d[:len(d)-1]); ok {
						objFeat(p, "dest-")
						if inherited(p) {
							add("dest-inherited")
						}
					} else {
						add("dest-parent-missing")
					}
				}
				if _, ok := bg.Root.HasChild(d); ok {
					add("dest-taken")
				}
			}
		}
	} else if len(mk.Edges) == 1 {
		base := op.Key
		if i := strings.Index(base, "]"); i >= 0 {
			base = base[:i+1]
		}
		for _, e := range bg.Edges {
			if strings.EqualFold(e.AbsID(), base) {
				edgeFeat(e, "x-")
				if len(op.Board) > 0 && bg.BaseAST != nil {
					w := len(d2oracle.GetWriteableEdgeRefs(e, bg.BaseAST))
					if w != len(e.References) {
						add("x-inherited")
						if w > 0 {
							add("x-inherited-and-local")
						}
					}
				}
				objFeat(e.Src, "xsrc-")
				objFeat(e.Dst, "xdst-")
			}
		}
	}
	return sortedKeys(set)
}

// baseName strips a trailing " <n>" (the suffix generateUniqueKey appends)
func baseName(s string) string {
	i := strings.LastIndex(s, " ")
	if i <= 0 {
		return s
	}
	for _, c := range s[i+1:] {
		if c < '0' || c > '9' {
			return s
		}
	}
	if i+1 == len(s) {
		return s
	}
	return s[:i]
}

func sortedKeys(m map[string]bool) []string {
	out := make([]string, 0, len(m))
	for k := range m {
		out = append(out, k)
	}
	sort.Strings(out)
	return out
}
