package edit

import (
	"fmt"
	"math/rand"
	"strings"

	"d2v/harness/hl"

	"oss.terrastruct.com/d2/d2ast"
	"oss.terrastruct.com/d2/d2compiler"
	"oss.terrastruct.com/d2/d2format"
	"oss.terrastruct.com/d2/d2oracle"
	"oss.terrastruct.com/d2/d2parser"
	"oss.terrastruct.com/d2/lib/memfs"
)

// C36 "import update": d2oracle.UpdateImport(text, path, newPath) on texts that import one small file under several
// syntactic forms.  The file set holds the imported file under the old AND the new path with identical content, so a
// rename must compile to the same diagram; a removal (newPath = nil) must still compile.

const importedBody = "p: P {\n  shape: circle\n}\nq: Q\np -> q: PQ\nk: {\n  r: R\n}\n"

func importFS(text string) map[string]string {
	return map[string]string{
		"index.d2": text, "foo.d2": importedBody, "bar.d2": importedBody, "dir/foo.d2": importedBody,
		"lib/foo.d2": importedBody, "dir/sub/foo.d2": importedBody, "lib/sub/foo.d2": importedBody,
		// directory and file names that are not plain keys
		"v1.2/foo.d2": importedBody, "v1.2/sub/foo.d2": importedBody, "my dir/foo.d2": importedBody, "a#b/foo.d2": importedBody,
		"v1.2/x.y.d2": importedBody,
	}
}

func compileFS(text string) ([]CBoard, error) {
	mfs, err := memfs.New(importFS(text))
	if err != nil {
		return nil, err
	}
	g, _, err := d2compiler.Compile("index.d2", strings.NewReader(text), &d2compiler.CompileOptions{FS: mfs})
	if err != nil {
		return nil, err
	}
	return Boards(g), nil
}

func importPaths(m *d2ast.Map, out *[]string) {
	if m == nil {
		return
	}
	for _, n := range m.Nodes {
		if n.Import != nil {
			*out = append(*out, n.Import.PathWithPre())
		}
		if n.MapKey != nil {
			if n.MapKey.Value.Import != nil {
				*out = append(*out, n.MapKey.Value.Import.PathWithPre())
			}
			if p := n.MapKey.Primary.Unbox(); p != nil {
				if v, ok := p.(d2ast.Value); ok {
					if b := d2ast.MakeValueBox(v); b.Import != nil {
						*out = append(*out, b.Import.PathWithPre())
					}
				}
			}
			importPaths(n.MapKey.Value.Map, out)
		}
	}
}

func ImportStep(text, path string, newPath *string) map[string]any {
	in := map[string]any{"text": text, "path": path}
	if newPath != nil {
		in["newPath"] = *newPath
	}
	out := map[string]any{}
	rec := map[string]any{"k": "import", "in": in, "out": out}
	before, err := compileFS(text)
	if err != nil {
		out["outcome"] = "precompile-error"
		out["err"] = short(err.Error())
		rec["triv"] = true
		return rec
	}
	out["before"] = before
	var nt string
	var uerr error
	oc := hl.Guard(func() { nt, uerr = d2oracle.UpdateImport(text, path, newPath) })
	switch {
	case oc != "ok":
		out["outcome"] = "panic"
		out["err"] = short(oc)
		return rec
	case uerr != nil:
		out["outcome"] = "err"
		out["err"] = short(uerr.Error())
		return rec
	}
	out["outcome"] = "ok"
	out["newText"] = nt
	ast, perr := d2parser.Parse("", strings.NewReader(nt), nil)
	if perr != nil {
		out["reparseErr"] = short(perr.Error())
		return rec
	}
	out["fmtText"] = d2format.Format(ast)
	rem := []string{}
	importPaths(ast, &rem)
	out["imports"] = rem
	after, cerr := compileFS(nt)
	if cerr != nil {
		out["recompileErr"] = short(cerr.Error())
	} else {
		out["after"] = after
	}
	return rec
}

// importSyntax writes an import path the way a user has to: quoted unless it is a plain key (after ./ ../)
func importSyntax(p string) string {
	rest := strings.TrimLeft(p, "./")
	if strings.ContainsAny(rest, ".#: ;{}[]'\"") {
		return "\"" + p + "\""
	}
	return p
}

var importForms = []string{
	"x: @%s\n", "...@%s\n", "y: {\n  ...@%s\n}\n", "z: @%s.k\n", "w: Z {\n  ...@%s\n  style.fill: red\n}\n",
	"v: {\n  u: @%s\n}\n", "t: @%s\nt.style.opacity: 0.4\n", "layers: {\n  l1: {\n    ...@%s\n  }\n}\n",
}

func RunImports(c *hl.Ctx, r *rand.Rand, n int) {
	type ren struct {
		imp, path string
		newPath   *string
	}
	str := func(s string) *string { return &s }
	cases := []ren{
		{"foo", "foo", str("bar")}, {"foo", "foo", nil}, {"dir/foo", "dir/foo", str("lib/foo")}, {"dir/foo", "dir/", str("lib/")},
		{"dir/sub/foo", "dir/", str("lib/")}, {"dir/foo", "dir/foo", nil}, {"foo", "foo", str("dir/foo")}, {"foo", "nosuch", str("bar")},
		{"foo.d2", "foo.d2", str("bar.d2")}, {"./foo", "./foo", str("./bar")},
		{"dir/foo", "dir/foo", str("v1.2/foo")}, {"dir/foo", "dir/", str("v1.2/")}, {"dir/sub/foo", "dir/", str("v1.2/")},
		{"foo", "foo", str("my dir/foo")}, {"dir/foo", "dir/", str("a#b/")}, {"v1.2/foo", "v1.2/", str("lib/")},
		{"v1.2/foo", "v1.2/foo", str("bar")}, {"foo", "foo", str("v1.2/x.y")},
	}
	for i := 0; i < n; i++ {
		cs := cases[r.Intn(len(cases))]
		var sb strings.Builder
		if r.Intn(2) == 0 {
			sb.WriteString("a: A\n")
		}
		k := 1 + r.Intn(3)
		used := map[int]bool{}
		for j := 0; j < k; j++ {
			f := r.Intn(len(importForms))
			if used[f] {
				continue
			}
			used[f] = true
			imp := cs.imp
			if r.Intn(5) == 0 {
				imp = "bar" // an unrelated import that must survive
			}
			fmt.Fprintf(&sb, importForms[f], importSyntax(imp))
		}
		if r.Intn(2) == 0 {
			sb.WriteString("a -> b: AB\n")
		}
		c.Emit(ImportStep(sb.String(), cs.path, cs.newPath))
		if cs.newPath == nil {
			c.Count("import:remove")
		} else if strings.HasSuffix(cs.path, "/") {
			c.Count("import:rename-directory")
		} else {
			c.Count("import:rename-file")
		}
	}
}
