package edit

import (
	"crypto/sha1"
	"encoding/hex"
	"encoding/json"
	"fmt"
	"math/rand"
	"strings"

	"d2v/harness/hl"

	"oss.terrastruct.com/d2/d2format"
	"oss.terrastruct.com/d2/d2graph"
	"oss.terrastruct.com/d2/d2oracle"
	"oss.terrastruct.com/d2/d2parser"
)

// C36, chained histories: the way a client uses the API — the graph RETURNED by one edit is the input of the next
// (the per-step records of step.go recompile the text instead, which hides any state the oracle keeps between calls
// or inside the graphs it hands out).  Operations are drawn while the history runs and include the inverse of the
// previous one (create x / delete x, set v / set the old value back, rename / rename back, move / move back), so that
// histories return to texts they have produced before.  After every successful edit:
//   newText = Format(g.AST),  sig(after) = hash of the canonical boards of the returned graph,
//   sig(recompiled) = hash of the canonical boards of Compile(newText),  fmtText = Format(Parse(newText)).

type histReq struct {
	Text string `json:"text"`
	Seed int64  `json:"seed"`
	N    int    `json:"n"`
	Ops  []Op   `json:"ops"` // replay: exactly these operations
}

func boardsSig(bs []CBoard) string {
	b, _ := json.Marshal(bs)
	h := sha1.Sum(b)
	return hex.EncodeToString(h[:])
}

func applyOp(g *d2graph.Graph, op Op) (g2 *d2graph.Graph, ret string, err error) {
	switch op.Kind {
	case "create":
		return d2oracle.Create(g, op.Board, op.Key)
	case "set":
		g2, err = d2oracle.Set(g, op.Board, op.Key, op.Tag, op.Value)
	case "delete":
		g2, err = d2oracle.Delete(g, op.Board, op.Key)
	case "rename":
		return d2oracle.Rename(g, op.Board, op.Key, op.NewName)
	case "move":
		g2, err = d2oracle.Move(g, op.Board, op.Key, op.NewKey, op.Desc)
	case "reconnect":
		g2, err = d2oracle.ReconnectEdge(g, op.Board, op.Key, op.Src, op.Dst)
	default:
		err = fmt.Errorf("unknown op")
	}
	return g2, "", err
}

// inverse proposes the operation that undoes `op` (nil when there is no simple one)
func inverse(op Op, ret string, before CGraph) *Op {
	switch op.Kind {
	case "create":
		if ret == "" {
			return nil
		}
		return &Op{Kind: "delete", Board: op.Board, Key: ret}
	case "set":
		if op.Attr == "" || op.Tag != nil {
			return nil
		}
		var old *string
		for _, o := range before.Objs {
			if o.ID == op.Target {
				if op.Attr == "label" {
					v := o.Label
					old = &v
				}
				for _, a := range o.Attrs {
					if a[0] == op.Attr {
						v := a[1]
						old = &v
					}
				}
			}
		}
		for _, e := range before.Edges {
			if e.ID == op.Target {
				if op.Attr == "label" {
					v := e.Label
					old = &v
				}
				for _, a := range e.Attrs {
					if a[0] == op.Attr {
						v := a[1]
						old = &v
					}
				}
			}
		}
		if old == nil {
			if op.Attr == "label" || !strings.HasPrefix(op.Attr, "style.") {
				return nil
			}
			return &Op{Kind: "delete", Board: op.Board, Key: op.Key, Attr: op.Attr, Target: op.Target}
		}
		return &Op{Kind: "set", Board: op.Board, Key: op.Key, Attr: op.Attr, Target: op.Target, Value: old}
	case "rename":
		kp := keyPath(op.Key)
		if kp == nil || ret == "" {
			return nil
		}
		nk := append(append([]string{}, kp[:len(kp)-1]...), qname(ret))
		return &Op{Kind: "rename", Board: op.Board, Key: strings.Join(nk, "."), NewName: kp[len(kp)-1]}
	case "move":
		return &Op{Kind: "move", Board: op.Board, Key: op.NewKey, NewKey: op.Key, Desc: true}
	}
	return nil
}

func runHistory(rq histReq) map[string]any {
	in := map[string]any{"text": rq.Text}
	steps := []map[string]any{}
	rec := map[string]any{"k": "hist", "in": in, "out": map[string]any{"steps": &steps}}
	g, err := Compile(rq.Text)
	if err != nil {
		rec["triv"] = true
		in["ops"] = []Op{}
		return rec
	}
	r := rand.New(rand.NewSource(rq.Seed))
	og := &OpGen{R: r, W: weights["C36"]}
	var ops []Op
	var pendingInverse *Op
	n := rq.N
	if rq.Ops != nil {
		n = len(rq.Ops)
	}
	for i := 0; i < n; i++ {
		boards := Boards(g)
		var op Op
		switch {
		case rq.Ops != nil:
			op = rq.Ops[i]
		case pendingInverse != nil && r.Intn(3) != 0:
			op = *pendingInverse
		default:
			bi := 0
			if len(boards) > 1 && r.Intn(4) == 0 {
				bi = r.Intn(len(boards))
			}
			op = og.Next(boards, bi)
		}
		pendingInverse = nil
		if op.Board == nil {
			op.Board = []string{}
		}
		ops = append(ops, op)
		st := map[string]any{"i": i}
		steps = append(steps, st)
		var before CGraph
		for _, b := range boards {
			if samePath(b.Path, op.Board) {
				before = b.G
			}
		}
		var g2 *d2graph.Graph
		var ret string
		var operr error
		oc := hl.Guard(func() { g2, ret, operr = applyOp(g, op) })
		if oc != "ok" {
			st["outcome"] = "panic"
			st["err"] = short(oc)
			break
		}
		if operr != nil {
			st["outcome"] = "err"
			st["errclass"] = errClass(operr)
			// the client keeps the graph it had; the oracle may have touched its AST: start the rest from its text
			g3, cerr := Compile(d2format.Format(g.AST))
			if cerr != nil {
				break
			}
			g = g3
			continue
		}
		st["outcome"] = "ok"
		nt := d2format.Format(g2.AST)
		st["newText"] = nt
		st["afterSig"] = boardsSig(Boards(g2))
		if g3, cerr := Compile(nt); cerr != nil {
			st["recompileErr"] = short(cerr.Error())
		} else {
			st["recompiledSig"] = boardsSig(Boards(g3))
		}
		if ast, perr := d2parser.Parse("", strings.NewReader(nt), nil); perr != nil {
			st["reparseErr"] = short(perr.Error())
		} else {
			st["fmtText"] = d2format.Format(ast)
		}
		if inv := inverse(op, ret, before); inv != nil {
			pendingInverse = inv
		}
		g = g2 // chained: the returned graph is the next input
	}
	in["ops"] = ops
	return rec
}
