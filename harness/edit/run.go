package edit

import (
	"fmt"
	"os"

	"d2v/harness/hl"
)

// relevant: which operation kinds carry the predicates of which property
var relevant = map[string]map[string]bool{
	"C36": {"create": true, "set": true, "delete": true, "rename": true, "move": true, "reconnect": true},
	"C37": {"create": true, "set": true},
	"C38": {"delete": true},
	"C39": {"rename": true, "move": true},
	"C40": {"delete": true, "rename": true, "move": true, "reconnect": true},
	"C41": {"create": true, "set": true, "delete": true, "rename": true, "move": true, "reconnect": true},
}

var weights = map[string]map[string]int{
	"C36": {"create": 3, "set": 3, "delete": 2, "rename": 2, "move": 2, "reconnect": 2},
	"C37": {"create": 5, "set": 7, "delete": 1, "rename": 1, "move": 1, "reconnect": 1},
	"C38": {"create": 3, "set": 1, "delete": 7, "rename": 1, "move": 1, "reconnect": 1},
	"C39": {"create": 3, "set": 1, "delete": 1, "rename": 4, "move": 6, "reconnect": 1},
	"C40": {"create": 3, "set": 1, "delete": 3, "rename": 3, "move": 3, "reconnect": 3},
	"C41": {"create": 3, "set": 3, "delete": 3, "rename": 2, "move": 2, "reconnect": 2},
}

// slim drops what the driver of `prop` does not read, to keep the stream small
func slim(prop string, rec map[string]any) {
	out := rec["out"].(map[string]any)
	var kind string
	switch o := rec["in"].(map[string]any)["op"].(type) {
	case map[string]any:
		kind, _ = o["kind"].(string)
	case Op:
		kind = o.Kind
	}
	if !relevant[prop][kind] {
		rec["k"] = "evolve"
		rec["triv"] = true
		for _, k := range []string{"before", "after", "recompiled", "newText", "fmtText", "deltas"} {
			delete(out, k)
		}
		return
	}
	switch prop {
	case "C36":
		delete(out, "before")
		delete(out, "deltas")
		if out["outcome"] != "ok" {
			delete(out, "after")
			rec["triv"] = true
		}
	case "C37", "C38", "C39":
		delete(out, "deltas")
		delete(out, "recompiled")
		delete(out, "newText")
		delete(out, "fmtText")
	case "C40":
		delete(out, "recompiled")
		delete(out, "newText")
		delete(out, "fmtText")
	case "C41":
		delete(out, "deltas")
		delete(out, "recompiled")
		delete(out, "newText")
		delete(out, "fmtText")
	}
}

// Run is the main of every editing property: histories of 1–20 edits on generated diagrams.
func Run(prop string) func(c *hl.Ctx) error {
	return func(c *hl.Ctx) error {
		if IsWorker() {
			WorkerLoop()
			os.Exit(0)
		}
		pool := &Pool{Count: c.Count}
		defer pool.Close()
		if cs := c.ReplayCase(); cs != nil {
			in := cs["in"].(map[string]any)
			if cs["k"] == "hist" {
				var ops []Op
				for _, o := range in["ops"].([]any) {
					ops = append(ops, OpFromJSON(o.(map[string]any)))
				}
				if ops == nil {
					ops = []Op{}
				}
				rec, err := pool.History(histReq{Text: in["text"].(string), Ops: ops})
				if err != nil {
					return err
				}
				c.Emit(rec)
				return nil
			}
			if cs["k"] == "import" {
				var np *string
				if s, ok := in["newPath"].(string); ok {
					np = &s
				}
				c.Emit(ImportStep(in["text"].(string), in["path"].(string), np))
				return nil
			}
			op := OpFromJSON(in["op"].(map[string]any))
			rec, _, err := pool.Step(in["text"].(string), op)
			if err != nil {
				return err
			}
			rec["p"] = prop
			c.Emit(rec)
			return nil
		}
		r := c.Rand()
		if prop == "C36" {
			RunImports(c, r, c.Pick(300, 20000))
			// chained histories (the returned graph is the next input; operations and their inverses)
			for h := 0; h < c.Pick(180, 3000); h++ {
				gen := &Gen{R: r, MaxTop: 3, MaxDepth: 2, Boards: h%4 == 0, Tricky: h%4 == 3, MultiRef: h%2 == 1, Extras: h%3 == 0, Count: c.Count}
				text := gen.Diagram()
				rec, err := pool.History(histReq{Text: text, Seed: r.Int63(), N: 3 + r.Intn(12)})
				if err != nil {
					return err
				}
				c.Emit(rec)
				c.Count("hist:chained")
			}
		}
		nh := c.Pick(map[string]int{"C36": 200, "C37": 300, "C38": 330, "C39": 330, "C40": 320, "C41": 190}[prop],
			map[string]int{"C36": 1500, "C37": 2500, "C38": 2500, "C39": 2500, "C40": 2500, "C41": 1200}[prop])
		for h := 0; h < nh; h++ {
			gen := &Gen{R: r, MaxTop: 4, MaxDepth: 2, Boards: prop == "C41" || h%3 == 0, ForceBoard: prop == "C41",
				Tricky: h%4 == 3, MultiRef: h%2 == 1 && os.Getenv("D2V_EDIT_NESTED") == "", Count: c.Count, Nested: os.Getenv("D2V_EDIT_NESTED") != "", Extras: h%2 == 0}
			og := &OpGen{R: r, W: weights[prop], Tricky: h%4 == 3, Count: c.Count}
			text := gen.Diagram()
			g, err := Compile(text)
			if err != nil {
				c.Count("gen:invalid-diagram")
				continue
			}
			boards := Boards(g)
			c.Count(fmt.Sprintf("hist:boards=%d", min(len(boards), 6)))
			n := 1 + r.Intn(20)
			c.Count(fmt.Sprintf("hist:len=%d-%d", (n-1)/5*5+1, (n-1)/5*5+5))
			var pending []Op
			for i := 0; i < n+len(pending) && i < 40; i++ {
				bi := 0
				if len(boards) > 1 && (prop == "C41" || r.Intn(3) == 0) {
					bi = r.Intn(len(boards))
					if prop == "C41" && r.Intn(4) != 0 {
						bi = 1 + r.Intn(len(boards)-1)
					}
				}
				var op Op
				if len(pending) > 0 {
					op = pending[0]
					pending = pending[1:]
					c.Count("op:relabel")
				} else {
					op = og.Next(boards, bi)
				}
				rec, newText, err := pool.Step(text, op)
				if err != nil {
					return err
				}
				rec["p"] = prop
				out := rec["out"].(map[string]any)
				oc, _ := out["outcome"].(string)
				c.Count("outcome:" + op.Kind + ":" + oc)
				if oc == "err" {
					c.Count("refused:" + out["errclass"].(string))
				}
				if len(op.Board) > 0 {
					c.Count("op:on-nested-board")
				}
				slim(prop, rec)
				c.Emit(rec)
				if oc != "ok" {
					if oc == "panic" || oc == "fatal" {
						break
					}
					continue
				}
				text = newText
				boards = out2boards(text)
				if boards == nil {
					break
				}
				// give new elements unique labels (as further edits of the history)
				if len(pending) == 0 && (op.Kind == "create" || op.Kind == "set" || op.Kind == "move") {
					for _, b := range boards {
						if samePath(b.Path, op.Board) {
							bi2 := indexOfBoard(boards, op.Board)
							if bi2 >= 0 {
								pending = og.Relabel(boards, bi2)
							}
							break
						}
					}
				}
			}
		}
		return nil
	}
}

func out2boards(text string) []CBoard {
	g, err := Compile(text)
	if err != nil {
		return nil
	}
	return Boards(g)
}

func samePath(a, b []string) bool {
	if len(a) != len(b) {
		return false
	}
	for i := range a {
		if a[i] != b[i] {
			return false
		}
	}
	return true
}

func indexOfBoard(bs []CBoard, p []string) int {
	for i, b := range bs {
		if samePath(b.Path, p) {
			return i
		}
	}
	return -1
}
