package edit

import (
	"bufio"
	"encoding/json"
	"fmt"
	"io"
	"os"
	"os/exec"
	"runtime/debug"
	"strings"
	"time"
)

// The oracle can die in ways `recover` cannot catch (unbounded recursion → "fatal error: stack overflow") or not
// return at all.  Every step therefore runs in a worker subprocess (this same binary with D2V_EDIT_WORKER=1): one
// request line in, one record line out.  When the worker dies or exceeds the per-step deadline the step is retried
// without the ID-delta prediction to find out which of the two calls is fatal, and the outcome "fatal" is recorded.

type workerReq struct {
	Text       string   `json:"text"`
	Op         Op       `json:"op"`
	SkipDeltas bool     `json:"skipDeltas"`
	Hist       *histReq `json:"hist,omitempty"`
}

func IsWorker() bool { return os.Getenv("D2V_EDIT_WORKER") == "1" }

func WorkerLoop() {
	debug.SetMaxStack(8 << 20)
	in := bufio.NewReaderSize(os.Stdin, 1<<20)
	out := bufio.NewWriterSize(os.Stdout, 1<<20)
	for {
		line, err := in.ReadBytes('\n')
		if len(line) > 0 {
			var rq workerReq
			if e := json.Unmarshal(line, &rq); e != nil {
				fmt.Fprintln(os.Stderr, "worker: bad request:", e)
				os.Exit(4)
			}
			var rec map[string]any
			if rq.Hist != nil {
				rec = runHistory(*rq.Hist)
			} else {
				var newText string
				rec, newText = step(rq.Text, rq.Op, rq.SkipDeltas)
				rec["newTextOut"] = newText
			}
			b, e := json.Marshal(rec)
			if e != nil {
				fmt.Fprintln(os.Stderr, "worker: marshal:", e)
				os.Exit(4)
			}
			out.Write(b)
			out.WriteByte('\n')
			out.Flush()
		}
		if err != nil {
			return
		}
	}
}

type worker struct {
	cmd    *exec.Cmd
	stdin  io.WriteCloser
	lines  chan []byte
	stderr *strings.Builder
}

func startWorker() (*worker, error) {
	exe, err := os.Executable()
	if err != nil {
		return nil, err
	}
	cmd := exec.Command(exe)
	cmd.Env = append(os.Environ(), "D2V_EDIT_WORKER=1", "GOTRACEBACK=none")
	stdin, err := cmd.StdinPipe()
	if err != nil {
		return nil, err
	}
	stdout, err := cmd.StdoutPipe()
	if err != nil {
		return nil, err
	}
	w := &worker{cmd: cmd, stdin: stdin, lines: make(chan []byte, 1), stderr: &strings.Builder{}}
	cmd.Stderr = &capWriter{sb: w.stderr}
	if err := cmd.Start(); err != nil {
		return nil, err
	}
	go func() {
		r := bufio.NewReaderSize(stdout, 1<<20)
		for {
			line, err := r.ReadBytes('\n')
			if len(line) > 0 && line[len(line)-1] == '\n' {
				w.lines <- line
			}
			if err != nil {
				close(w.lines)
				return
			}
		}
	}()
	return w, nil
}

// capWriter keeps the first 4 KiB of the worker's stderr (the "fatal error: …" headline)
type capWriter struct{ sb *strings.Builder }

func (c *capWriter) Write(p []byte) (int, error) {
	if c.sb.Len() < 4096 {
		n := 4096 - c.sb.Len()
		if n > len(p) {
			n = len(p)
		}
		c.sb.Write(p[:n])
	}
	return len(p), nil
}

func (w *worker) kill() {
	w.stdin.Close()
	w.cmd.Process.Kill()
	w.cmd.Wait()
}

// Pool runs steps in a restartable worker.
type Pool struct {
	w       *worker
	Timeout time.Duration
	Count   func(string)
}

func (p *Pool) Close() {
	if p.w != nil {
		p.w.kill()
		p.w = nil
	}
}

// try sends one request; died=true when the worker crashed or timed out (it is then discarded)
func (p *Pool) try(rq workerReq) (rec map[string]any, died bool, why string, err error) {
	rec, died, why, err = p.tryOnce(rq, 0)
	if died && strings.HasPrefix(why, "timeout") {
		// a loaded machine can starve the worker: only a second, much longer wait makes it a hang
		if p.Count != nil {
			p.Count("worker-timeout-retried")
		}
		rec, died, why, err = p.tryOnce(rq, 90*time.Second)
	}
	return
}

func (p *Pool) tryOnce(rq workerReq, to time.Duration) (rec map[string]any, died bool, why string, err error) {
	if p.w == nil {
		p.w, err = startWorker()
		if err != nil {
			return nil, false, "", err
		}
	}
	b, _ := json.Marshal(rq)
	b = append(b, '\n')
	if _, e := p.w.stdin.Write(b); e != nil {
		why = "worker gone: " + headline(p.w.stderr.String())
		p.Close()
		return nil, true, why, nil
	}
	if to == 0 {
		to = p.Timeout
	}
	if to == 0 {
		to = 15 * time.Second
	}
	select {
	case line, ok := <-p.w.lines:
		if !ok {
			p.w.cmd.Wait()
			why = headline(p.w.stderr.String())
			p.Close()
			return nil, true, why, nil
		}
		var m map[string]any
		if e := json.Unmarshal(line, &m); e != nil {
			return nil, false, "", e
		}
		return m, false, "", nil
	case <-time.After(to):
		p.Close()
		return nil, true, "timeout: no result within " + to.String(), nil
	}
}

func headline(stderr string) string {
	for _, pre := range []string{"fatal error:", "panic:", "runtime:"} {
		for _, l := range strings.Split(stderr, "\n") {
			if strings.HasPrefix(l, pre) {
				return l
			}
		}
	}
	if len(stderr) > 200 {
		stderr = stderr[:200]
	}
	return "worker died: " + stderr
}

// Step runs one step in the worker; fatal outcomes are recorded, never propagated.
func (p *Pool) Step(text string, op Op) (rec map[string]any, newText string, err error) {
	rec, died, why, err := p.try(workerReq{Text: text, Op: op})
	if err != nil {
		return nil, "", err
	}
	if died {
		if p.Count != nil {
			p.Count("worker-died:" + why)
		}
		// which call was it?  retry without the prediction
		rec2, died2, why2, err := p.try(workerReq{Text: text, Op: op, SkipDeltas: true})
		if err != nil {
			return nil, "", err
		}
		if died2 {
			in := map[string]any{"text": text, "op": op}
			// classify the input here (no oracle edit is involved in that)
			if g, err := Compile(text); err == nil {
				in["feat"] = Features(g, op)
			}
			if kp := keyPath(op.Key); kp != nil {
				in["keyPath"] = kp
			}
			if kp := keyPath(op.NewKey); kp != nil && op.Kind == "move" {
				in["newKeyPath"] = kp
			}
			rec = map[string]any{"k": "step", "in": in, "out": map[string]any{"outcome": "fatal", "err": why2}}
			return rec, "", nil
		}
		rec = rec2
		rec["out"].(map[string]any)["deltas"] = map[string]any{"outcome": "fatal", "err": why}
	}
	newText, _ = rec["newTextOut"].(string)
	delete(rec, "newTextOut")
	return rec, newText, nil
}

// History runs one chained history in the worker; a worker death is recorded as the outcome of the whole history.
func (p *Pool) History(rq histReq) (map[string]any, error) {
	rec, died, why, err := p.try(workerReq{Hist: &rq})
	if err != nil {
		return nil, err
	}
	if died {
		return map[string]any{"k": "hist", "in": map[string]any{"text": rq.Text, "ops": rq.Ops, "seed": rq.Seed, "n": rq.N},
			"out": map[string]any{"fatal": why, "steps": []any{}}}, nil
	}
	return rec, nil
}
