package edit

import (
	"fmt"
	"math/rand"
	"regexp"
	"sort"
	"strings"

	"d2v/harness/hl"

	"oss.terrastruct.com/d2/d2compiler"
	"oss.terrastruct.com/d2/d2format"
	"oss.terrastruct.com/d2/d2graph"
	"oss.terrastruct.com/d2/d2oracle"
	"oss.terrastruct.com/d2/d2parser"
)

// Op is one oracle call. Kind ∈ create|set|delete|rename|move|reconnect.
type Op struct {
	Kind  string   `json:"kind"`
	Board []string `json:"board"`
	Key   string   `json:"key"`
	// set
	Tag    *string `json:"tag,omitempty"`
	Value  *string `json:"value,omitempty"`
	Attr   string  `json:"attr,omitempty"`   // set/delete: the attribute addressed ("" = the element itself; "label")
	Target string  `json:"target,omitempty"` // set/delete of an attribute: the element's absolute id
	// rename / move
	NewName string `json:"newName,omitempty"`
	NewKey  string `json:"newKey,omitempty"`
	Desc    bool   `json:"desc,omitempty"`
	// reconnect
	Src *string `json:"src,omitempty"`
	Dst *string `json:"dst,omitempty"`
}

func OpFromJSON(m map[string]any) Op {
	var o Op
	o.Board = []string{}
	o.Kind, _ = m["kind"].(string)
	if b, ok := m["board"].([]any); ok {
		for _, x := range b {
			o.Board = append(o.Board, x.(string))
		}
	}
	o.Key, _ = m["key"].(string)
	sp := func(k string) *string {
		if s, ok := m[k].(string); ok {
			return &s
		}
		return nil
	}
	o.Tag, o.Value, o.Src, o.Dst = sp("tag"), sp("value"), sp("src"), sp("dst")
	o.Attr, _ = m["attr"].(string)
	o.Target, _ = m["target"].(string)
	o.NewName, _ = m["newName"].(string)
	o.NewKey, _ = m["newKey"].(string)
	o.Desc, _ = m["desc"].(bool)
	return o
}

func Compile(text string) (*d2graph.Graph, error) {
	g, _, err := d2compiler.Compile("", strings.NewReader(text), nil)
	return g, err
}

var reErrClass = []struct {
	re  *regexp.Regexp
	cls string
}{
	{regexp.MustCompile(`outside of given scope`), "outside-scope"},
	{regexp.MustCompile(`failed to recompile`), "recompile-failed"},
	{regexp.MustCompile(`not found|does not exist`), "not-found"},
	{regexp.MustCompile(`cannot be modified through this file`), "not-writeable"},
	{regexp.MustCompile(`already exists`), "exists"},
	{regexp.MustCompile(`reserved`), "reserved"},
	{regexp.MustCompile(`isn't supported|can only|must be|must refer|cannot`), "unsupported"},
}

func errClass(err error) string {
	s := err.Error()
	for _, c := range reErrClass {
		if c.re.MatchString(s) {
			return c.cls
		}
	}
	return "other"
}

func short(s string) string {
	if len(s) > 300 {
		return s[:300]
	}
	return s
}

func sortedDeltas(m map[string]string) []kv {
	out := []kv{}
	for k, v := range m {
		out = append(out, kv{k, v})
	}
	sort.Slice(out, func(i, j int) bool { return out[i][0] < out[j][0] })
	return out
}

// Step runs one real oracle call on a freshly compiled `text` and returns the full record for the driver
// plus the new text ("" when the edit did not succeed).
func Step(text string, op Op) (rec map[string]any, newText string) { return step(text, op, false) }

func step(text string, op Op, skipDeltas bool) (rec map[string]any, newText string) {
	in := map[string]any{"text": text, "op": op}
	out := map[string]any{}
	rec = map[string]any{"k": "step", "in": in, "out": out}
	g, err := Compile(text)
	if err != nil {
		out["outcome"] = "precompile-error"
		out["err"] = short(err.Error())
		rec["triv"] = true
		return rec, ""
	}
	before := Boards(g)
	out["before"] = before
	// object keys parsed by the real key parser (raw ID values), so that the driver never splits a key itself
	if kp := keyPath(op.Key); kp != nil {
		in["keyPath"] = kp
	}
	if op.Kind == "move" {
		if kp := keyPath(op.NewKey); kp != nil {
			in["newKeyPath"] = kp
		}
	}
	if fo := hl.Guard(func() { in["feat"] = Features(g, op) }); fo != "ok" {
		in["feat"] = []string{"feature-extraction-panicked"}
	}

	// predicted ID deltas (computed before the edit; the functions must leave g unchanged)
	var dm map[string]string
	var derr error
	hasDeltas := true
	dout := "ok"
	if skipDeltas {
		hasDeltas = false
	} else {
		dout = hl.Guard(func() {
			switch op.Kind {
			case "delete":
				dm, derr = d2oracle.DeleteIDDeltas(g, op.Board, op.Key)
			case "rename":
				dm, derr = d2oracle.RenameIDDeltas(g, op.Board, op.Key, op.NewName)
			case "move":
				bg := d2oracle.GetBoardGraph(g, op.Board)
				if bg == nil {
					derr = fmt.Errorf("board not found")
				} else {
					dm, derr = d2oracle.MoveIDDeltas(bg, op.Key, op.NewKey, op.Desc)
				}
			case "reconnect":
				dm, derr = d2oracle.ReconnectEdgeIDDeltas(g, op.Board, op.Key, op.Src, op.Dst)
			default:
				hasDeltas = false
			}
		})
	}
	if hasDeltas {
		d := map[string]any{"outcome": dout}
		if dout != "ok" {
			d["outcome"] = "panic"
			d["err"] = short(dout)
			// the graph may have been left half-renamed: start over from the text
			g, _ = Compile(text)
		} else if derr != nil {
			d["outcome"] = "err"
			d["err"] = short(derr.Error())
		} else {
			d["map"] = sortedDeltas(dm)
		}
		out["deltas"] = d
		if !sameBoards(Boards(g), before) {
			d["mutated"] = true
			g, _ = Compile(text)
		}
	}

	var g2 *d2graph.Graph
	var ret string
	var operr error
	oc := hl.Guard(func() {
		switch op.Kind {
		case "create":
			g2, ret, operr = d2oracle.Create(g, op.Board, op.Key)
		case "set":
			g2, operr = d2oracle.Set(g, op.Board, op.Key, op.Tag, op.Value)
		case "delete":
			g2, operr = d2oracle.Delete(g, op.Board, op.Key)
		case "rename":
			g2, ret, operr = d2oracle.Rename(g, op.Board, op.Key, op.NewName)
		case "move":
			g2, operr = d2oracle.Move(g, op.Board, op.Key, op.NewKey, op.Desc)
		case "reconnect":
			g2, operr = d2oracle.ReconnectEdge(g, op.Board, op.Key, op.Src, op.Dst)
		default:
			operr = fmt.Errorf("unknown op")
		}
	})
	switch {
	case oc != "ok":
		out["outcome"] = "panic"
		out["err"] = short(oc)
		return rec, ""
	case operr != nil:
		out["outcome"] = "err"
		out["errclass"] = errClass(operr)
		out["err"] = short(operr.Error())
		// what the caller is left with after a refusal: the graph it passed in, whose AST the oracle may have touched
		po := hl.Guard(func() {
			g3, err := Compile(d2format.Format(g.AST))
			if err != nil {
				out["refusedCompileErr"] = short(err.Error())
			} else {
				out["after"] = Boards(g3)
			}
		})
		if po != "ok" {
			out["refusedCompileErr"] = short(po)
		}
		return rec, ""
	}
	out["outcome"] = "ok"
	out["ret"] = ret
	after := Boards(g2)
	out["after"] = after
	newText = d2format.Format(g2.AST)
	out["newText"] = newText
	// C36: the text compiles to the returned diagram, and the formatter leaves it unchanged
	g3, err := Compile(newText)
	if err != nil {
		out["recompileErr"] = short(err.Error())
	} else {
		out["recompiled"] = Boards(g3)
	}
	ast, perr := d2parser.Parse("", strings.NewReader(newText), nil)
	if perr != nil {
		out["reparseErr"] = short(perr.Error())
	} else {
		out["fmtText"] = d2format.Format(ast)
	}
	return rec, newText
}

// keyPath parses an object key ("a.\"b.c\".d") into its raw segments; nil for edge keys and unparsable keys
func keyPath(key string) []string {
	var out []string
	hl.Guard(func() {
		mk, err := d2parser.ParseMapKey(key)
		if err != nil || mk == nil || len(mk.Edges) > 0 || mk.Key == nil {
			return
		}
		out = d2graph.Key(mk.Key)
	})
	return out
}

func sameBoards(a, b []CBoard) bool { return fmt.Sprintf("%v", a) == fmt.Sprintf("%v", b) }

// ---------------------------------------------------------------------------------------------
// operation generator

type OpGen struct {
	R *rand.Rand
	// weights per kind (create,set,delete,rename,move,reconnect)
	W      map[string]int
	nLabel int
	Tricky bool
	Count  func(string)
}

func (og *OpGen) count(s string) {
	if og.Count != nil {
		og.Count(s)
	}
}

func (og *OpGen) pickKind() string {
	kinds := []string{"create", "set", "delete", "rename", "move", "reconnect"}
	tot := 0
	for _, k := range kinds {
		tot += og.W[k]
	}
	x := og.R.Intn(tot)
	for _, k := range kinds {
		if x < og.W[k] {
			return k
		}
		x -= og.W[k]
	}
	return "set"
}

func (og *OpGen) freshLabel(edge bool) string {
	og.nLabel++
	if edge {
		return fmt.Sprintf("E9%d", og.nLabel)
	}
	return fmt.Sprintf("L9%d", og.nLabel)
}

func (og *OpGen) name() string {
	if og.Tricky && og.R.Intn(5) == 0 {
		return trickyNames[og.R.Intn(len(trickyNames))]
	}
	if og.R.Intn(6) == 0 {
		og.nLabel++
		return fmt.Sprintf("n%d", og.nLabel)
	}
	return namePool[og.R.Intn(len(namePool))]
}

var trickyValues = []string{"null", "true", "NULL", "a.b", "x -> y", "has # hash", "semi;colon", "{brace}", "  spaced  ",
	"'single'", "\"double\"", "$dollar", "multi\nline", "", "*", "@at", "[bracket]", "|pipe|", "_", "label", "a: b", "ünï", "\\back"}

var setObjAttrs = []struct {
	attr string
	vals []string
	kw   bool
}{
	{"shape", []string{"circle", "square", "hexagon", "Circle", "OVAL", "cloud", "diamond", "rectangle", "person", "cylinder"}, true},
	{"style.fill", []string{"red", "blue", "#aabbcc", "honeydew", "#FFF"}, false},
	{"style.stroke", []string{"red", "#123456", "green"}, false},
	{"style.opacity", []string{"0.1", "0.75", "1"}, false},
	{"style.stroke-width", []string{"1", "5", "12"}, false},
	{"style.stroke-dash", []string{"2", "7"}, false},
	{"style.bold", []string{"true", "false"}, false},
	{"style.italic", []string{"true", "false"}, false},
	{"style.font-size", []string{"10", "33"}, false},
	{"style.font-color", []string{"red", "#0000ff"}, false},
	{"style.shadow", []string{"true", "false"}, false},
	{"style.multiple", []string{"true", "false"}, false},
	{"style.border-radius", []string{"0", "9"}, false},
	{"style.double-border", []string{"true", "false"}, false},
	{"style.3d", []string{"true", "false"}, false},
	{"style.underline", []string{"true", "false"}, false},
	{"style.fill-pattern", []string{"dots", "lines", "grain"}, true},
	{"style.font", []string{"mono"}, true},
	{"style.text-transform", []string{"uppercase", "none", "Lowercase"}, true},
	{"tooltip", []string{"a tip", "tip: with colon"}, false},
	{"link", []string{"https://d2lang.com", "https://example.com/x?y=1"}, false},
	{"width", []string{"100", "333"}, false},
	{"height", []string{"80", "222"}, false},
	{"direction", []string{"right", "down", "LEFT"}, true},
	{"near", []string{"top-center", "bottom-right"}, true},
}

var setEdgeAttrs = []struct {
	attr string
	vals []string
	kw   bool
}{
	{"style.stroke", []string{"red", "#654321"}, false},
	{"style.opacity", []string{"0.2", "0.9"}, false},
	{"style.stroke-width", []string{"2", "6"}, false},
	{"style.stroke-dash", []string{"4"}, false},
	{"style.animated", []string{"true", "false"}, false},
	{"style.font-size", []string{"12", "28"}, false},
	{"style.bold", []string{"true"}, false},
	{"style.italic", []string{"true", "false"}, false},
	{"style.underline", []string{"true"}, false},
	{"style.font-color", []string{"red", "#00ff00"}, false},
	{"style.border-radius", []string{"3"}, false},
	{"source-arrowhead.shape", []string{"diamond", "arrow", "Circle"}, true},
	{"target-arrowhead.shape", []string{"triangle", "cf-one"}, true},
	{"source-arrowhead.label", []string{"1", "many"}, false},
	{"target-arrowhead.label", []string{"*"}, false},
}

func sp(s string) *string { return &s }

// Next proposes one operation for the board `bi` of the current boards.
func (og *OpGen) Next(boards []CBoard, bi int) Op {
	b := boards[bi]
	g := b.G
	op := Op{Board: b.Path}
	if op.Board == nil {
		op.Board = []string{}
	}
	// occasionally address a board that does not exist
	if og.R.Intn(60) == 0 {
		op.Board = append(append([]string{}, op.Board...), "nosuch")
		og.count("op:bad-board")
	}
	objID := func() (string, bool) {
		// on a nested board: elements that are inherited AND referenced in the board's own block, half of the time
		if og.R.Intn(2) == 0 {
			var mix []string
			for _, o := range g.Objs {
				if o.Mix {
					mix = append(mix, o.ID)
				}
			}
			if len(mix) > 0 {
				og.count("op:target-inherited-and-local")
				return mix[og.R.Intn(len(mix))], true
			}
		}
		if len(g.Objs) == 0 || og.R.Intn(25) == 0 {
			og.count("op:nonexistent-target")
			return qname(og.name()) + "." + qname(og.name()), false
		}
		return g.Objs[og.R.Intn(len(g.Objs))].ID, true
	}
	// containers are where delete / move have to work (hoisting, collisions): prefer them half of the time
	containerID := func() (string, bool) {
		var cs []string
		for _, o := range g.Objs {
			for _, c := range g.Objs {
				if len(c.Path) == len(o.Path)+1 && strings.HasPrefix(strings.ToLower(c.ID), strings.ToLower(o.ID)+".") {
					cs = append(cs, o.ID)
					break
				}
			}
		}
		if len(cs) == 0 || og.R.Intn(2) == 0 {
			return objID()
		}
		og.count("op:container-target")
		return cs[og.R.Intn(len(cs))], true
	}
	edgeID := func() (string, bool) {
		if len(g.Edges) == 0 {
			return "(nosrc -> nodst)[0]", false
		}
		if og.R.Intn(2) == 0 {
			var mix []string
			for _, e := range g.Edges {
				if e.Mix {
					mix = append(mix, e.ID)
				}
			}
			if len(mix) > 0 {
				og.count("op:target-inherited-and-local")
				return mix[og.R.Intn(len(mix))], true
			}
		}
		if og.R.Intn(25) == 0 {
			e := g.Edges[og.R.Intn(len(g.Edges))]
			return strings.Replace(e.ID, fmt.Sprintf("[%d]", e.Idx), fmt.Sprintf("[%d]", e.Idx+7), 1), false
		}
		return g.Edges[og.R.Intn(len(g.Edges))].ID, true
	}
	parentPrefix := func() string {
		// an existing object as container, the root, or a fresh path
		switch x := og.R.Intn(10); {
		case x < 4 || len(g.Objs) == 0:
			return ""
		case x < 9:
			return g.Objs[og.R.Intn(len(g.Objs))].ID + "."
		default:
			return qname(og.name()) + "." + qname(og.name()) + "."
		}
	}
	op.Kind = og.pickKind()
	switch op.Kind {
	case "create":
		if og.R.Intn(3) == 0 && len(g.Objs) > 0 {
			s, _ := objID()
			d, _ := objID()
			if og.R.Intn(4) == 0 {
				d = parentPrefix() + qname(og.name())
			}
			op.Key = s + " " + arrows[og.R.Intn(len(arrows))] + " " + d
			og.count("create:edge")
		} else {
			op.Key = parentPrefix() + qname(og.name())
			og.count("create:object")
		}
	case "set":
		onEdge := og.R.Intn(3) == 0 && len(g.Edges) > 0
		var id string
		if onEdge {
			id, _ = edgeID()
		} else {
			id, _ = objID()
		}
		// an arrowhead that carries a label: set one of its sub-keys (label via primary value, then `.shape`)
		if og.R.Intn(5) == 0 {
			for _, e := range g.Edges {
				for _, x := range e.Attrs {
					if x[0] == "source-arrowhead.label" || x[0] == "target-arrowhead.label" {
						side := strings.TrimSuffix(x[0], ".label")
						op.Target = e.ID
						op.Attr = side + ".shape"
						op.Key = e.ID + "." + op.Attr
						op.Value = sp([]string{"diamond", "circle", "arrow"}[og.R.Intn(3)])
						og.count("set:arrowhead-subkey-after-label")
						return op
					}
				}
			}
		}
		op.Target = id
		switch x := og.R.Intn(10); {
		case x < 3: // label through the primary value
			op.Key = id
			op.Attr = "label"
			if og.R.Intn(3) == 0 {
				op.Value = sp(trickyValues[og.R.Intn(len(trickyValues))])
				og.count("set:label-tricky")
			} else {
				op.Value = sp(og.freshLabel(onEdge))
				og.count("set:label")
			}
			if og.R.Intn(12) == 0 {
				op.Tag = sp([]string{"md", "latex", "go", "has space"}[og.R.Intn(4)])
				// block strings trim surrounding white space by syntax
				op.Value = sp(strings.TrimSpace(*op.Value))
				og.count("set:label-blockstring")
			}
		case x < 4: // label through the label keyword
			op.Key = id + ".label"
			op.Attr = "label"
			op.Value = sp(og.freshLabel(onEdge))
			og.count("set:label-keyword")
		default:
			if onEdge && og.R.Intn(8) == 0 {
				// the arrowhead's label through its primary value: `(a -> b)[0].source-arrowhead: 1`
				side := []string{"source-arrowhead", "target-arrowhead"}[og.R.Intn(2)]
				op.Attr = side + ".label"
				op.Key = id + "." + side
				op.Value = sp([]string{"1", "*", "many"}[og.R.Intn(3)])
				og.count("set:arrowhead-primary-label")
			} else if onEdge {
				a := setEdgeAttrs[og.R.Intn(len(setEdgeAttrs))]
				// an arrowhead that already has a label: address one of its sub-keys half of the time
				for _, e := range g.Edges {
					if e.ID == id && og.R.Intn(2) == 0 {
						for _, x := range e.Attrs {
							if x[0] == "source-arrowhead.label" || x[0] == "target-arrowhead.label" {
								side := strings.TrimSuffix(x[0], ".label")
								for _, cand := range setEdgeAttrs {
									if cand.attr == side+".shape" {
										a = cand
									}
								}
								og.count("set:arrowhead-subkey-after-label")
							}
						}
					}
				}
				op.Attr = a.attr
				op.Key = id + "." + a.attr
				op.Value = sp(a.vals[og.R.Intn(len(a.vals))])
			} else {
				a := setObjAttrs[og.R.Intn(len(setObjAttrs))]
				op.Attr = a.attr
				op.Key = id + "." + a.attr
				op.Value = sp(a.vals[og.R.Intn(len(a.vals))])
			}
			// free-text attributes take any string; the others have their own value domains (C16), and a link that is
			// neither a URL nor a board is dropped by the compiler (C35) — not the oracle's business
			if op.Attr == "tooltip" && og.R.Intn(3) == 0 {
				op.Value = sp(trickyValues[og.R.Intn(len(trickyValues))])
				og.count("set:attr-tricky-value")
			}
			og.count("set:attr")
		}
	case "delete":
		switch x := og.R.Intn(10); {
		case x < 5:
			op.Key, _ = containerID()
			og.count("delete:object")
		case x < 8 && len(g.Edges) > 0:
			op.Key, _ = edgeID()
			og.count("delete:edge")
		default:
			// an attribute: prefer one that is set
			var cands []kv
			for _, o := range g.Objs {
				for _, a := range o.Attrs {
					if a[0] == "language" || a[0] == "shape" && (a[1] == "rectangle" || og.R.Intn(4) != 0) {
						continue // Delete does not support shape (see finding): keep it rare; language is derived
					}
					cands = append(cands, kv{o.ID, a[0]})
				}
				if og.R.Intn(60) == 0 {
					cands = append(cands, kv{o.ID, "label"})
				}
			}
			for _, e := range g.Edges {
				for _, a := range e.Attrs {
					cands = append(cands, kv{e.ID, a[0]})
				}
				if og.R.Intn(60) == 0 {
					cands = append(cands, kv{e.ID, "label"})
				}
			}
			if len(cands) == 0 {
				op.Key, _ = objID()
				break
			}
			c := cands[og.R.Intn(len(cands))]
			op.Target, op.Attr = c[0], c[1]
			op.Key = c[0] + "." + c[1]
			og.count("delete:attr")
		}
	case "rename":
		if og.R.Intn(12) == 0 && len(g.Edges) > 0 {
			e := g.Edges[og.R.Intn(len(g.Edges))]
			op.Key = e.ID
			// a rename of an edge changes its arrows: "(a <- b)[i]" with the endpoints as written in the id
			m := regexp.MustCompile(`\((.*) (->|<-|<->|--) (.*)\)\[(\d+)\]$`).FindStringSubmatch(e.ID)
			if m != nil {
				op.NewName = fmt.Sprintf("(%s %s %s)[%s]", m[1], arrows[og.R.Intn(len(arrows))], m[3], m[4])
			} else {
				op.NewName = "x"
			}
			og.count("rename:edge")
		} else {
			op.Key, _ = objID()
			op.NewName = og.name()
			if strings.ContainsAny(op.NewName, ".:#") {
				op.NewName = "n" + strings.NewReplacer(".", "", ":", "", "#", "").Replace(op.NewName) // Rename takes a raw name; see C40-rename-to-dotted-name
			}
			if og.R.Intn(20) == 0 {
				// (names that parse as a path or a connection — "a.b", "x -> y" — make Rename produce IDs like
				// "(x -> y)[0]" that poison the rest of the history; see findings C40-rename-to-dotted-name / -edge-like-name)
				op.NewName = []string{"style", "label", "near"}[og.R.Intn(3)]
				og.count("rename:odd-name")
			}
			og.count("rename:object")
		}
	case "move":
		op.Key, _ = containerID()
		var nm string
		segs := strings.Split(op.Key, ".")
		nm = segs[len(segs)-1]
		if og.R.Intn(3) == 0 {
			nm = qname(og.name())
		}
		op.NewKey = parentPrefix() + nm
		// a destination inside the moved object itself is a known trouble spot: keep it rare but present
		if strings.HasPrefix(strings.ToLower(op.NewKey), strings.ToLower(op.Key)+".") {
			if og.R.Intn(20) != 0 {
				op.NewKey = nm
				if op.NewKey == op.Key {
					op.NewKey = qname(og.name())
				}
			} else {
				og.count("move:into-own-descendant")
			}
		}
		op.Desc = og.R.Intn(2) == 0
		og.count(fmt.Sprintf("move:desc=%v", op.Desc))
	case "reconnect":
		op.Key, _ = edgeID()
		switch og.R.Intn(3) {
		case 0:
			s, _ := objID()
			op.Src = &s
		case 1:
			d, _ := objID()
			op.Dst = &d
		default:
			s, _ := objID()
			d, _ := objID()
			op.Src, op.Dst = &s, &d
		}
		og.count("reconnect")
	}
	return op
}

var reObjLabel = regexp.MustCompile(`^L\d+$`)
var reEdgeLabel = regexp.MustCompile(`^E\d+$`)
var reImplicit = regexp.MustCompile(`^m\d+$`)

// Relabel proposes Set operations that give every element of board `bi` lacking a generator label a fresh unique one
// (objects created by Create / implicit containers carry their name as default label, edges an empty one).
func (og *OpGen) Relabel(boards []CBoard, bi int) []Op {
	b := boards[bi]
	var ops []Op
	seen := map[string]bool{}
	for _, o := range b.G.Objs {
		// objects of the generator's m<n> pool that were written without a label stay that way: giving them one would
		// add a declaration key and destroy the source form under test (implicit endpoints, flat-key-only objects)
		if len(o.Path) > 0 && reImplicit.MatchString(o.Path[len(o.Path)-1]) && o.Label == o.Path[len(o.Path)-1] && !seen[o.Label] {
			seen[o.Label] = true
			continue
		}
		if !reObjLabel.MatchString(o.Label) || seen[o.Label] {
			ops = append(ops, Op{Kind: "set", Board: b.Path, Key: o.ID, Target: o.ID, Attr: "label", Value: sp(og.freshLabel(false))})
		}
		seen[o.Label] = true
	}
	for _, e := range b.G.Edges {
		if !reEdgeLabel.MatchString(e.Label) || seen[e.Label] {
			ops = append(ops, Op{Kind: "set", Board: b.Path, Key: e.ID, Target: e.ID, Attr: "label", Value: sp(og.freshLabel(true))})
		}
		seen[e.Label] = true
	}
	return ops
}
