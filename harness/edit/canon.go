// Package edit is the shared correspondence harness of the editing-API properties C36–C41:
// canonical graphs of every board, a generator of diagrams whose elements carry unique labels,
// a generator of edit operations, and the step executor that runs ONE real d2oracle call and
// records (before boards, op, outcome, returned key, after boards, new text, predicted deltas).
package edit

import (
	"fmt"
	"sort"
	"strings"

	"oss.terrastruct.com/d2/d2format"
	"oss.terrastruct.com/d2/d2graph"
	"oss.terrastruct.com/d2/d2oracle"
)

type kv = [2]string

func sc(out *[]kv, k string, s *d2graph.Scalar) {
	if s != nil {
		*out = append(*out, kv{k, s.Value})
	}
}

func styleKVs(out *[]kv, pre string, s d2graph.Style) {
	sc(out, pre+"opacity", s.Opacity)
	sc(out, pre+"stroke", s.Stroke)
	sc(out, pre+"fill", s.Fill)
	sc(out, pre+"fill-pattern", s.FillPattern)
	sc(out, pre+"stroke-width", s.StrokeWidth)
	sc(out, pre+"stroke-dash", s.StrokeDash)
	sc(out, pre+"border-radius", s.BorderRadius)
	sc(out, pre+"shadow", s.Shadow)
	sc(out, pre+"3d", s.ThreeDee)
	sc(out, pre+"multiple", s.Multiple)
	sc(out, pre+"font", s.Font)
	sc(out, pre+"font-size", s.FontSize)
	sc(out, pre+"font-color", s.FontColor)
	sc(out, pre+"animated", s.Animated)
	sc(out, pre+"bold", s.Bold)
	sc(out, pre+"italic", s.Italic)
	sc(out, pre+"underline", s.Underline)
	sc(out, pre+"filled", s.Filled)
	sc(out, pre+"double-border", s.DoubleBorder)
	sc(out, pre+"text-transform", s.TextTransform)
}

// attrKVs lists every semantic attribute other than the label, as (d2 key, value) pairs sorted by key.
func attrKVs(a *d2graph.Attributes, isEdge bool) []kv {
	out := []kv{}
	styleKVs(&out, "style.", a.Style)
	styleKVs(&out, "icon.style.", a.IconStyle)
	if a.Icon != nil {
		out = append(out, kv{"icon", a.Icon.String()})
	}
	sc(&out, "tooltip", a.Tooltip)
	sc(&out, "link", a.Link)
	sc(&out, "width", a.WidthAttr)
	sc(&out, "height", a.HeightAttr)
	sc(&out, "top", a.Top)
	sc(&out, "left", a.Left)
	if a.NearKey != nil {
		out = append(out, kv{"near", d2format.Format(a.NearKey)})
	}
	if a.Language != "" {
		out = append(out, kv{"language", a.Language})
	}
	if !isEdge && a.Shape.Value != "" {
		out = append(out, kv{"shape", a.Shape.Value})
	}
	if a.Direction.Value != "" {
		out = append(out, kv{"direction", a.Direction.Value})
	}
	if len(a.Constraint) > 0 {
		out = append(out, kv{"constraint", strings.Join(a.Constraint, ",")})
	}
	sc(&out, "grid-rows", a.GridRows)
	sc(&out, "grid-columns", a.GridColumns)
	sc(&out, "grid-gap", a.GridGap)
	sc(&out, "vertical-gap", a.VerticalGap)
	sc(&out, "horizontal-gap", a.HorizontalGap)
	sc(&out, "label.near", a.LabelPosition)
	sc(&out, "icon.near", a.IconPosition)
	sc(&out, "tooltip.near", a.TooltipPosition)
	if len(a.Classes) > 0 {
		out = append(out, kv{"class", strings.Join(a.Classes, ",")})
	}
	sort.Slice(out, func(i, j int) bool { return out[i][0] < out[j][0] })
	return out
}

type CObj struct {
	ID    string   `json:"id"`
	Path  []string `json:"path"`
	Label string   `json:"label"`
	Attrs []kv     `json:"attrs"`
	// Mix: on a nested board, the element is referenced both inside the board's own block and outside of it
	// (inherited and locally restyled) — a hint for the operation generator, not part of the content
	Mix bool `json:"mix,omitempty"`
}

type CEdge struct {
	ID    string   `json:"id"`
	Src   []string `json:"src"`
	Dst   []string `json:"dst"`
	SA    bool     `json:"sa"`
	DA    bool     `json:"da"`
	Idx   int      `json:"idx"`
	Label string   `json:"label"`
	Attrs []kv     `json:"attrs"`
	Mix   bool     `json:"mix,omitempty"`
}

type CGraph struct {
	Objs  []CObj  `json:"objs"`
	Edges []CEdge `json:"edges"`
}

// Canon is the canonical, order-independent content of one board graph: objects by absolute ID with label and
// attributes, edges by absolute ID with endpoints, arrows, index, label and attributes.
func Canon(g *d2graph.Graph) CGraph {
	cg := CGraph{Objs: []CObj{}, Edges: []CEdge{}}
	if g == nil {
		return cg
	}
	for _, o := range g.Objects {
		p := valPath(o)
		mix := false
		if g.Parent != nil && g.BaseAST != nil {
			w := len(d2oracle.GetWriteableRefs(o, g.BaseAST))
			mix = w > 0 && w < len(o.References)
		}
		cg.Objs = append(cg.Objs, CObj{ID: o.AbsID(), Path: p, Label: o.Label.Value, Attrs: attrKVs(&o.Attributes, false), Mix: mix})
	}
	for _, e := range g.Edges {
		at := attrKVs(&e.Attributes, true)
		if e.SrcArrowhead != nil {
			for _, x := range attrKVs(e.SrcArrowhead, false) {
				at = append(at, kv{"source-arrowhead." + x[0], x[1]})
			}
			if e.SrcArrowhead.Label.Value != "" {
				at = append(at, kv{"source-arrowhead.label", e.SrcArrowhead.Label.Value})
			}
		}
		if e.DstArrowhead != nil {
			for _, x := range attrKVs(e.DstArrowhead, false) {
				at = append(at, kv{"target-arrowhead." + x[0], x[1]})
			}
			if e.DstArrowhead.Label.Value != "" {
				at = append(at, kv{"target-arrowhead.label", e.DstArrowhead.Label.Value})
			}
		}
		sort.Slice(at, func(i, j int) bool { return at[i][0] < at[j][0] })
		mix := false
		if g.Parent != nil && g.BaseAST != nil {
			w := len(d2oracle.GetWriteableEdgeRefs(e, g.BaseAST))
			mix = w > 0 && w < len(e.References)
		}
		cg.Edges = append(cg.Edges, CEdge{ID: e.AbsID(), Src: valPath(e.Src), Dst: valPath(e.Dst),
			SA: e.SrcArrow, DA: e.DstArrow, Idx: e.Index, Label: e.Label.Value, Attrs: at, Mix: mix})
	}
	sort.SliceStable(cg.Objs, func(i, j int) bool { return cg.Objs[i].ID < cg.Objs[j].ID })
	sort.SliceStable(cg.Edges, func(i, j int) bool { return cg.Edges[i].ID < cg.Edges[j].ID })
	return cg
}

// valPath is the object's absolute path as d2-syntax ID segments (what d2graph.Key returns for a parsed key).
func valPath(o *d2graph.Object) []string {
	p := []string{}
	for ; o != nil && o.Parent != nil; o = o.Parent {
		p = append([]string{o.ID}, p...)
	}
	return p
}

type CBoard struct {
	// Path is the oracle's boardPath (names only); Kinds the container keyword of each hop (layers/scenarios/steps);
	// Pos the position of the board among its siblings of the same kind (steps inherit from the previous step).
	Path  []string `json:"path"`
	Kinds []string `json:"kinds"`
	Pos   int      `json:"pos"`
	G     CGraph   `json:"g"`
}

// Boards lists the root board and every nested board, depth first, in declaration order.
func Boards(g *d2graph.Graph) []CBoard {
	var out []CBoard
	var rec func(g *d2graph.Graph, path, kinds []string, pos int)
	rec = func(g *d2graph.Graph, path, kinds []string, pos int) {
		out = append(out, CBoard{Path: append([]string{}, path...), Kinds: append([]string{}, kinds...), Pos: pos, G: Canon(g)})
		for i, b := range g.Layers {
			rec(b, append(append([]string{}, path...), b.Name), append(append([]string{}, kinds...), "layers"), i)
		}
		for i, b := range g.Scenarios {
			rec(b, append(append([]string{}, path...), b.Name), append(append([]string{}, kinds...), "scenarios"), i)
		}
		for i, b := range g.Steps {
			rec(b, append(append([]string{}, path...), b.Name), append(append([]string{}, kinds...), "steps"), i)
		}
	}
	if g != nil {
		rec(g, nil, nil, 0)
	}
	return out
}

func sameGraph(a, b CGraph) bool { return fmt.Sprintf("%v", a) == fmt.Sprintf("%v", b) }
