package main

import (
	"d2v/harness/hl"
	"d2v/harness/watchlib"
	"encoding/json"
	"math/rand"
)

// C44: scripted watch sessions (edits, clients connecting and leaving) against the real watcher; the trace and what
// every client received go to the Lean driver (trace validation against Model/Watch.lean + the Spec predicates).
func main() { hl.Main("C44", run) }

func genScript(r *rand.Rand, big bool) []watchlib.Op {
	var sc []watchlib.Op
	next := 0
	live := []int{}
	phases := 1 + r.Intn(2)
	for p := 0; p < phases; p++ {
		n := 3 + r.Intn(6)
		if big {
			n += r.Intn(10)
		}
		for i := 0; i < n; i++ {
			switch k := r.Intn(10); {
			case k < 4:
				sc = append(sc, watchlib.Op{Op: "edit"})
			case k < 6 && len(live) < 3:
				op := "connect"
				if r.Intn(3) == 0 {
					op = "connect_async"
				}
				sc = append(sc, watchlib.Op{Op: op, ID: next})
				live = append(live, next)
				next++
			case k < 7 && len(live) > 0:
				j := r.Intn(len(live))
				sc = append(sc, watchlib.Op{Op: "drop", ID: live[j]})
				live = append(live[:j], live[j+1:]...)
			case k < 9:
				sc = append(sc, watchlib.Op{Op: "sleep", Ms: r.Intn(40)})
			default:
				sc = append(sc, watchlib.Op{Op: "usleep", Ms: r.Intn(3000)})
			}
		}
		if len(live) == 0 {
			sc = append(sc, watchlib.Op{Op: "connect", ID: next})
			live = append(live, next)
			next++
		}
		if r.Intn(5) < 3 {
			// the last change of the phase arrives while a compile is running, after that compile read the input
			sc = append(sc, watchlib.Op{Op: "edit_in_compile", Ms: 3 + r.Intn(40)})
		}
		sc = append(sc, watchlib.Op{Op: "quiesce"})
	}
	sc = append(sc, watchlib.Op{Op: "shutdown"})
	return sc
}

func emit(c *hl.Ctx, seed int64, perturb bool, sc []watchlib.Op) error {
	out, err := watchlib.RunScript(c.Work, seed, perturb, sc)
	if err != nil {
		return err
	}
	var scj []any
	b, _ := json.Marshal(sc)
	json.Unmarshal(b, &scj)
	if h, ok := out["hist"].(map[string]int); ok {
		for k, n := range h {
			for i := 0; i < n; i++ {
				c.Count(k)
			}
		}
	}
	delete(out, "hist")
	c.Emit(map[string]any{"k": "watch", "in": map[string]any{"script": scj, "pseed": seed, "perturb": perturb}, "out": out})
	return nil
}

func run(c *hl.Ctx) error {
	if cs := c.ReplayCase(); cs != nil {
		in := cs["in"].(map[string]any)
		b, _ := json.Marshal(in["script"])
		var sc []watchlib.Op
		json.Unmarshal(b, &sc)
		return emit(c, int64(in["pseed"].(float64)), in["perturb"].(bool), sc)
	}
	r := c.Rand()
	n := c.Pick(40, 600)
	if c.Search && c.Tier != "thorough" {
		n = 160 // a proof or the correspondence broke: search longer than the quick tier, not the whole thorough budget
	}
	for i := 0; i < n; i++ {
		perturb := r.Intn(3) != 0
		sc := genScript(r, !c.Quick() && r.Intn(4) == 0)
		if err := emit(c, r.Int63(), perturb, sc); err != nil {
			return err
		}
		if watchlib.FailedSessions() >= 3 {
			// the tree under test keeps missing idle points: three recorded sessions are enough evidence, do not
			// spend the remaining budget waiting
			c.Count("stopped-early")
			break
		}
		if perturb {
			c.Count("session:perturbed")
		} else {
			c.Count("session:plain")
		}
	}
	return nil
}
