// Package pgen — shared by the C01 and C02 harnesses: runs the real d2parser entry points on one input and
// canonicalises what came back (syntax tree with ranges, error list, outcome), plus the generators.
package pgen

import (
	"bytes"
	"runtime/debug"
	"encoding/hex"
	"errors"
	"fmt"
	"strconv"
	"strings"
	"time"
	"unicode/utf8"

	"oss.terrastruct.com/d2/d2ast"
	"oss.terrastruct.com/d2/d2parser"
)

func rng(r d2ast.Range) string {
	return fmt.Sprintf("%d:%d:%d-%d:%d:%d", r.Start.Line, r.Start.Column, r.Start.Byte, r.End.Line, r.End.Column, r.End.Byte)
}

func hx(s string) map[string]any { return map[string]any{"x": hex.EncodeToString([]byte(s))} }

func node(kind string, r d2ast.Range, kv ...any) map[string]any {
	m := map[string]any{"t": kind, "r": rng(r)}
	for i := 0; i+1 < len(kv); i += 2 {
		m[kv[i].(string)] = kv[i+1]
	}
	return m
}

type canon struct {
	nums  []string         // Raw of every Number node (the big.Rat oracle of the model)
	segs  []map[string]any // key path segments (C02 segReparses)
	nodes int
	depth int
	max   int
}

func (c *canon) enter() { c.nodes++; c.depth++; if c.depth > c.max { c.max = c.depth } }
func (c *canon) leave() { c.depth-- }

func (c *canon) subst(s *d2ast.Substitution) any {
	if s == nil {
		return nil
	}
	c.enter()
	defer c.leave()
	return node("subst", s.Range, "spread", s.Spread, "p", c.path(s.Path, false))
}

func (c *canon) imp(i *d2ast.Import) any {
	if i == nil {
		return nil
	}
	c.enter()
	defer c.leave()
	return node("import", i.Range, "spread", i.Spread, "pre", i.Pre, "p", c.path(i.Path, false))
}

func (c *canon) ibox(b d2ast.InterpolationBox) any {
	if b.Substitution != nil {
		return map[string]any{"sub": c.subst(b.Substitution)}
	}
	m := map[string]any{"s": nil, "raw": nil}
	if b.String != nil {
		m["s"] = *b.String
	}
	if b.StringRaw != nil {
		m["raw"] = *b.StringRaw
	}
	return m
}

func (c *canon) str(sb *d2ast.StringBox) any {
	if sb == nil {
		return nil
	}
	switch {
	case sb.UnquotedString != nil:
		return c.uq(sb.UnquotedString)
	case sb.DoubleQuotedString != nil:
		s := sb.DoubleQuotedString
		c.enter()
		defer c.leave()
		v := []any{}
		for _, b := range s.Value {
			v = append(v, c.ibox(b))
		}
		return node("dq", s.Range, "v", v)
	case sb.SingleQuotedString != nil:
		s := sb.SingleQuotedString
		c.enter()
		defer c.leave()
		return node("sq", s.Range, "v", s.Value)
	case sb.BlockString != nil:
		s := sb.BlockString
		c.enter()
		defer c.leave()
		return node("bs", s.Range, "q", s.Quote, "tag", s.Tag, "v", hx(s.Value))
	}
	return nil
}

func (c *canon) uq(s *d2ast.UnquotedString) any {
	c.enter()
	defer c.leave()
	v := []any{}
	for _, b := range s.Value {
		v = append(v, c.ibox(b))
	}
	var pat any
	if s.Pattern != nil {
		p := []any{}
		for _, x := range s.Pattern {
			p = append(p, hx(x))
		}
		pat = p
	}
	return node("uq", s.Range, "v", v, "pat", pat)
}

func (c *canon) path(p []*d2ast.StringBox, seg bool) []any {
	out := []any{}
	for _, sb := range p {
		out = append(out, c.str(sb))
		if seg && sb != nil && sb.Unbox() != nil {
			kind := "uq"
			switch {
			case sb.DoubleQuotedString != nil:
				kind = "dq"
			case sb.SingleQuotedString != nil:
				kind = "sq"
			case sb.BlockString != nil:
				kind = "bs"
			}
			c.segs = append(c.segs, map[string]any{"r": rng(sb.Unbox().GetRange()), "kind": kind, "val": hex.EncodeToString([]byte(sb.Unbox().ScalarString()))})
		}
	}
	return out
}

func (c *canon) kp(k *d2ast.KeyPath) any {
	if k == nil {
		return nil
	}
	c.enter()
	defer c.leave()
	return node("kp", k.Range, "p", c.path(k.Path, true))
}

func (c *canon) scalar(sb d2ast.ScalarBox) any {
	var vb d2ast.ValueBox
	vb.Null, vb.Suspension, vb.Boolean, vb.Number = sb.Null, sb.Suspension, sb.Boolean, sb.Number
	vb.UnquotedString, vb.DoubleQuotedString, vb.SingleQuotedString, vb.BlockString = sb.UnquotedString, sb.DoubleQuotedString, sb.SingleQuotedString, sb.BlockString
	return c.value(vb)
}

func (c *canon) value(vb d2ast.ValueBox) any {
	switch {
	case vb.Null != nil:
		c.enter()
		defer c.leave()
		return node("null", vb.Null.Range)
	case vb.Suspension != nil:
		c.enter()
		defer c.leave()
		return node("susp", vb.Suspension.Range, "v", vb.Suspension.Value)
	case vb.Boolean != nil:
		c.enter()
		defer c.leave()
		return node("bool", vb.Boolean.Range, "v", vb.Boolean.Value)
	case vb.Number != nil:
		c.enter()
		defer c.leave()
		c.nums = append(c.nums, vb.Number.Raw)
		return node("num", vb.Number.Range, "raw", vb.Number.Raw)
	case vb.UnquotedString != nil, vb.DoubleQuotedString != nil, vb.SingleQuotedString != nil, vb.BlockString != nil:
		return c.str(vb.StringBox())
	case vb.Array != nil:
		return c.array(vb.Array)
	case vb.Map != nil:
		return c.mapNode(vb.Map)
	case vb.Import != nil:
		return c.imp(vb.Import)
	}
	return nil
}

func (c *canon) array(a *d2ast.Array) any {
	c.enter()
	defer c.leave()
	n := []any{}
	for _, b := range a.Nodes {
		switch {
		case b.Comment != nil:
			n = append(n, node("comment", b.Comment.Range, "v", b.Comment.Value))
		case b.BlockComment != nil:
			n = append(n, node("bcomment", b.BlockComment.Range, "v", hx(b.BlockComment.Value)))
		case b.Substitution != nil:
			n = append(n, c.subst(b.Substitution))
		case b.Import != nil:
			n = append(n, c.imp(b.Import))
		default:
			var vb d2ast.ValueBox
			vb.Null, vb.Boolean, vb.Number = b.Null, b.Boolean, b.Number
			vb.UnquotedString, vb.DoubleQuotedString, vb.SingleQuotedString, vb.BlockString = b.UnquotedString, b.DoubleQuotedString, b.SingleQuotedString, b.BlockString
			vb.Array, vb.Map = b.Array, b.Map
			n = append(n, c.value(vb))
		}
	}
	return node("arr", a.Range, "n", n)
}

func (c *canon) edgeIndex(ei *d2ast.EdgeIndex) any {
	if ei == nil {
		return nil
	}
	c.enter()
	defer c.leave()
	var i any
	if ei.Int != nil {
		i = strconv.Itoa(*ei.Int)
	}
	return node("ei", ei.Range, "int", i, "glob", ei.Glob)
}

func (c *canon) key(k *d2ast.Key) any {
	if k == nil {
		return nil
	}
	c.enter()
	defer c.leave()
	edges := []any{}
	for _, e := range k.Edges {
		c.enter()
		edges = append(edges, node("edge", e.Range, "src", c.kp(e.Src), "sa", e.SrcArrow, "dst", c.kp(e.Dst), "da", e.DstArrow))
		c.leave()
	}
	return node("key", k.Range, "amp", k.Ampersand, "namp", k.NotAmpersand, "k", c.kp(k.Key), "e", edges,
		"ei", c.edgeIndex(k.EdgeIndex), "ek", c.kp(k.EdgeKey), "pr", c.scalar(k.Primary), "v", c.value(k.Value))
}

func (c *canon) mapNode(m *d2ast.Map) any {
	if m == nil {
		return nil
	}
	c.enter()
	defer c.leave()
	n := []any{}
	for _, b := range m.Nodes {
		switch {
		case b.Comment != nil:
			n = append(n, node("comment", b.Comment.Range, "v", b.Comment.Value))
		case b.BlockComment != nil:
			n = append(n, node("bcomment", b.BlockComment.Range, "v", hx(b.BlockComment.Value)))
		case b.Substitution != nil:
			n = append(n, c.subst(b.Substitution))
		case b.Import != nil:
			n = append(n, c.imp(b.Import))
		case b.MapKey != nil:
			n = append(n, c.key(b.MapKey))
		}
	}
	return node("map", m.Range, "n", n)
}

func canonErrs(err error) []any {
	out := []any{}
	if err == nil {
		return out
	}
	var pe *d2parser.ParseError
	if !errors.As(err, &pe) || pe == nil {
		return append(out, map[string]any{"r": "", "m": "non-parse-error: " + err.Error()})
	}
	for _, e := range pe.Errors {
		msg := strings.TrimPrefix(e.Message, e.Range.String()+": ")
		// %q of a rune is not modelled: keep the message class only
		if strings.HasPrefix(msg, "unquoted strings cannot start on") {
			msg = "unquoted strings cannot start on"
		}
		out = append(out, map[string]any{"r": rng(e.Range), "m": msg})
	}
	return out
}

// DeepLimit: trees nested deeper than this are summarised (node count) instead of being written out.
const DeepLimit = 120

// Observe runs one entry point ("file", "key", "mapkey", "value") of the real parser on src.
func Observe(ep string, src []byte, u16 bool, withSegs bool, timeout time.Duration) map[string]any {
	in := map[string]any{"src": hex.EncodeToString(src), "ep": ep, "u16": u16}
	out := map[string]any{}
	type res struct {
		ast  any
		errs []any
		c    *canon
		hasT bool
		pan  string
	}
	ch := make(chan res, 1)
	go func() {
		var r res
		defer func() {
			if p := recover(); p != nil {
				r.pan = fmt.Sprint(p) + " @" + panicSite(string(debug.Stack()))
				ch <- r
			}
		}()
		c := &canon{}
		r.c = c
		switch ep {
		case "file":
			m, err := d2parser.Parse("", bytes.NewReader(src), &d2parser.ParseOptions{UTF16Pos: u16})
			r.hasT = m != nil
			r.ast = c.mapNode(m)
			r.errs = canonErrs(err)
		case "key":
			k, err := d2parser.ParseKey(string(src))
			r.hasT = k != nil || err != nil
			r.ast = c.kp(k)
			r.errs = wrapperErrs(err)
		case "mapkey":
			k, err := d2parser.ParseMapKey(string(src))
			r.hasT = k != nil || err != nil
			r.ast = c.key(k)
			r.errs = wrapperErrs(err)
		case "value":
			v, err := d2parser.ParseValue(string(src))
			r.hasT = v != nil || err != nil
			if v != nil {
				r.ast = c.value(d2ast.MakeValueBox(v))
			}
			r.errs = wrapperErrs(err)
		}
		ch <- r
	}()
	select {
	case r := <-ch:
		if r.pan != "" {
			out["outcome"] = "panic: " + r.pan
			break
		}
		out["outcome"] = "ok"
		out["tree"] = r.hasT
		out["errs"] = r.errs
		out["nums"] = r.c.nums
		out["nodes"] = r.c.nodes
		if r.c.max > DeepLimit {
			out["deep"] = true
		} else {
			out["ast"] = r.ast
		}
		if withSegs && ep == "file" {
			out["segs"] = reparseSegs(src, u16, r.c.segs)
		}
	case <-time.After(timeout):
		out["outcome"] = "timeout"
	}
	return map[string]any{"k": "parse", "in": in, "out": out}
}

// panicSite: the innermost d2 function on the panicking goroutine's stack (e.g. "d2parser.trimIndent").
func panicSite(stack string) string {
	for _, l := range strings.Split(stack, "\n") {
		if strings.HasPrefix(l, "oss.terrastruct.com/d2/") {
			f := strings.TrimPrefix(l, "oss.terrastruct.com/d2/")
			if i := strings.IndexByte(f, '('); i >= 0 && strings.HasSuffix(strings.TrimSpace(f), ")") {
				f = f[:strings.LastIndexByte(f, '(')]
			}
			f = strings.NewReplacer("(*parser).", "", "(*", "", ")", "").Replace(f)
			return f
		}
	}
	return "?"
}

// wrapperErrs: ParseKey/ParseMapKey/ParseValue wrap the ParseError; "empty key" style errors carry no ParseError.
func wrapperErrs(err error) []any {
	if err == nil {
		return []any{}
	}
	var pe *d2parser.ParseError
	if errors.As(err, &pe) && pe != nil {
		return canonErrs(pe)
	}
	return []any{map[string]any{"r": "", "m": "empty"}}
}

// EffectiveRunes decodes src the way Parse reads it: UTF-16LE after an FF FE mark, else UTF-8 with every invalid
// byte read as U+FFFD.  Returns the runes and whether positions are in UTF-16 units.
func EffectiveRunes(src []byte, u16 bool) ([]rune, bool) {
	if len(src) >= 2 && src[0] == 0xFF && src[1] == 0xFE {
		return nil, true // segments of transcoded input are not re-parsed
	}
	var rs []rune
	for i := 0; i < len(src); {
		r, n := utf8.DecodeRune(src[i:])
		rs = append(rs, r)
		i += n
	}
	return rs, u16
}

func unitLen(r rune, u16 bool) int {
	if u16 {
		if r >= 0x10000 {
			return 2
		}
		return 1
	}
	return utf8.RuneLen(r)
}

// reparseSegs: for every key path segment, the text its range covers (offsets counted the way the parser counts
// them: RuneLen of each decoded rune, or UTF-16 units) is handed to ParseKey.
func reparseSegs(src []byte, u16 bool, segs []map[string]any) []any {
	out := []any{}
	rs, mode := EffectiveRunes(src, u16)
	if rs == nil {
		return out
	}
	offs := make([]int, len(rs)+1)
	for i, r := range rs {
		offs[i+1] = offs[i] + unitLen(r, mode)
	}
	idx := map[int]int{}
	for i, o := range offs {
		if _, ok := idx[o]; !ok {
			idx[o] = i
		}
	}
	for _, s := range segs {
		var sl, sc, sb, el, ec, eb int
		fmt.Sscanf(s["r"].(string), "%d:%d:%d-%d:%d:%d", &sl, &sc, &sb, &el, &ec, &eb)
		i, ok1 := idx[sb]
		j, ok2 := idx[eb]
		o := map[string]any{"r": s["r"], "val": s["val"], "kind": s["kind"]}
		if !ok1 || !ok2 || i > j {
			o["cut"] = false
			out = append(out, o)
			continue
		}
		text := string(rs[i:j])
		o["cut"] = true
		o["text"] = hex.EncodeToString([]byte(text))
		func() {
			defer func() {
				if p := recover(); p != nil {
					o["re"] = "panic"
				}
			}()
			k, err := d2parser.ParseKey(text)
			switch {
			case err != nil:
				o["re"] = "error"
			case len(k.Path) != 1:
				o["re"] = "path" + strconv.Itoa(len(k.Path))
			default:
				o["re"] = "ok"
				o["reval"] = hex.EncodeToString([]byte(k.Path[0].Unbox().ScalarString()))
			}
		}()
		out = append(out, o)
	}
	return out
}
