package pgen

import (
	"encoding/hex"
	"os"
	"time"

	"d2v/harness/hl"
)

// Run drives the shared stream of the parser properties.  withSegs adds the key-segment re-parse observations
// that only C02 looks at.
func Run(c *hl.Ctx, withSegs bool) error {
	timeout := 10 * time.Second
	emit := func(ep string, src []byte, u16 bool) {
		c.Emit(Observe(ep, src, u16, withSegs, timeout))
	}
	if cs := c.ReplayCase(); cs != nil {
		in := cs["in"].(map[string]any)
		src, _ := hex.DecodeString(in["src"].(string))
		u16, _ := in["u16"].(bool)
		emit(in["ep"].(string), src, u16)
		return nil
	}
	r := c.Rand()
	g := &G{R: r, Count: c.Count}
	all := func(src []byte) {
		emit("file", src, false)
		emit("file", src, true)
	}
	wrappers := func(src []byte) {
		emit("key", src, false)
		emit("mapkey", src, false)
		emit("value", src, false)
	}

	// 0. fixed regression inputs (defects and corner cases met while building the model)
	for _, s := range []string{"", "a", "a\xffb: c", "x: [1;2;3;4]\n", "x: []", "a: xx*${y}z*", "a: \\\n;", "(a -> b)[x]", "a-\n", "a- b", "a: *b${x}c*",
		"\xff\xfea\x00", "x: |`md a ``|", "a.b -> c.d: {e}", "x: \"a\\", "a: 'b''c'", "...${x}\n...@y", "&a: b\n!&c: d", "a: [...${x}; ...@y]",
		"a: |md\n   x\n|", "(a->b)[٣]", "(a -> b)[99999999999999999999]: x", "a: falſe", "a: Kelvin", ".a", "a..b", "a: b {c}", "a: ${x", "a: ${x}y${z}",
		"x: |md\n    a\n  \n    b\n|\n", "x: |md\r\n    a\r\n\r\n    b\r\n|\r\n", "\"\"\"\n    a\n \n    b\n\"\"\"\n", "x: |md\n\ta\n \n\tb\n|", "x: |md\n  a\n  \n   \n b\n|",
		"\"\"\" c \"\"\"", "a: \"\"\"x\"\"\"", "x: [suspend; null]", "...@x.d2", "a: @x.d2.y", "a -> (b -> c)", "(a -> b)c)d -> e", "(a)b) -> c)[0]"} {
		all([]byte(s))
		wrappers([]byte(s))
		c.Count("fixed")
	}

	// 1. the repository's own inputs
	repo := os.Getenv("D2V_REPO")
	if repo == "" {
		repo = "/repo"
	}
	corpus := Harvest(repo)
	step := 1
	if c.Quick() && len(corpus) > 1500 {
		step = len(corpus)/1500 + 1
	}
	off := r.Intn(step)
	for i := off; i < len(corpus); i += step {
		s := []byte(corpus[i])
		if c.Quick() && len(s) > 1500 {
			continue
		}
		all(s)
		if len(s) < 200 {
			wrappers(s)
		}
		c.Count("corpus")
	}

	// 2. grammar stream, 3. mutation stream, 4. raw bytes
	n := c.Pick(1600, 250000)
	for i := 0; i < n; i++ {
		p := g.Program()
		all([]byte(p))
		c.Count("grammar")
		if i%4 == 0 {
			wrappers([]byte(g.stmt()))
			wrappers([]byte(g.value()))
			wrappers([]byte(g.keyPath()))
			c.Count("grammar:wrappers")
		}
		var m string
		if len(corpus) > 0 && r.Intn(3) == 0 {
			s := corpus[r.Intn(len(corpus))]
			if len(s) > 400 {
				o := r.Intn(len(s) - 400)
				s = s[o : o+400]
			}
			m = g.Mutate(s)
			c.Count("mutation:corpus")
		} else {
			m = g.Mutate(p)
			c.Count("mutation:grammar")
		}
		all([]byte(m))
		raw := g.Raw()
		all(raw)
		if i%4 == 1 {
			wrappers(raw)
		}
	}

	// 5. deep nesting
	depths := []int{1, 2, 50, 130, 600, 2000}
	if !c.Quick() {
		depths = append(depths, 5000)
	}
	for _, d := range depths {
		for _, b := range Deep(d) {
			all(b)
			if d <= 600 {
				wrappers(b)
			}
			c.Count("deep")
		}
	}
	return nil
}
