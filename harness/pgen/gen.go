package pgen

import (
	"encoding/binary"
	"go/ast"
	"go/parser"
	"go/token"
	"math/rand"
	"os"
	"path/filepath"
	"sort"
	"strconv"
	"strings"
	"unicode/utf16"
)

// ---------------------------------------------------------------------------------------------
// corpus harvested from the tree under test: every .d2 file, the txtar archives of e2etests, and the
// string literals of the parser / compiler / formatter / oracle / ir / lsp test tables.

func Harvest(repo string) []string {
	seen := map[string]bool{}
	var out []string
	add := func(s string) {
		if s == "" || len(s) > 6000 || seen[s] {
			return
		}
		seen[s] = true
		out = append(out, s)
	}
	filepath.Walk(repo, func(p string, info os.FileInfo, err error) error {
		if err != nil {
			return nil
		}
		if info.IsDir() {
			n := info.Name()
			if n == ".git" || n == "node_modules" {
				return filepath.SkipDir
			}
			return nil
		}
		switch {
		case strings.HasSuffix(p, ".d2"):
			if b, err := os.ReadFile(p); err == nil {
				add(string(b))
			}
		case strings.HasSuffix(p, "txtar.txt") || strings.HasSuffix(p, ".txtar"):
			if b, err := os.ReadFile(p); err == nil {
				for _, part := range splitTxtar(string(b)) {
					add(part)
				}
			}
		case strings.HasSuffix(p, "_test.go"):
			d := filepath.Base(filepath.Dir(p))
			switch d {
			case "d2parser", "d2compiler", "d2format", "d2oracle", "d2ir", "d2lsp", "d2ast", "d2exporter", "e2etests":
				for _, s := range goStrings(p) {
					add(s)
				}
			}
		}
		return nil
	})
	sort.Strings(out)
	return out
}

func splitTxtar(s string) []string {
	var parts []string
	var cur []string
	for _, l := range strings.Split(s, "\n") {
		if strings.HasPrefix(l, "-- ") && strings.HasSuffix(strings.TrimSpace(l), " --") {
			parts = append(parts, strings.Join(cur, "\n"))
			cur = nil
			continue
		}
		cur = append(cur, l)
	}
	parts = append(parts, strings.Join(cur, "\n"))
	return parts
}

func goStrings(path string) []string {
	fset := token.NewFileSet()
	f, err := parser.ParseFile(fset, path, nil, 0)
	if err != nil {
		return nil
	}
	var out []string
	ast.Inspect(f, func(n ast.Node) bool {
		if bl, ok := n.(*ast.BasicLit); ok && bl.Kind == token.STRING {
			if s, err := strconv.Unquote(bl.Value); err == nil && len(s) > 0 {
				out = append(out, s)
			}
		}
		return true
	})
	return out
}

// ---------------------------------------------------------------------------------------------
// grammar-based, mostly valid programs

type G struct {
	R     *rand.Rand
	Count func(string)
	depth int
}

var words = []string{"a", "b", "x", "y", "foo", "bar", "shape", "label", "style", "fill", "opacity", "near", "vars", "d2-config",
	"layers", "scenarios", "steps", "classes", "class", "width", "grid-rows", "null", "true", "false", "NULL", "True", "suspend",
	"unsuspend", "falſe", "ſuspend", "1", "23", "4.5", "1e3", "0x1F", "1/2", "-3", "_", "a b", "a-b", "a--b", "-", "q*", "*", "**", "*a*",
	"é", "日本", "😀", "a😀b", " x", "x y", "ǅ", "İ", "ß", "𝔘", "𠀀", "𠀀x", "\U0010ffff", "\uffff", "\U00010000", "\u0085", "٣", "a\tb", "@x", "x@y", "d2", "x.d2", "$", "a$b", "!", "&x", "(", ")", "a)b"}

var specials = []string{"#", ";", "\n", "\\", "{", "}", "[", "]", "'", "\"", "|", ":", ".", "-", "<", ">", "*", "&", "(", ")", "@", "$", "${", "...", "->", "<-", "--", "<->", "\\\n", "\"\"\"", "||", "|`", "`|", " ", "\t", "\r", "\x00", "!&", "_", "?"}

func (g *G) pick(xs []string) string { return xs[g.R.Intn(len(xs))] }

func (g *G) ws() string {
	switch g.R.Intn(8) {
	case 0:
		return "  "
	case 1:
		return "\t"
	case 2:
		return ""
	case 3:
		return "  "
	default:
		return " "
	}
}

func (g *G) unquoted() string {
	n := 1 + g.R.Intn(3)
	s := ""
	for i := 0; i < n; i++ {
		s += g.pick(words)
		if g.R.Intn(14) == 0 {
			s += g.pick([]string{"\\n", "\\\"", "\\\\", "\\#", "\\:", "\\.", "\\;", "\\x", "\\\n  ", "-", "*", " "})
		}
	}
	return s
}

func (g *G) str(inKey bool) string {
	switch g.R.Intn(12) {
	case 0:
		return "\"" + strings.ReplaceAll(g.unquoted(), "\"", "\\\"") + g.pick([]string{"", "\\n", "\\t", "${a}", "$", "#", ":", "\\\n"}) + "\""
	case 1:
		return "'" + strings.ReplaceAll(g.unquoted(), "'", "''") + g.pick([]string{"", "''", "\\", "\\\n", "#"}) + "'"
	case 2:
		if !inKey || g.R.Intn(3) == 0 {
			q := g.pick([]string{"", "", "|", "||", "`", "|`", "→", "%%"})
			tag := g.pick([]string{"", "md", "latex", "go", "é"})
			body := g.pick([]string{" x ", "\n  # t\n  text\n", " a | b ", "\n\tcode {\n\t\t}\n", "\n    nb\n  y\n", " |", "\n\n"})
			// the closing sequence the parser expects: last rune of the quote, then the quote minus its first
			// len(last rune) bytes, then |
			return "|" + q + tag + body + closeOf(q)
		}
		return g.unquoted()
	case 3:
		if !inKey {
			return g.unquoted() + "${" + g.pick(words) + "}" + g.pick([]string{"", "x", "*", "${b.c}", " y"})
		}
		return g.unquoted()
	default:
		return g.unquoted()
	}
}

// blockBody: a multi-line body for block strings / block comments: lines sharing a common indent of n columns
// (spaces, tabs or a mix), with whitespace-only lines shorter than, equal to and longer than that indent, made
// of spaces, tabs, NBSP or a lone CR (the blank line of a CRLF file).
func (g *G) blockBody() string {
	r := g.R
	n := 1 + r.Intn(6)
	indent := strings.Repeat(" ", n)
	switch r.Intn(5) {
	case 0:
		indent = strings.Repeat("\t", 1+r.Intn(2))
	case 1:
		indent = " \t"[:1+r.Intn(2)] + strings.Repeat(" ", r.Intn(3))
	}
	eol := "\n"
	if r.Intn(4) == 0 {
		eol = "\r\n"
	}
	var sb strings.Builder
	sb.WriteString(eol)
	lines := 2 + r.Intn(4)
	for i := 0; i < lines; i++ {
		switch r.Intn(7) {
		case 0: // whitespace-only, shorter than the indent
			k := 0
			if len(indent) > 1 {
				k = 1 + r.Intn(len(indent)-1)
			}
			sb.WriteString(strings.Repeat(" ", k))
			g.Count("block:blank-shorter")
		case 1: // whitespace-only, exactly the indent
			sb.WriteString(indent)
			g.Count("block:blank-equal")
		case 2: // whitespace-only, longer
			sb.WriteString(indent + g.pick([]string{" ", "  ", "\t", " \t ", "\u00a0"}))
			g.Count("block:blank-longer")
		case 3: // empty (or a lone CR with CRLF endings)
			g.Count("block:blank-empty")
		default:
			extra := g.pick([]string{"", "", "  ", "\t", "\u00a0"})
			sb.WriteString(indent + extra + g.pick([]string{"a", "text here", "# t", "code {", "}", "x | y", "é😀"}))
		}
		sb.WriteString(eol)
	}
	if r.Intn(2) == 0 {
		sb.WriteString(g.pick([]string{"", " ", "  ", indent}))
	}
	return sb.String()
}

func closeOf(q string) string {
	if q == "" {
		return "|"
	}
	rs := []rune(q)
	last := rs[len(rs)-1]
	return string(last) + q[len(string(last)):] + "|"
}

func (g *G) keyPath() string {
	n := 1 + g.R.Intn(3)
	parts := make([]string, n)
	for i := range parts {
		parts[i] = g.str(true)
	}
	sep := "."
	if g.R.Intn(10) == 0 {
		sep = " . "
	}
	return strings.Join(parts, sep)
}

func (g *G) arrow() string {
	return g.pick([]string{"->", "<-", "--", "<->", "-->", "<--", "->", "->", "*-*", "-*", "*-", "-\\\n  ->", "---"})
}

func (g *G) edgeChain() string {
	n := 1 + g.R.Intn(3)
	s := g.keyPath()
	for i := 0; i < n; i++ {
		s += g.ws() + g.arrow() + g.ws() + g.keyPath()
	}
	return s
}

func (g *G) value() string {
	if g.depth > 5 {
		return g.str(false)
	}
	switch g.R.Intn(14) {
	case 0, 1:
		return g.mapBlock()
	case 2:
		return g.array()
	case 3:
		return "@" + g.pick([]string{"x", "./x", "../a/b", "x.d2", "\"f g\"", "a.b.d2"})
	case 4:
		return g.str(false) + " " + g.mapBlock()
	case 5:
		return g.pick([]string{"null", "true", "FALSE", "suspend", "12", "1_000", ".5", "1e", "+1", "0b101", "1/0", "Inf", "1.", "--1"})
	default:
		return g.str(false)
	}
}

func (g *G) array() string {
	g.depth++
	defer func() { g.depth-- }()
	n := g.R.Intn(5)
	sep := g.pick([]string{"; ", ";", "\n  ", " ;  "})
	parts := []string{}
	for i := 0; i < n; i++ {
		switch g.R.Intn(10) {
		case 0:
			parts = append(parts, "...${"+g.pick(words)+"}")
		case 1:
			parts = append(parts, "...@"+g.pick(words))
		case 2:
			parts = append(parts, "# c\n")
		case 3:
			parts = append(parts, g.array())
		case 4:
			parts = append(parts, "\"\"\" bc \"\"\"")
		default:
			parts = append(parts, g.value())
		}
	}
	return "[" + strings.Join(parts, sep) + g.pick([]string{"]", "]", "]", " ]", "\n]"})
}

func (g *G) mapBlock() string {
	g.depth++
	defer func() { g.depth-- }()
	return "{" + g.pick([]string{"\n", " ", "", "\n\n"}) + g.stmts(g.R.Intn(4)) + g.pick([]string{"}", "\n}", " }"})
}

func (g *G) stmt() string {
	switch g.R.Intn(20) {
	case 0:
		return "# " + g.unquoted()
	case 1:
		if g.R.Intn(2) == 0 {
			return "\"\"\"" + g.blockBody() + "\"\"\""
		}
		return "\"\"\"" + g.pick([]string{" bc ", "\n  multi\n  line\n", "x\"y", "\"\""}) + "\"\"\""
	case 2:
		return "...${" + g.keyPath() + "}"
	case 3:
		return "...@" + g.pick([]string{"x", "./x", "x.d2", "\"y\""})
	case 4, 5, 6:
		s := g.edgeChain()
		if g.R.Intn(2) == 0 {
			s += ":" + g.ws() + g.value()
		}
		return s
	case 7:
		idx := g.pick([]string{"[0]", "[12]", "[*]", "[ 1 ]", "[٣]", "[99999999999999999999]", "[1x]", "[x]", "", "[", "[]"})
		s := "(" + g.edgeChain() + ")" + idx
		if g.R.Intn(2) == 0 {
			s += "." + g.keyPath()
		}
		if g.R.Intn(2) == 0 {
			s += ": " + g.value()
		}
		return s
	case 8:
		return g.pick([]string{"&", "!&"}) + g.keyPath() + ": " + g.str(false)
	case 9:
		return g.keyPath() + ".(" + g.edgeChain() + ")[" + strconv.Itoa(g.R.Intn(3)) + "]" + g.pick([]string{"", ": x", ".style.opacity: 0.4"})
	case 10:
		return g.keyPath()
	default:
		return g.keyPath() + g.pick([]string{":", ": ", " : ", ":\t"}) + g.value()
	}
}

func (g *G) stmts(n int) string {
	var sb strings.Builder
	for i := 0; i < n; i++ {
		sb.WriteString(strings.Repeat("  ", g.depth))
		sb.WriteString(g.stmt())
		sb.WriteString(g.pick([]string{"\n", "\n", "\n", "; ", ";\n", "\n\n", " # c\n", " \n"}))
	}
	return sb.String()
}

func (g *G) Program() string {
	g.depth = 0
	s := g.stmts(1 + g.R.Intn(6))
	if g.R.Intn(4) == 0 {
		s = strings.TrimRight(s, "\n")
	}
	return s
}

// ---------------------------------------------------------------------------------------------
// token mutation

func tokenize(s string) []string {
	var toks []string
	cur := ""
	class := func(r rune) int {
		switch {
		case r == ' ' || r == '\t':
			return 1
		case r == '\n':
			return 2
		case strings.ContainsRune("#;\\{}[]'\"|:.-<>*&()@$!", r):
			return 3
		default:
			return 0
		}
	}
	last := -1
	for _, r := range s {
		c := class(r)
		if c != last || c == 3 || c == 2 {
			if cur != "" {
				toks = append(toks, cur)
			}
			cur = ""
		}
		cur += string(r)
		last = c
	}
	if cur != "" {
		toks = append(toks, cur)
	}
	return toks
}

func (g *G) Mutate(s string) string {
	toks := tokenize(s)
	if len(toks) == 0 {
		return g.pick(specials)
	}
	n := 1 + g.R.Intn(3)
	for i := 0; i < n && len(toks) > 0; i++ {
		j := g.R.Intn(len(toks))
		switch g.R.Intn(7) {
		case 0: // drop
			toks = append(toks[:j], toks[j+1:]...)
			g.Count("mut:drop")
		case 1: // dup
			toks = append(toks[:j+1], toks[j:]...)
			g.Count("mut:dup")
		case 2: // swap
			k := g.R.Intn(len(toks))
			toks[j], toks[k] = toks[k], toks[j]
			g.Count("mut:swap")
		case 3, 4: // insert a special
			sp := g.pick(specials)
			toks = append(toks[:j], append([]string{sp}, toks[j:]...)...)
			g.Count("mut:insert-special")
		case 5: // truncate here (unterminated everything)
			toks = toks[:j]
			g.Count("mut:truncate")
		default: // replace by a word
			toks[j] = g.pick(words)
			g.Count("mut:replace")
		}
	}
	return strings.Join(toks, "")
}

// ---------------------------------------------------------------------------------------------
// raw bytes

func UTF16LE(s string, bom bool) []byte {
	var b []byte
	if bom {
		b = append(b, 0xFF, 0xFE)
	}
	for _, u := range utf16.Encode([]rune(s)) {
		b = binary.LittleEndian.AppendUint16(b, u)
	}
	return b
}

func (g *G) Raw() []byte {
	r := g.R
	switch r.Intn(10) {
	case 0: // uniformly random bytes
		b := make([]byte, r.Intn(40))
		r.Read(b)
		g.Count("raw:random")
		return b
	case 1, 2: // special-heavy soup
		n := r.Intn(24)
		s := ""
		for i := 0; i < n; i++ {
			if r.Intn(3) == 0 {
				s += g.pick(words)
			} else {
				s += g.pick(specials)
			}
		}
		g.Count("raw:special-soup")
		return []byte(s)
	case 3: // a program with invalid UTF-8 spliced in
		b := []byte(g.Program())
		for i, k := 0, 1+r.Intn(3); i < k; i++ {
			bad := [][]byte{{0xff}, {0xc0, 0x80}, {0xe2, 0x82}, {0xed, 0xa0, 0x80}, {0xf4, 0x90, 0x80, 0x80}, {0x80}, {0xf0, 0x9f}, {0xfe}, {0xc3}}[r.Intn(9)]
			j := r.Intn(len(b) + 1)
			b = append(b[:j:j], append(append([]byte{}, bad...), b[j:]...)...)
		}
		g.Count("raw:invalid-utf8")
		return b
	case 4: // UTF-16LE with BOM, possibly damaged
		b := UTF16LE(g.Program(), true)
		switch r.Intn(5) {
		case 0:
			if len(b) > 2 {
				b = b[:len(b)-1]
			}
			g.Count("raw:utf16-odd")
		case 1: // lone surrogate
			j := 2 + 2*r.Intn((len(b)-2)/2+1)
			sur := []byte{0x00, byte(0xd8 + r.Intn(8))}
			b = append(b[:j:j], append(sur, b[j:]...)...)
			g.Count("raw:utf16-lone-surrogate")
		case 2: // two low surrogates
			j := 2 + 2*r.Intn((len(b)-2)/2+1)
			b = append(b[:j:j], append([]byte{0x00, 0xdc, 0x01, 0xdd}, b[j:]...)...)
			g.Count("raw:utf16-low-low")
		default:
			g.Count("raw:utf16")
		}
		return b
	case 5: // BOM oddities
		g.Count("raw:bom-odd")
		return [][]byte{{0xff, 0xfe}, {0xff}, {0xfe, 0xff, 'a', 0}, {0xff, 0xfe, 'a'}, {0xef, 0xbb, 0xbf, 'a', ':', 'b'}, {0xff, 0xfe, 0xff, 0xfe, 'a', 0},
			{0xff, 0xfe, 0x3d, 0xd8, 0x00, 0xde, ':', 0, 'x', 0}, {0xff, 0xfe, 0x0a, 0x00, 0x0a}}[r.Intn(8)]
	case 6: // unterminated constructs
		open := []string{"\"abc", "'abc", "|md abc", "|`md abc |", "\"\"\"abc", "x: [a", "x: {a", "(a -> b", "x: ${a", "x: \"a\\", "a: b\\", "a -> ", "a -", "x: [\"\"\"", "a: |md\n  x", "(a -> b)[", "(a -> b)[1", "...", "...$", "...@", "a: @", "!", "&", "a.", "a: '", "\\"}
		s := g.pick(open)
		if r.Intn(2) == 0 {
			s = g.Program() + s
		}
		g.Count("raw:unterminated")
		return []byte(s)
	case 7: // NULs and control characters
		b := []byte(g.Program())
		for i, k := 0, 1+r.Intn(3); i < k && len(b) > 0; i++ {
			b[r.Intn(len(b))] = byte(r.Intn(0x20))
		}
		g.Count("raw:control")
		return b
	case 8: // a program with CRLF line endings
		g.Count("raw:crlf")
		return []byte(strings.ReplaceAll(g.Program(), "\n", "\r\n"))
	default: // a mutated program
		g.Count("raw:mutated-program")
		return []byte(g.Mutate(g.Program()))
	}
}

// Deep returns pathological nestings of depth n.
func Deep(n int) [][]byte {
	rep := strings.Repeat
	return [][]byte{
		[]byte(rep("{", n)),
		[]byte(rep("[", n)),
		[]byte(rep("a: {", n)),
		[]byte(rep("x: [", n)),
		[]byte(rep("a: {\n", n) + rep("}\n", n)),
		[]byte("x: " + rep("[", n) + rep("]", n)),
		[]byte(rep("(", n)),
		[]byte(rep("a.", n) + "b"),
		[]byte(rep("a -> ", n) + "b"),
		[]byte("x: " + rep("${", n)),
		[]byte(rep("|", n) + " x " + rep("|", n)),
		[]byte(rep("\"", n)),
		[]byte(rep("\\\n", n)),
		[]byte(rep("#\n", n)),
	}
}
