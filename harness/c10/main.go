package main

import (
	"d2v/harness/hl"
	"d2v/harness/semlib"
)

// C10: core-fragment programs (real parser's AST + compiled graph) for the reference interpreter, and differential
// programs (base; base + null; base + null + re-declaration; base + re-declaration; base + case-twin re-declaration).
func main() { hl.Main("C10", run) }

func countFeat(c *hl.Ctx, g *semlib.G) {
	for k, v := range g.Feat {
		if v > 0 {
			c.Count("feat:" + k)
		}
	}
}

func run(c *hl.Ctx) error {
	if cs := c.ReplayCase(); cs != nil {
		in := cs["in"].(map[string]any)
		src := in["src"].(string)
		switch cs["k"] {
		case "diff":
			// re-observe with the same key
			eref, _ := in["eref"].(string)
			c.Emit(semlib.C10DiffKey(src, in["key"].(string), eref))
		default:
			if cc, _ := semlib.CoreCase(src); cc != nil {
				c.Emit(cc)
			}
		}
		return nil
	}
	r := c.Rand()
	n := c.Pick(3000, 60000)
	for i := 0; i < n; i++ {
		g := semlib.New(r, semlib.Opts{MaxDecls: 40, MaxDepth: 4, Underscore: true, QuotedKw: true, ErrSeeds: true, Nulls: true, SpecialNames: true})
		src := g.Program()
		cc, why := semlib.CoreCase(src)
		if cc == nil {
			c.Count("skipped:" + why)
			continue
		}
		countFeat(c, g)
		if _, bad := cc["out"].(map[string]any)["err"]; bad {
			c.Count("core:outcome:error")
		} else {
			c.Count("core:outcome:ok")
		}
		c.Emit(cc)
	}
	m := c.Pick(1500, 20000)
	for i := 0; i < m; i++ {
		g := semlib.New(r, semlib.Opts{MaxDecls: 25, MaxDepth: 4, Underscore: true, QuotedKw: i%2 == 0, ErrSeeds: false, Nulls: i%3 != 0})
		src := g.Program()
		dc := semlib.C10Diff(r, src)
		if dc == nil {
			c.Count("diff:skipped")
			continue
		}
		c.Count("diff:case")
		c.Emit(dc)
	}
	return nil
}
