package main

import (
	"d2v/harness/hl"
	"d2v/harness/semlib"
)

// C10: core-fragment programs (real parser's AST + compiled graph) for the reference interpreter, and differential programs.
func main() { hl.Main("C10", run) }

func run(c *hl.Ctx) error {
	if cs := c.ReplayCase(); cs != nil {
		in := cs["in"].(map[string]any)
		if cc, _ := semlib.CoreCase(in["src"].(string)); cc != nil {
			c.Emit(cc)
		}
		return nil
	}
	r := c.Rand()
	n := c.Pick(4000, 200000)
	for i := 0; i < n; i++ {
		g := semlib.New(r, semlib.Opts{MaxDecls: 40, MaxDepth: 4, Underscore: true, QuotedKw: true, ErrSeeds: true, Nulls: true})
		src := g.Program()
		cc, why := semlib.CoreCase(src)
		if cc == nil {
			c.Count("skipped:" + why)
			continue
		}
		for k, v := range g.Feat {
			if v > 0 {
				c.Count("feat:" + k)
			}
		}
		if _, bad := cc["out"].(map[string]any)["err"]; bad {
			c.Count("outcome:error")
		} else {
			c.Count("outcome:ok")
		}
		c.Emit(cc)
	}
	return nil
}
