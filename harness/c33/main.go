package main

import (
	"d2v/harness/hl"
	"sort"

	"oss.terrastruct.com/d2/d2renderers/d2animate"
)

// C33: keyframe CSS of the real makeKeyframe (verif hook) for board schedules (n boards, interval T).
func main() { hl.Main("C33", runC33) }

func c33Case(n, T int, boards []int) map[string]any {
	css := make([]string, len(boards))
	for k, i := range boards {
		css[k] = d2animate.VerifMakeKeyframe(i*T, T, n*T, i, "h")
	}
	return map[string]any{"k": "anim", "in": map[string]any{"n": n, "T": T, "boards": boards},
		"out": map[string]any{"css": css}}
}

func allBoards(n int) []int {
	b := make([]int, n)
	for i := range b {
		b[i] = i
	}
	return b
}

func runC33(c *hl.Ctx) error {
	if cs := c.ReplayCase(); cs != nil {
		in := cs["in"].(map[string]any)
		var boards []int
		for _, x := range in["boards"].([]any) {
			boards = append(boards, int(x.(float64)))
		}
		c.Emit(c33Case(int(in["n"].(float64)), int(in["T"].(float64)), boards))
		return nil
	}
	r := c.Rand()
	// exhaustive small region: every n ≤ N with a set of intervals, all boards
	Ts := []int{2, 3, 5, 7, 10, 16, 20, 25, 32, 48, 50, 100, 101, 250, 1000, 1234, 5000}
	maxN := c.Pick(130, 260)
	for n := 1; n <= maxN; n++ {
		for _, T := range Ts {
			c.Emit(c33Case(n, T, allBoards(n)))
			c.Count("exhaustive")
		}
	}
	// random schedules up to n*T < 2^31, sampled boards incl. first, last and the ones before the last
	m := c.Pick(3000, 200000)
	for k := 0; k < m; k++ {
		var n, T int
		switch r.Intn(3) {
		case 0:
			n, T = 1+r.Intn(400), 2+r.Intn(3000)
			c.Count("random:small")
		case 1:
			n = 1 + r.Intn(20000)
			T = 2 + r.Intn((1<<31-1)/n-2)
			c.Count("random:large-total")
		default: // around the ceil(percentageEnd)=100 boundary: n slightly above 100 + 100/T
			T = 2 + r.Intn(2000)
			n = 95 + 100/T + r.Intn(15)
			c.Count("random:ceil-boundary")
		}
		set := map[int]bool{0: true, n - 1: true}
		for _, d := range []int{1, 2, 3} {
			if n-1-d >= 0 {
				set[n-1-d] = true
			}
		}
		for j := 0; j < 4; j++ {
			set[r.Intn(n)] = true
		}
		var boards []int
		for i := range set {
			boards = append(boards, i)
		}
		sort.Ints(boards)
		c.Emit(c33Case(n, T, boards))
	}
	return nil
}
