package main

// C32: ASCII rendering is total and keeps labels visible.
//
// Lays out generated programs with the real pipeline (ELK as the CLI does for text output, dagre for volume) and renders
// every board with the real d2ascii.ASCIIartist in both character sets, each call under recover. Emitted per board: the
// outcome and the bytes of both renders, the exported shapes (type, label) and every text the diagram carries.

import (
	"fmt"
	"strings"

	"oss.terrastruct.com/d2/d2renderers/d2ascii"
	"oss.terrastruct.com/d2/d2renderers/d2ascii/charset"
	"oss.terrastruct.com/d2/d2target"

	"d2v/harness/hl"
	"d2v/harness/outl"
)

func main() { hl.Main("C32", run) }

func render(w *outl.Worker, d *d2target.Diagram, cs charset.Type) map[string]any {
	var out []byte
	var err error
	res := hl.Guard(func() {
		a := d2ascii.NewASCIIartist()
		out, err = a.Render(w.Ctx, d, &d2ascii.RenderOpts{Charset: cs})
	})
	if res == "ok" && err != nil {
		res = "error: " + err.Error()
	}
	return map[string]any{"outcome": res, "hex": hl.Hx(out)}
}

func texts(d *d2target.Diagram) []string {
	var t []string
	add := func(s string) {
		if s != "" {
			t = append(t, s)
		}
	}
	for _, s := range d.Shapes {
		add(s.Label)
		for _, f := range s.Class.Fields {
			add(f.Name)
			add(f.Type)
			add(f.Visibility)
		}
		for _, m := range s.Class.Methods {
			add(m.Name)
			add(m.Return)
			add(m.Visibility)
		}
		for _, c := range s.SQLTable.Columns {
			add(c.Name.Label)
			add(c.Type.Label)
			add(c.ConstraintAbbr())
		}
	}
	for _, c := range d.Connections {
		add(c.Label)
		if c.SrcLabel != nil {
			add(c.SrcLabel.Label)
		}
		if c.DstLabel != nil {
			add(c.DstLabel.Label)
		}
	}
	return t
}

type job struct {
	src    string
	engine string
}

func boardCases(w *outl.Worker, j job, path string, d *d2target.Diagram, out *[]map[string]any) {
	shapes := []any{}
	for _, s := range d.Shapes {
		container := false
		for _, t := range d.Shapes {
			if strings.HasPrefix(t.ID, s.ID+".") {
				container = true
				break
			}
		}
		shapes = append(shapes, map[string]any{"id": s.ID, "type": s.Type, "label": s.Label, "w": s.Width, "h": s.Height, "multiple": s.Multiple,
			"pos": s.LabelPosition, "level": s.Level, "container": container, "icon": s.Icon != nil})
	}
	*out = append(*out, map[string]any{"k": "board",
		"in":  map[string]any{"src": j.src, "engine": j.engine, "board": path},
		"out": map[string]any{"ascii": render(w, d, charset.ASCII), "unicode": render(w, d, charset.Unicode), "shapes": shapes, "texts": texts(d), "nconn": len(d.Connections)},
		"triv": len(d.Shapes) == 0})
	for _, l := range d.Layers {
		boardCases(w, j, path+"/layers."+l.Name, l, out)
	}
	for _, l := range d.Scenarios {
		boardCases(w, j, path+"/scenarios."+l.Name, l, out)
	}
	for _, l := range d.Steps {
		boardCases(w, j, path+"/steps."+l.Name, l, out)
	}
}

func runJob(w *outl.Worker, j job) []map[string]any {
	d, _, err := w.Compile(j.src, j.engine, nil)
	if err != nil {
		return []map[string]any{{"k": "error", "in": map[string]any{"src": j.src, "engine": j.engine}, "out": map[string]any{"err": err.Error()}}}
	}
	var out []map[string]any
	boardCases(w, j, "root", d, &out)
	return out
}

var fixed = []string{
	"a: {shape: document}\nb: wide document label here {shape: document}\n",
	"x: café au lait\ny: 日本語\nx -> y: naïve\n",
	`a -> b: hello {source-arrowhead: 1; target-arrowhead: "*"}
c: {d -> e}
p: {shape: person}; q: {shape: cylinder}; r: {shape: hexagon}; s: {shape: cloud}; t: {shape: diamond}
u: {shape: class; +f: int; -m(): bool}
v: {shape: sql_table; id: int {constraint: primary_key}}
layers: {l: {k -> m: in layer}}
`,
}

func run(c *hl.Ctx) error {
	if cs := c.ReplayCase(); cs != nil {
		in := cs["in"].(map[string]any)
		w := outl.NewWorker()
		want, _ := in["board"].(string)
		for _, m := range runJob(w, job{src: in["src"].(string), engine: in["engine"].(string)}) {
			if b, _ := m["in"].(map[string]any)["board"].(string); b == want || m["k"] == "error" {
				c.Emit(m)
			}
		}
		return nil
	}
	r := c.Rand()
	n := c.Pick(300, 25000)
	if c.Search && c.Tier != "thorough" {
		n = 1500
	}
	var jobs []job
	for _, s := range fixed {
		jobs = append(jobs, job{s, "elk"}, job{s, "dagre"})
	}
	g := &outl.Gen{R: r, Special: true}
	for i := 0; i < n; i++ {
		g.StylesProb = []int{0, 5, 15}[r.Intn(3)]
		g.NonASCII = r.Intn(4) == 0
		g.MultiLine = r.Intn(4) == 0
		engine := "dagre"
		if r.Intn(8) == 0 {
			engine = "elk"
		}
		g.DescendantEdges = engine == "elk"
		jobs = append(jobs, job{g.Program(1+r.Intn(8), r.Intn(7)).Source(g), engine})
	}
	res := make([][]map[string]any, len(jobs))
	outl.Par(len(jobs), func(i int, w *outl.Worker) { res[i] = runJob(w, jobs[i]) })
	for i, rs := range res {
		for _, m := range rs {
			if m["k"] == "error" {
				c.Count("error:" + jobs[i].engine)
				continue
			}
			c.Emit(m)
			c.Count("board:" + jobs[i].engine)
			o := m["out"].(map[string]any)
			c.Count(fmt.Sprintf("shapes:%02d+", len(o["shapes"].([]any))/4*4))
		}
	}
	return nil
}
