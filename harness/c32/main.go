package main

// C32: ASCII rendering is total and keeps labels visible.
//
// Lays out generated programs with the real pipeline (ELK as the CLI does for text output, dagre for volume) and renders
// every board with the real d2ascii.ASCIIartist in both character sets, each call under recover. Emitted per board: the
// outcome and the bytes of both renders, the exported shapes (type, label) and every text the diagram carries.

import (
	"fmt"
	"math/rand"
	"strings"

	"oss.terrastruct.com/d2/d2renderers/d2ascii"
	"oss.terrastruct.com/d2/d2renderers/d2ascii/charset"
	"oss.terrastruct.com/d2/d2target"

	"d2v/harness/hl"
	"d2v/harness/outl"
)

func main() { hl.Main("C32", run) }

func render(w *outl.Worker, d *d2target.Diagram, cs charset.Type) map[string]any {
	var out []byte
	var err error
	res := hl.Guard(func() {
		a := d2ascii.NewASCIIartist()
		out, err = a.Render(w.Ctx, d, &d2ascii.RenderOpts{Charset: cs})
	})
	if res == "ok" && err != nil {
		res = "error: " + err.Error()
	}
	return map[string]any{"outcome": res, "hex": hl.Hx(out)}
}

func texts(d *d2target.Diagram) []string {
	t := []string{}
	add := func(s string) {
		if s != "" {
			t = append(t, s)
		}
	}
	for _, s := range d.Shapes {
		add(s.Label)
		for _, f := range s.Class.Fields {
			add(f.Name)
			add(f.Type)
			add(f.Visibility)
		}
		for _, m := range s.Class.Methods {
			add(m.Name)
			add(m.Return)
			add(m.Visibility)
		}
		for _, c := range s.SQLTable.Columns {
			add(c.Name.Label)
			add(c.Type.Label)
			add(c.ConstraintAbbr())
		}
	}
	for _, c := range d.Connections {
		add(c.Label)
		if c.SrcLabel != nil {
			add(c.SrcLabel.Label)
		}
		if c.DstLabel != nil {
			add(c.DstLabel.Label)
		}
	}
	return t
}

type job struct {
	src     string
	engine  string
	profile string // simple: top-level leaves only | chain: leaves + unlabelled connections | general
}

var simpleWords = []string{"alpha", "beta", "gamma", "delta", "a longer label here", "x", "42", "the quick brown fox", "Q", "ok go", "db-1", "a_b", "UPPER lower"}

// simpleProgram: 1..6 top-level leaf shapes with default label position and 7-bit single-line labels; with edges, a
// few unlabelled connections between distinct shapes
func simpleProgram(r *rand.Rand, edges bool) string {
	n := 1 + r.Intn(6)
	var sb strings.Builder
	for i := 0; i < n; i++ {
		fmt.Fprintf(&sb, "s%d: \"%s\"", i, simpleWords[r.Intn(len(simpleWords))])
		if r.Intn(3) > 0 {
			fmt.Fprintf(&sb, " {shape: %s}", outl.Shapes[r.Intn(len(outl.Shapes))])
		}
		sb.WriteString("\n")
	}
	if edges && n > 1 {
		for k := 0; k < 1+r.Intn(n); k++ {
			a, b := r.Intn(n), r.Intn(n)
			if a != b {
				fmt.Fprintf(&sb, "s%d %s s%d\n", a, []string{"->", "--", "<-", "<->"}[r.Intn(4)], b)
			}
		}
	}
	if r.Intn(3) == 0 {
		sb.WriteString("direction: " + []string{"up", "down", "left", "right"}[r.Intn(4)] + "\n")
	}
	return sb.String()
}

var nearPositions = []string{"top-left", "top-center", "top-right", "center-left", "center-right", "bottom-left", "bottom-center", "bottom-right"}

// nearProgram: a board whose extents reach far into negative coordinates — one to four plain rectangles (7-bit
// single-line labels, default label position, a few unlabelled connections) plus one constant-near rectangle of
// varying size (small … 900 px wide / tall) and label length at any of the eight near positions. Nothing overlaps a
// label on such a board, so every label has to come out; what varies is where the origin of the canvas ends up.
func nearProgram(r *rand.Rand) string {
	n := 1 + r.Intn(4)
	var sb strings.Builder
	if r.Intn(2) == 0 {
		sb.WriteString("direction: " + []string{"up", "down", "left", "right"}[r.Intn(4)] + "\n")
	}
	// short labels only: the renderer widens a box whose label needs more cells than its pixel width gives, and the
	// widened box then overlaps its neighbours (a known, separate defect) — that must not blur this profile
	short := []string{"alpha", "beta", "gamma", "delta", "x", "42", "Q", "ok go", "db-1", "a_b", "side"}
	for i := 0; i < n; i++ {
		fmt.Fprintf(&sb, "s%d: \"%s\"\n", i, short[r.Intn(len(short))])
	}
	for i := 1; i < n; i++ {
		fmt.Fprintf(&sb, "s%d -> s%d\n", r.Intn(i), i)
	}
	label := short[r.Intn(len(short))]
	fmt.Fprintf(&sb, "side: \"%s\" {\n  near: %s\n", label, nearPositions[r.Intn(len(nearPositions))])
	switch r.Intn(4) {
	case 0:
		fmt.Fprintf(&sb, "  width: %d\n", 200+r.Intn(700))
	case 1:
		fmt.Fprintf(&sb, "  height: %d\n", 150+r.Intn(500))
	case 2:
		fmt.Fprintf(&sb, "  width: %d\n  height: %d\n", 100+r.Intn(800), 60+r.Intn(500))
	}
	sb.WriteString("}\n")
	return sb.String()
}

// reuse renders the diagram twice with ONE artist, first in character set `first`, then in `second` (as a long-lived
// process that keeps its artist would), and returns the second render.
func reuse(w *outl.Worker, d *d2target.Diagram, first, second charset.Type, fresh map[string]any) map[string]any {
	var out []byte
	var err error
	res := hl.Guard(func() {
		a := d2ascii.NewASCIIartist()
		if _, err = a.Render(w.Ctx, d, &d2ascii.RenderOpts{Charset: first}); err != nil {
			return
		}
		out, err = a.Render(w.Ctx, d, &d2ascii.RenderOpts{Charset: second})
	})
	if res == "ok" && err != nil {
		res = "error: " + err.Error()
	}
	h := hl.Hx(out)
	if res == fresh["outcome"] && h == fresh["hex"] {
		return map[string]any{"same": true}
	}
	return map[string]any{"same": false, "outcome": res, "hex": h}
}

func boardCases(w *outl.Worker, j job, path string, d *d2target.Diagram, out *[]map[string]any) {
	shapes := []any{}
	for _, s := range d.Shapes {
		container := false
		for _, t := range d.Shapes {
			if strings.HasPrefix(t.ID, s.ID+".") {
				container = true
				break
			}
		}
		shapes = append(shapes, map[string]any{"id": s.ID, "type": s.Type, "label": s.Label, "w": s.Width, "h": s.Height, "multiple": s.Multiple,
			"pos": s.LabelPosition, "level": s.Level, "container": container, "icon": s.Icon != nil})
	}
	fa, fu := render(w, d, charset.ASCII), render(w, d, charset.Unicode)
	*out = append(*out, map[string]any{"k": "board",
		"in": map[string]any{"src": j.src, "engine": j.engine, "board": path, "profile": j.profile},
		"out": map[string]any{"ascii": fa, "unicode": fu,
			// the same artist instance reused across character sets, in both orders
			"asciiReused":   reuse(w, d, charset.Unicode, charset.ASCII, fa),
			"unicodeReused": reuse(w, d, charset.ASCII, charset.Unicode, fu),
			"shapes":        shapes, "texts": texts(d), "nconn": len(d.Connections)},
		"triv": len(d.Shapes) == 0})
	for _, l := range d.Layers {
		boardCases(w, j, path+"/layers."+l.Name, l, out)
	}
	for _, l := range d.Scenarios {
		boardCases(w, j, path+"/scenarios."+l.Name, l, out)
	}
	for _, l := range d.Steps {
		boardCases(w, j, path+"/steps."+l.Name, l, out)
	}
}

func runJob(w *outl.Worker, j job) []map[string]any {
	d, _, err := w.Compile(j.src, j.engine, nil)
	if err != nil {
		return []map[string]any{{"k": "error", "in": map[string]any{"src": j.src, "engine": j.engine}, "out": map[string]any{"err": err.Error()}}}
	}
	var out []map[string]any
	boardCases(w, j, "root", d, &out)
	return out
}

var fixed = []string{
	"a: {shape: document}\nb: wide document label here {shape: document}\n",
	"x: café au lait\ny: 日本語\nx -> y: naïve\n",
	`a -> b: hello {source-arrowhead: 1; target-arrowhead: "*"}
c: {d -> e}
p: {shape: person}; q: {shape: cylinder}; r: {shape: hexagon}; s: {shape: cloud}; t: {shape: diamond}
u: {shape: class; +f: int; -m(): bool}
v: {shape: sql_table; id: int {constraint: primary_key}}
layers: {l: {k -> m: in layer}}
`,
}

func run(c *hl.Ctx) error {
	if cs := c.ReplayCase(); cs != nil {
		in := cs["in"].(map[string]any)
		w := outl.NewWorker()
		want, _ := in["board"].(string)
		prof, _ := in["profile"].(string)
		for _, m := range runJob(w, job{src: in["src"].(string), engine: in["engine"].(string), profile: prof}) {
			if b, _ := m["in"].(map[string]any)["board"].(string); b == want || m["k"] == "error" {
				c.Emit(m)
			}
		}
		return nil
	}
	r := c.Rand()
	n := c.Pick(200, 5000)
	if c.Search && c.Tier != "thorough" {
		n = 1500
	}
	var jobs []job
	for _, s := range fixed {
		jobs = append(jobs, job{s, "elk", "general"}, job{s, "dagre", "general"})
	}
	g := &outl.Gen{R: r, Special: true}
	for i := 0; i < n; i++ {
		g.StylesProb = []int{0, 5, 15}[r.Intn(3)]
		g.NonASCII = r.Intn(4) == 0
		g.MultiLine = r.Intn(4) == 0
		engine := "dagre"
		if r.Intn(8) == 0 {
			engine = "elk"
		}
		g.DescendantEdges = engine == "elk"
		jobs = append(jobs, job{g.Program(1+r.Intn(8), r.Intn(7)).Source(g), engine, "general"})
	}
	for i := 0; i < n/2; i++ {
		engine := "dagre"
		if r.Intn(3) == 0 {
			engine = "elk"
		}
		if i%4 == 3 {
			jobs = append(jobs, job{nearProgram(r), engine, "near"})
		} else if i%3 == 0 {
			// one plain shape alone on the board: nothing can overlap its label
			src := fmt.Sprintf("s0: \"%s\"", simpleWords[r.Intn(len(simpleWords))])
			if r.Intn(5) > 0 {
				src += fmt.Sprintf(" {shape: %s}", outl.Shapes[r.Intn(len(outl.Shapes))])
			}
			jobs = append(jobs, job{src + "\n", engine, "single"})
		} else if i%3 == 1 {
			jobs = append(jobs, job{simpleProgram(r, false), engine, "simple"})
		} else {
			jobs = append(jobs, job{simpleProgram(r, true), engine, "chain"})
		}
	}
	// boards with negative-coordinate extents: fixed ones (a wide box left of / a tall box above a small graph) and
	// generated ones, through both engines
	for _, s := range []string{
		"side: side {\n  near: center-left\n  width: 700\n}\nfirst -> second -> third\nfirst -> fourth\n",
		"direction: right\nhead: head {\n  near: top-center\n  height: 500\n}\nfirst -> second -> third\nfirst -> fourth\n",
		"only: the only shape\nbig: big {\n  near: top-left\n  width: 600\n  height: 400\n}\n",
	} {
		jobs = append(jobs, job{s, "dagre", "near"}, job{s, "elk", "near"})
	}
	for i := 0; i < n/4; i++ {
		engine := "dagre"
		if r.Intn(3) == 0 {
			engine = "elk"
		}
		jobs = append(jobs, job{nearProgram(r), engine, "near"})
	}
	res := make([][]map[string]any, len(jobs))
	outl.Par(len(jobs), func(i int, w *outl.Worker) { res[i] = runJob(w, jobs[i]) })
	for i, rs := range res {
		for _, m := range rs {
			if m["k"] == "error" {
				c.Count("error:" + jobs[i].engine)
				continue
			}
			c.Emit(m)
			c.Count("board:" + jobs[i].engine)
			c.Count("profile:" + jobs[i].profile)
			o := m["out"].(map[string]any)
			c.Count(fmt.Sprintf("shapes:%02d+", len(o["shapes"].([]any))/4*4))
		}
	}
	return nil
}
