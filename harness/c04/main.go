package main

import (
	"d2v/harness/fmtlib"
	"d2v/harness/hl"
	"io/fs"
	"os"
	"sort"
	"strings"
	"testing/fstest"

	"oss.terrastruct.com/d2/d2ast"
	"oss.terrastruct.com/d2/d2compiler"
	"oss.terrastruct.com/d2/d2format"
	"oss.terrastruct.com/d2/d2parser"
)

// C04: Compile(s) and Compile(Format(Parse s)) project to the same diagram (boards, objects, connections,
// configuration).  The projection is computed here, the equality is evaluated by the Lean driver.
func main() { hl.Main("C04", run) }

var corpus = []string{
	"scenarios: {s: {y}}\nx\n",
	"x: Label\n",
	"x\nlayers: {l: {y}}\nz\n",
	"steps: {1: {a}; 2: {b}}\nc\n",
	"a -> b: Shape\n",
	"a -> Label\n",
	"x: {shape: Circle}\n",
	"SHAPE: circle\nx.STYLE.Fill: red\n",
	"\"layers\"\na\n",
	"\"layers\": {q: {r}}\na\n",
	"a: {\"steps\"}\n",
	"vars: {v: Label}\nx: ${v}\n",
	"x: 'Label'\ny: \"SHAPE\"\n",
	"a; b; c -> d\n",
	"x: [1;2]\n",
	"classes: {c: {style.fill: red}}\nx.class: c\nlayers: {l: {y.class: c}}\n",
	"x: {near: Top-Center}\n",
	"direction: Right\n",
	"a: {b: {c -> d: Link}}\n(a.b.c -> a.b.d)[0].style.stroke: red\n",
	"x\nscenarios: {s: {}}\n",
	"layers: {l: {x: null; x}}\n***.style.font-size: 18\n",
	"x.Shape: circle\n",
	"square: {Width: 200}\n",
	"LaYErS: {c: {d}}\nb\n",
	"x: lİnk\n",
	"a\nlayers: {l: {b}}\nscenarios: {s: {c}}\nsteps: {t: {d}; u: {e}}\n",
	"layers: {l: {b}}\na\nscenarios: {s: {c}}\n",
	"steps: {f: {db}}\n*.style.fill: red\nsteps: {x: {q}}\ndb\n",
	"meow \\\r\n\tok: x\r\n",
}

func compile(src string, files map[string]string) (proj map[string]any, cfg []string, errs string) {
	var fsys fs.FS
	mfs := fstest.MapFS{}
	for k, v := range files {
		mfs[k] = &fstest.MapFile{Data: []byte(v)}
	}
	mfs["index.d2"] = &fstest.MapFile{Data: []byte(src)}
	fsys = mfs
	outcome := hl.Guard(func() {
		g, c, err := d2compiler.Compile("index.d2", strings.NewReader(src), &d2compiler.CompileOptions{FS: fsys})
		if err != nil {
			errs = err.Error()
			if i := strings.IndexByte(errs, '\n'); i >= 0 {
				errs = errs[:i]
			}
			if len(errs) > 200 {
				errs = errs[:200]
			}
			return
		}
		proj = fmtlib.ProjGraph(g)
		cfg = fmtlib.ProjConfig(c)
	})
	if outcome != "ok" {
		errs = outcome
	}
	return
}

// source features used only to name signatures (see Drv/C04.lean)
func srcFeatures(m *d2ast.Map) []string {
	set := map[string]bool{}
	checkStr := func(s d2ast.String, inKey bool) {
		u, ok := s.(*d2ast.UnquotedString)
		if !ok {
			return
		}
		for _, b := range u.Value {
			if b.String == nil {
				continue
			}
			raw := *b.String
			if b.StringRaw != nil {
				raw = *b.StringRaw
			}
			low := strings.ToLower(raw)
			if _, ok := d2ast.ReservedKeywords[low]; ok && low != raw {
				if inKey {
					set["kwcase:key-segment"] = true
				} else {
					set["kwcase:value"] = true
				}
			}
		}
	}
	var walkMap func(m *d2ast.Map)
	walkPath := func(k *d2ast.KeyPath, edgeEnd bool) {
		if k == nil {
			return
		}
		for _, sb := range k.Path {
			if sb.Unbox() != nil {
				checkStr(sb.Unbox(), true)
			}
		}
	}
	var walkVal func(n d2ast.Node)
	walkVal = func(n d2ast.Node) {
		switch v := n.(type) {
		case *d2ast.Map:
			walkMap(v)
		case *d2ast.Array:
			for _, nb := range v.Nodes {
				if x := nb.Unbox(); x != nil {
					walkVal(x)
				}
			}
		case *d2ast.UnquotedString:
			checkStr(v, false)
		case *d2ast.Import:
			for _, sb := range v.Path {
				if sb.Unbox() != nil {
					low := strings.ToLower(sb.Unbox().ScalarString())
					if _, ok := d2ast.ReservedKeywords[low]; ok && low != sb.Unbox().ScalarString() {
						set["kwcase:import"] = true
					}
				}
			}
		}
	}
	walkMap = func(m *d2ast.Map) {
		seenInherit, seenLayer := false, false
		for _, nb := range m.Nodes {
			if nb.IsBoardNode() {
				name := nb.MapKey.Key.Path[0].Unbox().ScalarString()
				_, unq := nb.MapKey.Key.Path[0].Unbox().(*d2ast.UnquotedString)
				if !unq {
					set["boards:quoted-key"] = true
				}
				if name == "layers" {
					seenLayer = true
				} else {
					seenInherit = true
				}
				if !(nb.MapKey.Value.Map != nil && len(nb.MapKey.Value.Map.Nodes) > 0) {
					set["boards:dropped"] = true
				} else {
					// a board entry written `name: {}` is printed as `name` (mapKey drops empty maps)
					for _, e := range nb.MapKey.Value.Map.Nodes {
						if e.MapKey != nil && e.MapKey.Value.Map != nil && len(e.MapKey.Value.Map.Nodes) == 0 {
							set["boards:empty-entry"] = true
						}
					}
				}
			} else if nb.Comment == nil && nb.BlockComment == nil {
				if seenInherit {
					set["boards:decl-after-scenarios-or-steps"] = true
				}
				if seenLayer {
					set["boards:decl-after-layers"] = true
				}
			}
			if nb.MapKey != nil {
				if nb.MapKey.HasTripleGlob() {
					set["glob:triple"] = true
				}
				if nb.MapKey.HasGlob() {
					set["glob:any"] = true
				}
				walkPath(nb.MapKey.Key, false)
				for _, e := range nb.MapKey.Edges {
					walkPath(e.Src, true)
					walkPath(e.Dst, true)
				}
				walkPath(nb.MapKey.EdgeKey, false)
				if p := nb.MapKey.Primary.Unbox(); p != nil {
					walkVal(p)
				}
				if v := nb.MapKey.Value.Unbox(); v != nil {
					walkVal(v)
				}
			}
			if nb.Import != nil {
				walkVal(nb.Import)
			}
		}
	}
	walkMap(m)
	out := make([]string, 0, len(set))
	for k := range set {
		out = append(out, k)
	}
	sort.Strings(out)
	return out
}

func emitCase(c *hl.Ctx, origin, src string, files map[string]string, feat []string) {
	in := map[string]any{"src": hl.Hx([]byte(src))}
	if len(files) > 0 {
		in["files"] = files
	}
	out := map[string]any{}
	cs := map[string]any{"k": "sem", "in": in, "out": out, "origin": origin, "feat": feat}
	g1, cfg1, err1 := compile(src, files)
	if err1 != "" {
		out["cerr"] = err1
		cs["triv"] = true
		if strings.HasPrefix(err1, "panic") {
			c.Count("outcome:compile-panic")
		} else {
			c.Count("outcome:compile-error")
		}
		c.Emit(cs)
		return
	}
	c.Count("outcome:compiled")
	m, perr := d2parser.Parse("index.d2", strings.NewReader(src), nil)
	if perr != nil {
		out["cerr"] = "parse error after successful compile: " + perr.Error()
		cs["triv"] = true
		c.Emit(cs)
		return
	}
	sf := srcFeatures(m)
	if strings.Contains(src, "\\\r\n") {
		sf = append(sf, "text:backslash-crlf")
	}
	out["sf"] = sf
	for _, f := range sf {
		c.Count("src:" + f)
	}
	if ast, _ := fmtlib.Frag(m); ast != nil {
		out["ast"] = ast
		c.Count("fragment:in")
	}
	f1 := d2format.Format(m)
	out["f1"] = hl.Hx([]byte(f1))
	out["g1"] = g1
	out["cfg1"] = cfg1
	g2, cfg2, err2 := compile(f1, files)
	if err2 != "" {
		out["c2err"] = err2
	} else {
		out["g2"] = g2
		out["cfg2"] = cfg2
	}
	c.Emit(cs)
}

func run(c *hl.Ctx) error {
	if cs := c.ReplayCase(); cs != nil {
		in := cs["in"].(map[string]any)
		files := map[string]string{}
		if fm, ok := in["files"].(map[string]any); ok {
			for k, v := range fm {
				files[k] = v.(string)
			}
		}
		emitCase(c, "replay", string(hl.Unhx(in["src"].(string))), files, nil)
		return nil
	}
	r := c.Rand()
	for _, s := range corpus {
		emitCase(c, "corpus", s, nil, nil)
		c.Count("origin:corpus")
	}
	repo := os.Getenv("D2V_REPO")
	if repo == "" {
		repo = "/repo"
	}
	seeds := fmtlib.LoadSeeds(repo)
	for _, s := range seeds {
		emitCase(c, s.Name, s.Src, nil, nil)
		c.Count("origin:seed:" + s.Name[:strings.IndexByte(s.Name, ':')])
	}
	nm := c.Pick(600, 15000)
	for i := 0; i < nm && len(seeds) > 0; i++ {
		s := seeds[r.Intn(len(seeds))]
		src, what := fmtlib.Mutate(r, s.Src)
		emitCase(c, "mut:"+s.Name, src, nil, []string{what})
		c.Count(what)
	}
	g := &fmtlib.Gen{R: r}
	n := c.Pick(3500, 100000)
	forced := 0
	for i := 0; i < n; i++ {
		prof := fmtlib.Profiles[r.Intn(len(fmtlib.Profiles))]
		if i%10 < 2 {
			prof = "boards"
		} else if i%10 < 4 {
			prof = "kwcase"
		}
		p := g.Program(prof)
		if i%8 == 7 {
			p = g.EvalCore() // evaluator sub-fragment: ties the abstract evaluator (FmtSem) to Compile
		}
		hasForced := false
		for _, f := range p.Feat {
			c.Count("gen:" + f)
			if strings.HasPrefix(f, "boardpos:") || strings.HasPrefix(f, "kwcase:") {
				hasForced = true
			}
		}
		if hasForced {
			forced++
			c.Count("gen:forced-boardpos-or-kwcase")
		}
		emitCase(c, "gen:"+prof, p.Src, p.Files, p.Feat)
	}
	return nil
}
