package main

import (
	"d2v/harness/fmtlib"
	"d2v/harness/hl"
	"io/fs"
	"os"
	"sort"
	"strings"
	"testing/fstest"

	"oss.terrastruct.com/d2/d2ast"
	"oss.terrastruct.com/d2/d2compiler"
	"oss.terrastruct.com/d2/d2format"
	"oss.terrastruct.com/d2/d2parser"
)

// C04: Compile(s) and Compile(Format(Parse s)) project to the same diagram (boards, objects, connections,
// configuration).  The projection is computed here, the equality is evaluated by the Lean driver.
func main() { hl.Main("C04", run) }

var corpus = []string{
	"scenarios: {s: {y}}\nx\n",
	"x: Label\n",
	"x\nlayers: {l: {y}}\nz\n",
	"steps: {1: {a}; 2: {b}}\nc\n",
	"a -> b: Shape\n",
	"a -> Label\n",
	"x: {shape: Circle}\n",
	"SHAPE: circle\nx.STYLE.Fill: red\n",
	"\"layers\"\na\n",
	"\"layers\": {q: {r}}\na\n",
	"a: {\"steps\"}\n",
	"vars: {v: Label}\nx: ${v}\n",
	"x: 'Label'\ny: \"SHAPE\"\n",
	"a; b; c -> d\n",
	"x: [1;2]\n",
	"classes: {c: {style.fill: red}}\nx.class: c\nlayers: {l: {y.class: c}}\n",
	"x: {near: Top-Center}\n",
	"direction: Right\n",
	"a: {b: {c -> d: Link}}\n(a.b.c -> a.b.d)[0].style.stroke: red\n",
	"x\nscenarios: {s: {}}\n",
	"layers: {l: {x: null; x}}\n***.style.font-size: 18\n",
	"x.Shape: circle\n",
	"square: {Width: 200}\n",
	"LaYErS: {c: {d}}\nb\n",
	"x: lİnk\n",
	"a\nlayers: {l: {b}}\nscenarios: {s: {c}}\nsteps: {t: {d}; u: {e}}\n",
	"layers: {l: {b}}\na\nscenarios: {s: {c}}\n",
	"steps: {f: {db}}\n*.style.fill: red\nsteps: {x: {q}}\ndb\n",
	"meow \\\r\n\tok: x\r\n",
	"steps: {a: {x}}\nsteps.b.y\n",
	"layers.detail.a.shape: circle\nscenarios.hot.x: burning\nlayers.detail.a\nq\n",
	"vars: {d: x}\na: ${d}null\nb: \"${d}true\"\n",
}

func compile(src string, files map[string]string) (proj map[string]any, cfg []string, errs string) {
	var fsys fs.FS
	mfs := fstest.MapFS{}
	for k, v := range files {
		mfs[k] = &fstest.MapFile{Data: []byte(v)}
	}
	mfs["index.d2"] = &fstest.MapFile{Data: []byte(src)}
	fsys = mfs
	outcome := hl.Guard(func() {
		g, c, err := d2compiler.Compile("index.d2", strings.NewReader(src), &d2compiler.CompileOptions{FS: fsys})
		if err != nil {
			errs = err.Error()
			if i := strings.IndexByte(errs, '\n'); i >= 0 {
				errs = errs[:i]
			}
			if len(errs) > 200 {
				errs = errs[:200]
			}
			return
		}
		proj = fmtlib.ProjGraph(g)
		cfg = fmtlib.ProjConfig(c)
	})
	if outcome != "ok" {
		errs = outcome
	}
	return
}

// source features used only to name signatures (see Drv/C04.lean)
func srcFeatures(m *d2ast.Map) []string {
	set := map[string]bool{}
	checkStr := func(s d2ast.String, inKey bool) {
		u, ok := s.(*d2ast.UnquotedString)
		if !ok {
			return
		}
		for _, b := range u.Value {
			if b.String == nil {
				continue
			}
			raw := *b.String
			if b.StringRaw != nil {
				raw = *b.StringRaw
			}
			low := strings.ToLower(raw)
			if _, ok := d2ast.ReservedKeywords[low]; ok && low != raw {
				if inKey {
					set["kwcase:key-segment"] = true
				} else {
					set["kwcase:value"] = true
				}
			}
		}
	}
	var walkMap func(m *d2ast.Map)
	walkPath := func(k *d2ast.KeyPath, edgeEnd bool) {
		if k == nil {
			return
		}
		for _, sb := range k.Path {
			if sb.Unbox() != nil {
				checkStr(sb.Unbox(), true)
			}
		}
	}
	var walkVal func(n d2ast.Node)
	walkVal = func(n d2ast.Node) {
		switch v := n.(type) {
		case *d2ast.Map:
			walkMap(v)
		case *d2ast.Array:
			for _, nb := range v.Nodes {
				if x := nb.Unbox(); x != nil {
					walkVal(x)
				}
			}
		case *d2ast.UnquotedString:
			checkStr(v, false)
		case *d2ast.Import:
			for _, sb := range v.Path {
				if sb.Unbox() != nil {
					low := strings.ToLower(sb.Unbox().ScalarString())
					if _, ok := d2ast.ReservedKeywords[low]; ok && low != sb.Unbox().ScalarString() {
						set["kwcase:import"] = true
					}
				}
			}
		}
	}
	walkMap = func(m *d2ast.Map) {
		seenInherit, seenLayer := false, false
		for _, nb := range m.Nodes {
			if nb.IsBoardNode() {
				name := nb.MapKey.Key.Path[0].Unbox().ScalarString()
				_, unq := nb.MapKey.Key.Path[0].Unbox().(*d2ast.UnquotedString)
				if !unq {
					set["boards:quoted-key"] = true
				}
				if name == "layers" {
					seenLayer = true
				} else {
					seenInherit = true
				}
				if !(nb.MapKey.Value.Map != nil && len(nb.MapKey.Value.Map.Nodes) > 0) {
					set["boards:dropped"] = true
				} else {
					// a board entry written `name: {}` is printed as `name` (mapKey drops empty maps)
					for _, e := range nb.MapKey.Value.Map.Nodes {
						if e.MapKey != nil && e.MapKey.Value.Map != nil && len(e.MapKey.Value.Map.Nodes) == 0 {
							set["boards:empty-entry"] = true
						}
					}
				}
			} else if nb.Comment == nil && nb.BlockComment == nil {
				// a flat key into a board (`steps.b.y`) behind a board block: Format moves the block behind it
				if (seenInherit || seenLayer) && nb.MapKey != nil && nb.MapKey.Key != nil && len(nb.MapKey.Key.Path) > 1 {
					if u, ok := nb.MapKey.Key.Path[0].Unbox().(*d2ast.UnquotedString); ok {
						if _, isB := d2ast.BoardKeywords[strings.ToLower(u.ScalarString())]; isB {
							set["boards:flat-key-after-block"] = true
						}
					}
				}
				if seenInherit {
					set["boards:decl-after-scenarios-or-steps"] = true
				}
				if seenLayer {
					set["boards:decl-after-layers"] = true
				}
			}
			if nb.MapKey != nil {
				if nb.MapKey.HasTripleGlob() {
					set["glob:triple"] = true
				}
				if nb.MapKey.HasGlob() {
					set["glob:any"] = true
				}
				walkPath(nb.MapKey.Key, false)
				for _, e := range nb.MapKey.Edges {
					walkPath(e.Src, true)
					walkPath(e.Dst, true)
				}
				walkPath(nb.MapKey.EdgeKey, false)
				if p := nb.MapKey.Primary.Unbox(); p != nil {
					walkVal(p)
				}
				if v := nb.MapKey.Value.Unbox(); v != nil {
					walkVal(v)
				}
			}
			if nb.Import != nil {
				walkVal(nb.Import)
			}
		}
	}
	walkMap(m)
	out := make([]string, 0, len(set))
	for k := range set {
		out = append(out, k)
	}
	sort.Strings(out)
	return out
}

// declSigs lists every declaration (map key) of a file with its context, case-folded and without quoting:
// "ctx > key" where key = dotted key path / edge chain [index] . edge key.  Format must not lose or invent any
// of them except the board keys it drops on purpose (a layers/scenarios/steps key without a non-empty map).
func declSigs(m *d2ast.Map) (sigs map[string]int, droppable map[string]bool) {
	sigs, droppable = map[string]int{}, map[string]bool{}
	pathStr := func(k *d2ast.KeyPath) string {
		if k == nil {
			return ""
		}
		parts := make([]string, 0, len(k.Path))
		for _, sb := range k.Path {
			if sb.Unbox() != nil {
				parts = append(parts, strings.ToLower(sb.Unbox().ScalarString()))
			}
		}
		return strings.Join(parts, ".")
	}
	var walkMap func(m *d2ast.Map, ctx string)
	var walkVal func(n d2ast.Node, ctx string)
	walkVal = func(n d2ast.Node, ctx string) {
		switch v := n.(type) {
		case *d2ast.Map:
			walkMap(v, ctx)
		case *d2ast.Array:
			for i, nb := range v.Nodes {
				if x := nb.Unbox(); x != nil {
					walkVal(x, ctx+"["+string(rune('0'+i%10))+"]")
				}
			}
		}
	}
	walkMap = func(m *d2ast.Map, ctx string) {
		for _, nb := range m.Nodes {
			mk := nb.MapKey
			if mk == nil {
				continue
			}
			key := pathStr(mk.Key)
			if len(mk.Edges) > 0 {
				key += "(" + pathStr(mk.Edges[0].Src)
				for _, e := range mk.Edges {
					key += " " + e.SrcArrow + "-" + e.DstArrow + " " + pathStr(e.Dst)
				}
				key += ")"
				if mk.EdgeIndex != nil {
					if mk.EdgeIndex.Glob {
						key += "[*]"
					} else if mk.EdgeIndex.Int != nil {
						key += "[" + strings.Repeat("i", *mk.EdgeIndex.Int%7+1) + "]"
					}
				}
				key += "." + pathStr(mk.EdgeKey)
			}
			if mk.Ampersand {
				key = "&" + key
			} else if mk.NotAmpersand {
				key = "!&" + key
			}
			sig := ctx + " > " + key
			sigs[sig]++
			if nb.IsBoardNode() && len(mk.Key.Path) == 1 && !(mk.Value.Map != nil && len(mk.Value.Map.Nodes) > 0) {
				droppable[sig] = true
			}
			if v := mk.Value.Unbox(); v != nil {
				walkVal(v, sig)
			}
		}
	}
	walkMap(m, "")
	return
}

// declFeatures compares the declarations of the source and of the formatted text
func declFeatures(m *d2ast.Map, f1 string) []string {
	m1, err := d2parser.Parse("index.d2", strings.NewReader(f1), nil)
	if err != nil {
		return nil
	}
	a, drop := declSigs(m)
	b, _ := declSigs(m1)
	var out []string
	lost, gained := false, false
	for k, n := range a {
		if b[k] < n && !drop[k] {
			lost = true
		}
	}
	for k, n := range b {
		if a[k] < n {
			gained = true
		}
	}
	if lost {
		out = append(out, "decl:lost")
	}
	if gained {
		out = append(out, "decl:gained")
	}
	return out
}

func emitCase(c *hl.Ctx, origin, src string, files map[string]string, feat []string) {
	in := map[string]any{"src": hl.Hx([]byte(src))}
	if len(files) > 0 {
		in["files"] = files
	}
	out := map[string]any{}
	cs := map[string]any{"k": "sem", "in": in, "out": out, "origin": origin, "feat": feat}
	g1, cfg1, err1 := compile(src, files)
	if err1 != "" {
		out["cerr"] = err1
		cs["triv"] = true
		if strings.HasPrefix(err1, "panic") {
			c.Count("outcome:compile-panic")
		} else {
			c.Count("outcome:compile-error")
		}
		c.Emit(cs)
		return
	}
	c.Count("outcome:compiled")
	m, perr := d2parser.Parse("index.d2", strings.NewReader(src), nil)
	if perr != nil {
		out["cerr"] = "parse error after successful compile: " + perr.Error()
		cs["triv"] = true
		c.Emit(cs)
		return
	}
	sf := srcFeatures(m)
	if strings.Contains(src, "\\\r\n") {
		sf = append(sf, "text:backslash-crlf")
	}
	out["sf"] = sf
	for _, f := range sf {
		c.Count("src:" + f)
	}
	if ast, _ := fmtlib.Frag(m); ast != nil {
		out["ast"] = ast
		c.Count("fragment:in")
	}
	// declSigs must see the tree before Format (it reads ranges only through IsBoardNode, but keep the order simple)
	srcSigsTree := m
	f1 := d2format.Format(m)
	if df := declFeatures(srcSigsTree, f1); len(df) > 0 {
		sf = append(sf, df...)
		out["sf"] = sf
		for _, f := range df {
			c.Count("src:" + f)
		}
	}
	out["f1"] = hl.Hx([]byte(f1))
	out["g1"] = g1
	out["cfg1"] = cfg1
	g2, cfg2, err2 := compile(f1, files)
	if err2 != "" {
		out["c2err"] = err2
	} else {
		out["g2"] = g2
		out["cfg2"] = cfg2
	}
	c.Emit(cs)
}

func run(c *hl.Ctx) error {
	if cs := c.ReplayCase(); cs != nil {
		in := cs["in"].(map[string]any)
		files := map[string]string{}
		if fm, ok := in["files"].(map[string]any); ok {
			for k, v := range fm {
				files[k] = v.(string)
			}
		}
		emitCase(c, "replay", string(hl.Unhx(in["src"].(string))), files, nil)
		return nil
	}
	r := c.Rand()
	for _, s := range corpus {
		emitCase(c, "corpus", s, nil, nil)
		c.Count("origin:corpus")
	}
	repo := os.Getenv("D2V_REPO")
	if repo == "" {
		repo = "/repo"
	}
	seeds := fmtlib.LoadSeeds(repo)
	for _, s := range seeds {
		emitCase(c, s.Name, s.Src, nil, nil)
		c.Count("origin:seed:" + s.Name[:strings.IndexByte(s.Name, ':')])
	}
	nm := c.Pick(600, 15000)
	for i := 0; i < nm && len(seeds) > 0; i++ {
		s := seeds[r.Intn(len(seeds))]
		src, what := fmtlib.Mutate(r, s.Src)
		emitCase(c, "mut:"+s.Name, src, nil, []string{what})
		c.Count(what)
	}
	g := &fmtlib.Gen{R: r}
	n := c.Pick(3500, 100000)
	forced := 0
	for i := 0; i < n; i++ {
		prof := fmtlib.Profiles[r.Intn(len(fmtlib.Profiles))]
		if i%10 < 2 {
			prof = "boards"
		} else if i%10 < 4 {
			prof = "kwcase"
		}
		p := g.Program(prof)
		if i%8 == 7 {
			p = g.EvalCore() // evaluator sub-fragment: ties the abstract evaluator (FmtSem) to Compile
		}
		hasForced := false
		for _, f := range p.Feat {
			c.Count("gen:" + f)
			if strings.HasPrefix(f, "boardpos:") || strings.HasPrefix(f, "kwcase:") {
				hasForced = true
			}
		}
		if hasForced {
			forced++
			c.Count("gen:forced-boardpos-or-kwcase")
		}
		emitCase(c, "gen:"+prof, p.Src, p.Files, p.Feat)
	}
	return nil
}
