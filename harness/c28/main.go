package main

// C28: export is one-to-one and user styles override theme defaults.
//
// Compiles generated styled programs with the real d2lib.Compile under every catalog theme (core layout replaced by a
// placement stub — the exporter does not look at coordinates; a sample goes through dagre) and emits, per board, the
// compiled graph as the exporter sees it (object tree, raw style strings, the d2graph defaults GetFill / GetStroke /
// Text()) together with the exported shapes and connections.

import (
	"context"
	"fmt"
	"strings"

	"oss.terrastruct.com/d2/d2graph"
	"oss.terrastruct.com/d2/d2lib"
	"oss.terrastruct.com/d2/d2renderers/d2svg"
	"oss.terrastruct.com/d2/d2target"
	"oss.terrastruct.com/d2/d2themes/d2themescatalog"
	"oss.terrastruct.com/d2/lib/geo"

	"d2v/harness/hl"
	"d2v/harness/outl"
)

func main() { hl.Main("C28", run) }

func stubLayout(ctx context.Context, g *d2graph.Graph) error {
	x := 0.
	for _, o := range g.Objects {
		o.TopLeft = geo.NewPoint(x, 0)
		if o.Width == 0 {
			o.Width = 50
		}
		if o.Height == 0 {
			o.Height = 50
		}
		x += o.Width + 10
	}
	for _, e := range g.Edges {
		e.Route = []*geo.Point{e.Src.Center(), e.Dst.Center()}
	}
	return nil
}

func compileStub(w *outl.Worker, src string, theme int64) (d *d2target.Diagram, g *d2graph.Graph, err error) {
	layout := "stub"
	co := &d2lib.CompileOptions{
		Ruler:  w.Ruler,
		Layout: &layout,
		LayoutResolver: func(engine string) (d2graph.LayoutGraph, error) {
			return stubLayout, nil
		},
	}
	ro := &d2svg.RenderOpts{ThemeID: &theme}
	out := hl.Guard(func() { d, g, err = d2lib.Compile(w.Ctx, src, co, ro) })
	if out != "ok" {
		return nil, nil, fmt.Errorf("%s", out)
	}
	return
}

func styleMap(s d2graph.Style) map[string]string {
	m := map[string]string{}
	put := func(k string, v *d2graph.Scalar) {
		if v != nil {
			m[k] = v.Value
		}
	}
	put("opacity", s.Opacity)
	put("strokeDash", s.StrokeDash)
	put("fill", s.Fill)
	put("fillPattern", s.FillPattern)
	put("stroke", s.Stroke)
	put("strokeWidth", s.StrokeWidth)
	put("shadow", s.Shadow)
	put("threeDee", s.ThreeDee)
	put("multiple", s.Multiple)
	put("borderRadius", s.BorderRadius)
	put("fontColor", s.FontColor)
	put("italic", s.Italic)
	put("bold", s.Bold)
	put("underline", s.Underline)
	put("font", s.Font)
	put("doubleBorder", s.DoubleBorder)
	put("fontSize", s.FontSize)
	put("animated", s.Animated)
	return m
}

func boardCase(theme int64, path string, g *d2graph.Graph, d *d2target.Diagram, src string) map[string]any {
	idx := map[*d2graph.Object]int{}
	for i, o := range g.Objects {
		idx[o] = i
	}
	objs := []any{}
	for _, o := range g.Objects {
		parent := -1
		if o.Parent != nil && o.Parent != g.Root {
			if p, ok := idx[o.Parent]; ok {
				parent = p
			} else {
				parent = -2 // parent not among g.Objects: reported, the model will not find it
			}
		}
		// the font size Text() picks without style.font-size, before the class/table header add
		saved := o.Style.FontSize
		o.Style.FontSize = nil
		fsDef := o.Text().FontSize
		o.Style.FontSize = saved
		if o.Class != nil || o.SQLTable != nil {
			fsDef -= d2target.HeaderFontAdd
		}
		t := o.Text()
		m := map[string]any{
			"id": o.ID, "parent": parent, "shape": o.Shape.Value, "level": int(o.Level()), "nch": len(o.ChildrenArray),
			"seq": o.IsSequenceDiagram(), "grp": o.IsSequenceDiagramGroup(), "cls": o.Class != nil, "tbl": o.SQLTable != nil,
			"style": styleMap(o.Style), "fillDef": o.GetFill(), "strokeSolid": o.GetStroke(0.0), "strokeDashed": o.GetStroke(1.0),
			"tBold": t.IsBold, "tItalic": t.IsItalic, "fsDef": fsDef,
		}
		if o.IconStyle.BorderRadius != nil {
			m["iconBR"] = o.IconStyle.BorderRadius.Value
		}
		objs = append(objs, m)
	}
	// chain of IDs from the outermost ancestor to the object, read off the Parent pointers (not through AbsID)
	chain := func(o *d2graph.Object) []string {
		var rev []string
		for p := o; p != nil && p.Parent != nil; p = p.Parent {
			rev = append(rev, p.ID)
		}
		out := make([]string, 0, len(rev))
		for i := len(rev) - 1; i >= 0; i-- {
			out = append(out, rev[i])
		}
		return out
	}
	// ID of the parentless object a chain ends in when that is not the board's root (a synthetic sequence-diagram
	// lifeline end has no parent at all); "" when the chain ends in the root
	top := func(o *d2graph.Object) string {
		p := o
		for p.Parent != nil {
			p = p.Parent
		}
		if p == g.Root {
			return ""
		}
		return p.ID
	}
	edges := []any{}
	for _, e := range g.Edges {
		si, ok1 := idx[e.Src]
		di, ok2 := idx[e.Dst]
		if !ok1 {
			si = -1 // synthetic end point (sequence-diagram lifeline end): not an object of the graph
		}
		if !ok2 {
			di = -1
		}
		edges = append(edges, map[string]any{
			"src": si, "dst": di, "srcPath": chain(e.Src), "dstPath": chain(e.Dst), "srcTop": top(e.Src), "dstTop": top(e.Dst),
			"srcArrow": e.SrcArrow, "dstArrow": e.DstArrow, "index": e.Index,
			"style": styleMap(e.Style), "tfs": e.Text().FontSize,
		})
	}
	shapes := []any{}
	for _, s := range d.Shapes {
		shapes = append(shapes, map[string]any{
			"id": s.ID, "opacity": hl.Rat(s.Opacity), "strokeDash": hl.Rat(s.StrokeDash), "strokeWidth": s.StrokeWidth,
			"fill": s.Fill, "stroke": s.Stroke, "fillPattern": s.FillPattern, "shadow": s.Shadow, "threeDee": s.ThreeDee,
			"multiple": s.Multiple, "doubleBorder": s.DoubleBorder, "borderRadius": s.BorderRadius, "color": s.Color,
			"italic": s.Italic, "bold": s.Bold, "underline": s.Underline, "fontFamily": s.FontFamily, "fontSize": s.FontSize,
			"animated": s.Animated, "iconBR": s.IconBorderRadius, "blend": s.Blend,
		})
	}
	conns := []any{}
	for _, c := range d.Connections {
		conns = append(conns, map[string]any{
			"id": c.ID, "src": c.Src, "dst": c.Dst, "opacity": hl.Rat(c.Opacity), "strokeDash": hl.Rat(c.StrokeDash),
			"strokeWidth": c.StrokeWidth, "borderRadius": hl.Rat(c.BorderRadius), "stroke": c.Stroke, "fill": c.Fill,
			"fontSize": c.FontSize, "animated": c.Animated, "italic": c.Italic, "bold": c.Bold, "underline": c.Underline,
			"color": c.Color, "fontFamily": c.FontFamily,
		})
	}
	hasTheme := g.Theme != nil
	return map[string]any{"k": "board",
		"in":  map[string]any{"theme": theme, "board": path, "hasTheme": hasTheme, "objects": objs, "edges": edges, "src": src},
		"out": map[string]any{"shapes": shapes, "conns": conns},
		"triv": len(objs) == 0}
}

func walk(theme int64, path string, g *d2graph.Graph, d *d2target.Diagram, src string, out *[]map[string]any) {
	*out = append(*out, boardCase(theme, path, g, d, src))
	sub := func(kind string, gs []*d2graph.Graph, ds []*d2target.Diagram) {
		for i := range gs {
			if i < len(ds) {
				walk(theme, path+"/"+kind+"."+gs[i].Name, gs[i], ds[i], src, out)
			}
		}
	}
	sub("layers", g.Layers, d.Layers)
	sub("scenarios", g.Scenarios, d.Scenarios)
	sub("steps", g.Steps, d.Steps)
}

type job struct {
	src   string
	theme int64
	real  bool // dagre instead of the stub
}

func runJob(w *outl.Worker, j job) []map[string]any {
	var d *d2target.Diagram
	var g *d2graph.Graph
	var err error
	if j.real {
		d, g, err = w.Compile(j.src, "dagre", &d2svg.RenderOpts{ThemeID: &j.theme})
	} else {
		d, g, err = compileStub(w, j.src, j.theme)
	}
	if err != nil {
		return []map[string]any{{"k": "error", "in": map[string]any{"theme": j.theme, "src": j.src, "real": j.real}, "out": map[string]any{"err": err.Error()}}}
	}
	var out []map[string]any
	walk(j.theme, "root", g, d, j.src, &out)
	for _, m := range out {
		m["in"].(map[string]any)["real"] = j.real
	}
	return out
}

// programs with boards and with theme-sensitive structure (containers at level 1/2, persons, text, tables)
var fixed = []string{
	`a: {style.fill: red; style.stroke: "#00f"; style.font-color: green; b: {style.stroke-dash: 3; c: {shape: person; style.fill: orange}}}
p: {shape: person; style.stroke: black}
q: {shape: c4-person}
t: {shape: text; label: hello; style.font-color: "#123"}
tb: {shape: sql_table; x: int; style.font-size: 20; style.fill: honeydew}
cl: {shape: class; +f: int; style.font-size: 30; style.stroke: red}
a.b.c -> p: l {style.stroke: red; style.font-color: blue; style.stroke-dash: 2; style.font: mono}
p -> q {style.border-radius: 3}
q <-> t: x {style.italic: false; style.bold: true; style.underline: true; style.opacity: 0.4; style.font-size: 33; style.animated: true}
`,
	`x -> y
layers: {
  l1: {m: {style.fill: "#abc"; style.double-border: false; n}; m.n -> m.n: self {style.stroke-width: 5}}
  l2: {k: {shape: oval; style.double-border: true; style.fill-pattern: lines}}
}
scenarios: {s1: {x.style.fill: red; x.style.fill-pattern: none}}
steps: {1: {z: {style.shadow: true}}; 2: {w: {style.3d: true}}}
`,
	`sd: {shape: sequence_diagram; style.stroke-width: 3
  a -> b: m {style.stroke: red}
  g: {a -> b; style.fill: yellow; style.stroke-width: 1}
  a.s -> b.s
  a: {style.fill: "#eee"; style.stroke-width: 4}
}
grid: {grid-columns: 2; style.fill: "#fafafa"; c1: {style.multiple: true}; c2: {style.border-radius: 9}; c3; c4}
`,
}

func run(c *hl.Ctx) error {
	if cs := c.ReplayCase(); cs != nil {
		in := cs["in"].(map[string]any)
		w := outl.NewWorker()
		real, _ := in["real"].(bool)
		res := runJob(w, job{src: in["src"].(string), theme: int64(in["theme"].(float64)), real: real})
		want, _ := in["board"].(string)
		for _, m := range res {
			if b, _ := m["in"].(map[string]any)["board"].(string); b == want || m["k"] == "error" {
				c.Emit(m)
			}
		}
		return nil
	}
	r := c.Rand()
	var ids []int64
	for _, t := range d2themescatalog.LightCatalog {
		ids = append(ids, t.ID)
	}
	for _, t := range d2themescatalog.DarkCatalog {
		ids = append(ids, t.ID)
	}
	nprog := c.Pick(60, 1500)
	if c.Search && c.Tier != "thorough" {
		nprog = 150
	}
	g := &outl.Gen{R: r, Special: true, StylesProb: 18, MultiLine: true, NonASCII: true}
	srcs := append([]string{}, fixed...)
	for i := 0; i < nprog; i++ {
		g.StylesProb = []int{5, 18, 40, 75}[r.Intn(4)]
		srcs = append(srcs, g.Program(1+r.Intn(9), r.Intn(7)).Source(g))
	}
	var jobs []job
	for i, s := range srcs {
		for _, id := range ids {
			jobs = append(jobs, job{src: s, theme: id, real: i%25 == 3 && id%100 == 0})
		}
	}
	res := make([][]map[string]any, len(jobs))
	outl.Par(len(jobs), func(i int, w *outl.Worker) { res[i] = runJob(w, jobs[i]) })
	nerr := 0
	for _, rs := range res {
		for _, m := range rs {
			if m["k"] == "error" {
				nerr++
				c.Count("compile-error")
				if e := m["out"].(map[string]any)["err"].(string); strings.HasPrefix(e, "panic") {
					c.Emit(m) // a panic in Compile/Export is reported (the driver turns it into a verdict)
				}
				continue
			}
			c.Emit(m)
			c.Count("board")
			in := m["in"].(map[string]any)
			c.Count(fmt.Sprintf("objects:%02d+", len(in["objects"].([]any))/4*4))
			if in["real"].(bool) {
				c.Count("layout:dagre")
			} else {
				c.Count("layout:stub")
			}
		}
	}
	return nil
}
