package hl

import (
	"context"
	"encoding/hex"
	"encoding/json"
	"fmt"
	"io"
	"log/slog"
	"math/big"
	"math/rand"
	"os"

	"oss.terrastruct.com/d2/lib/log"
)

// ReplayCase returns the "case" object stored in a replay file (nil when not replaying).
func (c *Ctx) ReplayCase() map[string]any {
	if c.Replay == "" {
		return nil
	}
	b, err := os.ReadFile(c.Replay)
	if err != nil {
		panic(err)
	}
	var r map[string]any
	if err := json.Unmarshal(b, &r); err != nil {
		panic(err)
	}
	cs, _ := r["case"].(map[string]any)
	return cs
}

func (c *Ctx) Rand() *rand.Rand { return rand.New(rand.NewSource(c.Seed)) }

func Hx(b []byte) string { return hex.EncodeToString(b) }

func Unhx(s string) []byte {
	b, err := hex.DecodeString(s)
	if err != nil {
		panic(err)
	}
	return b
}

// rat renders a float64 as an exact rational "a/b" (or "nan", "+inf", "-inf").
func Rat(f float64) string {
	r := new(big.Rat)
	if r.SetFloat64(f) == nil {
		if f != f {
			return "nan"
		}
		if f > 0 {
			return "+inf"
		}
		return "-inf"
	}
	return r.String()
}

// quietCtx carries a discarding logger so lib/log does not print a warning per call.
func QuietCtx() context.Context {
	l := slog.New(slog.NewTextHandler(io.Discard, nil))
	return log.With(context.Background(), l)
}

// guard runs f and converts a panic into an outcome string.
func Guard(f func()) (outcome string) {
	defer func() {
		if r := recover(); r != nil {
			outcome = fmt.Sprintf("panic: %v", r)
		}
	}()
	f()
	return "ok"
}
