// d2vh — correspondence harness: runs the real d2 code (built from /repo's working tree with
// -tags verif) on generated inputs and writes one JSON line per case for the Lean driver.
//
//	<cxx> --seed N --tier quick|thorough --out ops.jsonl [--replay file] [--search]
package hl

import (
	"bufio"
	"encoding/json"
	"flag"
	"fmt"
	"os"
)

type Ctx struct {
	Prop   string
	Seed   int64
	Tier   string
	Search bool   // an obligation or the correspondence broke: spend the search budget
	Replay string // path of a replay file whose "case" is re-run alone
	Work   string // scratch directory owned by this run (removed by ./check)
	out    *bufio.Writer
	N      int
	hist   map[string]int
}

// Emit writes one case line. v must contain "k" (kind).
func (c *Ctx) Emit(v map[string]any) {
	b, err := json.Marshal(v)
	if err != nil {
		panic(err)
	}
	c.out.Write(b)
	c.out.WriteByte('\n')
	c.N++
}

// Count increments a generator-histogram bucket (printed into the evidence file).
func (c *Ctx) Count(bucket string) { c.hist[bucket]++ }

func (c *Ctx) Quick() bool { return c.Tier != "thorough" && !c.Search }

// Pick returns q in the quick tier and t in the thorough tier. When an obligation broke in the quick tier (Search) the
// budget is 8·q, capped at t: enough to find a failing input near the generator's usual reach without turning the
// every-change check into a thorough run.
func (c *Ctx) Pick(q, t int) int {
	if c.Tier == "thorough" {
		return t
	}
	if c.Search {
		s := 8 * q
		if s > t {
			s = t
		}
		return s
	}
	return q
}

// Main parses the common flags and runs f; every per-property harness is `func main() { hl.Main("Cxx", run) }`.
func Main(id string, f func(*Ctx) error) {
	fs := flag.NewFlagSet("d2vh", flag.ExitOnError)
	seed := fs.Int64("seed", 1, "PRNG seed")
	tier := fs.String("tier", "quick", "quick|thorough")
	out := fs.String("out", "-", "ops file")
	replay := fs.String("replay", "", "replay file")
	search := fs.Bool("search", false, "search budget")
	work := fs.String("work", "", "scratch dir")
	fs.Parse(os.Args[1:])
	w := os.Stdout
	if *out != "-" {
		var err error
		w, err = os.Create(*out)
		if err != nil {
			fmt.Fprintln(os.Stderr, err)
			os.Exit(2)
		}
	}
	c := &Ctx{Prop: id, Seed: *seed, Tier: *tier, Search: *search, Replay: *replay, Work: *work,
		out: bufio.NewWriterSize(w, 1<<20), hist: map[string]int{}}
	if err := f(c); err != nil {
		c.out.Flush()
		fmt.Fprintln(os.Stderr, "harness error:", err)
		os.Exit(3)
	}
	c.Emit(map[string]any{"k": "_stats", "cases": c.N, "hist": c.hist})
	c.out.Flush()
	w.Close()
}
