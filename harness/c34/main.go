package main

import (
	"context"
	"crypto/sha1"
	"encoding/hex"
	"fmt"
	"io"
	"io/fs"
	"math/rand"
	"os"
	"path/filepath"
	"sort"
	"strings"
	"sync"
	"syscall"

	"d2v/harness/hl"

	"oss.terrastruct.com/d2/d2cli"
	"oss.terrastruct.com/d2/d2compiler"
	"oss.terrastruct.com/d2/d2graph"
	"oss.terrastruct.com/util-go/cmdlog"
	"oss.terrastruct.com/util-go/xmain"
	"oss.terrastruct.com/util-go/xos"
)

// C34: (a) Go's path/filepath against the Lean re-implementation on random paths;
//      (b) the real CLI (`d2 in.d2 out/o.svg`, in-process d2cli.Run on the real file system) on generated board trees
//          with nasty names inside a sandbox surrounded by sentinel files: directory tree diffed before/after.
func main() { hl.Main("C34", run) }

// ---------------------------------------------------------------------------------------------- path stream
var pathAtoms = []string{"a", "b", "ab", ".", "..", "/", "//", "index", "x.svg", ".svg", "a.b", ".hidden", "é", " ", "...", "a.", "..a", "layers"}

func genPath(r *rand.Rand) string {
	n := r.Intn(7)
	var sb strings.Builder
	for i := 0; i < n; i++ {
		if r.Intn(3) > 0 {
			sb.WriteString(pathAtoms[r.Intn(len(pathAtoms))])
		}
		if r.Intn(3) > 0 {
			sb.WriteString("/")
		}
	}
	return sb.String()
}

func pathCase(a, b, c string) map[string]any {
	out := map[string]any{
		"clean": filepath.Clean(a), "ext": filepath.Ext(a), "dir": filepath.Dir(a), "base": filepath.Base(a),
		"join2": filepath.Join(a, b), "join3": filepath.Join(a, b, c),
	}
	if r, err := filepath.Rel(a, b); err == nil {
		out["rel"] = r
	} else {
		out["rel"] = nil
	}
	return map[string]any{"k": "path", "in": map[string]any{"a": a, "b": b, "c": c}, "out": out}
}

// ---------------------------------------------------------------------------------------------- board trees
type board struct {
	Name    string
	Kind    string // "" root, layers|scenarios|steps
	Content bool
	Kids    map[string][]*board
}

var limit = 9

var kinds = []string{"layers", "scenarios", "steps"}

var outStems = []string{"o", "o", "docs", "logs", "diagrams", "pages", "v1.2", "a.b", "tags"}

var safeNames = []string{"docs", "logs", "bugs", "a", "b", "c", "x1", "two words", "é", "v1.2", "a.b", "CamelCase", "under_score", "dash-ed", "layers2", "idx"}
var trickyNames = []string{"index", "layers", "scenarios", "steps", "a.svg", "b.svg", "index.svg", "x.svg", "..", ".", "../victim", "../../victim", "../../../victim",
	"../x", "a/b", "/abs", "a/", "/", "a/../b", "../o", "../o.svg", "...", "a/index", "layers/x"}

func dotdots(s string) int {
	n := 0
	for _, p := range strings.Split(s, "/") {
		if p == ".." {
			n++
		}
	}
	return n
}

// genBoard: budget = how many ".." elements this subtree may still use on any root-to-leaf chain
func genBoard(c *hl.Ctx, r *rand.Rand, depth int, nasty bool, budget int, used map[string]bool, count *int) *board {
	b := &board{Content: r.Intn(5) > 0, Kids: map[string][]*board{}}
	if depth >= 3 || *count >= limit {
		return b
	}
	seen := map[string]bool{} // board names are unique among all sub-boards of a board, whatever their kind
	for _, k := range kinds {
		p := 3
		if depth > 0 {
			p = 6
		}
		if r.Intn(p) > 1 && !(depth == 0 && k == "layers") {
			continue
		}
		n := 1 + r.Intn(2)
		if depth == 0 && r.Intn(3) == 0 {
			n++
		}
		for i := 0; i < n && *count < limit; i++ {
			var name string
			if nasty && r.Intn(3) == 0 {
				name = trickyNames[r.Intn(len(trickyNames))]
			} else {
				name = safeNames[r.Intn(len(safeNames))]
			}
			if seen[strings.ToLower(name)] || dotdots(name) > budget {
				continue
			}
			seen[strings.ToLower(name)] = true
			*count++
			kid := genBoard(c, r, depth+1, nasty, budget-dotdots(name), used, count)
			kid.Name, kid.Kind = name, k
			b.Kids[k] = append(b.Kids[k], kid)
		}
	}
	return b
}

func (b *board) d2(ind string, sb *strings.Builder, id *int) {
	if b.Content {
		*id++
		fmt.Fprintf(sb, "%ss%d\n", ind, *id)
	}
	for _, k := range kinds {
		if len(b.Kids[k]) == 0 {
			continue
		}
		fmt.Fprintf(sb, "%s%s: {\n", ind, k)
		for _, kid := range b.Kids[k] {
			fmt.Fprintf(sb, "%s  \"%s\": {\n", ind, kid.Name)
			kid.d2(ind+"    ", sb, id)
			fmt.Fprintf(sb, "%s  }\n", ind)
		}
		fmt.Fprintf(sb, "%s}\n", ind)
	}
}

func graphTree(g *d2graph.Graph) map[string]any {
	sub := func(gs []*d2graph.Graph) []any {
		out := []any{}
		for _, x := range gs {
			out = append(out, graphTree(x))
		}
		return out
	}
	return map[string]any{"name": g.Name, "folderOnly": g.IsFolderOnly,
		"layers": sub(g.Layers), "scenarios": sub(g.Scenarios), "steps": sub(g.Steps)}
}

type nopWC struct{ io.Writer }

func (nopWC) Close() error { return nil }

type entry struct {
	Dir  bool
	Hash string
	Ino  uint64
}

func snapshot(root string) map[string]entry {
	m := map[string]entry{}
	filepath.WalkDir(root, func(p string, d fs.DirEntry, err error) error {
		if err != nil || p == root {
			return nil
		}
		rel := "/" + strings.TrimPrefix(p, root+"/")
		e := entry{Dir: d.IsDir()}
		if fi, err := os.Lstat(p); err == nil {
			if st, ok := fi.Sys().(*syscall.Stat_t); ok {
				e.Ino = st.Ino
			}
		}
		if !d.IsDir() {
			if b, err := os.ReadFile(p); err == nil {
				h := sha1.Sum(b)
				e.Hash = hex.EncodeToString(h[:])
			}
		}
		m[rel] = e
		return nil
	})
	return m
}

const pwdRel = "/d1/d2/d3/d4/d5/work"

// sandbox layout (relative to the sandbox root R; the CLI runs with PWD = R/d1/d2/d3/d4/d5/work)
func buildSandbox(root, src string, stale bool, stem string) error {
	files := map[string]string{
		"/keep.txt": "R", "/d1/keep.txt": "1", "/d1/d2/keep.txt": "2", "/d1/d2/d3/keep.txt": "3", "/d1/d2/d3/d4/keep.txt": "4",
		"/d1/d2/d3/d4/d5/keep.txt": "5", "/d1/d2/d3/d4/d5/victim/keep.txt": "v5", "/d1/d2/d3/d4/d5/victim.svg": "vs5",
		pwdRel + "/in.d2": src, pwdRel + "/side.txt": "side", pwdRel + "/victim/keep.txt": "vw", pwdRel + "/victim.svg": "vsw",
		pwdRel + "/x.svg": "xw", pwdRel + "/out/keep.txt": "o", pwdRel + "/out/victim/keep.txt": "vo", pwdRel + "/out/victim.svg": "vso",
		pwdRel + "/out/x.svg": "xo", pwdRel + "/out/o2.svg": "o2", pwdRel + "/out/o2/keep.txt": "o2k", pwdRel + "/out/index.svg": "io",
	}
	// sentinels next to the output: a directory and a file for every proper prefix of the output stem
	for i := 1; i < len(stem); i++ {
		files[pwdRel+"/out/"+stem[:i]+"/keep.txt"] = "prefix dir " + stem[:i]
		files[pwdRel+"/out/"+stem[:i]+".txt"] = "prefix file " + stem[:i]
	}
	if stale {
		files[pwdRel+"/out/"+stem+".svg"] = "old single"
		files[pwdRel+"/out/"+stem+"/stale.svg"] = "stale"
		files[pwdRel+"/out/"+stem+"/layers/stale2.svg"] = "stale2"
	}
	for p, c := range files {
		if err := os.MkdirAll(filepath.Dir(root+p), 0o755); err != nil {
			return err
		}
		if err := os.WriteFile(root+p, []byte(c), 0o644); err != nil {
			return err
		}
	}
	return nil
}

func runCLI(pwd string, args ...string) (errs string) {
	ms := &xmain.State{Name: "d2", Stdin: strings.NewReader(""), Stdout: nopWC{io.Discard}, Stderr: nopWC{io.Discard},
		Env: xos.NewEnv([]string{"PATH=/nonexistent", "HOME=" + pwd}), PWD: pwd}
	ms.Log = cmdlog.New(ms.Env, ms.Stderr)
	ms.Opts = xmain.NewOpts(ms.Env, args)
	var err error
	out := hl.Guard(func() { err = ms.Main(hl.QuietCtx(), nil, d2cli.Run) })
	if out != "ok" {
		return out
	}
	if err != nil {
		return "error: " + err.Error()
	}
	return ""
}

func treeCase(c *hl.Ctx, idx int, src string, stale bool, stem string) map[string]any {
	in := map[string]any{"src": src, "stale": stale, "stem": stem, "out": pwdRel + "/out/" + stem + ".svg"}
	out := map[string]any{}
	res := map[string]any{"k": "tree", "in": in, "out": out}
	g, _, err := d2compiler.Compile("in.d2", strings.NewReader(src), nil)
	if err != nil {
		out["compileErr"] = true
		res["triv"] = true
		return res
	}
	out["tree"] = graphTree(g)
	root := filepath.Join(c.Work, "sb", fmt.Sprintf("t%d", idx))
	os.RemoveAll(root)
	if err := buildSandbox(root, src, stale, stem); err != nil {
		panic(err)
	}
	before := snapshot(root)
	cli := runCLI(root+pwdRel, "in.d2", "out/"+stem+".svg")
	after := snapshot(root)
	os.RemoveAll(root)
	out["cliErr"] = cli
	var files, created, changed, deleted []string
	for p, e := range before {
		if !e.Dir {
			files = append(files, p)
		}
		a, ok := after[p]
		if !ok {
			deleted = append(deleted, p)
		} else if !e.Dir && (a.Hash != e.Hash || a.Ino != e.Ino || a.Dir) {
			changed = append(changed, p)
		} else if e.Dir && !a.Dir {
			changed = append(changed, p)
		}
	}
	var createdDirs []string
	for p, a := range after {
		if _, ok := before[p]; !ok {
			if a.Dir {
				createdDirs = append(createdDirs, p)
			} else {
				created = append(created, p)
			}
		}
	}
	for _, l := range []*[]string{&files, &created, &changed, &deleted, &createdDirs} {
		sort.Strings(*l)
		if *l == nil {
			*l = []string{}
		}
	}
	out["files"] = files
	out["created"] = created
	out["createdDirs"] = createdDirs
	out["changed"] = changed
	out["deleted"] = deleted
	return res
}

func run(c *hl.Ctx) error {
	if cs := c.ReplayCase(); cs != nil {
		in := cs["in"].(map[string]any)
		if cs["k"] == "path" {
			c.Emit(pathCase(in["a"].(string), in["b"].(string), in["c"].(string)))
		} else {
			stem, _ := in["stem"].(string)
			if stem == "" {
				stem = "o"
			}
			c.Emit(treeCase(c, 0, in["src"].(string), in["stale"].(bool), stem))
		}
		return nil
	}
	r := c.Rand()
	// (a) path functions
	for _, fixed := range [][3]string{{"", "", ""}, {"/", "/", ""}, {".", "..", ""}, {"a/b/../../..", "x", "y"}, {"/..", "/a", ""}, {"a.svg", "b", "c.d"}, {"out/o.svg", "../x", ""}} {
		c.Emit(pathCase(fixed[0], fixed[1], fixed[2]))
	}
	np := c.Pick(6000, 200000)
	for i := 0; i < np; i++ {
		a, b, cc := genPath(r), genPath(r), genPath(r)
		if r.Intn(4) == 0 { // related paths so that Rel has common prefixes
			b = a + "/" + genPath(r)
		}
		if r.Intn(8) == 0 {
			a, b = b, a
		}
		c.Emit(pathCase(a, b, cc))
	}
	c.Count("path")
	// (b) CLI on board trees
	nt := c.Pick(36, 500)
	type job struct {
		idx   int
		src   string
		stale bool
		stem  string
	}
	var jobs []job
	fixedSrc := []string{
		"x\nlayers: {\n  \"../../victim\": {\n    q\n    layers: { z: { w } }\n  }\n}\n",
		"x\nlayers: {\n  index: { y }\n}\n",
		"x\nlayers: {\n  a: { y }\n  \"a.svg\": {\n    z\n    layers: { k: { w } }\n  }\n}\n",
		"x\n",
		"x\nlayers: { a: { y } }\nscenarios: { b: { z } }\nsteps: { c: { z } }\n",
	}
	for i, s := range fixedSrc {
		jobs = append(jobs, job{i, s, i%2 == 0, outStems[(i*2)%len(outStems)]})
		c.Count("tree:fixed")
	}
	for i := 0; i < nt; i++ {
		nasty := i%3 == 0
		count := 0
		limit = 1 + r.Intn(9)
		b := genBoard(c, r, 0, nasty, 5, nil, &count)
		var sb strings.Builder
		id := 0
		b.d2("", &sb, &id)
		if sb.Len() == 0 {
			sb.WriteString("x\n")
		}
		stem := outStems[r.Intn(len(outStems))]
		c.Count("tree:stem=" + stem)
		jobs = append(jobs, job{len(fixedSrc) + i, sb.String(), r.Intn(2) == 0, stem})
		if nasty {
			c.Count("tree:nasty-names")
		} else {
			c.Count("tree:safe-names")
		}
		c.Count(fmt.Sprintf("tree:boards=%d", count+1))
	}
	results := make([]map[string]any, len(jobs))
	var wg sync.WaitGroup
	sem := make(chan struct{}, 6)
	for i, j := range jobs {
		wg.Add(1)
		sem <- struct{}{}
		go func(i int, j job) {
			defer wg.Done()
			defer func() { <-sem }()
			results[i] = treeCase(c, j.idx, j.src, j.stale, j.stem)
		}(i, j)
	}
	wg.Wait()
	for _, res := range results {
		c.Emit(res)
		o := res["out"].(map[string]any)
		if o["compileErr"] == true {
			c.Count("tree:compile-error")
		} else if o["cliErr"] != "" {
			c.Count("tree:cli-error")
		} else {
			c.Count("tree:cli-ok")
		}
	}
	_ = context.Background
	return nil
}
