package main

import (
	"d2v/harness/hl"
	"d2v/harness/pgen"
)

// C02: the same stream as C01 in both position modes, plus, for every key path segment, the text its range covers
// re-parsed with ParseKey.
func main() { hl.Main("C02", func(c *hl.Ctx) error { return pgen.Run(c, true) }) }
