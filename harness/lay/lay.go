// Package lay — shared harness helper of the layout group (C17–C20, C23).
//
// Run compiles a D2 program, sets dimensions with a real ruler and lays every board out through the real
// d2layouts.LayoutNested with d2dagrelayout.DefaultLayout or d2elklayout.DefaultLayout (the wiring of
// d2lib.compile, re-done here so that the structure can be snapshotted between compile and layout), then
// exports and renders.  It returns a canonical description: structure snapshots before/after layout (C18),
// geometry with exact rationals (C17, C19, C20, C23), layout/export/render outcomes (C17).
package lay

import (
	"context"
	"fmt"
	"math"
	"os"
	"sort"
	"strconv"
	"strings"
	"sync"
	"time"

	"d2v/harness/hl"

	"oss.terrastruct.com/d2/d2compiler"
	"oss.terrastruct.com/d2/d2exporter"
	"oss.terrastruct.com/d2/d2graph"
	"oss.terrastruct.com/d2/d2layouts"
	"oss.terrastruct.com/d2/d2layouts/d2dagrelayout"
	"oss.terrastruct.com/d2/d2layouts/d2elklayout"
	"oss.terrastruct.com/d2/d2layouts/d2sequence"
	"oss.terrastruct.com/d2/d2renderers/d2svg"
	"oss.terrastruct.com/d2/d2target"
	"oss.terrastruct.com/d2/d2themes/d2themescatalog"
	"oss.terrastruct.com/d2/lib/geo"
	"oss.terrastruct.com/d2/lib/label"
	"oss.terrastruct.com/d2/lib/textmeasure"
)

type M = map[string]any

// Result of one (program, engine) run.
type Result struct {
	Src     string
	Engine  string
	Compile string // "ok" or the compile error (then nothing else is set: the diagram is not "compilable")
	Boards  []*Board
	Render  string // "ok", "skipped" or the error / panic text of d2svg.Render on the exported root diagram
}

type Board struct {
	Path   string // "root", "layers.x", "layers.x.steps.y" …
	Before M      // structure snapshot after compile+SetDimensions
	After  M      // structure snapshot after LayoutNested
	Layout string // "ok", "error: …" or "panic: …"
	Export string
	Geo    M // laid-out geometry
	// contract of the core layout / router, checked on every call (C18): list of differences
	CoreBreaks []string
	CoreCalls  int
}

func coreLayout(engine string) d2graph.LayoutGraph {
	if engine == "elk" {
		return d2elklayout.DefaultLayout
	}
	return d2dagrelayout.DefaultLayout
}

var rulerPool = sync.Pool{New: func() any {
	r, err := textmeasure.NewRuler()
	if err != nil {
		panic(err)
	}
	return r
}}

// Run executes the pipeline for one program under one engine.
func Run(src, engine string, render bool) *Result {
	res := &Result{Src: src, Engine: engine, Render: "skipped"}
	var g *d2graph.Graph
	out := hl.Guard(func() {
		var err error
		g, _, err = d2compiler.Compile("", strings.NewReader(src), nil)
		if err != nil {
			res.Compile = "error: " + firstLine(err.Error())
		} else {
			res.Compile = "ok"
		}
	})
	if out != "ok" {
		res.Compile = out
		return res
	}
	if res.Compile != "ok" {
		return res
	}
	ruler := rulerPool.Get().(*textmeasure.Ruler)
	defer rulerPool.Put(ruler)
	ctx := hl.QuietCtx()
	var rootDiagram *d2target.Diagram
	allOK := true
	var walk func(g *d2graph.Graph, path string) *d2target.Diagram
	walk = func(g *d2graph.Graph, path string) *d2target.Diagram {
		b := &Board{Path: path, Layout: "ok", Export: "skipped"}
		res.Boards = append(res.Boards, b)
		var d *d2target.Diagram
		var pre map[string][2]float64
		out := hl.Guard(func() {
			if err := g.ApplyTheme(d2themescatalog.NeutralDefault.ID); err != nil {
				b.Layout = "error: theme: " + firstLine(err.Error())
				return
			}
			if len(g.Objects) > 0 {
				if err := g.SetDimensions(nil, ruler, nil, nil); err != nil {
					b.Layout = "error: dimensions: " + firstLine(err.Error())
					return
				}
				b.Before = Structure(g)
				pre = map[string][2]float64{}
				for _, o := range g.Objects {
					pre[o.AbsID()] = [2]float64{o.Width, o.Height}
				}
				core := coreLayout(engine)
				wrapped := func(ctx context.Context, g *d2graph.Graph) error {
					before := Structure(g)
					err := core(ctx, g)
					b.CoreCalls++
					if err == nil {
						if d := diffStruct(before, Structure(g)); d != "" {
							b.CoreBreaks = append(b.CoreBreaks, d)
						}
					}
					return err
				}
				gi := d2layouts.NestedGraphInfo(g.Root)
				if err := d2layouts.LayoutNested(ctx, g, gi, wrapped, d2layouts.DefaultRouter); err != nil {
					b.Layout = "error: " + firstLine(err.Error())
					return
				}
				b.After = Structure(g)
			} else {
				b.Before = Structure(g)
				b.After = Structure(g)
			}
			b.Geo = Geometry(g, pre)
		})
		if out != "ok" {
			b.Layout = out
		}
		if b.Layout != "ok" {
			allOK = false
			return nil
		}
		out = hl.Guard(func() {
			var err error
			d, err = d2exporter.Export(ctx, g, nil, nil)
			if err != nil {
				b.Export = "error: " + firstLine(err.Error())
			} else {
				b.Export = "ok"
			}
		})
		if out != "ok" {
			b.Export = out
		}
		if b.Export != "ok" {
			allOK = false
			return nil
		}
		for _, kind := range []struct {
			name string
			gs   []*d2graph.Graph
			dst  *[]*d2target.Diagram
		}{{"layers", g.Layers, &d.Layers}, {"scenarios", g.Scenarios, &d.Scenarios}, {"steps", g.Steps, &d.Steps}} {
			for _, l := range kind.gs {
				ld := walk(l, path+"."+kind.name+"."+l.Name)
				if ld != nil {
					*kind.dst = append(*kind.dst, ld)
				}
			}
		}
		return d
	}
	rootDiagram = walk(g, "root")
	if render && allOK && rootDiagram != nil {
		out := hl.Guard(func() {
			rootDiagram.Config = &d2target.Config{}
			boards, err := d2svg.RenderMultiboard(rootDiagram, &d2svg.RenderOpts{})
			if err != nil {
				res.Render = "error: " + firstLine(err.Error())
			} else if len(boards) == 0 || len(boards[0]) == 0 {
				res.Render = "error: empty output"
			} else {
				res.Render = "ok"
			}
		})
		if out != "ok" {
			res.Render = out
		}
	}
	return res
}

func firstLine(s string) string {
	if i := strings.IndexByte(s, '\n'); i >= 0 {
		s = s[:i]
	}
	if len(s) > 300 {
		s = s[:300]
	}
	return s
}

func isLifeline(e *d2graph.Edge) bool { return d2sequence.IsLifelineEnd(e.Dst) }

// Structure — the structural content of a board: objects in g.Objects order with their parent and their
// ChildrenArray, edges in g.Edges order with their endpoints (lifeline edges, which the sequence layout
// adds as drawing artefacts with a synthetic destination, are listed separately), plus internal consistency
// flags (Children map vs ChildrenArray, obj.Graph, child.Parent back pointers).
func Structure(g *d2graph.Graph) M {
	objs := []any{}
	bad := []string{}
	for _, o := range g.Objects {
		parent := ""
		if o.Parent != nil {
			parent = o.Parent.AbsID()
		} else {
			bad = append(bad, "nil-parent:"+o.AbsID())
		}
		kids := []any{}
		for _, ch := range o.ChildrenArray {
			kids = append(kids, ch.AbsID())
			if ch.Parent != o {
				bad = append(bad, "child-parent-pointer:"+ch.AbsID())
			}
		}
		if len(o.Children) != len(o.ChildrenArray) {
			bad = append(bad, fmt.Sprintf("children-map-size:%s:%d/%d", o.AbsID(), len(o.Children), len(o.ChildrenArray)))
		}
		for _, ch := range o.ChildrenArray {
			if o.Children[strings.ToLower(ch.ID)] != ch {
				bad = append(bad, "children-map-entry:"+ch.AbsID())
			}
		}
		if o.Graph != g {
			bad = append(bad, "obj-graph-pointer:"+o.AbsID())
		}
		objs = append(objs, M{"id": o.AbsID(), "parent": parent, "kids": kids})
	}
	rootKids := []any{}
	for _, ch := range g.Root.ChildrenArray {
		rootKids = append(rootKids, ch.AbsID())
		if ch.Parent != g.Root {
			bad = append(bad, "root-child-parent-pointer:"+ch.AbsID())
		}
	}
	if len(g.Root.Children) != len(g.Root.ChildrenArray) {
		bad = append(bad, fmt.Sprintf("children-map-size:<root>:%d/%d", len(g.Root.Children), len(g.Root.ChildrenArray)))
	}
	edges := []any{}
	lifelines := 0
	for _, e := range g.Edges {
		if isLifeline(e) {
			lifelines++
			continue
		}
		edges = append(edges, M{"id": e.AbsID(), "src": e.Src.AbsID(), "dst": e.Dst.AbsID()})
		if e.Src.Graph != g || e.Dst.Graph != g {
			bad = append(bad, "edge-endpoint-graph:"+e.AbsID())
		}
	}
	sort.Strings(bad)
	badAny := []any{}
	for _, b := range bad {
		badAny = append(badAny, b)
	}
	return M{"objects": objs, "rootKids": rootKids, "edges": edges, "lifelines": lifelines, "bad": badAny}
}

func diffStruct(a, b M) string {
	sa, sb := fmt.Sprint(a["objects"], a["rootKids"], a["edges"]), fmt.Sprint(b["objects"], b["rootKids"], b["edges"])
	if sa == sb {
		return ""
	}
	// order-insensitive comparison first (the core layout may reorder; LayoutNested restores order)
	return "core layout changed structure"
}

func box(x, y, w, h float64) M {
	return M{"x": hl.Rat(x), "y": hl.Rat(y), "w": hl.Rat(w), "h": hl.Rat(h)}
}

func strp(p *string) string {
	if p == nil {
		return ""
	}
	return *p
}

// Geometry — laid-out geometry of a board with exact rationals.
func Geometry(g *d2graph.Graph, pre map[string][2]float64) M {
	objs := []any{}
	for _, o := range g.Objects {
		m := M{"id": o.AbsID(), "shape": strings.ToLower(o.Shape.Value)}
		if o.Parent != nil {
			m["parent"] = o.Parent.AbsID()
		} else {
			m["parent"] = ""
		}
		if o.Box == nil || o.TopLeft == nil {
			m["nobox"] = true
			objs = append(objs, m)
			continue
		}
		m["box"] = box(o.TopLeft.X, o.TopLeft.Y, o.Width, o.Height)
		if d, ok := pre[o.AbsID()]; ok {
			m["preW"] = hl.Rat(d[0])
			m["preH"] = hl.Rat(d[1])
		}
		m["seqGroup"] = o.IsSequenceDiagramGroup()
		m["seqNote"] = o.IsSequenceDiagramNote()
		m["line"] = earliestLine(o.References)
		m["labelPos"] = strp(o.LabelPosition)
		m["iconPos"] = strp(o.IconPosition)
		m["hasLabel"] = o.HasLabel()
		m["hasIcon"] = o.HasIcon()
		m["3d"] = o.Is3D()
		m["multiple"] = o.IsMultiple()
		m["container"] = o.IsContainer()
		near := ""
		if o.NearKey != nil {
			near = strings.Join(d2graph.Key(o.NearKey), ".")
		}
		m["near"] = near
		m["constNear"] = o.IsConstantNear()
		m["inSeq"] = o.OuterSequenceDiagram() != nil
		m["isSeq"] = o.IsSequenceDiagram()
		m["isGrid"] = o.IsGridDiagram()
		m["inGrid"] = o.Parent != nil && o.Parent.IsGridDiagram()
		m["level"] = int(o.Level())
		// outside label / icon rectangles as TraceToShape computes them
		if o.HasLabel() && o.LabelPosition != nil {
			pos := label.FromString(*o.LabelPosition)
			if pos.IsOutside() {
				lw, lh := float64(o.LabelDimensions.Width), float64(o.LabelDimensions.Height)
				tl := pos.GetPointOnBox(o.Box, label.PADDING, lw, lh)
				m["olabel"] = box(tl.X, tl.Y, lw, lh)
			}
		}
		m["labelW"] = o.LabelDimensions.Width
		m["labelH"] = o.LabelDimensions.Height
		if o.HasIcon() && o.IconPosition != nil {
			pos := label.FromString(*o.IconPosition)
			if pos.IsOutside() {
				// the icon as it is drawn (d2svg uses GetIconSize); TraceToShape uses this size for a destination
				// and MAX_ICON_SIZE for a source
				sz := float64(d2target.GetIconSize(o.Box, pos.String()))
				tl := pos.GetPointOnBox(o.Box, label.PADDING, sz, sz)
				m["oicon"] = box(tl.X, tl.Y, sz, sz)
				mx := float64(d2target.MAX_ICON_SIZE)
				tlm := pos.GetPointOnBox(o.Box, label.PADDING, mx, mx)
				m["oiconMax"] = box(tlm.X, tlm.Y, mx, mx)
			}
		}
		objs = append(objs, m)
	}
	edges := []any{}
	for _, e := range g.Edges {
		m := M{"id": e.AbsID(), "src": e.Src.AbsID(), "dst": e.Dst.AbsID(), "lifeline": isLifeline(e),
			"curve": e.IsCurve, "srcArrow": e.SrcArrow, "dstArrow": e.DstArrow}
		m["inSeq"] = e.Src.OuterSequenceDiagram() != nil || (!isLifeline(e) && e.Dst.OuterSequenceDiagram() != nil)
		m["label"] = e.Label.Value != ""
		m["labelH"] = e.LabelDimensions.Height
		m["labelW"] = e.LabelDimensions.Width
		m["route"] = pts(e.Route)
		// non-rectangular outlines: is the end within 2 px of the shape's real perimeter (lib/shape + lib/geo)?
		if len(e.Route) >= 2 && !isLifeline(e) {
			m["srcPerim"] = nearPerimeter(e.Src, e.Route[0])
			m["dstPerim"] = nearPerimeter(e.Dst, e.Route[len(e.Route)-1])
		}
		m["line"] = earliestEdgeLine(e)
		edges = append(edges, m)
	}
	rk := []any{}
	for _, ch := range g.Root.ChildrenArray {
		rk = append(rk, ch.AbsID())
	}
	gm := M{"objects": objs, "edges": edges, "rootKids": rk, "rootIsSeq": g.Root.IsSequenceDiagram(),
		"rootIsGrid": g.Root.IsGridDiagram(), "direction": g.Root.Direction.Value}
	return gm
}

func pts(ps []*geo.Point) []any {
	out := []any{}
	for _, p := range ps {
		if p == nil {
			out = append(out, []any{"nan", "nan"})
			continue
		}
		out = append(out, []any{hl.Rat(p.X), hl.Rat(p.Y)})
	}
	return out
}

// Job is one unit for the worker pool.
type Job struct {
	Src    string
	Engine string
	Render bool
	Tag    string // generator bucket
}

// RunAll runs the jobs on n workers (each layout call builds its own goja runtime) and returns results in
// job order.  budget > 0 bounds the wall time: jobs are handed out in order and no new job is started after the
// deadline (results of jobs never started are nil, and the prefix that did run is still a seeded, reproducible
// mix because the generators interleave their profiles); at least min jobs are always run.
func RunAll(jobs []Job, n int, budget time.Duration, min int) []*Result {
	if os.Getenv("D2V_LAY_INPROCESS") == "" {
		return runIsolated(jobs, n, budget, min)
	}
	res := make([]*Result, len(jobs))
	var wg sync.WaitGroup
	ch := make(chan int)
	for w := 0; w < n; w++ {
		wg.Add(1)
		go func() {
			defer wg.Done()
			for i := range ch {
				res[i] = Run(jobs[i].Src, jobs[i].Engine, jobs[i].Render)
			}
		}()
	}
	deadline := time.Now().Add(budget)
	for i := range jobs {
		if budget > 0 && i >= min && time.Now().After(deadline) {
			break
		}
		ch <- i
	}
	close(ch)
	wg.Wait()
	return res
}

// QuickBudget is the wall-time bound of the layout stream (70 s in the quick tier, 15 min in the thorough tier) (a nested diagram costs one engine run
// per special container: 0.1 s dagre / 0.6 s ELK each on an idle core, several times that on a loaded machine).
func QuickBudget(quick bool) time.Duration {
	if s := os.Getenv("D2V_LAY_BUDGET_S"); s != "" {
		if n, err := strconv.Atoi(s); err == nil {
			return time.Duration(n) * time.Second
		}
	}
	if quick {
		return 70 * time.Second
	}
	return 15 * time.Minute
}

// DevN lets a developer shrink the number of generated programs (D2V_LAY_N) while working on a check; unset in
// ./check runs.
func DevN(def int) int {
	if s := os.Getenv("D2V_LAY_N"); s != "" {
		if n, err := strconv.Atoi(s); err == nil {
			return n
		}
	}
	return def
}

// GeoCase is the case line shared by C19 / C20 / C23: laid-out geometry of every board.
func GeoCase(res *Result) M {
	boards := []any{}
	for _, b := range res.Boards {
		m := M{"path": b.Path, "layout": b.Layout}
		if b.Geo != nil {
			m["geo"] = b.Geo
		}
		boards = append(boards, m)
	}
	c := M{"k": "geo", "in": M{"src": res.Src, "engine": res.Engine}, "out": M{"compile": res.Compile, "boards": boards}}
	if res.Compile != "ok" {
		c["triv"] = true
	}
	return c
}

// earliestLine / earliestEdgeLine: the "vertical index" the sequence layout orders by (getObjEarliestLineNum /
// getEdgeEarliestLineNum of d2sequence, which are unexported): smallest source line of a non-glob reference.
func earliestLine(refs []d2graph.Reference) int {
	min := int(1<<31 - 1)
	for _, ref := range refs {
		if ref.MapKey == nil || ref.Key == nil || ref.Key.HasGlob() {
			continue
		}
		if l := ref.MapKey.Range.Start.Line; l < min {
			min = l
		}
	}
	return min
}

func earliestEdgeLine(e *d2graph.Edge) int {
	min := int(1<<31 - 1)
	for _, ref := range e.References {
		if ref.MapKey == nil || ref.Edge == nil {
			continue
		}
		if ref.Edge.Src.HasGlob() || ref.Edge.Dst.HasGlob() {
			continue
		}
		if l := ref.MapKey.Range.Start.Line; l < min {
			min = l
		}
	}
	return min
}

// nearPerimeter: "yes" when one of the short probes through p (8 directions, half length 2 px) crosses an element of
// the shape's perimeter, "near" when only probes of half length 8 px do, "no" when none does, "rect" when the shape has
// no perimeter of its own (its outline is the box).
func nearPerimeter(o *d2graph.Object, p *geo.Point) string {
	if o == nil || o.Box == nil || o.TopLeft == nil || p == nil {
		return "rect"
	}
	per := o.ToShape().Perimeter()
	if len(per) == 0 {
		return "rect"
	}
	dirs := [][2]float64{{1, 0}, {0, 1}, {1, 1}, {1, -1}, {2, 1}, {1, 2}, {2, -1}, {1, -2}}
	probe := func(r float64) bool {
		for _, d := range dirs {
			n := math.Hypot(d[0], d[1])
			dx, dy := d[0]/n*r, d[1]/n*r
			seg := geo.Segment{Start: geo.NewPoint(p.X-dx, p.Y-dy), End: geo.NewPoint(p.X+dx, p.Y+dy)}
			for _, el := range per {
				if len(el.Intersections(seg)) > 0 {
					return true
				}
			}
		}
		return false
	}
	if probe(2) {
		return "yes"
	}
	if probe(8) {
		return "near"
	}
	return "no"
}

// Features lists the histogram buckets of one run: nesting depth, which special diagrams occur and how they nest,
// decorations, sizes.  Every bucket is counted once per (program, engine).
func Features(res *Result) []string {
	if res == nil || res.Compile != "ok" {
		return []string{"feat:not-compilable"}
	}
	set := map[string]bool{}
	nObj, nEdge, calls, depth := 0, 0, 0, 0
	for _, b := range res.Boards {
		calls += b.CoreCalls
		if b.Geo == nil {
			continue
		}
		objs, _ := b.Geo["objects"].([]any)
		edges, _ := b.Geo["edges"].([]any)
		nObj += len(objs)
		byID := map[string]M{}
		for _, x := range objs {
			o := x.(M)
			byID[o["id"].(string)] = o
		}
		if b.Geo["rootIsSeq"] == true {
			set["kind:sequence-board"] = true
		}
		if b.Geo["rootIsGrid"] == true {
			set["kind:grid-board"] = true
		}
		for _, x := range objs {
			o := x.(M)
			switch l := o["level"].(type) {
			case int:
				if l > depth {
					depth = l
				}
			case float64:
				if int(l) > depth {
					depth = int(l)
				}
			}
			flag := func(k string) bool { v, _ := o[k].(bool); return v }
			if flag("isGrid") {
				set["kind:grid"] = true
			}
			if flag("isSeq") {
				set["kind:sequence"] = true
			}
			if flag("constNear") {
				set["kind:constant-near"] = true
				if flag("container") {
					set["kind:near-group"] = true
				}
			}
			if flag("3d") {
				set["deco:3d"] = true
			}
			if flag("multiple") {
				set["deco:multiple"] = true
			}
			if _, ok := o["olabel"]; ok {
				set["deco:outside-label"] = true
			}
			if _, ok := o["oicon"]; ok {
				set["deco:outside-icon"] = true
			}
			if flag("seqGroup") {
				set["seq:group"] = true
			}
			if flag("seqNote") && flag("inSeq") {
				set["seq:note"] = true
			}
			// how specials nest: walk the ancestors
			if flag("isGrid") || flag("isSeq") {
				self := "grid"
				if flag("isSeq") {
					self = "sequence"
				}
				p, _ := o["parent"].(string)
				if p != "" {
					set["nest:"+self+"-in-container"] = true
				}
				for p != "" {
					po, ok := byID[p]
					if !ok {
						break
					}
					if v, _ := po["isGrid"].(bool); v {
						set["nest:"+self+"-in-grid"] = true
					}
					if v, _ := po["isSeq"].(bool); v {
						set["nest:"+self+"-in-sequence"] = true
					}
					if v, _ := po["constNear"].(bool); v {
						set["nest:"+self+"-in-near"] = true
					}
					p, _ = po["parent"].(string)
				}
			}
		}
		for _, x := range edges {
			e := x.(M)
			if e["lifeline"] == true {
				continue
			}
			nEdge++
			if e["src"] == e["dst"] {
				set["edge:self-loop"] = true
			}
			so, do := byID[e["src"].(string)], byID[e["dst"].(string)]
			if so != nil && do != nil {
				if so["parent"] != do["parent"] {
					set["edge:cross-container"] = true
				}
				if c, _ := so["container"].(bool); c {
					set["edge:from-container"] = true
				}
				if c, _ := do["container"].(bool); c {
					set["edge:to-container"] = true
				}
			}
		}
	}
	if len(res.Boards) > 1 {
		set["kind:multi-board"] = true
	}
	bucket := func(name string, n int, cuts ...int) string {
		lo := 0
		for _, c := range cuts {
			if n <= c {
				return fmt.Sprintf("%s:%d-%d", name, lo, c)
			}
			lo = c + 1
		}
		return fmt.Sprintf("%s:%d+", name, lo)
	}
	out := []string{bucket("depth", depth, 1, 2, 3), bucket("objects", nObj, 5, 15, 40), bucket("edges", nEdge, 0, 5, 15),
		bucket("core-layout-calls", calls, 0, 1, 3)}
	for k := range set {
		out = append(out, k)
	}
	sort.Strings(out)
	return out
}

// Engines picks the engines program number i runs under: dagre always, ELK (6x dearer: a 1.5 MB script is parsed per
// core-layout call) for every k-th program — both engines see every profile, dagre sees k times as many programs.
func Engines(i, k int) []string {
	if k <= 1 || i%k == 0 {
		return []string{"dagre", "elk"}
	}
	return []string{"dagre"}
}
