package lay

import (
	"fmt"
	"math/rand"
	"strings"
)

// Gen — seeded generator of mostly valid D2 programs for the layout properties.  Profiles:
//
//	core     nested containers, edges between leaves/containers, self loops, parallel edges, directions
//	styled   core + shapes, 3d/multiple, icons, label/icon positions, explicit sizes, edge labels
//	grid     grid diagrams (root or nested), container cells, cell-to-cell and cross-container edges
//	seq      sequence diagrams (root or nested): actors, messages, spans, notes, groups, self messages
//	near     core + constant-near shapes and near groups (containers with content), near grids/sequences
//	nested   special diagrams nested in each other (grid in sequence in container, sequence in grid cell …)
//	names    core with names full of characters that matter to the JS bridges and to key parsing
//	boards   layers / scenarios / steps with small diagrams
//	deep     containers with margins holding deeply nested shapes connected to the outside; margins on opposite sides
type Gen struct {
	R       *rand.Rand
	special bool // names profile
	n       int
}

var Profiles = []string{"core", "styled", "grid", "seq", "near", "nested", "names", "boards", "deep"}

var shapes = []string{"rectangle", "square", "page", "parallelogram", "document", "cylinder", "queue", "package",
	"step", "callout", "stored_data", "person", "diamond", "oval", "circle", "hexagon", "cloud", "c4-person"}

var words = []string{"line one\\nline two\\nline three\\nline four", "alpha", "beta", "gamma", "delta", "a longer label here", "x", "Ω", "multi\\nline", "42", "the quick brown fox jumps"}

var specialNames = []string{
	"a`b", "${x}", "a${b}c", "$", "{", "}", "a\\b", "back\\\\slash", "tick``", "new\\nline", "quote\\\"d", "it's",
	"a.b", "a;b", "a#b", "a|b", "a:b", "semi; colon", "ü", "日本", "😀", " lead", "tab\\there", "a->b", "a--b", "*", "x*y",
	"&amp;", "<tag>", "a\\rb", "%d", "\\u0041", "${", "`", "\\`", "a$b", "$$", "(a -> b)[0]", "null", "_", "a[0]",
}

func (g *Gen) fresh() string {
	g.n++
	if g.special && g.R.Intn(3) > 0 {
		s := specialNames[g.R.Intn(len(specialNames))]
		// keep names unique: suffix with a counter
		return fmt.Sprintf("\"%s %d\"", s, g.n)
	}
	return fmt.Sprintf("n%d", g.n)
}

type node struct {
	name   string
	kids   []*node
	attrs  []string
	parent *node
	raw    []string // raw lines emitted inside the body (edges in scope, etc.)
}

func (n *node) path() string {
	if n.parent == nil || n.parent.name == "" {
		return n.name
	}
	return n.parent.path() + "." + n.name
}

func (n *node) all(acc *[]*node) {
	for _, k := range n.kids {
		*acc = append(*acc, k)
		k.all(acc)
	}
}

func (n *node) add(k *node) *node {
	k.parent = n
	n.kids = append(n.kids, k)
	return k
}

func (n *node) emit(sb *strings.Builder, ind string) {
	for _, a := range n.attrs {
		sb.WriteString(ind + a + "\n")
	}
	for _, k := range n.kids {
		if len(k.kids) == 0 && len(k.attrs) == 0 && len(k.raw) == 0 {
			sb.WriteString(ind + k.name + "\n")
			continue
		}
		sb.WriteString(ind + k.name + ": {\n")
		k.emit(sb, ind+"  ")
		sb.WriteString(ind + "}\n")
	}
	for _, r := range n.raw {
		sb.WriteString(ind + r + "\n")
	}
}

func (g *Gen) word() string { return words[g.R.Intn(len(words))] }

func (g *Gen) pick(xs []string) string { return xs[g.R.Intn(len(xs))] }

var labelPositions = []string{"top-left", "top-center", "top-right", "center-left", "center-center", "center-right",
	"bottom-left", "bottom-center", "bottom-right", "outside-top-left", "outside-top-center", "outside-top-right",
	"outside-left-top", "outside-left-center", "outside-left-bottom", "outside-right-top", "outside-right-center",
	"outside-right-bottom", "outside-bottom-left", "outside-bottom-center", "outside-bottom-right",
	"border-top-left", "border-top-center", "border-top-right", "border-left-top", "border-left-center",
	"border-left-bottom", "border-right-top", "border-right-center", "border-right-bottom", "border-bottom-left",
	"border-bottom-center", "border-bottom-right"}

var nearConsts = []string{"top-left", "top-center", "top-right", "center-left", "center-right", "bottom-left",
	"bottom-center", "bottom-right"}

const iconURL = "https://icons.terrastruct.com/essentials/004-picture.svg"

// style decorates a node (styled profile)
func (g *Gen) style(n *node, leaf bool) {
	r := g.R
	if r.Intn(3) == 0 {
		n.attrs = append(n.attrs, "label: "+quoteVal(g.word()))
	}
	shape := "rectangle"
	if leaf && r.Intn(2) == 0 {
		shape = g.pick(shapes)
		n.attrs = append(n.attrs, "shape: "+shape)
	}
	switch r.Intn(8) {
	case 0:
		// d2 accepts 3d only on squares, rectangles and hexagons
		if shape == "rectangle" || shape == "square" || shape == "hexagon" {
			n.attrs = append(n.attrs, "style.3d: true")
		}
	case 1:
		n.attrs = append(n.attrs, "style.multiple: true")
	}
	if r.Intn(5) == 0 {
		n.attrs = append(n.attrs, "icon: "+iconURL)
		if r.Intn(2) == 0 {
			n.attrs = append(n.attrs, "icon.near: "+g.pick(labelPositions))
		}
	}
	if r.Intn(4) == 0 {
		n.attrs = append(n.attrs, "label.near: "+g.pick(labelPositions))
	}
	// explicit sizes; slanted / curved outlines get at least 60 px: a 30 px wide parallelogram has no straight top
	// edge left for TraceToShapeBorder to hit and the route ends on the bounding box corner (observed, dagre)
	lo := 20
	if shape != "rectangle" && shape != "square" {
		lo = 60
	}
	if leaf && r.Intn(6) == 0 {
		n.attrs = append(n.attrs, fmt.Sprintf("width: %d", lo+r.Intn(300)))
	}
	if leaf && r.Intn(6) == 0 {
		n.attrs = append(n.attrs, fmt.Sprintf("height: %d", lo+r.Intn(300)))
	}
}

func quoteVal(s string) string { return "\"" + s + "\"" }

// tree builds a random containment tree under root with nObj objects and depth ≤ maxDepth
func (g *Gen) tree(root *node, nObj, maxDepth int, styled bool) {
	cands := []*node{root}
	depth := map[*node]int{root: 0}
	for i := 0; i < nObj; i++ {
		p := cands[g.R.Intn(len(cands))]
		if g.R.Intn(3) == 0 {
			p = root
		}
		k := p.add(&node{name: g.fresh()})
		depth[k] = depth[p] + 1
		if depth[k] < maxDepth {
			cands = append(cands, k)
		}
	}
	if styled {
		var all []*node
		root.all(&all)
		for _, n := range all {
			g.style(n, len(n.kids) == 0)
		}
	}
}

// edges adds nE edges between random descendants of scope, written in scope (relative paths)
func (g *Gen) edges(scope *node, nE int, styled bool) {
	var all []*node
	scope.all(&all)
	if len(all) == 0 {
		return
	}
	rel := func(n *node) string {
		p := n.path()
		if scope.name != "" || scope.parent != nil {
			p = strings.TrimPrefix(p, scope.path()+".")
		}
		return p
	}
	arrows := []string{"->", "->", "->", "<-", "<->", "--"}
	for i := 0; i < nE; i++ {
		a := all[g.R.Intn(len(all))]
		b := all[g.R.Intn(len(all))]
		if a == b && g.R.Intn(3) > 0 {
			b = all[g.R.Intn(len(all))]
		}
		// d2 rejects edges between an object and its own ancestor/descendant
		if isAnc(a, b) || isAnc(b, a) {
			if a != b {
				continue
			}
		}
		line := rel(a) + " " + g.pick(arrows) + " " + rel(b)
		if g.R.Intn(3) == 0 {
			line += ": " + quoteVal(g.word())
		}
		if styled && g.R.Intn(6) == 0 {
			line += " {\n  style.animated: true\n}"
		}
		scope.raw = append(scope.raw, line)
		if g.R.Intn(8) == 0 { // parallel edge
			scope.raw = append(scope.raw, rel(a)+" -> "+rel(b))
		}
	}
}

func isAnc(a, b *node) bool {
	for p := b.parent; p != nil; p = p.parent {
		if p == a {
			return true
		}
	}
	return false
}

func (g *Gen) direction(n *node) {
	if g.R.Intn(3) == 0 {
		n.attrs = append(n.attrs, "direction: "+g.pick([]string{"down", "right", "left", "up"}))
	}
}

// sequence fills n as a sequence diagram
func (g *Gen) sequence(n *node, maxActors, maxMsgs int) {
	r := g.R
	n.attrs = append(n.attrs, "shape: sequence_diagram")
	na := 1 + r.Intn(maxActors)
	var actors []*node
	// actor names that are prefixes of one another (user / userdb / "user gw"): the layout tells descendants from
	// other actors by their IDs.  (A quoted name with a dot is left out on purpose: inside a group d2 does not
	// resolve it to the actor, see finding C17-seq-dotted-actor-in-group; C17's harness keeps a fixed witness.)
	var family []string
	if r.Intn(3) == 0 {
		b := g.fresh()
		family = []string{b, b + "db", b + "dbx", b + "_z", b + "-0", "\"" + b + " gw\""}
		r.Shuffle(len(family), func(i, j int) { family[i], family[j] = family[j], family[i] })
	}
	for i := 0; i < na; i++ {
		name := ""
		if i < len(family) {
			name = family[i]
		} else {
			name = g.fresh()
		}
		a := n.add(&node{name: name})
		actors = append(actors, a)
		switch r.Intn(8) {
		case 0:
			a.attrs = append(a.attrs, "shape: person")
		case 1:
			a.attrs = append(a.attrs, "label: "+quoteVal(g.word()))
		case 2:
			a.attrs = append(a.attrs, "shape: "+g.pick([]string{"oval", "circle", "cylinder", "queue", "hexagon", "cloud", "diamond"}))
		case 3:
			if r.Intn(2) == 0 { // explicit widths: narrow ones exercise the MIN_ACTOR_WIDTH clamp
				a.attrs = append(a.attrs, "width: "+g.pick([]string{"10", "20", "60", "150", "300"}))
			}
		}
	}
	// late actors: not declared up front — they appear on a line of their own (or by first use) after some
	// messages and groups, so that groups precede later actors among the diagram's children
	var late []*node
	if na >= 2 && r.Intn(2) == 0 {
		k := 1 + r.Intn(2)
		if k >= na {
			k = na - 1
		}
		late = actors[na-k:]
		n.kids = n.kids[:len(n.kids)-k]
		// an actor first mentioned inside a group would become a child of the group (d2 then refuses the layout:
		// "could not find center of …. Is it declared as an actor?"), so late actors are only used after their
		// declaration line, see below
		actors = actors[:na-k]
	}
	nm := r.Intn(maxMsgs + 1)
	if len(late) > 0 && nm < 3 {
		nm = 3
	}
	ep := func() string {
		a := actors[r.Intn(len(actors))]
		switch r.Intn(6) {
		case 0:
			return a.name + "." + g.pick([]string{"s1", "s2"})
		case 1:
			return a.name + ".s1." + g.pick([]string{"t1", "t2"})
		}
		return a.name
	}
	msg := func() string {
		a, b := ep(), ep()
		if r.Intn(8) == 0 {
			b = a
		}
		s := a + " " + g.pick([]string{"->", "->", "->", "<-", "--", "<->"}) + " " + b
		if r.Intn(2) == 0 {
			s += ": " + quoteVal(g.word())
		}
		return s
	}
	i := 0
	for i < nm {
		switch r.Intn(10) {
		case 0: // several messages on one line
			k := 2 + r.Intn(3)
			var parts []string
			for j := 0; j < k; j++ {
				parts = append(parts, msg())
			}
			n.raw = append(n.raw, strings.Join(parts, "; "))
			i += k
		case 1: // chain
			a, b, c := ep(), ep(), ep()
			n.raw = append(n.raw, a+" -> "+b+" -> "+c)
			i += 2
		case 2: // note
			a := actors[r.Intn(len(actors))]
			n.raw = append(n.raw, a.name+"."+quoteVal("note "+g.word()+fmt.Sprint(g.n)))
			g.n++
		case 3: // group
			k := 1 + r.Intn(3)
			lines := []string{}
			for j := 0; j < k; j++ {
				lines = append(lines, "  "+msg())
			}
			if r.Intn(3) == 0 { // nested group
				lines = append(lines, "  "+g.fresh()+": {", "    "+msg(), "  }")
				i++
			}
			n.raw = append(n.raw, g.fresh()+": {\n"+strings.Join(lines, "\n")+"\n}")
			i += k
		default:
			n.raw = append(n.raw, msg())
			i++
		}
	}
	if len(late) > 0 {
		// make sure a group exists, then declare the late actors somewhere after it
		first := -1
		for idx, l := range n.raw {
			if strings.Contains(l, ": {\n") {
				first = idx
				break
			}
		}
		if first < 0 {
			n.raw = append([]string{g.fresh() + ": {\n  " + actors[0].name + " -> " + actors[0].name + ": think\n}"}, n.raw...)
			first = 0
		}
		for _, a := range late {
			pos := first + 1 + r.Intn(len(n.raw)-first)
			decl := a.name
			if len(a.attrs) > 0 {
				decl += ": {\n  " + strings.Join(a.attrs, "\n  ") + "\n}"
			}
			n.raw = append(n.raw[:pos], append([]string{decl}, n.raw[pos:]...)...)
		}
		// messages of the late actors, after all declarations
		actors = append(actors, late...)
		for i, k := 0, 1+r.Intn(4); i < k; i++ {
			a := late[r.Intn(len(late))]
			b := ep()
			if r.Intn(2) == 0 {
				n.raw = append(n.raw, a.name+" -> "+b)
			} else {
				n.raw = append(n.raw, b+" -> "+a.name+": "+quoteVal(g.word()))
			}
		}
	}
}

// grid fills n as a grid diagram
func (g *Gen) grid(n *node, depth int) {
	r := g.R
	switch r.Intn(3) {
	case 0:
		n.attrs = append(n.attrs, fmt.Sprintf("grid-rows: %d", 1+r.Intn(4)))
	case 1:
		n.attrs = append(n.attrs, fmt.Sprintf("grid-columns: %d", 1+r.Intn(4)))
	default:
		n.attrs = append(n.attrs, fmt.Sprintf("grid-rows: %d", 1+r.Intn(3)), fmt.Sprintf("grid-columns: %d", 1+r.Intn(3)))
	}
	if r.Intn(4) == 0 {
		n.attrs = append(n.attrs, fmt.Sprintf("grid-gap: %d", r.Intn(40)))
	}
	nc := 1 + r.Intn(8)
	for i := 0; i < nc; i++ {
		c := n.add(&node{name: g.fresh()})
		switch r.Intn(9) {
		case 0, 1: // container cell
			g.tree(c, 1+r.Intn(3), 2, false)
			g.edges(c, r.Intn(3), false)
		case 2:
			if depth > 0 {
				g.grid(c, depth-1)
			}
		case 3:
			if depth > 0 {
				g.sequence(c, 3, 4)
			}
		case 4:
			c.attrs = append(c.attrs, "label: "+quoteVal(g.word()))
		case 5:
			// a low cell with a tall label outside on the left/right (bottom / middle aligned) or above/below
			lines := 2 + r.Intn(6)
			lab := make([]string, lines)
			for k := range lab {
				lab[k] = fmt.Sprintf("l%d", k+1)
			}
			c.attrs = append(c.attrs, "label: "+quoteVal(strings.Join(lab, "\\n")),
				"label.near: "+g.pick([]string{"outside-left-bottom", "outside-left-center", "outside-right-bottom",
					"outside-right-center", "outside-left-top", "outside-top-center", "outside-bottom-center", "outside-bottom-left"}),
				fmt.Sprintf("height: %d", 20+r.Intn(40)))
		case 6:
			c.attrs = append(c.attrs, fmt.Sprintf("height: %d", 120+r.Intn(250)))
		}
	}
	// cell-to-cell edges and edges between descendants of different cells
	for i, k := 0, r.Intn(3); i < k && len(n.kids) > 1; i++ {
		a, b := n.kids[r.Intn(len(n.kids))], n.kids[r.Intn(len(n.kids))]
		if a == b {
			continue
		}
		pa, pb := a.name, b.name
		if len(a.kids) > 0 && !hasAttr(a, "grid-") && !hasAttr(a, "sequence_diagram") && r.Intn(2) == 0 {
			pa += "." + a.kids[r.Intn(len(a.kids))].name
		}
		if len(b.kids) > 0 && !hasAttr(b, "grid-") && !hasAttr(b, "sequence_diagram") && r.Intn(2) == 0 {
			pb += "." + b.kids[r.Intn(len(b.kids))].name
		}
		n.raw = append(n.raw, pa+" -> "+pb)
	}
}

func hasAttr(n *node, sub string) bool {
	for _, a := range n.attrs {
		if strings.Contains(a, sub) {
			return true
		}
	}
	return false
}

// Program returns one D2 program of the given profile.
func (g *Gen) Program(profile string) string {
	r := g.R
	g.n = 0
	g.special = profile == "names"
	root := &node{}
	switch profile {
	case "core", "names":
		g.direction(root)
		g.tree(root, 1+r.Intn(10), 1+r.Intn(3), false)
		g.edges(root, r.Intn(10), false)
	case "styled":
		g.direction(root)
		g.tree(root, 1+r.Intn(9), 1+r.Intn(3), true)
		g.edges(root, r.Intn(9), true)
	case "grid":
		if r.Intn(2) == 0 {
			g.grid(root, 1)
		} else {
			g.tree(root, 1+r.Intn(4), 2, false)
			c := root.add(&node{name: g.fresh()})
			g.grid(c, 1)
			g.edges(root, r.Intn(5), false)
		}
	case "seq":
		if r.Intn(2) == 0 {
			g.sequence(root, 8, 30)
		} else {
			g.tree(root, r.Intn(4), 2, false)
			c := root.add(&node{name: g.fresh()})
			g.sequence(c, 6, 12)
			if len(root.kids) > 1 && r.Intn(2) == 0 {
				root.raw = append(root.raw, root.kids[0].name+" -> "+c.name)
			}
		}
	case "near":
		g.direction(root)
		g.tree(root, 1+r.Intn(6), 2, r.Intn(2) == 0)
		g.edges(root, r.Intn(6), false)
		for i, k := 0, 1+r.Intn(4); i < k; i++ {
			c := root.add(&node{name: g.fresh()})
			c.attrs = append(c.attrs, "near: "+g.pick(nearConsts))
			switch r.Intn(5) {
			case 0:
				g.tree(c, 1+r.Intn(3), 2, false)
				g.edges(c, r.Intn(3), false)
			case 1:
				g.grid(c, 0)
			case 2:
				g.sequence(c, 3, 4)
			case 3:
				c.attrs = append(c.attrs, "label: "+quoteVal(g.word()))
			}
		}
	case "nested":
		// container > sequence > actor that is a grid; grid cell that is a sequence; container > grid > container > grid
		c := root.add(&node{name: g.fresh()})
		switch r.Intn(4) {
		case 0:
			s := c.add(&node{name: g.fresh()})
			g.sequence(s, 4, 8)
			if len(s.kids) > 0 {
				a := s.kids[r.Intn(len(s.kids))]
				// an actor that is a grid and whose spans carry messages inside a group makes the layout fail (finding
				// C17-seq-grid-actor-span-in-group; C17 keeps a fixed witness): only actors without span messages
				usesSpan := false
				for _, l := range s.raw {
					if strings.Contains(l, a.name+".s") {
						usesSpan = true
					}
				}
				if len(a.attrs) == 0 && !usesSpan {
					g.grid(a, 0)
				}
			}
		case 1:
			g.grid(c, 2)
		case 2:
			gr := c.add(&node{name: g.fresh()})
			g.grid(gr, 2)
			o := c.add(&node{name: g.fresh()})
			g.tree(o, 1+r.Intn(3), 2, false)
		default:
			s := c.add(&node{name: g.fresh()})
			g.sequence(s, 4, 6)
			gr := c.add(&node{name: g.fresh()})
			g.grid(gr, 1)
		}
		g.tree(root, r.Intn(4), 2, false)
		// cross-diagram edges from the outside
		var all []*node
		root.all(&all)
		for i, k := 0, r.Intn(4); i < k && len(all) > 1; i++ {
			a, b := all[r.Intn(len(all))], all[r.Intn(len(all))]
			if a == b || isAnc(a, b) || isAnc(b, a) {
				continue
			}
			root.raw = append(root.raw, a.path()+" -> "+b.path())
		}
		if r.Intn(3) == 0 {
			nn := root.add(&node{name: g.fresh()})
			nn.attrs = append(nn.attrs, "near: "+g.pick(nearConsts))
			g.tree(nn, 1+r.Intn(2), 1, false)
		}
	case "deep":
		// C20: containers with margins (outside label / icon on one side, 3d, multiple) holding shapes several levels
		// down that connect to shapes outside; shapes with margins on opposite sides and connections leaving them
		g.direction(root)
		outsidePos := []string{"outside-bottom-center", "outside-bottom-left", "outside-bottom-right", "outside-top-left",
			"outside-top-right", "outside-left-center", "outside-left-top", "outside-right-center", "outside-right-bottom"}
		var outs []*node
		for i, k := 0, 1+r.Intn(3); i < k; i++ {
			outs = append(outs, root.add(&node{name: g.fresh()}))
		}
		for i, k := 0, 1+r.Intn(2); i < k; i++ {
			c := root.add(&node{name: g.fresh()})
			switch r.Intn(4) {
			case 0:
				c.attrs = append(c.attrs, "label.near: "+g.pick(outsidePos))
			case 1:
				c.attrs = append(c.attrs, "icon: "+iconURL, "icon.near: "+g.pick(outsidePos))
			case 2:
				c.attrs = append(c.attrs, "label.near: "+g.pick(outsidePos), "icon: "+iconURL, "icon.near: "+g.pick(outsidePos))
			default:
				c.attrs = append(c.attrs, g.pick([]string{"style.multiple: true", "style.3d: true"}))
			}
			cur := c
			for d, depth := 0, 1+r.Intn(3); d < depth; d++ {
				if r.Intn(3) == 0 {
					cur.add(&node{name: g.fresh()})
				}
				cur = cur.add(&node{name: g.fresh()})
			}
			// cur is a leaf some levels down
			for j, m := 0, 1+r.Intn(2); j < m; j++ {
				o := outs[r.Intn(len(outs))]
				if r.Intn(2) == 0 {
					root.raw = append(root.raw, cur.path()+" -> "+o.path())
				} else {
					root.raw = append(root.raw, o.path()+" -> "+cur.path())
				}
			}
		}
		// shapes with margins on opposite sides
		for i, k := 0, 1+r.Intn(2); i < k; i++ {
			a := root.add(&node{name: g.fresh()})
			a.attrs = append(a.attrs, "label: "+quoteVal(g.pick([]string{"ab", "alpha", "x"})))
			switch r.Intn(3) {
			case 0:
				a.attrs = append(a.attrs, g.pick([]string{"style.multiple: true", "style.3d: true"}),
					"label.near: "+g.pick([]string{"outside-bottom-left", "outside-bottom-right", "outside-left-bottom", "outside-left-center"}))
			case 1:
				a.attrs = append(a.attrs, "label.near: "+g.pick([]string{"outside-left-center", "outside-top-left"}),
					"icon: "+iconURL, "icon.near: "+g.pick([]string{"outside-right-center", "outside-bottom-right"}))
			default:
				a.attrs = append(a.attrs, g.pick([]string{"style.multiple: true", "style.3d: true"}),
					"icon: "+iconURL, "icon.near: "+g.pick([]string{"outside-bottom-left", "outside-left-center"}))
			}
			if r.Intn(2) == 0 {
				a.attrs = append(a.attrs, fmt.Sprintf("width: %d", 120+r.Intn(200)))
			}
			o := outs[r.Intn(len(outs))]
			if r.Intn(3) > 0 {
				root.raw = append(root.raw, a.path()+" -> "+o.path())
			} else {
				root.raw = append(root.raw, o.path()+" -> "+a.path())
			}
		}
	case "boards":
		g.tree(root, 1+r.Intn(4), 2, false)
		g.edges(root, r.Intn(4), false)
		var sb strings.Builder
		root.emit(&sb, "")
		for _, kind := range []string{"layers", "scenarios", "steps"} {
			if r.Intn(2) == 0 {
				continue
			}
			sb.WriteString(kind + ": {\n")
			for i, k := 0, 1+r.Intn(2); i < k; i++ {
				sub := &node{}
				g.tree(sub, 1+r.Intn(4), 2, false)
				g.edges(sub, r.Intn(3), false)
				if r.Intn(4) == 0 {
					sub = &node{}
					g.sequence(sub, 3, 4)
				}
				sb.WriteString(fmt.Sprintf("  %s%d: {\n", kind[:2], i))
				sub.emit(&sb, "    ")
				sb.WriteString("  }\n")
			}
			sb.WriteString("}\n")
		}
		return sb.String()
	}
	var sb strings.Builder
	root.emit(&sb, "")
	return sb.String()
}

// RootSequence returns a program whose whole board is a sequence diagram (1–8 actors, 0–30 messages).
func (g *Gen) RootSequence() string {
	g.n = 0
	g.special = false
	root := &node{}
	g.sequence(root, 8, 30)
	var sb strings.Builder
	root.emit(&sb, "")
	return sb.String()
}
