package lay

import (
	"bufio"
	"encoding/json"
	"fmt"
	"os"
	"os/exec"
	"strings"
	"sync"
	"time"
)

// Process isolation of layout jobs.  A layout that dies with a fatal runtime error (stack overflow, out of memory)
// or never returns cannot be caught by recover(): it would take the whole harness down and the failing input
// would be lost.  RunAll therefore hands the jobs to worker *processes* (the harness binary re-executed with
// D2V_LAY_CHILD=1; every harness main starts with lay.MaybeChild()).  One job is in flight per worker, so when a
// worker dies or exceeds the per-job time limit the parent knows the input, records the outcome
// "fatal: …" / "timeout: …" as the layout result of that job and starts a fresh worker for the rest.

const childEnv = "D2V_LAY_CHILD"

type wireJob struct {
	I      int    `json:"i"`
	Src    string `json:"src"`
	Engine string `json:"engine"`
	Render bool   `json:"render"`
}

type wireRes struct {
	I   int     `json:"i"`
	Res *Result `json:"res"`
}

// MaybeChild turns the process into a layout worker when it was started as one.
func MaybeChild() {
	if os.Getenv(childEnv) == "" {
		return
	}
	in := bufio.NewReaderSize(os.Stdin, 1<<20)
	out := bufio.NewWriterSize(os.Stdout, 1<<20)
	for {
		line, err := in.ReadBytes('\n')
		if len(line) > 0 {
			var j wireJob
			if json.Unmarshal(line, &j) == nil {
				r := Run(j.Src, j.Engine, j.Render)
				b, _ := json.Marshal(wireRes{I: j.I, Res: r})
				out.Write(b)
				out.WriteByte('\n')
				out.Flush()
			}
		}
		if err != nil {
			break
		}
	}
	os.Exit(0)
}

// per-job limit: an engine run takes well under a second on an idle core; minutes mean it does not terminate
func jobTimeout() time.Duration {
	return 5 * time.Minute
}

type worker struct {
	cmd    *exec.Cmd
	stdin  *bufio.Writer
	lines  chan []byte
	stderr *tailBuf
}

type tailBuf struct {
	mu sync.Mutex
	b  []byte
}

func (t *tailBuf) Write(p []byte) (int, error) {
	t.mu.Lock()
	defer t.mu.Unlock()
	t.b = append(t.b, p...)
	if len(t.b) > 4000 {
		t.b = t.b[:4000] // the head of a Go crash report names the error
	}
	return len(p), nil
}

func (t *tailBuf) String() string {
	t.mu.Lock()
	defer t.mu.Unlock()
	return string(t.b)
}

func startWorker() (*worker, error) {
	cmd := exec.Command(os.Args[0])
	cmd.Env = append(os.Environ(), childEnv+"=1")
	stdin, err := cmd.StdinPipe()
	if err != nil {
		return nil, err
	}
	stdout, err := cmd.StdoutPipe()
	if err != nil {
		return nil, err
	}
	w := &worker{cmd: cmd, stdin: bufio.NewWriter(stdin), lines: make(chan []byte, 1), stderr: &tailBuf{}}
	cmd.Stderr = w.stderr
	if err := cmd.Start(); err != nil {
		return nil, err
	}
	go func() {
		r := bufio.NewReaderSize(stdout, 1<<20)
		for {
			line, err := r.ReadBytes('\n')
			if len(line) > 0 {
				w.lines <- line
			}
			if err != nil {
				close(w.lines)
				return
			}
		}
	}()
	return w, nil
}

func (w *worker) kill() {
	if w.cmd.Process != nil {
		w.cmd.Process.Kill()
	}
	w.cmd.Wait()
}

func crashed(j Job, how string) *Result {
	return &Result{Src: j.Src, Engine: j.Engine, Compile: "ok", Render: "skipped",
		Boards: []*Board{{Path: "root", Layout: how, Export: "skipped"}}}
}

func firstFatalLine(s string) string {
	for _, l := range strings.Split(s, "\n") {
		if strings.HasPrefix(l, "fatal error:") || strings.HasPrefix(l, "runtime:") || strings.HasPrefix(l, "panic:") {
			return firstLine(l)
		}
	}
	return firstLine(s)
}

// runIsolated is RunAll over worker processes.
func runIsolated(jobs []Job, n int, budget time.Duration, min int) []*Result {
	res := make([]*Result, len(jobs))
	ch := make(chan int)
	var wg sync.WaitGroup
	for k := 0; k < n; k++ {
		wg.Add(1)
		go func() {
			defer wg.Done()
			var w *worker
			defer func() {
				if w != nil {
					w.kill()
				}
			}()
			for i := range ch {
				if w == nil {
					var err error
					if w, err = startWorker(); err != nil {
						res[i] = Run(jobs[i].Src, jobs[i].Engine, jobs[i].Render) // cannot isolate: run in-process
						w = nil
						continue
					}
				}
				b, _ := json.Marshal(wireJob{I: i, Src: jobs[i].Src, Engine: jobs[i].Engine, Render: jobs[i].Render})
				w.stdin.Write(b)
				w.stdin.WriteByte('\n')
				w.stdin.Flush()
				select {
				case line, ok := <-w.lines:
					var wr wireRes
					if ok && json.Unmarshal(line, &wr) == nil && wr.Res != nil {
						res[i] = wr.Res
					} else {
						w.cmd.Wait()
						res[i] = crashed(jobs[i], "fatal: layout worker process died: "+firstFatalLine(w.stderr.String()))
						w = nil
					}
				case <-time.After(jobTimeout()):
					w.kill()
					res[i] = crashed(jobs[i], fmt.Sprintf("timeout: layout did not return within %v", jobTimeout()))
					w = nil
				}
			}
		}()
	}
	deadline := time.Now().Add(budget)
	for i := range jobs {
		if budget > 0 && i >= min && time.Now().After(deadline) {
			break
		}
		ch <- i
	}
	close(ch)
	wg.Wait()
	return res
}
