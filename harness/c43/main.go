package main

import (
	"d2v/harness/hl"
	"encoding/base64"
	"math/rand"

	"oss.terrastruct.com/d2/lib/urlenc"
)

// C43: urlenc.Encode/Decode round trip, alphabet, and the base64 layer against the Lean model.
func main() { hl.Main("C43", runC43) }

func c43Observe(raw []byte) map[string]any {
	in := map[string]any{"raw": hl.Hx(raw)}
	out := map[string]any{}
	enc, err := urlenc.Encode(string(raw))
	if err != nil {
		out["encErr"] = err.Error()
		return map[string]any{"k": "urlenc", "in": in, "out": out}
	}
	out["enc"] = hl.Hx([]byte(enc))
	dec, err := urlenc.Decode(enc)
	if err != nil {
		out["decErr"] = err.Error()
	} else {
		out["dec"] = hl.Hx([]byte(dec))
	}
	// the compressed bytes, so the model's base64 layer can be compared exactly
	if z, err := base64.URLEncoding.DecodeString(enc); err == nil {
		out["z"] = hl.Hx(z)
	}
	return map[string]any{"k": "urlenc", "in": in, "out": out}
}

func c43B64(s []byte) map[string]any {
	out := map[string]any{}
	d, err := base64.URLEncoding.DecodeString(string(s))
	if err != nil {
		out["err"] = true
	} else {
		out["dec"] = hl.Hx(d)
	}
	return map[string]any{"k": "b64dec", "in": map[string]any{"s": hl.Hx(s)}, "out": out}
}

func runC43(c *hl.Ctx) error {
	if cs := c.ReplayCase(); cs != nil {
		in := cs["in"].(map[string]any)
		if cs["k"] == "b64dec" {
			c.Emit(c43B64(hl.Unhx(in["s"].(string))))
		} else {
			c.Emit(c43Observe(hl.Unhx(in["raw"].(string))))
		}
		return nil
	}
	r := c.Rand()
	// corpus: edge sizes first
	for n := 0; n <= 8; n++ {
		b := make([]byte, n)
		for i := range b {
			b[i] = byte(0xf8 + i)
		}
		c.Emit(c43Observe(b))
		c.Count("corpus")
	}
	// sizes around and beyond 1 MiB (compressible, so the compressed form stays small): a decoder that bounds its output
	// or buffers in fixed blocks shows up only here
	for _, n := range []int{1<<20 - 1, 1 << 20, 1<<20 + 1, 3<<20 + 7} {
		b := make([]byte, n)
		for i := range b {
			b[i] = byte('a' + (i/977)%7)
		}
		c.Emit(c43Observe(b))
		c.Count("raw:megabyte")
	}
	n := c.Pick(4000, 60000)
	for i := 0; i < n; i++ {
		c.Emit(c43Observe(c43Gen(c, r)))
	}
	// malformed / arbitrary base64 texts for the decoder model (no CR/LF: the Go decoder skips those)
	alpha := []byte("ABCXYZabcxyz0189-_=+/ .")
	m := c.Pick(4000, 200000)
	for i := 0; i < m; i++ {
		var s []byte
		if r.Intn(2) == 0 {
			raw := make([]byte, r.Intn(12))
			r.Read(raw)
			s = []byte(base64.URLEncoding.EncodeToString(raw))
			switch r.Intn(4) {
			case 0: // mutate one byte
				if len(s) > 0 {
					s[r.Intn(len(s))] = alpha[r.Intn(len(alpha))]
				}
				c.Count("b64:mutated")
			case 1: // drop the tail
				if len(s) > 0 {
					s = s[:r.Intn(len(s))]
				}
				c.Count("b64:truncated")
			default:
				c.Count("b64:valid")
			}
		} else {
			s = make([]byte, r.Intn(10))
			for j := range s {
				s[j] = alpha[r.Intn(len(alpha))]
			}
			c.Count("b64:random")
		}
		c.Emit(c43B64(s))
	}
	return nil
}

func c43Gen(c *hl.Ctx, r *rand.Rand) []byte {
	switch r.Intn(5) {
	case 0: // arbitrary bytes incl. invalid UTF-8
		b := make([]byte, r.Intn(300))
		r.Read(b)
		c.Count("raw:random-bytes")
		return b
	case 1: // highly compressible
		b := make([]byte, r.Intn(5000))
		ch := byte('a' + r.Intn(3))
		for i := range b {
			b[i] = ch
			if r.Intn(50) == 0 {
				ch = byte('a' + r.Intn(3))
			}
		}
		c.Count("raw:compressible")
		return b
	case 2: // d2-like script
		words := []string{"a", "b", "x -> y", ": ", "{\n", "}\n", "shape: circle\n", "style.fill: red\n", "# c\n", "é", "😀", "|md\n# t\n|", "\n"}
		s := ""
		for i, k := 0, r.Intn(60); i < k; i++ {
			s += words[r.Intn(len(words))]
		}
		c.Count("raw:d2-like")
		return []byte(s)
	case 3: // large incompressible
		b := make([]byte, 1000+r.Intn(c.Pick(8000, 64000)))
		r.Read(b)
		c.Count("raw:large")
		return b
	default: // tiny
		b := make([]byte, r.Intn(7))
		r.Read(b)
		c.Count("raw:tiny")
		return b
	}
}
