package main

import (
	"math/rand"
	"runtime"
	"strings"

	"d2v/harness/hl"
	"d2v/harness/lay"

	"oss.terrastruct.com/d2/d2layouts/d2dagrelayout"
	"oss.terrastruct.com/d2/lib/jsrunner"
)

// C17: (a) the dagre bridge: escapeID (verif hook) and the JS reading of the template literal it is spliced
// into (real goja) vs the Lean model; (b) every compilable generated diagram is laid out by dagre and ELK through
// the real LayoutNested, exported and rendered: outcome + geometry for Spec.finiteGeometry.
func main() {
	lay.MaybeChild()
	hl.Main("C17", run)
}

func cps(s string) []int {
	out := []int{}
	for _, r := range s {
		out = append(out, int(r))
	}
	return out
}

func fromCps(a []any) string {
	var sb strings.Builder
	for _, x := range a {
		sb.WriteRune(rune(int(x.(float64))))
	}
	return sb.String()
}

// evalTemplate evaluates `body` as a tagged template so that a substitution is detected (strings.length > 1)
// rather than evaluated away; the tag returns the cooked string of a no-substitution template.
func evalTemplate(r jsrunner.JSRunner, body string) map[string]any {
	// the tag's return value is an object only the tag can produce, and it must have been called exactly once:
	// a body that ends the literal early makes the rest parse as more JS, which then cannot evaluate to that object
	// (the parentheses keep automatic semicolon insertion after a line terminator in the body from splitting the rest off
	// into a statement of its own)
	_, err := r.RunString("var __n = 0, __last = null; function __tag(s){ __n++; __last = {s: s}; return __last; }; var __r = (__tag`" + body + "`);")
	if err != nil {
		return map[string]any{"err": strings.SplitN(err.Error(), ":", 2)[0]}
	}
	v, err := r.RunString("(__n !== 1 || __r !== __last) ? 'E' : (__last.s.length != 1 ? 'S' : (__last.s[0] === undefined ? 'U' : 'L' + __last.s[0]))")
	if err != nil {
		return map[string]any{"err": strings.SplitN(err.Error(), ":", 2)[0]}
	}
	s := v.String()
	switch s[0] {
	case 'E':
		return map[string]any{"err": "literal-ended-early"}
	case 'S':
		return map[string]any{"err": "substitution"}
	case 'U':
		return map[string]any{"err": "invalid-escape"}
	}
	return map[string]any{"ok": cps(s[1:])}
}

func escCase(r jsrunner.JSRunner, id string) map[string]any {
	esc := d2dagrelayout.VerifEscapeID(id)
	return map[string]any{"k": "esc", "in": map[string]any{"id": cps(id)},
		"out": map[string]any{"esc": cps(esc), "js": evalTemplate(r, esc)}}
}

func tmplCase(r jsrunner.JSRunner, body string) map[string]any {
	return map[string]any{"k": "tmpl", "in": map[string]any{"body": cps(body)}, "out": map[string]any{"js": evalTemplate(r, body)}}
}

func layCase(res *lay.Result) map[string]any {
	boards := []any{}
	for _, b := range res.Boards {
		m := map[string]any{"path": b.Path, "layout": b.Layout, "export": b.Export}
		if b.Geo != nil {
			m["geo"] = b.Geo
		}
		boards = append(boards, m)
	}
	c := map[string]any{"k": "lay", "in": map[string]any{"src": res.Src, "engine": res.Engine},
		"out": map[string]any{"compile": res.Compile, "boards": boards, "render": res.Render}}
	if res.Compile != "ok" {
		c["triv"] = true
	}
	return c
}

var alphabet = []rune{'a', 'b', 'n', 'r', 't', '0', '1', '7', ' ', '\\', '\\', '`', '`', '$', '$', '{', '}', '\n', '\r', '\t',
	'"', '\'', 'é', '日', '😀', 0x2028, 0x2029, 0, '(', ')', '[', ']', '-', '>', '.', 'v', 'f', '8'}

func randString(r *rand.Rand, maxLen int) string {
	n := r.Intn(maxLen + 1)
	var sb strings.Builder
	for i := 0; i < n; i++ {
		sb.WriteRune(alphabet[r.Intn(len(alphabet))])
	}
	return sb.String()
}

func run(c *hl.Ctx) error {
	jr := jsrunner.NewJSRunner()
	if cs := c.ReplayCase(); cs != nil {
		in := cs["in"].(map[string]any)
		switch cs["k"] {
		case "esc":
			c.Emit(escCase(jr, fromCps(in["id"].([]any))))
		case "tmpl":
			c.Emit(tmplCase(jr, fromCps(in["body"].([]any))))
		default:
			c.Emit(layCase(lay.Run(in["src"].(string), in["engine"].(string), true)))
		}
		return nil
	}
	r := c.Rand()
	// fixed witnesses first (DESIGN §7)
	for _, id := range []string{"(a`b -> c)[0]", "(a${x}b -> c)[0]", "ab\nc", "a\\nb", "a\\\nb", "\n", "\n\n", "a\rb", "a\r\nb", "$", "${", "`", "\\`", "\\", ""} {
		c.Emit(escCase(jr, id))
		c.Count("esc:witness")
	}
	for i, n := 0, c.Pick(6000, 300000); i < n; i++ {
		c.Emit(escCase(jr, randString(r, 10)))
		c.Count("esc:random")
	}
	for i, n := 0, c.Pick(6000, 300000); i < n; i++ {
		c.Emit(tmplCase(jr, randString(r, 8)))
		c.Count("tmpl:random")
	}
	// layouts
	g := &lay.Gen{R: r}
	var jobs []lay.Job
	// the DESIGN §7 witnesses as programs
	for _, src := range []string{"'a`b' -> c\n", "'a${x}b' -> c\n", "\"a\\nb\" -> c\n\"ax\\nb\" -> c\n",
		// open finding C17-seq-dotted-actor-in-group
		"shape: sequence_diagram\n\"a.z\"\nb\ng: {\n  b -> \"a.z\"\n  h: {\n    b -> b\n  }\n}\n",
		// open finding C17-seq-grid-actor-span-in-group
		"shape: sequence_diagram\na\nb: {\n  grid-rows: 1\n  x\n  y\n}\ng: {\n  b.s1 -> a\n}\n"} {
		for _, e := range []string{"dagre", "elk"} {
			jobs = append(jobs, lay.Job{Src: src, Engine: e, Render: true, Tag: "witness"})
		}
	}
	nProg := lay.DevN(c.Pick(320, 6000))
	weights := []string{"core", "styled", "deep", "grid", "seq", "near", "nested", "names", "names", "boards"}
	for i := 0; i < nProg; i++ {
		p := weights[i%len(weights)]
		src := g.Program(p)
		for _, e := range []string{"dagre", "elk"} {
			jobs = append(jobs, lay.Job{Src: src, Engine: e, Render: true, Tag: p})
		}
	}
	res := lay.RunAll(jobs, runtime.NumCPU(), lay.QuickBudget(c.Quick()), 32)
	for i, rr := range res {
		if rr == nil {
			c.Count("budget:not-run")
			continue
		}
		for _, ft := range lay.Features(rr) {
			c.Count(rr.Engine + ":" + ft)
		}
		c.Emit(layCase(rr))
		c.Count("lay:" + jobs[i].Tag + ":" + rr.Engine)
		if rr.Compile != "ok" {
			c.Count("lay:not-compilable")
		}
	}
	return nil
}
