package main

import (
	"fmt"
	"math/rand"
	"runtime"
	"strings"

	"d2v/harness/hl"
	"d2v/harness/lay"
)

// C23: laid-out geometry of generated sequence diagrams (1–8 actors, spans, notes, groups, self messages, 0–30
// messages, several per line; as the whole board or nested in a container / grid cell) for the Lean Spec (actor
// order and baseline, message order, horizontality, attachment) and for the correspondence with Model/Seq.lean.
func main() {
	lay.MaybeChild()
	hl.Main("C23", run)
}

// tieHeavy: many messages, several per line, no groups — the input on which an unstable sort by line number could
// reorder (pdqsort leaves insertion sort above 12 elements)
func tieHeavy(r *rand.Rand) string {
	var sb strings.Builder
	sb.WriteString("shape: sequence_diagram\n")
	na := 2 + r.Intn(7)
	for i := 0; i < na; i++ {
		fmt.Fprintf(&sb, "a%d\n", i)
	}
	nm := 13 + r.Intn(18)
	for i := 0; i < nm; {
		k := 1 + r.Intn(4)
		var parts []string
		for j := 0; j < k; j++ {
			parts = append(parts, fmt.Sprintf("a%d -> a%d: m%d", r.Intn(na), r.Intn(na), i+j))
		}
		sb.WriteString(strings.Join(parts, "; ") + "\n")
		i += k
	}
	return sb.String()
}

func run(c *hl.Ctx) error {
	if cs := c.ReplayCase(); cs != nil {
		in := cs["in"].(map[string]any)
		c.Emit(lay.GeoCase(lay.Run(in["src"].(string), in["engine"].(string), false)))
		return nil
	}
	r := c.Rand()
	g := &lay.Gen{R: r}
	// (1) the sequence diagram is the whole board: no dagre/ELK run is involved (the engine only names the core
	// layout that is never called), so these are cheap and run without a time budget
	var rootJobs []lay.Job
	for i, n := 0, lay.DevN(c.Pick(1500, 40000)); i < n; i++ {
		var src, tag string
		if i%4 == 0 {
			src, tag = tieHeavy(r), "tie-heavy:board"
		} else {
			sub := &lay.Gen{R: r}
			src, tag = sub.RootSequence(), "seq:board"
		}
		rootJobs = append(rootJobs, lay.Job{Src: src, Engine: []string{"dagre", "elk"}[r.Intn(2)], Tag: tag})
	}
	// (2) sequence diagrams nested in containers / grid cells / nears, and special diagrams nested in actors: these
	// go through LayoutNested with real core layouts, under the wall-time budget
	var jobs []lay.Job
	nProg := lay.DevN(c.Pick(450, 6000))
	for i := 0; i < nProg; i++ {
		var src, tag string
		if i%3 == 1 {
			src, tag = g.Program("nested"), "nested"
		} else {
			src, tag = g.Program("seq"), "seq"
		}
		if strings.HasPrefix(src, "shape: sequence_diagram") {
			jobs = append(jobs, lay.Job{Src: src, Engine: []string{"dagre", "elk"}[i%2], Tag: tag + ":board"})
			continue
		}
		for _, e := range lay.Engines(i/3, 2) {
			jobs = append(jobs, lay.Job{Src: src, Engine: e, Tag: tag})
		}
	}
	emit := func(jobs []lay.Job, res []*lay.Result) {
		for i, rr := range res {
			if rr == nil {
				c.Count("budget:not-run")
				continue
			}
			for _, ft := range lay.Features(rr) {
				c.Count(rr.Engine + ":" + ft)
			}
			c.Emit(lay.GeoCase(rr))
			c.Count("seq:" + jobs[i].Tag)
			if rr.Compile != "ok" {
				c.Count("seq:not-compilable")
			}
		}
	}
	emit(rootJobs, lay.RunAll(rootJobs, runtime.NumCPU(), 0, 0))
	emit(jobs, lay.RunAll(jobs, runtime.NumCPU(), lay.QuickBudget(c.Quick()), 32))
	return nil
}
