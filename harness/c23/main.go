package main

import (
	"fmt"
	"math/rand"
	"runtime"
	"strings"

	"d2v/harness/hl"
	"d2v/harness/lay"
)

// C23: laid-out geometry of generated sequence diagrams (1–8 actors, spans, notes, groups, self messages, 0–30
// messages, several per line; as the whole board or nested in a container / grid cell) for the Lean Spec (actor
// order and baseline, message order, horizontality, attachment) and for the correspondence with Model/Seq.lean.
func main() { hl.Main("C23", run) }

// tieHeavy: many messages, several per line, no groups — the input on which an unstable sort by line number could
// reorder (pdqsort leaves insertion sort above 12 elements)
func tieHeavy(r *rand.Rand) string {
	var sb strings.Builder
	sb.WriteString("shape: sequence_diagram\n")
	na := 2 + r.Intn(7)
	for i := 0; i < na; i++ {
		fmt.Fprintf(&sb, "a%d\n", i)
	}
	nm := 13 + r.Intn(18)
	for i := 0; i < nm; {
		k := 1 + r.Intn(4)
		var parts []string
		for j := 0; j < k; j++ {
			parts = append(parts, fmt.Sprintf("a%d -> a%d: m%d", r.Intn(na), r.Intn(na), i+j))
		}
		sb.WriteString(strings.Join(parts, "; ") + "\n")
		i += k
	}
	return sb.String()
}

func run(c *hl.Ctx) error {
	if cs := c.ReplayCase(); cs != nil {
		in := cs["in"].(map[string]any)
		c.Emit(lay.GeoCase(lay.Run(in["src"].(string), in["engine"].(string), false)))
		return nil
	}
	r := c.Rand()
	g := &lay.Gen{R: r}
	var jobs []lay.Job
	nProg := lay.DevN(c.Pick(360, 8000))
	for i := 0; i < nProg; i++ {
		var src, tag string
		switch i % 6 {
		case 0:
			src, tag = tieHeavy(r), "tie-heavy"
		case 1:
			src, tag = g.Program("nested"), "nested"
		default:
			src, tag = g.Program("seq"), "seq"
		}
		// the sequence layout is engine independent when the sequence diagram is the whole board; alternate engines
		// there and run both when it is nested
		if strings.HasPrefix(src, "shape: sequence_diagram") {
			e := []string{"dagre", "elk"}[i%2]
			jobs = append(jobs, lay.Job{Src: src, Engine: e, Tag: tag + ":root"})
		} else {
			for _, e := range []string{"dagre", "elk"} {
				jobs = append(jobs, lay.Job{Src: src, Engine: e, Tag: tag})
			}
		}
	}
	res := lay.RunAll(jobs, runtime.NumCPU(), lay.QuickBudget(c.Quick()), 32)
	for i, rr := range res {
		if rr == nil {
			c.Count("budget:not-run")
			continue
		}
		c.Emit(lay.GeoCase(rr))
		c.Count("seq:" + jobs[i].Tag)
		if rr.Compile != "ok" {
			c.Count("seq:not-compilable")
		}
	}
	return nil
}
