package main

import (
	"d2v/harness/hl"
	"d2v/harness/pgen"
)

// C01: d2parser.Parse / ParseKey / ParseMapKey / ParseValue on generated, mutated, raw-byte, harvested and deeply
// nested inputs; outcome (ok / panic / timeout), canonical syntax tree and error list for the Lean driver.
func main() { hl.Main("C01", func(c *hl.Ctx) error { return pgen.Run(c, false) }) }
