package main

import (
	"d2v/harness/hl"
	"d2v/harness/semlib"
)

// C09: the structural dump of every board of compiled programs of all profiles (class / sql_table / sequence / grid /
// boards / underscores / core fragment) for the Spec predicates, and core-fragment programs for the graph-construction model.
func main() { hl.Main("C09", run) }

func run(c *hl.Ctx) error {
	if cs := c.ReplayCase(); cs != nil {
		in := cs["in"].(map[string]any)
		src := in["src"].(string)
		if cs["k"] == "graph" {
			if gc, _ := semlib.GraphCase(in["profile"].(string), src); gc != nil {
				c.Emit(gc)
			}
		} else if cc, _ := semlib.CoreCase(src); cc != nil {
			c.Emit(cc)
		}
		return nil
	}
	r := c.Rand()
	k := c.Pick(3500, 50000)
	for i := 0; i < k; i++ {
		src := semlib.RichProgram(r)
		gc, why := semlib.GraphCase("rich", src)
		if gc == nil {
			c.Count("graph:skipped:" + why)
			continue
		}
		c.Count("graph:rich")
		c.Emit(gc)
	}
	n := c.Pick(1500, 20000)
	for i := 0; i < n; i++ {
		g := semlib.New(r, semlib.Opts{MaxDecls: 40, MaxDepth: 4, Underscore: true, QuotedKw: true, ErrSeeds: false, Nulls: true, EdgeMapUnderscore: true, SpecialNames: true})
		src := g.Program()
		gc, why := semlib.GraphCase("core+", src)
		if gc == nil {
			c.Count("graph:skipped:" + why)
			continue
		}
		c.Count("graph:core+")
		c.Emit(gc)
	}
	m := c.Pick(1500, 20000)
	for i := 0; i < m; i++ {
		g := semlib.New(r, semlib.Opts{MaxDecls: 40, MaxDepth: 4, Underscore: true, QuotedKw: true, ErrSeeds: false, Nulls: true, SpecialNames: true})
		src := g.Program()
		cc, why := semlib.CoreCase(src)
		if cc == nil {
			c.Count("skipped:" + why)
			continue
		}
		if _, bad := cc["out"].(map[string]any)["err"]; bad {
			c.Count("core:outcome:error")
		} else {
			c.Count("core:outcome:ok")
		}
		c.Emit(cc)
	}
	return nil
}
