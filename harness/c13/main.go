package main

import (
	"fmt"
	"math/rand"
	"strings"

	"d2v/harness/hl"
	sx "d2v/harness/semx"
)

// C13: variable substitution equals textual replacement from the innermost scope.
//
// Every case is a program in the small AST.  The Lean driver (co-process, --xform) renders it (p) and renders
// its textually substituted twin (q = substText p, a Lean function); the real compiler compiles both texts;
// the driver then evaluates the property sentence on the two canonical graphs.
func main() { hl.Main("C13", run) }

type gen struct {
	c *hl.Ctx
	r *rand.Rand
	n int // fresh object counter
}

type vinfo struct {
	cat  string // w word, sh shape, col colour, op opacity, d digit
	path string // dotted
}

var shapes = []string{"circle", "square", "oval", "diamond", "hexagon", "cloud", "rectangle"}
var colours = []string{"red", "blue", "green", "orange", "#ff0000", "#0f0"}
var opac = []string{"0.1", "0.5", "1", "0.25"}
var words = []string{"alpha", "beta", "big cat", "42", "x1", "Hello World", "a-b", "true story", "n_1"}
var quotedWords = []string{"q uo # ted", "semi; colon", "br{ace}", "dollar $ sign", "it's", "a: b", "tab\there"}

func (g *gen) pick(xs []string) string { return xs[g.r.Intn(len(xs))] }

func lit(q int, s string) *sx.Scal { return sx.Lit(q, s) }

func sub(path string) sx.Part { return sx.Part{Sub: true, S: path} }
func txt(s string) sx.Part    { return sx.Part{S: s} }

// literal value of a category
func (g *gen) litFor(cat string) *sx.Scal {
	switch cat {
	case "sh":
		return lit(g.r.Intn(2), g.pick(shapes))
	case "col":
		c := g.pick(colours)
		if strings.HasPrefix(c, "#") {
			return lit(1+g.r.Intn(2), c)
		}
		return lit(g.r.Intn(3), c)
	case "op":
		return lit(g.r.Intn(2), g.pick(opac))
	case "d":
		return lit(0, fmt.Sprint(1+g.r.Intn(8)))
	}
	switch g.r.Intn(4) {
	case 0:
		return lit(1, g.pick(quotedWords))
	case 1:
		return lit(2, g.pick(quotedWords))
	default:
		return lit(0, g.pick(words))
	}
}

func visibleOf(vis []vinfo, cat string) []vinfo {
	var out []vinfo
	for _, v := range vis {
		if v.cat == cat {
			out = append(out, v)
		}
	}
	return out
}

func (g *gen) caseVar(p string) string {
	if g.r.Intn(12) == 0 {
		g.c.Count("ref:case-variant")
		return strings.ToUpper(p[:1]) + p[1:]
	}
	return p
}

// definition value for variable `name` of category cat; outer = variables visible outside this block,
// sib = earlier siblings in this block (later ones too in the order stream)
func (g *gen) defValue(name, cat string, outer, sib []vinfo, order bool) *sx.Scal {
	cands := append(append([]vinfo{}, visibleOf(outer, cat)...), visibleOf(sib, cat)...)
	if len(cands) == 0 || g.r.Intn(3) != 0 {
		return g.litFor(cat)
	}
	t := cands[g.r.Intn(len(cands))]
	if t.path == name {
		g.c.Count("def:self-skip")
	}
	g.c.Count("def:chained")
	if cat != "w" {
		return &sx.Scal{Q: 0, Parts: []sx.Part{sub(t.path)}}
	}
	switch g.r.Intn(4) {
	case 0:
		return &sx.Scal{Q: 0, Parts: []sx.Part{sub(t.path)}}
	case 1:
		return &sx.Scal{Q: 0, Parts: []sx.Part{sub(t.path), txt("-b")}}
	case 2:
		return &sx.Scal{Q: 1, Parts: []sx.Part{txt("q "), sub(t.path), txt(" r")}}
	default:
		return &sx.Scal{Q: 0, Parts: []sx.Part{txt("pre"), sub(t.path)}}
	}
}

var varNames = map[string][]string{
	"w":   {"x", "y", "z", "w"},
	"sh":  {"sh", "form"},
	"col": {"col", "ink"},
	"op":  {"op"},
	"d":   {"dg"},
}

// a vars block; returns the statement and the variables it defines.
// Names are chosen first: a definition may refer to (a) an outer variable this block does not redefine,
// (b) the outer variable of its own name (the self skip), (c) an earlier sibling — so the lexical reference
// has no cycles.  In the order stream the block is then reversed (earlier siblings become later ones).
func (g *gen) varsBlock(outer []vinfo, order bool) (sx.Stmt, []vinfo) {
	var defs []sx.Stmt
	var mine []vinfo
	n := 1 + g.r.Intn(5)
	cats := []string{"w", "w", "w", "sh", "col", "op", "d"}
	type nc struct{ name, cat string }
	var chosen []nc
	used := map[string]bool{}
	for i := 0; i < n; i++ {
		cat := cats[g.r.Intn(len(cats))]
		name := g.pick(varNames[cat])
		if used[name] {
			continue
		}
		used[name] = true
		chosen = append(chosen, nc{name, cat})
	}
	nested := g.r.Intn(4) == 0
	var outerOK []vinfo
	for _, o := range outer {
		head := strings.SplitN(o.path, ".", 2)[0]
		if used[head] || (nested && head == "cfg") || head == "srv" {
			continue
		}
		outerOK = append(outerOK, o)
	}
	for _, ch := range chosen {
		cands := append([]vinfo{}, outerOK...)
		for _, o := range outer {
			if o.path == ch.name {
				cands = append(cands, o, o) // self skip, favoured
			}
		}
		v := g.defValue(ch.name, ch.cat, cands, mine, order)
		defs = append(defs, sx.F(sx.U(ch.name), sx.VS(v)))
		mine = append(mine, vinfo{ch.cat, ch.name})
	}
	if order && len(defs) > 1 && g.r.Intn(2) == 0 {
		// forward sibling reference: reverse the block
		for i, j := 0, len(defs)-1; i < j; i, j = i+1, j-1 {
			defs[i], defs[j] = defs[j], defs[i]
		}
		g.c.Count("order:forward-sibling")
	}
	if nested {
		// nested map of variables: ${cfg.a}
		var inner []sx.Stmt
		for _, k := range []string{"a", "b"} {
			inner = append(inner, sx.F(sx.U(k), sx.VS(g.litFor("w"))))
			mine = append(mine, vinfo{"w", "cfg." + k})
		}
		defs = append(defs, sx.F(sx.U("cfg"), sx.VM(inner)))
		g.c.Count("def:nested-map")
	}
	if g.r.Intn(3) == 0 && !used["srv"] && len(defs) > 0 {
		// a nested map of variables whose keys carry the names of the variables they refer to (depth 2 and 3):
		//   srv: {x: ${x}; in: {y: "q ${y}"}}   — the references are to the top-level / outer variables
		var refs []vinfo
		for _, mv := range mine {
			if mv.cat == "w" && !strings.Contains(mv.path, ".") && !order {
				refs = append(refs, mv)
			}
		}
		for _, o := range outerOK {
			if o.cat == "w" && !strings.Contains(o.path, ".") {
				refs = append(refs, o)
			}
		}
		if len(refs) > 0 {
			var inner, deep []sx.Stmt
			seen := map[string]bool{}
			for k := 0; k < 2; k++ {
				t := refs[g.r.Intn(len(refs))]
				if seen[t.path] {
					continue
				}
				seen[t.path] = true
				v := &sx.Scal{Q: g.r.Intn(2), Parts: []sx.Part{sub(t.path)}}
				if v.Q == 1 {
					v.Parts = append([]sx.Part{txt("n ")}, v.Parts...)
				}
				if k == 0 {
					inner = append(inner, sx.F(sx.U(t.path), sx.VS(v)))
					mine = append(mine, vinfo{"w", "srv." + t.path})
				} else {
					deep = append(deep, sx.F(sx.U(t.path), sx.VS(v)))
					mine = append(mine, vinfo{"w", "srv.in." + t.path})
				}
			}
			if len(deep) > 0 {
				inner = append(inner, sx.F(sx.U("in"), sx.VM(deep)))
			}
			defs = append(defs, sx.F(sx.U("srv"), sx.VM(inner)))
			g.c.Count("def:nested-map-shadowing-key")
		}
	}
	return sx.F(sx.U("vars"), sx.VM(defs)), mine
}

func (g *gen) fresh() string {
	g.n++
	return fmt.Sprintf("o%d", g.n)
}

// a use of some visible variable; kinds cover labels, mixed text, quoted text, attributes, edges, arrays
func (g *gen) useStmt(vis []vinfo, objs *[]string) []sx.Stmt {
	name := g.fresh()
	*objs = append(*objs, name)
	ws := visibleOf(vis, "w")
	pickW := func() string {
		if len(ws) == 0 || g.r.Intn(25) == 0 {
			g.c.Count("ref:undefined")
			return "nope"
		}
		if g.r.Intn(500) == 0 {
			// a path through a scalar variable: undefined as well
			for _, w := range ws {
				if !strings.Contains(w.path, ".") {
					g.c.Count("ref:path-through-scalar")
					return w.path + ".k"
				}
			}
		}
		return g.caseVar(ws[g.r.Intn(len(ws))].path)
	}
	attr := func(cat string) (sx.Part, bool) {
		vs := visibleOf(vis, cat)
		if len(vs) == 0 {
			return sx.Part{}, false
		}
		return sub(vs[g.r.Intn(len(vs))].path), true
	}
	switch g.r.Intn(14) {
	case 0:
		g.c.Count("use:label-whole")
		return []sx.Stmt{sx.F(sx.U(name), sx.VS(&sx.Scal{Q: 0, Parts: []sx.Part{sub(pickW())}}))}
	case 1:
		g.c.Count("use:label-mixed-unquoted")
		return []sx.Stmt{sx.F(sx.U(name), sx.VS(&sx.Scal{Q: 0, Parts: []sx.Part{txt("pre "), sub(pickW()), txt(" post")}}))}
	case 2:
		g.c.Count("use:label-double-quoted")
		return []sx.Stmt{sx.F(sx.U(name), sx.VS(&sx.Scal{Q: 1, Parts: []sx.Part{txt("v "), sub(pickW()), txt(" w # "), sub(pickW())}}))}
	case 3:
		g.c.Count("use:label-single-quoted")
		return []sx.Stmt{sx.F(sx.U(name), sx.VS(&sx.Scal{Q: 2, Parts: []sx.Part{txt("v "), sub(pickW()), txt(" w")}}))}
	case 4:
		if p, ok := attr("sh"); ok {
			g.c.Count("use:attr-shape")
			return []sx.Stmt{sx.F(sx.U(name, "shape"), sx.VS(&sx.Scal{Q: 0, Parts: []sx.Part{p}}))}
		}
	case 5:
		if p, ok := attr("col"); ok {
			g.c.Count("use:attr-fill")
			q := g.r.Intn(2)
			return []sx.Stmt{sx.F(sx.U(name, "style", "fill"), sx.VS(&sx.Scal{Q: q, Parts: []sx.Part{p}}))}
		}
	case 6:
		if p, ok := attr("op"); ok {
			g.c.Count("use:attr-opacity")
			return []sx.Stmt{sx.F(sx.U(name, "style", "opacity"), sx.VS(&sx.Scal{Q: 0, Parts: []sx.Part{p}}))}
		}
	case 7:
		// map with primary label and attributes
		g.c.Count("use:map-with-primary")
		var body []sx.Stmt
		if p, ok := attr("sh"); ok {
			body = append(body, sx.F(sx.U("shape"), sx.VS(&sx.Scal{Q: 0, Parts: []sx.Part{p}})))
		}
		if p, ok := attr("col"); ok {
			body = append(body, sx.F(sx.U("style", "stroke"), sx.VS(&sx.Scal{Q: 1, Parts: []sx.Part{p}})))
		}
		body = append(body, sx.F(sx.U("tooltip"), sx.VS(&sx.Scal{Q: 0, Parts: []sx.Part{txt("tip "), sub(pickW())}})))
		return []sx.Stmt{sx.FP(sx.U(name), &sx.Scal{Q: 0, Parts: []sx.Part{sub(pickW())}}, body)}
	case 8:
		g.c.Count("use:edge-label")
		other := g.fresh()
		*objs = append(*objs, other)
		return []sx.Stmt{sx.E(sx.U(name), "->", sx.U(other), sx.VS(&sx.Scal{Q: g.r.Intn(2), Parts: []sx.Part{sub(pickW())}}))}
	case 9:
		g.c.Count("use:edge-map")
		other := g.fresh()
		*objs = append(*objs, other)
		body := []sx.Stmt{sx.F(sx.U("label"), sx.VS(&sx.Scal{Q: 1, Parts: []sx.Part{txt("e "), sub(pickW())}}))}
		if p, ok := attr("col"); ok {
			body = append(body, sx.F(sx.U("style", "stroke"), sx.VS(&sx.Scal{Q: 0, Parts: []sx.Part{p}})))
		}
		if g.r.Intn(2) == 0 {
			// a connection that carries both a label and a map, substitutions in both
			g.c.Count("use:edge-label+map")
			mb := []sx.Stmt{sx.F(sx.U("target-arrowhead"), sx.VS(&sx.Scal{Q: 1, Parts: []sx.Part{txt("h "), sub(pickW())}}))}
			if p, ok := attr("col"); ok {
				mb = append(mb, sx.F(sx.U("style", "stroke"), sx.VS(&sx.Scal{Q: 0, Parts: []sx.Part{p}})))
			}
			if p, ok := attr("op"); ok {
				mb = append(mb, sx.F(sx.U("style", "opacity"), sx.VS(&sx.Scal{Q: 0, Parts: []sx.Part{p}})))
			}
			var prim *sx.Scal
			if g.r.Intn(3) == 0 {
				prim = lit(0, "plain")
			} else {
				prim = &sx.Scal{Q: g.r.Intn(2), Parts: []sx.Part{sub(pickW())}}
			}
			return []sx.Stmt{{T: "e", Src: sx.U(name), Ar: g.pick([]string{"->", "<-", "--"}), Dst: sx.U(other), P: prim, V: sx.VM(mb)}}
		}
		return []sx.Stmt{sx.E(sx.U(name), "->", sx.U(other), sx.VM(body))}
	case 10:
		g.c.Count("use:array")
		return []sx.Stmt{sx.F(sx.U(name, "class"), sx.Val{Kind: "a", A: []sx.Scal{
			{Q: 0, Parts: []sx.Part{sub(pickW())}}, {Q: 0, Parts: []sx.Part{txt("k2")}}, {Q: 1, Parts: []sx.Part{txt("k "), sub(pickW())}}}})}
	case 11:
		if p, ok := attr("d"); ok && g.r.Intn(6) == 0 {
			// literal prefix that reads as a number, followed by a substitution
			g.c.Count("use:keyword-prefix")
			return []sx.Stmt{sx.F(sx.U(name, "style", "opacity"), sx.VS(&sx.Scal{Q: 0, Parts: []sx.Part{txt("0."), p}}))}
		}
	case 12:
		g.c.Count("use:adjacent")
		return []sx.Stmt{sx.F(sx.U(name), sx.VS(&sx.Scal{Q: 0, Parts: []sx.Part{sub(pickW()), sub(pickW()), txt("z")}}))}
	}
	g.c.Count("use:plain")
	return []sx.Stmt{sx.F(sx.U(name), sx.VS(g.litFor("w")))}
}

func merge(outer, mine []vinfo) []vinfo {
	out := append([]vinfo{}, mine...)
	for _, o := range outer {
		dup := false
		for _, m := range mine {
			if m.path == o.path {
				dup = true
			}
		}
		if !dup {
			out = append(out, o)
		}
	}
	return out
}

// body of one map at nesting depth d (chains of shadowing scopes up to depth 5)
func (g *gen) body(d int, outer []vinfo, order bool) []sx.Stmt {
	var out []sx.Stmt
	vis := outer
	var varsStmt *sx.Stmt
	if d == 0 || g.r.Intn(3) != 0 {
		st, mine := g.varsBlock(outer, order)
		varsStmt = &st
		vis = merge(outer, mine)
		if d > 0 {
			g.c.Count(fmt.Sprintf("scope:shadow-depth-%d", d))
		}
	}
	var objs []string
	n := 1 + g.r.Intn(4)
	for i := 0; i < n; i++ {
		out = append(out, g.useStmt(vis, &objs)...)
	}
	if d < 5 && g.r.Intn(10) < 6 {
		k := 1 + g.r.Intn(2)
		for i := 0; i < k; i++ {
			name := g.fresh()
			out = append(out, sx.F(sx.U(name), sx.VM(g.body(d+1, vis, order))))
		}
	}
	if varsStmt != nil {
		if order && g.r.Intn(2) == 0 {
			// vars block after (some of) its uses
			pos := 1 + g.r.Intn(len(out))
			out = append(out[:pos], append([]sx.Stmt{*varsStmt}, out[pos:]...)...)
			g.c.Count("order:vars-after-use")
		} else {
			out = append([]sx.Stmt{*varsStmt}, out...)
		}
	}
	return out
}

func observe(l *sx.Lean, body []sx.Stmt) (map[string]any, error) {
	ans, err := l.Ask(map[string]any{"body": sx.Body(body)})
	if err != nil {
		return nil, err
	}
	if f, ok := ans["fail"]; ok {
		return nil, fmt.Errorf("lean xform: %v", f)
	}
	ptext, _ := ans["p"].(string)
	out := map[string]any{"ptext": ptext, "gp": sx.Compile(map[string]string{"index.d2": ptext}, "index.d2")}
	if q, ok := ans["q"].(string); ok {
		out["qtext"] = q
		out["gq"] = sx.Compile(map[string]string{"index.d2": q}, "index.d2")
	}
	return map[string]any{"k": "varsdiff", "in": map[string]any{"body": sx.Body(body)}, "out": out}, nil
}

// direct probe of the scope-stack resolution: nested containers, innermost holds `probe: ${path}`
func (g *gen) resolveCase() map[string]any {
	depth := 1 + g.r.Intn(5)
	names := []string{"x", "y", "z"}
	type def struct {
		p string
		v *sx.Scal
	}
	blocks := make([][]def, depth) // index 0 = outermost
	for i := range blocks {
		seen := map[string]bool{}
		for k, n := 0, g.r.Intn(4); k < n; k++ {
			nm := g.pick(names)
			if seen[nm] {
				continue
			}
			seen[nm] = true
			var v *sx.Scal
			var outerNames []string
			for j := 0; j < i; j++ {
				for _, d := range blocks[j] {
					outerNames = append(outerNames, d.p)
				}
			}
			if len(outerNames) > 0 && g.r.Intn(3) == 0 {
				v = &sx.Scal{Q: 0, Parts: []sx.Part{sub(g.pick(outerNames)), txt(fmt.Sprintf("-%d", i))}}
			} else {
				v = lit(g.r.Intn(3), fmt.Sprintf("v%d%s", i, nm))
			}
			blocks[i] = append(blocks[i], def{nm, v})
		}
	}
	// a definition must not refer to a later sibling that is itself chained (resolution is in field order)
	for i := range blocks {
		for a := range blocks[i] {
			da := blocks[i][a]
			if len(da.v.Parts) == 2 && da.v.Parts[0].Sub && da.v.Parts[0].S != da.p {
				for b := a + 1; b < len(blocks[i]); b++ {
					if blocks[i][b].p == da.v.Parts[0].S && len(blocks[i][b].v.Parts) == 2 {
						blocks[i][a].v = lit(0, fmt.Sprintf("w%d%s", i, da.p))
					}
				}
			}
		}
	}
	path := g.pick(names)
	var build func(i int) []sx.Stmt
	build = func(i int) []sx.Stmt {
		var b []sx.Stmt
		if len(blocks[i]) > 0 {
			var defs []sx.Stmt
			for _, d := range blocks[i] {
				defs = append(defs, sx.F(sx.U(d.p), sx.VS(d.v)))
			}
			b = append(b, sx.F(sx.U("vars"), sx.VM(defs)))
		}
		if i == depth-1 {
			b = append(b, sx.F(sx.U("probe"), sx.VS(&sx.Scal{Q: 0, Parts: []sx.Part{sub(path)}})))
		} else {
			b = append(b, sx.F(sx.U(fmt.Sprintf("c%d", i)), sx.VM(build(i+1))))
		}
		return b
	}
	// stack for the model: innermost block first
	var stack []any
	for i := depth - 1; i >= 0; i-- {
		var blk []any
		for _, d := range blocks[i] {
			blk = append(blk, map[string]any{"p": d.p, "v": d.v.J()})
		}
		if blk == nil {
			continue // a map without vars pushes nothing
		}
		stack = append(stack, blk)
	}
	if stack == nil {
		stack = []any{}
	}
	return map[string]any{"body": sx.Body(build(0)), "stack": stack, "path": path}
}

func observeResolve(l *sx.Lean, in map[string]any) (map[string]any, error) {
	ans, err := l.Ask(map[string]any{"body": in["body"]})
	if err != nil {
		return nil, err
	}
	ptext, _ := ans["p"].(string)
	res := sx.Compile(map[string]string{"index.d2": ptext}, "index.d2")
	out := map[string]any{"ok": false, "label": "", "ptext": ptext}
	if p, ok := res["panic"]; ok {
		out["label"] = fmt.Sprint("panic: ", p)
	}
	if gr, ok := res["g"].(map[string]any); ok {
		for _, o := range gr["objs"].([]any) {
			om := o.(map[string]any)
			id := om["id"].(string)
			if id == "probe" || strings.HasSuffix(id, ".probe") {
				for _, kv := range om["a"].([]any) {
					p := kv.([]any)
					if p[0] == "Label" {
						out["ok"] = true
						out["label"] = p[1]
					}
				}
			}
		}
	}
	return map[string]any{"k": "resolve", "in": in, "out": out}, nil
}

func run(c *hl.Ctx) error {
	l, err := sx.StartLean("drv_c13")
	if err != nil {
		return err
	}
	defer l.Close()
	if cs := c.ReplayCase(); cs != nil {
		in := cs["in"].(map[string]any)
		if cs["k"] == "resolve" {
			r, err := observeResolve(l, in)
			if err != nil {
				return err
			}
			c.Emit(r)
			return nil
		}
		ans, err := l.Ask(map[string]any{"body": in["body"]})
		if err != nil {
			return err
		}
		ptext, _ := ans["p"].(string)
		out := map[string]any{"ptext": ptext, "gp": sx.Compile(map[string]string{"index.d2": ptext}, "index.d2")}
		if q, ok := ans["q"].(string); ok {
			out["qtext"] = q
			out["gq"] = sx.Compile(map[string]string{"index.d2": q}, "index.d2")
		}
		c.Emit(map[string]any{"k": "varsdiff", "in": in, "out": out})
		return nil
	}
	g := &gen{c: c, r: c.Rand()}
	n := c.Pick(2500, 100000)
	for i := 0; i < n; i++ {
		order := g.r.Intn(12) == 0
		if order {
			c.Count("stream:order")
		} else {
			c.Count("stream:vars-first")
		}
		g.n = 0
		cs, err := observe(l, g.body(0, nil, order))
		if err != nil {
			return err
		}
		c.Emit(cs)
	}
	m := c.Pick(1500, 60000)
	for i := 0; i < m; i++ {
		r, err := observeResolve(l, g.resolveCase())
		if err != nil {
			return err
		}
		c.Count("resolve-probe")
		c.Emit(r)
	}
	return nil
}
