package svgr

import (
	"fmt"
	"math/rand"
	"strings"
)

// StrSrc supplies the user-controlled strings of a generated script. field names the place the string goes to
// ("label", "tooltip", "link", "id", "class", "gradpos", "edge-label", "arrow-label", "field", "column", "constraint",
// "legend", "theme-override", "icon", "md", "code" …) so that a source can record canaries / text per field.
type StrSrc interface {
	Str(field string) string
}

// Q renders a D2 double-quoted string.
func Q(s string) string {
	var b strings.Builder
	b.WriteByte('"')
	for _, r := range s {
		switch r {
		case '"':
			b.WriteString(`\"`)
		case '\\':
			b.WriteString(`\\`)
		case '\n':
			b.WriteString(`\n`)
		case '$':
			b.WriteString(`\$`)
		default:
			b.WriteRune(r)
		}
	}
	b.WriteByte('"')
	return b.String()
}

var shapes = []string{"rectangle", "square", "page", "parallelogram", "document", "cylinder", "queue", "package", "step",
	"callout", "stored_data", "person", "diamond", "oval", "circle", "hexagon", "cloud", "c4-person"}
var namedColors = []string{"red", "blue", "honeydew", "#abc", "#12ab9f", "transparent", "PapayaWhip", "#FFF"}
var patterns = []string{"dots", "lines", "grain", "paper", "none"}
var transforms = []string{"uppercase", "lowercase", "capitalize", "none"}
var arrows = []string{"triangle", "arrow", "diamond", "circle", "box", "cf-one", "cf-many", "cf-one-required", "cf-many-required", "cross", "none"}
var ttpos = []string{"top-left", "top-center", "top-right", "center-left", "center-right", "bottom-left", "bottom-center", "bottom-right"}
var labelPos = []string{"top-left", "top-center", "top-right", "center-left", "center-center", "center-right", "bottom-left", "bottom-center", "bottom-right",
	"outside-top-left", "outside-top-center", "outside-bottom-right", "outside-left-center", "border-top-center", "border-bottom-left"}

// Features counts what a generated script contains (for the generator histogram).
type Features map[string]int

type G struct {
	R    *rand.Rand
	S    StrSrc
	F    Features
	b    strings.Builder
	ids  []string // quoted keys of the shapes declared at the current board's top level
	nb   int
	Rich bool     // allow markdown / code / latex labels (markup by design)
}

func (g *G) p(ind int, format string, a ...any) {
	g.b.WriteString(strings.Repeat("  ", ind))
	fmt.Fprintf(&g.b, format, a...)
	g.b.WriteByte('\n')
}

func (g *G) chance(n int) bool { return g.R.Intn(n) == 0 }
func pick[T any](r *rand.Rand, xs []T) T { return xs[r.Intn(len(xs))] }

// Color returns a colour value accepted by color.ValidColor; gradients carry a user string in a stop position.
func (g *G) Color() string {
	switch g.R.Intn(6) {
	case 0, 1:
		g.F["gradient"]++
		kind := pick(g.R, []string{"linear", "radial"})
		var parts []string
		if kind == "linear" && g.chance(2) {
			parts = append(parts, pick(g.R, []string{"to right", "to top left", "45deg", "1.5e2deg", "to bottom"}))
		} else if kind == "radial" && g.chance(2) {
			parts = append(parts, pick(g.R, []string{"circle", "ellipse"}))
		}
		n := 1 + g.R.Intn(3)
		for i := 0; i < n; i++ {
			c := pick(g.R, []string{"red", "#fff", "#12ab9f80", "rgb(1,2,3)", "hsl(120,50%,50%)", "blue", "transparent"})
			switch g.R.Intn(3) {
			case 0:
				parts = append(parts, c)
			case 1:
				parts = append(parts, c+" "+fmt.Sprintf("%d%%", g.R.Intn(101)))
			default:
				pos := strings.Map(func(r rune) rune {
					if r == ',' || r == '(' || r == ')' || r == ' ' || r == '\t' || r == '\n' || r == '\r' || r == '\v' || r == '\f' || r == 0x85 || r == 0xa0 {
						return '_'
					}
					return r
				}, g.S.Str("gradpos"))
				if pos == "" {
					pos = "0%"
				}
				parts = append(parts, c+" "+pos)
			}
		}
		return kind + "-gradient(" + strings.Join(parts, ", ") + ")"
	default:
		return pick(g.R, namedColors)
	}
}

func (g *G) key() string {
	var k string
	if g.chance(3) {
		k = Q(g.S.Str("id"))
		g.F["id:user"]++
	} else {
		k = fmt.Sprintf("n%d", g.R.Intn(1000))
	}
	if k == `""` {
		k = "e"
	}
	return k
}

func (g *G) styles(ind int, isEdge bool, shape ...string) {
	sh := ""
	if len(shape) > 0 {
		sh = shape[0]
	}
	if g.chance(2) {
		return
	}
	g.p(ind, "style: {")
	if g.chance(2) {
		g.p(ind+1, "fill: %s", Q(g.Color()))
	}
	if g.chance(2) {
		g.p(ind+1, "stroke: %s", Q(g.Color()))
	}
	if g.chance(3) {
		g.p(ind+1, "font-color: %s", Q(g.Color()))
	}
	if g.chance(4) {
		g.p(ind+1, "opacity: %s", pick(g.R, []string{"0.4", "1", "0", "0.99"}))
	}
	if g.chance(4) {
		g.p(ind+1, "stroke-dash: %d", g.R.Intn(6))
	}
	if g.chance(4) {
		g.p(ind+1, "stroke-width: %d", g.R.Intn(8))
	}
	if g.chance(4) {
		g.p(ind+1, "font-size: %d", 8+g.R.Intn(40))
	}
	if g.chance(4) {
		g.p(ind+1, "font: mono")
		g.F["font:mono"]++
	}
	if g.chance(4) {
		g.p(ind+1, "bold: %v", g.chance(2))
	}
	if g.chance(4) {
		g.p(ind+1, "italic: true")
	}
	if g.chance(5) {
		g.p(ind+1, "underline: true")
	}
	if g.chance(5) {
		g.p(ind+1, "text-transform: %s", pick(g.R, transforms))
		g.F["text-transform"]++
	}
	if g.chance(5) {
		g.p(ind+1, "animated: true")
	}
	if !isEdge {
		if g.chance(5) {
			g.p(ind+1, "border-radius: %d", g.R.Intn(12))
		}
		if g.chance(6) {
			g.p(ind+1, "shadow: true")
		}
		if g.chance(6) && (sh == "rectangle" || sh == "square" || sh == "hexagon") {
			g.p(ind+1, "3d: true")
		}
		if g.chance(6) {
			g.p(ind+1, "multiple: true")
		}
		if g.chance(6) && (sh == "rectangle" || sh == "square" || sh == "circle" || sh == "oval") {
			g.p(ind+1, "double-border: true")
		}
		if g.chance(5) {
			g.p(ind+1, "fill-pattern: %s", pick(g.R, patterns))
		}
	}
	g.p(ind, "}")
}

func (g *G) classesAttr(ind int) {
	if !g.chance(3) {
		return
	}
	g.F["class"]++
	if g.chance(2) {
		g.p(ind, "class: %s", Q(g.S.Str("class")))
	} else {
		g.p(ind, "class: [%s; %s]", Q(g.S.Str("class")), Q(g.S.Str("class")))
	}
}

func (g *G) shape(ind, depth int) string {
	k := g.key()
	g.p(ind, "%s: {", k)
	kind := g.R.Intn(14)
	sh := "rectangle"
	switch {
	case kind == 0:
		g.F["shape:class"]++
		g.p(ind+1, "shape: class")
		if g.chance(2) {
			g.p(ind+1, "label: %s", Q(g.S.Str("label")))
		}
		for i, n := 0, g.R.Intn(4); i < n; i++ {
			vis := pick(g.R, []string{"", "+", "-", "#", `\#`})
			name := g.S.Str("field")
			if g.chance(2) {
				name += "(" + g.S.Str("field") + ")"
			}
			g.p(ind+1, "%s: %s", Q(vis+name), Q(g.S.Str("field")))
		}
	case kind == 1:
		g.F["shape:sql_table"]++
		g.p(ind+1, "shape: sql_table")
		if g.chance(2) {
			g.p(ind+1, "label: %s", Q(strings.ReplaceAll(g.S.Str("label"), "\n", " "))) // no newlines in table labels
		}
		for i, n := 0, g.R.Intn(4); i < n; i++ {
			cons := ""
			switch g.R.Intn(4) {
			case 0:
				cons = fmt.Sprintf(" {constraint: %s}", pick(g.R, []string{"primary_key", "foreign_key", "unique"}))
			case 1:
				cons = fmt.Sprintf(" {constraint: %s}", Q(g.S.Str("constraint")))
				g.F["constraint:user"]++
			case 2:
				cons = fmt.Sprintf(" {constraint: [primary_key; %s]}", Q(g.S.Str("constraint")))
				g.F["constraint:user"]++
			}
			g.p(ind+1, "%s: %s%s", Q(g.S.Str("column")), Q(g.S.Str("column")), cons)
		}
	case kind == 2 && g.Rich:
		g.F["label:md"]++
		g.p(ind+1, "label: |md\n%s\n|", mdSafe(g.S.Str("md")))
	case kind == 3 && g.Rich:
		g.F["label:code"]++
		g.p(ind+1, "label: |go\n%s\n|", mdSafe(g.S.Str("code")))
		if g.chance(2) {
			g.p(ind+1, "shape: code")
		}
	case kind == 4:
		g.F["shape:image"]++
		g.p(ind+1, "shape: image")
		g.p(ind+1, "icon: %s", Q(g.iconURL()))
		if g.chance(2) {
			g.p(ind+1, "label: %s", Q(g.S.Str("label")))
		}
		if g.chance(3) {
			g.p(ind+1, "style.border-radius: %d", 1+g.R.Intn(30))
		}
	default:
		if g.chance(2) {
			sh = pick(g.R, shapes)
			g.p(ind+1, "shape: %s", sh)
		}
		if g.chance(4) {
			// label absent: the key is the label
		} else {
			g.p(ind+1, "label: %s", Q(g.S.Str("label")))
		}
		if g.chance(6) {
			g.p(ind+1, "label.near: %s", pick(g.R, labelPos))
		}
		if g.chance(6) {
			g.p(ind+1, "icon: %s", Q(g.iconURL()))
			g.F["icon"]++
		}
		if depth < 2 && g.chance(4) {
			g.F["container"]++
			for i, n := 0, 1+g.R.Intn(2); i < n; i++ {
				g.shape(ind+1, depth+1)
			}
		}
	}
	if g.chance(3) {
		g.F["tooltip"]++
		if g.chance(4) {
			g.p(ind+1, "tooltip: %s {near: %s}", Q(g.S.Str("tooltip-md")), pick(g.R, ttpos))
			g.F["tooltip:positioned"]++
		} else {
			g.p(ind+1, "tooltip: %s", Q(g.S.Str("tooltip")))
		}
	}
	if g.chance(4) {
		g.F["link"]++
		g.p(ind+1, "link: %s", Q(g.S.Str("link")))
	}
	g.classesAttr(ind + 1)
	if kind != 4 {
		if kind < 4 {
			sh = ""
		}
		g.styles(ind+1, false, sh)
	}
	g.p(ind, "}")
	return k
}

func (g *G) iconURL() string {
	s := strings.Map(func(r rune) rune {
		if r < 0x20 || r == 0x7f || r == '%' || r == ' ' {
			return '_'
		}
		return r
	}, g.S.Str("icon"))
	return "https://icons.terrastruct.com/essentials/004-picture.svg?q=" + s
}

// mdSafe keeps a block string inside its |…| delimiters
func mdSafe(s string) string { return strings.ReplaceAll(s, "|", "/") }

func (g *G) edge(ind int, ids []string) {
	if len(ids) == 0 {
		return
	}
	a, b := pick(g.R, ids), pick(g.R, ids)
	op := pick(g.R, []string{"->", "--", "<-", "<->"})
	g.F["edge"]++
	if g.chance(3) {
		g.p(ind, "%s %s %s", a, op, b)
		return
	}
	g.p(ind, "%s %s %s: {", a, op, b)
	if !g.chance(4) {
		g.p(ind+1, "label: %s", Q(g.S.Str("edge-label")))
	}
	if g.chance(3) {
		g.F["arrowhead-label"]++
		g.p(ind+1, "source-arrowhead: %s {shape: %s}", Q(g.S.Str("arrow-label")), pick(g.R, arrows))
	}
	if g.chance(3) {
		g.F["arrowhead-label"]++
		g.p(ind+1, "target-arrowhead: {label: %s; shape: %s; style.filled: %v}", Q(g.S.Str("arrow-label")), pick(g.R, arrows), g.chance(2))
	}
	if g.chance(6) {
		g.p(ind+1, "icon: %s", Q(g.iconURL()))
	}
	if g.chance(6) {
		g.p(ind+1, "link: %s", Q(g.S.Str("link")))
		g.F["edge-link"]++
	}
	g.classesAttr(ind + 1)
	g.styles(ind+1, true)
	g.p(ind, "}")
}

func (g *G) board(ind int) {
	var ids []string
	if m := g.S.Str("mark"); m != "" {
		g.p(ind, "mk%d: %s", g.R.Intn(100000), Q(m))
	}
	for i, n := 0, 1+g.R.Intn(4); i < n; i++ {
		ids = append(ids, g.shape(ind, 0))
	}
	for i, n := 0, g.R.Intn(4); i < n; i++ {
		g.edge(ind, ids)
	}
	if g.chance(8) {
		g.F["root-style"]++
		g.p(ind, "style.fill: %s", Q(g.Color()))
		if g.chance(2) {
			g.p(ind, "style.stroke: %s", Q(g.Color()))
		}
		if g.chance(2) {
			g.p(ind, "style.fill-pattern: %s", pick(g.R, patterns))
		}
		if g.chance(2) {
			g.p(ind, "style.double-border: true")
		}
	}
}

// boards writes one or two board sections (layers / scenarios / steps) with n boards each; a board may itself carry
// nested sections (depth <= 2), so that trees such as scenario -> steps -> layers occur.
func (g *G) boards(ind, n, depth int) {
	kinds := []string{"layers", "scenarios", "steps"}
	g.R.Shuffle(len(kinds), func(i, j int) { kinds[i], kinds[j] = kinds[j], kinds[i] })
	sections := 1
	if g.chance(3) {
		sections = 2
	}
	for _, kind := range kinds[:sections] {
		g.F["boards:"+kind]++
		if depth > 0 {
			g.F["boards:nested:"+kind]++
		}
		g.p(ind, "%s: {", kind)
		for i := 0; i < n; i++ {
			g.nb++
			name := fmt.Sprintf("b%d", g.nb) // board names are unique per diagram level across sections
			if g.chance(4) {
				name = Q(g.S.Str("board"))
			}
			g.p(ind+1, "%s: {", name)
			g.board(ind + 2)
			if depth < 2 && g.chance(2) {
				g.boards(ind+2, 1+g.R.Intn(2), depth+1)
			}
			g.p(ind+1, "}")
		}
		g.p(ind, "}")
	}
}

// Script generates one mostly-valid D2 program. boards > 0 adds that many layers/scenarios/steps.
func (g *G) Script(boards int) string {
	g.b.Reset()
	g.nb = 0
	if g.chance(6) {
		g.F["legend"]++
		g.p(0, "vars: {")
		g.p(1, "d2-legend: %s {", Q(g.S.Str("legend")))
		g.p(2, "la: %s {shape: %s}", Q(g.S.Str("legend")), pick(g.R, shapes))
		g.p(2, "lb: %s", Q(g.S.Str("legend")))
		g.p(2, "la -> lb: %s", Q(g.S.Str("legend")))
		g.p(1, "}")
		g.p(0, "}")
	}
	if g.chance(8) {
		g.F["theme-overrides"]++
		g.p(0, "vars: {")
		g.p(1, "d2-config: {")
		g.p(2, "theme-overrides: {")
		g.p(3, "%s: %s", pick(g.R, []string{"B1", "N7", "AA4", "N1"}), Q(g.S.Str("theme-override")))
		g.p(2, "}")
		if g.chance(2) {
			g.p(2, "dark-theme-overrides: {")
			g.p(3, "%s: %s", pick(g.R, []string{"B2", "N7", "AB4"}), Q(g.S.Str("theme-override")))
			g.p(2, "}")
		}
		g.p(1, "}")
		g.p(0, "}")
	}
	if g.chance(10) {
		g.p(0, "direction: %s", pick(g.R, []string{"right", "left", "up", "down"}))
	}
	g.board(0)
	if boards > 0 {
		g.boards(0, boards, 0)
	}
	return g.b.String()
}

// RandOpts draws one render option combination.
func RandOpts(r *rand.Rand, boards int) Opts {
	o := Opts{Dark: -1, Pad: -1}
	themes := []int64{0, 1, 3, 4, 5, 6, 7, 8, 100, 101, 102, 103, 104, 105, 200, 201, 300, 301, 302, 303}
	if r.Intn(2) == 0 {
		o.Theme = themes[r.Intn(len(themes))]
	}
	if r.Intn(4) == 0 {
		o.Dark = []int64{200, 201}[r.Intn(2)]
	}
	if r.Intn(7) == 0 {
		o.Sketch = true
	}
	if r.Intn(4) == 0 {
		o.Pad = []int64{0, 1, 20, 333}[r.Intn(4)]
	}
	o.Center = r.Intn(4) == 0
	if r.Intn(4) == 0 {
		o.Scale = []float64{0.5, 1, 2.25}[r.Intn(3)]
	}
	o.NoXMLTag = r.Intn(8) == 0
	if boards > 0 {
		if r.Intn(2) == 0 {
			o.Animate = []int{500, 1200}[r.Intn(2)]
		} else {
			o.Multi = true
		}
	}
	if o.Animate == 0 {
		o.Appendix = r.Intn(3) == 0
	}
	return o
}
