// Package svgr — shared by the C30 and C47 harnesses: compile a D2 script with the real pipeline
// (d2lib.Compile + dagre + d2svg.Render [+ appendix.Append] [+ d2animate.Wrap]) exactly as d2cli/main.go wires it.
package svgr

import (
	"context"
	"fmt"
	"strings"

	"d2v/harness/hl"

	"oss.terrastruct.com/d2/d2graph"
	"oss.terrastruct.com/d2/d2layouts/d2dagrelayout"
	"oss.terrastruct.com/d2/d2lib"
	"oss.terrastruct.com/d2/d2renderers/d2animate"
	"oss.terrastruct.com/d2/d2renderers/d2svg"
	"oss.terrastruct.com/d2/d2renderers/d2svg/appendix"
	"oss.terrastruct.com/d2/d2target"
	"oss.terrastruct.com/d2/lib/textmeasure"
)

// Opts is the render option combination of one case (all fields are plain values so they round-trip through JSON).
type Opts struct {
	Sketch   bool    `json:"sketch"`
	Theme    int64   `json:"theme"`
	Dark     int64   `json:"dark"`     // -1: no dark theme
	Pad      int64   `json:"pad"`      // -1: default
	Center   bool    `json:"center"`
	Scale    float64 `json:"scale"`    // 0: unset
	Appendix bool    `json:"appendix"` // appendix.Append after Render (the --force-appendix path)
	Animate  int     `json:"animate"`  // >0: RenderMultiboard with MasterID + d2animate.Wrap
	Multi    bool    `json:"multi"`    // render every board separately (RenderMultiboard)
	NoXMLTag bool    `json:"noxml"`
}

func (o Opts) Key() string {
	return fmt.Sprintf("sk%v-t%d-d%d-p%d-c%v-s%v-a%v-an%d-m%v-x%v", o.Sketch, o.Theme, o.Dark, o.Pad, o.Center, o.Scale, o.Appendix, o.Animate, o.Multi, o.NoXMLTag)
}

func OptsFromJSON(m map[string]any) Opts {
	f := func(k string) float64 { v, _ := m[k].(float64); return v }
	b := func(k string) bool { v, _ := m[k].(bool); return v }
	return Opts{Sketch: b("sketch"), Theme: int64(f("theme")), Dark: int64(f("dark")), Pad: int64(f("pad")), Center: b("center"),
		Scale: f("scale"), Appendix: b("appendix"), Animate: int(f("animate")), Multi: b("multi"), NoXMLTag: b("noxml")}
}

func (o Opts) JSON() map[string]any {
	return map[string]any{"sketch": o.Sketch, "theme": o.Theme, "dark": o.Dark, "pad": o.Pad, "center": o.Center,
		"scale": o.Scale, "appendix": o.Appendix, "animate": o.Animate, "multi": o.Multi, "noxml": o.NoXMLTag}
}

type Result struct {
	Stage   string // "ok" | "compile" | "render" | "panic"
	Err     string
	SVGs    [][]byte          // one document per output (1 unless Multi)
	Diagram *d2target.Diagram // root diagram (after Compile)
	Boards  []*d2target.Diagram
}

func ptr[T any](v T) *T { return &v }

// Render runs the real pipeline. A ruler is created per call (it is not safe for concurrent use).
func Render(script string, o Opts) (res Result) {
	defer func() {
		if r := recover(); r != nil {
			res.Stage = "panic"
			res.Err = fmt.Sprint(r)
		}
	}()
	ctx := hl.QuietCtx()
	ruler, err := textmeasure.NewRuler()
	if err != nil {
		return Result{Stage: "compile", Err: err.Error()}
	}
	ro := &d2svg.RenderOpts{ThemeID: ptr(o.Theme), Sketch: ptr(o.Sketch), Center: ptr(o.Center)}
	if o.Dark >= 0 {
		ro.DarkThemeID = ptr(o.Dark)
	}
	if o.Pad >= 0 {
		ro.Pad = ptr(o.Pad)
	}
	if o.Scale > 0 {
		ro.Scale = ptr(o.Scale)
	}
	if o.NoXMLTag {
		ro.NoXMLTag = ptr(true)
	}
	layout := func(engine string) (d2graph.LayoutGraph, error) {
		return func(ctx context.Context, g *d2graph.Graph) error { return d2dagrelayout.Layout(ctx, g, nil) }, nil
	}
	co := &d2lib.CompileOptions{Ruler: ruler, LayoutResolver: layout, Layout: ptr("dagre")}
	diagram, _, err := d2lib.Compile(ctx, script, co, ro)
	if err != nil {
		return Result{Stage: "compile", Err: firstLine(err.Error())}
	}
	res.Diagram = diagram
	res.Boards = boards(diagram)
	switch {
	case o.Animate > 0:
		mid, err := diagram.HashID(ro.Salt)
		if err != nil {
			return Result{Stage: "render", Err: err.Error(), Diagram: diagram}
		}
		ro.MasterID = mid
		bs, err := d2svg.RenderMultiboard(diagram, ro)
		if err != nil {
			return Result{Stage: "render", Err: firstLine(err.Error()), Diagram: diagram}
		}
		out, err := d2animate.Wrap(diagram, bs, *ro, o.Animate)
		if err != nil {
			return Result{Stage: "render", Err: firstLine(err.Error()), Diagram: diagram}
		}
		res.SVGs = [][]byte{out}
	case o.Multi:
		bs, err := d2svg.RenderMultiboard(diagram, ro)
		if err != nil {
			return Result{Stage: "render", Err: firstLine(err.Error()), Diagram: diagram}
		}
		if o.Appendix {
			// RenderMultiboard returns the boards in the order of `boards` restricted to non-folder boards
			i := 0
			for _, b := range res.Boards {
				if b.IsFolderOnly {
					continue
				}
				if i < len(bs) {
					bs[i] = appendix.Append(b, ro, ruler, bs[i])
				}
				i++
			}
		}
		res.SVGs = bs
	default:
		out, err := d2svg.Render(diagram, ro)
		if err != nil {
			return Result{Stage: "render", Err: firstLine(err.Error()), Diagram: diagram}
		}
		if o.Appendix {
			out = appendix.Append(diagram, ro, ruler, out)
		}
		res.SVGs = [][]byte{out}
		res.Boards = []*d2target.Diagram{diagram}
	}
	res.Stage = "ok"
	return res
}

// boards lists the diagrams in the order RenderMultiboard emits them (board first, then layers, scenarios, steps).
func boards(d *d2target.Diagram) []*d2target.Diagram {
	var kids []*d2target.Diagram
	for _, l := range d.Layers {
		kids = append(kids, boards(l)...)
	}
	for _, l := range d.Scenarios {
		kids = append(kids, boards(l)...)
	}
	for _, l := range d.Steps {
		kids = append(kids, boards(l)...)
	}
	return append([]*d2target.Diagram{d}, kids...)
}

func firstLine(s string) string {
	if i := strings.IndexByte(s, '\n'); i >= 0 {
		s = s[:i]
	}
	if len(s) > 300 {
		s = s[:300]
	}
	return s
}
