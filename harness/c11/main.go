package main

import (
	"fmt"

	"d2v/harness/hl"
	"d2v/harness/semlib"
)

// C11: edge-heavy core-fragment programs for the reference interpreter (edges + indices compared), the index predicates
// on every compiled graph, and differential programs with an indexed reference to an existing / missing index.
func main() { hl.Main("C11", run) }

func run(c *hl.Ctx) error {
	if cs := c.ReplayCase(); cs != nil {
		in := cs["in"].(map[string]any)
		src := in["src"].(string)
		switch cs["k"] {
		case "idx":
			c.Emit(semlib.C11DiffEdge(src, in["esrc"].(string), in["edst"].(string), in["sa"].(bool), in["da"].(bool), int(in["i"].(float64))))
		case "graph":
			if gc, _ := semlib.GraphCase(in["profile"].(string), src); gc != nil {
				c.Emit(gc)
			}
		default:
			if cc, _ := semlib.CoreCase(src); cc != nil {
				c.Emit(cc)
			}
		}
		return nil
	}
	r := c.Rand()
	n := c.Pick(2500, 50000)
	for i := 0; i < n; i++ {
		g := semlib.New(r, semlib.Opts{MaxDecls: 40, MaxDepth: 3, Underscore: true, QuotedKw: false, ErrSeeds: i%4 == 0, Nulls: true, EdgeHeavy: true, SpecialNames: true})
		src := g.Program()
		cc, why := semlib.CoreCase(src)
		if cc == nil {
			c.Count("skipped:" + why)
			continue
		}
		for k, v := range g.Feat {
			if v > 0 {
				c.Count("feat:" + k)
			}
		}
		if _, bad := cc["out"].(map[string]any)["err"]; bad {
			c.Count("core:outcome:error")
		} else {
			c.Count("core:outcome:ok")
		}
		c.Emit(cc)
	}
	m := c.Pick(1500, 20000)
	for i := 0; i < m; i++ {
		g := semlib.New(r, semlib.Opts{MaxDecls: 25, MaxDepth: 3, Underscore: true, ErrSeeds: false, Nulls: i%2 == 0, EdgeHeavy: true})
		src := g.Program()
		dc := semlib.C11Diff(r, src)
		if dc == nil {
			c.Count("idx:skipped")
			continue
		}
		if dc["in"].(map[string]any)["nonull"].(bool) {
			c.Count("idx:case:no-deletions")
		} else {
			c.Count("idx:case:with-deletions")
		}
		c.Emit(dc)
	}
	// deletion followed by a new parallel connection, then a reference to the highest index (the IR index space after deletions)
	t := c.Pick(300, 3000)
	names := []string{"a", "b", "c", "p.q", "A"}
	for i := 0; i < t; i++ {
		g := semlib.New(r, semlib.Opts{MaxDecls: 8, MaxDepth: 2, Underscore: false, ErrSeeds: false, Nulls: false, EdgeHeavy: i%2 == 0})
		src := g.Program()
		x, y := names[r.Intn(len(names))]+"x", names[r.Intn(len(names))]+"y"
		n := 2 + r.Intn(3)
		for j := 0; j < n; j++ {
			src += x + " -> " + y + "\n"
		}
		src += fmt.Sprintf("(%s -> %s)[%d]: null\n%s -> %s\n", x, y, r.Intn(n), x, y)
		dc := semlib.C11DiffEdge(src, x, y, false, true, n-1)
		if _, ok := dc["in"].(map[string]any)["esrc"]; !ok {
			c.Count("idx:delete-then-add:skipped")
			continue
		}
		c.Count("idx:case:delete-then-add")
		c.Emit(dc)
	}
	k := c.Pick(800, 15000)
	for i := 0; i < k; i++ {
		src := semlib.RichProgram(r)
		gc, why := semlib.GraphCase("rich", src)
		if gc == nil {
			c.Count("graph:skipped:" + why)
			continue
		}
		c.Count("graph:rich")
		c.Emit(gc)
	}
	return nil
}
