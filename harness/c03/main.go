package main

import (
	"d2v/harness/fmtlib"
	"d2v/harness/hl"
	"os"
	"strings"
)

// C03: Format∘Parse is idempotent on error-free inputs (Spec-on-impl over the whole language) and the Lean printer
// model `fmt` / re-parse model `norm` agree with d2format.Format / d2parser.Parse on the structural fragment.
func main() { hl.Main("C03", run) }

// Corpus: minimised past failures and hand-written layout corner cases; always run first.
var corpus = []string{
	"x: [1;2;3;4]",
	"x: [1;2;3;4]\n",
	"a; b",
	"a; b\n",
	"x: {\n  Steps\n}\n",
	"layers: {l: {a}}\n\nb\n",
	"layers: {l: {a}}\nb\n",
	"x: {\n  layers: {l: {a}}\n\n  b\n}\n",
	"y\nx: { layers: {a: {b}} }\n",
	"x: {a; layers: {l: {b}}}\n",
	"a\nlayers: {l: {a}}\nb\n",
	"a\n\n\nlayers: {l: {a}}\n",
	"a\nlayers: {}\nb\n",
	"a\nsteps: x\n",
	"a: {layers}\n",
	"a: {}\n",
	"a: x {}\n",
	"scenarios: {s: {y}}\nx\n",
	"x: Label\n",
	"a -> b -> c: {style.stroke: red}\n(a -> b)[0].style.opacity: 0.4\n",
	"x.(a -> b)[*].label: hi\n",
	"a <-> b; c -- d; e <- f\n",
	"k: v {\n  shape: circle\n\n\n  style: {fill: red; stroke: blue}\n}\n",
	"vars: {a: [1; 2]; m: {x: y}}\nz: {...${m}}\nw: [...${a}; 3]\n",
	"x: @imp\n...@more\n",
	"SHAPE: circle\nx.STYLE.Fill: red\n",
	"\"layers\": {a: {b}}\nc\n",
	"'a b'.\"c\".d: 'it''s'\n",
	"a: null; b: true; c: 1.50; d: suspend\n",
	"x: |md # hi |\n",
	"x: ||md a | b ||\n",
	"# c\nx # t\n\"\"\" bc \"\"\"\n",
	"x: [\n  1\n\n  2; 3\n  [4; 5]\n  {a: b}\n]\n",
	"\n\nlayers: {l: {a}}\n",
	"layers\nscenarios: {s: {a}}\n",
	"meow \\\r\n\tok: x\r\n",
	"Text: |md\r\n\r\n\r\n|",
	"x: [1;2] \ny\n",
	"x: [1;2] # c\n",
	"a: {b: [1;2]}\n",
	"LAYERS: {l: {a}}\nb\n",
	"x: {a; layers: {l: {b: {steps: {s: {c}}}}}}\n",
	"x: lİnk\ny: \u212aeep\n",
	"@Label\nx: @Shape\n",
	"y: Style;steps: {b0: {c}}\n",
	"x: { layers: {\n  a: {b}\n}\n}\n",
}

func emitCase(c *hl.Ctx, origin, src string, feat []string) {
	o := fmtlib.ObserveFmt(src)
	in := map[string]any{"src": hl.Hx([]byte(src))}
	out := map[string]any{}
	cs := map[string]any{"k": "fmt", "in": in, "out": out, "origin": origin, "feat": feat}
	if o.ParseErr != "" {
		out["perr"] = o.ParseErr
		cs["triv"] = true
		c.Count("outcome:parse-error")
		c.Emit(cs)
		return
	}
	c.Count("outcome:parsed")
	out["f1"] = hl.Hx([]byte(o.F1))
	out["af"] = o.AF
	if o.Parse2Err != "" {
		out["p2err"] = o.Parse2Err
	} else {
		out["f2"] = hl.Hx([]byte(o.F2))
		out["af1"] = o.AF1
		if o.DiffAt != "" {
			out["dat"] = o.DiffAt
		}
	}
	if o.AST != nil {
		out["ast"] = o.AST
		c.Count("fragment:in")
		if o.AST2 != nil {
			out["ast2"] = o.AST2
		}
	} else {
		c.Count("fragment:out:" + o.Why)
	}
	for _, f := range o.AF {
		c.Count("ast:" + f)
	}
	c.Emit(cs)
}

func run(c *hl.Ctx) error {
	if cs := c.ReplayCase(); cs != nil {
		in := cs["in"].(map[string]any)
		emitCase(c, "replay", string(hl.Unhx(in["src"].(string))), nil)
		return nil
	}
	r := c.Rand()
	for _, s := range corpus {
		emitCase(c, "corpus", s, nil)
		c.Count("origin:corpus")
	}
	repo := os.Getenv("D2V_REPO")
	if repo == "" {
		repo = "/repo"
	}
	seeds := fmtlib.LoadSeeds(repo)
	for _, s := range seeds {
		emitCase(c, s.Name, s.Src, nil)
		c.Count("origin:seed:" + s.Name[:strings.IndexByte(s.Name, ':')])
	}
	// mutated seeds
	nm := c.Pick(1500, 60000)
	for i := 0; i < nm && len(seeds) > 0; i++ {
		s := seeds[r.Intn(len(seeds))]
		src, what := fmtlib.Mutate(r, s.Src)
		if r.Intn(3) == 0 {
			src, _ = fmtlib.Mutate(r, src)
		}
		emitCase(c, "mut:"+s.Name, src, []string{what})
		c.Count(what)
	}
	// grammar stream; board-position and keyword-case features are forced in >= 30 % of the programs
	g := &fmtlib.Gen{R: r}
	n := c.Pick(5000, 300000)
	forced := 0
	for i := 0; i < n; i++ {
		prof := fmtlib.Profiles[r.Intn(len(fmtlib.Profiles))]
		if i%10 < 2 {
			prof = "boards"
		} else if i%10 < 4 {
			prof = "kwcase"
		}
		p := g.Program(prof)
		hasForced := false
		for _, f := range p.Feat {
			c.Count("gen:" + f)
			if strings.HasPrefix(f, "boardpos:") || strings.HasPrefix(f, "kwcase:") {
				hasForced = true
			}
		}
		if hasForced {
			forced++
		}
		emitCase(c, "gen:"+prof, p.Src, p.Feat)
	}
	c.Count("gen:programs")
	for i := 0; i < forced; i++ {
		c.Count("gen:forced-boardpos-or-kwcase")
	}
	return nil
}
