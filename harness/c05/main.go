package main

import (
	"fmt"
	"math/rand"
	"strings"
	"unicode"
	"unicode/utf8"

	"d2v/harness/hl"
	"d2v/harness/quotegen"

	"oss.terrastruct.com/d2/d2ast"
	"oss.terrastruct.com/d2/d2compiler"
	"oss.terrastruct.com/d2/d2format"
	"oss.terrastruct.com/d2/d2graph"
	"oss.terrastruct.com/d2/d2oracle"
	"oss.terrastruct.com/d2/d2parser"
)

// C05: for a string s, the real RawString / Format / ParseKey / ParseValue chain (and the d2oracle write path).
//
//	k=str    in {s}          out {key:{q,text,parse,file}, val:{q,text,parse,file}}
//	k=bytes  in {hex}        same observations for Go strings that are not valid UTF-8 (Spec only)
//	k=strm   same as str/bytes  emitted in addition when the round trip fails: model comparison only
//	k=pkey   in {t}          out ParseKey(t)      arbitrary text, ties the parser model
//	k=pval   in {t}          out ParseValue(t)
//	k=oracle in {s}          out d2oracle.Set of a shape label and a connection label, read back from the recompiled graph
//	k=unitab in {}           out the runes on which the model's Unicode tables rest
//	k=fixflags in {part}     no observation: the driver evaluates the hypothesis of the full theorem on the regenerated tables
func main() { hl.Main("C05", run) }

func cps(s string) []int {
	out := []int{}
	for _, r := range s {
		out = append(out, int(r))
	}
	return out
}

func fromCps(v any) string {
	var b strings.Builder
	for _, x := range v.([]any) {
		b.WriteRune(rune(x.(float64)))
	}
	return b.String()
}

func quoting(n d2ast.Node) string {
	switch n.(type) {
	case *d2ast.UnquotedString:
		return "unq"
	case *d2ast.DoubleQuotedString:
		return "dq"
	case *d2ast.SingleQuotedString:
		return "sq"
	case *d2ast.BlockString:
		return "block"
	case *d2ast.Null:
		return "null"
	case *d2ast.Boolean:
		return "boolean"
	case *d2ast.Number:
		return "number"
	case *d2ast.Suspension:
		if n.(*d2ast.Suspension).Value {
			return "suspend"
		}
		return "unsuspend"
	case *d2ast.Array:
		return "array"
	case *d2ast.Map:
		return "map"
	case *d2ast.Import:
		return "import"
	case *d2ast.Substitution:
		return "substitution"
	}
	return fmt.Sprintf("%T", n)
}

// enc encodes a Go string for the driver: code points when valid UTF-8, else hex under "hex".
type encFn func(string) any

func encCps(s string) any { return cps(s) }

func hasSubst(boxes []d2ast.InterpolationBox) bool {
	for _, b := range boxes {
		if b.Substitution != nil {
			return true
		}
	}
	return false
}

func segObs(s d2ast.String, enc encFn) map[string]any {
	m := map[string]any{"kind": quoting(s), "val": enc(s.ScalarString())}
	switch x := s.(type) {
	case *d2ast.UnquotedString:
		if hasSubst(x.Value) {
			m["subst"] = true
		}
	case *d2ast.DoubleQuotedString:
		if hasSubst(x.Value) {
			m["subst"] = true
		}
	}
	return m
}

func parseKeyObs(text string, enc encFn) map[string]any {
	out := map[string]any{}
	var k *d2ast.KeyPath
	var err error
	if o := hl.Guard(func() { k, err = d2parser.ParseKey(text) }); o != "ok" {
		out["res"] = "panic"
		out["msg"] = o
		return out
	}
	if err != nil {
		if strings.HasPrefix(err.Error(), "empty key") {
			out["res"] = "empty"
		} else {
			out["res"] = "err"
			out["msg"] = err.Error()
		}
		return out
	}
	out["res"] = "ok"
	path := []any{}
	for _, sb := range k.Path {
		path = append(path, segObs(sb.Unbox(), enc))
	}
	out["path"] = path
	return out
}

func valueObs(v d2ast.Value, enc encFn) map[string]any {
	out := map[string]any{"kind": quoting(v)}
	if sc, ok := v.(d2ast.Scalar); ok {
		out["scalar"] = enc(sc.ScalarString())
	}
	switch x := v.(type) {
	case *d2ast.UnquotedString:
		if hasSubst(x.Value) {
			out["subst"] = true
		}
	case *d2ast.DoubleQuotedString:
		if hasSubst(x.Value) {
			out["subst"] = true
		}
	}
	return out
}

func parseValueObs(text string, enc encFn) map[string]any {
	var v d2ast.Value
	var err error
	if o := hl.Guard(func() { v, err = d2parser.ParseValue(text) }); o != "ok" {
		return map[string]any{"res": "panic", "msg": o}
	}
	if err != nil {
		if strings.HasPrefix(err.Error(), "empty value") {
			return map[string]any{"res": "empty"}
		}
		return map[string]any{"res": "err", "msg": err.Error()}
	}
	out := valueObs(v, enc)
	out["res"] = "ok"
	return out
}

// fileKeyObs parses the text as a whole D2 file: it must be exactly one key without value.
func fileKeyObs(text string, enc encFn) map[string]any {
	var m *d2ast.Map
	var err error
	if o := hl.Guard(func() { m, err = d2parser.Parse("", strings.NewReader(text), nil) }); o != "ok" {
		return map[string]any{"res": "panic", "msg": o}
	}
	if err != nil {
		return map[string]any{"res": "err", "msg": err.Error()}
	}
	out := map[string]any{"res": "ok", "nodes": len(m.Nodes)}
	if len(m.Nodes) == 1 && m.Nodes[0].MapKey != nil {
		mk := m.Nodes[0].MapKey
		plain := len(mk.Edges) == 0 && mk.Primary.Unbox() == nil && mk.Value.Unbox() == nil && mk.EdgeIndex == nil && mk.EdgeKey == nil && !mk.Ampersand
		out["plain"] = plain
		path := []any{}
		if mk.Key != nil {
			for _, sb := range mk.Key.Path {
				path = append(path, segObs(sb.Unbox(), enc))
			}
		}
		out["path"] = path
	}
	return out
}

// fileValueObs parses "k: <text>" as a whole D2 file: one key k whose value is one scalar.
func fileValueObs(text string, enc encFn) map[string]any {
	var m *d2ast.Map
	var err error
	if o := hl.Guard(func() { m, err = d2parser.Parse("", strings.NewReader("k: "+text), nil) }); o != "ok" {
		return map[string]any{"res": "panic", "msg": o}
	}
	if err != nil {
		return map[string]any{"res": "err", "msg": err.Error()}
	}
	out := map[string]any{"res": "ok", "nodes": len(m.Nodes)}
	if len(m.Nodes) == 1 && m.Nodes[0].MapKey != nil {
		mk := m.Nodes[0].MapKey
		plain := len(mk.Edges) == 0 && mk.Key != nil && len(mk.Key.Path) == 1 && mk.Key.Path[0].Unbox().ScalarString() == "k"
		v := mk.Value.Unbox()
		if v == nil {
			if p := mk.Primary.Unbox(); p != nil {
				v = p.(d2ast.Value)
				plain = false // primary + map
			}
		}
		out["plain"] = plain
		if v != nil {
			for k2, v2 := range valueObs(v, enc) {
				out[k2] = v2
			}
		}
	}
	return out
}

func observe(s string, enc encFn) map[string]any {
	kn := d2ast.RawString(s, true)
	kt := d2format.Format(&d2ast.KeyPath{Path: []*d2ast.StringBox{d2ast.MakeValueBox(kn).StringBox()}})
	key := map[string]any{"q": quoting(kn), "text": enc(kt), "parse": parseKeyObs(kt, enc), "file": fileKeyObs(kt, enc)}
	vn := d2ast.RawString(s, false)
	vt := d2format.Format(vn)
	val := map[string]any{"q": quoting(vn), "text": enc(vt), "parse": parseValueObs(vt, enc), "file": fileValueObs(vt, enc)}
	return map[string]any{"key": key, "val": val}
}

// roundTrips is the harness' own cheap reading of the property, used only to decide whether a case is emitted a
// second time as k=strm ("model comparison only"), so that a case on which the Spec fails is still compared with
// the model (one verdict per line).
func roundTrips(s string, obs map[string]any) bool {
	want := fmt.Sprint(cps(s))
	key := obs["key"].(map[string]any)["parse"].(map[string]any)
	val := obs["val"].(map[string]any)["parse"].(map[string]any)
	if key["res"] != "ok" || val["res"] != "ok" {
		return false
	}
	path := key["path"].([]any)
	if len(path) != 1 || fmt.Sprint(path[0].(map[string]any)["val"]) != want {
		return false
	}
	return fmt.Sprint(val["scalar"]) == want
}

func strCases(s string) []map[string]any {
	c := strCase(s)
	out := []map[string]any{c}
	if !roundTrips(string([]rune(s)), c["out"].(map[string]any)) {
		out = append(out, map[string]any{"k": "strm", "in": c["in"], "out": c["out"], "triv": true})
	}
	return out
}

func strCase(s string) map[string]any {
	if !utf8.ValidString(s) {
		// the model sees the string as Go's `range` decodes it (an invalid byte reads as U+FFFD)
		return map[string]any{"k": "bytes", "in": map[string]any{"hex": hl.Hx([]byte(s)), "s": cps(s)}, "out": observe(s, encCps)}
	}
	return map[string]any{"k": "str", "in": map[string]any{"s": cps(s)}, "out": observe(s, encCps)}
}

func pkeyCase(t string) map[string]any {
	return map[string]any{"k": "pkey", "in": map[string]any{"t": cps(t)}, "out": parseKeyObs(t, encCps)}
}

func pvalCase(t string) map[string]any {
	return map[string]any{"k": "pval", "in": map[string]any{"t": cps(t)}, "out": parseValueObs(t, encCps)}
}

func compile(text string) (*d2graph.Graph, error) {
	g, _, err := d2compiler.Compile("", strings.NewReader(text), nil)
	return g, err
}

func findObj(g *d2graph.Graph, pred func(*d2graph.Object) bool) []*d2graph.Object {
	var out []*d2graph.Object
	for _, o := range g.Objects {
		if pred(o) {
			out = append(out, o)
		}
	}
	return out
}

// oracleCase writes s through the editing API (d2oracle.Set → RawString(value, false)): as the label of shape x
// and as the label of the connection a -> b; both are read back from the graph the API recompiled.
// (Tooltips are validated as Markdown by the compiler and Rename takes key syntax, so neither is a raw string.)
func oracleCase(s string) map[string]any {
	out := map[string]any{}
	do := func(name string, f func() map[string]any) {
		var r map[string]any
		if o := hl.Guard(func() { r = f() }); o != "ok" {
			r = map[string]any{"res": "panic", "msg": o}
		}
		out[name] = r
	}
	do("label", func() map[string]any {
		g, err := compile("x\n")
		if err != nil {
			return map[string]any{"res": "setup", "msg": err.Error()}
		}
		g2, err := d2oracle.Set(g, nil, "x", nil, &s)
		if err != nil {
			return map[string]any{"res": "err", "msg": err.Error()}
		}
		objs := findObj(g2, func(o *d2graph.Object) bool { return o.ID == "x" })
		if len(objs) != 1 {
			return map[string]any{"res": "lost", "text": cps(d2format.Format(g2.AST))}
		}
		return map[string]any{"res": "ok", "got": cps(objs[0].Label.Value), "text": cps(d2format.Format(g2.AST))}
	})
	do("elabel", func() map[string]any {
		g, err := compile("a -> b\n")
		if err != nil {
			return map[string]any{"res": "setup", "msg": err.Error()}
		}
		g2, err := d2oracle.Set(g, nil, "(a -> b)[0]", nil, &s)
		if err != nil {
			return map[string]any{"res": "err", "msg": err.Error()}
		}
		if len(g2.Edges) != 1 {
			return map[string]any{"res": "lost", "text": cps(d2format.Format(g2.AST))}
		}
		return map[string]any{"res": "ok", "got": cps(g2.Edges[0].Label.Value), "text": cps(d2format.Format(g2.AST))}
	})
	return map[string]any{"k": "oracle", "in": map[string]any{"s": cps(s)}, "out": out}
}

// unitabCase lists the runes on which lowerChar / foldKey / isSpace of the model rest.
func unitabCase() map[string]any {
	var lowerToASCII, foldToASCII, spaces []int
	for r := rune(0); r <= unicode.MaxRune; r++ {
		if r >= 0xD800 && r <= 0xDFFF {
			continue
		}
		if unicode.IsSpace(r) {
			spaces = append(spaces, int(r))
		}
		if r < 0x80 {
			continue
		}
		if l := unicode.ToLower(r); l < 0x80 {
			lowerToASCII = append(lowerToASCII, int(r), int(l))
		}
		for f := unicode.SimpleFold(r); f != r; f = unicode.SimpleFold(f) {
			if f < 0x80 {
				lo := f
				if lo >= 'A' && lo <= 'Z' {
					lo += 32
				}
				foldToASCII = append(foldToASCII, int(r), int(lo))
				break
			}
		}
	}
	// LowOk of the C06 proofs, for unicode.ToLower: it fixes every rune of UnquotedKeySpecials and 'n', keeps every
	// other rune outside that set, and preserves unicode.IsSpace.  Violations are listed (none expected).
	lowBad := []int{}
	for r := rune(0); r <= unicode.MaxRune; r++ {
		if r >= 0xD800 && r <= 0xDFFF {
			continue
		}
		l := unicode.ToLower(r)
		special := strings.ContainsRune(d2ast.UnquotedKeySpecials, r)
		if special && l != r || !special && strings.ContainsRune(d2ast.UnquotedKeySpecials, l) || unicode.IsSpace(l) != unicode.IsSpace(r) || (r == 'n' && l != 'n') {
			lowBad = append(lowBad, int(r))
		}
	}
	// strings.ToLower / EqualFold agree with the per-rune functions on samples that mix the special runes
	samples := []string{"LİNK", "linK", "ſuspend", "FALſE", "NULL", "Ⱥ", "ǅ", "İ", "ẞ"}
	var sl []any
	for _, s := range samples {
		sl = append(sl, map[string]any{"s": cps(s), "lower": cps(strings.ToLower(s)),
			"foldnull": strings.EqualFold(s, "null"), "foldsuspend": strings.EqualFold(s, "suspend"), "foldfalse": strings.EqualFold(s, "false")})
	}
	return map[string]any{"k": "unitab", "in": map[string]any{}, "out": map[string]any{
		"lowerToASCII": lowerToASCII, "foldToASCII": foldToASCII, "spaces": spaces, "samples": sl, "lowOkViolations": lowBad}}
}

func emitStr(c *hl.Ctx, s string) {
	for _, m := range strCases(s) {
		c.Emit(m)
	}
}

func run(c *hl.Ctx) error {
	if cs := c.ReplayCase(); cs != nil {
		in, _ := cs["in"].(map[string]any)
		switch cs["k"] {
		case "str":
			c.Emit(strCase(fromCps(in["s"])))
		case "bytes":
			c.Emit(strCase(string(hl.Unhx(in["hex"].(string)))))
		case "strm":
			var s string
			if h, ok := in["hex"].(string); ok {
				s = string(hl.Unhx(h))
			} else {
				s = fromCps(in["s"])
			}
			m := strCase(s)
			m["k"] = "strm"
			c.Emit(m)
		case "pkey":
			c.Emit(pkeyCase(fromCps(in["t"])))
		case "pval":
			c.Emit(pvalCase(fromCps(in["t"])))
		case "oracle":
			c.Emit(oracleCase(fromCps(in["s"])))
		case "unitab":
			c.Emit(unitabCase())
		case "fixflags":
			c.Emit(map[string]any{"k": "fixflags", "in": in, "out": map[string]any{}, "triv": true})
		default:
			return fmt.Errorf("unknown replay kind %v", cs["k"])
		}
		return nil
	}
	r := c.Rand()
	g := quotegen.New(r, c.Count)
	c.Emit(unitabCase())
	// the hypotheses of the full theorems are evaluated by the driver on the regenerated tables
	c.Emit(map[string]any{"k": "fixflags", "in": map[string]any{"part": "key"}, "out": map[string]any{}, "triv": true})
	c.Emit(map[string]any{"k": "fixflags", "in": map[string]any{"part": "value"}, "out": map[string]any{}, "triv": true})

	// corpus: the witnesses of DESIGN §7 and the corner cases found while modelling; always first
	for _, s := range quotegen.Corpus {
		emitStr(c, s)
		c.Emit(oracleCase(s))
		c.Count("corpus")
	}
	// exhaustive short strings over the alphabet
	maxLen := c.Pick(2, 3)
	quotegen.Exhaustive(maxLen, func(s string) {
		emitStr(c, s)
		c.Count(fmt.Sprintf("exhaustive:len%d", utf8.RuneCountInString(s)))
	})
	// biased random strings
	n := c.Pick(30000, 1500000)
	for i := 0; i < n; i++ {
		emitStr(c, g.String())
	}
	// Go strings that are not valid UTF-8 (Spec only)
	nb := c.Pick(2000, 100000)
	for i := 0; i < nb; i++ {
		emitStr(c, g.Bytes())
	}
	// arbitrary texts through ParseKey / ParseValue (parser model)
	np := c.Pick(15000, 600000)
	for i := 0; i < np; i++ {
		t := g.Text()
		if r.Intn(2) == 0 {
			c.Emit(pkeyCase(t))
		} else {
			c.Emit(pvalCase(t))
		}
	}
	quotegen.Exhaustive(c.Pick(2, 3), func(t string) {
		c.Emit(pkeyCase(t))
		c.Emit(pvalCase(t))
		c.Count("ptext:exhaustive")
	})
	// editing API
	no := c.Pick(400, 20000)
	for i := 0; i < no; i++ {
		c.Emit(oracleCase(g.String()))
		c.Count("oracle")
	}
	return nil
}

var _ = rand.Int
