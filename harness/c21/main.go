package main

// C21: sizing of leaf shapes.
//
//	unit  D2 text → d2compiler.Compile → Graph.SetDimensions with the real ruler → one case per leaf object: what the
//	      sizing decision read (shape, label size, explicit width/height, icon, link+tooltip, default padding …) and
//	      the size it chose, plus the inner box lib/shape reports for that size.
//	e2e   the same observations after the whole of d2lib.Compile (dagre): sizes after layout.

import (
	"fmt"
	"math/rand"
	"strconv"
	"strings"

	"oss.terrastruct.com/d2/d2compiler"
	"oss.terrastruct.com/d2/d2graph"
	"oss.terrastruct.com/d2/d2lib"
	"oss.terrastruct.com/d2/d2target"
	"oss.terrastruct.com/d2/lib/geo"
	"oss.terrastruct.com/d2/lib/shape"

	"d2v/harness/geoutil"
	"d2v/harness/hl"
)

func main() { hl.Main("C21", run) }

var dslShapes = []string{"rectangle", "square", "page", "parallelogram", "document", "cylinder", "queue", "package", "step", "callout",
	"stored_data", "person", "c4-person", "diamond", "oval", "circle", "hexagon", "cloud", "text", "code", "class", "sql_table", "image"}

var labels = []string{"a", "x", "Hello", "API gateway", "A considerably longer label for this shape", "two\\nlines", "three\\nlines\\nhere",
	"Ünïcödé ∑ λ", "WWWWWWWWWW", "iiiiiiiiii", "1234567890 1234567890 1234567890", ""}

func genObj(r *rand.Rand, c *hl.Ctx, id string) string {
	var a []string
	sh := ""
	if r.Intn(8) != 0 {
		sh = dslShapes[r.Intn(len(dslShapes))]
		a = append(a, "shape: "+sh)
	}
	c.Count("shape:" + sh)
	lbl := labels[r.Intn(len(labels))]
	switch sh {
	case "class":
		a = append(a, "+id: int", "-name: string", "+run(n int): error")
	case "sql_table":
		a = append(a, "id: int {constraint: primary_key}", "owner_id: bigint {constraint: foreign_key}", "note: text")
	case "code":
		a = append(a, "label: |go\n  func main() {\n    fmt.Println(\"hi\")\n  }\n|")
		lbl = "\x00"
	case "image":
		a = append(a, "icon: https://icons.terrastruct.com/essentials/004-picture.svg")
	case "text":
		if r.Intn(2) == 0 {
			a = append(a, "label: |md\n  # Title\n  some *markdown* text\n|")
			lbl = "\x00"
			c.Count("markdown")
		}
	}
	if sh == "sql_table" {
		lbl = strings.ReplaceAll(lbl, "\\n", " ")
	}
	if lbl != "\x00" && r.Intn(4) != 0 {
		a = append(a, fmt.Sprintf("label: \"%s\"", lbl))
		if lbl == "" {
			c.Count("label:empty")
		}
	}
	switch r.Intn(4) {
	case 0:
		// sizes below MIN_SHAPE_SIZE (5) are clamped for images by design: sample from 5 px up
		w, h := 5+r.Intn(500), 5+r.Intn(400)
		if sh == "square" || sh == "circle" {
			h = w // the compiler rejects unequal width/height on squares and circles
		}
		a = append(a, fmt.Sprintf("width: %d", w), fmt.Sprintf("height: %d", h))
		c.Count("dims:both")
	case 1:
		if r.Intn(2) == 0 {
			a = append(a, fmt.Sprintf("width: %d", 5+r.Intn(500)))
		} else {
			a = append(a, fmt.Sprintf("height: %d", 5+r.Intn(400)))
		}
		c.Count("dims:one")
	default:
		c.Count("dims:auto")
	}
	if sh != "image" && r.Intn(6) == 0 {
		a = append(a, "icon: https://icons.terrastruct.com/essentials/004-picture.svg")
		c.Count("icon")
	}
	if r.Intn(8) == 0 {
		a = append(a, "link: https://example.com", "tooltip: more")
		c.Count("link+tooltip")
	}
	if r.Intn(5) == 0 {
		a = append(a, fmt.Sprintf("style.font-size: %d", 8+r.Intn(40)))
	}
	if r.Intn(8) == 0 {
		a = append(a, "style.bold: true")
	}
	if r.Intn(8) == 0 {
		a = append(a, "style.italic: true")
	}
	if r.Intn(12) == 0 {
		a = append(a, "style.font: mono")
	}
	if r.Intn(12) == 0 {
		a = append(a, "style.text-transform: uppercase")
	}
	return fmt.Sprintf("%s: {\n  %s\n}\n", id, strings.Join(a, "\n  "))
}

func genText(r *rand.Rand, c *hl.Ctx) string {
	var sb strings.Builder
	n := 1 + r.Intn(8)
	for i := 0; i < n; i++ {
		sb.WriteString(genObj(r, c, fmt.Sprintf("o%d", i)))
	}
	for k := r.Intn(n); k > 0; k-- {
		fmt.Fprintf(&sb, "o%d -> o%d\n", r.Intn(n), r.Intn(n))
	}
	return sb.String()
}

func atoi(s *d2graph.Scalar) int {
	if s == nil {
		return 0
	}
	v, _ := strconv.Atoi(s.Value)
	return v
}

func observe(o *d2graph.Object) map[string]any {
	dsl := strings.ToLower(o.Shape.Value)
	typ := d2target.DSL_SHAPE_TO_SHAPE_TYPE[dsl]
	px, py := shape.NewShape(typ, geo.NewBox(geo.NewPoint(0, 0), 10, 10)).GetDefaultPadding()
	dw, dh := atoi(o.WidthAttr), atoi(o.HeightAttr)
	m := map[string]any{"id": o.AbsID(), "dsl": dsl, "typ": typ, "label_empty": o.Label.Value == "",
		"lw": o.LabelDimensions.Width, "lh": o.LabelDimensions.Height, "dw": dw, "dh": dh,
		"has_icon": o.Icon != nil, "link_tooltip": o.Link != nil && o.Tooltip != nil, "font_size": o.Text().FontSize,
		"content_shape": o.SQLTable != nil || o.Class != nil || o.Language != "",
		"pad_x": hl.Rat(px), "pad_y": hl.Rat(py), "content": nil}
	if dsl == "class" || dsl == "sql_table" {
		withPad := dw == 0 && dh == 0 && o.Label.Value != ""
		if d, err := o.GetDefaultSize(nil, geoutil.Ruler(), nil, nil, o.LabelDimensions, withPad); err == nil {
			m["content"] = []int{d.Width, d.Height}
		}
	}
	return m
}

func result(o *d2graph.Object) map[string]any {
	s := shape.NewShape(d2target.DSL_SHAPE_TO_SHAPE_TYPE[strings.ToLower(o.Shape.Value)], geo.NewBox(geo.NewPoint(0, 0), o.Width, o.Height))
	if s.GetType() == shape.CLOUD_TYPE && o.ContentAspectRatio != nil {
		s.SetInnerBoxAspectRatio(*o.ContentAspectRatio)
	}
	ib := s.GetInnerBox()
	lp := ""
	if o.LabelPosition != nil {
		lp = *o.LabelPosition
	}
	return map[string]any{"w": hl.Rat(o.Width), "h": hl.Rat(o.Height),
		"inner": []string{hl.Rat(ib.TopLeft.X), hl.Rat(ib.TopLeft.Y), hl.Rat(ib.Width), hl.Rat(ib.Height)}, "lp": lp}
}

// runUnit: `api` (object id → [width, height], 0 = leave alone) sets WidthAttr / HeightAttr directly on the d2graph
// objects after compilation — the API path (d2oracle, library users), which is not subject to the compiler's
// "width and height must be equal for square/circle" validation.
func runUnit(c *hl.Ctx, text string, api map[string][2]int) {
	in := func() map[string]any {
		m := map[string]any{"text": text}
		if api != nil {
			a := map[string]any{}
			for k, v := range api {
				a[k] = []int{v[0], v[1]}
			}
			m["api"] = a
		}
		return m
	}
	g, _, err := d2compiler.Compile("", strings.NewReader(text), nil)
	if err != nil {
		c.Emit(map[string]any{"k": "unit", "in": in(), "out": map[string]any{"err": err.Error()}, "triv": true})
		return
	}
	for _, o := range g.Objects {
		if d, ok := api[o.AbsID()]; ok {
			if d[0] != 0 {
				o.WidthAttr = &d2graph.Scalar{Value: strconv.Itoa(d[0])}
			}
			if d[1] != 0 {
				o.HeightAttr = &d2graph.Scalar{Value: strconv.Itoa(d[1])}
			}
		}
	}
	oc := hl.Guard(func() { err = g.SetDimensions(nil, geoutil.Ruler(), nil, nil) })
	if oc != "ok" || err != nil {
		e := oc
		if err != nil {
			e = err.Error()
		}
		c.Emit(map[string]any{"k": "unit", "in": in(), "out": map[string]any{"err": e}})
		return
	}
	for _, o := range g.Objects {
		if len(o.ChildrenArray) > 0 {
			continue
		}
		m := in()
		m["obj"] = observe(o)
		c.Emit(map[string]any{"k": "unit", "in": m, "out": result(o)})
	}
}

// genAPI picks explicit sizes to set through the API: unequal values in both orders, also on squares and circles
func genAPI(r *rand.Rand, c *hl.Ctx, text string) map[string][2]int {
	api := map[string][2]int{}
	for i := 0; i < 8; i++ {
		id := fmt.Sprintf("o%d", i)
		if !strings.Contains(text, id+": {") || r.Intn(3) == 0 {
			continue
		}
		w, h := 5+r.Intn(500), 5+r.Intn(400)
		switch r.Intn(6) {
		case 0:
			h = w + 1 + r.Intn(200)
		case 1:
			w = h + 1 + r.Intn(200)
		case 2:
			w = 0
		case 3:
			h = 0
		}
		api[id] = [2]int{w, h}
		if strings.Contains(text, id+": {\n  shape: square") || strings.Contains(text, id+": {\n  shape: circle") {
			if w != 0 && h != 0 && w != h {
				c.Count("api:square-or-circle-unequal")
			}
		}
		c.Count("api:override")
	}
	return api
}

func runE2E(c *hl.Ctx, text string) {
	var g *d2graph.Graph
	var err error
	oc := hl.Guard(func() {
		_, g, err = d2lib.Compile(hl.QuietCtx(), text, &d2lib.CompileOptions{Ruler: geoutil.Ruler(),
			LayoutResolver: func(string) (d2graph.LayoutGraph, error) { return geoutil.Dagre, nil }}, nil)
	})
	if oc != "ok" || err != nil {
		e := oc
		if err != nil {
			e = err.Error()
		}
		c.Emit(map[string]any{"k": "e2e", "in": map[string]any{"text": text}, "out": map[string]any{"err": e}, "triv": true})
		return
	}
	for _, o := range g.Objects {
		if len(o.ChildrenArray) > 0 {
			continue
		}
		c.Emit(map[string]any{"k": "e2e", "in": map[string]any{"text": text, "obj": observe(o)}, "out": result(o)})
	}
}

func run(c *hl.Ctx) error {
	if cs := c.ReplayCase(); cs != nil {
		in := cs["in"].(map[string]any)
		if cs["k"] == "e2e" {
			runE2E(c, in["text"].(string))
		} else {
			var api map[string][2]int
			if a, ok := in["api"].(map[string]any); ok {
				api = map[string][2]int{}
				for k, v := range a {
					p := v.([]any)
					api[k] = [2]int{int(p[0].(float64)), int(p[1].(float64))}
				}
			}
			runUnit(c, in["text"].(string), api)
		}
		return nil
	}
	r := c.Rand()
	for i := c.Pick(1800, 30000); i > 0; i-- {
		runUnit(c, genText(r, c), nil)
	}
	// API path: explicit sizes set on the d2graph objects, incl. unequal ones on squares and circles
	for i := c.Pick(700, 10000); i > 0; i-- {
		t := genText(r, c)
		runUnit(c, t, genAPI(r, c, t))
	}
	for i := c.Pick(60, 600); i > 0; i-- {
		c.Count("e2e:dagre")
		runE2E(c, genText(r, c))
	}
	return nil
}
