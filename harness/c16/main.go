// C16 harness: attribute value validation of the real d2 code.
//   kind "apply":   (*d2graph.Style).Apply(kw, v) called directly — accept / reject / stored value
//   kind "compile": the value placed in a minimal program and compiled — accept / reject, whether an error covers
//                   the value's position, and the value that reached the compiled graph / config
package main

import (
	"fmt"
	"math/rand"
	"strconv"
	"strings"

	"d2v/harness/hl"

	"oss.terrastruct.com/d2/d2ast"
	"oss.terrastruct.com/d2/d2compiler"
	"oss.terrastruct.com/d2/d2graph"
	"oss.terrastruct.com/d2/d2parser"
)

func main() { hl.Main("C16", run) }

var styleKws = []string{"opacity", "stroke", "fill", "fill-pattern", "stroke-width", "stroke-dash", "border-radius", "shadow", "3d", "multiple", "font", "font-size", "font-color", "animated", "bold", "italic", "underline", "filled", "double-border", "text-transform"}
var reservedKws = []string{"width", "height", "top", "left", "direction", "grid-rows", "grid-columns", "grid-gap", "vertical-gap", "horizontal-gap", "shape"}
var configKws = []string{"sketch", "center", "theme-id", "dark-theme-id", "pad"}

func newStyle() *d2graph.Style {
	s := &d2graph.Style{}
	s.Opacity, s.Stroke, s.Fill, s.FillPattern = &d2graph.Scalar{}, &d2graph.Scalar{}, &d2graph.Scalar{}, &d2graph.Scalar{}
	s.StrokeWidth, s.StrokeDash, s.BorderRadius = &d2graph.Scalar{}, &d2graph.Scalar{}, &d2graph.Scalar{}
	s.Shadow, s.ThreeDee, s.Multiple, s.Font, s.FontSize, s.FontColor = &d2graph.Scalar{}, &d2graph.Scalar{}, &d2graph.Scalar{}, &d2graph.Scalar{}, &d2graph.Scalar{}, &d2graph.Scalar{}
	s.Animated, s.Bold, s.Italic, s.Underline, s.Filled, s.DoubleBorder, s.TextTransform = &d2graph.Scalar{}, &d2graph.Scalar{}, &d2graph.Scalar{}, &d2graph.Scalar{}, &d2graph.Scalar{}, &d2graph.Scalar{}, &d2graph.Scalar{}
	return s
}

func styleField(s *d2graph.Style, kw string) *d2graph.Scalar {
	switch kw {
	case "opacity":
		return s.Opacity
	case "stroke":
		return s.Stroke
	case "fill":
		return s.Fill
	case "fill-pattern":
		return s.FillPattern
	case "stroke-width":
		return s.StrokeWidth
	case "stroke-dash":
		return s.StrokeDash
	case "border-radius":
		return s.BorderRadius
	case "shadow":
		return s.Shadow
	case "3d":
		return s.ThreeDee
	case "multiple":
		return s.Multiple
	case "font":
		return s.Font
	case "font-size":
		return s.FontSize
	case "font-color":
		return s.FontColor
	case "animated":
		return s.Animated
	case "bold":
		return s.Bold
	case "italic":
		return s.Italic
	case "underline":
		return s.Underline
	case "filled":
		return s.Filled
	case "double-border":
		return s.DoubleBorder
	case "text-transform":
		return s.TextTransform
	}
	return nil
}

func observeApply(kw, v string) map[string]any {
	out := map[string]any{}
	s := newStyle()
	var err error
	oc := hl.Guard(func() { err = s.Apply(kw, v) })
	if oc != "ok" {
		out["panic"] = oc
	} else if err != nil {
		out["accept"] = false
	} else {
		out["accept"] = true
		if f := styleField(s, kw); f != nil {
			out["stored"] = hl.Hx([]byte(f.Value))
		}
	}
	return map[string]any{"k": "apply", "in": map[string]any{"area": "style", "kw": kw, "v": hl.Hx([]byte(v))}, "out": out}
}

// quote renders v as a double-quoted D2 string.
func quote(v string) string {
	var b strings.Builder
	b.WriteByte('"')
	for _, r := range v {
		switch r {
		case '"':
			b.WriteString(`\"`)
		case '\\':
			b.WriteString(`\\`)
		case '\n':
			b.WriteString(`\n`)
		case '$':
			b.WriteString(`\$`)
		default:
			b.WriteRune(r)
		}
	}
	b.WriteByte('"')
	return b.String()
}

// program places the value; returns the text and the (0-based) line / byte column where the quoted value starts.
// bare reports whether v can be written as an unquoted D2 value that the parser reads back as the same text.
func bare(v string) bool {
	if v == "" || strings.EqualFold(v, "null") || strings.EqualFold(v, "suspend") || strings.EqualFold(v, "unsuspend") || strings.EqualFold(v, "true") || strings.EqualFold(v, "false") {
		return false
	}
	for i, c := range v {
		ok := c >= '0' && c <= '9' || c >= 'a' && c <= 'z' || c >= 'A' && c <= 'Z' || c == '.' || c == '/' || c == '_'
		if i == 0 && (c == '+' || c == '-') && len(v) > 1 {
			ok = true
		}
		if !ok {
			return false
		}
	}
	return true
}

func program(area, kw, place, v string) (string, int, int, int) {
	q := quote(v)
	if strings.HasPrefix(place, "bare-") {
		q = v
		place = strings.TrimPrefix(place, "bare-")
	}
	kwText := kw
	if strings.HasPrefix(place, "kwcase:") {
		// the keyword is written in another letter case; the value is judged against the lower-case keyword's domain
		kwText = strings.TrimPrefix(place, "kwcase:")
		place = "shape"
	}
	var pre, post string
	switch area {
	case "style":
		if place == "edge" {
			pre = "a -> b: {style." + kw + ": "
			post = "}\n"
		} else {
			pre = "x: {style." + kwText + ": "
			post = "}\n"
		}
	case "reserved":
		switch {
		case kw == "shape" && place == "arrowhead":
			pre, post = "a -> b: {target-arrowhead: {shape: ", "}}\n"
		case strings.HasPrefix(kw, "grid-") || strings.HasSuffix(kw, "-gap"):
			pre, post = "x: {a; b; "+kw+": ", "}\n"
		case kw == "shape":
			pre, post = "x: {shape: ", "; icon: https://icons.example/a.png}\n"
		default:
			pre, post = "x: {"+kwText+": ", "}\n"
		}
	case "config":
		pre, post = "vars: {d2-config: {"+kw+": ", "}}\nx\n"
	}
	// start of the `key: value` declaration the value belongs to
	decl := strings.LastIndex(pre, "{") + 1
	if i := strings.LastIndex(pre, "; "); i >= 0 && i+2 > decl {
		decl = i + 2
	}
	return pre + q + post, 0, len(pre), decl
}

func observeCompile(area, kw, place, v string) map[string]any {
	text, line, col, decl := program(area, kw, place, v)
	fullPlace := place
	place = strings.TrimPrefix(place, "bare-")
	if strings.HasPrefix(place, "kwcase:") {
		place = "shape"
	}
	out := map[string]any{}
	var g *d2graph.Graph
	var err error
	var cfgVal string
	oc := hl.Guard(func() {
		var g2 *d2graph.Graph
		g2, cfg, e := d2compiler.Compile("t.d2", strings.NewReader(text), nil)
		g, err = g2, e
		if cfg != nil {
			switch kw {
			case "theme-id":
				if cfg.ThemeID != nil {
					cfgVal = strconv.FormatInt(*cfg.ThemeID, 10)
				}
			case "dark-theme-id":
				if cfg.DarkThemeID != nil {
					cfgVal = strconv.FormatInt(*cfg.DarkThemeID, 10)
				}
			case "pad":
				if cfg.Pad != nil {
					cfgVal = strconv.FormatInt(*cfg.Pad, 10)
				}
			case "sketch":
				if cfg.Sketch != nil {
					cfgVal = strconv.FormatBool(*cfg.Sketch)
				}
			case "center":
				if cfg.Center != nil {
					cfgVal = strconv.FormatBool(*cfg.Center)
				}
			}
		}
	})
	if oc != "ok" {
		out["panic"] = oc
		return map[string]any{"k": "compile", "in": map[string]any{"area": area, "kw": kw, "place": fullPlace, "v": hl.Hx([]byte(v))}, "out": out}
	}
	if err != nil {
		out["accept"] = false
		covers := false
		var msgs []string
		if pe, ok := err.(*d2parser.ParseError); ok {
			for _, e := range pe.Errors {
				msgs = append(msgs, e.Message)
				if rangeCovers(e.Range, line, col, decl) {
					covers = true
				}
			}
		} else {
			msgs = append(msgs, err.Error())
		}
		out["errAtValue"] = covers
		out["nerr"] = len(msgs)
		if len(msgs) > 0 {
			m := msgs[0]
			if len(m) > 160 {
				m = m[:160]
			}
			out["msg"] = m
		}
	} else {
		out["accept"] = true
		stored := ""
		switch area {
		case "config":
			stored = cfgVal
			out["storedKind"] = "config"
		case "style":
			var st *d2graph.Style
			if place == "edge" && len(g.Edges) > 0 {
				st = &g.Edges[0].Style
			} else if len(g.Objects) > 0 {
				st = &g.Objects[0].Style
			}
			if st != nil {
				if f := styleField(st, kw); f != nil {
					stored = f.Value
				}
			}
		case "reserved":
			if kw == "shape" && place == "arrowhead" {
				if len(g.Edges) > 0 && g.Edges[0].DstArrowhead != nil {
					stored = g.Edges[0].DstArrowhead.Shape.Value
				}
			} else if len(g.Objects) > 0 {
				o := g.Objects[0]
				sc := func(s *d2graph.Scalar) string {
					if s == nil {
						return ""
					}
					return s.Value
				}
				switch kw {
				case "width":
					stored = sc(o.WidthAttr)
				case "height":
					stored = sc(o.HeightAttr)
				case "top":
					stored = sc(o.Top)
				case "left":
					stored = sc(o.Left)
				case "direction":
					stored = o.Direction.Value
				case "grid-rows":
					stored = sc(o.GridRows)
				case "grid-columns":
					stored = sc(o.GridColumns)
				case "grid-gap":
					stored = sc(o.GridGap)
				case "vertical-gap":
					stored = sc(o.VerticalGap)
				case "horizontal-gap":
					stored = sc(o.HorizontalGap)
				case "shape":
					stored = o.Shape.Value
				}
			}
		}
		out["stored"] = hl.Hx([]byte(stored))
	}
	return map[string]any{"k": "compile", "in": map[string]any{"area": area, "kw": kw, "place": fullPlace, "v": hl.Hx([]byte(v))}, "out": out}
}

// rangeCovers: the error is positioned at the value, or at the `key: value` declaration that carries it
// (it starts between the start of that declaration and the start of the value, on the same line).
func rangeCovers(r d2ast.Range, line, col, decl int) bool {
	return r.Start.Line == line && r.Start.Column >= decl && r.Start.Column <= col
}

// ---- value generators -------------------------------------------------------------------------------------------

var intish = []string{"0", "1", "-1", "-0", "+0", "+5", "7", "8", "9", "10", "11", "14", "15", "16", "17", "99", "100", "101", "007", "0010", "1_0", "1e1", "1.0", "1.", "0x10", " 5", "5 ", "", "-", "+", "--1", "9223372036854775807", "9223372036854775808", "-9223372036854775808", "-9223372036854775809", "99999999999999999999", "٣", "1２", "1,000", "0b11", "0o7", "1e", "١٠"}
var floatish = []string{"0", "1", "0.0", "1.0", "0.5", ".5", "5.", "1.", ".", "-0", "-0.0", "+1", "+.5", "1.0000000000000000000001", "1.0000000000000002", "1.00000000000000011102230246251565", "1.0000000000000001110223024625156541", "0.99999999999999999999", "-0.0000000000000000000000001", "-1e-400", "1e-400", "4.9e-324", "2e-324", "1e0", "1E0", "10e-1", "10e-2", "1e1", "0x1p0", "0x1p-1", "0x1.8p-1", "0x.8p1", "0x1p1", "0X1P-2", "0x1", "0x1p", "1p0", "1_0", "0_1", "0._5", "0.5_", "_0.5", "0x_1p0", "0x1_0p-8", "1__0", "NaN", "nan", "NAN", "+nan", "-nan", "Inf", "inf", "+Inf", "-inf", "infinity", "Infinity", "-INFINITY", "infinit", "in", "1e309", "1e308", "1.8e308", "1.797693134862315708145274237317043567981e+308", "-1e309", "1e999999999", "1e-999999999", "0e999999999", "١", "1,5", "1 ", " 1", "", "e1", "1e+", "1e-", "0x", "0xp1", "1.5.5", "2", "1.1", "-0.1", "0.1.", "1f", "1d"}
var boolish = []string{"true", "false", "True", "False", "TRUE", "FALSE", "t", "f", "T", "F", "1", "0", "tRUE", "yes", "no", "on", "off", "", " true", "true ", "2", "-1", "01", "tr", "nil", "null"}
var colorish = []string{"red", "RED", "Red", "rEd", "blue", "transparent", "honeydew", "rebeccapurple", "currentcolor", "none", "inherit", "#fff", "#FFF", "#ffffff", "#FFFFFF", "#f0ff3a", "#ffff", "#fffff", "#fffffff", "#ffffffff", "#ggg", "#12", "#", "fff", "ffffff", "# fff", "#fff ", " #fff", "rgb(1,2,3)", "rgba(1,2,3,0.5)", "hsl(10,10%,10%)", "N1", "B4", "AA2", "", "re d", "red;", "#FfF", "#abcdef", "#ABCDEF", "#abcdeg", "#١٢٣", "grey", "gray", "darkgrey", "lightgoldenrodyellow", "ſalmon"}

var cssNamed = strings.Fields("aliceblue antiquewhite aqua aquamarine azure beige bisque black blanchedalmond blue blueviolet brown burlywood cadetblue chartreuse chocolate coral cornflowerblue cornsilk crimson cyan darkblue darkcyan darkgoldenrod darkgray darkgrey darkgreen darkkhaki darkmagenta darkolivegreen darkorange darkorchid darkred darksalmon darkseagreen darkslateblue darkslategray darkslategrey darkturquoise darkviolet deeppink deepskyblue dimgray dimgrey dodgerblue firebrick floralwhite forestgreen fuchsia gainsboro ghostwhite gold goldenrod gray grey green greenyellow honeydew hotpink indianred indigo ivory khaki lavender lavenderblush lawngreen lemonchiffon lightblue lightcoral lightcyan lightgoldenrodyellow lightgray lightgrey lightgreen lightpink lightsalmon lightseagreen lightskyblue lightslategray lightslategrey lightsteelblue lightyellow lime limegreen linen magenta maroon mediumaquamarine mediumblue mediumorchid mediumpurple mediumseagreen mediumslateblue mediumspringgreen mediumturquoise mediumvioletred midnightblue mintcream mistyrose moccasin navajowhite navy oldlace olive olivedrab orange orangered orchid palegoldenrod palegreen paleturquoise palevioletred papayawhip peachpuff peru pink plum powderblue purple rebeccapurple red rosybrown royalblue saddlebrown salmon sandybrown seagreen seashell sienna silver skyblue slateblue slategray slategrey snow springgreen steelblue tan teal thistle tomato turquoise violet wheat white whitesmoke yellow yellowgreen transparent currentcolor muintcream")

func enumish(r *rand.Rand, vals []string) []string {
	out := []string{"", " ", "x", "nonee", "non"}
	for _, v := range vals {
		out = append(out, v, strings.ToUpper(v), strings.Title(v), v+" ", " "+v, v+"s")
		if len(v) > 1 {
			out = append(out, v[:len(v)-1], strings.Replace(v, "-", "_", 1), strings.Replace(v, "_", "-", 1))
			// random case pattern
			b := []byte(v)
			for i := range b {
				if r.Intn(2) == 0 && b[i] >= 'a' && b[i] <= 'z' {
					b[i] -= 32
				}
			}
			out = append(out, string(b))
		}
	}
	return out
}

var fillPatterns = []string{"none", "dots", "lines", "grain", "paper"}
var textTransforms = []string{"none", "uppercase", "lowercase", "capitalize"}
var fonts = []string{"default", "mono"}
var directions = []string{"up", "down", "right", "left"}
var shapes = []string{"rectangle", "square", "page", "parallelogram", "document", "cylinder", "queue", "package", "step", "callout", "stored_data", "person", "c4-person", "diamond", "oval", "circle", "hexagon", "cloud", "text", "code", "class", "sql_table", "image", "sequence_diagram", "hierarchy"}
var arrowheads = []string{"none", "arrow", "triangle", "diamond", "circle", "box", "cf-one", "cf-many", "cf-one-required", "cf-many-required", "cross", "unfilled-triangle", "filled-diamond", "filled-circle", "filled-box", "line"}
var themeish = []string{"0", "1", "2", "3", "4", "5", "6", "7", "8", "9", "99", "100", "101", "102", "103", "104", "105", "106", "199", "200", "201", "202", "300", "301", "302", "303", "304", "-1", "+1", "01", "1.0", "", "x", "9223372036854775807", "9223372036854775808", "4294967296", "4294967297", "18446744073709551616"}

func randNumberText(r *rand.Rand) string {
	switch r.Intn(6) {
	case 0:
		return strconv.Itoa(r.Intn(140) - 20)
	case 1:
		return strconv.FormatFloat(r.Float64()*1.2-0.1, 'g', -1, 64)
	case 2:
		return strconv.FormatFloat(r.Float64()*1.2-0.1, 'e', r.Intn(20), 64)
	case 3:
		return fmt.Sprintf("%d.%de%d", r.Intn(12), r.Intn(1000), r.Intn(7)-4)
	case 4:
		return strconv.FormatFloat(r.Float64()*2, 'x', -1, 64)
	default:
		alpha := "0123456789.-+eExXpP_ nNaAiIfF"
		n := 1 + r.Intn(7)
		b := make([]byte, n)
		for i := range b {
			b[i] = alpha[r.Intn(len(alpha))]
		}
		return string(b)
	}
}

func valuesFor(r *rand.Rand, area, kw string, nrand int) []string {
	var vs []string
	switch {
	case area == "style" && kw == "opacity":
		vs = append(vs, floatish...)
		vs = append(vs, intish...)
	case area == "style" && (kw == "stroke" || kw == "fill" || kw == "font-color"):
		vs = append(vs, colorish...)
		vs = append(vs, cssNamed...)
		for _, n := range cssNamed {
			if r.Intn(4) == 0 {
				vs = append(vs, strings.ToUpper(n[:1])+n[1:])
			}
		}
	case kw == "fill-pattern":
		vs = enumish(r, fillPatterns)
	case kw == "text-transform":
		vs = enumish(r, textTransforms)
	case kw == "font":
		vs = enumish(r, fonts)
	case kw == "direction":
		vs = enumish(r, directions)
	case kw == "shape":
		vs = enumish(r, append(append([]string{}, shapes...), arrowheads...))
	case kw == "theme-id" || kw == "dark-theme-id":
		vs = append(vs, themeish...)
		vs = append(vs, intish...)
	case kw == "sketch" || kw == "center" || (area == "style" && (kw == "shadow" || kw == "3d" || kw == "multiple" || kw == "animated" || kw == "bold" || kw == "italic" || kw == "underline" || kw == "filled" || kw == "double-border")):
		vs = append(vs, boolish...)
	default:
		vs = append(vs, intish...)
		vs = append(vs, floatish[:12]...)
	}
	for i := 0; i < nrand; i++ {
		vs = append(vs, randNumberText(r))
	}
	return vs
}

func run(c *hl.Ctx) error {
	if cs := c.ReplayCase(); cs != nil {
		in := cs["in"].(map[string]any)
		v := string(hl.Unhx(in["v"].(string)))
		if cs["k"] == "apply" {
			c.Emit(observeApply(in["kw"].(string), v))
		} else {
			place, _ := in["place"].(string)
			c.Emit(observeCompile(in["area"].(string), in["kw"].(string), place, v))
		}
		return nil
	}
	r := c.Rand()
	nr := c.Pick(40, 4000)
	for _, kw := range styleKws {
		for _, v := range valuesFor(r, "style", kw, nr) {
			c.Emit(observeApply(kw, v))
			c.Count("apply:" + kw)
		}
	}
	ncr := c.Pick(6, 600)
	// through the compiler: keywords that a plain rectangle / a plain edge takes without further conditions
	for _, kw := range []string{"opacity", "stroke", "fill", "stroke-width", "stroke-dash", "border-radius", "font-size", "font-color", "font", "bold", "italic", "underline", "text-transform", "shadow", "multiple", "fill-pattern"} {
		for _, v := range valuesFor(r, "style", kw, ncr) {
			c.Emit(observeCompile("style", kw, "shape", v))
			c.Count("compile:style:" + kw)
		}
	}
	for _, kw := range []string{"opacity", "stroke", "stroke-width", "stroke-dash", "font-size", "font-color", "animated", "bold", "italic", "underline"} {
		for _, v := range valuesFor(r, "style", kw, ncr) {
			c.Emit(observeCompile("style", kw, "edge", v))
			c.Count("compile:edge-style:" + kw)
		}
	}
	for _, kw := range reservedKws {
		for _, v := range valuesFor(r, "reserved", kw, ncr) {
			c.Emit(observeCompile("reserved", kw, "shape", v))
			c.Count("compile:reserved:" + kw)
			if kw == "shape" {
				c.Emit(observeCompile("reserved", kw, "arrowhead", v))
				c.Count("compile:arrowhead-shape")
			}
		}
	}
	for _, kw := range configKws {
		for _, v := range valuesFor(r, "config", kw, ncr) {
			c.Emit(observeCompile("config", kw, "config", v))
			c.Count("compile:config:" + kw)
			if bare(v) {
				c.Emit(observeCompile("config", kw, "bare-config", v))
				c.Count("compile:config-bare:" + kw)
			}
		}
	}
	// unquoted number-like literals (the parser classifies them as numbers: 1e2, 3.0, 6/2, 0x65, 0100 …)
	numLits := []string{"1e2", "1E2", "3.0", "6/2", "400/2", "0x65", "0100", "010", "1_0", "1e0", "2e0", "0.5e1", "5e-1", "+3", "-3", "-0", "0x1p4", "08", "1.5", "100", "7", "15", "16", "0"}
	for _, kw := range []string{"theme-id", "dark-theme-id", "pad"} {
		for _, v := range numLits {
			c.Emit(observeCompile("config", kw, "bare-config", v))
			c.Count("compile:config-bare-num:" + kw)
		}
	}
	for _, kw := range []string{"width", "height", "top", "left", "grid-rows", "grid-columns", "grid-gap", "vertical-gap", "horizontal-gap"} {
		for _, v := range numLits {
			c.Emit(observeCompile("reserved", kw, "bare-shape", v))
			c.Count("compile:reserved-bare-num:" + kw)
		}
	}
	for _, kw := range []string{"opacity", "stroke-width", "stroke-dash", "border-radius", "font-size"} {
		for _, v := range numLits {
			c.Emit(observeCompile("style", kw, "bare-shape", v))
			c.Emit(observeCompile("style", kw, "bare-edge", v))
			c.Count("compile:style-bare-num:" + kw)
		}
	}
	// keywords written in another letter case: either rejected as unknown or validated like the lower-case keyword
	caseVar := func(kw string) []string {
		out := []string{strings.ToUpper(kw), strings.ToUpper(kw[:1]) + kw[1:]}
		b := []byte(kw)
		for i := range b {
			if r.Intn(2) == 0 && b[i] >= 'a' && b[i] <= 'z' {
				b[i] -= 32
			}
		}
		return append(out, string(b))
	}
	for _, kw := range styleKws {
		vals := valuesFor(r, "style", kw, 0)
		for _, kv := range caseVar(kw) {
			if kv == kw {
				continue
			}
			for j := 0; j < 12 && j < len(vals); j++ {
				v := vals[r.Intn(len(vals))]
				c.Emit(observeCompile("style", kw, "kwcase:"+kv, v))
				c.Count("compile:style-kwcase")
			}
		}
	}
	return nil
}
