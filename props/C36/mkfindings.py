#!/usr/bin/env python3
import json
def F(*feats):
    # features appear in sorted order inside "feat": [...]
    fs=sorted(feats)
    return r'"feat": \[' + ''.join(r'[^\]]*"%s"' % f for f in fs)
def ANY(*feats):
    return r'"feat": \[[^\]]*"(%s)"' % '|'.join(feats)
FLAT=ANY('x-flat','anc-flat','sub-flat','dest-flat')
find={
'C36':[
 dict(id='C36-format-not-idempotent-when-boards-are-not-last', sig='import-formatter-changes-new-text', input=r'layers: \{\\n  l1: \{\\n[^"]*?\\n  \}\\n\}\\n[^"]',
      what='d2oracle.UpdateImport returns Format(ast) of a text whose `layers` block is not the last key: the formatter moves boards last but emits a leading blank line and no separating blank line, which a second Format pass changes (formatter idempotence defect, C03) — witness: `layers: {l1: {...@bar}}` followed by `a -> b: AB`'),
],
'C37':[
 dict(id='C37-create-parallel-edge-renumbers-existing', sig='create-changed-existing-edge|create-returned-existing-id', input=F('t-edge-dotted')+r'.*"kind": "create"',
      what='d2oracle.Create of a connection parallel to an existing one whose declaration lies in an outer scope inserts the new declaration earlier in the file: the EXISTING connection is renumbered and the returned key names the old one (witness: `z: L1; z.z: L2 {y: L3}; z.z.y -- z.z: E4`, Create("z.z.y -- z.z") returns z.(z.y -- z)[1] which is E4)'),
],
'C38':[
 dict(id='C38-delete-unsupported-attribute-is-a-silent-noop', sig='delattr-not-reset-unsupported-attribute',
      what='d2oracle.Delete of x.label / x.shape / x.direction (anything deleteReserved has no case for) returns success and leaves the attribute set'),
 dict(id='C38-delete-object-leaks-dotted-attributes-to-parent', sig='delobj-(changed-attrs|not-removed|lost-object|new-element)', input=F('x-flat-attr'),
      what='d2oracle.Delete("a.x") with a dotted attribute reference `a.x.shape: hexagon` rewrites it to `a.shape: hexagon`: the parent takes over the deleted object\'s attribute/label (deleteObject only drops the key when nothing but reserved segments remain)'),
 dict(id='C38-board-scoped-delete-uses-null-children-not-hoisted', sig='delobj-(lost-object|lost-edge|not-removed|child-not-hoisted|attached-edge-kept)|deledge-(not-removed|removed-other-edge|renumber)|labels-duplicated', input=F('board-nested'),
      what='d2oracle.Delete addressed to a nested board appends `key: null` when the target (or a child) is inherited or when earlier nulls exist: the whole subtree is removed, children are not hoisted, later parallel connections are not renumbered'),
 dict(id='C38-delete-style-attribute-also-strips-descendants', sig='delattr-changed-other-object', input=F('sub-flat','x-children'),
      what='d2oracle.Delete("y.style.bold") also removes style.bold from descendants of y that are declared with dotted keys (deleteObjField walks every reference whose key passes through y)'),
 dict(id='C38-delete-edge-attribute-removes-sibling-arrowhead-field', sig='delattr-changed-other-attr|delattr-not-reset', input=F('x-arrowhead'),
      what='d2oracle.Delete of `(a -> a)[0].label` or of one arrowhead field removes the same-named field of the other arrowhead map (deleteMapField matches the last path segment only)'),
 dict(id='C38-duplicate-style-key-survives-delete', sig='delattr-not-reset', input=r'(style\.)?text-transform: [A-Za-z]+\\n\s*(style\.)?text-transform:',
      what='after Set(style.text-transform=Lowercase) and Set(…=uppercase) the map holds the key twice (the case-normalised value is not recognised as the same field); Delete removes one occurrence and the attribute stays set'),
 dict(id='C38-hoist-does-not-rewrite-underscore-references', sig='delobj-(new-element|edge-detached|lost-edge|changed-other-id)', input=ANY('sub-underscore','x-underscore','sube-edge-in-map'),
      what='d2oracle.Delete of a container whose children contain connections written with `_` parent references strips one `_` only: `_.x <-> c` inside d.q becomes `x <-> c` inside q and now names q.x (a new object) instead of x'),
],
'C39':[
 dict(id='C39-move-into-own-descendant', sig='move-(lost-moved-object|lost-object|wrong-destination-parent|new-object|changed-attrs|descendant-misplaced|lost-edge)|labels-duplicated|panic-move|fatal-move', input=F('dest-inside-x'),
      what='d2oracle.Move(x → x.y…) (destination inside the moved object) is accepted and deletes or duplicates the subtree (witness: `e: L1`, Move("e","e.e") → e vanishes)'),
 dict(id='C39-move-on-dotted-keys-corrupts', sig='move-(lost-object|lost-moved-object|wrong-destination-parent|changed-attrs|descendant-misplaced|changed-other-id|new-object|edge-detached|lost-edge|changed-edge-attrs)|labels-duplicated|panic-(move|rename)', input=FLAT,
      what='d2oracle.Move / Rename of an object that (or whose ancestor, descendant or destination container) is declared with a dotted key (`a.d: L5 {…}`) keeps the primary value with the truncated key or splits label and map: labels of other objects are overwritten, the moved object loses its label, or move panics with slice bounds out of range (witness: `a: L1 {x: L91}; a.d: L5`, Move("a.d","a.x.d") → `a: L5`, new unlabeled a.x.d)'),
 dict(id='C39-move-panics-on-dotted-connection-endpoints', sig='panic-(move|rename)', input=ANY('x-edge-dotted','sub-edge-dotted','anc-edge-dotted','t-underscore'), detail='out of range',
      what='d2oracle.Move of an object whose subtree is referenced by dotted connection endpoints (`a.z.x <-> q`) panics: slice bounds out of range [-1:] / index out of range [2] with length 1 (witness: `a: L0; d.e.c: L1; a -> a: E0`, Move("d.e.c","d.b",false))'),
 dict(id='C39-move-ignores-indexed-connection-references', sig='move-(new-object|lost-edge|edge-detached|changed-edge-attrs|lost-object)|labels-duplicated', input=ANY('sube-edge-multiref','xe-edge-multiref'),
      what='d2oracle.Move / Rename does not rewrite indexed connection references `(x <- z.q.c.d)[1].style.opacity: 0.5` whose endpoint lies in the moved subtree: the stale key re-creates the old path as new objects and a new connection'),
 dict(id='C39-move-does-not-rewrite-underscore-references', sig='move-(new-object|lost-edge|edge-detached|changed-edge-attrs|lost-object|descendant-misplaced)|labels-duplicated', input=ANY('x-underscore','sub-underscore','anc-underscore','dest-underscore'),
      what='d2oracle.Move of an object that is referenced through `_` parent references inside another container (`_.y.q.a -> _.y.q` within `b 2`) leaves those references pointing at the old path, which re-creates it'),
 dict(id='C39-board-scoped-move-leaves-the-board', sig='move-(lost-moved-object|lost-object|new-object)', input=F('board-nested'),
      what='d2oracle.Move addressed to a nested board that moves an object to the board root writes the object into the FILE root instead of the board\'s own map: it vanishes from the board (witness: layer l1 {q: {e}}, Move(["l1"],"q.e","e"))'),
],
'C40':[
 dict(id='C40-move-deltas-stack-overflow', sig='deltas-(fatal|panic)-move', input=F('dest-inside-x'),
      what='d2oracle.MoveIDDeltas(g, "y", "y.y", …) re-parents the object under its own descendant and recurses forever in Object.AbsID: fatal stack overflow (not recoverable)'),
 dict(id='C40-move-into-own-descendant', sig='move-.*', input=F('dest-inside-x'),
      what='predictions for a Move into the moved object\'s own descendant cannot agree with the edit, which deletes the subtree (see C39-move-into-own-descendant)'),
 dict(id='C40-rename-uniqueness-scope-differs', sig='rename-(object|edge)-id-not-predicted', input=F('newname-root-sibling-mismatch'),
      what='d2oracle.Rename makes the new name unique against the ROOT scope (generateUniqueKey(newName)) while RenameIDDeltas makes it unique among the siblings (generateUniqueKey(full path)): `z: L1; z.c: L2`, Rename("z.c","z") yields z.z 2 but z.z is predicted'),
 dict(id='C40-move-on-dotted-keys-corrupts', sig='(move|rename)-.*', input=FLAT,
      what='the edit itself is wrong on dotted-key sources (C39-move-on-dotted-keys-corrupts), so the prediction cannot agree'),
 dict(id='C40-delete-deltas-predict-for-removed-edges', sig='delete-prediction-for-removed-edge', input=F('x-children','x-edge-attached'),
      what='DeleteIDDeltas predicts a new ID for a connection between the deleted object and one of its descendants (`a: {e}; a.e -> a`), which the delete removes'),
 dict(id='C40-delete-on-board-null-mode', sig='delete-prediction-for-removed-(object|edge)|delete-(object|edge)-id-not-predicted|delete-refinement', input=F('board-nested'),
      what='board-scoped Delete appends `key: null` (children removed, no renumbering) while DeleteIDDeltas predicts the hoisting/renumbering of the in-place delete'),
 dict(id='C40-reconnect-deltas-ignore-arrows-and-order', sig='reconnect-edge-id-not-predicted',
      what='ReconnectEdgeIDDeltas counts/bumps connections with the same endpoints regardless of their arrows and predicts the new index from source line numbers; the edit recompiles and indexes per (src,dst,arrows) group in file order (witness: `y -> y: E3; y -> y: E4; y <-> a: E5`, reconnect (y -> y)[1] dst→a predicts (y <-> a)[0]→[1])'),
 dict(id='C40-rename-edge-arrows-shifts-groups', sig='rename-edge-id-not-predicted', input=r'"kind": "rename"',
      what='renaming a connection (changing its arrows) moves it to another parallel group: the remaining connections of the old group are renumbered, RenameIDDeltas predicts only the renamed connection'),
 dict(id='C40-rename-case-only', sig='rename-(object|edge)-id-not-predicted', input=F('rename-case-only'),
      what='Rename("Y","y") (same name up to case) yields "y 2": the uniqueness check of Rename does not ignore the object itself when the new name differs only in case; RenameIDDeltas predicts "y"'),
 dict(id='C40-rename-to-dotted-name', sig='rename-(object|edge)-id-not-predicted', input=r'"newName": "a[.]b"',
      what='Rename(x, "a.b") (a new name containing a dot) is made unique as if it were the path a.b; Rename and RenameIDDeltas disagree on the quoting/uniqueness of such names'),
 dict(id='C40-rename-to-edge-like-name', sig='rename-object-id-not-predicted', input=r'"newName": "x -> y"',
      what='Rename(c, "x -> y") names the object "(x -> y)[0]" (generateUniqueKey parses the bare new name as a connection) while RenameIDDeltas predicts "x -> y"'),
 dict(id='C40-move-deltas-same-scope-predicts-hoist-renames', sig='move-(object|edge)-id-not-predicted', input=F('child-name-taken-in-parent','same-scope'),
      what='MoveIDDeltas(includeDescendants=false) computes the collision renames of hoisted children even for a same-scope move (a rename), where the children stay under the object: `c; a; d: {c}`, Move("d","a") keeps a 2.c but a 2.c 2 is predicted'),
 dict(id='C40-refinement-delete-leaks-dotted-attributes', sig='delete-refinement', input=F('x-flat-attr'),
      what='the real Delete is not the abstract delete: see C38-delete-object-leaks-dotted-attributes-to-parent (the IDs still agree with the prediction, the parent\'s attributes do not)'),
 dict(id='C40-refinement-move-on-dotted-keys', sig='(move|rename)-refinement', input=FLAT,
      what='the real Move is not the abstract move on dotted-key sources: see C39-move-on-dotted-keys-corrupts'),
 dict(id='C40-refinement-underscore', sig='(delete|move|rename)-refinement', input=ANY('sub-underscore','x-underscore','sube-edge-in-map','t-underscore'),
      what='see C38-hoist-does-not-rewrite-underscore-references'),
 dict(id='C40-board-scoped-move-leaves-the-board', sig='move-prediction-for-removed-(object|edge)|move-(object|edge)-id-not-predicted|move-refinement', input=F('board-nested'),
      what='see C39-board-scoped-move-leaves-the-board: a Move addressed to a nested board that targets the board root writes into the file root, the object vanishes from the board while MoveIDDeltas predicts its new ID'),
 dict(id='C40-move-deltas-collision-name-ignores-hoisted-siblings', sig='move-(object|edge)-id-not-predicted', input=F('child-name-taken-in-parent','x-children'),
      what='MoveIDDeltas(includeDescendants=false) picks the collision name of a hoisted child without looking at its siblings that are hoisted too (DeleteIDDeltas does): `c: {z: {e; e 2}; e}`, Move("c.z","d") yields c.e 3 but c.e 2 is predicted'),
 dict(id='C40-delete-flat-attr', sig='delete-.*', input=F('x-flat-attr'),
      what='see C38-delete-object-leaks-dotted-attributes-to-parent: elements are mismatched after the leak'),
],
'C41':[
 dict(id='C41-board-edit-of-inherited-element-writes-base', sig='(refused-)?scoped-other-board-changed', input=ANY('x-inherited','sub-inherited','dest-inherited'),
      what='an edit addressed to a nested board whose target (or a child / the destination container) is inherited from the base board edits the base board\'s declaration in place (witness: `y: {style.fill: red}; scenarios: {s1: {b}}`, Delete(["s1"], "y.style.fill") removes the fill from the root board)'),
 dict(id='C41-board-scoped-connection-rename-edits-the-root-board', sig='(refused-)?scoped-other-board-changed', input=F('board-nested')+r'.*"key": "[^"]*\(.*"kind": "rename"',
      what='d2oracle.Rename / Move of a CONNECTION addressed to a nested board looks the connection up in the root graph (`obj := g.Root` in move) and rewrites the arrows of the root board\'s connection with the same key (witness: root `c -- c` x2, layer l1 `c -- c` x3, Rename(["l1"], "(c -- c)[1]", "(c <-> c)[1]") changes the root board)'),
],
}
for p,fs in find.items():
    out=[]
    for f in fs:
        m={'sig':f['sig']}
        if 'input' in f: m['input']=f['input']
        if 'detail' in f: m['detail']=f['detail']
        out.append({'id':f['id'],'property':p,'status':'open','match':m,'what':f['what']})
    json.dump(out,open(f'/verif/props/{p}/findings.json','w'),indent=1)

