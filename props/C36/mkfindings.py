#!/usr/bin/env python3
"""Generates props/C3x/findings.json for the editing-API group (C36–C41).

A finding = an INPUT CLASS (regex over the sorted JSON of the case input: class flags `feat` computed by
harness/edit/feat.go from the source form of the addressed element, the operation kind, sometimes the text) plus the
SET OF CLAUSES the unchanged oracle is known to break on that class.  The driver's signature lists every failing
clause joined by "+"; the finding's sig regex accepts any non-empty subset of its clause set, so a change that breaks a
further clause on the same inputs is still reported.

  mkfindings.py            writes the findings from the tables below
  mkfindings.py --mine DIR  additionally reads mined streams (DIR/c3x-<seed>.jsonl + .verd, one verdict per line) and
                           prints, per class, clauses seen that are not yet in its set, and unmatched failures
Closed by fixes on /repo main (kept out, see props/*/findings_fixed.json): C38-delete-object-leaks-dotted-attributes-
to-parent, C39-move-into-own-descendant, C40-move-deltas-stack-overflow, C40-move-into-own-descendant,
C40-rename-uniqueness-scope-differs, C40-delete-deltas-predict-for-removed-edges,
C40-reconnect-deltas-ignore-arrows-and-order, C40-refinement-delete-leaks-dotted-attributes.
"""
import json, re, sys, glob, collections

def F(*feats):
    fs = sorted(feats)
    return r'"feat": \[' + ''.join(r'[^\]]*"%s"' % f for f in fs)
def ANY(*feats):
    return r'"feat": \[[^\]]*"(%s)"' % '|'.join(feats)
def K(kind):
    return r'.*"kind": "%s"' % kind
ATTR = r'.*"op": \{"attr": "[^"]+"'
def CL(cs):
    alt = '|'.join(sorted(re.escape(c) for c in cs))
    return r'(%s)(\+(%s))*' % (alt, alt)

# (id, property, input regex or None, clause set, what)
T = [
 ('C36-format-not-idempotent-when-boards-are-not-last', 'C36', r'layers: \{\\n  l1: \{\\n(?:[^"\\]|\\.)*?\\n  \}\\n\}\\n[^"]',
  ['import-formatter-changes-new-text'],
  'd2oracle.UpdateImport returns Format(ast) of a text whose `layers` block is not the last key: the formatter moves boards last but emits a leading blank line and no separating blank line, which a second Format pass changes (formatter idempotence defect, C03)'),

 ('C36-chained-history-hits-move-panic', 'C36', r'"kind": "move"', ['history-panic'],
  'a chained history runs into the Move panic of C39-move-panics-on-dotted-connection-endpoints (index/slice bounds out of range inside d2oracle.move)'),
 ('C37-create-parallel-edge-renumbers-existing', 'C37', F('t-edge-dotted') + K('create'),
  ['create-changed-existing-edge', 'create-returned-existing-id'],
  'd2oracle.Create of a connection parallel to an existing one whose declaration lies in an outer scope inserts the new declaration earlier in the file: the EXISTING connection is renumbered and the returned key names the old one (witness: `z: L1; z.z: L2 {y: L3}; z.z.y -- z.z: E4`, Create("z.z.y -- z.z"))'),
 ('C37-set-label-overridden-by-later-reference', 'C37', F('x-edge-multiref') + r'.*"op": \{"attr": "(label|source-arrowhead\.label|target-arrowhead\.label)"',
  ['set-value-differs', 'set-changed-other-attr'],
  'd2oracle.Set of a connection label (or arrowhead label) rewrites the FIRST reference that carries one (`(m1 -> m2)[0].label: E93`) although a later reference (`(m1 -> m2)[0]: E15`) overrides it: the label does not change'),

 ('C38-delete-unsupported-attribute-is-a-silent-noop', 'C38', None, ['delattr-not-reset-unsupported-attribute'],
  'd2oracle.Delete of x.label / x.shape / x.direction (anything deleteReserved has no case for) returns success and leaves the attribute set'),
 ('C38-board-scoped-delete-uses-null-children-not-hoisted', 'C38', F('board-nested') + K('delete'),
  ['delobj-lost-object', 'delobj-lost-edge', 'delobj-not-removed', 'delobj-child-not-hoisted', 'delobj-attached-edge-kept', 'delobj-rename-invalid',
   'deledge-not-removed', 'deledge-removed-other-edge', 'deledge-renumber', 'labels-duplicated', 'deledge-result-not-exact'],
  'd2oracle.Delete addressed to a nested board appends `key: null` when the target (or a child) is inherited or when earlier nulls exist: the whole subtree is removed, children are not hoisted, later parallel connections are not renumbered'),
 ('C38-delete-style-attribute-also-strips-descendants', 'C38', F('sub-flat', 'x-children') + ATTR,
  ['delattr-changed-other-object'],
  'd2oracle.Delete("y.style.bold") also removes style.bold from descendants of y that are declared with dotted keys'),
 ('C38-delete-edge-attribute-removes-sibling-arrowhead-field', 'C38', F('x-arrowhead') + ATTR,
  ['delattr-changed-other-attr', 'delattr-not-reset'],
  'd2oracle.Delete of `(a -> a)[0].label` or of one arrowhead field removes the same-named field of the other arrowhead map (deleteMapField matches the last path segment only)'),
 ('C38-delete-attribute-of-chain-connection', 'C38', F('x-chain') + ATTR, ['delattr-not-reset'],
  'd2oracle.Delete of an attribute that a connection has from the map of its chain (`a -> b -> c: {style.stroke: red}`) does nothing: deleteEdgeField skips chain references'),
 ('C38-delete-attribute-of-quoted-name', 'C38', F('x-quoted') + ATTR, ['delattr-not-reset'],
  'd2oracle.Delete("\\"q.r\\".style.fill") on an object whose name needs quotes leaves the attribute set'),
 ('C38-delete-unknown-connection-field-deletes-the-connection', 'C38', r'"op": \{"attr": "language", "board": (?:null|\[[^\]]*\]), "key": "(?:[^"\\]|\\.)*\]\.language"',
  ['delattr-element-count', 'delattr-changed-other-attr', 'delattr-changed-other-edge', 'delattr-not-reset'],
  'd2oracle.Delete("(a -> b)[0].language") — a field of a connection that is not a reserved keyword (the harness derives `language` from a block-string label) — skips deleteReserved and falls through to the connection delete: the whole connection is removed (witness: `a -> b: E1`)'),
 ('C38-duplicate-style-key-survives-delete', 'C38', r'(style\.)?text-transform: [A-Za-z]+\\n\s*(style\.)?text-transform:', ['delattr-not-reset'],
  'after Set(style.text-transform=Lowercase) and Set(…=uppercase) the map holds the key twice; Delete removes one occurrence and the attribute stays set'),
 ('C38-hoist-does-not-rewrite-underscore-references', 'C38', ANY('sub-underscore', 'x-underscore', 'sube-edge-in-map', 't-underscore') + K('delete'),
  ['delobj-new-element', 'delobj-edge-detached', 'delobj-lost-edge', 'delobj-changed-other-id', 'delobj-lost-object'],
  'd2oracle.Delete of a container whose children contain connections written with `_` parent references strips one `_` only: `_.x <-> c` inside d.q becomes `x <-> c` inside q and now names q.x'),

 ('C39-move-dotted-declaration-with-map', 'C39', F('cross-scope', 'x-flat-map') + K('move'), [],
  'd2oracle.Move across scopes of an object declared through a dotted key with a map (`a.d: L5 {…}`) splits label and map wrongly: the label stays with the truncated key (overwriting another object\'s label), the moved object loses label/attributes'),
 ('C39-move-into-dotted-destination', 'C39', F('cross-scope', 'dest-flat') + K('move'), [],
  'd2oracle.Move into a container that is declared through dotted keys sometimes puts the object under the wrong parent / re-creates the destination'),
 ('C39-move-with-dotted-descendants', 'C39', F('cross-scope', 'sub-flat') + K('move'), [],
  'd2oracle.Move across scopes of a container whose descendants are declared through dotted keys loses or misplaces them'),
 ('C39-move-ensure-node-in-wrong-scope', 'C39', F('anc-edge-dotted', 'x-edge-dotted') + K('move'), ['move-new-object'],
  'd2oracle.Move of `m6.e.x` (three levels deep, referenced by a dotted connection endpoint `m6.e.x.d -> m6`) adds a bare key `e` at the file root: a new root object appears'),
 ('C39-move-object-that-exists-only-through-attribute-keys', 'C39', F('cross-scope', 'x-attr-only') + K('move'),
  ['move-lost-moved-object', 'move-lost-object', 'move-new-object', 'move-changed-attrs', 'move-wrong-destination-parent'],
  'd2oracle.Move across scopes of an object that has no declaration key of its own (only `d.m1.style.opacity: 0.3` …) drops it'),
 ('C39-move-panics-on-dotted-connection-endpoints', 'C39', ANY('x-edge-dotted', 'sub-edge-dotted', 'anc-edge-dotted', 't-underscore') + K('move'), ['panic-move'],
  'd2oracle.Move of an object whose subtree is referenced by dotted connection endpoints (`a.z.x <-> q`) panics: slice bounds out of range [-1:] / index out of range (witness: `a: L0; d.e.c: L1; a -> a: E0`, Move("d.e.c","d.b",false))'),
 ('C39-move-ignores-indexed-connection-references', 'C39', ANY('sube-edge-multiref', 'xe-edge-multiref'), ['move-new-object', 'move-lost-edge', 'move-edge-detached', 'move-changed-edge-attrs', 'move-lost-object', 'labels-duplicated'],
  'd2oracle.Move / Rename does not rewrite indexed connection references `(x <- z.q.c.d)[1].style.opacity: 0.5` whose endpoint lies in the moved subtree: the stale key re-creates the old path as new objects and a new connection'),
 ('C39-move-does-not-rewrite-underscore-references', 'C39', ANY('x-underscore', 'sub-underscore', 'anc-underscore', 'dest-underscore', 't-underscore'), ['move-new-object', 'move-lost-edge', 'move-edge-detached', 'move-changed-edge-attrs', 'move-lost-object', 'move-descendant-misplaced', 'labels-duplicated'],
  'd2oracle.Move of an object that is referenced through `_` parent references inside another container leaves those references pointing at the old path, which re-creates it'),
 ('C39-rename-connection-with-indexed-references', 'C39', ANY('x-edge-multiref', 't-edge-multiref') + r'.*"key": "(?:[^"\\]|\\.)*\((?:[^"\\]|\\.)*", "kind": "rename"',
  ['rename-edge-detached', 'rename-edge-changed-other-edge', 'rename-edge-lost-edge', 'rename-edge-new-edge'],
  'renaming a connection (changing its arrows) while indexed references exist: its own `(a <-> d)[1].style.stroke-width: 4` stays on the old arrows, and when it joins an existing parallel group it takes index 0 there, so that group\'s indexed references (`(b -> q)[0].source-arrowhead: 1`) now apply to it instead of the connection they were written for (witness: `b <-> q: E3; b -> q: E4; (b -> q)[0].source-arrowhead: 1`, Rename("(b <-> q)[0]", "(b -> q)[0]"))'),
 ('C39-board-scoped-move-leaves-the-board', 'C39', F('board-nested') + K('move'), ['move-lost-moved-object', 'move-lost-object', 'move-new-object'],
  'd2oracle.Move addressed to a nested board that moves an object to the board root writes the object into the FILE root instead of the board\'s own map: it vanishes from the board'),

]
# C40 / C41 tables (clause sets filled from mining, see SETS)
T += [
 ('C40-move-dotted-declaration-with-map', 'C40', F('cross-scope', 'x-flat-map') + K('move'), [],
  'the Move itself is wrong on this input class (C39-move-dotted-declaration-with-map), so the prediction cannot agree'),
 ('C40-move-into-dotted-destination', 'C40', F('cross-scope', 'dest-flat') + K('move'), [], 'see C39-move-into-dotted-destination'),
 ('C40-move-with-dotted-descendants', 'C40', F('cross-scope', 'sub-flat') + K('move'), [], 'see C39-move-with-dotted-descendants'),
 ('C40-move-dotted-attribute-inside-ancestor-map', 'C40', F('anc-multiref', 'cross-scope', 'x-flat-attr') + K('move'), ['move-prediction-for-removed-object'],
  'Move across scopes of an object with dotted attribute keys that are also written inside an ancestor map (`a b: {q.width: 120}` next to `a b.q: L7`): the object is lost while a new ID is predicted'),
 ('C40-reconnect-with-indexed-references', 'C40', F('x-edge-multiref') + K('reconnect'), ['reconnect-prediction-for-removed-edge', 'reconnect-edge-id-not-predicted'],
  'ReconnectEdge rewrites the declaring reference only: indexed references `(m3 -> m4)[0]: E8` keep the old endpoints, so the label/attributes they carry are lost or re-create the old connection'),
 ('C40-move-object-that-exists-only-through-attribute-keys', 'C40', F('cross-scope', 'x-attr-only') + K('move'),
  ['move-prediction-for-removed-object', 'move-object-id-not-predicted', 'move-refinement'],
  'see C39-move-object-that-exists-only-through-attribute-keys: the object is dropped while MoveIDDeltas predicts its new ID'),
 ('C40-reconnect-connection-declared-inside-container', 'C40', F('x-edge-in-map') + K('reconnect'), ['reconnect-edge-id-not-predicted', 'reconnect-prediction-for-removed-edge'],
  'ReconnectEdgeIDDeltas mispredicts the new ID of a connection that is declared inside a container map and reconnected to an endpoint outside of it'),
 ('C40-reconnect-next-to-chain', 'C40', F('t-chain') + K('reconnect'), ['reconnect-edge-id-not-predicted', 'reconnect-prediction-for-removed-edge'],
  'reconnecting a connection onto endpoints that are also joined by a member of a connection chain: the chain member and the reconnected connection are indexed differently from the prediction'),
 ('C40-delete-on-board-null-mode', 'C40', F('board-nested') + K('delete'), ['delete-prediction-for-removed-object', 'delete-prediction-for-removed-edge', 'delete-object-id-not-predicted', 'delete-edge-id-not-predicted', 'delete-refinement'],
  'board-scoped Delete appends `key: null` (children removed, no renumbering) while DeleteIDDeltas predicts the hoisting/renumbering of the in-place delete'),
 ('C40-rename-edge-arrows-shifts-groups', 'C40', r'"key": "(?:[^"\\]|\\.)*\((?:[^"\\]|\\.)*", "kind": "rename"', ['rename-edge-id-not-predicted'],
  'renaming a connection (changing its arrows) moves it to another parallel group: the remaining connections of the old group are renumbered, RenameIDDeltas predicts only the renamed connection'),
 ('C40-rename-case-only', 'C40', F('rename-case-only'), ['rename-object-id-not-predicted', 'rename-edge-id-not-predicted'],
  'Rename("Y","y") (same name up to case) yields "y 2"; RenameIDDeltas predicts "y"'),
 ('C40-rename-to-dotted-name', 'C40', r'"newName": "a[.]b"', ['rename-object-id-not-predicted', 'rename-edge-id-not-predicted'],
  'Rename(x, "a.b") (a new name containing a dot): Rename and RenameIDDeltas disagree on quoting/uniqueness (not generated by default)'),
 ('C40-rename-to-edge-like-name', 'C40', r'"newName": "x -> y"', ['rename-object-id-not-predicted'],
  'Rename(c, "x -> y") names the object "(x -> y)[0]" while RenameIDDeltas predicts "x -> y" (not generated by default)'),
 ('C40-move-deltas-same-scope-predicts-hoist-renames', 'C40', F('child-name-taken-in-parent', 'same-scope') + K('move'),
  ['move-object-id-not-predicted', 'move-edge-id-not-predicted'],
  'MoveIDDeltas(includeDescendants=false) computes the collision renames of hoisted children even for a same-scope move, where the children stay under the object'),
 ('C40-move-deltas-collision-name-ignores-hoisted-siblings', 'C40', F('clashing-child-has-numbered-sibling') + K('move'),
  ['move-object-id-not-predicted', 'move-edge-id-not-predicted'],
  'MoveIDDeltas(includeDescendants=false) picks the collision name of a hoisted child without looking at its siblings that are hoisted too: `c: {z: {e; e 2}; e}`, Move("c.z","d") yields c.e 3 but c.e 2 is predicted'),
 ('C40-refinement-underscore', 'C40', ANY('sub-underscore', 'x-underscore', 'sube-edge-in-map', 't-underscore', 'anc-underscore', 'dest-underscore'), ['move-refinement', 'rename-refinement', 'delete-refinement', 'move-object-id-not-predicted', 'move-edge-id-not-predicted'],
  'see C38-hoist-does-not-rewrite-underscore-references / C39-move-does-not-rewrite-underscore-references'),
 ('C40-board-scoped-move-leaves-the-board', 'C40', F('board-nested') + K('move'), ['move-prediction-for-removed-object', 'move-prediction-for-removed-edge', 'move-object-id-not-predicted', 'move-edge-id-not-predicted', 'move-refinement'],
  'see C39-board-scoped-move-leaves-the-board'),
 ('C40-move-ignores-indexed-connection-references', 'C40', ANY('sube-edge-multiref', 'xe-edge-multiref') + K('(move|rename)'), ['move-refinement', 'rename-refinement', 'move-object-id-not-predicted', 'move-edge-id-not-predicted', 'rename-edge-id-not-predicted'],
  'see C39-move-ignores-indexed-connection-references'),
 ('C40-move-ensure-node-in-wrong-scope', 'C40', F('anc-edge-dotted', 'x-edge-dotted') + K('move'), ['move-refinement'], 'see C39-move-ensure-node-in-wrong-scope'),

 ('C41-board-delete-attribute-of-inherited-element-writes-base', 'C41', F('x-inherited') + ATTR + r'[^}]*"kind": "delete"',
  ['scoped-other-board-changed'],
  'Delete of an attribute addressed to a nested board whose target is inherited from the base board removes the attribute from the base board\'s declaration (witness: `y: {style.fill: red}; scenarios: {s1: {b}}`, Delete(["s1"], "y.style.fill"))'),
 ('C41-board-set-on-inherited-and-locally-referenced-element-writes-base', 'C41', F('x-inherited-and-local') + K('set'),
  ['scoped-other-board-changed'],
  'Set addressed to a nested board on an element that is inherited and also referenced in the board sometimes rewrites the base board\'s key'),
 ('C41-board-move-into-inherited-container-writes-base', 'C41', ANY('dest-inherited') + K('move'),
  ['scoped-other-board-changed', 'refused-scoped-other-board-changed'],
  'Move addressed to a nested board into a container inherited from the base board edits the base board'),
 ('C41-board-delete-container-renames-in-root-graph', 'C41', F('board-nested', 'child-name-taken-in-parent', 'x-children') + K('delete'),
  ['scoped-other-board-changed'],
  'Delete of a container addressed to a nested board first renames clashing children with move(g, nil, …) ("TODO boardPath" in renameConflictsToParent): the renames are applied to the root board'),
 ('C41-refused-board-move-has-already-renamed-in-root-graph', 'C41', F('board-nested', 'child-name-taken-in-parent', 'cross-scope', 'x-children') + K('move'),
  ['refused-scoped-other-board-changed', 'scoped-other-board-changed'],
  'Move(includeDescendants=false) addressed to a nested board runs renameConflictsToParent (move(g, nil, …) on the ROOT graph) before its scope check: when it then refuses with OutsideScopeError the caller\'s AST already has the base board\'s children renamed (witness: `y.y.e` becomes `y.y.e 2`)'),
 ('C41-refused-reconnect-leaves-uncompilable-graph', 'C41', F('board-nested') + K('reconnect'), ['refused-left-graph-does-not-compile-reconnect'],
  'ReconnectEdge addressed to a nested board that fails with "failed to recompile" has already rewritten the caller\'s AST: the graph the caller still holds no longer compiles'),
 ('C41-refused-set-leaves-uncompilable-graph', 'C41', F('board-nested') + K('set'), ['refused-left-graph-does-not-compile-set'],
  'Set addressed to a nested board that fails with "failed to recompile" (e.g. `near` on a non-root shape) leaves the invalid key in the caller\'s AST'),
 ('C41-refused-delete-leaves-uncompilable-graph', 'C41', F('board-nested') + K('delete'), ['refused-left-graph-does-not-compile-delete'],
  'Delete addressed to a nested board that fails with "failed to recompile" leaves the caller\'s AST half edited'),
 ('C41-refused-connection-rename-leaves-uncompilable-graph', 'C41', F('board-nested') + r'.*"key": "(?:[^"\\]|\\.)*\((?:[^"\\]|\\.)*", "kind": "rename"', ['refused-left-graph-does-not-compile-rename'],
  'Rename of a connection addressed to a nested board that fails with "failed to recompile" leaves the caller\'s AST edited'),
 ('C41-board-scoped-connection-rename-edits-the-root-board', 'C41', F('board-nested') + r'.*"key": "(?:[^"\\]|\\.)*\((?:[^"\\]|\\.)*", "kind": "rename"',
  ['scoped-other-board-changed', 'refused-scoped-other-board-changed'],
  'd2oracle.Rename / Move of a CONNECTION addressed to a nested board looks the connection up in the root graph (`obj := g.Root` in move) and rewrites the arrows of the root board\'s connection with the same key'),
]

# clause sets observed on the unchanged tree (seeds 1..8 quick + thorough 7/8), per class id
SETS = json.load(open(__file__.replace('mkfindings.py', 'clause_sets.json'))) if True else {}

def build():
    out = collections.defaultdict(list)
    for (fid, prop, inp, cs, what) in T:
        cs = sorted(set(cs) | set(SETS.get(fid, [])))
        if not cs:
            continue
        m = {'sig': CL(cs)}
        if inp:
            m['input'] = inp
        out[prop].append({'id': fid, 'property': prop, 'status': 'open', 'match': m, 'what': what, 'clauses': cs})
    return out

LEARN = {'C39-move-object-that-exists-only-through-attribute-keys', 'C40-move-object-that-exists-only-through-attribute-keys', 'C38-board-scoped-delete-uses-null-children-not-hoisted', 'C39-move-dotted-declaration-with-map', 'C39-move-into-dotted-destination',
         'C39-move-with-dotted-descendants', 'C39-board-scoped-move-leaves-the-board', 'C40-move-dotted-declaration-with-map',
         'C40-move-into-dotted-destination', 'C40-move-with-dotted-descendants', 'C40-board-scoped-move-leaves-the-board', 'C40-refinement-underscore'}

def mine(d):
    seen = collections.defaultdict(set)
    un = collections.Counter(); ex = {}
    for f in sorted(glob.glob(d + '/c*-*.jsonl')):
        prop = f.split('/')[-1].split('-')[0].upper()
        try:
            verds = open(f[:-6] + '.verd').read().splitlines()
        except FileNotFoundError:
            continue
        for line, v in zip(open(f), verds):
            if v.startswith(('ok', 'skip')):
                continue
            j = json.loads(line)
            kind, rest = v.split(' ', 1)
            sig = rest.partition(' :: ')[0].strip()
            toks = sig.split('+')
            cin = json.dumps(j.get('in', {}), sort_keys=True)
            hit = None
            for (fid, p, inp, cs, what) in T:
                if p != prop:
                    continue
                if inp and not re.search(inp, cin):
                    continue
                if fid not in LEARN and not (set(toks) <= set(cs) | set(SETS.get(fid, []))):
                    continue
                hit = fid
                break
            if hit:
                seen[hit] |= set(toks)
            else:
                un[(prop, sig)] += 1
                if (prop, sig) not in ex or len(cin) < len(ex[(prop, sig)]):
                    ex[(prop, sig)] = cin
    return seen, un, ex

if __name__ == '__main__':
    if len(sys.argv) > 2 and sys.argv[1] == '--mine':
        seen, un, ex = mine(sys.argv[2])
        cur = dict(SETS)
        for fid, s in sorted(seen.items()):
            base = set(next(t[3] for t in T if t[0] == fid)) | set(cur.get(fid, []))
            new = s - base
            print(fid, 'NEW:' if new else 'ok', sorted(new))
            cur[fid] = sorted(set(cur.get(fid, [])) | s)
        print('UNMATCHED:')
        for k, c in un.most_common():
            print('  ', c, k, '\n       ', ex[k][:900])
        if len(sys.argv) > 3 and sys.argv[3] == '--update':
            json.dump(cur, open(__file__.replace('mkfindings.py', 'clause_sets.json'), 'w'), indent=1, sort_keys=True)
            SETS.clear(); SETS.update(cur)
    for prop, fs in build().items():
        for f in fs:
            for v in f['match'].values():
                re.compile(v)
        json.dump(fs, open('/verif/props/%s/findings.json' % prop, 'w'), indent=1)
        print(prop, len(fs))
