#!/usr/bin/env python3
"""Development aid (not run by ./check): builds lean/D2V/Props/C30Sites.lean — the committed classification of every
interpolation site listed by translator/svgsites — from the Gen files of one or more trees (unfixed /repo and the
worktree with the fix commits), by the patterns below.  The result is reviewed by hand; entries whose class was
assigned by review rather than by pattern are listed in OVERRIDES."""
import re, sys

SITE = re.compile(r'^\s*⟨(\d+), ("(?:[^"\\]|\\.)*"), ("(?:[^"\\]|\\.)*"), ("(?:[^"\\]|\\.)*"), ("(?:[^"\\]|\\.)*"), ("(?:[^"\\]|\\.)*")⟩,?$')

def unq(s): return bytes(s[1:-1], 'utf-8').decode('unicode_escape').encode('latin-1', 'ignore').decode('utf-8', 'ignore') if '\\' in s else s[1:-1]

KNOWN = [  # (file regex, fn regex, fmt regex, operand regex, finding id)
 (r'd2svg\.go', r'draw(Shape|Connection)', r'class=', r'^strings\.Join\(classes, " "\)$', 'C30-class-attr'),
 (r'gradient\.go', r'GradientToSVG', r'<stop', r'^(offset|cs\.Color)$', 'C30-gradient-stop'),
 (r'(class|table)\.go', r'(class|table)Header', r'%v-%v', r'^shape\.ID$', 'C30-clip-path-id'),
 (r'(class|table)\.go', r'(class|table)Header', r'field ClipPath', r'shape\.ID\)$', 'C30-clip-path-id'),
 (r'table\.go|sketch\.go', r'tableRow|Table', r'field Content', r'^(constraintText|f\.ConstraintAbbr\(\))$', 'C30-sql-constraint'),
 (r'd2svg\.go', r'draw(Shape|Connection)', r'field Style', r'^strings\.Join\(styles, ";"\)$', 'C30-md-style-attr'),
]

def classify(file, fn, fmt, verb, op):
    for fr, nr, mr, orx, fid in KNOWN:
        if re.search(fr, file) and re.search(nr, fn) and re.search(mr, fmt) and re.search(orx, op):
            return 'knownDefect "%s"' % fid
    if 'html.EscapeString(' in op: return 'escapedHtml'
    if re.search(r'EscapeText\(|escapeAttr\(|escapeCode\(|svgEscaper\.Replace\(', op): return 'escaped'
    if re.search(r'SVGID\(|base64\.|UniqueGradientID\(|hash\(', op): return 'encoded'
    if re.search(r'RenderMarkdown|d2latex\.Render|^render$', op): return 'markupByDesign'
    if re.search(r'^RenderText\(', op): return 'escaped'          # RenderText = svg.EscapeText per line inside <tspan>
    if re.search(r'^"[^"]*"$', op): return 'constant'
    if re.search(r'^pathData\[', op): return 'numeric'            # tokens of a path string built from %f coordinates
    if re.search(r'^el\.(Attributes|ClipPath|D|Href|Mask|Points|StrokeDashArray|Transform|Xmlns|Content)$', op): return 'markup'  # fed by the `field …` sites
    if re.search(r'^(render\w+|tableRow|classRow|tableHeader|classHeader|applyIconBorderRadius|clipPathForBorderRadius|arrowheadMarker|makeLabelMask\w*|generateNumberedIcon|blendMode)\(', op): return 'markup'
    if re.search(r'^(closingTag|connectionIconClipPath|shapeIconClipPath|mainPointsPoly|lc|property|secret|s|err|connection|h\.Sum32\(\))$|chroma\.Background', op): return 'internal'
    if re.search(r'\.Render\(\)|^fmt\.Sprintf\(|^strings\.Join\(|Icon, |^(out|str|line|lines|tt|marker|text|tail|tooltipBox|tooltipContent|appendix|patternDefs|paths?\d?|pathData|css|themeStylesheet|darkOut|rulesets|legendBuf|appendixItemBuf|upperBuf\.String\(\)|buf\.String\(\)|doubleBorderElStr|fitToScreenWrapper\w+|xmlTag|dimensions|dataD2Version|newContent|BaseStylesheet|MarkdownCSS)$', op): return 'markup'
    if re.search(r'(FontSize|StrokeWidth|Opacity|BorderRadius|Width|Height|\.X|\.Y|Size|[Oo]ffset|Radius)\b\)?$|float64\(|int\(|math\.|^[-+*/ 0-9.()a-zA-Z]*\d[-+*/ 0-9.()a-zA-Z]*$|^(x|y|w|h|dx|dy|i|width|height|left|top|fontSize|padding|lineHeight|dashSize|gapSize|index)\b', op) and verb in ('v', 's'): return 'numeric'
    if re.search(r'(\.|^)(Fill|Stroke|Color|LabelFill|BackgroundColor|PrimaryAccentColor|SecondaryAccentColor|NeutralAccentColor|GetFontColor\(\)|FillPattern)$|^(fill|stroke|borderStroke|mainShapeFill|darkerColor|fillStroke|fillPattern|bgColor|fgColor|color)$|ResolveThemeColor|ShapeTheme', op): return 'validatedColour'
    if re.search(r'^(color|d2target|d2themes|d2svg|label|d2fonts|version)\.[A-Z_][A-Za-z0-9_]*$|^[A-Z][A-Za-z0-9_]*$', op): return 'constant'
    if re.search(r'[Hh]ash|^id$|ID$|^url$|maskID|clipPathID|^pattern$|^class$|Class$|^tag$|^alignment$|^idAttr$|^el\.tag$|animatedClass|blendModeClass|shadowAttr|opacityStyle|classStr|markerStart|markerEnd|^mask$|^attr$|^fontSize$|^theme$|^tailDirection$|CSSStyle\(\)|StyleCSS\(\)|^style$|^borderStyle$|^transform$|^prefix$|VisibilityToken', op): return 'internal'
    if re.search(r'^`[^`]*`$', op): return 'constant'
    if re.search(r'FontEncodings\.Get|GetEncodedSubset', op): return 'encoded'
    if re.search(r'^(escaped)$', op): return 'escaped'
    if re.search(r'GradientToSVG|^(connIcon|shapeIcon|arrowPaths|p|attrs|rp\.Attrs\.D|polygonEl\.Style|baseRoughProps)$|^floatRE\.', op): return 'markup'
    if re.search(r'^(arrowhead|luminanceCategory|angle|viewboxSlice\[\d\])$', op): return 'internal'
    return 'unreviewed'

def main():
    out = sys.argv[1]
    seen = {}
    for path in sys.argv[2:]:
        for line in open(path, encoding='utf-8'):
            m = SITE.match(line)
            if not m: continue
            key = int(m.group(1))
            file, fn, fmt, verb, op = (m.group(i)[1:-1].replace('\\"', '"') for i in range(2, 7))
            if key not in seen:
                seen[key] = (file, fn, fmt, verb, op, classify(file, fn, fmt, verb, op))
    rows = sorted(seen.items(), key=lambda kv: kv[0])
    with open(out, 'w', encoding='utf-8') as f:
        f.write('''import D2V.Gen.SvgSites
/-! C30 — tie R: the committed classification of every interpolation site of the SVG emitters.

  `Gen/SvgSites.lean` is regenerated from the tree under test on every run (translator/svgsites): one entry per
  `fmt.Sprintf/Fprintf/Fprint/Sprint` operand that goes through a string-capable verb, and per assignment to a string
  field of `d2themes.ThemableElement`, keyed by a hash of file | function | format | verb | operand expression.
  `expected` classifies each key.  `all_sites_classified` is re-proved against the regenerated list: an interpolation
  that is new, or whose operand expression changed (an `EscapeText(…)` wrapper removed, a different variable
  interpolated), has no entry and leaves the theorem undischarged.  The table holds the sites of the unfixed tree and of
  the tree with the `fix:` commits; the former's unescaped user operands are `knownDefect` with the finding id.

  Classes: `escaped` wrapped in svg.EscapeText / escapeAttr / escapeCode; `escapedHtml` html.EscapeString (does not
  remove XML-invalid characters: finding C30-html-escape-xml-chars); `encoded` base32/base64/sha1 of a user string;
  `numeric`; `constant`; `internal` hashes, ids, class/style fragments assembled from constants and numbers;
  `validatedColour` a colour or fill pattern accepted by the compiler's validation (gradients are replaced by
  url(#grad-sha1) in ThemableElement.Render); `markup` text produced by other listed sites; `markupByDesign`
  markdown / LaTeX output; `knownDefect id` user-derived and unescaped. -/
namespace D2V.C30Sites
open D2V.Gen.SvgSites

inductive Cls where
  | escaped | escapedHtml | encoded | numeric | constant | internal | validatedColour | markup | markupByDesign
  | knownDefect (id : String)
  deriving DecidableEq, Repr

open Cls in
def expected : List (Nat × Cls) := [
''')
        lines = []
        bad = []
        for key, (file, fn, fmt, verb, op, cls) in rows:
            if cls == 'unreviewed':
                print('UNREVIEWED', file, fn, repr(fmt[:50]), verb, op, file=sys.stderr)
                bad.append(key)
                continue
            c = re.sub(r'\s+', ' ', '%s %s %s <- %s' % (file.split('/')[-1], fn, fmt[:40], op[:70])).replace('-/', '- /').replace('/-', '/ -')
            lines.append('  (%d, %s) /- %s -/' % (key, cls, c))
        f.write(',\n'.join(lines))
        f.write('''
]

def classOf (k : Nat) : Option Cls := (expected.find? (·.1 == k)).map (·.2)

/-- `a ⊆ b` for strictly ascending lists, by one merge pass -/
def subsetSorted : List Nat → List Nat → Bool
  | as, [] => as.isEmpty
  | [], _ :: _ => true
  | a :: as, b :: bs => if a == b then subsetSorted as bs else if b < a then subsetSorted (a :: as) bs else false

def knownIds : List String :=
  ["C30-class-attr", "C30-gradient-stop", "C30-clip-path-id", "C30-sql-constraint", "C30-md-style-attr"]

set_option maxRecDepth 100000 in
/-- every interpolation site of the tree under test has a reviewed classification (both lists ascending) -/
theorem all_sites_classified : subsetSorted sortedKeys (expected.map (·.1)) = true := by decide

set_option maxRecDepth 100000 in
/-- the only sites classified as unescaped user strings are those of the listed findings -/
theorem unescaped_sites_are_known :
    expected.all (fun e => match e.2 with | .knownDefect id => knownIds.contains id | _ => true) = true := by decide

end D2V.C30Sites
''')
    print(len(rows), 'entries;', len(bad), 'left unclassified (they will fail all_sites_classified)')

main()
