"""C08 flow: harness -> Lean driver (as the standard flow), plus in the thorough tier a second harness binary built
with -race whose data-race reports become `race` cases.  Shared by C25 (props/C25/custom.py imports run_flow)."""
import os, json, subprocess, hashlib, re, time


def drive(ctx, ops, tag):
    drv = ctx["entry"]["driver"]
    exe = os.path.join(ctx["lean"], ".lake", "build", "bin", "drv_" + drv.split(".")[-1].lower())
    verd = os.path.join(ctx["work"], "verdicts-%s.txt" % tag)
    t = time.time()
    with open(ops) as fi, open(verd, "w") as fo:
        p = subprocess.run([exe], stdin=fi, stdout=fo, stderr=subprocess.PIPE, text=True)
    ctx["ev"]["driver_s"] = round(ctx["ev"].get("driver_s", 0) + time.time() - t, 2)
    if p.returncode != 0:
        raise RuntimeError("driver crashed: " + p.stderr[-800:])
    return verd


def collect(ops, verd, res):
    with open(ops) as fo, open(verd) as fv:
        for line, v in zip(fo, fv):
            v = v.rstrip("\n")
            kind = v.split(" ", 1)[0]
            try:
                j = json.loads(line)
            except Exception:
                j = {"raw": line[:200]}
            if kind == "skip":
                if j.get("k") == "_stats":
                    for k, n in j.get("hist", {}).items():
                        res["stats"]["hist"][k] = res["stats"]["hist"].get(k, 0) + n
                continue
            res["evaluations"] += 1
            if not j.get("triv"):
                res["distinct"].append(hashlib.sha1(json.dumps(j.get("in", j), sort_keys=True).encode()).hexdigest())
            if len(res["samples"]) < 3 and len(line) < 1500:
                res["samples"].append(j)
            if kind == "ok":
                res["ok"] += 1
            elif kind in ("mismatch", "specfalse", "bad"):
                rest = v[len(kind) + 1:]
                sig, _, detail = rest.partition(" :: ")
                res["violations"].append({"kind": kind if kind != "bad" else "mismatch", "sig": sig.strip(), "detail": detail[:2000], "case": j})


def run_harness(ctx, exe, ops, extra_env=None, tier=None):
    cmd = [exe, "--seed", str(ctx["seed"]), "--tier", tier or ctx["tier"], "--out", ops, "--work", ctx["work"]]
    if ctx["search"]:
        cmd.append("--search")
    if ctx["replay"]:
        cmd += ["--replay", ctx["replay"]]
    env = dict(ctx["goenv"], GOMEMLIMIT="12GiB", D2V_REPO=ctx["repo"], D2V_ROOT=ctx["root"])
    env.update(extra_env or {})
    t = time.time()
    p = subprocess.run(cmd, cwd=os.path.join(ctx["root"], "harness"), env=env, stdout=subprocess.PIPE, stderr=subprocess.PIPE, text=True,
                       timeout=ctx["entry"].get("harness_timeout_s", 7200))
    ctx["ev"]["harness_s"] = round(ctx["ev"].get("harness_s", 0) + time.time() - t, 2)
    return p


RACE_RE = re.compile(r"WARNING: DATA RACE\n(.*?)\n==================", re.S)


def race_cases(stderr, ops_path):
    """one `race` line per distinct pair of racing d2 functions"""
    seen = {}
    for m in RACE_RE.finditer(stderr):
        rep = m.group(1)
        fns = re.findall(r"^\s+(oss\.terrastruct\.com/d2/[^\s(]+)", rep, re.M)
        key = "|".join(fns[:2]) or rep[:80]
        seen.setdefault(key, rep[:1500])
    with open(ops_path, "w") as f:
        for key, rep in seen.items():
            f.write(json.dumps({"k": "race", "in": {"functions": key}, "out": {"report": rep}}) + "\n")
    return len(seen)


SITE_QUERY = """import D2V.Proofs.FoldPerm
open D2V.Fold D2V.Gen.MapRanges
def siteLine (s : Site) : String := s!"{s.group} {s.kind} {s.file} :: {s.fn} :: range {s.expr} (body hash {s.bh})"
#eval IO.println (String.intercalate "\n" ((mapRangeSites.filter fun s => (classify s).isNone).map fun s => "UNCLASSIFIED " ++ siteLine s))
#eval IO.println (String.intercalate "\n" ((mapRangeSites.filter fun s => (classify s).map LoopClass.orderFree == some false).map fun s => "NOT-ORDER-FREE " ++ siteLine s))
#eval IO.println (String.intercalate "\n" ((mapRangeSites.filter fun s => s.kind == "globalwrite").map fun s => "GLOBALWRITE " ++ siteLine s))
"""


def name_sites(ctx, res):
    """an obligation broke: say which sites of the tree under test have no row in the committed table (new range over
    a map, changed loop body, new package-level write), so the replay file names them"""
    q = os.path.join(ctx["work"], "SiteQuery.lean")
    open(q, "w").write(SITE_QUERY)
    with ctx["Lock"]("lake"):
        rc, out, dt = ctx["run"](["lake", "env", "lean", q], cwd=ctx["lean"])
    grp = ctx["pid"]
    lines = [l for l in out.splitlines() if l.startswith(("UNCLASSIFIED " + grp, "NOT-ORDER-FREE " + grp, "GLOBALWRITE " + grp, "SHARED-STATE " + grp))]
    uncl = [l for l in lines if l.startswith("UNCLASSIFIED")]
    res["coverage"]["sites_report"] = lines[:40]
    if uncl:
        res["violations"].append({"kind": "proof-broken", "sig": "sites:unclassified", "theorem": "siteTable",
                                  "detail": "sites without a row in Proofs/FoldPerm.lean siteTable (classify after reading the loop body): " + " ; ".join(uncl)[:1800],
                                  "case": None})


def run_flow(ctx, extra_env=None):
    res = {"violations": [], "ok": 0, "evaluations": 0, "distinct": [], "samples": [], "stats": {"hist": {}}, "coverage": {}}
    if ctx["search"]:
        try:
            name_sites(ctx, res)
        except Exception as e:  # never let the diagnosis hide the verdict
            res["coverage"]["sites_report"] = ["site query failed: %s" % e]
    exe, err = ctx["build_harness"](ctx["pid"], ctx["entry"], ctx["ev"], ctx["work"])
    if err:
        res["violations"].append({"kind": "harness-error", "sig": "harness", "detail": err, "case": None, "theorem": "correspondence:" + ctx["pid"]})
        return res
    ops = os.path.join(ctx["work"], "ops.jsonl")
    p = run_harness(ctx, exe, ops, extra_env)
    if p.returncode != 0:
        err = p.stderr or p.stdout or ""
        m = re.search(r"fatal error: (concurrent map[^\n]*)", err)
        if m:
            # the Go runtime detected unsynchronised access to a shared map and killed the process: that *is* the
            # observation "concurrent compilations share mutable state"
            fns = re.findall(r"^(oss\.terrastruct\.com/d2/[^\s(]+(?:\([^)]*\))?[^\s(]*)\(", err, re.M)
            rops = os.path.join(ctx["work"], "fatal-race.jsonl")
            with open(rops, "w") as f:
                f.write(json.dumps({"k": "race", "in": {"functions": "|".join(fns[:2]), "fatal": m.group(1)},
                                    "out": {"report": "fatal error: " + m.group(1) + " in " + " <- ".join(fns[:4])}}) + "\n")
            collect(rops, drive(ctx, rops, "fatalrace"), res)
            return res
        res["violations"].append({"kind": "harness-error", "sig": "harness", "detail": "harness failed rc=%d: %s" % (p.returncode, err[-1500:]),
                                  "case": None, "theorem": "correspondence:" + ctx["pid"]})
        return res
    collect(ops, drive(ctx, ops, "main"), res)
    res["coverage"]["race_build"] = "not run (quick tier)"
    if ctx["tier"] == "thorough" and not ctx["replay"]:
        # second binary under the race detector (entry.json's go_build_flags would apply to every tier)
        entry2 = dict(ctx["entry"], go_build_flags=["-race"], harness_pkg=ctx["entry"].get("harness_pkg", ctx["pid"].lower()))
        work2 = os.path.join(ctx["work"], "race")
        os.makedirs(work2, exist_ok=True)
        ev2 = {}
        exe2, err2 = ctx["build_harness"](ctx["pid"], entry2, ev2, work2)
        ctx["ev"]["go_build_race_s"] = ev2.get("go_build_s")
        if err2:
            res["coverage"]["race_build"] = "unavailable: " + err2[-300:]
        else:
            ops2 = os.path.join(work2, "ops.jsonl")
            p2 = run_harness(ctx, exe2, ops2, dict(extra_env or {}, GORACE="halt_on_error=0 history_size=3", D2V_RACE="1"))
            if p2.returncode not in (0, 66):
                res["violations"].append({"kind": "harness-error", "sig": "harness-race", "detail": "race harness rc=%d: %s" % (p2.returncode, p2.stderr[-1500:]),
                                          "case": None, "theorem": "correspondence:" + ctx["pid"]})
            else:
                if os.path.exists(ops2):
                    collect(ops2, drive(ctx, ops2, "race"), res)
                rops = os.path.join(work2, "race.jsonl")
                n = race_cases(p2.stderr or "", rops)
                res["coverage"]["race_build"] = "run; %d distinct data-race reports" % n
                if n:
                    collect(rops, drive(ctx, rops, "racerep"), res)
    return res


def run(ctx):
    return run_flow(ctx)
